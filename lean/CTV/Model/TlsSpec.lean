import CTV.Gen.Tls
/-!
Reference copies (`Spec.*`) of the whole bodies / `parseField` clauses regenerated from tls/tls.go (extract/k_tls.go), and the
equalities `Gen.X = Spec.X`. The tie theorems of `Props/C09Tie.lean` are proved against the copies, so a behaviour-preserving
restructuring (entry points delegating to helpers, the vector prefix read by a helper with several results, the element loop moved
into a helper or under a flipped test, a guard split in two, `err == nil` nesting) only has to get through `same_body`.
-/
/-- unfold both bodies; `rfl`, `grind` (congruence closure with case splits on the `if`s) or split every `if` and close each case by simp -/
macro "same_body9" a:ident b:ident : tactic =>
  `(tactic| (unfold $a $b; first | rfl | grind | ((try simp only []); first | done | rfl | ((repeat' split) <;> (first | rfl | grind | (simp_all <;> (try omega)))))))

namespace Spec

def readVarUintBody (infoNil noCount short checkFails : Bool) : Nat × Bool :=
  if (infoNil || noCount) then
    ((0 : Nat), true)
  else
  if short then
    ((0 : Nat), true)
  else
  if checkFails then
    ((0 : Nat), true)
  else
  ((1 : Nat), false)

def parseSliceBody (prefixBad tooLong isBytes elemFails : Bool) : Nat × Bool × Bool :=
  let alloc_ := false
  if prefixBad then
    ((0 : Nat), true, alloc_)
  else
  if tooLong then
    ((0 : Nat), true, alloc_)
  else
  if isBytes then
    let alloc_ := true
    ((0 : Nat), false, alloc_)
  else
  let alloc_ := true
  if elemFails then
    ((0 : Nat), true, alloc_)
  else
  ((0 : Nat), false, alloc_)

def parseArrayBody (tooLong notBytes : Bool) : Nat × Bool :=
  if tooLong then
    ((0 : Nat), true)
  else
  if notBytes then
    ((0 : Nat), true)
  else
  ((0 : Nat), false)

def parseEnumBody (prefixBad : Bool) : Nat × Bool :=
  if prefixBad then
    ((0 : Nat), true)
  else
  ((0 : Nat), false)

def unmarshalWithParamsBody (tagBad parseFails : Bool) : Nat × Bool :=
  if tagBad then
    ((0 : Nat), true)
  else
  if parseFails then
    ((0 : Nat), true)
  else
  ((1 : Nat), false)

def marshalWithParamsBody (tagBad marshalFails : Bool) : Nat × Bool :=
  if tagBad then
    ((0 : Nat), true)
  else
  if marshalFails then
    ((0 : Nat), true)
  else
  ((1 : Nat), false)

end Spec

namespace Gen

theorem readVarUintBody_eq_spec : @Gen.readVarUintBody = @Spec.readVarUintBody := by
  funext infoNil noCount short checkFails
  same_body9 Gen.readVarUintBody Spec.readVarUintBody

theorem parseSliceBody_eq_spec : @Gen.parseSliceBody = @Spec.parseSliceBody := by
  funext prefixBad tooLong isBytes elemFails
  same_body9 Gen.parseSliceBody Spec.parseSliceBody

theorem parseArrayBody_eq_spec : @Gen.parseArrayBody = @Spec.parseArrayBody := by
  funext tooLong notBytes
  same_body9 Gen.parseArrayBody Spec.parseArrayBody

theorem parseEnumBody_eq_spec : @Gen.parseEnumBody = @Spec.parseEnumBody := by
  funext prefixBad
  same_body9 Gen.parseEnumBody Spec.parseEnumBody

theorem unmarshalWithParamsBody_eq_spec : @Gen.unmarshalWithParamsBody = @Spec.unmarshalWithParamsBody := by
  funext tagBad parseFails
  same_body9 Gen.unmarshalWithParamsBody Spec.unmarshalWithParamsBody

theorem marshalWithParamsBody_eq_spec : @Gen.marshalWithParamsBody = @Spec.marshalWithParamsBody := by
  funext tagBad marshalFails
  same_body9 Gen.marshalWithParamsBody Spec.marshalWithParamsBody

end Gen
