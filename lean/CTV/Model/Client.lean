import CTV.Gen.Client
import CTV.Model.SigVerify
/-!
Model of the log client (C12): client/logclient.go `GetSTH`, `addChainWithRetry`, the plain GET
methods, client/getentries.go `GetEntries`, jsonclient `GetAndParse` / `PostAndParseWithRetry`
(status handling only; retry pacing is C13's subject), types.go `ToSignedTreeHead`,
serialization.go `RawLogEntryFromLeaf`.

A server response is **arbitrary**: a status and, for the response struct of the endpoint, either
"the body did not decode as JSON into that struct" or the decoded field values, whatever they are
(encoding/json and base64 are trusted).  Signature verification is C05's `verifySTH`/`verifySCT`.
Core only.  Tied to the code by the C12 correspondence run.
-/
namespace CTV.Client
open CTV CTV.SigV CTV.SigInput

/-- outcome of a client call -/
inductive Res (α : Type)
  | ok (v : α)
  | rspErr (status : Nat) (body : Bytes)   -- jsonclient.RspError{StatusCode, Body}: the status and the raw body of the response
  | err                     -- any other error
  | panic
deriving Repr, DecidableEq

def Res.isOk {α : Type} : Res α → Bool
  | .ok _ => true
  | _ => false

/-- one response as the client sees it: `body = none` when the JSON decoding into the endpoint's struct fails -/
structure Rsp (β : Type) where
  status : Nat
  /-- the body as received (arbitrary octets) -/
  raw : Bytes
  /-- what the JSON decoder makes of `raw` for the endpoint's struct (`none`: it does not decode) -/
  body : Option β

/-! ### TLS fragments (hand-written; `tls.Unmarshal` of DigitallySigned, MerkleTreeLeaf, the chain structures) -/

def readUint (w : Nat) (bs : Bytes) : Option (Nat × Bytes) :=
  if bs.length < w then none else some (beDec (bs.take w), bs.drop w)

/-- `opaque v<lo..hi>` with a `w`-byte length -/
def readOpaque (w lo hi : Nat) (bs : Bytes) : Option (Bytes × Bytes) :=
  match readUint w bs with
  | none => none
  | some (n, rest) =>
    if n < lo ∨ n > hi then none
    else if n > rest.length then none
    else some (rest.take n, rest.drop n)

def writeOpaque (w : Nat) (b : Bytes) : Bytes := beEnc w b.length ++ b

/-- tls.Unmarshal(b, &DigitallySigned): hash(1) signature(1) opaque<0..2^16-1> -/
def dsDecode (bs : Bytes) : Option (DigitallySigned × Bytes) :=
  match bs with
  | h :: a :: rest =>
    match readOpaque 2 0 65535 rest with
    | some (sig, rest') => some (⟨h.toNat, a.toNat, sig⟩, rest')
    | none => none
  | _ => none

/-- exactly one DigitallySigned, nothing after it -/
def dsExact (bs : Bytes) : Option DigitallySigned :=
  match dsDecode bs with
  | some (ds, []) => some ds
  | _ => none

/-! ### get-sth -/

structure SthBody where
  treeSize : UInt64
  timestamp : UInt64
  root : Bytes
  sig : Bytes

/-- `GetSTHResponse.ToSignedTreeHead` -/
def toSignedTreeHead (b : SthBody) : Option STH :=
  if b.root.length ≠ 32 then none
  else match dsExact b.sig with
    | none => none
    | some ds => some ⟨0, b.treeSize, b.timestamp, b.root, ds⟩

/-- LogClient.GetSTH; `verifier = none`: the client was built without a public key -/
def getSTH (P : Prims) (verifier : Option Key) (r : Rsp SthBody) : Res STH :=
  if r.status ≠ 200 then .rspErr r.status r.raw
  else match r.body with
    | none => .rspErr r.status r.raw
    | some b =>
      match toSignedTreeHead b with
      | none => .rspErr r.status r.raw
      | some sth =>
        match (if Gen.clientVerifiesBeforeReturn then verifier else none) with
        | none => .ok sth
        | some key =>
          match verifySTH P key sth with
          | .ok => .ok sth
          | .err => .rspErr r.status r.raw
          | .panic => .panic

/-! ### construction -/

/-- client.New / jsonclient.New on the key option of `jsonclient.Options`.  `given`: PublicKeyDER is non-empty or the PublicKey
string is non-empty (whatever it contains); `parsed`: the key the option holds when it is exactly one well-formed key that
NewSignatureVerifier supports (X.509 / PEM parsing and the key policy are C11's / C05's subjects).  The result is the
client's verifier.  Shape regenerated: `Gen.clientKeyOptionFailsClosed`. -/
def newClient (given : Bool) (parsed : Option Key) : Res (Option Key) :=
  if !Gen.clientKeyOptionFailsClosed then .ok parsed
  else if !given then .ok none
  else match parsed with
    | some k => .ok (some k)
    | none => .err

/-! ### add-chain / add-pre-chain -/

structure SctBody where
  version : Nat
  id : Bytes
  timestamp : UInt64
  /-- base64 decoding of `extensions` (`none`: not base64) -/
  extensions : Option Bytes
  signature : Bytes

/-- outcome of `ct.MerkleTreeLeafFromRawChain(chain, etype, ts)` as far as the SCT signature input needs it -/
inductive LeafBuild
  | ok (e : Entry)
  | err
  | panic       -- an empty chain, before dab2fab: `chain[0]`
deriving DecidableEq

/-- what the X.509 parser says about one certificate of the submitted chain (C11's subject; inputs of this model) -/
structure ChainCert where
  /-- the DER octets as submitted -/
  raw : Bytes
  /-- `x509.ParseCertificate` reports a fatal error -/
  fatal : Bool
  /-- `RawTBSCertificate` -/
  tbs : Bytes
  /-- `RawSubjectPublicKeyInfo` -/
  spki : Bytes
  /-- carries the Certificate Transparency EKU (a Precertificate Signing Certificate, RFC 6962 §3.1) -/
  preIssuer : Bool
deriving DecidableEq

/-- the two functions the leaf builder relies on: SHA-256 and `x509.BuildPrecertTBS` (C03's subject: the TBSCertificate
without the poison extension, re-issued under the final issuer when a pre-issuer is given) -/
structure LeafEnv where
  hash : Bytes → Bytes
  buildPrecertTBS : Bytes → Option ChainCert → Option Bytes

/-- `ct.MerkleTreeLeafFromRawChain` + `MerkleTreeLeafFromChain` (serialization.go): at most the first three certificates
are parsed (a fatal error in any of them is an error); an X.509 entry is the first certificate as submitted; a
precertificate entry needs the issuer (second certificate, or the third when the second is a pre-issuer) and is
(SHA-256 of that issuer's SPKI, BuildPrecertTBS of the first certificate's TBS).  The guard against an empty chain is the
regenerated `Gen.leafFromChainGuardsEmpty`. -/
def leafFromRawChain (env : LeafEnv) (chain : List ChainCert) (pre : Bool) : LeafBuild :=
  let used := chain.take 3
  if !Gen.leafFromChainShape then .err
  else if used.any (·.fatal) then .err
  else match used with
    | [] => if Gen.leafFromChainGuardsEmpty || pre then .err else .panic
    | c :: rest =>
      if !pre then .ok (.x509 c.raw)
      else match rest with
        | [] => .err                                   -- no issuer cert available
        | i :: rest' =>
          if !i.preIssuer then
            match env.buildPrecertTBS c.tbs none with
            | some t => .ok (.precert (env.hash i.spki) t)
            | none => .err
          else match rest' with
            | [] => .err                               -- no issuer cert available for pre-issuer
            | j :: _ =>
              match env.buildPrecertTBS c.tbs (some i) with
              | some t => .ok (.precert (env.hash j.spki) t)
              | none => .err

/-- `copy(logID.KeyID[:], resp.ID)`: the first 32 octets, zero-filled -/
def copyID (id : Bytes) : Bytes := (id ++ List.replicate 32 0).take 32

/-- is the response's `id` accepted?  `hasKey`: a verifier is configured; `keyID`: what `logIDForKey` gives for its key
(SHA-256 of the SPKI; `none`: the key cannot be marshalled).  By the regenerated `Gen.addChainIDPolicy`:
0 copied unchecked; 1 `checkLogID` (regenerated flags); 2 with a key, a *present* id must be the key hash. -/
def idAccepted (hasKey : Bool) (keyID : Option Bytes) (id : Bytes) : Bool :=
  if Gen.addChainIDPolicy = 2 then
    (if hasKey then (match keyID with | none => false | some k => id.isEmpty || id = k) else true)
  else
    (!Gen.addChainChecksIDLength || id.length = 32) &&
    (!Gen.addChainChecksIDAgainstKey || match keyID with | none => true | some k => id = k)

/-- the log ID of the SCT handed back: under policy 2 and with a key, the key's own hash; otherwise the response's id,
cut or zero-filled to 32 octets -/
def sctLogID (hasKey : Bool) (keyID : Option Bytes) (id : Bytes) : Bytes :=
  if Gen.addChainIDPolicy = 2 && hasKey then keyID.getD [] else copyID id

/-- the part of addChainWithRetry after a 200 response that decoded as JSON; `keyID` = SHA-256 of the configured key's SPKI -/
def addChainFinal (P : Prims) (verifier : Option Key) (keyID : Option Bytes) (leaf : LeafBuild) (status : Nat) (raw : Bytes) (b : SctBody) : Res SCT :=
  match dsExact b.signature with
  | none => .rspErr status raw
  | some ds =>
    match b.extensions with
    | none => .rspErr status raw
    | some exts =>
      if !idAccepted verifier.isSome keyID b.id then .rspErr status raw
      else
        let sct : SCT := ⟨b.version, sctLogID verifier.isSome keyID b.id, b.timestamp, exts, ds⟩
        match (if Gen.clientVerifiesBeforeReturn then verifier else none) with
        | none => .ok sct
        | some key =>
          match leaf with
          | .err => .rspErr status raw
          | .panic => .panic
          | .ok e =>
            match verifySCT P key sct e with
            | .ok => .ok sct
            | .err => .rspErr status raw
            | .panic => .panic

/-- PostAndParseWithRetry sends the request again after these statuses (regenerated set) -/
def retried (status : Nat) : Bool := Gen.postRetryStatuses.contains status

/-- LogClient.AddChain / AddPreChain against the responses the server gives to the successive attempts
(PostAndParseWithRetry: a 200 that does not decode and the statuses of `Gen.postRetryStatuses` are retried;
an exhausted list = the context ended) -/
def addChain (P : Prims) (verifier : Option Key) (keyID : Option Bytes) (leaf : LeafBuild) : List (Rsp SctBody) → Res SCT
  | [] => .err
  | r :: rest =>
    if r.status = 200 then
      match r.body with
      | none => addChain P verifier keyID leaf rest
      | some b => addChainFinal P verifier keyID leaf r.status r.raw b
    else if retried r.status then addChain P verifier keyID leaf rest
    else .rspErr r.status r.raw

/-! ### plain GET methods: get-sth-consistency, get-proof-by-hash, get-entry-and-proof, get-entries (raw), get-roots -/

/-- GetAndParse and nothing else: the decoded struct is handed back as it is -/
def plainGet {β : Type} (r : Rsp β) : Res β :=
  if r.status ≠ 200 then .rspErr r.status r.raw
  else match r.body with
    | none => .rspErr r.status r.raw
    | some b => .ok b

/-- GetAcceptedRoots: every certificate must be base64 (`none` = it is not) -/
def getRoots (r : Rsp (List (Option Bytes))) : Res (List Bytes) :=
  match plainGet r with
  | .ok cs => if cs.all Option.isSome then .ok (cs.filterMap id) else .rspErr r.status r.raw
  | .rspErr s b => .rspErr s b
  | .err => .err
  | .panic => .panic

/-- TemporalLogClient.GetAcceptedRoots over the shards' responses (`none`: the transport gave no response): the union of
the shards' roots when every shard succeeds, otherwise an error and **no** roots (which shard's error is reported depends
on which goroutine finishes first; the model only says that it is an error) -/
def shardOk (s : Option (Rsp (List (Option Bytes)))) : Bool :=
  match s with
  | some r => (getRoots r).isOk
  | none => false

def temporalRoots (shards : List (Option (Rsp (List (Option Bytes))))) : Option (List Bytes) :=
  if shards.all shardOk then
    some (shards.flatMap fun s => match s with
      | some r => (match getRoots r with | .ok cs => cs | _ => [])
      | none => [])
  else none

/-! ### the entry decoder -/

inductive LeafEntry
  | x509 (cert : Bytes)
  | precert (issuerKeyHash tbs : Bytes)
  | json (data : Bytes)
deriving DecidableEq, Repr

/-- ct.MerkleTreeLeaf with leaf_type = timestamped_entry -/
structure Leaf where
  version : Nat
  timestamp : Nat
  entry : LeafEntry
  extensions : Bytes
deriving DecidableEq, Repr

def readArray (n : Nat) (bs : Bytes) : Option (Bytes × Bytes) :=
  if bs.length < n then none else some (bs.take n, bs.drop n)

def decLeafEntry (etype : Nat) (bs : Bytes) : Option (LeafEntry × Bytes) :=
  if etype = 0 then
    match readOpaque 3 1 16777215 bs with
    | some (c, rest) => some (.x509 c, rest)
    | none => none
  else if etype = 1 then
    match readArray 32 bs with
    | none => none
    | some (ikh, rest) =>
      match readOpaque 3 1 16777215 rest with
      | some (t, rest') => some (.precert ikh t, rest')
      | none => none
  else if etype = 32768 then
    match readOpaque 3 0 1677215 bs with
    | some (d, rest) => some (.json d, rest)
    | none => none
  else none

/-- tls.Unmarshal(leaf_input, &MerkleTreeLeaf) with nothing left over -/
def decLeaf (bs : Bytes) : Option Leaf :=
  match bs with
  | v :: lt :: rest =>
    if lt.toNat ≠ 0 then none        -- unhandled value for selector LeafType
    else match readUint 8 rest with
      | none => none
      | some (ts, r1) =>
        match readUint 2 r1 with
        | none => none
        | some (et, r2) =>
          match decLeafEntry et r2 with
          | none => none
          | some (e, r3) =>
            match readOpaque 2 0 65535 r3 with
            | some (x, []) => some ⟨v.toNat, ts, e, x⟩
            | _ => none
  | _ => none

/-- the elements of a vector of ASN.1Cert; the whole input must be consumed -/
def readCerts : Nat → Bytes → Option (List Bytes)
  | _, [] => some []
  | 0, _ :: _ => none
  | f+1, b :: bs =>
    match readOpaque 3 1 16777215 (b :: bs) with
    | none => none
    | some (c, rest) =>
      match readCerts f rest with
      | some cs => some (c :: cs)
      | none => none

/-- `ASN.1Cert certificate_chain<0..2^24-1>` -/
def readCertVec (bs : Bytes) : Option (List Bytes × Bytes) :=
  match readOpaque 3 0 16777215 bs with
  | none => none
  | some (inner, rest) =>
    match readCerts inner.length inner with
    | some cs => some (cs, rest)
    | none => none

/-- ct.RawLogEntry: the leaf, the submitted (pre-)certificate and the rest of the chain -/
structure RawEntry where
  leaf : Leaf
  cert : Bytes
  chain : List Bytes
deriving DecidableEq, Repr

/-- ct.RawLogEntryFromLeaf (the index is copied through) -/
def rawLogEntryFromLeaf (leafInput extraData : Bytes) : Option RawEntry :=
  match decLeaf leafInput with
  | none => none
  | some leaf =>
    match leaf.entry with
    | .x509 cert =>
      match readCertVec extraData with
      | some (chain, []) => some ⟨leaf, cert, chain⟩
      | _ => none
    | .precert _ _ =>
      match readOpaque 3 1 16777215 extraData with
      | none => none
      | some (pre, rest) =>
        match readCertVec rest with
        | some (chain, []) => some ⟨leaf, pre, chain⟩
        | _ => none
    | .json _ => none                -- "unknown entry type"

/-! encoders: what `tls.Marshal` writes for the same values (used to state consistency) -/

def encLeafEntry : LeafEntry → Bytes
  | .x509 c => beEnc 2 0 ++ writeOpaque 3 c
  | .precert ikh t => beEnc 2 1 ++ (ikh ++ writeOpaque 3 t)
  | .json d => beEnc 2 32768 ++ writeOpaque 3 d

def encLeaf (l : Leaf) : Bytes :=
  UInt8.ofNat l.version :: 0 :: (beEnc 8 l.timestamp ++ (encLeafEntry l.entry ++ writeOpaque 2 l.extensions))

def encCerts (cs : List Bytes) : Bytes := (cs.map (writeOpaque 3)).flatten

def encCertVec (cs : List Bytes) : Bytes := writeOpaque 3 (encCerts cs)

/-- the `extra_data` a RawEntry corresponds to -/
def encExtra (e : RawEntry) : Bytes :=
  match e.leaf.entry with
  | .x509 _ => encCertVec e.chain
  | _ => writeOpaque 3 e.cert ++ encCertVec e.chain

/-! ### get-entries -/

/-- one element of the `entries` array: the two byte strings and whether the X.509 parser reports a
fatal error for the (pre-)certificate they carry (trusted oracle, C11's subject) -/
structure EntryIn where
  leafInput : Bytes
  extraData : Bytes
  x509Fatal : Bool

def decodeAll : List EntryIn → Option (List RawEntry)
  | [] => some []
  | e :: es =>
    match rawLogEntryFromLeaf e.leafInput e.extraData with
    | none => none
    | some r => if e.x509Fatal then none else
      match decodeAll es with
      | some rs => some (r :: rs)
      | none => none

/-- LogClient.GetEntries(start, end) -/
def getEntries (start end_ : Int) (r : Rsp (List EntryIn)) : Res (List RawEntry) :=
  if end_ < 0 ∨ end_ < start then .err        -- refused before any request is made
  else match plainGet r with
    | .ok es =>
      match decodeAll es with
      | some rs => .ok rs
      | none => if Gen.getEntriesWrapsDecodeError then .rspErr r.status r.raw else .err
    | .rspErr s b => .rspErr s b
    | .err => .err
    | .panic => .panic

end CTV.Client
