import CTV.Gen.CtTypes
import CTV.Rfc6962.Wire
import CTV.Rfc6962.Api
/-!
# The repository's CT wire types as codec types, and the RFC values as codec values (core only)

`tyOf g` is what `tls.Marshal` / `tls.Unmarshal` see for the regenerated Go type `g` (`Gen.ct_*`, from the
struct tags in types.go, tls/types.go, x509/x509.go) once the tags have gone through `Tls.parseTag`.
The `…Val` functions lay an RFC value (`Rfc.*`) out as the Go struct value that carries it.

Then the hand models of the three wrappers of serialization.go.
-/
namespace CtWire
open Tls CTV

def tyOf (g : GoTy) : Ty := resolve false g none

def tMerkleTreeLeaf := tyOf Gen.ct_MerkleTreeLeaf
def tTimestampedEntry := tyOf Gen.ct_TimestampedEntry
def tSCT := tyOf Gen.ct_SignedCertificateTimestamp
def tCertificateTimestamp := tyOf Gen.ct_CertificateTimestamp
def tTreeHeadSignature := tyOf Gen.ct_TreeHeadSignature
def tDigitallySigned := tyOf Gen.ct_DigitallySigned
def tASN1Cert := tyOf Gen.ct_ASN1Cert
def tPreCert := tyOf Gen.ct_PreCert
def tPrecertChainEntry := tyOf Gen.ct_PrecertChainEntry
def tCertificateChain := tyOf Gen.ct_CertificateChain
def tSerializedSCT := tyOf Gen.x509_SerializedSCT
def tSCTList := tyOf Gen.x509_SignedCertificateTimestampList

/-! ## RFC values as Go struct values -/

def dsVal (d : Rfc.DigitallySigned) : Val := .struct [.struct [.num d.hash, .num d.sigAlg], .bytes d.signature]
def asn1CertVal (c : Bytes) : Val := .struct [.bytes c]
def preCertVal (p : Rfc.PreCert) : Val := .struct [.bytes p.issuerKeyHash, .bytes p.tbsCertificate]

/-- the four fields `EntryType, X509Entry, PrecertEntry, JSONEntry` -/
def signedEntryVals : Rfc.SignedEntry → List Val
  | .x509 c => [.num 0, asn1CertVal c, .absent, .absent]
  | .precert p => [.num 1, .absent, preCertVal p, .absent]

def teVal (t : Rfc.TimestampedEntry) : Val :=
  .struct (.num t.timestamp :: (signedEntryVals t.entry ++ [.bytes t.extensions]))
def leafVal (l : Rfc.MerkleTreeLeaf) : Val := .struct [.num l.version, .num 0, teVal l.entry]
def sctVal (s : Rfc.SCT) : Val :=
  .struct [.num s.version, .struct [.bytes s.logID], .num s.timestamp, .bytes s.extensions, dsVal s.signature]
def sctSigInputVal (i : Rfc.SctSigInput) : Val :=
  .struct (.num i.version :: .num 0 :: .num i.timestamp :: (signedEntryVals i.entry ++ [.bytes i.extensions]))
def sthSigInputVal (s : Rfc.SthSigInput) : Val :=
  .struct [.num s.version, .num 1, .num s.timestamp, .num s.treeSize, .bytes s.rootHash]
def chainVal (c : List Bytes) : Val := .struct [.list (c.map asn1CertVal)]
def precertChainVal (e : Rfc.PrecertChainEntry) : Val := .struct [asn1CertVal e.preCertificate, .list (e.chain.map asn1CertVal)]
def serializedSCTVal (s : Bytes) : Val := .struct [.bytes s]
def sctListVal (l : List Bytes) : Val := .struct [.list (l.map serializedSCTVal)]

/-! ## serialization.go wrappers (hand models over `Tls.enc` / `Tls.dec` and the regenerated types and constants) -/

/-- What `SerializeSCTSignatureInput(sct, entry)` reads from its arguments. -/
structure SctIn where
  version : Nat
  timestamp : Nat
  extensions : Bytes
  entryType : Nat
  x509 : Option Bytes            -- entry.Leaf.TimestampedEntry.X509Entry
  precert : Option Rfc.PreCert   -- entry.Leaf.TimestampedEntry.PrecertEntry

def optVal (o : Option Val) : Val := o.getD .absent

/-- `SerializeSCTSignatureInput`: `switch sct.SCTVersion { case V1: … default: error }`, inside
`switch EntryType { case X509LogEntryType: …; case PrecertLogEntryType: …; default: error }`, then `tls.Marshal`. -/
def serializeSCTSignatureInput (i : SctIn) : Except Err Bytes :=
  if (i.version : Int) = Gen.v1 then
    let hdr : List Val := [.num i.version, .num Gen.certificateTimestampSignatureType.toNat, .num i.timestamp, .num i.entryType]
    if (i.entryType : Int) = Gen.x509LogEntryType then
      enc tCertificateTimestamp (.struct (hdr ++ [optVal (i.x509.map asn1CertVal), .absent, .absent, .bytes i.extensions]))
    else if (i.entryType : Int) = Gen.precertLogEntryType then
      match i.precert with
      | some p => enc tCertificateTimestamp (.struct (hdr ++ [.absent, preCertVal p, .absent, .bytes i.extensions]))
      | none => .error .structural      -- the Go code dereferences the nil pointer
    else .error .unsupported
  else .error .unsupported

structure SthIn where
  version : Nat
  timestamp : Nat
  treeSize : Nat
  rootHash : Bytes       -- a [32]byte in Go: always 32 bytes

/-- `SerializeSTHSignatureInput`. -/
def serializeSTHSignatureInput (s : SthIn) : Except Err Bytes :=
  if (s.version : Int) = Gen.v1 then
    enc tTreeHeadSignature (.struct [.num s.version, .num Gen.treeHashSignatureType.toNat, .num s.timestamp, .num s.treeSize, .bytes s.rootHash])
  else .error .unsupported

/-- `LeafHashForLeaf`: the bytes that go into SHA-256. -/
def leafHashInput (leaf : Val) : Except Err Bytes :=
  match enc tMerkleTreeLeaf leaf with
  | .error e => .error e
  | .ok bs => .ok (UInt8.ofNat Gen.treeLeafPrefix.toNat :: bs)

/-- the result of `RawLogEntryFromLeaf`: the leaf value, `Cert`, `Chain` -/
structure RawLogEntry where
  leaf : Val
  cert : Val
  chain : Val

def entryTypeOf (leaf : Val) : Option (Nat × Val × Val) :=
  match leaf with
  | .struct [_, _, .struct (_ :: .num et :: x509 :: precert :: _)] => some (et, x509, precert)
  | _ => none

/-- `RawLogEntryFromLeaf`: complete parse of the leaf, then of the extra data according to the entry type. -/
def rawLogEntryFromLeaf (leafInput extraData : Bytes) : Except Err RawLogEntry :=
  match decAll tMerkleTreeLeaf leafInput with
  | .error e => .error e
  | .ok leaf =>
    match entryTypeOf leaf with
    | none => .error .structural
    | some (et, x509, _) =>
      if (et : Int) = Gen.x509LogEntryType then
        match decAll tCertificateChain extraData with
        | .error e => .error e
        | .ok (.struct [chain]) => .ok ⟨leaf, x509, chain⟩
        | .ok _ => .error .structural
      else if (et : Int) = Gen.precertLogEntryType then
        match decAll tPrecertChainEntry extraData with
        | .error e => .error e
        | .ok (.struct [pre, chain]) => .ok ⟨leaf, pre, chain⟩
        | .ok _ => .error .structural
      else .error .unsupported

/-! ## JSON API messages → internal structures (types.go), base64 taken as already undone

`AddChainResponse.ToSignedCertificateTimestamp` and `GetSTHResponse.ToSignedTreeHead`: the id / root hash must be
32 bytes, the signature field must be exactly one `DigitallySigned` (no trailing bytes). `ext` is the decoded
`extensions` string (encoding/base64 is observed by the harness, not modelled here). -/

/-- the Go value of a `tls.DigitallySigned` back as an RFC value -/
def dsOfVal : Val → Option Rfc.DigitallySigned
  | .struct [.struct [.num h, .num s], .bytes sig] => some ⟨h, s, sig⟩
  | _ => none

/-- `tls.Unmarshal(sig, &ds)` with the "trailing data" test, on the regenerated `ct.DigitallySigned` -/
def parseDS (sig : Bytes) : Option Rfc.DigitallySigned :=
  match decAll tDigitallySigned sig with
  | .ok v => dsOfVal v
  | .error _ => none

def toSCT (version : Nat) (id : Bytes) (timestamp : Nat) (ext : Bytes) (sig : Bytes) : Option Rfc.SCT :=
  if id.length = 32 then
    match parseDS sig with
    | some d => some ⟨version, id, timestamp, ext, d⟩
    | none => none
  else none

structure STH where
  treeSize : Nat
  timestamp : Nat
  rootHash : Bytes
  signature : Rfc.DigitallySigned
deriving Repr, DecidableEq

def toSTH (treeSize timestamp : Nat) (root : Bytes) (sig : Bytes) : Option STH :=
  if root.length = 32 then
    match parseDS sig with
    | some d => some ⟨treeSize, timestamp, root, d⟩
    | none => none
  else none

/-- the same two conversions written with the RFC decoder only (what `ctvmodel C04` answers with; `C04.toSCT_eq_rfc` /
`toSTH_eq_rfc` prove them equal to the models above) -/
def toSCTRfc (version : Nat) (id : Bytes) (timestamp : Nat) (ext : Bytes) (sig : Bytes) : Option Rfc.SCT :=
  if id.length = 32 then
    match Rfc.complete (Rfc.decDigitallySigned sig) with
    | some d => some ⟨version, id, timestamp, ext, d⟩
    | none => none
  else none

def toSTHRfc (treeSize timestamp : Nat) (root : Bytes) (sig : Bytes) : Option STH :=
  if root.length = 32 then
    match Rfc.complete (Rfc.decDigitallySigned sig) with
    | some d => some ⟨treeSize, timestamp, root, d⟩
    | none => none
  else none

/-! ## MerkleTreeLeafFromChain (RFC 6962 §3.2): which certificate of the chain gives what -/

/-- what `MerkleTreeLeafFromChain` reads of a parsed certificate -/
structure ChainCert where
  raw : Bytes
  tbs : Bytes
  spki : Bytes
  /-- `IsPreIssuer`: the certificate carries the Certificate Transparency extended key usage -/
  ctEku : Bool

/-- `MerkleTreeLeafFromChain(chain, etype, timestamp)` with `H` = SHA-256 and `build` = `x509.BuildPrecertTBS` (C03's subject):
an X.509 entry is the leaf certificate; for a precertificate the issuer is `chain[1]`, unless that is a Precertificate Signing
Certificate — then it is handed to `build` as pre-issuer and the *final* issuer `chain[2]` gives `issuer_key_hash`. -/
def leafFromChain (H : Bytes → Bytes) (build : Bytes → Option ChainCert → Option Bytes) (chain : List ChainCert)
    (etype ts : Nat) : Option Rfc.MerkleTreeLeaf :=
  match chain with
  | [] => none
  | cert :: rest =>
    if etype = 0 then some ⟨0, ⟨ts, .x509 cert.raw, []⟩⟩
    else if etype ≠ 1 then none
    else
      match rest with
      | [] => none
      | issuer :: rest2 =>
        if issuer.ctEku then
          match rest2 with
          | [] => none
          | final :: _ => (build cert.tbs (some issuer)).map fun tbs => ⟨0, ⟨ts, .precert ⟨H final.spki, tbs⟩, []⟩⟩
        else (build cert.tbs none).map fun tbs => ⟨0, ⟨ts, .precert ⟨H issuer.spki, tbs⟩, []⟩⟩

/-! ## trillian/util/log_leaf.go: the extra data CTFE stores for an accepted submission -/

/-- `ExtraDataForChain(cert, chain, isPrecert)`: `tls.Marshal(ct.PrecertChainEntry{cert, chain})` for a precertificate,
`tls.Marshal(ct.CertificateChain{chain})` otherwise; `BuildLogLeaf` stores exactly this (its `chainHash` is nil). -/
def extraDataForChain (isPrecert : Bool) (cert : Bytes) (chain : List Bytes) : Except Err Bytes :=
  if isPrecert then enc tPrecertChainEntry (.struct [asn1CertVal cert, .list (chain.map asn1CertVal)])
  else enc tCertificateChain (.struct [.list (chain.map asn1CertVal)])

/-! ## the JSON API messages: how encoding/json maps the Go field types of types.go -/

/-- `uint64`/`int64`/`Version` → JSON number; `[]byte` → base64 string (encoding/json); `string` → a string the caller
treats as base64 (`AddChainResponse.Extensions`, `GetRootsResponse.Certificates`); slices of those → arrays -/
def jkindOf (goType : String) : Option Rfc.JKind :=
  if goType = "uint64" ∨ goType = "int64" ∨ goType = "Version" then some .number
  else if goType = "[]byte" ∨ goType = "string" then some .base64
  else if goType = "[][]byte" ∨ goType = "[]string" then some .base64List
  else if goType = "[]LeafEntry" then some .entryList
  else none

/-- which Go struct carries which RFC 6962 §4 message -/
def goStructOf : List (String × String) :=
  [("add-chain-input", "AddChainRequest"), ("add-chain-output", "AddChainResponse"), ("get-sth", "GetSTHResponse"),
   ("get-sth-consistency", "GetSTHConsistencyResponse"), ("get-proof-by-hash", "GetProofByHashResponse"),
   ("get-entries", "GetEntriesResponse"), ("get-roots", "GetRootsResponse"), ("get-entry-and-proof", "GetEntryAndProofResponse")]

/-- the regenerated `json:"…"` names and kinds of a Go struct -/
def jsonShape (goStruct : String) : Option (List (String × Option Rfc.JKind)) :=
  (Gen.apiJson.lookup goStruct).map fun fs => fs.map fun (_, ty, jn) => (jn, jkindOf ty)

end CtWire
