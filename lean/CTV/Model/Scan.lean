/-!
# Fetcher / scanner state machine (scanner/fetcher.go, scanner/scanner.go)

One `Op` per atomic action of the real code, so that "for every schedule" is
"for every `List Op`":

* `hand w`   – the range generator (`genRanges`) hands the next batch to idle worker `w`
               (`ranges <- next` meets `for r := range ranges`),
* `resp w k` – worker `w`'s `GetRawEntries(lo, hi-1)` came back with `k` entries, `1 ≤ k ≤ hi-lo`
               (the contract of RFC 6962 §4.6); the batch goes to the callback (`fn`) and, in the scanner,
               through `flatten` into the matcher queue,
* `respRaw w k` – the same for a server *outside* the contract (any `k`); it is what the code does
               (`r.start += len(resp.Entries)`), and is used only to document the domain boundary,
* `err w`    – the request failed (429 / 5xx / network); the worker asks again,
* `grow n`   – continuous mode: `updateSTH` accepted an STH of size `n` (only when the generator has nothing left to
               hand out: the cursor is at — or, for a start index beyond the tree, past — the end),
* `stop`     – `Fetcher.Stop()`: only the generator is asked to finish; workers complete (and keep retrying) what they hold,
* `cancel`   – the caller's context is cancelled: the generator is asked to finish *and* workers may give up,
* `abandon w` – worker `w` sees `ctx.Err() != nil` (at the top of its loop, or because `bo.Retry` returned the context
               error) and returns without finishing its range; enabled only after `cancel`. The dropped range is kept
               in `abandoned` so that every index stays accounted for,
* `close`    – the generator goroutine exits (`close(ranges)`),
* `take m j` / `proc m` – matcher worker `m` receives a queued entry / runs `processEntry` on it. The queue is a *bag*:
  `flatten` pushes the entries of concurrently fetched batches one by one, so their order in the channel is not the order
  of the responses; letting a matcher take any queued entry over-approximates every such interleaving.

Payloads are abstract (`Nat`): `Env.src i` is the server's entry for index `i`; `Env.cls i p` says which
callback, if any, the scanner's matcher selects for that entry (`some false` = certificate callback,
`some true` = precertificate callback).

Core Lean only: this file is linked into `ctvmodel`.
-/
namespace CTV.Model.Scan

abbrev Rng := Nat × Nat           -- half-open [lo, hi)
abbrev Entry := Nat × Nat         -- (index, payload)

structure Env where
  src : Nat → Nat
  cls : Nat → Nat → Option Bool

structure St where
  start0 : Nat
  cursor : Nat
  end_ : Nat
  batch : Nat
  continuous : Bool
  stopReq : Bool := false
  cancelled : Bool := false
  closed : Bool := false
  workers : List (Option Rng)
  delivered : List Entry := []
  abandoned : List Rng := []
  queue : List Entry := []
  matchers : List (Option Entry) := []
  called : List (Bool × Entry) := []
deriving Repr, DecidableEq

inductive Op where
  | hand (w : Nat)
  | resp (w k : Nat)
  | respRaw (w k : Nat)
  | err (w : Nat)
  | abandon (w : Nat)
  | grow (n : Nat)
  | stop
  | cancel
  | close
  | take (m j : Nat)
  | proc (m : Nat)
deriving Repr, DecidableEq

/-- `k` consecutive entries starting at `lo`, as the server holds them. -/
def batchOf (src : Nat → Nat) : Nat → Nat → List Entry
  | _, 0 => []
  | lo, k+1 => (lo, src lo) :: batchOf src (lo+1) k

def init (start end_ batch workers matchers : Nat) (continuous : Bool) : St :=
  { start0 := start, cursor := start, end_ := end_, batch := batch, continuous := continuous,
    workers := List.replicate workers none, matchers := List.replicate matchers none }

/-- end of the next batch: `start + min(end-start, batch)` of `genRanges` (tied to the code by `C16.genRanges_arith`) -/
def batchEnd (s : St) : Nat := s.cursor + min (s.end_ - s.cursor) s.batch

def handEnabled (s : St) (w : Nat) : Bool :=
  !s.closed && s.workers[w]? == some none && decide (s.cursor < s.end_) && decide (0 < s.batch)

def closeEnabled (s : St) : Bool :=
  !s.closed && (s.stopReq || (!s.continuous && !decide (s.cursor < s.end_)))

def growEnabled (s : St) (n : Nat) : Bool :=
  !s.closed && s.continuous && decide (s.end_ ≤ s.cursor) && decide (s.end_ < n)

def deliver (e : Env) (s : St) (w lo hi k : Nat) : St :=
  let b := batchOf e.src lo k
  { s with delivered := s.delivered ++ b, queue := s.queue ++ b,
           workers := s.workers.set w (if lo + k < hi then some (lo + k, hi) else none) }

def step (e : Env) (s : St) : Op → St
  | .hand w =>
    if handEnabled s w then
      { s with cursor := batchEnd s, workers := s.workers.set w (some (s.cursor, batchEnd s)) }
    else s
  | .resp w k =>
    match s.workers[w]? with
    | some (some (lo, hi)) => if 1 ≤ k ∧ lo + k ≤ hi then deliver e s w lo hi k else s
    | _ => s
  | .respRaw w k =>
    match s.workers[w]? with
    | some (some (lo, hi)) => deliver e s w lo hi k
    | _ => s
  | .err _ => s
  | .abandon w =>
    match s.workers[w]? with
    | some (some r) => if s.cancelled then { s with workers := s.workers.set w none, abandoned := r :: s.abandoned } else s
    | _ => s
  | .grow n => if growEnabled s n then { s with end_ := n } else s
  | .stop => { s with stopReq := true }
  | .cancel => { s with stopReq := true, cancelled := true }
  | .close => if closeEnabled s then { s with closed := true } else s
  | .take m j =>
    match s.matchers[m]?, s.queue[j]? with
    | some none, some x => { s with matchers := s.matchers.set m (some x), queue := s.queue.eraseIdx j }
    | _, _ => s
  | .proc m =>
    match s.matchers[m]? with
    | some (some (i, p)) =>
      { s with matchers := s.matchers.set m none,
               called := s.called ++ (match e.cls i p with | some b => [(b, (i, p))] | none => []) }
    | _ => s

def run (e : Env) (s : St) (ops : List Op) : St := ops.foldl (step e) s

/-- an op that moves the scan forward (everything except errors, requests to stop, and growth of the log) -/
def Op.isProgress : Op → Bool
  | .hand _ | .resp _ _ | .abandon _ | .close | .take _ _ | .proc _ => true
  | _ => false

/-- ops a contract-abiding server and the real scheduler can produce -/
def Op.inContract : Op → Bool
  | .respRaw _ _ => false
  | _ => true

/-- the op is enabled in `s` (a disabled op leaves the state unchanged) -/
def enabled (s : St) : Op → Bool
  | .hand w => handEnabled s w
  | .resp w k =>
    match s.workers[w]? with
    | some (some (lo, hi)) => decide (1 ≤ k ∧ lo + k ≤ hi)
    | _ => false
  | .respRaw w _ =>
    match s.workers[w]? with
    | some (some _) => true
    | _ => false
  | .err w =>
    match s.workers[w]? with
    | some (some _) => true
    | _ => false
  | .abandon w =>
    match s.workers[w]? with
    | some (some _) => s.cancelled
    | _ => false
  | .grow n => growEnabled s n
  | .stop => true
  | .cancel => true
  | .close => closeEnabled s
  | .take m j =>
    match s.matchers[m]?, s.queue[j]? with
    | some none, some _ => true
    | _, _ => false
  | .proc m =>
    match s.matchers[m]? with
    | some (some _) => true
    | _ => false

def allIdle {α} (l : List (Option α)) : Bool := l.all Option.isNone

/-- nothing is running any more: `Run` / `ScanLog` have returned -/
def quiescent (s : St) : Bool :=
  s.closed && allIdle s.workers && s.queue.isEmpty && allIdle s.matchers

/-- indicator of `lo ≤ i < hi` -/
def inR (lo hi i : Nat) : Nat := if lo ≤ i ∧ i < hi then 1 else 0

/-- how often index `i` occurs in a list of entries -/
def cnt : List Entry → Nat → Nat
  | [], _ => 0
  | (j, _) :: t, i => (if j = i then 1 else 0) + cnt t i

/-- how many workers hold index `i` in their pending range -/
def pend : List (Option Rng) → Nat → Nat
  | [], _ => 0
  | none :: t, i => pend t i
  | some (lo, hi) :: t, i => inR lo hi i + pend t i

/-- how many abandoned ranges hold index `i` -/
def acnt : List Rng → Nat → Nat
  | [], _ => 0
  | (lo, hi) :: t, i => inR lo hi i + acnt t i

/-- entries still to be fetched by busy workers -/
def remaining : List (Option Rng) → Nat
  | [] => 0
  | none :: t => remaining t
  | some (lo, hi) :: t => (hi - lo) + remaining t

def busy {α} : List (Option α) → Nat
  | [] => 0
  | none :: t => busy t
  | some _ :: t => 1 + busy t

/-- termination measure: strictly decreases on every enabled progress op -/
def scanMeasure (s : St) : Nat :=
  5 * (s.end_ - s.cursor) + 3 * remaining s.workers + busy s.workers + 2 * s.queue.length + busy s.matchers + (if s.closed then 0 else 1)

end CTV.Model.Scan
