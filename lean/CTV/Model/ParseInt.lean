/-! Model of `strconv.ParseInt(s, 10, 64)` (decimal, optional sign, no underscores, range-checked). -/
namespace CTV.Model

def digitsVal : List Char → Option Nat
  | [] => none
  | cs => cs.foldl (fun acc c => match acc with
      | none => none
      | some n => if '0' ≤ c ∧ c ≤ '9' then some (n * 10 + (c.toNat - 48)) else none) (some 0)

/-- `none` = any error (syntax or range). -/
def parseInt64 (s : String) : Option Int :=
  match s.toList with
  | [] => none
  | '-' :: cs => match digitsVal cs with
      | some n => if n ≤ 2^63 then some (-(n : Int)) else none
      | none => none
  | '+' :: cs => match digitsVal cs with
      | some n => if n < 2^63 then some (n : Int) else none
      | none => none
  | cs => match digitsVal cs with
      | some n => if n < 2^63 then some (n : Int) else none
      | none => none

theorem parseInt64_inRange (s : String) (v : Int) (h : parseInt64 s = some v) : -(2^63) ≤ v ∧ v < 2^63 := by
  unfold parseInt64 at h
  split at h
  · simp at h
  all_goals (split at h <;> simp at h)
  all_goals omega

end CTV.Model
