import CTV.Basic.Proto
import CTV.Model.AddChain
import CTV.Model.AddChainSha
/-!
ctvmodel C01: replays the `ac` lines of the C01 harness (one add-chain / add-pre-chain request each, in
history order; `reset` starts a new log with an empty backend) on `CTV.Model.AddChain` with real SHA-256.

```
ac <log SPKI> <Go type of the log's public key> <now ns> <precert 0|1> n (<der> <spki> <tbs> <isPreIssuer>)*n <defanged TBS | - | x>
=> 200 <leaf value> <extra data> <identity hash> <sct_version> <log id> <timestamp> <extensions> <hash alg> <sig alg> <signed digest>  |  <status>
```
-/
namespace CTV.Driver.C01
open CTV CTV.Proto CTV.Model.AddChain

def parseCerts : Nat → List String → Option (List Cert × List String)
  | 0, rest => some ([], rest)
  | n + 1, d :: s :: t :: p :: rest =>
    match fromHex d, fromHex s, fromHex t, parseBool? p, parseCerts n rest with
    | some d, some s, some t, some p, some (cs, rest') => some (⟨d, s, t, p⟩ :: cs, rest')
    | _, _, _, _, _ => none
  | _, _ => none

def step (st : State) (line : String) : State × String :=
  let ts := match tokens line with
    | "T" :: rest => rest
    | rest => rest
  match ts with
  | ["reset"] => ([], "ok")
  | "ac" :: spki :: kind :: now :: pre :: n :: rest =>
    match fromHex spki, parseInt? now, parseBool? pre, parseNat? n with
    | some spki, some now, some pre, some n =>
      match parseCerts n rest with
      | some (path, [de]) =>
        let deTBS : Option Bytes := if de = "x" then none else fromHex de
        -- the log key is represented by (SubjectPublicKeyInfo, Go type); signatures are not compared (the digest is)
        let K : KeyScheme := { Priv := Bytes × String, Pub := Bytes × String, pub := id, spkiOf := (·.1), kind := (·.2),
                               sign := fun _ _ => [], verify := fun _ _ _ => true, correct := fun _ _ => rfl }
        let cfg : Cfg := { H := Sha.sha256, K := K, k := (spki, kind), deTBS := fun _ _ => deTBS }
        match addChain cfg st now path pre with
        | (.ok sct q, st') =>
          (st', joinSp ["200", hexOrDash q.leafValue, hexOrDash q.extraData, hexOrDash q.idHash, toString sct.version, hexOrDash sct.logID,
            toString sct.timestamp, hexOrDash sct.extensions, toString sct.hashAlg, toString sct.sigAlg, hexOrDash sct.signedDigest])
        | (.bad status _, st') => (st', toString status)
      | _ => (st, "bad-op")
    | _, _, _, _ => (st, "bad-op")
  | _ => (st, "bad-op")

def run (_ : List String) : IO UInt32 := do
  foldLines (← IO.getStdin) (← IO.getStdout) step ([] : State)
  return 0

end CTV.Driver.C01
