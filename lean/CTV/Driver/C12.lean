import CTV.Basic.Proto
import CTV.Model.Client
import CTV.Sha256
/-! ctvmodel C12: replays the lines of the C12 harness on the model.

  sth <verifier> <kind> <R|-> <S|-> <prim> <status> <jsonok> <size> <ts> <root> <sig>
        => ok <size> <ts> <root> <hash> <alg> <sig> | rsperr <status> | err | panic
  add <verifier> <kind> <keyid|-> <R|-> <S|-> <prim> <pre> <k> {<raw> <fatal> <tbs> <spki> <preissuer>}*k <stripped-tbs|none> <n> {<status> <jsonok> <version> <id> <ts> <extok> <ext> <sig>}*n
        (the first k ≤ 3 certificates of the submitted chain as the X.509 parser sees them; the entry is computed by the model:
         SHA-256 here, the stripped TBSCertificate from the harness' own extension removal)
        => ok <version> <logid> <ts> <ext> <hash> <alg> <sig> | rsperr <status> | err | panic
  get <status> <jsonok>                                   => ok | rsperr <status>
  nores <method>                                          => err     (no response was received)
  troots <n> {<status|0> <jsonok> <allb64ok>}*n           => ok | err  (TemporalLogClient.GetAcceptedRoots; status 0 = no response)
  roots <status> <jsonok> <n> {<b64ok>}*                  => ok | rsperr <status>
  ents <start> <end> <status> <jsonok> <n> {<leaf> <extra> <fatal>}*  => ok <n> {<entry>}* | rsperr <status> | err
  rle <leaf> <extra>                                      => ok <entry> | err
  <entry> = <version> <ts> <etype> <cert> <ikh|-> <tbs|-> <ext> <k> {<chain cert>}*
-/
namespace CTV.Driver.C12
open CTV CTV.Proto CTV.SigInput CTV.SigV CTV.Client

def kindOf (s : String) : KeyKind :=
  if s = "rsa" then .rsa else if s = "dsa" then .dsa else if s = "ecdsa" then .ecdsa
  else if s = "ed25519" then .ed25519 else .other

def optInt (s : String) : Option (Option Int) :=
  if s = "-" then some none else (parseInt? s).map some

def prims (bit : Bool) : Prims := { digest := fun _ _ => [], prim := fun _ _ _ _ => bit }

/-- the harness' (R, S) must be the model's whenever the model parses the signature octets as a pair -/
def rsCheck (sig : Bytes) (R S : Option Int) : Option String :=
  match DerSig.parseSigPair sig with
  | none => none
  | some p => if R = some p.r ∧ S = some p.s then none else some s!"rs-mismatch model={p.r},{p.s}"

def derAlg (ds : DigitallySigned) : Bool :=
  match Gen.sigAlgTable.lookup ds.sigAlg with
  | some (_, der, _, _) => der
  | none => false

def showDS (ds : DigitallySigned) : String := s!"{ds.hash} {ds.sigAlg} {hexOrDash ds.sig}"

def showRes {α : Type} (f : α → String) : Res α → String
  | .ok v => "ok" ++ (let s := f v; if s = "" then "" else " " ++ s)
  | .rspErr st _ => s!"rsperr {st}"
  | .err => "err"
  | .panic => "panic"

def showEntry (e : RawEntry) : String :=
  let (et, cert, ikh, tbs) : Nat × Bytes × Bytes × Bytes := match e.leaf.entry with
    | .x509 c => (0, c, [], [])
    | .precert i t => (1, e.cert, i, t)
    | .json d => (32768, d, [], [])
  joinSp ([toString e.leaf.version, toString e.leaf.timestamp, toString et, hexOrDash cert, hexOrDash ikh, hexOrDash tbs,
    hexOrDash e.leaf.extensions, toString e.chain.length] ++ e.chain.map hexOrDash)

def parseSctRsps : Nat → List String → Option (List (Rsp SctBody) × List String)
  | 0, rest => some ([], rest)
  | n+1, st :: jok :: ver :: id :: ts :: xok :: ext :: sg :: rest =>
    match parseNat? st, parseBool? jok, parseNat? ver, fromHex id, parseNat? ts, parseBool? xok, fromHex ext, fromHex sg, parseSctRsps n rest with
    | some st, some jok, some ver, some id, some ts, some xok, some ext, some sg, some (rs, rest') =>
      let body : Option SctBody := if jok then some ⟨ver, id, UInt64.ofNat ts, if xok then some ext else none, sg⟩ else none
      some (⟨st, [], body⟩ :: rs, rest')
    | _, _, _, _, _, _, _, _, _ => none
  | _, _ => none

def parseChain : Nat → List String → Option (List ChainCert × List String)
  | 0, rest => some ([], rest)
  | n+1, raw :: fatal :: tbs :: spki :: pi :: rest =>
    match fromHex raw, parseBool? fatal, fromHex tbs, fromHex spki, parseBool? pi, parseChain n rest with
    | some raw, some fatal, some tbs, some spki, some pi, some (cs, rest') => some (⟨raw, fatal, tbs, spki, pi⟩ :: cs, rest')
    | _, _, _, _, _, _ => none
  | _, _ => none

/-- `<pre> <k> {cert}*k <stripped|none>` → the model's leaf for the submission -/
def parseLeafBuild : List String → Option (LeafBuild × List String)
  | pre :: k :: rest =>
    match parseBool? pre, parseNat? k with
    | some pre, some k =>
      match parseChain k rest with
      | some (chain, stripped :: rest') =>
        let st : Option (Option Bytes) := if stripped = "none" then some none else (fromHex stripped).map some
        match st with
        | some st => some (leafFromRawChain ⟨Sha256.hash, fun _ _ => st⟩ chain pre, rest')
        | none => none
      | _ => none
    | _, _ => none
  | _ => none

def parseEntries : Nat → List String → Option (List EntryIn)
  | 0, [] => some []
  | n+1, l :: x :: f :: rest =>
    match fromHex l, fromHex x, parseBool? f, parseEntries n rest with
    | some l, some x, some f, some es => some (⟨l, x, f⟩ :: es)
    | _, _, _, _ => none
  | _, _ => none

def parseBools : Nat → List String → Option (List Bool)
  | 0, [] => some []
  | n+1, b :: rest =>
    match parseBool? b, parseBools n rest with
    | some b, some bs => some (b :: bs)
    | _, _ => none
  | _, _ => none

/-- the first response that reaches `addChainFinal` (for the (R, S) cross-check) -/
def finalSig : List (Rsp SctBody) → Option DigitallySigned
  | [] => none
  | r :: rest =>
    if r.status = 200 then
      match r.body with
      | none => finalSig rest
      | some b => dsExact b.signature
    else if retried r.status then finalSig rest else none

def handle (line : String) : String :=
  match tokens line with
  | "T" :: rest => go rest
  | rest => go rest
where go : List String → String
  | ["sth", vf, k, r, s, pb, st, jok, sz, ts, root, sg] =>
    match parseBool? vf, optInt r, optInt s, parseBool? pb, parseNat? st, parseBool? jok, parseNat? sz, parseNat? ts, fromHex root, fromHex sg with
    | some vf, some r, some s, some pb, some st, some jok, some sz, some ts, some root, some sg =>
      let body : Option SthBody := if jok then some ⟨UInt64.ofNat sz, UInt64.ofNat ts, root, sg⟩ else none
      let key : Key := { kind := kindOf k }
      let chk := match dsExact sg with
        | some ds => if vf && jok && st = 200 && derAlg ds then rsCheck ds.sig r s else none
        | none => none
      match chk with
      | some m => m
      | none =>
        showRes (fun (h : STH) => s!"{h.treeSize.toNat} {h.timestamp.toNat} {hexOrDash h.root} {showDS h.sig}")
          (getSTH (prims pb) (if vf then some key else none) ⟨st, [], body⟩)
    | _, _, _, _, _, _, _, _, _, _ => "bad-op"
  | "add" :: vf :: k :: kid :: r :: s :: pb :: rest =>
    match parseBool? vf, optInt r, optInt s, parseBool? pb, parseLeafBuild rest with
    | some vf, some r, some s, some pb, some (leaf, n :: rest') =>
      match parseNat? n with
      | none => "bad-op"
      | some n =>
        match parseSctRsps n rest' with
        | some (rsps, []) =>
          let key : Key := { kind := kindOf k }
          let keyID : Option Bytes := if kid = "-" then none else fromHex kid
          let chk := match finalSig rsps with
            | some ds => if vf && derAlg ds then rsCheck ds.sig r s else none
            | none => none
          match chk with
          | some m => m
          | none =>
            showRes (fun (c : SCT) => s!"{c.version} {hexOrDash c.logID} {c.timestamp.toNat} {hexOrDash c.extensions} {showDS c.sig}")
              (addChain (prims pb) (if vf then some key else none) keyID leaf rsps)
        | _ => "bad-op"
    | _, _, _, _, _ => "bad-op"
  | "troots" :: n :: rest =>
    match parseNat? n with
    | some n =>
      let rec shards : Nat → List String → Option (List (Option (Rsp (List (Option Bytes)))))
        | 0, [] => some []
        | k+1, st :: jok :: bok :: more =>
          match parseNat? st, parseBool? jok, parseBool? bok, shards k more with
          | some st, some jok, some bok, some tl =>
            some ((if st = 0 then none else some ⟨st, [], if jok then some [if bok then some [] else none] else none⟩) :: tl)
          | _, _, _, _ => none
        | _, _ => none
      match shards n rest with
      | some ss => if (temporalRoots ss).isSome then "ok" else "err"
      | none => "bad-op"
    | none => "bad-op"
  | ["newc", g, pk] =>
    match parseBool? g, parseBool? pk with
    | some g, some pk =>
      match newClient g (if pk then some ({ kind := .ecdsa } : Key) else none) with
      | .ok (some _) => "ok verifier"
      | .ok none => "ok keyless"
      | _ => "err"
    | _, _ => "bad-op"
  | ["nores", _] => "err"      -- the transport failed: no response, hence a bare error (jsonclient returns the transport's error)
  | ["get", st, jok] =>
    match parseNat? st, parseBool? jok with
    | some st, some jok => showRes (fun (_ : Unit) => "") (plainGet ⟨st, [], if jok then some () else none⟩)
    | _, _ => "bad-op"
  | "roots" :: st :: jok :: n :: rest =>
    match parseNat? st, parseBool? jok, parseNat? n with
    | some st, some jok, some n =>
      match parseBools n rest with
      | some bs => showRes (fun (_ : List Bytes) => "")
          (getRoots ⟨st, [], if jok then some (bs.map fun b => if b then some [] else none) else none⟩)
      | none => "bad-op"
    | _, _, _ => "bad-op"
  | "ents" :: sS :: eS :: st :: jok :: n :: rest =>
    match parseInt? sS, parseInt? eS, parseNat? st, parseBool? jok, parseNat? n with
    | some sS, some eS, some st, some jok, some n =>
      match parseEntries n rest with
      | some es => showRes (fun (rs : List RawEntry) => joinSp (toString rs.length :: rs.map showEntry))
          (getEntries sS eS ⟨st, [], if jok then some es else none⟩)
      | none => "bad-op"
    | _, _, _, _, _ => "bad-op"
  | ["rle", l, x] =>
    match fromHex l, fromHex x with
    | some l, some x =>
      match rawLogEntryFromLeaf l x with
      | some e => "ok " ++ showEntry e
      | none => "err"
    | _, _ => "bad-op"
  | _ => "bad-op"

def run (_ : List String) : IO UInt32 := do
  mapLines (← IO.getStdin) (← IO.getStdout) handle
  return 0

end CTV.Driver.C12
