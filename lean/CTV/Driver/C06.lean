import CTV.Basic.Proto
import CTV.Sha256
import CTV.Model.FrontEnd
/-! ctvmodel C06: replays the history of the C06 harness on `CTV.Model.FrontEnd` with real SHA-256;
every served hash (roots, consistency proofs, audit paths, leaf hashes) is recomputed here. -/
namespace CTV.Driver.C06
open CTV CTV.Proto CTV.Model.FrontEnd

def hexList (l : List Bytes) : String := if l.isEmpty then "-" else joinSp (l.map toHex)

def handle (b : Backend) (line : String) : Backend × String :=
  let toks := match tokens line with
    | "T" :: rest => rest
    | rest => rest
  match toks with
  | ["init", ts] =>
    match parseNat? ts with
    | some ts => (Backend.init ts, "ok")
    | none => (b, "bad-op")
  | ["sub", idh, value, extra] =>
    match fromHex idh, fromHex value, fromHex extra with
    | some idh, some value, some extra =>
      let known := (b.find idh).isSome
      let (b', stored) := b.queue ⟨value, extra, idh⟩
      (b', s!"sct {toHex (rfcLeafH stored.value)} {if known then "dup" else "new"}")
    | _, _, _ => (b, "bad-op")
  -- the leaf is built here from the RFC layout: `subx idhash ts cert extra` / `subp idhash ts keyhash tbs extra`
  | ["subx", idh, ts, cert, extra] =>
    match fromHex idh, parseNat? ts, fromHex cert, fromHex extra with
    | some idh, some ts, some cert, some extra =>
      let known := (b.find idh).isSome
      let (b', stored) := b.queue ⟨encLeaf (.x509 cert) ts, extra, idh⟩
      (b', s!"sct {toHex (rfcLeafH stored.value)} {if known then "dup" else "new"}")
    | _, _, _, _ => (b, "bad-op")
  | ["subp", idh, ts, kh, tbs, extra] =>
    match fromHex idh, parseNat? ts, fromHex kh, fromHex tbs, fromHex extra with
    | some idh, some ts, some kh, some tbs, some extra =>
      let known := (b.find idh).isSome
      let (b', stored) := b.queue ⟨encLeaf (.precert kh tbs) ts, extra, idh⟩
      (b', s!"sct {toHex (rfcLeafH stored.value)} {if known then "dup" else "new"}")
    | _, _, _, _, _ => (b, "bad-op")
  | ["seq", k, ts] =>
    match parseNat? k, parseNat? ts with
    | some k, some ts =>
      let b' := b.sequence k ts
      (b', s!"size {b'.leaves.length}")
    | _, _ => (b, "bad-op")
  | ["sth"] =>
    let h : Head Bytes := served rfcLeafH rfcNodeH rfcEmptyH b
    (b, s!"{h.size} {h.ts} {toHex h.root}")
  | ["cons", m, n] =>
    match parseInt? m, parseInt? n with
    | some m, some n =>
      match getConsistency rfcLeafH rfcNodeH rfcEmptyH b m n with
      | some p => (b, hexList p)
      | none => (b, "err")
    | _, _ => (b, "bad-op")
  | ["pbh", h, n] =>
    match fromHex h, parseInt? n with
    | some h, some n =>
      match getProofByHash rfcLeafH rfcNodeH rfcEmptyH b h n with
      | some (i, p) => (b, s!"{i} {hexList p}")
      | none => (b, "err")
    | _, _ => (b, "bad-op")
  | ["eap", i, n] =>
    match parseInt? i, parseInt? n with
    | some i, some n =>
      match getEntryAndProof rfcLeafH rfcNodeH rfcEmptyH b i n with
      | some (v, x, p) => (b, s!"{hexOrDash v} {hexOrDash x} {hexList p}")
      | none => (b, "err")
    | _, _ => (b, "bad-op")
  | ["ents", s, e] =>
    match parseNat? s, parseNat? e with
    | some s, some e =>
      let ls := getEntries b s e
      (b, joinSp (toString ls.length :: ls.flatMap fun l => [hexOrDash l.value, hexOrDash l.extra]))
    | _, _ => (b, "bad-op")
  | _ => (b, "bad-op")

def run (_ : List String) : IO UInt32 := do
  foldLines (← IO.getStdin) (← IO.getStdout) handle (Backend.init 0)
  return 0

end CTV.Driver.C06
