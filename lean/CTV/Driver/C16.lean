import CTV.Basic.Proto
import CTV.Model.Scan
import CTV.Gen.Scan
/-!
ctvmodel C16: validates the event trace of the C16 harness against the fetcher / scanner state machine.

Every line is an event recorded (under one mutex) at the injected `scanner.LogClient`, at the callbacks, or by the
scenario driver. The driver keeps the model state, checks that the event is *enabled* in it (answer `ok`, or the
model's own output where the event carries one), and applies the corresponding model step(s):

  sc k=v …            new scenario (parameters)                      => ok
  sth n | sth err     GetSTH returned                                => ok
  call s e            GetRawEntries(s, e) was called                 => ok     (a new range = `hand`, checked against both
                                                                               the model's batch arithmetic and the regenerated kernels)
  ret s e k|err       … and returned k entries / an error            => ok     (`resp w k` / `err w`)
  cb s k              the Fetcher callback got a batch               => digest of the payloads the model delivered for it
  m b i p             the scanner invoked callback b on entry (i,p)  => ok     (`take`/`proc`)
  stop | cancel       Fetcher.Stop() / context cancellation          => ok
  done [ret=n]        Run / ScanLog (returning n) returned            => `<entries delivered> nil` | `<callbacks made>`
-/
namespace CTV.Driver.C16
open CTV CTV.Proto CTV.Model.Scan

def pay (seed i : Nat) : Nat := (seed + i * 2654435761) % 4294967296

def foldDigest (ps : List Nat) : Nat :=
  ps.foldl (fun acc p => (acc * 1000003 + p) % 1099511627689) ps.length

structure Params where
  scan : Bool := false
  start : Nat := 0
  endOpt : Nat := 0
  batch : Nat := 1
  par : Nat := 1
  cont : Bool := false
  nMatch : Nat := 1
  seed : Nat := 0
  precertOnly : Bool := false
  table : List (Bool × Bool) := []       -- per class: (is precert, matcher selects)
  target : Option Nat := none            -- MatchSCTTimestamp: only this payload is selected
  id : String := "?"

structure DS where
  active : Bool := false
  inited : Bool := false
  p : Params := {}
  st : St := init 0 0 1 0 0 false
  sths : List Nat := []                  -- STH sizes seen and not yet known to be accepted or passed over
  awaiting : List (Nat × Nat) := []
  bad : Option String := none            -- first violation in this scenario (sticky, reported on every later line)

def mkEnv (p : Params) : Env :=
  { src := pay p.seed,
    cls := fun _ pl =>
      match p.table[pl % 8]? with
      | none => none
      | some (isPre, sel) =>
        let sel := sel && (match p.target with | none => true | some t => pl == t)
        if !sel then none
        else if isPre then some true
        else if p.precertOnly then none else some false }

def kv (toks : List String) (k : String) : Option String :=
  toks.findSome? fun t => match t.splitOn "=" with
    | [a, b] => if a = k then some b else none
    | _ => none

def kvNat (toks : List String) (k : String) (d : Nat) : Nat := ((kv toks k).bind String.toNat?).getD d

def parseTable (s : String) : List (Bool × Bool) :=
  -- two characters per class: kind (c|p) and selection (1|0)
  let cs := s.toList
  let rec go : List Char → List (Bool × Bool)
    | k :: v :: rest => (k == 'p', v == '1') :: go rest
    | _ => []
  go cs

def parseParams (toks : List String) : Params :=
  { scan := kv toks "kind" == some "scan",
    start := kvNat toks "start" 0, endOpt := kvNat toks "end" 0, batch := kvNat toks "batch" 1, par := kvNat toks "par" 1,
    cont := kvNat toks "cont" 0 == 1, nMatch := kvNat toks "match" 1, seed := kvNat toks "seed" 0,
    precertOnly := kvNat toks "preonly" 0 == 1,
    table := parseTable ((kv toks "table").getD ""),
    target := (kv toks "target").bind String.toNat?,
    id := (kv toks "id").getD "?" }

def findWorker (ws : List (Option Rng)) (lo hi : Nat) : Option Nat :=
  let rec go : List (Option Rng) → Nat → Option Nat
    | [], _ => none
    | some (a, b) :: t, i => if a = lo ∧ b = hi then some i else go t (i+1)
    | none :: t, i => go t (i+1)
  go ws 0

def findIdle {α} (ws : List (Option α)) : Option Nat :=
  let rec go : List (Option α) → Nat → Option Nat
    | [], _ => none
    | none :: _, i => some i
    | some _ :: t, i => go t (i+1)
  go ws 0

def findInflight (ms : List (Option Entry)) (x : Entry) : Option Nat :=
  let rec go : List (Option Entry) → Nat → Option Nat
    | [], _ => none
    | some y :: t, i => if y = x then some i else go t (i+1)
    | none :: t, i => go t (i+1)
  go ms 0

/-- The first event of a scenario that is not an execution step of the model is answered `bad:[id] …`; the rest of
that scenario is answered `skip` (one disagreement per scenario; the model state is meaningless after it). -/
def fail (d : DS) (msg : String) : DS × String :=
  match d.bad with
  | some _ => (d, "skip")
  | none => ({ d with bad := some msg }, s!"bad:[{d.p.id}] {msg}")

def ok (d : DS) : DS × String :=
  match d.bad with
  | some _ => (d, "skip")
  | none => (d, "ok")

/-- Hands (and acceptances of a seen STH) are internal steps of the generator: they are not visible at the client
interface. A request for a range no worker holds yet means the generator has meanwhile handed out every range up to
and including this one; in continuous mode it may first have accepted one of the STHs it was shown (in order). The
hand sequence is deterministic, so this is a search over which of the seen STHs were accepted only. -/
def reach (env : Env) (fuel : Nat) (st : St) (sths : List Nat) (s e : Nat) : Option (St × List Nat) :=
  match fuel with
  | 0 => none
  | fuel+1 =>
    match findWorker st.workers s (e + 1) with
    | some _ => some (st, sths)
    | none =>
      if st.cursor < st.end_ then
        match findIdle st.workers with
        | none => none
        | some w => if handEnabled st w then reach env fuel (step env st (.hand w)) sths s e else none
      else
        let rec tryG (fuel : Nat) : List Nat → Option (St × List Nat)
          | [] => none
          | n :: rest =>
            match fuel with
            | 0 => none
            | fuel+1 =>
              if growEnabled st n then
                match reach env fuel (step env st (.grow n)) rest s e with
                | some r => some r
                | none => tryG fuel rest
              else tryG fuel rest
        tryG fuel sths

/-- the regenerated kernels must produce the same range as the model's `hand` (checked on the last hand) -/
def genAgrees (st : St) (s e : Nat) : Option String :=
  -- `st` is the state right after the hand that produced [s, e+1): same end and batch as before it, cursor was `s`
  let be := Gen.genRangesBatchEnd s st.end_ (Gen.genRangesBatch st.batch)
  let (gs, ge) := Gen.genRangesNext s be
  let (rs, re) := Gen.workerRequest gs ge
  if rs != (s : Int) || re != (e : Int) then some s!"regenerated genRanges gives ({rs},{re}) for cursor {s}, end {st.end_}, batch {st.batch}"
  else none

def doHand (d : DS) (s e : Nat) : DS × String :=
  let env := mkEnv d.p
  match reach env (d.st.workers.length + d.sths.length + 3) d.st d.sths s e with
  | none => fail d s!"call {s} {e}: the generator cannot have handed out this range (cursor={d.st.cursor} end={d.st.end_} closed={d.st.closed} workers={repr d.st.workers} sths={d.sths})"
  | some (st', sths') =>
    match genAgrees st' s e with
    | some m => fail d s!"call {s} {e}: {m}"
    | none => ok { d with st := st', sths := sths' }

/-- index of an entry in the matcher queue (a bag) -/
def findQueued (q : List Entry) (x : Entry) : Option Nat :=
  let rec go : List Entry → Nat → Option Nat
    | [], _ => none
    | y :: t, i => if y = x then some i else go t (i+1)
  go q 0

/-- at the end of a scan: every entry still queued must be one the matcher does not select; they are taken and
processed silently -/
def drainSilent (env : Env) (fuel : Nat) (st : St) : Except String St :=
  match fuel with
  | 0 => .error "fuel"
  | fuel+1 =>
    match st.queue with
    | [] => .ok st
    | h :: _ =>
      if (env.cls h.1 h.2).isSome then .error s!"selected entry {h.1} never reached its callback"
      else match findIdle st.matchers with
        | none => .error "matchers busy at the end"
        | some m => drainSilent env fuel (step env (step env st (.take m 0)) (.proc m))

def handleEvent (d : DS) (toks : List String) : DS × String :=
  let env := mkEnv d.p
  match toks with
  | "sth" :: "err" :: _ => ok d
  | "sth" :: n :: _ =>
    match n.toNat? with
    | none => fail d "bad sth line"
    | some n =>
      if !d.inited then
        let e := if Gen.prepareResets n d.p.endOpt then n else d.p.endOpt
        let st0 := init d.p.start e d.p.batch d.p.par d.p.nMatch d.p.cont
        -- Stop / cancellation that arrived while Prepare was still waiting for the first STH
        let st1 := if d.st.cancelled then step env st0 .cancel else if d.st.stopReq then step env st0 .stop else st0
        ok { d with inited := true, st := st1 }
      else ok { d with sths := d.sths ++ [n] }
  | "stop" :: _ => ok { d with st := step env d.st .stop }
  | "cancel" :: _ => ok { d with st := step env d.st .cancel }
  | "call" :: s :: e :: _ =>
    match s.toNat?, e.toNat? with
    | some s, some e =>
      if !d.inited then fail d "call before the first STH"
      else match findWorker d.st.workers s (e + 1) with
        | some _ => ok d
        | none => doHand d s e
    | _, _ => fail d s!"call with a negative or malformed range ({s}, {e})"
  | "ret" :: s :: e :: k :: _ =>
    match s.toNat?, e.toNat? with
    | some s, some e =>
      match findWorker d.st.workers s (e + 1) with
      | none => fail d s!"ret {s} {e}: no worker holds this range"
      | some w =>
        if k = "err" then ok { d with st := step env d.st (.err w) }
        else match k.toNat? with
          | none => fail d "bad ret line"
          | some 0 =>
            -- a reply without entries (outside the get-entries contract, but harmless once): the code hands the empty batch on
            -- and asks again; in the model it is the identity step `respRaw w 0` (Props/C16 `empty_answers_livelock`)
            ok { d with st := step env d.st (.respRaw w 0) }
          | some k =>
            if !enabled d.st (.resp w k) then fail d s!"ret {s} {e} {k}: outside the get-entries contract"
            else
              -- the regenerated worker arithmetic must agree with the model's step
              let st' := step env d.st (.resp w k)
              let adv := Gen.workerAdvance s k
              let more := Gen.workerMore adv e
              let want : Option Rng := if more then some (adv.toNat, e + 1) else none
              if st'.workers[w]? != some want then
                fail d s!"ret {s} {e} {k}: regenerated runWorker continues with {repr want}, model with {repr (st'.workers[w]?)}"
              else ok { d with st := st', awaiting := if d.p.scan then d.awaiting else d.awaiting ++ [(s, k)] }
    | _, _ => fail d "bad ret line"
  | "cb" :: s :: k :: _ =>
    match s.toNat?, k.toNat? with
    | some s, some k =>
      if k = 0 then (match d.bad with | some _ => (d, "skip") | none => (d, "0"))
      else if d.awaiting.contains (s, k) then
        let d' := { d with awaiting := d.awaiting.erase (s, k) }
        match d'.bad with
        | some _ => (d', "skip")
        | none => (d', toString (foldDigest ((batchOf env.src s k).map Prod.snd)))
      else fail d s!"cb {s} {k}: no such batch was fetched (or it was delivered twice)"
    | _, _ => fail d "bad cb line"
  | "m" :: b :: i :: p :: _ =>
    match i.toNat?, p.toNat? with
    | some i, some p =>
      let b := b == "1"
      if env.cls i p != some b then fail d s!"callback {b} on entry {i}: the matcher's choice for it is {repr (env.cls i p)}"
      else match findQueued d.st.queue (i, p), findIdle d.st.matchers with
        | none, _ => fail d s!"m {i}: this entry is not waiting in the matcher queue (never fetched, or its callback already ran)"
        | _, none => fail d s!"m {i}: no idle matcher"
        | some j, some m => ok { d with st := step env (step env d.st (.take m j)) (.proc m) }
    | _, _ => fail d "bad m line"
  | "done" :: rest =>
    let ret : Option Nat := (kv rest "ret").bind String.toNat?
    if !d.inited then
      match d.bad with
      | some _ => (d, "skip")
      | none => (d, "0 err")
    else
      -- after a cancellation the workers still holding a range have given it up (`abandon`, enabled only then)
      let st := if d.st.cancelled then (List.range d.st.workers.length).foldl (fun st w => step env st (.abandon w)) d.st else d.st
      if !allIdle st.workers then fail d "returned while a fetch was pending (and the context was not cancelled)"
      else if !d.awaiting.isEmpty then fail d "returned with a fetched batch never handed to the callback"
      else
        let st := if st.closed then some st else if closeEnabled st then some (step env st .close) else none
        match st with
        | none => fail d s!"returned before the range was exhausted (cursor={d.st.cursor} end={d.st.end_}) without stop/cancel"
        | some st =>
          if !d.p.scan then
            match d.bad with
            | some _ => ({ d with st := st }, "skip")
            | none => ({ d with st := st }, s!"{st.delivered.length} nil")
          else
          match drainSilent env (st.queue.length + 2) st with
          | .error m => fail d s!"done: {m}"
          | .ok st' =>
            if !allIdle st'.matchers then fail d "done: a selected entry is still waiting for its callback"
            else
              -- ScanLog returns the fetcher's end index: the model's end, or — in continuous mode once a stop / cancellation
              -- is pending — a later STH the generator accepted after its last observable hand (it exits, or hands to a
              -- worker that gives up, without any further request)
              let retOk := match ret with
                | none => false
                | some r => r == st'.end_ || (st'.continuous && st'.stopReq && st'.end_ ≤ st'.cursor && r > st'.end_ && d.sths.contains r)
              if !retOk then fail d s!"ScanLog returned {repr ret}, the fetcher's end index is {st'.end_} (STHs seen since: {d.sths})"
              else match d.bad with
              | some _ => (d, "skip")
              | none => ({ d with st := st' }, s!"{st'.called.length}")
  | _ => fail d "unknown event"

def handle (d : DS) (line : String) : DS × String :=
  let toks := match tokens line with
    | "T" :: rest => rest
    | rest => rest
  match toks with
  | "sc" :: rest => ({ active := true, p := parseParams rest }, "ok")
  | _ => if d.active then (if d.bad.isSome then (d, "skip") else handleEvent d toks) else (d, "bad:no scenario")

def run (_ : List String) : IO UInt32 := do
  foldLines (← IO.getStdin) (← IO.getStdout) handle ({} : DS)
  return 0

end CTV.Driver.C16
