import CTV.Basic.Proto
import CTV.Model.Races
/-!
ctvmodel C17: replays the C17 harness lines on `CTV.Model.Races`.

* `st …`   direct operation sequences on `safeSubmissionState` (stateful between lines)
* `pn …`   `parallelNums`
* `race …` one `GetSCTs` call observed under virtual time (who was contacted when, what was returned when): the driver
           searches for an execution of the model (`step`, one action at a time) that produces exactly this observation;
           the unknowns are each group's submission-session order and which goroutine wins when two groups ask for the
           same log at the same instant. Answer `accept` / `reject`.
* `pol …`  `LogsByGroup` (months, groups, minima) for the Chrome / Apple policy
* `compat …` `LogList.Compatible`
* `lockpair …` does the regenerated lock table predict a race between two sets of functions
-/
namespace CTV.Driver.C17
open CTV CTV.Proto CTV.Model.Races

/-! ### parsing helpers -/

def takeNats : Nat → List String → Option (List Nat × List String)
  | 0, rest => some ([], rest)
  | n + 1, t :: rest =>
    match parseNat? t, takeNats n rest with
    | some v, some (vs, r) => some (v :: vs, r)
    | _, _ => none
  | _, _ => none

/-- `name min isBase nlogs l… nsess s…` -/
def parseGroup : List String → Option ((Group × List Log) × List String)
  | nm :: mn :: ib :: nl :: rest =>
    match parseNat? nm, parseInt? mn, parseBool? ib, parseNat? nl with
    | some nm, some mn, some ib, some nl =>
      match takeNats nl rest with
      | some (ls, ns :: rest) =>
        match parseNat? ns with
        | some ns =>
          match takeNats ns rest with
          | some (ss, rest) => some ((⟨nm, ls, mn, ib⟩, ss), rest)
          | none => none
        | none => none
      | _ => none
    | _, _, _, _ => none
  | _ => none

def parseGroups : Nat → List String → Option (List (Group × List Log) × List String)
  | 0, rest => some ([], rest)
  | n + 1, ts =>
    match parseGroup ts with
    | some (g, rest) =>
      match parseGroups n rest with
      | some (gs, rest) => some (g :: gs, rest)
      | none => none
    | none => none

def insertSorted (x : Nat) : List Nat → List Nat
  | [] => [x]
  | y :: ys => if x ≤ y then x :: y :: ys else y :: insertSorted x ys
def sortNat (l : List Nat) : List Nat := l.foldr insertSorted []

def showNats (l : List Nat) : String := joinSp (toString l.length :: l.map toString)

/-! ### `st`: direct operations on the submission state -/

structure StState where
  cfg : Cfg
  sub : Sub

def showRes : Option Res → String
  | none => "nil"
  | some .empty => "empty"
  | some .sct => "sct"
  | some .err => "err"

def stDump (x : StState) (logs : List Log) : String :=
  let ns := (sortNat (dedup (names x.cfg))).map fun g => s!"{g}:{x.sub.needs g}"
  let rs := logs.map fun l => s!"{l}:{showRes (x.sub.results l)}:{boolStr (x.sub.cancels l)}"
  joinSp (ns ++ rs)

def handleSt (st : Option StState) : List String → Option StState × String
  | "new" :: ng :: rest =>
    match parseNat? ng with
    | some ng =>
      match parseGroups ng rest with
      | some (gs, _) =>
        let c : Cfg := gs.map (·.1)
        (some ⟨c, Sub.init c⟩, "ok")
      | none => (st, "bad-op")
    | none => (st, "bad-op")
  | ["req", l] =>
    match st, parseNat? l with
    | some x, some l =>
      let p := request x.cfg x.sub l
      (some { x with sub := p.1 }, boolStr p.2)
    | _, _ => (st, "bad-op")
  | ["res", l, ok] =>
    match st, parseNat? l, parseBool? ok with
    | some x, some l, some ok =>
      match setResult x.cfg x.sub l ok with
      | some p => (some { x with sub := p.1 }, joinSp ["ok", showNats (sortNat p.2)])
      | none => (none, "panic")
    | _, _, _ => (st, "bad-op")
  | ["gc", g] =>
    match st, parseNat? g with
    | some x, some g => (st, boolStr (complete x.sub g))
    | _, _ => (st, "bad-op")
  | ["col"] =>
    match st with
    | some x => (st, showNats (sortNat (sctLogs x.cfg x.sub)))
    | none => (st, "bad-op")
  | "dump" :: n :: rest =>
    match st, parseNat? n with
    | some x, some n =>
      match takeNats n rest with
      | some (ls, _) => (st, stDump x ls)
      | none => (st, "bad-op")
    | _, _ => (st, "bad-op")
  | _ => (st, "bad-op")

/-! ### `race`: search for a model execution matching a virtual-time observation -/

structure Scn where
  run : Run
  ps : Grp → Int
  /-- latency (ms) and outcome (0 SCT, 1 error, 2 hang) per log -/
  script : Log → Nat × Nat
  deadline : Nat
  contact : Log → Option Nat
  nContacts : Nat
  obsTime : Nat
  obsErr : Bool
  /-- the groups named in the error text (`completenessError`) -/
  obsFailed : List Grp
  /-- `false`: the call's return is not observed (the discarded `GetSCTs` call on pending logs) -/
  checkRet : Bool
  obsScts : List Log

structure Sim where
  st : St
  remaining : Grp → List Log
  fired : Grp → Nat
  /-- log, owner group, finish time in ms (0: never by itself), SCT? -/
  inflight : List (Log × Grp × Nat × Bool)
  retAt : Option Nat
  contacts : Nat

def sessLen (sc : Scn) (g : Grp) : Nat := (sc.run.session g).length

/-- instant (ms) at which goroutine `idx` of group `g` wakes: the regenerated `postInterval` with the regenerated
`PostBatchInterval` -/
def timerAt (sc : Scn) (g : Grp) (idx : Nat) : Nat :=
  (Gen.Policy.postInterval idx (sc.ps g) Gen.Policy.postBatchInterval / 1000000).toNat

def app (sc : Scn) (sim : Sim) (op : Op) : Option Sim :=
  (step sc.run sim.st op).map fun st => { sim with st := st }

def allRecvd (sc : Scn) (sim : Sim) : Bool := (names sc.run.cfg).all fun g => (sim.st.recvd g).isSome

/-- `GetSCTs`' loop takes the event of `g`, and returns if that was the last one -/
def recvCollect (sc : Scn) (sim : Sim) (g : Grp) (now : Nat) : Option Sim :=
  if sim.st.ret.isSome then some sim
  else
    match app sc sim (.recv g) with
    | none => none
    | some sim =>
      if allRecvd sc sim then
        (app sc sim .collect).map fun s => { s with retAt := some now }
      else some sim

/-- the `for range session` loop of `groupRace` after it received a count -/
def loopCheck (sc : Scn) (now : Nat) (sim : Sim) (g : Grp) : Option Sim :=
  if (sim.st.gdone g).isSome then some sim
  else if complete sim.st.sub g || finishedCount sc.run sim.st g == sessLen sc g then
    match app sc sim (.groupDone g) with
    | some sim => recvCollect sc sim g now
    | none => none
  else some sim

def loopChecks (sc : Scn) (now : Nat) (sim : Sim) (gs : List Grp) : Option Sim :=
  gs.foldl (fun acc g => acc.bind fun s => loopCheck sc now s g) (some sim)

def minOpt (a : Option Nat) (b : Nat) : Option Nat :=
  match a with
  | none => some b
  | some a => some (min a b)

def nextTimer (sc : Scn) (sim : Sim) : Option Nat :=
  (dedup (names sc.run.cfg)).foldl (fun acc g => if sim.fired g < sessLen sc g then minOpt acc (timerAt sc g (sim.fired g)) else acc) none

def nextResult (sim : Sim) : Option (Log × Grp × Nat × Bool) :=
  sim.inflight.foldl (fun acc e =>
    if e.2.2.1 = 0 then acc else
    match acc with
    | none => some e
    | some a => if e.2.2.1 < a.2.2.1 then some e else acc) none

/-- goroutines waking at `now`, as a list of groups (with repetition), by group then index -/
def firingAt (sc : Scn) (sim : Sim) (now : Nat) : List Grp :=
  (dedup (names sc.run.cfg)).flatMap fun g =>
    let idxs := (List.range (sessLen sc g)).filter fun i => sim.fired g ≤ i && timerAt sc g i == now
    idxs.map fun _ => g

def final (sc : Scn) (sim : Sim) : Bool :=
  match sim.st.ret, sim.retAt with
  | some (ls, e), some t =>
    if sc.checkRet then
      let failed := sortNat ((dedup (names sc.run.cfg)).filter fun g => sim.st.recvd g != some true)
      t == sc.obsTime && e == sc.obsErr && sortNat ls == sc.obsScts && sim.contacts == sc.nContacts && failed == sc.obsFailed
    else sim.contacts == sc.nContacts
  | _, _ => false

/-- wake the goroutines of `now` one after the other: each takes the next log of its group's session (unknown: any
log still unused that is consistent with the observed contact times) and evaluates `groupComplete` -/
partial def chooseAll (sc : Scn) (now : Nat) : List Grp → Sim → List (Grp × Log) → (Sim → List (Grp × Log) → Bool) → Bool
  | [], sim, ch, k => k sim ch
  | g :: rest, sim, ch, k =>
    let rem := sim.remaining g
    let adv (sim' : Sim) (l : Log) : Sim :=
      { sim' with remaining := upd sim'.remaining g (rem.erase l), fired := upd sim'.fired g (sim'.fired g + 1) }
    if complete sim.st.sub g then
      match rem with
      | [] => false
      | l :: _ =>
        match app sc sim (.timerFire g l) with
        | some sim' => chooseAll sc now rest (adv sim' l) ch k
        | none => false
    else
      let nowOpts := rem.filter fun l => sc.contact l == some now
      let oldOpt := (rem.find? fun l => match sc.contact l with
        | some t => t < now
        | none => false).toList
      (nowOpts ++ oldOpt).any fun l =>
        match app sc sim (.timerFire g l) with
        | some sim' => chooseAll sc now rest (adv sim' l) ((g, l) :: ch) k
        | none => false

/-- the `request` calls of the goroutines that passed the check: for a log first contacted at `now` one of the
contenders is granted (any of them), everybody else is refused -/
partial def requests (sc : Scn) (now : Nat) : List Log → List (Grp × Log) → Sim → (Sim → Bool) → Bool
  | [], ch, sim, k =>
    -- every remaining request is for a log that was asked before: refused
    let r := ch.foldl (fun acc (p : Grp × Log) => acc.bind fun s =>
      match app sc s (.request p.1 p.2) with
      | some s' => if s'.st.gor p.1 p.2 = .finished then some s' else none
      | none => none) (some sim)
    match r with
    | some s => k s
    | none => false
  | l :: ls, ch, sim, k =>
    let cont := ch.filter fun p => p.2 == l
    let others := ch.filter fun p => p.2 != l
    cont.any fun owner =>
      match app sc sim (.request owner.1 l) with
      | some s1 =>
        if s1.st.gor owner.1 l = .inflight then
          let sc1 := sc.script l
          let fin := if sc1.2 == 2 then 0 else now + sc1.1
          let s2 : Sim := { s1 with inflight := (l, owner.1, fin, sc1.2 == 0) :: s1.inflight, contacts := s1.contacts + 1 }
          let losers := cont.filter fun p => p.1 != owner.1
          let r := losers.foldl (fun acc (p : Grp × Log) => acc.bind fun s =>
            match app sc s (.request p.1 p.2) with
            | some s' => if s'.st.gor p.1 p.2 = .finished then some s' else none
            | none => none) (some s2)
          match r with
          | some s3 => requests sc now ls others s3 k
          | none => false
        else false
      | none => false

partial def simulate (sc : Scn) (sim : Sim) : Bool :=
  let tT := nextTimer sc sim
  let tR := (nextResult sim).map (·.2.2.1)
  let tNext : Option Nat := match tT, tR with
    | some a, some b => some (min a b)
    | some a, none => some a
    | none, some b => some b
    | none, none => none
  match tNext with
  | some t =>
    if t < sc.deadline then
      if tT == some t then timers t else result t
    else deadline ()
  | none => deadline ()
where
  timers (now : Nat) : Bool :=
    let fire := firingAt sc sim now
    chooseAll sc now fire sim [] fun sim ch =>
      let nowLogs := dedup ((ch.filter fun p => sc.contact p.2 == some now).map (·.2))
      requests sc now nowLogs ch sim fun sim =>
        -- every log observed to be contacted at this instant was contacted
        let expected := (allLogs sc.run.cfg).filter fun l => sc.contact l == some now
        if expected.all (fun l => l ∈ sim.st.submitted) then
          match loopChecks sc now sim (dedup fire) with
          | some sim => simulate sc sim
          | none => false
        else false
  result (now : Nat) : Bool :=
    match nextResult sim with
    | none => false
    | some e =>
      let infl := sim.inflight.filter fun x => x.1 != e.1
      match app sc { sim with inflight := infl } (.setResult e.2.1 e.1 e.2.2.2) with
      | none => false
      | some sim =>
        -- requests whose cancel function was called return an error at once
        let cancelled := sim.inflight.filter fun x => !sim.st.sub.cancels x.1
        let kept := sim.inflight.filter fun x => sim.st.sub.cancels x.1
        let r := cancelled.foldl (fun acc x => acc.bind fun s => app sc s (.setResult x.2.1 x.1 false)) (some { sim with inflight := kept })
        match r with
        | none => false
        | some sim =>
          match loopChecks sc now sim (dedup (e.2.1 :: cancelled.map (·.2.1))) with
          | some sim => simulate sc sim
          | none => false
  deadline (_ : Unit) : Bool :=
    let now := sc.deadline
    match app sc sim .ctxDone with
    | none => false
    | some sim =>
      -- goroutines still waiting on their timer leave through subCtx.Done
      let waiting : List (Grp × Log) := (dedup (names sc.run.cfg)).flatMap fun g => (sim.remaining g).map fun l => (g, l)
      let r := waiting.foldl (fun acc p => acc.bind fun s => app sc s (.abort p.1 p.2)) (some sim)
      match r with
      | none => false
      | some sim =>
        -- every pending SubmitToLog returns the context's error
        let r := sim.inflight.foldl (fun acc x => acc.bind fun s => app sc s (.setResult x.2.1 x.1 false)) (some { sim with inflight := [] })
        match r with
        | none => false
        | some sim =>
          let gs := (dedup (names sc.run.cfg)).filter fun g => (sim.st.gdone g).isNone
          let r := gs.foldl (fun acc g => acc.bind fun s => app sc s (.groupDone g)) (some sim)
          match r with
          | none => false
          | some sim =>
            if sim.st.ret.isSome then final sc sim
            else
              -- GetSCTs' select may take ctx.Done() at once, or first drain group events that are ready
              let direct := match app sc sim .collect with
                | some s => final sc { s with retAt := some now }
                | none => false
              let drained :=
                let pend := (dedup (names sc.run.cfg)).filter fun g => (sim.st.recvd g).isNone
                let r := pend.foldl (fun acc g => acc.bind fun s => app sc s (.recv g)) (some sim)
                match r with
                | some s => match app sc s .collect with
                  | some s => final sc { s with retAt := some now }
                  | none => false
                | none => false
              direct || drained

def parseLogs : Nat → List String → Option (List (Log × Nat × Nat × Option Nat) × List String)
  | 0, rest => some ([], rest)
  | n + 1, l :: lat :: oc :: ct :: rest =>
    match parseNat? l, parseNat? lat, parseNat? oc, parseLogs n rest with
    | some l, some lat, some oc, some (ls, r) =>
      let c := if ct = "-" then none else parseNat? ct
      some ((l, lat, oc, c) :: ls, r)
    | _, _, _, _ => none
  | _, _ => none

/-- the part of a `race` / `dist` line after the groups: `L n (log lat outcome contact|-)* D d R t err n scts…` -/
def raceTail (gs : List (Group × List Log)) (ts : List String) (checkRet : Bool := true)
    (keep : Log → Bool := fun _ => true) : String :=
  match ts with
  | "L" :: nl :: rest =>
    match parseNat? nl with
    | none => "bad-op"
    | some nl =>
      match (parseLogs nl rest).map (fun p => (p.1.filter (fun e => keep e.1), p.2)) with
      | some (ls, "D" :: d :: "R" :: rt :: re :: nf :: rest0) =>
        match parseNat? d, parseNat? rt, parseBool? re, (parseNat? nf).bind (fun nf => takeNats nf rest0) with
        | some d, some rt, some re, some (failed, ns :: rest) =>
          match (parseNat? ns).bind (fun ns => takeNats ns rest) with
          | some (scts, _) =>
            let cfg : Cfg := gs.map (·.1)
            let sess : Grp → List Log := fun g => match gs.find? (fun p => p.1.name == g) with
              | some p => p.2
              | none => []
            let look (l : Log) := ls.find? (fun p => p.1 == l)
            let sc : Scn := {
              run := ⟨cfg, sess⟩, ps := parallelNums cfg,
              script := fun l => match look l with
                | some p => (p.2.1, p.2.2.1)
                | none => (1, 1),
              deadline := d,
              contact := fun l => match look l with
                | some p => p.2.2.2
                | none => none,
              nContacts := (ls.filter fun p => p.2.2.2.isSome).length,
              obsTime := rt, obsErr := re, obsFailed := sortNat failed, checkRet := checkRet, obsScts := sortNat scts }
            let sim0 : Sim := { st := St.init sc.run, remaining := sess, fired := fun _ => 0, inflight := [], retAt := none, contacts := 0 }
            -- groups with an empty session return at once; with no group at all GetSCTs returns at once
            let start : Option Sim :=
              if (names cfg).isEmpty then (app sc sim0 .collect).map fun s => { s with retAt := some 0 }
              else loopChecks sc 0 sim0 ((dedup (names cfg)).filter fun g => sessLen sc g == 0)
            match start with
            | some s => if simulate sc s then "accept" else "reject"
            | none => "reject-start"
          | none => "bad-op"
        | _, _, _, _ => "bad-op"
      | _ => "bad-op"
  | _ => "bad-op"

def handleRace (ts : List String) : String :=
  match ts with
  | "G" :: ng :: rest =>
    match parseNat? ng with
    | none => "bad-op"
    | some ng =>
      match parseGroups ng rest with
      | some (gs, rest) => raceTail gs rest
      | none => "bad-op"
  | _ => "bad-op"

/-! ### `dist`: `Distributor.AddChain` / `AddPreChain`: compatibility filter, policy groups, then the race -/

def parseInts : Nat → List String → Option (List Int × List String)
  | 0, rest => some ([], rest)
  | n + 1, t :: rest =>
    match parseInt? t, parseInts n rest with
    | some v, some (vs, r) => some (v :: vs, r)
    | _, _ => none
  | _, _ => none

/-- one log of the list: `id google status ia ib|- - rootsKnown k r…` (status: 1 pending, 2 qualified, 3 usable, …) -/
structure DLog where
  info : LogInfo
  status : Nat

def parseDLogs : Nat → List String → Option (List DLog × List String)
  | 0, rest => some ([], rest)
  | n + 1, id :: g :: st :: ia :: ib :: rk :: k :: rest =>
    match parseNat? id, parseBool? g, parseNat? st, parseBool? rk, parseNat? k with
    | some id, some g, some st, some rk, some k =>
      match takeNats k rest with
      | some (rs, rest) =>
        let iv : Option (Int × Int) := match parseInt? ia, parseInt? ib with
          | some a, some b => some (a, b)
          | _, _ => none
        match parseDLogs n rest with
        | some (ls, rest) => some (⟨⟨id, g, st == 3, iv, if rk then some rs else none⟩, st⟩ :: ls, rest)
        | none => none
      | none => none
    | _, _, _, _, _ => none
  | _, _ => none

def handleDist (ts : List String) : String :=
  match ts with
  | pol :: dis :: "PRE" :: isPre :: asPre :: "PEND" :: pend :: "D6" :: rest =>
    match parseBool? dis, parseBool? isPre, parseBool? asPre, parseBool? pend, parseInts 6 rest with
    | some dis, some isPre, some asPre, some pend, some ([sy, sm, sd, ey, em, ed], "NA" :: na :: "ROOT" :: rt :: "N" :: n :: rest) =>
      match parseInt? na, parseNat? rt, parseNat? n with
      | some na, some rt, some n =>
        match parseDLogs n rest with
        | some (dls, rest) =>
          let p : Pol := if pol = "a" then .apple else .chrome
          let clients := dls.filter fun d => d.status == 1 || d.status == 2 || d.status == 3
          match chooseRoot dis rt (clients.map fun d => d.info.roots) with
          | none => "badchain"
          | some root =>
            if isPre != asPre then "typemismatch"
            else
              let cl := compatible na root (dls.map (·.info))
              let months := Gen.Policy.lifetimeInMonths sy sm sd ey em ed
              match policyCfg p months cl with
              | none => "nogroups"
              | some cfg =>
                let pls := (dls.filter fun d => d.status == 1 || d.status == 2).map (·.info)
                let pids := pls.map (·.id)
                let main := raceTail (cfg.map fun g => (g, g.logs)) rest true (fun l => !(pend && pids.contains l))
                if !pend then main
                else if main != "accept" then main
                else
                  -- the second, discarded GetSCTs call on the pending / qualified logs
                  let pc : Cfg := (pendingCfg pls).getD []
                  match raceTail (pc.map fun g => (g, g.logs)) rest false (fun l => pids.contains l) with
                  | "accept" => "accept"
                  | r => "pending-" ++ r
        | none => "bad-op"
      | _, _, _ => "bad-op"
    | _, _, _, _, _ => "bad-op"
  | _ => "bad-op"

/-- `pol c|a D6 sy sm sd ey em ed N n (id google)*`: months, then the groups `LogsByGroup` builds, or `err` -/
def handlePol (ts : List String) : String :=
  match ts with
  | pol :: "D6" :: rest =>
    match parseInts 6 rest with
    | some ([sy, sm, sd, ey, em, ed], "N" :: n :: rest) =>
      match parseNat? n with
      | some n =>
        match takeNats (2 * n) rest with
        | some (xs, _) =>
          let rec pairs : List Nat → List LogInfo
            | id :: g :: r => ⟨id, g == 1, true, none, none⟩ :: pairs r
            | _ => []
          let p : Pol := if pol = "a" then .apple else .chrome
          let months := Gen.Policy.lifetimeInMonths sy sm sd ey em ed
          match policyCfg p months (pairs xs) with
          | none => "err"
          | some cfg =>
            let gs := cfg.map fun g => joinSp [toString g.name, toString g.min, boolStr g.isBase, showNats (sortNat g.logs)]
            joinSp (["groups", toString cfg.length] ++ gs)
        | none => "bad-op"
      | none => "bad-op"
    | _ => "bad-op"
  | _ => "bad-op"

/-- `compat NA na ROOT rt|- isCA N n dlogs…`: ids of `LogList.Compatible` (sorted) -/
def handleCompat (ts : List String) : String :=
  match ts with
  | "NA" :: na :: "ROOT" :: rt :: ca :: "N" :: n :: rest =>
    match parseInt? na, parseBool? ca, parseNat? n with
    | some na, some ca, some n =>
      match parseDLogs n rest with
      | some (dls, _) =>
        let root : Option (Nat × Bool) := (parseNat? rt).map fun r => (r, ca)
        showNats (sortNat ((compatible na root (dls.map (·.info))).map (·.id)))
      | none => "bad-op"
    | _, _, _ => "bad-op"
  | _ => "bad-op"

/-! ### `lockpair`: what the regenerated lock table predicts for two sets of functions running concurrently -/

def insufficient (a : Gen.Policy.Access) : Bool := !a.ctor && (if a.write then a.mode != 2 else a.mode == 0)

/-- `lockpair A k f… B k f…` : `race` iff some field is accessed from both sides, at least once as a write, and at
least one of the two accesses does not hold the guard sufficiently -/
def handleLockpair (ts : List String) : String :=
  let rec take (n : Nat) (l : List String) : List String × List String := (l.take n, l.drop n)
  match ts with
  | "A" :: ka :: rest =>
    match parseNat? ka with
    | some ka =>
      let (fa, rest) := take ka rest
      match rest with
      | "B" :: kb :: rest =>
        match parseNat? kb with
        | some kb =>
          let (fb, _) := take kb rest
          let ra := Gen.Policy.lockTable.filter fun a => fa.contains a.fn && !a.ctor
          let rb := Gen.Policy.lockTable.filter fun a => fb.contains a.fn && !a.ctor
          let hit := ra.any fun a => rb.any fun b =>
            a.struct == b.struct && a.field == b.field && (a.write || b.write) && (insufficient a || insufficient b)
          if hit then "race" else "norace"
        | none => "bad-op"
      | _ => "bad-op"
    | none => "bad-op"
  | _ => "bad-op"

def handlePn (ts : List String) : String :=
  match ts with
  | ng :: rest =>
    match parseNat? ng with
    | some ng =>
      match parseGroups ng rest with
      | some (gs, _) =>
        let c : Cfg := gs.map (·.1)
        joinSp ((sortNat (dedup (names c))).map fun g => s!"{g}:{parallelNums c g}")
      | none => "bad-op"
    | none => "bad-op"
  | _ => "bad-op"

def handle (st : Option StState) (line : String) : Option StState × String :=
  let ts := match tokens line with
    | "T" :: rest => rest
    | rest => rest
  match ts with
  | "st" :: rest => handleSt st rest
  | "pn" :: rest => (st, handlePn rest)
  | "race" :: rest => (st, handleRace rest)
  | "dist" :: rest => (st, handleDist rest)
  | "pol" :: rest => (st, handlePol rest)
  | "compat" :: rest => (st, handleCompat rest)
  | "lockpair" :: rest => (st, handleLockpair rest)
  | "months" :: rest => (st, match parseInts 6 rest with
      | some ([sy, sm, sd, ey, em, ed], _) => toString (Gen.Policy.lifetimeInMonths sy sm sd ey em ed)
      | _ => "bad-op")
  | _ => (st, "bad-op")

def run (_ : List String) : IO UInt32 := do
  foldLines (← IO.getStdin) (← IO.getStdout) handle none
  return 0

end CTV.Driver.C17
