import CTV.Basic.Proto
import CTV.Tls.Tag
/-! ctvmodel C09: replays `enc` / `dec` lines of the C09 harness on `Tls.enc` / `Tls.dec`.
The Go type shape and the raw tag strings travel in the line; the tags go through `Tls.parseTag`. -/
namespace CTV.Driver.C09
open CTV CTV.Proto Tls

def unhexChars (s : String) : Option (List Char) :=
  match fromHex s with
  | some bs => some (String.fromUTF8! (ByteArray.mk bs.toArray)).toList
  | none => none

mutual
partial def parseTy : List String → Option (GoTy × List String)
  | "u8" :: r => some (.u8, r)
  | "u16" :: r => some (.u16, r)
  | "u24" :: r => some (.u24, r)
  | "u32" :: r => some (.u32, r)
  | "u64" :: r => some (.u64, r)
  | "N" :: r => (parseTy r).map fun (t, r) => (.named t, r)
  | "S" :: r => (parseTy r).map fun (t, r) => (.slice t, r)
  | "P" :: r => (parseTy r).map fun (t, r) => (.ptr t, r)
  | "A" :: n :: r =>
    match n.toNat?, parseTy r with
    | some n, some (t, r) => some (.array n t, r)
    | _, _ => none
  | "T" :: k :: r =>
    match k.toNat? with
    | some k => (parseFields k r).map fun (fs, r) => (.struct fs, r)
    | none => none
  | _ => none
partial def parseFields : Nat → List String → Option (GoFields × List String)
  | 0, r => some (.nil, r)
  | k + 1, name :: tag :: r =>
    match unhexChars tag, parseTy r with
    | some tag, some (t, r) =>
      (parseFields k r).map fun (fs, r) =>
        if name.front = '~' then (.consRO (String.ofList (name.toList.drop 1)) tag t fs, r) else (.cons name tag t fs, r)
    | _, _ => none
  | _, _ => none
end

mutual
partial def parseVal : List String → Option (Val × List String)
  | "0" :: r => some (.absent, r)
  | tok :: r =>
    let body : String := String.ofList (tok.toList.drop 1)
    match tok.front with
    | 'n' => body.toNat?.map fun n => (.num n, r)
    | 'b' => (fromHex body).map fun b => (.bytes b, r)
    | 'l' => match body.toNat? with
      | some k => (parseVals k r).map fun (vs, r) => (.list vs, r)
      | none => none
    | 's' => match body.toNat? with
      | some k => (parseVals k r).map fun (vs, r) => (.struct vs, r)
      | none => none
    | _ => none
  | [] => none
partial def parseVals : Nat → List String → Option (List Val × List String)
  | 0, r => some ([], r)
  | k + 1, r =>
    match parseVal r with
    | some (v, r) => (parseVals k r).map fun (vs, r) => (v :: vs, r)
    | none => none
end

partial def showVal : Val → String
  | .num n => s!"n{n}"
  | .bytes b => "b" ++ hexOrDash b
  | .list vs => joinSp (s!"l{vs.length}" :: vs.map showVal)
  | .struct vs => joinSp (s!"s{vs.length}" :: vs.map showVal)
  | .absent => "0"

def splitBar (ts : List String) : List String × List String :=
  (ts.takeWhile (· ≠ "|"), (ts.dropWhile (· ≠ "|")).drop 1)

def handle (line : String) : String :=
  let ts := match tokens line with
    | "T" :: rest => rest
    | rest => rest
  match ts with
  | op :: params :: rest =>
    let (d, arg) := splitBar rest
    match unhexChars params, parseTy d with
    | some params, some (g, []) =>
      if op = "enc" then
        match parseVal arg with
        | some (v, []) =>
          match marshalWithParams g params v with
          | .ok bs => "ok " ++ hexOrDash bs
          | .error _ => "err"
        | _ => "bad-op"
      else if op = "dec" then
        match arg with
        | [h] =>
          match fromHex h with
          | some bs =>
            match unmarshalWithParams g params bs with
            | .ok (v, rest) => "ok " ++ showVal v ++ " " ++ hexOrDash rest
            | .error _ => "err"
          | none => "bad-op"
        | _ => "bad-op"
      else "bad-op"
    | _, _ => "bad-op"
  | _ => "bad-op"

def run (_ : List String) : IO UInt32 := do
  mapLines (← IO.getStdin) (← IO.getStdout) handle
  return 0

end CTV.Driver.C09
