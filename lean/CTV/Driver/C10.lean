import CTV.Basic.Proto
import CTV.Der.Asn1
/-! ctvmodel C10: replays the `p` lines of the C10 harness on the DER model.

`p <f|u> <params|-> <type…> <hex>`  ⇒  `ok <value…> | <rest> | <marshal hex|err>`  or  `err`

`f` = the fork's dialect as regenerated from the working tree, `u` = go1.24.1 `encoding/asn1`. -/
namespace CTV.Driver.C10
open CTV CTV.Proto CTV.Der

partial def parseTy : List String → Option (ATy × List String)
  | "bool" :: r => some (.bool, r)
  | "i32" :: r => some (.int32, r)
  | "i64" :: r => some (.int64, r)
  | "big" :: r => some (.bigInt, r)
  | "enum" :: r => some (.enum, r)
  | "bits" :: r => some (.bitString, r)
  | "oct" :: r => some (.octets, r)
  | "oid" :: r => some (.oid, r)
  | "str" :: r => some (.str, r)
  | "raw" :: r => some (.rawValue, r)
  | "flag" :: r => some (.flag, r)
  | "time" :: r => some (.time, r)
  | "any" :: r => some (.any, r)
  | "seq" :: s :: r =>
    match parseBool? s, parseTy r with
    | some s, some (e, r') => some (.seqOf s e, r')
    | _, _ => none
  | "struct" :: raw :: n :: r =>
    match parseBool? raw, parseNat? n with
    | some raw, some n =>
      match fields n r with
      | some (fs, r') => some (.struct raw fs, r')
      | none => none
    | _, _ => none
  | _ => none
where fields : Nat → List String → Option (AFields × List String)
  | 0, r => some (.nil, r)
  | n+1, tag :: r =>
    match parseTy r with
    | some (t, r') =>
      match fields n r' with
      | some (fs, r'') => some (.cons (parseFieldParameters (if tag = "-" then "" else tag)) t fs, r'')
      | none => none
    | none => none
  | _, _ => none

mutual
def hasAny : ATy → Bool
  | .any => true
  | .struct _ fs => hasAnyF fs
  | .seqOf _ e => hasAny e
  | _ => false
def hasAnyF : AFields → Bool
  | .nil => false
  | .cons _ t rest => hasAny t || hasAnyF rest
end

def showOID (a : List Nat) : String := if a.isEmpty then "O-" else "O" ++ ".".intercalate (a.map toString)

mutual
partial def showVal : ATy → AVal → List String
  | t, .absent v => showVal t v
  | _, .bool b => ["b" ++ boolStr b]
  | _, .int i => [s!"i{i}"]
  | _, .bits b => [s!"B{b.bitLen}:{hexOrDash b.bytes}"]
  | _, .octets b => ["o" ++ hexOrDash b]
  | _, .oid a => [showOID a]
  | _, .str _ s => ["s" ++ hexOrDash s]
  | _, .raw c t k content full => [s!"r{c}.{t}.{boolStr k}:{hexOrDash content}:{hexOrDash full}"]
  | _, .flag b => ["f" ++ boolStr b]
  | _, .time t => [if t == ⟨1, 1, 1, 0, 0, 0, 0, 0⟩ then "T0" else s!"T{t.unix}.{t.nsec}.{t.offset}"]
  | _, .any none => ["A-"]
  | _, .any (some v) => (showVal .bool v).map fun s => "A" ++ s
  | .struct raw fs, .struct rv vs =>
    s!"S{vs.length}" :: ((if raw then ["R" ++ hexOrDash (rv.getD [])] else []) ++ showVals fs vs)
  | .seqOf _ e, .list vs => s!"L{vs.length}" :: vs.flatMap (showVal e)
  | _, _ => ["?"]
partial def showVals : AFields → List AVal → List String
  | .cons _ t rest, v :: vs => showVal t v ++ showVals rest vs
  | _, _ => []
end

def handle (line : String) : String :=
  match tokens line with
  | "T" :: rest => go rest
  | rest => go rest
where go : List String → String
  | "p" :: dl :: params :: rest =>
    let d := if dl = "u" then Dialect.upstream else Dialect.fork
    match parseTy rest with
    | some (t, [hx]) =>
      match fromHex hx with
      | none => "bad-op"
      | some bs =>
        let ps := if params = "-" then "" else params
        match unmarshal d t ps bs with
        | .error _ => "err"
        | .ok (v, rest) =>
          let p := parseFieldParameters ps
          let rt := match marshalField d t p v with
            | .ok b => hexOrDash b
            | .error _ => "err"
          -- self-check of the Canon recogniser (the full `marshal_parse` is not a theorem yet (Props/C10.lean, FULL block): this evaluates it on every accepted input)
          let consumed := bs.take (bs.length - rest.length)
          let canonBroken := match parseField d .canon t p bs with
            | .ok (_, rest') => !(rest'.length == rest.length && rt == hexOrDash consumed)
            | .error _ => false
          if canonBroken then "MODEL-CANON-BROKEN"
          else joinSp (["ok"] ++ showVal t v ++ ["|", hexOrDash rest, "|", rt])
    | _ => "bad-op"
  | "c" :: params :: rest =>
    -- Canon recogniser against the implementation: `1` iff the input is in the canonical form for the type,
    -- which the implementation shows by Marshal(Unmarshal(input)) = the consumed octets
    match parseTy rest with
    | some (t, [hx]) =>
      match fromHex hx with
      | none => "bad-op"
      | some bs =>
        let p := parseFieldParameters (if params = "-" then "" else params)
        -- Canon excludes interface{} targets altogether (declared incompleteness, notes/C10.md): no opinion there
        if hasAny t then "skip" else
        match parseField Dialect.fork .canon t p bs with
        | .ok _ => "1"
        | .error _ =>
          -- Canon is sufficient for an exact round trip (`marshal_parse`), not necessary: the octets a present-but-omitted field
          -- loses can be written back by a neighbour (`12 00` read by an `optional` string, re-emitted by the absent
          -- `optional,default:…` string after it — found by the thorough tier). Such an input is exact without being canonical;
          -- the model says so when its own Marshal ∘ Unmarshal reproduces the consumed octets.
          match parseField Dialect.fork .strict t p bs with
          | .error _ => "0"
          | .ok (v, rest) =>
            match marshalField Dialect.fork t p v with
            | .ok b => if b == bs.take (bs.length - rest.length) then "1" else "0"
            | .error _ => "0"
    | _ => "bad-op"
  | _ => "bad-op"

def run (_ : List String) : IO UInt32 := do
  mapLines (← IO.getStdin) (← IO.getStdout) handle
  return 0

end CTV.Driver.C10
