import CTV.Basic.Proto
import CTV.Model.Migrate
import CTV.Gen.Scan
import CTV.Gen.Migrate
import CTV.Driver.C16
/-!
ctvmodel C20: validates the event trace of the C20 harness (migrillian Controller) against the migration model.

Events (recorded under one mutex at the source log's RoundTripper, at the destination's TrillianLogClient, at the
scripted election and by the scenario driver):

  sc k=v …                 new scenario                                              => ok
  run                      Controller.Run is (re-)entered: its position starts at 0   => ok
  root n | root err        GetLatestSignedLogRoot answered (a `fetchTail` pass begins) => ok
  sth n | sth err          get-sth answered (Fetcher.Prepare)                          => ok
  proof a b ok|bad|err     get-sth-consistency answered                                => ok   (the gate)
  call s e / ret s e k|err get-entries                                                 => ok   (C16's fetcher)
  add s k                  AddSequencedLeaves([s, s+k)) received                       => digest of the source's entries s … s+k-1
  addret s k ok|quota|fatal  … and answered                                            => ok
  cancel | lost            context cancelled / mastership lost                         => ok
  done                     Run / RunWhenMaster returned                                => nil | err
-/
namespace CTV.Driver.C20
open CTV CTV.Proto CTV.Model.Scan CTV.Model.Migrate

inductive Phase where
  | idle
  | rooted (treeSize : Nat)
  | awaitProof (treeSize sth : Nat)
  | fetching
  | refused
deriving Repr, DecidableEq

structure DS where
  active : Bool := false
  id : String := "?"
  cont : Bool := false
  cfgStart : Int := 0
  cfgEnd : Nat := 0
  batch : Nat := 1
  fetchers : Nat := 1
  submitters : Nat := 1
  noCheck : Bool := false
  seed : Nat := 0
  pos : Nat := 0
  phase : Phase := .idle
  ps : PSt := pinit 0 0 1 0 0 []
  passStartIdx : Nat := 0
  sthN : Nat := 0
  ctxCancelled : Bool := false
  runCancelled : Bool := false        -- the mastership context of the current Run was cancelled
  lastOk : Bool := false
  retried : List Batch := []        -- batches whose last answer was `quota` (a second `add` of them is the retry)
  bad : Option String := none

def cfgOf (d : DS) : Cfg :=
  { src := C16.pay d.seed, idf := fun i p => i + 7 * p, retryQuota := codeRetriesQuota }

def fail (d : DS) (msg : String) : DS × String :=
  match d.bad with
  | some _ => (d, "skip")
  | none => ({ d with bad := some msg }, s!"bad:[{d.id}] {msg}")

def ok (d : DS) (ans : String := "ok") : DS × String :=
  match d.bad with
  | some _ => (d, "skip")
  | none => (d, ans)

def findSub (subs : List (Option Batch)) (b : Batch) : Option Nat :=
  let rec go : List (Option Batch) → Nat → Option Nat
    | [], _ => none
    | some y :: t, i => if y = b then some i else go t (i+1)
    | none :: t, i => go t (i+1)
  go subs 0

def findChan (ch : List Batch) (b : Batch) : Option Nat :=
  let rec go : List Batch → Nat → Option Nat
    | [], _ => none
    | y :: t, i => if y = b then some i else go t (i+1)
  go ch 0

/-- the pass in progress (if any) is over: the next `fetchTail`, a new `Run`, or the return of the Controller -/
def finalize (d : DS) : DS × Option String :=
  match d.phase with
  | .fetching =>
    let s := d.ps
    -- the generator closes by itself once the range is exhausted; it is not visible in the trace
    let s := if !s.f.closed && closeEnabled s.f then pstep (cfgOf d) s (.fetch .close) else s
    if passOk s then ({ d with phase := .idle, lastOk := true, pos := d.sthN, ps := s }, none)
    else if s.failed || s.f.cancelled then ({ d with phase := .idle, lastOk := false, pos := 0, ps := s }, none)
    else ({ d with phase := .idle, lastOk := false, pos := 0, ps := s },
          some s!"the pass ended with work pending and no failure (cursor={s.f.cursor} end={s.f.end_} workers={repr s.f.workers} chan={repr s.chan} subs={repr s.subs})")
  | .rooted _ | .awaitProof _ _ => ({ d with phase := .idle, lastOk := false, pos := 0 }, none)
  | .refused => ({ d with phase := .idle, lastOk := false, pos := 0 }, none)
  | .idle => (d, none)

def beginFetch (d : DS) (treeSize n : Nat) : DS :=
  let start := passStart d.cont d.cfgStart treeSize d.pos
  let cfgEnd := if d.cont then 0 else d.cfgEnd
  let e := if Gen.prepareResets n cfgEnd then n else cfgEnd
  let ps := pinit start e d.batch d.fetchers d.submitters d.ps.dest
  -- a pass started under an already cancelled context is cancelled from its first step
  let ps := if d.ctxCancelled || d.runCancelled then pstep (cfgOf d) ps (.fetch .cancel) else ps
  { d with phase := .fetching, passStartIdx := start, sthN := n, retried := [], ps := ps }

/-- the regenerated `fetchTail` arithmetic must give the model's start index -/
def startAgrees (d : DS) (treeSize : Nat) : Option String :=
  -- the statement sequence of fetchTail, regenerated in the code's order
  let (s1, e1, c1) := Gen.fetchTailRange d.cfgStart d.cfgEnd d.cont treeSize d.pos
  let want : Int × Int × Bool := (((passStart d.cont d.cfgStart treeSize d.pos : Nat) : Int), (if d.cont then 0 else (d.cfgEnd : Int)), false)
  if (s1, e1, c1) != want then some s!"regenerated fetchTail range ({s1}, {e1}, continuous={c1}), model ({want.1}, {want.2.1}, false)"
  else none

def handleEvent (d : DS) (toks : List String) : DS × String :=
  let c := cfgOf d
  match toks with
  | "run" :: _ =>
    let (d, e) := finalize d
    match e with
    | some m => fail d m
    | none => ok { d with pos := 0, runCancelled := false }
  | "root" :: n :: _ =>
    let (d, e) := finalize d
    match e with
    | some m => fail d m
    | none =>
      if n = "err" then ok { d with lastOk := false, pos := 0 }
      else match n.toNat? with
        | none => fail d "bad root line"
        | some t => ok { d with phase := .rooted t }
  | "sth" :: n :: _ =>
    match d.phase with
    | .rooted t =>
      if n = "err" then ok { d with phase := .idle, lastOk := false, pos := 0 }
      else match n.toNat? with
        | none => fail d "bad sth line"
        | some m =>
          match startAgrees d t with
          | some msg => fail d msg
          | none =>
            -- the regenerated early exit and the model's gate must agree
            if Gen.fetchTailUpToDate m d.pos != decide (m ≤ d.pos) then fail d "regenerated up-to-date test differs"
            else if (Gen.verifyConsistencyChain t false true true == 0) != decide (t = 0) then fail d "regenerated empty-root test differs"
            else match gate d.noCheck t m d.pos true, gate d.noCheck t m d.pos false with
              | .upToDate, _ => ok { d with phase := .idle, lastOk := true }
              | .proceed, .proceed => ok (beginFetch d t m)
              | _, _ => ok { d with phase := .awaitProof t m }
    | _ => fail d "get-sth outside the start of a pass"
  | "proof" :: a :: b :: v :: _ =>
    match d.phase with
    | .awaitProof t m =>
      if a.toNat? != some t || b.toNat? != some m then fail d s!"consistency proof asked for ({a},{b}), the pass needs ({t},{m})"
      else match gate d.noCheck t m d.pos (v == "ok") with
        | .proceed => ok (beginFetch d t m)
        | _ => ok { d with phase := .refused }
    | _ => fail d "consistency proof requested although the gate does not need one"
  | "call" :: s :: e :: _ =>
    match d.phase, s.toNat?, e.toNat? with
    | .fetching, some s, some e =>
      (match C16.findWorker d.ps.f.workers s (e + 1) with
       | some _ => ok d
       | none =>
         match C16.reach c.env (d.ps.f.workers.length + 3) d.ps.f [] s e with
         | none => fail d s!"call {s} {e}: the generator cannot have handed out this range (cursor={d.ps.f.cursor} end={d.ps.f.end_} workers={repr d.ps.f.workers})"
         | some (f', _) =>
           match C16.genAgrees f' s e with
           | some m => fail d s!"call {s} {e}: {m}"
           | none => ok { d with ps := { d.ps with f := f' } })
    | .fetching, _, _ => fail d "bad call line"
    | ph, _, _ => fail d s!"get-entries({s},{e}) while no pass is fetching (phase {repr ph}): the gate was closed or the pass was over"
  | "ret" :: s :: e :: k :: _ =>
    match d.phase, s.toNat?, e.toNat? with
    | .fetching, some s, some e =>
      (match C16.findWorker d.ps.f.workers s (e + 1) with
       | none => fail d s!"ret {s} {e}: no worker holds this range"
       | some w =>
         if k = "err" then ok { d with ps := pstep c d.ps (.fetch (.err w)) }
         else match k.toNat? with
           | none => fail d "bad ret line"
           | some 0 => ok d     -- a reply without entries: no progress, the worker asks again (identity step)
           | some k =>
             if !enabled d.ps.f (.resp w k) then fail d s!"ret {s} {e} {k}: outside the get-entries contract"
             else ok { d with ps := pstep c d.ps (.fetch (.resp w k)) })
    | _, _, _ => fail d "ret outside a fetching pass"
  | "add" :: s :: k :: _ =>
    match d.phase, s.toNat?, k.toNat? with
    | .fetching, some s, some k =>
      let dig := toString (C16.foldDigest ((batchOf c.src s k).map Prod.snd))
      (match findSub d.ps.subs (s, k) with
       | some _ =>
         if d.retried.contains (s, k) then ok { d with retried := d.retried.erase (s, k) } dig
         else fail d s!"add {s} {k}: the same batch submitted twice without a quota reply in between"
       | none =>
         match findChan d.ps.chan (s, k), C16.findIdle d.ps.subs with
         | some b, some j => ok { d with ps := pstep c d.ps (.take j b) } dig
         | none, _ => fail d s!"add {s} {k}: no such batch was fetched in this pass (or it was already submitted)"
         | _, none => fail d s!"add {s} {k}: more batches in flight than submitters")
    | .fetching, _, _ => fail d "bad add line"
    | ph, _, _ => fail d s!"AddSequencedLeaves([{s},+{k})) while no pass is running (phase {repr ph}): the gate was closed or the pass was over"
  | "addret" :: s :: k :: v :: rest =>
    match d.phase, s.toNat?, k.toNat? with
    | .fetching, some s, some k =>
      (match findSub d.ps.subs (s, k) with
       | none => fail d s!"addret {s} {k}: not in flight"
       | some j =>
         if v = "ok" then ok { d with ps := pstep c d.ps (.ack j) }
         else if v = "partial" then
           -- the destination refused some leaves of the batch (per-leaf statuses in an OK reply). A submitter that checks
           -- `rsp.Results` (regenerated flag) fails the batch; one that does not takes the reply for a success.
           let refused : List Nat := match rest with
             | r :: _ => (r.splitOn ",").filterMap String.toNat?
             | [] => []
           if Gen.addSeqChecksResults then ok { d with ps := pstep c d.ps (.ackPartial j refused) }
           else ok { d with ps := pstep c d.ps (.ack j) }
         else if v = "quota" then ok { d with ps := pstep c d.ps (.quota j), retried := if c.retryQuota then (s, k) :: d.retried else d.retried }
         else ok { d with ps := pstep c d.ps (.fatal j) })
    | _, _, _ => fail d "addret outside a pass"
  | "addempty" :: _ =>
    -- an AddSequencedLeaves request without leaves (the empty batch that follows a zero-entry get-entries reply) is refused by
    -- the destination: the submitter fails, the pass is cancelled and cannot return nil
    (match d.phase with
     | .fetching => ok { d with ps := { d.ps with failed := true, f := step c.env d.ps.f .cancel } }
     | _ => fail d "AddSequencedLeaves while no pass is running")
  | "cancel" :: _ =>
    let d := { d with ctxCancelled := true }
    (match d.phase with
     | .fetching => ok { d with ps := pstep c d.ps (.fetch .cancel) }
     | _ => ok d)
  | "lost" :: _ =>
    let d := { d with runCancelled := true }
    (match d.phase with
     | .fetching => ok { d with ps := pstep c d.ps (.fetch .cancel) }
     | _ => ok d)
  | "done" :: _ =>
    let (d, e) := finalize d
    match e with
    | some m => fail d m
    | none => ok d (if d.lastOk && !(d.cont && d.ctxCancelled) then "nil" else "err")
  | _ => fail d "unknown event"

def parseSc (toks : List String) : DS :=
  let kvN := C16.kvNat toks
  let start : Int := match (C16.kv toks "start").bind String.toInt? with | some v => v | none => 0
  let dest0 := kvN "dest0" 0
  let seed := kvN "seed" 0
  let c : Cfg := { src := C16.pay seed, idf := fun i p => i + 7 * p, retryQuota := codeRetriesQuota }
  { active := true, id := (C16.kv toks "id").getD "?", cont := kvN "cont" 0 == 1, cfgStart := start, cfgEnd := kvN "end" 0,
    batch := kvN "batch" 1, fetchers := kvN "fetchers" 1, submitters := kvN "submitters" 1, noCheck := kvN "nocheck" 0 == 1, seed := seed,
    ps := pinit 0 0 1 0 0 (if kvN "fork" 0 == 1 then [] else storeBatch c 0 dest0) }

def handle (d : DS) (line : String) : DS × String :=
  let toks := match tokens line with
    | "T" :: rest => rest
    | rest => rest
  match toks with
  | "sc" :: rest => (parseSc rest, "ok")
  | _ => if d.active then (if d.bad.isSome then (d, "skip") else handleEvent d toks) else (d, "bad:no scenario")

def run (_ : List String) : IO UInt32 := do
  foldLines (← IO.getStdin) (← IO.getStdout) handle ({} : DS)
  return 0

end CTV.Driver.C20
