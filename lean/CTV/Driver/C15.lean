import CTV.Basic.Proto
import CTV.Model.Config
/-! ctvmodel C15: replays `v` / `vc` / `vm` / `bm` / `su` / `gs` lines of the C15 harness on the model. -/
namespace CTV.Driver.C15
open CTV CTV.Proto CTV.Model.Config

def unhexStr (s : String) : Option String :=
  match fromHex s with
  | some bs => String.fromUTF8? (ByteArray.mk bs.toArray)
  | none => none

def keyState? : String → Option KeyState
  | "a" => some .absent
  | "b" => some .bad
  | "g" => some .good
  | _ => none

def ts? (s : String) : Option (Option Timestamp) :=
  if s = "-" then some none else
  match s.splitOn ":" with
  | [a, b] => match parseInt? a, parseInt? b with
    | some a, some b => some (some ⟨a, b⟩)
    | _, _ => none
  | _ => none

def bit? (c : Char) : Option Bool := if c = '1' then some true else if c = '0' then some false else none

/-- `size:ts:roothex:sighex` -/
def sth? (l : List String) : Option Sth :=
  match l with
  | [size, ts, root, sg] =>
    match parseNat? size, parseNat? ts, fromHex root, fromHex sg with
    | some n, some t, some r, some g => some ⟨n, t, r, g⟩
    | _, _, _, _ => none
  | _ => none

/-- `-` or `vsg:size:ts:roothex:sighex` (three oracle bits, then the frozen STH) -/
def frozen? (s : String) : Option (Option FrozenOracle) :=
  if s = "-" then some none else
  match s.splitOn ":" with
  | bits :: rest =>
    match bits.toList, sth? rest with
    | [v, sh, g], some st =>
      match bit? v, bit? sh, bit? g with
      | some v, some sh, some g => some (some ⟨v, sh, g, st⟩)
      | _, _, _ => none
    | _, _ => none
  | _ => none

def takeStrs : Nat → List String → Option (List String × List String)
  | 0, rest => some ([], rest)
  | n+1, t :: rest =>
    match unhexStr t, takeStrs n rest with
    | some s, some (l, r) => some (s :: l, r)
    | _, _ => none
  | _, [] => none

/-- one encoded config; returns the remaining tokens -/
def cfg? : List String → Option (LogConfig × List String)
  | id :: pfx :: pub :: priv :: mir :: ro :: rex :: run :: nEku :: rest =>
    match parseInt? id, fromHex pfx, keyState? pub, keyState? priv, parseBool? mir, parseBool? ro, parseBool? rex, parseBool? run, parseNat? nEku with
    | some id, some pfx, some pub, some priv, some mir, some ro, some rex, some run, some nEku =>
      match takeStrs nEku rest with
      | some (ekus, st :: li :: mmd :: emd :: fz :: sb :: conn :: dsn :: pg :: be :: rest) =>
        match ts? st, ts? li, parseInt? mmd, parseInt? emd, frozen? fz, parseInt? sb, fromHex conn, parseBool? dsn, parseBool? pg, fromHex be with
        | some st, some li, some mmd, some emd, some fz, some sb, some conn, some dsn, some pg, some be =>
          some ({ logId := id, pfx := pfx, pub := pub, priv := priv, isMirror := mir, isReadonly := ro, rejectExpired := rex,
                  rejectUnexpired := run, ekus := ekus, start := st, limit := li, mmd := mmd, emd := emd, frozen := fz,
                  storage := sb, conn := conn, dsnOk := dsn, pgOk := pg, backend := be }, rest)
        | _, _, _, _, _, _, _, _, _, _ => none
      | _ => none
    | _, _, _, _, _, _, _, _, _ => none
  | _ => none

/-- `n | cfg | cfg …` -/
def cfgList? : List String → Option (List LogConfig × List String)
  | n :: rest =>
    match parseNat? n with
    | none => none
    | some n => go n rest
  | [] => none
where go : Nat → List String → Option (List LogConfig × List String)
  | 0, rest => some ([], rest)
  | k+1, "|" :: rest =>
    match cfg? rest with
    | some (c, rest) =>
      match go k rest with
      | some (l, rest) => some (c :: l, rest)
      | none => none
    | none => none
  | _, _ => none

/-- `- | n (name spec)…` : an absent set is the empty list -/
def backends? : List String → Option (List Backend × List String)
  | "-" :: rest => some ([], rest)
  | n :: rest =>
    match parseNat? n with
    | none => none
    | some n => go n rest
  | [] => none
where go : Nat → List String → Option (List Backend × List String)
  | 0, rest => some ([], rest)
  | k+1, a :: b :: rest =>
    match fromHex a, fromHex b, go k rest with
    | some a, some b, some (l, rest) => some (⟨a, b⟩ :: l, rest)
    | _, _, _ => none
  | _, _ => none

def verdict {α} : Except Reject α → String
  | .ok _ => "ok"
  | .error _ => "err"

/-- sorted, comma-separated hex of byte strings (Go sorts the hex strings, which orders like the bytes) -/
def showKeys (ks : List Bytes) : String :=
  ",".intercalate ((ks.map hexOrDash).toArray.qsort (· < ·)).toList

def isTag (s : String) : Bool := s.startsWith "#"

/-- the STH the scripted mirror storage returns for a size -/
def storSth (n : Nat) : Sth := ⟨n, 0, List.replicate 32 0, [4, 3, 0, 3, 1, 2, 3]⟩

def storage? (s : String) : Option (Int → Option Sth) :=
  if s = "e" then some fun _ => none
  else if s.startsWith "h" then
    match parseNat? (s.drop 1).toString with
    | some k => some fun m => if m < 0 then none else some (storSth (if m.toNat < k then m.toNat else k))
    | none => none
  else if s.startsWith "o" then
    match parseNat? (s.drop 1).toString with
    | some k => some fun _ => some (storSth k)
    | none => none
  else none

def showSth (s : Sth) (sigShown : Bool) : String :=
  s!"200 {s.size} {s.ts} {hexOrDash s.root} " ++ (if sigShown then hexOrDash s.sig else "*")

def handle (line : String) : String :=
  if (tokens line).contains "#skip" then "skip" else
  match (tokens line).filter (fun t => !isTag t) with
  | "T" :: rest => go rest
  | rest => go rest
where go : List String → String
  | "v" :: rest =>
    match cfg? rest with
    | some (c, []) => verdict (validate c)
    | _ => "bad-op"
  | "vc" :: rest =>
    match cfgList? rest with
    | some (l, []) => verdict (validateLogConfigs l)
    | _ => "bad-op"
  | "bm" :: rest =>
    match backends? rest with
    | some (bs, []) =>
      match buildBackendMap bs with
      | .ok names => if names.isEmpty then "ok" else "ok " ++ showKeys names
      | .error _ => "err"
    | _ => "bad-op"
  | "vm" :: rest =>
    match backends? rest with
    | some (bs, ";" :: rest) =>
      let logs := match rest with
        | ["-"] => some []
        | _ => match cfgList? rest with
          | some (l, []) => some l
          | _ => none
      match logs with
      | none => "bad-op"
      | some l =>
        match validateMulti bs l with
        | .ok names => if names.isEmpty then "ok" else "ok " ++ showKeys names
        | .error _ => "err"
    | _ => "bad-op"
  | "su" :: rest =>
    match cfg? rest with
    | some (c, [";", n, ro, sg, co, oi, db, ca]) =>
      match parseNat? n, parseBool? ro, parseBool? sg, parseBool? co, parseBool? oi, parseBool? db, parseBool? ca with
      | some n, some ro, some sg, some co, some oi, some db, some ca =>
        match setUp c ⟨n, ro, sg, co, oi, db, ca⟩ with
        | none => "err"
        | some inst => s!"ok {inst.getter} {boolStr inst.external} {showKeys inst.keys}"
      | _, _, _, _, _, _, _ => "bad-op"
    | _ => "bad-op"
  | "ek" :: names =>
    match names.mapM (fun t => unhexStr (t.drop 1).toString) with
    | some ns => let f := ekuFilter ns; if f.isEmpty then "-" else String.intercalate "," f
    | none => "bad-op"
  | ["gs", fz, mir, backend, stor, sign] =>
    let fz? : Option (Option Sth) := if fz = "-" then some none else (sth? (fz.splitOn ":")).map some
    let be? : Option (Option Sth) := if backend = "e" then some none else (parseNat? backend).map fun n => some ⟨n, 1, List.replicate 32 0, []⟩
    match fz?, parseBool? mir, be?, storage? stor, parseBool? sign with
    | some fz, some mir, some be, some st, some sign =>
      let inst : Instance := { paths := [], keys := [], getter := Gen.sthGetterSelect fz.isSome mir, frozen := fz.getD { size := 0 } }
      let asked := match inst.getter, be with
        | 1, some b => s!" asked={Gen.mirrorMaxTreeSize b.size}"
        | _, _ => ""
      match serveSth inst be st (if sign then some [] else none) with
      | some s => showSth s (inst.getter != 2) ++ asked
      | none => s!"err{asked}"
    | _, _, _, _, _ => "bad-op"
  | _ => "bad-op"

def run (_ : List String) : IO UInt32 := do
  mapLines (← IO.getStdin) (← IO.getStdout) handle
  return 0

end CTV.Driver.C15
