import CTV.Basic.Proto
import CTV.Model.GetEntries
/-! ctvmodel C07: replays `ge` lines of the C07 harness on the model. -/
namespace CTV.Driver.C07
open CTV CTV.Proto CTV.Model

def unhexStr (s : String) : Option String :=
  match fromHex s with
  | some bs => some (String.fromUTF8! (ByteArray.mk bs.toArray))
  | none => none

def parseLeaves : Nat → List String → Option (List BLeaf)
  | 0, _ => some []
  | n+1, i :: v :: x :: rest =>
    match parseInt? i, fromHex v, fromHex x, parseLeaves n rest with
    | some i, some v, some x, some ls => some (⟨i, v, x⟩ :: ls)
    | _, _, _, _ => none
  | _, _ => none

def showEntries (es : List (Bytes × Bytes)) : String :=
  joinSp (toString es.length :: es.flatMap fun (a, b) => [hexOrDash a, hexOrDash b])

def handle (line : String) : String :=
  match tokens line with
  | "T" :: rest => go rest
  | rest => go rest
where go : List String → String
  | "ge" :: sS :: eS :: m :: al :: tree :: n :: rest =>
    match unhexStr sS, unhexStr eS, parseInt? m, parseBool? al, parseNat? tree, parseNat? n with
    | some sS, some eS, some m, some al, some tree, some n =>
      match parseLeaves n rest with
      | none => "bad-op"
      | some leaves =>
        match getEntriesRequest sS eS m al with
        | none => "400 none"
        | some (s, c) =>
          let (st, es) := getEntriesRespond s c tree leaves
          let r := s!"{st} req {s} {c}"
          if st = 200 then r ++ " " ++ showEntries es else r
    | _, _, _, _, _, _ => "bad-op"
  | _ => "bad-op"

def run (_ : List String) : IO UInt32 := do
  mapLines (← IO.getStdin) (← IO.getStdout) handle
  return 0

end CTV.Driver.C07
