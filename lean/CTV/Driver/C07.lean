import CTV.Basic.Proto
import CTV.Model.GetEntries
/-! ctvmodel C07: replays `ge` lines of the C07 harness on the model. -/
namespace CTV.Driver.C07
open CTV CTV.Proto CTV.Model

def unhexStr (s : String) : Option String :=
  match fromHex s with
  | some bs => some (String.fromUTF8! (ByteArray.mk bs.toArray))
  | none => none

def parseLeaves : Nat → List String → Option (List BLeaf)
  | 0, _ => some []
  | n+1, i :: v :: x :: rest =>
    match parseInt? i, fromHex v, fromHex x, parseLeaves n rest with
    | some i, some v, some x, some ls => some (⟨i, v, x⟩ :: ls)
    | _, _, _, _ => none
  | _, _ => none

def showEntries (es : List (Bytes × Bytes)) : String :=
  joinSp (toString es.length :: es.flatMap fun (a, b) => [hexOrDash a, hexOrDash b])

def handle (line : String) : String :=
  match tokens line with
  | "T" :: rest => go rest
  | rest => go rest
where go : List String → String
  | "ge" :: sS :: eS :: m :: al :: tree :: n :: rest =>
    match unhexStr sS, unhexStr eS, parseInt? m, parseBool? al, parseNat? tree, parseNat? n with
    | some sS, some eS, some m, some al, some tree, some n =>
      match parseLeaves n rest with
      | none => "bad-op"
      | some leaves =>
        match getEntriesRequest sS eS m al with
        | none => "400 none"
        | some (s, c) =>
          let (st, es) := getEntriesRespond s c tree leaves
          let r := s!"{st} req {s} {c}"
          if st = 200 then r ++ " " ++ showEntries es else r
    | _, _, _, _, _, _ => "bad-op"
  | "gep" :: liS :: tsS :: tree :: rest =>
    match unhexStr liS, unhexStr tsS, parseNat? tree with
    | some liS, some tsS, some tree =>
      let leafAndRest : Option (Option BLeaf × List String) := match rest with
        | "-" :: r => some (none, r)
        | "leaf" :: i :: v :: x :: r =>
          (match parseInt? i, fromHex v, fromHex x with
          | some i, some v, some x => some (some ⟨i, v, x⟩, r)
          | _, _, _ => none)
        | _ => none
      match leafAndRest with
      | none => "bad-op"
      | some (leaf, r) =>
        let proof : Option (Option (List Bytes)) := match r with
          | ["-"] => some none
          | "proof" :: n :: hs =>
            (match parseNat? n, hs.mapM fromHex with
            | some n, some hs => if hs.length = n then some (some hs) else none
            | _, _ => none)
          | [] => some none
          | _ => none
        match proof with
        | none => "bad-op"
        | some proof =>
          match getEntryAndProofRequest liS tsS with
          | none => "400 none"
          | some (li, ts) =>
            let (st, body) := getEntryAndProofRespond ts tree leaf proof
            let r := s!"{st} req {li} {ts}"
            match st, body with
            | 200, some (v, x, p) => r ++ " " ++ joinSp ([hexOrDash v, hexOrDash x, toString p.length] ++ p.map hexOrDash)
            | _, _ => r
    | _, _, _ => "bad-op"
  | _ => "bad-op"

def run (_ : List String) : IO UInt32 := do
  mapLines (← IO.getStdin) (← IO.getStdout) handle
  return 0

end CTV.Driver.C07
