import CTV.Basic.Proto
import CTV.Sha256
import CTV.Rfc6962.Merkle
import CTV.Model.Witness
/-! ctvmodel C19: replays the witness history of the C19 harness on `CTV.Model.Witness`
(real SHA-256 node hash), checks linearisability of concurrent batches, and answers the
library-correspondence lines (`sha`, `mth`, `incl`, `cons`, `path`, `cproof`). -/
namespace CTV.Driver.C19
open CTV CTV.Proto CTV.Model.Witness

/-- signature = (token naming the signature bytes, whether the configured key of the addressed log verifies it) -/
abbrev DSig := String × Bool
abbrev DSth := Sth Bytes DSig
abbrev DEnv := Env Bytes DSig Unit
abbrev DDb := Db Bytes DSig
abbrev DReply := Reply Bytes DSig Unit
abbrev DOp := Op Bytes DSig

structure St where
  env : DEnv
  db : DDb

def mkEnv (logs : List (LogId × Option Bytes)) (canSign : Bool := true) : DEnv where
  logList := logs.map (·.1)
  idOf := fun id => (logs.lookup id).join
  verify := fun _ _ _ _ s => s.2
  cosign := fun _ => if canSign then some () else none
  nodeH := rfcNodeH

def St.init : St := ⟨mkEnv [], Db.empty⟩

def parseHexList : Nat → List String → Option (List Bytes × List String)
  | 0, rest => some ([], rest)
  | n+1, h :: rest =>
    match fromHex h, parseHexList n rest with
    | some b, some (bs, r) => some (b :: bs, r)
    | _, _ => none
  | _, _ => none

def parseLogs : Nat → List String → Option (List (LogId × Option Bytes))
  | 0, _ => some []
  | n+1, id :: idh :: rest =>
    match parseLogs n rest with
    | some ls => some ((id, if idh = "x" then none else fromHex idh) :: ls)
    | none => none
  | _, _ => none

/-- `g` | `s size ts root idfield sigtok sigok rawtag`, then `nproof hex…`. -/
def parseUpd : List String → Option (DOp × List String)
  | id :: "g" :: n :: rest =>
    match parseNat? n with
    | some n => match parseHexList n rest with
      | some (pf, r) => some (.update id .garbage pf, r)
      | none => none
    | none => none
  | id :: "s" :: size :: ts :: root :: idf :: sigtok :: sigok :: tag :: n :: rest =>
    match parseNat? size, parseNat? ts, fromHex root, parseBool? sigok, parseNat? n with
    | some size, some ts, some root, some sigok, some n =>
      match parseHexList n rest with
      | some (pf, r) =>
        let idField := if idf = "-" then none else fromHex idf
        some (.update id (.sth ⟨size, ts, root, idField, (sigtok, sigok), tag⟩) pf, r)
      | none => none
    | _, _, _, _, _ => none
  | _ => none

def showReply : DReply → String
  | .cosigned s _ => s!"cosig {s.size} {s.ts} {hexOrDash s.root} {hexOrDash (s.idField.getD [])} {s.sig.1}"
  | .held s f => s!"held {s.tag} {s.size} {hexOrDash s.root} {if f then "E" else "N"}"
  | .err .notFound => "err nf"
  | .err _ => "err x"
  | .logs ids => joinSp ("logs" :: toString ids.length :: ids)

/-- Is there an order of the pending operations in which the model gives each its observed reply? -/
def linearise (env : DEnv) : Nat → DDb → List (DOp × String) → Option DDb
  | _, db, [] => some db
  | 0, _, _ => none
  | fuel+1, db, pending =>
    (List.range pending.length).firstM fun i =>
      match pending[i]? with
      | none => none
      | some (op, obs) =>
        let (db', r) := step env db op
        if showReply r = obs then linearise env fuel db' (pending.eraseIdx i) else none

/-- split a token list at `|` separators -/
def splitBar (ts : List String) : List (List String) :=
  let (cur, acc) := ts.foldl (fun (p : List String × List (List String)) t =>
    if t = "|" then ([], p.1.reverse :: p.2) else (t :: p.1, p.2)) ([], [])
  (cur.reverse :: acc).reverse

def parseConcItem (ts : List String) : Option (DOp × String) :=
  match ts with
  | "upd" :: rest =>
    match parseUpd rest with
    | some (op, "~" :: obs) => some (op, joinSp obs)
    | _ => none
  | "get" :: id :: "~" :: obs => some (.getSTH id, joinSp obs)
  | _ => none

open Merkle in
def libLine : List String → Option String
  | ["sha", h] => (fromHex h).map fun b => toHex (Sha256.hash b)
  | "mth" :: n :: rest =>
    match parseNat? n with
    | some n => (parseHexList n rest).map fun (ls, _) => toHex (mth rfcLeafH rfcNodeH rfcEmptyH ls)
    | none => none
  | "path" :: m :: n :: rest =>
    match parseNat? m, parseNat? n with
    | some m, some n => (parseHexList n rest).map fun (ls, _) =>
        let p := path rfcLeafH rfcNodeH rfcEmptyH m ls
        if p.isEmpty then "-" else joinSp (p.map toHex)
    | _, _ => none
  | "cproof" :: m :: n :: rest =>
    match parseNat? m, parseNat? n with
    | some m, some n => (parseHexList n rest).map fun (ls, _) =>
        let p := if m = 0 ∨ m = n then [] else consProof rfcLeafH rfcNodeH rfcEmptyH m ls
        if p.isEmpty then "-" else joinSp (p.map toHex)
    | _, _ => none
  | "incl" :: m :: n :: lh :: k :: rest =>
    match parseNat? m, parseNat? n, fromHex lh, parseNat? k with
    | some m, some n, some lh, some k => (parseHexList k rest).map fun (p, _) =>
        match rootFromPath rfcNodeH m n lh p with
        | some r => "ok " ++ toHex r
        | none => "err"
    | _, _, _, _ => none
  | ["cosin", _, size, ts, root, ha, sa, sig, lid] =>
    match some 0, parseNat? size, parseNat? ts, fromHex root, parseNat? ha, parseNat? sa, fromHex sig, fromHex lid with
    | some (_ : Nat), some size, some ts, some root, some ha, some sa, some sig, some lid =>
      some (toHex (cosigInput size ts root ha sa sig lid))
    | _, _, _, _, _, _, _, _ => none
  | "cons" :: m :: n :: r1 :: r2 :: k :: rest =>
    match parseNat? m, parseNat? n, fromHex r1, fromHex r2, parseNat? k with
    | some m, some n, some r1, some r2, some k => (parseHexList k rest).map fun (p, _) =>
        if verifyConsistency rfcNodeH m n p r1 r2 then "ok" else "err"
    | _, _, _, _, _ => none
  | _ => none

def handle (st : St) (line : String) : St × String :=
  let toks := match tokens line with
    | "T" :: rest => rest
    | rest => rest
  match toks with
  | "new" :: n :: rest =>
    match parseNat? n with
    | some n => match parseLogs n rest with
      | some logs => (⟨mkEnv logs, Db.empty⟩, "ok")
      | none => (st, "bad-op")
    | none => (st, "bad-op")
  | "newx" :: n :: rest =>   -- a witness whose key `signSTH` cannot use
    match parseNat? n with
    | some n => match parseLogs n rest with
      | some logs => (⟨mkEnv logs false, Db.empty⟩, "ok")
      | none => (st, "bad-op")
    | none => (st, "bad-op")
  | "upd" :: rest =>
    match parseUpd rest with
    | some (op, []) =>
      let (db', r) := step st.env st.db op
      (⟨st.env, db'⟩, showReply r)
    | _ => (st, "bad-op")
  | "get" :: [id] =>
    let (db', r) := step st.env st.db (.getSTH id)
    (⟨st.env, db'⟩, showReply r)
  | ["logs"] =>
    let (db', r) := step st.env st.db .getLogs
    (⟨st.env, db'⟩, showReply r)
  | "conc" :: _ :: "|" :: rest =>
    let items := (splitBar rest).map parseConcItem
    if items.any (·.isNone) then (st, "bad-op") else
    let pending := items.filterMap id
    match linearise st.env pending.length st.db pending with
    | some db' => (⟨st.env, db'⟩, "lin")
    | none => (st, "nolin")
  | other =>
    match libLine other with
    | some s => (st, s)
    | none => (st, "bad-op")

/-- `ctvmodel C19 http`: the HTTP layer does not distinguish error kinds -/
def handleHttp (st : St) (line : String) : St × String :=
  let (st', o) := handle st line
  (st', if o = "err nf" ∨ o = "err x" then "err" else o)

def run (args : List String) : IO UInt32 := do
  if args.contains "http" then
    foldLines (← IO.getStdin) (← IO.getStdout) handleHttp St.init
  else
    foldLines (← IO.getStdin) (← IO.getStdout) handle St.init
  return 0

end CTV.Driver.C19
