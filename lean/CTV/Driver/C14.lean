import CTV.Basic.Proto
import CTV.Model.ChainStore
/-! ctvmodel C14: replays the C14 harness trace (submissions, storage / cache events, served entries) on the model. -/
namespace CTV.Driver.C14
open CTV CTV.Proto CTV.Model.ChainStore

structure DState where
  s : State := State.init
  /-- der ↦ hash as reported by the harness (SHA-256 is not modelled): must be a function -/
  hashes : List (Bytes × Bytes) := []

def takeHex : Nat → List String → Option (List Bytes × List String)
  | 0, rest => some ([], rest)
  | n+1, t :: rest =>
    match fromHex t, takeHex n rest with
    | some b, some (l, r) => some (b :: l, r)
    | _, _ => none
  | _, [] => none

/-- a lookup result as the harness saw it at the cache / storage interface: `-` (none), `err`, or `bytes/sha256(bytes)` -/
def lookupTok (g : String) : Except Err Bytes × Bytes :=
  if g = "err" ∨ g = "-" then (.error .storage, []) else
  match g.splitOn "/" with
  | [v, h] =>
    match fromHex v, fromHex h with
    | some v, some h => (.ok v, h)
    | _, _ => (.error .storage, [])
  | _ => (.error .storage, [])

/-- is the observed (fault-free) lookup result one the model state allows? The model's cache never evicts (evictions
and expiry of the real LRU are not observable), so a hit may come from it or the value from the store. -/
def lookupAllowed (st : State) (h : Bytes) (raw : Except Err Bytes) : Bool :=
  match raw with
  | .ok v => st.store.lookup h == some v || st.cache.lookup h == some v
  | .error _ => (st.store.lookup h).isNone

def handle (d : DState) (line : String) : DState × String :=
  match tokens line with
  | "T" :: rest => go rest
  | rest => go rest
where go : List String → DState × String
  | ["reset"] => ({}, "ok")
  | "add" :: pre :: n :: rest =>
    match parseBool? pre, parseNat? n with
    | some pre, some n =>
      match takeHex n rest with
      | some (cert :: chain, [der, hash]) =>
        match fromHex der, fromHex hash with
        | some der, some hash =>
          if derChain chain ≠ der then (d, "der-mismatch " ++ hexOrDash (derChain chain))
          else if (d.hashes.lookup der).any (· ≠ hash) then (d, "hash-not-a-function")
          else if d.hashes.any (fun e => e.2 = hash ∧ e.1 ≠ der) then (d, "hash-collision")
          else
            let d := { d with hashes := (der, hash) :: d.hashes }
            match buildIndirectC Gen.indirectBuildChecksEncoding (fun _ => hash) pre cert chain, buildDirect pre cert chain with
            | some ix, some dx => (d, hexOrDash ix ++ " " ++ hexOrDash dx)
            | _, _ => (d, "encode-error")
        | _, _ => (d, "bad-op")
      | _ => (d, "bad-op")
    | _, _ => (d, "bad-op")
  | ["sadd", h, v, res] =>
    match fromHex h, fromHex v with
    | some h, some v => if res = "ok" then ({ d with s := step d.s (.add h v) }, "ok") else (d, "ok")
    | _, _ => (d, "bad-op")
  | ["sfind", h, res] =>
    match fromHex h with
    | some h =>
      if res = "err" then (d, "ok")
      else if res = "miss" then (d, if (d.s.store.lookup h).isNone then "ok" else "bad-sfind: model has the key")
      else match fromHex res with
        | some v => (d, if d.s.store.lookup h = some v then "ok" else "bad-sfind: model holds another value")
        | none => (d, "bad-op")
    | none => (d, "bad-op")
  | ["cset", h, v, res] =>
    match fromHex h, fromHex v with
    | some h, some v =>
      if res = "err" then (d, "ok")
      else if cacheSetEnabled d.s h v then ({ d with s := step d.s (.cacheSet h v) }, "ok")
      else (d, "bad-cset: not enabled (this pair was never handed to storage.Add nor held by the store)")
    | _, _ => (d, "bad-op")
  | ["cget", h, res] =>
    match fromHex h with
    | some h =>
      if res = "err" ∨ res = "miss" then (d, "ok")
      else match fromHex res with
        | some v => (d, if d.s.known.contains (h, v) then "ok" else "bad-cget: this pair was never handed to storage.Add nor held by the store")
        | none => (d, "bad-op")
    | none => (d, "bad-op")
  | ["sdel", h] =>
    match fromHex h with
    | some h => ({ d with s := step d.s (.delete h) }, "ok")
    | none => (d, "bad-op")
  | ["stamper", h, v] =>
    match fromHex h, fromHex v with
    | some h, some v => ({ d with s := step d.s (.tamper h v) }, "ok")
    | _, _ => (d, "bad-op")
  | ["serve", stored, gbh, flt] =>
    match fromHex stored with
    | some stored =>
      let (raw, hv) := lookupTok gbh
      let bad := match hashOfExtra stored with
        | some h => flt = "f0" && gbh != "-" && !lookupAllowed d.s h raw
        | none => false
      if bad then (d, "bad-lookup: the model state does not allow this result") else
      let get : Bytes → Except Err Bytes := fun h => verified Gen.getByHashVerifiesHash (fun _ => hv) h raw
      match fixLogLeaf get stored with
      | .ok x => (d, "200 " ++ hexOrDash x)
      | .error _ => (d, "5xx")
    | none => (d, "bad-op")
  | "range" :: n :: rest =>
    match parseNat? n with
    | some n =>
      match takeHex n rest with
      | some (stored, ";" :: _m :: gbhs) =>
        let wanted := stored.filterMap hashOfExtra
        let results : List (Except Err Bytes) := (wanted.zip (gbhs.filter (· != ";") |>.filter (fun g => g != "f0" && g != "f1"))).map fun (h, g) =>
          let (raw, hv) := lookupTok g
          verified Gen.getByHashVerifiesHash (fun _ => hv) h raw
        match fixRange results stored with
        | .ok xs => (d, s!"200 {xs.length} " ++ joinSp (xs.map hexOrDash))
        | .error _ => (d, "5xx")
      | _ => (d, "bad-op")
    | none => (d, "bad-op")
  | _ => (d, "bad-op")

def run (_ : List String) : IO UInt32 := do
  foldLines (← IO.getStdin) (← IO.getStdout) handle {}
  return 0

end CTV.Driver.C14
