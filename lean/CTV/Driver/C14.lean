import CTV.Basic.Proto
import CTV.Model.ChainStore
/-! ctvmodel C14: replays the C14 harness trace (submissions, storage / cache events, served entries) on the model. -/
namespace CTV.Driver.C14
open CTV CTV.Proto CTV.Model.ChainStore

structure DState where
  s : State := State.init
  /-- every value the store ever held under a key (the cache may only hold such values) -/
  ever : List (Bytes × Bytes) := []
  /-- der ↦ hash as reported by the harness (SHA-256 is not modelled): must be a function -/
  hashes : List (Bytes × Bytes) := []

def takeHex : Nat → List String → Option (List Bytes × List String)
  | 0, rest => some ([], rest)
  | n+1, t :: rest =>
    match fromHex t, takeHex n rest with
    | some b, some (l, r) => some (b :: l, r)
    | _, _ => none
  | _, [] => none

def setKey (m : Map) (h v : Bytes) : Map := (h, v) :: m.filter (fun e => e.1 != h)

def handle (d : DState) (line : String) : DState × String :=
  match tokens line with
  | "T" :: rest => go rest
  | rest => go rest
where go : List String → DState × String
  | ["reset"] => ({}, "ok")
  | "add" :: pre :: n :: rest =>
    match parseBool? pre, parseNat? n with
    | some pre, some n =>
      match takeHex n rest with
      | some (cert :: chain, [der, hash]) =>
        match fromHex der, fromHex hash with
        | some der, some hash =>
          if derChain chain ≠ der then (d, "der-mismatch " ++ hexOrDash (derChain chain))
          else if (d.hashes.lookup der).any (· ≠ hash) then (d, "hash-not-a-function")
          else if d.hashes.any (fun e => e.2 = hash ∧ e.1 ≠ der) then (d, "hash-collision")
          else
            let d := { d with hashes := (der, hash) :: d.hashes }
            match buildIndirect (fun _ => hash) pre cert chain, buildDirect pre cert chain with
            | some ix, some dx => (d, hexOrDash ix ++ " " ++ hexOrDash dx)
            | _, _ => (d, "encode-error")
        | _, _ => (d, "bad-op")
      | _ => (d, "bad-op")
    | _, _ => (d, "bad-op")
  | ["sadd", h, v, res] =>
    match fromHex h, fromHex v with
    | some h, some v =>
      if res = "ok" then
        let s' := step d.s (.add h v)
        ({ d with s := s', ever := (h, v) :: d.ever }, "ok")
      else (d, "ok")
    | _, _ => (d, "bad-op")
  | ["sfind", h, res] =>
    match fromHex h with
    | some h =>
      if res = "err" then (d, "ok")
      else if res = "miss" then (d, if (d.s.store.lookup h).isNone then "ok" else "bad-sfind: model has the key")
      else match fromHex res with
        | some v => (d, if d.s.store.lookup h = some v then "ok" else "bad-sfind: model holds another value")
        | none => (d, "bad-op")
    | none => (d, "bad-op")
  | ["cset", h, v, res] =>
    match fromHex h, fromHex v with
    | some h, some v =>
      if res = "err" then (d, "ok")
      else if d.ever.contains (h, v) then ({ d with s := { d.s with cache := setKey d.s.cache h v } }, "ok")
      else (d, "bad-cset: the store never held this value under this key")
    | _, _ => (d, "bad-op")
  | ["cget", h, res] =>
    match fromHex h with
    | some h =>
      if res = "err" ∨ res = "miss" then (d, "ok")
      else match fromHex res with
        | some v => (d, if d.ever.contains (h, v) then "ok" else "bad-cget: the store never held this value under this key")
        | none => (d, "bad-op")
    | none => (d, "bad-op")
  | ["sdel", h] =>
    match fromHex h with
    | some h => ({ d with s := { d.s with store := d.s.store.filter (fun e => e.1 != h) } }, "ok")
    | none => (d, "bad-op")
  | ["stamper", h, v] =>
    match fromHex h, fromHex v with
    | some h, some v => ({ d with s := { d.s with store := setKey d.s.store h v }, ever := (h, v) :: d.ever }, "ok")
    | _, _ => (d, "bad-op")
  | ["serve", stored, gbh] =>
    match fromHex stored with
    | some stored =>
      let get : Bytes → Except Err Bytes :=
        if gbh = "-" then fun _ => .error .unknownHash
        else if gbh = "err" then fun _ => .error .storage
        else match fromHex gbh with
          | some v => fun _ => .ok v
          | none => fun _ => .error .storage
      match fixLogLeaf get stored with
      | .ok x => (d, "200 " ++ hexOrDash x)
      | .error _ => (d, "5xx")
    | none => (d, "bad-op")
  | "range" :: n :: rest =>
    match parseNat? n with
    | some n =>
      match takeHex n rest with
      | some (stored, ";" :: _m :: gbhs) =>
        let results : List (Except Err Bytes) := gbhs.map fun g =>
          if g = "err" then .error .storage else
          match fromHex g with
          | some v => .ok v
          | none => .error .storage
        match fixRange results stored with
        | .ok xs => (d, s!"200 {xs.length} " ++ joinSp (xs.map hexOrDash))
        | .error _ => (d, "5xx")
      | _ => (d, "bad-op")
    | none => (d, "bad-op")
  | _ => (d, "bad-op")

def run (_ : List String) : IO UInt32 := do
  foldLines (← IO.getStdin) (← IO.getStdout) handle {}
  return 0

end CTV.Driver.C14
