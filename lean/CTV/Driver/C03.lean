import CTV.Basic.Proto
import CTV.Model.Tbs
import CTV.Gen.TbsFacts
/-! ctvmodel C03: replays the lines of the C03 harness on the TBSCertificate model.

Answers: `noncanon` = the input is not a canonical TBSCertificate (the model — like the property — has no
opinion on the transformation's bytes there; the harness prints the same word when the real
unmarshal→marshal does not reproduce the input, so the *domain* is compared on every line);
`err` = the Go function returns an error; `ok …` = its result. -/
namespace CTV.Driver.C03
open CTV CTV.Proto CTV.Tbs

def lim : SctLimits := ⟨Gen.sctItemMin, Gen.sctItemMax, Gen.sctListMin, Gen.sctListMax⟩

def poison : Bytes := oidContent Gen.oidCTPoison
def sct : Bytes := oidContent Gen.oidCTSCT

def parsePre : List String → Option (Option PreIssuer)
  | ["nil"] => some none
  | ["pre", iss, aki, eku] =>
    match fromHex iss, parseBool? eku with
    | some ib, some e =>
      match parseOne ib with
      | none => none
      | some it =>
        if aki = "none" then some (some ⟨it, none, e⟩)
        else if aki.startsWith "v:" then
          match fromHex (aki.drop 2).toString with
          | some v => some (some ⟨it, some v, e⟩)
          | none => none
        else none
    | _, _ => none
  | _ => none

def showRes : Option Bytes → String
  | none => "err"
  | some b => "ok " ++ hexOrDash b

def showLeaf : Option (Bytes × Bytes) → String
  | none => "err"
  | some (b, [i]) => s!"ok {hexOrDash b} {i.toNat}"
  | some _ => "bad-key"

/-- stand-ins for the SubjectPublicKeyInfos of chain[1:]: position `k` carries the one-byte key `k` -/
def keysOf (chainLen : Nat) : List Bytes := (List.range chainLen).drop 1 |>.map (fun k => [UInt8.ofNat k])

def onTbs (h : String) (f : Bytes → String) : String :=
  match fromHex h with
  | none => "bad-op"
  | some bs => if (parseTbs bs).isSome then f bs else "noncanon"

def parseItems : Nat → List String → Option (List Bytes)
  | 0, [] => some []
  | n + 1, s :: rest =>
    match fromHex s, parseItems n rest with
    | some b, some l => some (b :: l)
    | _, _ => none
  | _, _ => none

def handle (line : String) : String :=
  match tokens line with
  | "T" :: rest => go rest
  | rest => go rest
where go : List String → String
  | ["canon", h] =>
    match fromHex h with
    | none => "bad-op"
    | some bs => boolStr (parseTbs bs).isSome
  | ["rm", which, h] =>
    let oid := if which = "sct" then some sct else if which = "poison" then some poison else fromHex which
    match oid with
    | none => "bad-op"
    | some oid => onTbs h fun bs => showRes (removeExt oid bs)
  | "build" :: h :: pre =>
    match parsePre pre with
    | none => "bad-op"
    | some p => onTbs h fun bs => showRes (buildPrecertTBS bs p)
  | "leafpre" :: h :: n :: pre =>
    match parsePre pre, parseNat? n with
    | some p, some n => onTbs h fun bs => showLeaf (leafFromPrecertChain bs (keysOf n) p)
    | _, _ => "bad-op"
  | ["leafemb", h, n] =>
    match parseNat? n with
    | some n => onTbs h fun bs => showLeaf (leafForEmbeddedSCT bs (keysOf n))
    | none => "bad-op"
  | "sctenc" :: n :: items =>
    match parseNat? n with
    | none => "bad-op"
    | some n =>
      match parseItems n items with
      | none => "bad-op"
      | some l => showRes (sctExtValue lim l)
  | ["sctdec", h] =>
    match fromHex h with
    | none => "bad-op"
    | some v =>
      match parseSctExtValue lim v with
      | none => "err"
      | some l => joinSp ("ok" :: toString l.length :: l.map hexOrDash)
  | _ => "bad-op"

def run (_ : List String) : IO UInt32 := do
  mapLines (← IO.getStdin) (← IO.getStdout) handle
  return 0

end CTV.Driver.C03
