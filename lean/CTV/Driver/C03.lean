import CTV.Basic.Proto
import CTV.Model.TbsLax
import CTV.Sha256
import CTV.Gen.TbsFacts
/-! ctvmodel C03: replays the lines of the C03 harness on the TBSCertificate model.

Every line is answered for **every** input: `err` = the Go function returns an error, `ok …` = its result. `canon` lines give the
domain of the canonical model (`parseTbs`); the results come from the model of everything the fork accepts (`laxTbs`,
CTV/Model/TbsLax.lean). On every line the driver also asserts the two facts that tie the two models together and are not proved
(Props/C03.lean `routes_commute_accepted_partial`): the normal form the lax model
produces is well-formed; a violated assertion is answered `MODEL-INCONSISTENT …`, which can never equal the implementation's answer. -/
namespace CTV.Driver.C03
open CTV CTV.Proto CTV.Tbs

def poison : Bytes := oidContent Gen.oidCTPoison
def sct : Bytes := oidContent Gen.oidCTSCT

def parseList : Nat → List String → Option (List Bytes × List String)
  | 0, rest => some ([], rest)
  | n + 1, s :: rest =>
    match fromHex s, parseList n rest with
    | some b, some (l, r) => some (b :: l, r)
    | _, _ => none
  | _, _ => none

/-- `nil` | `c1 <RawIssuer> <none | v:AKI value> <n> <eku oid>…` -/
def parseC1 : List String → Option (Option Chain1)
  | ["nil"] => some none
  | "c1" :: iss :: aki :: n :: ekus =>
    match fromHex iss, parseNat? n with
    | some ib, some n =>
      match parseOne ib, parseList n ekus with
      | some it, some (es, []) =>
        if aki = "none" then some (some ⟨es, it, none⟩)
        else if aki.startsWith "v:" then
          match fromHex (aki.drop 2).toString with
          | some v => some (some ⟨es, it, some v⟩)
          | none => none
        else none
      | _, _ => none
    | _, _ => none
  | _ => none

def showRes : Option Bytes → String
  | none => "err"
  | some b => "ok " ++ hexOrDash b

def showLeaf : Option (Bytes × Bytes) → String
  | none => "err"
  | some (b, k) => s!"ok {hexOrDash b} {toHex (Sha256.hash k)}"

/-- The one fact about the lax model that is not proved (Props/C03.lean, `routes_commute_accepted_partial`): the normal form it
produces is well-formed. Evaluated for every traced input. (That both models agree on canonical input is a theorem,
`C03.lax_agrees_on_canonical`; it is still evaluated on the `canon` lines, where both parsers run anyway.) -/
def onTbs (h : String) (f : Bytes → Option Tbs → String) : String :=
  match fromHex h with
  | none => "bad-op"
  | some bs =>
    let lt := laxTbs bs
    match lt with
    | some t => if t.wf then f bs lt else "MODEL-INCONSISTENT normal-form-not-wf"
    | none => f bs lt

def canonLine (bs : Bytes) (lt : Option Tbs) : String :=
  let ps := parseTbs bs
  match ps, lt with
  | some t, some t' => if t == t' && marshalTbs t' == bs then "1" else "MODEL-INCONSISTENT canonical"
  | some _, none => "MODEL-INCONSISTENT canonical-but-not-accepted"
  | none, some t' => if marshalTbs t' == bs then "MODEL-INCONSISTENT reproduced-but-not-canonical" else "0"
  | none, none => "0"

def leafPre (lt : Option Tbs) (keys : List Bytes) (pre : Option PreIssuer) : Option (Bytes × Bytes) :=
  match keys with
  | [] => none
  | k1 :: rest' =>
    match pre with
    | none => (buildPrecertTBSLaxOf lt none).map (·, k1)
    | some p =>
      match rest' with
      | [] => none
      | k2 :: _ => (buildPrecertTBSLaxOf lt (some p)).map (·, k2)

def handle (line : String) : String :=
  match tokens line with
  | "T" :: rest => go rest
  | rest => go rest
where go : List String → String
  | ["canon", h] => onTbs h canonLine
  | ["isprecert", h] => onTbs h fun _ lt => boolStr (isPrecertificate lt)
  | ["remarshal", h] => onTbs h fun _ lt => showRes (lt.map marshalTbs)
  | ["rm", which, h] =>
    let oid := if which = "sct" then some sct else if which = "poison" then some poison else fromHex which
    match oid with
    | none => "bad-op"
    | some oid => onTbs h fun _ lt => showRes (removeExtLaxOf oid lt)
  | "build" :: h :: c1 =>
    match parseC1 c1 with
    | none => "bad-op"
    | some c => onTbs h fun _ lt => showRes (buildPrecertTBSLaxOf lt (c.map Chain1.pre))
  | "leafpre" :: h :: n :: rest =>
    match parseNat? n with
    | none => "bad-op"
    | some n =>
      match parseList (n - 1) rest with
      | none => "bad-op"
      | some (keys, c1) =>
        match parseC1 c1 with
        | none => "bad-op"
        | some c => onTbs h fun _ lt => showLeaf (leafPre lt keys (preIssuerOf c))
  | "leafemb" :: h :: n :: rest =>
    match parseNat? n with
    | none => "bad-op"
    | some n =>
      match parseList (n - 1) rest with
      | some (keys, []) => onTbs h fun _ lt =>
        match keys with
        | [] => "err"
        | k1 :: _ => showLeaf ((removeExtLaxOf sct lt).map (·, k1))
      | _ => "bad-op"
  | "sctenc" :: n :: items =>
    match parseNat? n with
    | none => "bad-op"
    | some n =>
      match parseList n items with
      | some (l, []) => showRes (sctExtValue l)
      | _ => "bad-op"
  | ["sctdec", h] =>
    match fromHex h with
    | none => "bad-op"
    | some v =>
      match parseSctExtValue v with
      | none => "err-nonfatal"   -- `parseCertificate` records a NonFatalError and still returns the certificate
      | some l => joinSp ("ok" :: toString l.length :: l.map hexOrDash)
  | _ => "bad-op"

def run (_ : List String) : IO UInt32 := do
  mapLines (← IO.getStdin) (← IO.getStdout) handle
  return 0

end CTV.Driver.C03
