import CTV.Basic.Proto
import CTV.Model.TbsLax
import CTV.Sha256
import CTV.Gen.TbsFacts
/-! ctvmodel C03: replays the lines of the C03 harness on the TBSCertificate model.

Every line is answered for **every** input: `err` = the Go function returns an error, `ok …` = its result. `canon` lines give the
domain of the canonical model (`parseTbs`); the results come from the model of everything the fork accepts (`laxTbs`,
CTV/Model/TbsLax.lean). On every line the driver also asserts the two facts that tie the two models together and are not proved
(Props/C03.lean `lax_agrees_partial`): on canonical input both models give the same answer, and the normal form the lax model
produces is well-formed; a violated assertion is answered `MODEL-INCONSISTENT …`, which can never equal the implementation's answer. -/
namespace CTV.Driver.C03
open CTV CTV.Proto CTV.Tbs

def poison : Bytes := oidContent Gen.oidCTPoison
def sct : Bytes := oidContent Gen.oidCTSCT

def parseList : Nat → List String → Option (List Bytes × List String)
  | 0, rest => some ([], rest)
  | n + 1, s :: rest =>
    match fromHex s, parseList n rest with
    | some b, some (l, r) => some (b :: l, r)
    | _, _ => none
  | _, _ => none

/-- `nil` | `c1 <RawIssuer> <none | v:AKI value> <n> <eku oid>…` -/
def parseC1 : List String → Option (Option Chain1)
  | ["nil"] => some none
  | "c1" :: iss :: aki :: n :: ekus =>
    match fromHex iss, parseNat? n with
    | some ib, some n =>
      match parseOne ib, parseList n ekus with
      | some it, some (es, []) =>
        if aki = "none" then some (some ⟨es, it, none⟩)
        else if aki.startsWith "v:" then
          match fromHex (aki.drop 2).toString with
          | some v => some (some ⟨es, it, some v⟩)
          | none => none
        else none
      | _, _ => none
    | _, _ => none
  | _ => none

def showRes : Option Bytes → String
  | none => "err"
  | some b => "ok " ++ hexOrDash b

def showLeaf : Option (Bytes × Bytes) → String
  | none => "err"
  | some (b, k) => s!"ok {hexOrDash b} {toHex (Sha256.hash k)}"

/-- the assertions that tie the canonical model to the lax one, evaluated on this input -/
def consistent (bs : Bytes) : Option String :=
  match laxTbs bs with
  | none => if (parseTbs bs).isSome then some "canonical-but-not-accepted" else none
  | some t =>
    if !t.wf then some "normal-form-not-wf"
    else if (parseTbs bs).isSome != (marshalTbs t == bs) then some "canonical-iff-reproduced"
    else match parseTbs bs with
      | some t' => if t' == t then none else some "contents-differ"
      | none => none

def onTbs (h : String) (f : Bytes → String) : String :=
  match fromHex h with
  | none => "bad-op"
  | some bs =>
    match consistent bs with
    | some why => "MODEL-INCONSISTENT " ++ why
    | none => f bs

/-- on canonical input the canonical model must give the same answer -/
def both (bs : Bytes) (lax strict : Option Bytes) : String :=
  if (parseTbs bs).isSome && lax != strict then "MODEL-INCONSISTENT canonical-result" else showRes lax

def handle (line : String) : String :=
  match tokens line with
  | "T" :: rest => go rest
  | rest => go rest
where go : List String → String
  | ["canon", h] => onTbs h fun bs => boolStr (parseTbs bs).isSome
  | ["remarshal", h] => onTbs h fun bs => showRes (remarshalLax bs)
  | ["rm", which, h] =>
    let oid := if which = "sct" then some sct else if which = "poison" then some poison else fromHex which
    match oid with
    | none => "bad-op"
    | some oid => onTbs h fun bs => both bs (removeExtLax oid bs) (removeExt oid bs)
  | "build" :: h :: c1 =>
    match parseC1 c1 with
    | none => "bad-op"
    | some c => onTbs h fun bs => both bs (buildPrecertTBSLax bs (c.map Chain1.pre)) (buildPrecertTBS bs (c.map Chain1.pre))
  | "leafpre" :: h :: n :: rest =>
    match parseNat? n with
    | none => "bad-op"
    | some n =>
      match parseList (n - 1) rest with
      | none => "bad-op"
      | some (keys, c1) =>
        match parseC1 c1 with
        | none => "bad-op"
        | some c => onTbs h fun bs =>
          let r := leafFromPrecertChainLax bs keys (preIssuerOf c)
          if (parseTbs bs).isSome && r != leafFromPrecertChain bs keys (preIssuerOf c) then "MODEL-INCONSISTENT canonical-leaf" else showLeaf r
  | "leafemb" :: h :: n :: rest =>
    match parseNat? n with
    | none => "bad-op"
    | some n =>
      match parseList (n - 1) rest with
      | some (keys, []) => onTbs h fun bs =>
        let r := leafForEmbeddedSCTLax bs keys
        if (parseTbs bs).isSome && r != leafForEmbeddedSCT bs keys then "MODEL-INCONSISTENT canonical-leaf" else showLeaf r
      | _ => "bad-op"
  | "sctenc" :: n :: items =>
    match parseNat? n with
    | none => "bad-op"
    | some n =>
      match parseList n items with
      | some (l, []) => showRes (sctExtValue l)
      | _ => "bad-op"
  | ["sctdec", h] =>
    match fromHex h with
    | none => "bad-op"
    | some v =>
      match parseSctExtValue v with
      | none => "err"
      | some l => joinSp ("ok" :: toString l.length :: l.map hexOrDash)
  | _ => "bad-op"

def run (_ : List String) : IO UInt32 := do
  mapLines (← IO.getStdin) (← IO.getStdout) handle
  return 0

end CTV.Driver.C03
