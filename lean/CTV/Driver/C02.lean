import CTV.Basic.Proto
import CTV.Model.ChainCheck
/-!
ctvmodel C02: replays the `vc` (ValidateChain / verifyAddChain) and `vf` (x509 Verify) lines of the
C02 harness on `CTV.Model.ChainCheck`.

```
vc|vf U u <cert>*u R r idx*r C n (idx|x)*n S m (child parent)*m O now start|- limit|- onlyCA rejExp rejUnexp k ext*k k eku*k E 0|1|2
cert = subj iss aki|- ski|- ver bc ca ku pk entrust notAfter k eku*k k ext*k a|p<crit><null>
```
Certificate `i` of the universe has `id = i`.  Answers: `ok idx…` / `rej` (vc), `chains n len idx… …` / `err` (vf).
-/
namespace CTV.Driver.C02
open CTV CTV.Proto CTV.Model.ChainCheck

abbrev P := StateT (List String) Option

def tok : P String := fun s => match s with
  | [] => none
  | t :: r => some (t, r)

def lit (x : String) : P Unit := do
  let t ← tok
  if t = x then pure () else failure

def nat : P Nat := do
  let t ← tok
  match t.toNat? with
  | some n => pure n
  | none => failure

def int : P Int := do
  let t ← tok
  match t.toInt? with
  | some n => pure n
  | none => failure

def bool : P Bool := do
  let t ← tok
  match parseBool? t with
  | some b => pure b
  | none => failure

def optNat : P (Option Nat) := do
  let t ← tok
  if t = "-" then pure none else
  match t.toNat? with
  | some n => pure (some n)
  | none => failure

def optInt : P (Option Int) := do
  let t ← tok
  if t = "-" then pure none else
  match t.toInt? with
  | some n => pure (some n)
  | none => failure

def rep {α} (p : P α) : Nat → P (List α)
  | 0 => pure []
  | n + 1 => do
    let a ← p
    let r ← rep p n
    pure (a :: r)

def counted {α} (p : P α) : P (List α) := do
  let n ← nat
  rep p n

def poisonChars : List Char → Option (List PoisonExt)
  | [] => some []
  | 'p' :: a :: b :: rest =>
    match a, b, poisonChars rest with
    | '0', '0', some r => some (⟨false, false⟩ :: r)
    | '0', '1', some r => some (⟨false, true⟩ :: r)
    | '1', '0', some r => some (⟨true, false⟩ :: r)
    | '1', '1', some r => some (⟨true, true⟩ :: r)
    | _, _, _ => none
  | _ => none

/-- `a` = no poison extension; otherwise one `p<critical><null>` group per poison extension, in order. -/
def poison : P (List PoisonExt) := do
  let t ← tok
  if t = "a" then pure [] else
  match poisonChars t.toList with
  | some r => pure r
  | none => failure

def cert (id : Nat) : P Cert := do
  let subject ← nat
  let issuer ← nat
  let aki ← optNat
  let ski ← optNat
  let version ← int
  let bcValid ← bool
  let isCA ← bool
  let keyUsage ← int
  let pkAlgKnown ← bool
  let entrustSPKI ← bool
  let notAfter ← int
  let ekus ← counted nat
  let extIds ← counted nat
  let poison ← poison
  pure { id, subject, issuer, aki, ski, version, bcValid, isCA, keyUsage, pkAlgKnown, entrustSPKI, notAfter, ekus, extIds, poison }

def certs : Nat → Nat → P (List Cert)
  | _, 0 => pure []
  | i, n + 1 => do
    let c ← cert i
    let r ← certs (i + 1) n
    pure (c :: r)

def chainItem (u : Array Cert) : P (Option Cert) := do
  let t ← tok
  if t = "x" then pure none else
  match t.toNat? with
  | some i => match u[i]? with
    | some c => pure (some c)
    | none => failure
  | none => failure

def idx (u : Array Cert) : P Cert := do
  let i ← nat
  match u[i]? with
  | some c => pure c
  | none => failure

structure Case where
  roots : List Cert
  chain : List (Option Cert)
  sig : List (Nat × Nat)
  opts : Opts
  endpoint : Nat

def parseCase : P Case := do
  lit "U"
  let n ← nat
  let us ← certs 0 n
  let u := us.toArray
  lit "R"
  let roots ← counted (idx u)
  lit "C"
  let chain ← counted (chainItem u)
  lit "S"
  let sig ← counted (do let a ← nat; let b ← nat; pure (a, b))
  lit "O"
  let now ← int
  let notAfterStart ← optInt
  let notAfterLimit ← optInt
  let acceptOnlyCA ← bool
  let rejectExpired ← bool
  let rejectUnexpired ← bool
  let rejectExtIds ← counted nat
  let extKeyUsages ← counted nat
  lit "E"
  let endpoint ← nat
  pure { roots, chain, sig, endpoint,
         opts := { now, notAfterStart, notAfterLimit, acceptOnlyCA, rejectExpired, rejectUnexpired, rejectExtIds, extKeyUsages } }

def sigOracle (m : List (Nat × Nat)) : SigOracle := fun c p => m.contains (c.id, p.id)

def showPath (p : List Cert) : String := joinSp (p.map fun c => toString c.id)

def answerVc (c : Case) : String :=
  let r := match c.endpoint with
    | 0 => validateChain c.roots (sigOracle c.sig) c.opts c.chain
    | e => verifyAddChain c.roots (sigOracle c.sig) c.opts c.chain (e == 2)
  match r with
  | .ok p => "ok " ++ showPath p
  | .error _ => "rej"

def answerVf (c : Case) : String :=
  match parseAll c.chain with
  | some (l :: rest) =>
    match verify ⟨c.roots, mkPool rest, sigOracle c.sig⟩ l with
    | .ok chains => joinSp (s!"chains {chains.length}" :: chains.map fun p => s!"| {p.length} {showPath p}")
    | .error _ => "err"
  | _ => "bad-op"

def handle (line : String) : String :=
  let ts := match tokens line with
    | "T" :: rest => rest
    | rest => rest
  match ts with
  | "vc" :: rest => match parseCase.run rest with
    | some (c, []) => answerVc c
    | _ => "bad-op"
  | "vf" :: rest => match parseCase.run rest with
    | some (c, []) => answerVf c
    | _ => "bad-op"
  | _ => "bad-op"

def run (_ : List String) : IO UInt32 := do
  mapLines (← IO.getStdin) (← IO.getStdout) handle
  return 0

end CTV.Driver.C02
