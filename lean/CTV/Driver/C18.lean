import CTV.Basic.Proto
import CTV.Model.Temporal
/-! ctvmodel C18 -/
namespace CTV.Driver.C18
open CTV CTV.Proto CTV.Model

def optInt? (s : String) : Option (Option Int) :=
  if s = "-" then some none else (parseInt? s).map some

def parseShards : Nat → List String → Option (List Shard × List String)
  | 0, rest => some ([], rest)
  | n+1, lo :: up :: rest =>
    match optInt? lo, optInt? up, parseShards n rest with
    | some lo, some up, some (l, rest') => some ((lo, up) :: l, rest')
    | _, _, _ => none
  | _, _ => none

def b (x : Bool) : String := if x then "1" else "0"

def go : List String → String
  | ["win", lo, up, t, sub] =>
    match optInt? lo, optInt? up, parseInt? t, parseInt? sub with
    | some lo, some up, some t, some sub =>
      let a := if Gen.validateLogConfigWindowRefused lo up then "x"
        else b (Gen.configuredWindowVerbatim && !(Gen.validateChainRejectStart lo t) && !(Gen.validateChainRejectLimit up t))
      let r := if newTemporal [(lo, up)] then b (Gen.indexByDate [(lo, up)] sub == some 0) else "x"
      let c := match lo, up with
        | some l, some u => b (Gen.temporallyCompatible (some (l, u)) sub) ++ b (Gen.compatibleKeeps (some (l, u)) sub false false) ++
            b (Gen.compatibleKeeps (some (l, u)) sub true true)
        | _, _ => "x"
      s!"{a} {r} {c}"
    | _, _, _, _ => "bad-op"
  | "shards" :: k :: rest =>
    match parseNat? k with
    | none => "bad-op"
    | some k =>
      match parseShards k rest with
      | some (sh, [t]) =>
        match parseInt? t with
        | none => "bad-op"
        | some t =>
          if newTemporal sh then
            match Gen.indexByDate sh t with
            | some i => toString i
            | none => "none"
          else "refused"
      | _ => "bad-op"
  | _ => "bad-op"

def handle (line : String) : String :=
  match tokens line with
  | "T" :: rest => go rest
  | rest => go rest

def run (_ : List String) : IO UInt32 := do
  mapLines (← IO.getStdin) (← IO.getStdout) handle
  return 0
end CTV.Driver.C18
