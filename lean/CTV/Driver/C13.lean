import CTV.Basic.Proto
import CTV.Model.Retry
/-! ctvmodel C13: kernel lines (`set`) are answered exactly; scenario lines (`req`/`end`) are validated against the model
(each request instant must lie in the window the model allows for the unknown jitter draw). -/
namespace CTV.Driver.C13
open CTV CTV.Proto CTV.Model.Retry

inductive Last | none | ok | err (st : String) | ctx | retry (lo hi : Int)

structure St where
  bs : BState := BState.init
  last : Last := .none

def raOf : List String → Option RA
  | ["-"] => some .none
  | ["junk"] => some .junk
  | ["secs", n] => (parseInt? n).map .secs
  | ["date", d] => (parseInt? d).map .date
  | _ => none

def respOf : List String → Option (Resp × String)
  | ["neterr"] => some (.otherErr, "-")
  | ["neterr-dl"] => some (.otherErr, "-")
  | ["hang"] => some (.ctxErr, "-")
  | ["junk"] => some (.otherErr, "-")
  | ["ok"] => some (.http 200 .none, "200")
  | ["redir", c] =>
    if c = "307" ∨ c = "308" then some (.http 200 .none, "200") else some (.otherErr, "-")
  | "st" :: s :: ra =>
    match parseNat? s, raOf ra with
    | some s, some ra => some (.http s ra, toString s)
    | _, _ => none
  | _ => none

def maxJ : Int := Gen.maxJitter / 1000000 - 1   -- largest jitter draw in ms

def step (s : St) (line : String) : St × String :=
  let toks := match tokens line with
    | "T" :: rest => rest
    | rest => rest
  match toks with
  | ["new"] => ({}, "ok")
  | ["set", now, ov] =>
    let ov? : Option (Option Int) := if ov = "-" then some none else (parseInt? ov).map some
    match parseInt? now, ov? with
    | some now, some ov =>
      let (w, bs) := applySet s.bs now ov
      ({ s with bs := bs }, s!"{w} {bs.notBefore} {bs.mult}")
    | _, _ => (s, "bad-op")
  | "req" :: t :: kind =>
    match parseInt? t, respOf kind with
    | some t, some (resp, stS) =>
      let timeOk : Option String := match s.last with
        | .none => none
        | .retry lo hi => if lo ≤ t ∧ t ≤ hi then none else some s!"bad-time expected [{lo},{hi}] got {t}"
        | _ => some "bad-request-after-final-answer"
      match timeOk with
      | some e => (s, e)
      | none =>
        let (act, bs) := onResponse s.bs t resp
        let last := match act with
          | .retOk => Last.ok
          | .retErr => Last.err stS
          | .retCtx => Last.ctx
          | .retry => Last.retry (t + waitFor bs t 0) (t + waitFor bs t maxJ)
        ({ bs := bs, last := last }, "go")
    | _, _ => (s, "bad-op")
  | ["end", t, dl] =>
    match parseInt? t, parseInt? dl with
    | some t, some dl =>
      match s.last with
      | .ok => (s, "ok")
      | .err st => (s, "err " ++ st)
      | .ctx => (s, "ctx")
      | .retry lo hi => if dl ≤ hi ∧ t = dl then (s, "ctx") else (s, s!"bad-end next request due in [{lo},{hi}] deadline {dl} ended {t}")
      | .none => if t = dl then (s, "ctx") else (s, "bad-end-without-request")
    | _, _ => (s, "bad-op")
  | _ => (s, "bad-op")

def run (_ : List String) : IO UInt32 := do
  foldLines (← IO.getStdin) (← IO.getStdout) step {}
  return 0
end CTV.Driver.C13
