import CTV.Basic.Proto
import CTV.Model.Faults
/-! ctvmodel C08: replays the fault-matrix lines on `CTV.Model.Faults.serve`. -/
namespace CTV.Driver.C08
open CTV CTV.Proto CTV.Model CTV.Model.Faults

def unhexStr (s : String) : Option String :=
  match fromHex s with
  | some bs => some (String.fromUTF8! (ByteArray.mk bs.toArray))
  | none => none

def epOf : String → Option Ep
  | "add-chain" => some .addChain | "add-pre-chain" => some .addPreChain | "get-sth" => some .getSTH
  | "get-sth-consistency" => some .getSTHCons | "get-proof-by-hash" => some .getProofByHash
  | "get-entries" => some .getEntries | "get-roots" => some .getRoots | "get-entry-and-proof" => some .getEntryAndProof
  | _ => none

def nats (l : List String) : Option (List Nat) := l.mapM parseNat?
def ints (l : List String) : Option (List Int) := l.mapM parseInt?

def rootOf : List String → Option (Root × List String)
  | p :: d :: sz :: hl :: rest =>
    match parseBool? p, parseBool? d, parseNat? sz, parseNat? hl with
    | some p, some d, some sz, some hl => some (⟨p, d, sz, hl⟩, rest)
    | _, _, _, _ => none
  | _ => none

/-- k groups of `n l1 … ln` -/
def groups : Nat → List String → Option (List (List Nat))
  | 0, [] => some []
  | 0, _ => none
  | k+1, n :: rest =>
    match parseNat? n with
    | none => none
    | some n =>
      match nats (rest.take n), groups k (rest.drop n) with
      | some g, some gs => if (rest.take n).length = n then some (g :: gs) else none
      | _, _ => none
  | _, _ => none

def replyOf : List String → Option Reply
  | ["err", "plain"] => some (.err .plain)
  | ["err", c] => (parseNat? c).map fun c => .err (.code c)
  | ["queue", a, b, c, d, e] =>
    match parseBool? a, parseBool? b, parseBool? c, parseBool? d, parseBool? e with
    | some a, some b, some c, some d, some e => some (.queue a b c d e)
    | _, _, _, _, _ => none
  | "sth" :: rest => match rootOf rest with
    | some (r, []) => some (.sth r)
    | _ => none
  | "cons" :: rest => match rootOf rest with
    | some (r, pp :: n :: ls) =>
      match parseBool? pp, parseNat? n, nats ls with
      | some pp, some n, some ls => if ls.length = n then some (.cons r pp ls) else none
      | _, _, _ => none
    | _ => none
  | "proofs" :: rest => match rootOf rest with
    | some (r, k :: gs) =>
      match parseNat? k with
      | some k => (groups k gs).map fun ps => .proofs r ps
      | none => none
    | _ => none
  | "leaves" :: rest => match rootOf rest with
    | some (r, f :: n :: is) =>
      match parseBool? f, parseNat? n, ints is with
      | some f, some n, some is => if is.length = n then some (.leaves r f is) else none
      | _, _, _ => none
    | _ => none
  | "entry" :: rest => match rootOf rest with
    | some (r, [f, lp, lvl, pp, nh]) =>
      match parseBool? f, parseBool? lp, parseNat? lvl, parseBool? pp, parseNat? nh with
      | some f, some lp, some lvl, some pp, some nh => some (.entry r f lp lvl pp nh)
      | _, _, _, _, _ => none
    | _ => none
  | _ => none

def go (toks : List String) : String :=
  match toks with
  | "ep" :: ep :: mOk :: p1 :: p2 :: hashOk :: bodyOk :: chainOk :: signOk :: mask :: mp :: "|" :: rep =>
    match epOf ep, parseBool? mOk, unhexStr p1, unhexStr p2, parseBool? hashOk, parseBool? bodyOk, parseBool? chainOk, parseBool? signOk, parseBool? mask, parseNat? mp, replyOf rep with
    | some ep, some mOk, some p1, some p2, some hashOk, some bodyOk, some chainOk, some signOk, some mask, some mp, some rep =>
      let cfg : Cfg := { mask := mask, mapper := mapperOf mp }
      let q : Req := { methodOk := mOk, p1 := p1, p2 := p2, hashOk := hashOk, bodyOk := bodyOk, chainOk := chainOk, signOk := signOk }
      let o := serve cfg ep q rep
      let base := s!"{o.status} {boolStr o.sct} {boolStr o.rpc}"
      if o.status ≥ 400 then base ++ " " ++ boolStr (errorTextShown cfg o.status) else base
    | _, _, _, _, _, _, _, _, _, _, _ => "bad-op"
  | _ => "bad-op"

def handle (line : String) : String :=
  match tokens line with
  | "T" :: rest => go rest
  | rest => go rest

def run (_ : List String) : IO UInt32 := do
  mapLines (← IO.getStdin) (← IO.getStdout) handle
  return 0
end CTV.Driver.C08
