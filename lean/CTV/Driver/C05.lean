import CTV.Basic.Proto
import CTV.Model.SigVerify
/-! ctvmodel C05: replays the lines of the C05 harness on the model.

  v <kind> <nil> <hash> <sigalg> <R|-> <S|-> <prim> <sighex>        => ok | err | panic
  vsct <kind> <nil> <hash> <sigalg> <R|-> <S|-> <prim> <sighex> <version> <ts> <etype> <cert> <ikh> <tbs> <ext> => ok | err | panic
  vsth <kind> <nil> <hash> <sigalg> <R|-> <S|-> <prim> <sighex> <version> <ts> <size> <root> => ok | err | panic
  sj <kind> <nil> <R|-> <S|-> <prim> <sighex> <parseok>             => ok | err | panic
  nv <kind> <bits> <isP256> <allow> <nil>                           => ok | err | panic
  vctutil <kind> <nil> <hash> <sigalg> <R|-> <S|-> <prim> <sighex> <bits> <isP256> <allow> <version> <ts> <etype> <cert> <ikh> <tbs> <ext> => ok | err | panic
  vsctnil <kind> <version> <x509|precert|te>                        => err | panic
  (<nil> = 0: a real key, 1: typed nil pointer, 2: pointer to the zero value)
  sctin <version> <ts> <etype> <cert> <ikh> <tbs> <ext>             => <hex> | err
  sthin <version> <ts> <size> <root>                                => <hex> | err
  der <sighex>                                                      => ok <r> <s> <resthex> | err

`R S` are the integers the harness extracted from the signature octets with its own lenient reader and
`prim` is the standard library's verdict on (key, digest, R, S) (resp. on the raw octets for RSA); when the
model's strict parser yields other integers the answer is `rs-mismatch …`, which the diff reports. -/
namespace CTV.Driver.C05
open CTV CTV.Proto CTV.DerSig CTV.SigInput CTV.SigV

def kindOf (s : String) : KeyKind :=
  if s = "rsa" then .rsa else if s = "dsa" then .dsa else if s = "ecdsa" then .ecdsa
  else if s = "ed25519" then .ed25519 else .other

def showOutcome : Outcome → String
  | .ok => "ok" | .err => "err" | .panic => "panic"

def optInt (s : String) : Option (Option Int) :=
  if s = "-" then some none else (parseInt? s).map some

def prims (bit : Bool) : Prims := { digest := fun _ _ => [], prim := fun _ _ _ _ => bit }

/-- the harness' (R, S) must be the model's whenever the model parses the octets -/
def rsCheck (sig : Bytes) (R S : Option Int) : Option String :=
  match parseSigPair sig with
  | none => none
  | some p => if R = some p.r ∧ S = some p.s then none else some s!"rs-mismatch model={p.r},{p.s}"

def entryOf (etype : Nat) (cert ikh tbs : Bytes) : Entry :=
  if etype = 0 then .x509 cert else if etype = 1 then .precert ikh tbs else .other etype

structure VArgs where
  key : Key
  ds : DigitallySigned
  R : Option Int
  S : Option Int
  bit : Bool

def parseV : List String → Option (VArgs × List String)
  | k :: nl :: h :: a :: r :: s :: pb :: sg :: rest =>
    match parseNat? nl, parseNat? h, parseNat? a, optInt r, optInt s, parseBool? pb, fromHex sg with
    | some nl, some h, some a, some r, some s, some pb, some sg =>
      some (⟨{ kind := kindOf k, isNil := nl == 1, hollow := nl == 2 }, ⟨h, a, sg⟩, r, s, pb⟩, rest)
    | _, _, _, _, _, _, _ => none
  | _ => none

def guarded (v : VArgs) (needsPair : Bool) (f : Unit → String) : String :=
  if needsPair then
    match rsCheck v.ds.sig v.R v.S with
    | some m => m
    | none => f ()
  else f ()

def derCase (a : Nat) : Bool :=
  match Gen.sigAlgTable.lookup a with
  | some (_, der, _, _) => der
  | none => false

def handle (line : String) : String :=
  match tokens line with
  | "T" :: rest => go rest
  | rest => go rest
where go : List String → String
  | "v" :: rest =>
    match parseV rest with
    | some (v, []) =>
      guarded v (derCase v.ds.sigAlg) fun _ => showOutcome (verifySignature (prims v.bit) v.key [] v.ds)
    | _ => "bad-op"
  | "vsct" :: rest =>
    match parseV rest with
    | some (v, [ver, ts, et, cert, ikh, tbs, ext]) =>
      match parseNat? ver, parseNat? ts, parseNat? et, fromHex cert, fromHex ikh, fromHex tbs, fromHex ext with
      | some ver, some ts, some et, some cert, some ikh, some tbs, some ext =>
        guarded v (derCase v.ds.sigAlg) fun _ =>
          showOutcome (verifySCT (prims v.bit) v.key ⟨ver, [], UInt64.ofNat ts, ext, v.ds⟩ (entryOf et cert ikh tbs))
      | _, _, _, _, _, _, _ => "bad-op"
    | _ => "bad-op"
  | "vsth" :: rest =>
    match parseV rest with
    | some (v, [ver, ts, sz, root]) =>
      match parseNat? ver, parseNat? ts, parseNat? sz, fromHex root with
      | some ver, some ts, some sz, some root =>
        guarded v (derCase v.ds.sigAlg) fun _ =>
          showOutcome (verifySTH (prims v.bit) v.key ⟨ver, UInt64.ofNat sz, UInt64.ofNat ts, root, v.ds⟩)
      | _, _, _, _ => "bad-op"
    | _ => "bad-op"
  | "vwit" :: k :: n :: rest =>
    -- vwit <kind> <n> {<hash> <alg> <R> <S> <prim> <sighex>}*n : WitnessVerifier.VerifySignature on n witness signatures
    match parseNat? n with
    | some n =>
      let rec sigs (fuel : Nat) (ts : List String) (acc : List VArgs) : Option (List VArgs) :=
        match fuel, ts with
        | 0, [] => some acc.reverse
        | f+1, h :: a :: r :: s :: pb :: sg :: more =>
          match parseV (k :: "0" :: h :: a :: r :: s :: pb :: sg :: []) with
          | some (v, []) => sigs f more (v :: acc)
          | _ => none
        | _, _ => none
      match sigs n rest [] with
      | some vs =>
        match vs.findSome? (fun v => if derCase v.ds.sigAlg then rsCheck v.ds.sig v.R v.S else none) with
        | some m => m
        | none => showOutcome (witnessVerify (vs.map fun v => verifySignature (prims v.bit) v.key [] v.ds))
      | none => "bad-op"
    | none => "bad-op"
  | ["sj", k, nl, r, s, pb, sg, pok] =>
    match parseNat? nl, optInt r, optInt s, parseBool? pb, fromHex sg, parseBool? pok with
    | some nl, some r, some s, some pb, some sg, some pok =>
      let key : Key := { kind := kindOf k, isNil := nl == 1, hollow := nl == 2 }
      let needs := match Gen.signedJSONAlg.lookup key.kind.name with
        | some a => derCase a
        | none => false
      let v : VArgs := ⟨key, ⟨0, 0, sg⟩, r, s, pb⟩
      guarded v needs fun _ =>
        match newFromSignedJSON (prims pb) (fun _ => if pok then some () else none) key [] sg with
        | .ok _ => "ok" | .err => "err" | .panic => "panic"
    | _, _, _, _, _, _ => "bad-op"
  | ["nv", k, bits, p256, allow, nl] =>
    match parseNat? bits, parseBool? p256, parseBool? allow, parseNat? nl with
    | some bits, some p256, some allow, some nl =>
      showOutcome (newVerifierOutcome { kind := kindOf k, bits := bits, isP256 := p256, isNil := nl == 1, hollow := nl == 2 } allow)
    | _, _, _, _ => "bad-op"
  | "vctutil" :: rest =>
    match parseV rest with
    | some (v, [bits, p256, allow, ver, ts, et, cert, ikh, tbs, ext]) =>
      match parseNat? bits, parseBool? p256, parseBool? allow, parseNat? ver, parseNat? ts, parseNat? et, fromHex cert, fromHex ikh, fromHex tbs, fromHex ext with
      | some bits, some p256, some allow, some ver, some ts, some et, some cert, some ikh, some tbs, some ext =>
        let key : Key := { v.key with bits := bits, isP256 := p256 }
        guarded v (derCase v.ds.sigAlg && newVerifierOutcome key allow == .ok) fun _ =>
          showOutcome (ctutilVerifySCT (prims v.bit) key allow ⟨ver, [], UInt64.ofNat ts, ext, v.ds⟩ (entryOf et cert ikh tbs))
      | _, _, _, _, _, _, _, _, _, _ => "bad-op"
    | _ => "bad-op"
  | ["vsctnil", k, ver, which] =>
    match parseNat? ver with
    | some ver =>
      let a : Option EntryArg := if which = "x509" then some .nilX509 else if which = "precert" then some .nilPrecert
        else if which = "te" then some .nilTimestampedEntry else none
      match a with
      | some a => showOutcome (verifySCTArg (prims false) { kind := kindOf k } ⟨ver, [], 0, [], ⟨4, 3, []⟩⟩ a)
      | none => "bad-op"
    | none => "bad-op"
  | ["sctin", ver, ts, et, cert, ikh, tbs, ext] =>
    match parseNat? ver, parseNat? ts, parseNat? et, fromHex cert, fromHex ikh, fromHex tbs, fromHex ext with
    | some ver, some ts, some et, some cert, some ikh, some tbs, some ext =>
      match sctSigInput ver (UInt64.ofNat ts) (entryOf et cert ikh tbs) ext with
      | some b => hexOrDash b
      | none => "err"
    | _, _, _, _, _, _, _ => "bad-op"
  | ["sthin", ver, ts, sz, root] =>
    match parseNat? ver, parseNat? ts, parseNat? sz, fromHex root with
    | some ver, some ts, some sz, some root =>
      match sthSigInput ver (UInt64.ofNat ts) (UInt64.ofNat sz) root with
      | some b => hexOrDash b
      | none => "err"
    | _, _, _, _ => "bad-op"
  | ["der", sg] =>
    match fromHex sg with
    | some sg =>
      match parseSigPair sg with
      | some p => s!"ok {p.r} {p.s} {hexOrDash p.rest}"
      | none => "err"
    | none => "bad-op"
  | _ => "bad-op"

def run (_ : List String) : IO UInt32 := do
  mapLines (← IO.getStdin) (← IO.getStdout) handle
  return 0

end CTV.Driver.C05
