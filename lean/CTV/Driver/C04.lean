import CTV.Basic.Proto
import CTV.Rfc6962.Wire
import CTV.Model.CtWire
/-! ctvmodel C04: answers every line of the C04 harness from the RFC transcription (`Rfc.*`) alone. -/
namespace CTV.Driver.C04
open CTV CTV.Proto

def kv (ts : List String) (k : String) : Option String :=
  match ts.find? (fun t => (k ++ "=").isPrefixOf t) with
  | some t => some (String.ofList (t.toList.drop (k.length + 1)))
  | none => none

def kvNat (ts : List String) (k : String) : Option Nat := (kv ts k).bind String.toNat?
def kvHex (ts : List String) (k : String) : Option Bytes := (kv ts k).bind fromHex

/-- `nil` or hex -/
def optHex (s : String) : Option (Option Bytes) :=
  if s = "nil" then some none else (fromHex s).map some

def optPre (s : String) : Option (Option Rfc.PreCert) :=
  if s = "nil" then some none
  else match s.splitOn ":" with
    | [a, b] => match fromHex a, fromHex b with
      | some a, some b => some (some ⟨a, b⟩)
      | _, _ => none
    | _ => none

structure EntryIn where
  et : Nat
  x509 : Option Bytes
  pre : Option Rfc.PreCert
  json : Option Bytes

def parseEntry (ts : List String) : Option EntryIn := do
  let et ← kvNat ts "et"
  let x ← (kv ts "x509").bind optHex
  let p ← (kv ts "pre").bind optPre
  let j ← (kv ts "json").bind optHex
  pure ⟨et, x, p, j⟩

/-- the entry as the RFC can express it: exactly the body of its type is present -/
def EntryIn.rfc (e : EntryIn) : Option Rfc.SignedEntry :=
  match e.et, e.x509, e.pre, e.json with
  | 0, some c, none, none => some (.x509 c)
  | 1, none, some p, none => some (.precert p)
  | _, _, _, _ => none

/-- what `SerializeSCTSignatureInput` reads: only the body that belongs to the entry type -/
def EntryIn.used (e : EntryIn) : Option Rfc.SignedEntry :=
  match e.et with
  | 0 => e.x509.map .x509
  | 1 => e.pre.map .precert
  | _ => none

def showEntry : Rfc.SignedEntry → String
  | .x509 c => s!"et=0 x509={hexOrDash c} pre=nil json=nil"
  | .precert p => s!"et=1 x509=nil pre={hexOrDash p.issuerKeyHash}:{hexOrDash p.tbsCertificate} json=nil"

def showLeaf (l : Rfc.MerkleTreeLeaf) : String :=
  s!"v={l.version} lt=0 ts={l.entry.timestamp} {showEntry l.entry.entry} ext={hexOrDash l.entry.extensions}"

def showDS (d : Rfc.DigitallySigned) : String := s!"hash={d.hash} sig={d.sigAlg} sigbytes={hexOrDash d.signature}"

def showChain (c : List Bytes) : String := joinSp (s!"n={c.length}" :: c.map hexOrDash)

def parseDS (ts : List String) : Option Rfc.DigitallySigned := do
  pure ⟨← kvNat ts "hash", ← kvNat ts "sig", ← kvHex ts "sigbytes"⟩

/-- the hex tokens after `n=<k>` -/
def parseList (ts : List String) : Option (List Bytes) :=
  match ts.dropWhile (fun t => !("n=".isPrefixOf t)) with
  | _ :: rest => rest.mapM fromHex
  | [] => none

def hexRes (r : Option Bytes) : String :=
  match r with
  | some b => hexOrDash b
  | none => "err"

def decRes {α} (r : Option (α × Bytes)) (sh : α → String) : String :=
  match r with
  | some (x, rest) => s!"ok {sh x} rest={hexOrDash rest}"
  | none => "err"

/-! base64 (RFC 4648 §4, with padding; CR and LF are skipped and non-zero trailing bits tolerated, as Go's StdEncoding does) -/

def b64Val (c : Char) : Option Nat :=
  if 'A' ≤ c ∧ c ≤ 'Z' then some (c.toNat - 65)
  else if 'a' ≤ c ∧ c ≤ 'z' then some (c.toNat - 71)
  else if '0' ≤ c ∧ c ≤ '9' then some (c.toNat + 4)
  else if c = '+' then some 62 else if c = '/' then some 63 else none

partial def b64Groups : List Char → Array UInt8 → Option Bytes
  | [], acc => some acc.toList
  | [a, b, '=', '='], acc =>
    match b64Val a, b64Val b with
    | some a, some b => some (acc.push (UInt8.ofNat ((a * 4 + b / 16) % 256))).toList
    | _, _ => none
  | [a, b, c, '='], acc =>
    match b64Val a, b64Val b, b64Val c with
    | some a, some b, some c =>
      some ((acc.push (UInt8.ofNat ((a * 4 + b / 16) % 256))).push (UInt8.ofNat ((b * 16 + c / 4) % 256))).toList
    | _, _, _ => none
  | a :: b :: c :: d :: rest, acc =>
    match b64Val a, b64Val b, b64Val c, b64Val d with
    | some a, some b, some c, some d =>
      b64Groups rest (((acc.push (UInt8.ofNat ((a * 4 + b / 16) % 256))).push (UInt8.ofNat ((b * 16 + c / 4) % 256))).push
        (UInt8.ofNat ((c * 64 + d) % 256)))
    | _, _, _, _ => none
  | _, _ => none

def b64Decode (s : List Char) : Option Bytes :=
  b64Groups (s.filter fun c => c ≠ '\r' ∧ c ≠ '\n') #[]

def asciiOf (b : Bytes) : List Char := b.map fun x => Char.ofNat x.toNat

def handle (line : String) : String :=
  let ts := match tokens line with
    | "T" :: rest => rest
    | rest => rest
  match ts with
  | "S" :: "MerkleTreeLeaf" :: f =>
    match parseEntry f, kvNat f "v", kvNat f "lt", kvNat f "ts", kvHex f "ext" with
    | some e, some v, some lt, some t, some ext =>
      match e.rfc with
      | some se => if lt = 0 then hexRes (Rfc.merkleTreeLeaf ⟨v, ⟨t, se, ext⟩⟩) else "err"
      | none => "err"
    | _, _, _, _, _ => "bad-op"
  | "SJ" :: "MerkleTreeLeaf" :: f =>
    match kvNat f "v", kvNat f "ts", kvHex f "data", kvHex f "ext" with
    | some v, some t, some d, some ext =>
      match Tls.enc CtWire.tMerkleTreeLeaf (.struct [.num v, .num 0, .struct [.num t, .num 32768, .absent, .absent, .struct [.bytes d], .bytes ext]]) with
      | .ok bs => hexOrDash bs
      | .error _ => "err"
    | _, _, _, _ => "bad-op"
  | "S" :: "TimestampedEntry" :: f =>
    match parseEntry f, kvNat f "ts", kvHex f "ext" with
    | some e, some t, some ext =>
      match e.rfc with
      | some se => hexRes (Rfc.timestampedEntry ⟨t, se, ext⟩)
      | none => "err"
    | _, _, _ => "bad-op"
  | "S" :: "SCT" :: f =>
    match kvNat f "v", kvHex f "id", kvNat f "ts", kvHex f "ext", parseDS f with
    | some v, some id, some t, some ext, some d => hexRes (Rfc.sct ⟨v, id, t, ext, d⟩)
    | _, _, _, _, _ => "bad-op"
  | "S" :: "DS" :: f =>
    match parseDS f with
    | some d => hexRes (Rfc.digitallySigned d)
    | none => "bad-op"
  | "S" :: "CertChain" :: f =>
    match parseList f with
    | some c => hexRes (Rfc.certChain c)
    | none => "bad-op"
  | "S" :: "PrecertChain" :: f =>
    match kvHex f "pre", parseList f with
    | some p, some c => hexRes (Rfc.precertChainEntry ⟨p, c⟩)
    | _, _ => "bad-op"
  | "S" :: "SCTList" :: f =>
    match parseList f with
    | some c => hexRes (Rfc.sctList c)
    | none => "bad-op"
  | "XD" :: f =>
    match kv f "pre", kvHex f "cert", parseList f with
    | some pre, some cert, some chain =>
      if pre = "1" then hexRes (Rfc.precertChainEntry ⟨cert, chain⟩) else hexRes (Rfc.certChain chain)
    | _, _, _ => "bad-op"
  | "SCTIN" :: f =>
    match parseEntry f, kvNat f "v", kvNat f "ts", kvHex f "ext" with
    | some e, some v, some t, some ext =>
      match e.used with
      | some se => hexRes (Rfc.sctSigInputV1 ⟨v, t, se, ext⟩)
      | none => "err"
    | _, _, _, _ => "bad-op"
  | "STHIN" :: f =>
    match kvNat f "v", kvNat f "ts", kvNat f "size", kvHex f "root" with
    | some v, some t, some n, some h => hexRes (Rfc.sthSigInputV1 ⟨v, t, n, h⟩)
    | _, _, _, _ => "bad-op"
  | ["D", name, h] =>
    match fromHex h with
    | none => "bad-op"
    | some bs =>
      if name = "MerkleTreeLeaf" then
        match Rfc.decMerkleTreeLeaf bs with
        | some r => decRes (some r) showLeaf
        | none =>
          -- not an RFC leaf; the repository's JSON extension (entry type 0x8000) is answered from the regenerated type
          match Tls.dec CtWire.tMerkleTreeLeaf bs with
          | .ok (.struct [.num v, .num 0, .struct [.num t, .num 32768, .absent, .absent, .struct [.bytes d], .bytes ext]], rest) =>
            s!"ok json v={v} ts={t} data={hexOrDash d} ext={hexOrDash ext} rest={hexOrDash rest}"
          | _ => "err"
      else if name = "SCT" then decRes (Rfc.decSct bs) fun s =>
        s!"v={s.version} id={hexOrDash s.logID} ts={s.timestamp} ext={hexOrDash s.extensions} {showDS s.signature}"
      else if name = "DS" then decRes (Rfc.decDigitallySigned bs) showDS
      else if name = "CertChain" then decRes (Rfc.decCertChain bs) showChain
      else if name = "PrecertChain" then decRes (Rfc.decPrecertChainEntry bs) fun e => s!"pre={hexOrDash e.preCertificate} {showChain e.chain}"
      else if name = "SCTList" then decRes (Rfc.decSctList bs) showChain
      else "bad-op"
  | ["LEAF", l, x] =>
    match fromHex l, fromHex x with
    | some l, some x =>
      match Rfc.decLogEntry l x with
      | some (leaf, .x509 chain) =>
        match leaf.entry.entry with
        | .x509 c => s!"ok {showLeaf leaf} cert={hexOrDash c} chain {showChain chain}"
        | _ => "err"
      | some (leaf, .precert e) => s!"ok {showLeaf leaf} cert={hexOrDash e.preCertificate} chain {showChain e.chain}"
      | none => "err"
    | _, _ => "bad-op"
  | "TOSCT" :: f =>
    match kvNat f "v", kvHex f "id", kvNat f "ts", kvHex f "ext64", kvHex f "sig" with
    | some v, some id, some t, some e64, some sig =>
      match b64Decode (asciiOf e64) with
      | none => "err"
      | some ext =>
        match CtWire.toSCTRfc v id t ext sig with
        | some s => s!"ok v={s.version} id={hexOrDash s.logID} ts={s.timestamp} ext={hexOrDash s.extensions} {showDS s.signature}"
        | none => "err"
    | _, _, _, _, _ => "bad-op"
  | "TOSTH" :: f =>
    match kvNat f "size", kvNat f "ts", kvHex f "root", kvHex f "sig" with
    | some n, some t, some root, some sig =>
      match CtWire.toSTHRfc n t root sig with
      | some s => s!"ok size={s.treeSize} ts={s.timestamp} root={hexOrDash s.rootHash} {showDS s.signature}"
      | none => "err"
    | _, _, _, _ => "bad-op"
  | _ => "bad-op"

def run (_ : List String) : IO UInt32 := do
  mapLines (← IO.getStdin) (← IO.getStdout) handle
  return 0

end CTV.Driver.C04
