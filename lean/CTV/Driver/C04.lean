import CTV.Basic.Proto
import CTV.Rfc6962.Wire
import CTV.Rfc6962.Api
import CTV.Model.CtWire
import CTV.Sha256
/-! ctvmodel C04: answers every line of the C04 harness from the RFC transcription (`Rfc.*`) alone. -/
namespace CTV.Driver.C04
open CTV CTV.Proto

def kv (ts : List String) (k : String) : Option String :=
  match ts.find? (fun t => (k ++ "=").isPrefixOf t) with
  | some t => some (String.ofList (t.toList.drop (k.length + 1)))
  | none => none

def kvNat (ts : List String) (k : String) : Option Nat := (kv ts k).bind String.toNat?
def kvHex (ts : List String) (k : String) : Option Bytes := (kv ts k).bind fromHex

/-- `nil` or hex -/
def optHex (s : String) : Option (Option Bytes) :=
  if s = "nil" then some none else (fromHex s).map some

def optPre (s : String) : Option (Option Rfc.PreCert) :=
  if s = "nil" then some none
  else match s.splitOn ":" with
    | [a, b] => match fromHex a, fromHex b with
      | some a, some b => some (some ⟨a, b⟩)
      | _, _ => none
    | _ => none

structure EntryIn where
  et : Nat
  x509 : Option Bytes
  pre : Option Rfc.PreCert
  json : Option Bytes

def parseEntry (ts : List String) : Option EntryIn := do
  let et ← kvNat ts "et"
  let x ← (kv ts "x509").bind optHex
  let p ← (kv ts "pre").bind optPre
  let j ← (kv ts "json").bind optHex
  pure ⟨et, x, p, j⟩

/-- the entry as the RFC can express it: exactly the body of its type is present -/
def EntryIn.rfc (e : EntryIn) : Option Rfc.SignedEntry :=
  match e.et, e.x509, e.pre, e.json with
  | 0, some c, none, none => some (.x509 c)
  | 1, none, some p, none => some (.precert p)
  | _, _, _, _ => none

/-- what `SerializeSCTSignatureInput` reads: only the body that belongs to the entry type -/
def EntryIn.used (e : EntryIn) : Option Rfc.SignedEntry :=
  match e.et with
  | 0 => e.x509.map .x509
  | 1 => e.pre.map .precert
  | _ => none

def showEntry : Rfc.SignedEntry → String
  | .x509 c => s!"et=0 x509={hexOrDash c} pre=nil json=nil"
  | .precert p => s!"et=1 x509=nil pre={hexOrDash p.issuerKeyHash}:{hexOrDash p.tbsCertificate} json=nil"

def showLeaf (l : Rfc.MerkleTreeLeaf) : String :=
  s!"v={l.version} lt=0 ts={l.entry.timestamp} {showEntry l.entry.entry} ext={hexOrDash l.entry.extensions}"

def showDS (d : Rfc.DigitallySigned) : String := s!"hash={d.hash} sig={d.sigAlg} sigbytes={hexOrDash d.signature}"

def showChain (c : List Bytes) : String := joinSp (s!"n={c.length}" :: c.map hexOrDash)

def parseDS (ts : List String) : Option Rfc.DigitallySigned := do
  pure ⟨← kvNat ts "hash", ← kvNat ts "sig", ← kvHex ts "sigbytes"⟩

/-- the hex tokens after `n=<k>` -/
def parseList (ts : List String) : Option (List Bytes) :=
  match ts.dropWhile (fun t => !("n=".isPrefixOf t)) with
  | _ :: rest => rest.mapM fromHex
  | [] => none

def hexRes (r : Option Bytes) : String :=
  match r with
  | some b => hexOrDash b
  | none => "err"

def decRes {α} (r : Option (α × Bytes)) (sh : α → String) : String :=
  match r with
  | some (x, rest) => s!"ok {sh x} rest={hexOrDash rest}"
  | none => "err"

def asciiOf (b : Bytes) : List Char := b.map fun x => Char.ofNat x.toNat

/-! ### JSON messages (RFC 6962 §4): a value model, a printer in encoding/json's compact form, a small parser -/

inductive JV where
  | num (n : Nat)
  | bytes (b : Bytes)
  | list (bs : List Bytes)
  | entries (es : List (Bytes × Bytes))

def hexList (s : String) : Option (List Bytes) :=
  if s = "" then some [] else (s.splitOn ",").mapM fromHex

def parseJV (s : String) : Option JV :=
  let body := String.ofList (s.toList.drop 1)
  match s.front with
  | 'n' => body.toNat?.map .num
  | 'b' => (fromHex body).map .bytes
  | 'l' => (hexList body).map .list
  | 'e' =>
    if body = "" then some (.entries [])
    else ((body.splitOn ",").mapM fun (p : String) =>
      match p.splitOn ":" with
      | [a, b] => match fromHex a, fromHex b with
        | some a, some b => some (a, b)
        | _, _ => none
      | _ => none).map .entries
  | _ => none

def q (cs : List Char) : String := "\"" ++ String.ofList cs ++ "\""

def renderJV : JV → String
  | .num n => toString n
  | .bytes b => q (Rfc.b64Encode b)
  | .list bs => "[" ++ ",".intercalate (bs.map fun b => q (Rfc.b64Encode b)) ++ "]"
  | .entries es => "[" ++ ",".intercalate (es.map fun (a, b) =>
      "{\"leaf_input\":" ++ q (Rfc.b64Encode a) ++ ",\"extra_data\":" ++ q (Rfc.b64Encode b) ++ "}") ++ "]"

def showJV : JV → String
  | .num n => s!"n{n}"
  | .bytes b => "b" ++ hexOrDash b
  | .list bs => "l" ++ ",".intercalate (bs.map hexOrDash)
  | .entries es => "e" ++ ",".intercalate (es.map fun (a, b) => hexOrDash a ++ ":" ++ hexOrDash b)

def kindOK : Rfc.JKind → JV → Bool
  | .number, .num _ => true
  | .base64, .bytes _ => true
  | .base64List, .list _ => true
  | .entryList, .entries _ => true
  | _, _ => false

/-- the message as JSON text: the RFC's field names in the RFC's order -/
def renderMsg (fields : List (String × Rfc.JKind)) (ts : List String) : Option String := do
  let parts ← fields.mapM fun (n, k) => do
    let v ← (kv ts n).bind parseJV
    if kindOK k v then some ("\"" ++ n ++ "\":" ++ renderJV v) else none
  pure ("{" ++ ",".intercalate parts ++ "}")

/-- JSON values, as far as the messages and the harness' decoys need them (no string escapes, integers only) -/
inductive J where
  | num (n : Nat)
  | str (s : List Char)
  | arr (xs : List J)
  | obj (kvs : List (List Char × J))
  | lit (s : String)

def isWs (c : Char) : Bool := c = ' ' || c = '\n' || c = '\t' || c = '\r'

mutual
partial def pValue : List Char → Option (J × List Char)
  | cs =>
    match cs.dropWhile isWs with
    | '{' :: r => pMembers (r.dropWhile isWs) []
    | '[' :: r => pElems (r.dropWhile isWs) []
    | '"' :: r =>
      let s := r.takeWhile (· ≠ '"')
      if s.contains '\\' then none
      else match r.dropWhile (· ≠ '"') with
        | _ :: r' => some (.str s, r')
        | [] => none
    | 't' :: 'r' :: 'u' :: 'e' :: r => some (.lit "true", r)
    | 'f' :: 'a' :: 'l' :: 's' :: 'e' :: r => some (.lit "false", r)
    | 'n' :: 'u' :: 'l' :: 'l' :: r => some (.lit "null", r)
    | c :: r =>
      if c.isDigit then
        let ds := (c :: r).takeWhile Char.isDigit
        let r' := (c :: r).dropWhile Char.isDigit
        match r' with
        | '.' :: _ => none
        | 'e' :: _ => none
        | 'E' :: _ => none
        | _ => (String.ofList ds).toNat?.map fun n => (.num n, r')
      else none
    | [] => none
partial def pMembers : List Char → List (List Char × J) → Option (J × List Char)
  | '}' :: r, acc => some (.obj acc.reverse, r)
  | cs, acc =>
    match pValue cs with
    | some (.str k, r) =>
      match r.dropWhile isWs with
      | ':' :: r2 =>
        match pValue r2 with
        | some (v, r3) =>
          match r3.dropWhile isWs with
          | ',' :: r4 => pMembers (r4.dropWhile isWs) ((k, v) :: acc)
          | '}' :: r4 => some (.obj ((k, v) :: acc).reverse, r4)
          | _ => none
        | none => none
      | _ => none
    | _ => none
partial def pElems : List Char → List J → Option (J × List Char)
  | ']' :: r, acc => some (.arr acc.reverse, r)
  | cs, acc =>
    match pValue cs with
    | some (v, r) =>
      match r.dropWhile isWs with
      | ',' :: r2 => pElems (r2.dropWhile isWs) (v :: acc)
      | ']' :: r2 => some (.arr (v :: acc).reverse, r2)
      | _ => none
    | none => none
end

def parseJson (cs : List Char) : Option J :=
  match pValue cs with
  | some (v, r) => if (r.dropWhile isWs).isEmpty then some v else none
  | none => none

def jB64 : J → Option Bytes
  | .str s => Rfc.b64Decode s
  | _ => none

/-- one field of a message out of a parsed object; a missing field is the empty / zero value -/
def fieldOf (kvs : List (List Char × J)) (name : String) (k : Rfc.JKind) : Option JV :=
  match kvs.lookup name.toList, k with
  | none, .number => some (.num 0)
  | none, .base64 => some (.bytes [])
  | none, .base64List => some (.list [])
  | none, .entryList => some (.entries [])
  | some (.num n), .number => some (.num n)
  | some v, .base64 => (jB64 v).map .bytes
  | some (.arr xs), .base64List => (xs.mapM jB64).map .list
  | some (.arr xs), .entryList =>
    (xs.mapM fun (x : J) =>
      match x with
      | .obj m =>
        match (m.lookup "leaf_input".toList).map jB64, (m.lookup "extra_data".toList).map jB64 with
        | some (some a), some (some b) => some (a, b)
        | none, some (some b) => some ([], b)
        | some (some a), none => some (a, [])
        | none, none => some ([], [])
        | _, _ => none
      | _ => none).map .entries
  | _, _ => none

def readMsg (fields : List (String × Rfc.JKind)) (text : List Char) : Option String :=
  match parseJson text with
  | some (.obj kvs) => (fields.mapM fun (n, k) => (fieldOf kvs n k).map fun v => n ++ "=" ++ showJV v).map joinSp
  | _ => none

def handle (line : String) : String :=
  let ts := match tokens line with
    | "T" :: rest => rest
    | rest => rest
  match ts with
  | "S" :: "MerkleTreeLeaf" :: f =>
    match parseEntry f, kvNat f "v", kvNat f "lt", kvNat f "ts", kvHex f "ext" with
    | some e, some v, some lt, some t, some ext =>
      match e.rfc with
      | some se => if lt = 0 then hexRes (Rfc.merkleTreeLeaf ⟨v, ⟨t, se, ext⟩⟩) else "err"
      | none => "err"
    | _, _, _, _, _ => "bad-op"
  | "SJ" :: "MerkleTreeLeaf" :: f =>
    match kvNat f "v", kvNat f "ts", kvHex f "data", kvHex f "ext" with
    | some v, some t, some d, some ext =>
      match Tls.enc CtWire.tMerkleTreeLeaf (.struct [.num v, .num 0, .struct [.num t, .num 32768, .absent, .absent, .struct [.bytes d], .bytes ext]]) with
      | .ok bs => hexOrDash bs
      | .error _ => "err"
    | _, _, _, _ => "bad-op"
  | "S" :: "TimestampedEntry" :: f =>
    match parseEntry f, kvNat f "ts", kvHex f "ext" with
    | some e, some t, some ext =>
      match e.rfc with
      | some se => hexRes (Rfc.timestampedEntry ⟨t, se, ext⟩)
      | none => "err"
    | _, _, _ => "bad-op"
  | "S" :: "SCT" :: f =>
    match kvNat f "v", kvHex f "id", kvNat f "ts", kvHex f "ext", parseDS f with
    | some v, some id, some t, some ext, some d => hexRes (Rfc.sct ⟨v, id, t, ext, d⟩)
    | _, _, _, _, _ => "bad-op"
  | "S" :: "DS" :: f =>
    match parseDS f with
    | some d => hexRes (Rfc.digitallySigned d)
    | none => "bad-op"
  | "S" :: "CertChain" :: f =>
    match parseList f with
    | some c => hexRes (Rfc.certChain c)
    | none => "bad-op"
  | "S" :: "PrecertChain" :: f =>
    match kvHex f "pre", parseList f with
    | some p, some c => hexRes (Rfc.precertChainEntry ⟨p, c⟩)
    | _, _ => "bad-op"
  | "S" :: "SCTList" :: f =>
    match parseList f with
    | some c => hexRes (Rfc.sctList c)
    | none => "bad-op"
  | "XD" :: f =>
    match kv f "pre", kvHex f "cert", parseList f with
    | some pre, some cert, some chain =>
      if pre = "1" then hexRes (Rfc.precertChainEntry ⟨cert, chain⟩) else hexRes (Rfc.certChain chain)
    | _, _, _ => "bad-op"
  | "SCTIN" :: f =>
    match parseEntry f, kvNat f "v", kvNat f "ts", kvHex f "ext" with
    | some e, some v, some t, some ext =>
      match e.used with
      | some se => hexRes (Rfc.sctSigInputV1 ⟨v, t, se, ext⟩)
      | none => "err"
    | _, _, _, _ => "bad-op"
  | "STHIN" :: f =>
    match kvNat f "v", kvNat f "ts", kvNat f "size", kvHex f "root" with
    | some v, some t, some n, some h => hexRes (Rfc.sthSigInputV1 ⟨v, t, n, h⟩)
    | _, _, _, _ => "bad-op"
  | ["D", name, h] =>
    match fromHex h with
    | none => "bad-op"
    | some bs =>
      if name = "MerkleTreeLeaf" then
        match Rfc.decMerkleTreeLeaf bs with
        | some r => decRes (some r) showLeaf
        | none =>
          -- not an RFC leaf; the repository's JSON extension (entry type 0x8000) is answered from the regenerated type
          match Tls.dec CtWire.tMerkleTreeLeaf bs with
          | .ok (.struct [.num v, .num 0, .struct [.num t, .num 32768, .absent, .absent, .struct [.bytes d], .bytes ext]], rest) =>
            s!"ok json v={v} ts={t} data={hexOrDash d} ext={hexOrDash ext} rest={hexOrDash rest}"
          | _ => "err"
      else if name = "SCT" then decRes (Rfc.decSct bs) fun s =>
        s!"v={s.version} id={hexOrDash s.logID} ts={s.timestamp} ext={hexOrDash s.extensions} {showDS s.signature}"
      else if name = "DS" then decRes (Rfc.decDigitallySigned bs) showDS
      else if name = "CertChain" then decRes (Rfc.decCertChain bs) showChain
      else if name = "PrecertChain" then decRes (Rfc.decPrecertChainEntry bs) fun e => s!"pre={hexOrDash e.preCertificate} {showChain e.chain}"
      else if name = "SCTList" then decRes (Rfc.decSctList bs) showChain
      else "bad-op"
  | ["CERTSCTS", h] =>
    -- the body of the embedded SCT-list extension: "ok n=k <serialized SCTs>" when it is exactly a list of SCTs
    match (if h = "-" then some [] else fromHex h) with
    | none => "bad-op"
    | some bs =>
      match Rfc.decEmbeddedSctList bs with
      | some scts => "ok " ++ showChain (scts.filterMap Rfc.sct)
      | none => "err"
  | ["LH", l] =>
    match fromHex l with
    | some l => toHex (Sha256.hash (Rfc.leafHashInput l))
    | none => "bad-op"
  | ["LEAF", l, x] =>
    match fromHex l, fromHex x with
    | some l, some x =>
      match Rfc.decLogEntry l x with
      | some (leaf, .x509 chain) =>
        match leaf.entry.entry with
        | .x509 c => s!"ok {showLeaf leaf} cert={hexOrDash c} chain {showChain chain}"
        | _ => "err"
      | some (leaf, .precert e) => s!"ok {showLeaf leaf} cert={hexOrDash e.preCertificate} chain {showChain e.chain}"
      | none => "err"
    | _, _ => "bad-op"
  | "JM" :: msg :: f =>
    match Rfc.apiTable.lookup msg with
    | some fields =>
      match renderMsg fields f with
      | some text => toHex text.toUTF8.toList
      | none => "bad-op"
    | none => "bad-op"
  | ["JU", msg, h] =>
    match Rfc.apiTable.lookup msg, fromHex h with
    | some fields, some bs =>
      match readMsg fields (asciiOf bs) with
      | some s => "ok " ++ s
      | none => "err"
    | _, _ => "bad-op"
  | "DS64" :: f =>
    match parseDS f with
    | some d =>
      match Rfc.digitallySigned d with
      | some bs => toHex (String.ofList (Rfc.b64Encode bs)).toUTF8.toList
      | none => "err"
    | none => "bad-op"
  | ["DS64DEC", h] =>
    match fromHex h with
    | some bs =>
      match (Rfc.b64Decode (asciiOf bs)).bind fun raw => Rfc.complete (Rfc.decDigitallySigned raw) with
      | some d => "ok " ++ showDS d
      | none => "err"
    | none => "bad-op"
  | "TOSCT" :: f =>
    match kvNat f "v", kvHex f "id", kvNat f "ts", kvHex f "ext64", kvHex f "sig" with
    | some v, some id, some t, some e64, some sig =>
      match Rfc.b64Decode (asciiOf e64) with
      | none => "err"
      | some ext =>
        match CtWire.toSCTRfc v id t ext sig with
        | some s => s!"ok v={s.version} id={hexOrDash s.logID} ts={s.timestamp} ext={hexOrDash s.extensions} {showDS s.signature}"
        | none => "err"
    | _, _, _, _, _ => "bad-op"
  | "TOSTH" :: f =>
    match kvNat f "size", kvNat f "ts", kvHex f "root", kvHex f "sig" with
    | some n, some t, some root, some sig =>
      match CtWire.toSTHRfc n t root sig with
      | some s => s!"ok size={s.treeSize} ts={s.timestamp} root={hexOrDash s.rootHash} {showDS s.signature}"
      | none => "err"
    | _, _, _, _ => "bad-op"
  | _ => "bad-op"

def run (_ : List String) : IO UInt32 := do
  mapLines (← IO.getStdin) (← IO.getStdout) handle
  return 0

end CTV.Driver.C04
