import CTV.Basic.Proto
import CTV.Model.X509Wrap
/-! ctvmodel C11: replays the C11 harness lines on the envelope / wrapper model.

```
env <cert|tbs> <hex>            => s|l <rest> R <raw> <tbs> <issuer> <subject> <spki> E<n> (<oid> <crit> <value>)… | fatal
env <crl|csr|spki|pkcs1|pkcs1pub|pkcs8|ec> <hex> => s <rest> | fatal          (strict only)
pc <hex> <inner>                => <obj> <none|nonfatal:n|fatal>    ParseCertificate; inner = ok | nfe<n> | fatal | -
ptbs <hex> <inner>              => …                                ParseTBSCertificate
pcs <k> (<hex> <inner>)*k       => …                                ParseCertificates on the concatenation
crl <hex> <flags|-> <hard>      => …                                ParseCertificateListDER
```
-/
namespace CTV.Driver.C11
open CTV CTV.Proto CTV.Der CTV.Model.X509

def d : Dialect := Dialect.fork

def showOID (a : List Nat) : String := if a.isEmpty then "-" else ".".intercalate (a.map toString)

def innerOf (s : String) : Ret :=
  if s = "ok" then ⟨true, .nil⟩
  else if s.startsWith "nfe" then ⟨true, .nonFatalErrors ((String.ofList (s.toList.drop 3)).toNat?.getD 1)⟩
  else ⟨false, .plain⟩

def showRet (r : Ret) : String :=
  boolStr r.hasObj ++ " " ++
  match r.err with
  | .nil => "none"
  | .nonFatalErrors n => s!"nonfatal:{n}"
  | .errorsPtr fs => if fs.any id then "fatal" else s!"nonfatal:{fs.length}"
  | .plain => "fatal"
  | .nonFatalErrorsPtr _ => "fatal"

def tyOf : String → Option ATy
  | "cert" => some Gen.ty_certificate
  | "tbs" => some Gen.ty_tbsCertificate
  | "crl" => some Gen.ty_CertificateList
  | "csr" => some Gen.ty_certificateRequest
  | "spki" => some Gen.ty_publicKeyInfo
  | "pkcs1" => some Gen.ty_pkcs1PrivateKey
  | "pkcs1pub" => some Gen.ty_pkcs1PublicKey
  | "pkcs8" => some Gen.ty_pkcs8
  | "ec" => some Gen.ty_ecPrivateKey
  | _ => none

def showEnv (kind : String) (v : AVal) : List String :=
  let cert := if kind = "tbs" then certOfTBS v else v
  let rf := rawFields cert
  let es := extensions cert
  ["R", hexOrDash rf.raw, hexOrDash rf.tbs, hexOrDash rf.issuer, hexOrDash rf.subject, hexOrDash rf.spki, s!"E{es.length}"] ++
  es.flatMap fun (o, c, v) => [showOID o, boolStr c, hexOrDash v]

/-- the regenerated tag table agrees with the Lean model of parseFieldParameters -/
def tagsOK : Bool := Gen.x509TagStrings.all fun (s, fp) => parseFieldParameters s == fp

partial def pieces : Nat → List String → Option (List (Bytes × Ret))
  | 0, [] => some []
  | n+1, hx :: ic :: rest =>
    match fromHex hx, pieces n rest with
    | some b, some ps => some ((b, innerOf ic) :: ps)
    | _, _ => none
  | _, _ => none

def handle (line : String) : String :=
  if !tagsOK then "MODEL-GEN-MISMATCH" else
  match tokens line with
  | "T" :: rest => go rest
  | rest => go rest
where go : List String → String
  | ["env", kind, hx] =>
    match tyOf kind, fromHex hx with
    | some t, some bs =>
      if kind = "cert" ∨ kind = "tbs" then
        match strictThenLax d t bs with
        | none => "fatal"
        | some (v, rest, laxed) => joinSp ([if laxed then "l" else "s", hexOrDash rest] ++ showEnv kind v)
      else
        match parseField d .strict t {} bs with
        | .error _ => "fatal"
        | .ok (_, rest) => "s " ++ hexOrDash rest
    | _, _ => "bad-op"
  | ["pc", hx, ic] =>
    match fromHex hx with
    | some bs => showRet (parseCertificate d (fun _ => innerOf ic) bs)
    | none => "bad-op"
  | ["ptbs", hx, ic] =>
    match fromHex hx with
    | some bs => showRet (parseTBSCertificate d (fun _ => innerOf ic) bs)
    | none => "bad-op"
  | "pcs" :: k :: rest =>
    match parseNat? k with
    | none => "bad-op"
    | some k =>
      match pieces k rest with
      | none => "bad-op"
      | some ps =>
        let bs := ps.flatMap (·.1)
        match splitCertificates d Gen.parseCertificatesRetryKeepsInput (bs.length + 1) bs with
        | none => showRet ⟨false, .plain⟩
        | some (certs, nfe) =>
          -- the i-th envelope gets the i-th observed inner result (missing ones count as fatal)
          let rs := (List.range certs.length).map fun i => ((ps.map (·.2))[i]?).getD ⟨false, .plain⟩
          showRet (innerAllR rs nfe)
  | ["isfatal", kind] =>
    let e : Option GoErr :=
      if kind = "nil" then some .nil
      else if kind = "plain" ∨ kind = "asn1" then some .plain
      else match kind.splitOn ":" with
        | ["nfe", n] => n.toNat?.map .nonFatalErrors
        | ["nfeptr", n] => n.toNat?.map .nonFatalErrorsPtr
        | ["errs", fl] => some (.errorsPtr (if fl = "-" then [] else fl.toList.map (· == '1')))
        | _ => none
    match e with
    | some e => boolStr (isFatal e)
    | none => "bad-op"
  | ["crl", hx, flags, hard] =>
    match fromHex hx, parseBool? hard with
    | some bs, some hard =>
      let ev := if flags = "-" then [] else flags.toList.map (· == '1')
      showRet (parseCertificateListDER d (fun _ => (ev, hard)) bs)
    | _, _ => "bad-op"
  | _ => "bad-op"

def run (_ : List String) : IO UInt32 := do
  mapLines (← IO.getStdin) (← IO.getStdout) handle
  return 0

end CTV.Driver.C11
