import CTV.Tls.Codec
/-!
# The struct-tag grammar of `tls/tls.go` (`fieldTagToFieldInfo`) and the resolution of a Go type shape
with its tags to a codec type `Tls.Ty`. Core only.

Tags are `List Char` (`"maxval:255".toList` reduces in the kernel, `String.splitOn` does not).

`parseTag` follows `fieldTagToFieldInfo` clause by clause:

* clauses are split on `,`; a clause that matches no keyword, or whose number does not parse
  (`strconv.ParseUint(_, 10, 64)`; 32 bits for `size:`), is ignored;
* `maxval:N` and `size:S` **replace** whatever was collected so far by `{count := byteCount N}` resp.
  `{count := S}`; `maxlen:N` sets `count := byteCount N` and `maxlen`; `minlen:`, `selector:`, `val:`
  fill their field;
* the final checks on the collected info (`1 ≤ count ≤ 8`, `minlen ≤ maxlen`, `val = 0`, and when they apply) are
  the regenerated kernel `Gen.tagFinalChecks`; a field without any recognised clause gets an info holding only
  its name; the top-level call (`name = ""`) gets none at all.

`byteCount` is the regenerated kernel `Gen.byteCount`.
-/

namespace Tls
open CTV

structure FieldInfo where
  count : Nat := 0
  countSet : Bool := false
  minlen : Nat := 0
  maxlen : Nat := 0
  selector : String := ""
  val : Nat := 0
  name : String := ""
deriving Repr, DecidableEq, Inhabited

def FieldInfo.toInfo (f : FieldInfo) : Info := ⟨f.count, f.minlen, f.maxlen, f.countSet⟩

/-- `strings.Split(s, ",")` for a one-character separator: always at least one part. -/
def splitOn (c : Char) : List Char → List (List Char)
  | [] => [[]]
  | x :: xs =>
    if x = c then [] :: splitOn c xs
    else
      match splitOn c xs with
      | p :: ps => (x :: p) :: ps
      | [] => [[x]]

/-- `strings.HasPrefix(s, p)` together with `s[len(p):]`. -/
def stripPrefix : List Char → List Char → Option (List Char)
  | [], s => some s
  | _ :: _, [] => none
  | p :: ps, x :: xs => if p = x then stripPrefix ps xs else none

def digitVal (c : Char) : Option Nat :=
  if '0' ≤ c ∧ c ≤ '9' then some (c.toNat - 48) else none

def parseDigits : List Char → Nat → Option Nat
  | [], acc => some acc
  | c :: cs, acc =>
    match digitVal c with
    | some d => parseDigits cs (acc * 10 + d)
    | none => none

/-- `strconv.ParseUint(s, 10, bits)` (`none` = it returned an error): non-empty, decimal digits only
(no sign, no underscores in base 10), value below `2^bits`. -/
def parseUint (bits : Nat) (s : List Char) : Option Nat :=
  match s with
  | [] => none
  | _ :: _ =>
    match parseDigits s 0 with
    | some v => if v < 2 ^ bits then some v else none
    | none => none

def byteCount (v : Nat) : Nat := (Gen.byteCount (Int.ofNat v)).toNat

/-- One clause of the tag (one iteration of the `for … range strings.Split` loop). -/
def tagClause (info : Option FieldInfo) (part : List Char) : Option FieldInfo :=
  match stripPrefix "maxval:".toList part with
  | some r =>
    match parseUint 64 r with
    | some v => some { count := byteCount v, countSet := true }
    | none => info
  | none =>
  match stripPrefix "size:".toList part with
  | some r =>
    match parseUint 32 r with
    | some sz => some { count := sz, countSet := true }
    | none => info
  | none =>
  match stripPrefix "maxlen:".toList part with
  | some r =>
    match parseUint 64 r with
    | some v => some { info.getD {} with count := byteCount v, countSet := true, maxlen := v }
    | none => info
  | none =>
  match stripPrefix "minlen:".toList part with
  | some r =>
    match parseUint 64 r with
    | some v => some { info.getD {} with minlen := v }
    | none => info
  | none =>
  match stripPrefix "selector:".toList part with
  | some r => some { info.getD {} with selector := String.ofList r }
  | none =>
  match stripPrefix "val:".toList part with
  | some r =>
    match parseUint 64 r with
    | some v => some { info.getD {} with val := v }
    | none => info
  | none => info

/-- The checks after the loop: the regenerated kernel `Gen.tagFinalChecks` (body of `if info != nil { … }`). -/
def tagFinish (info : Option FieldInfo) (name : String) : Except Err (Option FieldInfo) :=
  match info with
  | some i =>
    let i := { i with name := name }
    if Gen.tagFinalChecks (decide (i.selector = "")) i.countSet (Int.ofNat i.count) (Int.ofNat i.minlen) (Int.ofNat i.maxlen)
        (Int.ofNat i.val) then .ok (some i)
    else .error .structural
  | none => if name ≠ "" then .ok (some { name := name }) else .ok none

/-- `fieldTagToFieldInfo(str, name)`. -/
def parseTag (str : List Char) (name : String) : Except Err (Option FieldInfo) :=
  tagFinish ((splitOn ',' str).foldl tagClause none) name

/-! ## Go type shapes and their resolution -/

mutual
/-- The shape of a Go type as `reflect` sees it. `named t` is a defined type whose underlying type is `t`
(same kind, different identity); `u24` is `tls.Uint24` itself. -/
inductive GoTy where
  | u8 | u16 | u24 | u32 | u64
  | named (t : GoTy)
  | slice (e : GoTy)
  | array (n : Nat) (e : GoTy)
  | ptr (e : GoTy)
  | struct (fs : GoFields)
inductive GoFields where
  | nil
  | cons (name : String) (tag : List Char) (t : GoTy) (rest : GoFields)
  /-- an unexported or blank (`_`) field: readable through reflection, not settable -/
  | consRO (name : String) (tag : List Char) (t : GoTy) (rest : GoFields)
end

/-- `t.Kind() == reflect.Uint8` -/
def GoTy.isU8 : GoTy → Bool
  | .u8 => true
  | .named t => t.isU8
  | _ => false

mutual
/-- The codec type that `parseField`/`marshalField` see for a Go value of shape `g` reached with field
info `info` (`none` = nil: top level without parameters, or a vector element).
`nm` = the type is a defined (named) type, which matters for the five fixed-width integers only:
they are recognised by type identity. -/
def resolve (nm : Bool) : GoTy → Option FieldInfo → Ty
  | .u8, _ => if nm then .bad else .uint 1
  | .u16, _ => if nm then .bad else .uint 2
  | .u24, _ => if nm then .bad else .uint 3
  | .u32, _ => if nm then .bad else .uint 4
  | .u64, info =>
    if nm then
      match info with
      | some i => .enum i.toInfo
      | none => .bad
    else .uint 8
  | .named t, info => resolve true t info
  | .slice e, info =>
    match info with
    | none => .bad
    | some i => if e.isU8 then .bytes i.toInfo else .vec i.toInfo (resolve false e none)
  | .array n e, _ => if e.isU8 then .arr n else .bad
  | .ptr _, _ => .bad
  | .struct fs, _ => .struct (resolveFields fs)
def resolveFields : GoFields → Fields
  | .nil => .nil
  | .cons name tag t rest =>
    match parseTag tag name with
    | .error _ => .plain name .bad (resolveFields rest)
    | .ok none => .plain name (resolve false t none) (resolveFields rest)
    | .ok (some i) =>
      if i.selector = "" then .plain name (resolve false t (some i)) (resolveFields rest)
      else
        match t with
        | .ptr e => .variant name i.selector i.val (resolve false e (some i)) (resolveFields rest)
        | .named (.ptr e) => .variant name i.selector i.val (resolve false e (some i)) (resolveFields rest)  -- `type P *T`: Kind() is Ptr
        | _ => .plain name .bad (resolveFields rest)
  | .consRO name tag t rest =>
    -- Marshal reads the field like any other; Unmarshal cannot set it. (A read-only *variant* is not modelled: refused.)
    match parseTag tag name with
    | .error _ => .plain name .bad (resolveFields rest)
    | .ok none => .plain name (.ro (resolve false t none)) (resolveFields rest)
    | .ok (some i) =>
      if i.selector = "" then .plain name (.ro (resolve false t (some i))) (resolveFields rest)
      else .plain name .bad (resolveFields rest)
end

/-- `tls.MarshalWithParams(v, params)` / `tls.UnmarshalWithParams(b, &v, params)`: the parameter string is one more tag. -/
def resolveTop (g : GoTy) (params : List Char) : Except Err Ty :=
  match parseTag params "" with
  | .error e => .error e
  | .ok info => .ok (resolve false g info)

/-- `tls.UnmarshalWithParams(b, &v, params)`: the parameter tag first, then `parseField` on the whole value. -/
def unmarshalWithParams (g : GoTy) (params : List Char) (bs : Bytes) : Except Err (Val × Bytes) :=
  match resolveTop g params with
  | .error e => .error e
  | .ok t => dec t bs

/-- `tls.MarshalWithParams(v, params)`. -/
def marshalWithParams (g : GoTy) (params : List Char) (v : Val) : Except Err Bytes :=
  match resolveTop g params with
  | .error e => .error e
  | .ok t => enc t v

end Tls

deriving instance DecidableEq for Tls.GoTy, Tls.GoFields
