import CTV.Basic.Bytes
import CTV.Gen.Tls
/-!
# The TLS presentation codec of `tls/tls.go` (RFC 5246 §4) as an executable model. Core only.

`Ty` is the universe of Go type shapes that `tls.Marshal` / `tls.Unmarshal` walk by reflection,
*after* the struct tags have been resolved (`CTV.Tls.Tag` models the tag grammar and the resolution):

* `uint w`      – the five fixed-width integers `uint8, uint16, tls.Uint24, uint32, uint64` (w = 1,2,3,4,8)
* `enum i`      – any other value of kind `uint64` (`tls.Enum` and aliases); width and bounds from the tag
* `arr n`       – `[n]byte`
* `bytes i`     – `[]byte` with a length prefix described by the tag
* `vec i e`     – `[]E` for any other element type; elements are coded with *no* field info
* `struct fs`   – a struct; a field is either plain or a variant (`*T` with `selector:S,val:V`)
* `bad`         – every shape the codec refuses in both directions whatever the data
                  (pointer that is not a variant, non-byte array, enum / slice without field info, …)
* `ro t`        – an unexported or blank struct field of shape `t`: `Marshal` reads it, `Unmarshal` cannot set it

`enc` mirrors `marshalField`, `dec` mirrors `parseField`, including the bookkeeping for variants
(`enums`, `selectorSeen`: "selector not seen", "unchosen field is non-nil", "chosen field is nil",
"duplicate selector value", "unhandled value for selector") and the `fieldInfo.check` quirk that
`minlen`/`maxlen` are enforced only when `maxlen ≠ 0`.  The range test itself is **not** hand-written:
`Info.check` calls the kernel `Gen.fieldInfoCheck`, regenerated from `tls/tls.go` on every run.

The element loop of `vec` runs on fuel (`body.length + 1`, always enough because every iteration must
consume at least one byte) and reports *no progress* as its own outcome: the Go loop would spin.
-/

namespace Tls
open CTV

inductive Err where
  | truncated | range | structural | trailing | unsupported | noProgress | outOfFuel
deriving Repr, DecidableEq, Inhabited

/-- What a resolved tag says about a length prefix or an enum: `count` bytes on the wire,
`minlen ≤ · ≤ maxlen` (only enforced when `maxlen ≠ 0`), and Go's `countSet` flag
(`false` for a field that carries no size clause at all). -/
structure Info where
  count : Nat
  minlen : Nat := 0
  maxlen : Nat := 0
  countSet : Bool := true
deriving Repr, DecidableEq, Inhabited

/-- `fieldInfo.check` on a `uint64` value: the regenerated kernel, guarded by the Go type's own range. -/
def Info.check (i : Info) (v : Nat) : Bool :=
  decide (v < 2 ^ 64) && Gen.fieldInfoCheck (Int.ofNat i.count) (Int.ofNat i.minlen) (Int.ofNat i.maxlen) (Int.ofNat v)

mutual
inductive Ty where
  | uint (w : Nat)
  | enum (i : Info)
  | arr (n : Nat)
  | bytes (i : Info)
  | vec (i : Info) (e : Ty)
  | struct (fs : Fields)
  | bad
  /-- a field reflection can read but not set (unexported or blank `_` struct field): encodes like `t`, never decodes -/
  | ro (t : Ty)
inductive Fields where
  | nil
  | plain (name : String) (t : Ty) (rest : Fields)
  | variant (name : String) (sel : String) (val : Nat) (t : Ty) (rest : Fields)
end

deriving instance DecidableEq for Ty, Fields

/-- Values. `absent` is the nil pointer of an unchosen variant field. A struct value lists one value
per field, in field order. -/
inductive Val where
  | num (n : Nat)
  | bytes (b : Bytes)
  | list (vs : List Val)
  | struct (vs : List Val)
  | absent
deriving Repr, Inhabited

/-- Go: `structType.Field(i).Type.Kind() == reflect.Uint64` – plain `uint64` and every enum. -/
def Ty.isSel : Ty → Bool
  | .uint w => w == 8
  | .enum _ => true
  | .ro t => t.isSel
  | _ => false

abbrev Env := List (String × Nat)

/-- `enums[name] = v.Field(i).Uint()` after a plain field of kind `uint64` has been coded. -/
def envPush (env : Env) (name : String) (t : Ty) (v : Val) : Env :=
  if t.isSel then
    match v with
    | .num n => (name, n) :: env
    | _ => env
  else env

/-- The final loop over `selectorSeen`: every selector that a variant mentioned must have found a taker. -/
def allTaken (men tak : List String) : Bool := men.all (fun s => tak.contains s)

/-! ## Encoding (`marshalField`) -/

/-- Elements of a vector, each coded by `f`, concatenated. -/
def encListWith (f : Val → Except Err Bytes) : List Val → Except Err Bytes
  | [] => .ok []
  | v :: vs =>
    match f v with
    | .error e => .error e
    | .ok x =>
      match encListWith f vs with
      | .error e => .error e
      | .ok y => .ok (x ++ y)

/-- A length-prefixed body: `check` the length, then `count` big-endian bytes of it, then the body. -/
def encPrefixed (i : Info) (body : Bytes) : Except Err Bytes :=
  if i.check body.length then .ok (beEnc i.count body.length ++ body) else .error .range

mutual
def enc : Ty → Val → Except Err Bytes
  | .uint w, v =>
    match v with
    | .num n => if n < 256 ^ w then .ok (beEnc w n) else .error .range
    | _ => .error .structural
  | .enum i, v =>
    match v with
    | .num n => if i.check n then .ok (beEnc i.count n) else .error .range
    | _ => .error .structural
  | .arr k, v =>
    match v with
    | .bytes b => if b.length = k then .ok b else .error .structural
    | _ => .error .structural
  | .bytes i, v =>
    match v with
    | .bytes b => encPrefixed i b
    | _ => .error .structural
  | .vec i e, v =>
    match v with
    | .list vs =>
      match encListWith (enc e) vs with
      | .error err => .error err
      | .ok body => encPrefixed i body
    | _ => .error .structural
  | .struct fs, v =>
    match v with
    | .struct vs => encFields [] [] [] fs vs
    | _ => .error .structural
  | .bad, _ => .error .unsupported
  | .ro t, v => enc t v
/-- `env` = `enums`, `men` = selectors mentioned so far, `tak` = selectors whose value found its field. -/
def encFields (env : Env) (men tak : List String) : Fields → List Val → Except Err Bytes
  | .nil, vs =>
    match vs with
    | [] => if allTaken men tak then .ok [] else .error .range
    | _ :: _ => .error .structural
  | .plain name t rest, vs =>
    match vs with
    | [] => .error .structural
    | v :: vs =>
      match enc t v with
      | .error e => .error e
      | .ok x =>
        match encFields (envPush env name t v) men tak rest vs with
        | .error e => .error e
        | .ok y => .ok (x ++ y)
  | .variant _ sel val t rest, vs =>
    match vs with
    | [] => .error .structural
    | v :: vs =>
      match env.lookup sel with
      | none => .error .structural                      -- selector not seen
      | some choice =>
        if choice ≠ val then
          match v with
          | .absent => encFields env (sel :: men) tak rest vs
          | _ => .error .structural                      -- unchosen field is non-nil
        else if tak.contains sel then .error .structural  -- duplicate selector value
        else
          match v with
          | .absent => .error .structural                -- chosen field is nil
          | v =>
            match enc t v with
            | .error e => .error e
            | .ok x =>
              match encFields env (sel :: men) (sel :: tak) rest vs with
              | .error e => .error e
              | .ok y => .ok (x ++ y)
end

/-! ## Decoding (`parseField`) -/

/-- `readVarUint`: `count` big-endian bytes, then `check`.
For `count > 8` Go's accumulator `result << 8` wraps modulo 2^64 where this model keeps the full number (and `check` then
refuses it because of its `v < 2^64` guard).  No tag yields such a width once the 1…8 test applies to every sized info
(finding F14, `C09TagWidth.tag_width`); until then the difference is confined to `size:9,selector:…` shapes, where
`Marshal` panics anyway. -/
def readVar (i : Info) (bs : Bytes) : Except Err (Nat × Bytes) :=
  if !i.countSet then .error .structural
  else if bs.length < i.count then .error .truncated
  else
    let n := beDec (bs.take i.count)
    if i.check n then .ok (n, bs.drop i.count) else .error .range

/-- A length prefix and the body it announces (`truncated` when the input is shorter). -/
def readPrefixed (i : Info) (bs : Bytes) : Except Err (Bytes × Bytes) :=
  match readVar i bs with
  | .error e => .error e
  | .ok (n, rest) => if n ≤ rest.length then .ok (rest.take n, rest.drop n) else .error .truncated

/-- The element loop of a vector: decode elements with `f` until the body is used up.
An iteration that consumes nothing is reported as `noProgress` (the Go loop never ends). -/
def decListWith (f : Bytes → Except Err (Val × Bytes)) : Nat → Bytes → Except Err (List Val)
  | _, [] => .ok []
  | 0, _ :: _ => .error .outOfFuel
  | fuel + 1, b :: bs =>
    match f (b :: bs) with
    | .error e => .error e
    | .ok (v, rest) =>
      if rest.length < (b :: bs).length then
        match decListWith f fuel rest with
        | .error e => .error e
        | .ok vs => .ok (v :: vs)
      else .error .noProgress

mutual
def dec : Ty → Bytes → Except Err (Val × Bytes)
  | .uint w, bs => if w ≤ bs.length then .ok (.num (beDec (bs.take w)), bs.drop w) else .error .truncated
  | .enum i, bs =>
    match readVar i bs with
    | .error e => .error e
    | .ok (n, rest) => .ok (.num n, rest)
  | .arr k, bs => if k ≤ bs.length then .ok (.bytes (bs.take k), bs.drop k) else .error .truncated
  | .bytes i, bs =>
    match readPrefixed i bs with
    | .error e => .error e
    | .ok (body, rest) => .ok (.bytes body, rest)
  | .vec i e, bs =>
    match readPrefixed i bs with
    | .error err => .error err
    | .ok (body, rest) =>
      match decListWith (dec e) (body.length + 1) body with
      | .error err => .error err
      | .ok vs => .ok (.list vs, rest)
  | .struct fs, bs =>
    match decFields [] [] [] fs bs with
    | .error e => .error e
    | .ok (vs, rest) => .ok (.struct vs, rest)
  | .bad, _ => .error .unsupported
  | .ro _, _ => .error .structural
def decFields (env : Env) (men tak : List String) : Fields → Bytes → Except Err (List Val × Bytes)
  | .nil, bs => if allTaken men tak then .ok ([], bs) else .error .range
  | .plain name t rest, bs =>
    match dec t bs with
    | .error e => .error e
    | .ok (v, bs1) =>
      match decFields (envPush env name t v) men tak rest bs1 with
      | .error e => .error e
      | .ok (vs, bs2) => .ok (v :: vs, bs2)
  | .variant _ sel val t rest, bs =>
    match env.lookup sel with
    | none => .error .structural
    | some choice =>
      if choice ≠ val then
        match decFields env (sel :: men) tak rest bs with
        | .error e => .error e
        | .ok (vs, bs2) => .ok (.absent :: vs, bs2)
      else if tak.contains sel then .error .structural
      else
        match dec t bs with
        | .error e => .error e
        | .ok (v, bs1) =>
          match decFields env (sel :: men) (sel :: tak) rest bs1 with
          | .error e => .error e
          | .ok (vs, bs2) => .ok (v :: vs, bs2)
end

/-- `tls.Unmarshal` where the API promises a complete parse: trailing bytes are an error. -/
def decAll (t : Ty) (bs : Bytes) : Except Err Val :=
  match dec t bs with
  | .error e => .error e
  | .ok (v, []) => .ok v
  | .ok (_, _ :: _) => .error .trailing

/-! ## Well-formedness of a type shape (the hypothesis of `dec_enc`) -/

/-- Width/bounds of a tag that the codec can honour in both directions: `size`/`maxval`/`maxlen` present, 1…8 bytes. -/
def Info.wf (i : Info) : Bool := i.countSet && decide (1 ≤ i.count) && decide (i.count ≤ 8)

mutual
/-- Every value of the type occupies at least one byte (so a vector loop over it makes progress). -/
def Ty.pos : Ty → Bool
  | .uint w => decide (0 < w)
  | .enum i => decide (0 < i.count)
  | .arr k => decide (0 < k)
  | .bytes i => decide (0 < i.count)
  | .vec i _ => decide (0 < i.count)
  | .struct fs => fs.pos
  | .bad => false
  | .ro t => t.pos
def Fields.pos : Fields → Bool
  | .nil => false
  | .plain _ t rest => t.pos || rest.pos
  | .variant _ _ _ _ rest => rest.pos
end

mutual
def Ty.wf : Ty → Bool
  | .uint _ => true
  | .enum i => i.wf
  | .arr _ => true
  | .bytes i => i.wf
  | .vec i e => i.wf && e.wf && e.pos
  | .struct fs => fs.wf
  | .bad => false
  | .ro _ => false
def Fields.wf : Fields → Bool
  | .nil => true
  | .plain _ t rest => t.wf && rest.wf
  | .variant _ _ _ t rest => t.wf && rest.wf
end

/-! ## Allocation measures (for `no_overalloc`) -/

mutual
/-- Total number of slice elements a value holds (what `reflect.MakeSlice`/`Append` had to provide). -/
def Val.cells : Val → Nat
  | .num _ => 0
  | .bytes _ => 0
  | .list vs => vs.length + Val.cellsL vs
  | .struct vs => Val.cellsL vs
  | .absent => 0
def Val.cellsL : List Val → Nat
  | [] => 0
  | v :: vs => v.cells + Val.cellsL vs
end

mutual
/-- Total number of payload bytes copied into byte slices and arrays. -/
def Val.payload : Val → Nat
  | .num _ => 0
  | .bytes b => b.length
  | .list vs => Val.payloadL vs
  | .struct vs => Val.payloadL vs
  | .absent => 0
def Val.payloadL : List Val → Nat
  | [] => 0
  | v :: vs => v.payload + Val.payloadL vs
end

end Tls

/-- `DecidableEq` for results, so that closed examples can be checked with `decide`. -/
instance Tls.decEqExcept {ε α : Type} [DecidableEq ε] [DecidableEq α] : DecidableEq (Except ε α)
  | .ok a, .ok b => if h : a = b then isTrue (h ▸ rfl) else isFalse (fun h' => h (Except.ok.inj h'))
  | .error a, .error b => if h : a = b then isTrue (h ▸ rfl) else isFalse (fun h' => h (Except.error.inj h'))
  | .ok _, .error _ => isFalse (fun h => nomatch h)
  | .error _, .ok _ => isFalse (fun h => nomatch h)
