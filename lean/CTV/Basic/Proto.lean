import CTV.Basic.Bytes
/-! Line-protocol helpers for the model driver (core only). -/
namespace CTV.Proto

def tokens (line : String) : List String :=
  (line.splitOn " ").filter (· ≠ "")

/-- The part of a line before ` =>` (the implementation's answer follows it and is ignored by the model). -/
def request (line : String) : String :=
  match line.splitOn " =>" with
  | a :: _ => a
  | [] => line

def parseInt? (s : String) : Option Int := s.toInt?
def parseNat? (s : String) : Option Nat := s.toNat?

def boolStr (b : Bool) : String := if b then "1" else "0"
def parseBool? (s : String) : Option Bool :=
  if s = "1" ∨ s = "true" then some true else if s = "0" ∨ s = "false" then some false else none

def joinSp (l : List String) : String := " ".intercalate l

/-- Run a pure per-line handler over stdin; every input line yields exactly one output line. -/
partial def mapLines (h : IO.FS.Stream) (out : IO.FS.Stream) (f : String → String) : IO Unit := do
  let line ← h.getLine
  if line.isEmpty then return ()
  let l := (line.dropRightWhile (fun c => c = (Char.ofNat 10) || c = (Char.ofNat 13)))
  out.putStrLn (f l)
  mapLines h out f

/-- Stateful variant. -/
partial def foldLines {σ} (h : IO.FS.Stream) (out : IO.FS.Stream) (f : σ → String → σ × String) (s : σ) : IO Unit := do
  let line ← h.getLine
  if line.isEmpty then return ()
  let l := (line.dropRightWhile (fun c => c = (Char.ofNat 10) || c = (Char.ofNat 13)))
  let (s', o) := f s l
  out.putStrLn o
  foldLines h out f s'

end CTV.Proto
