/-! Bitwise operations on the `Int` images of Go's fixed-width integers (core only). -/
namespace I64

/-- Go's `a & b` for non-negative operands (bit masks such as `x509.KeyUsage`). -/
def land (a b : Int) : Int := Int.ofNat (Nat.land a.toNat b.toNat)

end I64
