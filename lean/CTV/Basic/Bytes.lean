/-! Byte strings, big-endian integers, hex. Core only. -/
namespace CTV

abbrev Bytes := List UInt8

def beEnc : Nat → Nat → Bytes
  | 0, _ => []
  | w+1, n => beEnc w (n / 256) ++ [UInt8.ofNat (n % 256)]

def beDec (bs : Bytes) : Nat := bs.foldl (fun acc b => acc * 256 + b.toNat) 0

theorem beEnc_length (w n : Nat) : (beEnc w n).length = w := by
  induction w generalizing n with
  | zero => rfl
  | succ w ih => simp [beEnc, ih]

theorem beDec_append_single (bs : Bytes) (b : UInt8) : beDec (bs ++ [b]) = beDec bs * 256 + b.toNat := by
  simp [beDec, List.foldl_append]

theorem beDec_beEnc (w n : Nat) (h : n < 256 ^ w) : beDec (beEnc w n) = n := by
  induction w generalizing n with
  | zero => simp [beEnc, beDec] at *; exact h.symm
  | succ w ih =>
    simp only [beEnc, beDec_append_single]
    have h1 : n / 256 < 256 ^ w := by
      rw [Nat.pow_succ] at h
      exact Nat.div_lt_of_lt_mul (by omega)
    rw [ih _ h1]
    have : (UInt8.ofNat (n % 256)).toNat = n % 256 := by simp [UInt8.toNat_ofNat']
    rw [this]; omega

theorem rev_ind {α} {P : List α → Prop} (nil : P []) (snoc : ∀ l a, P l → P (l ++ [a])) : ∀ l, P l := by
  intro l
  rw [← List.reverse_reverse l]
  induction l.reverse with
  | nil => simpa using nil
  | cons a t ih => simp only [List.reverse_cons]; exact snoc _ _ ih

theorem beDec_lt (bs : Bytes) : beDec bs < 256 ^ bs.length := by
  induction bs using rev_ind with
  | nil => simp [beDec]
  | snoc bs b ih =>
    rw [beDec_append_single]
    simp only [List.length_append, List.length_singleton, Nat.pow_succ]
    have : b.toNat < 256 := b.toNat_lt
    omega

theorem beEnc_beDec (bs : Bytes) : beEnc bs.length (beDec bs) = bs := by
  induction bs using rev_ind with
  | nil => simp [beEnc]
  | snoc bs b ih =>
    rw [beDec_append_single]
    simp only [List.length_append, List.length_singleton, beEnc]
    have hb : b.toNat < 256 := b.toNat_lt
    have h1 : (beDec bs * 256 + b.toNat) / 256 = beDec bs := by omega
    have h2 : (beDec bs * 256 + b.toNat) % 256 = b.toNat := by omega
    rw [h1, h2, ih]
    simp

theorem take_append_len {α} (a b : List α) (n : Nat) (h : a.length = n) : (a ++ b).take n = a := by
  subst h; simp
theorem drop_append_len {α} (a b : List α) (n : Nat) (h : a.length = n) : (a ++ b).drop n = b := by
  subst h; simp
theorem take_len {α} (l : List α) (n : Nat) (h : n ≤ l.length) : (l.take n).length = n := by
  simp; omega

/-! ### hex -/

def hexDigit (n : Nat) : Char :=
  if n < 10 then Char.ofNat (48 + n) else Char.ofNat (87 + n)

def toHex (bs : Bytes) : String :=
  String.ofList (bs.foldl (fun (acc : Array Char) b =>
    (acc.push (hexDigit (b.toNat / 16))).push (hexDigit (b.toNat % 16))) #[]).toList

def hexVal (c : Char) : Option Nat :=
  if '0' ≤ c ∧ c ≤ '9' then some (c.toNat - 48)
  else if 'a' ≤ c ∧ c ≤ 'f' then some (c.toNat - 87)
  else if 'A' ≤ c ∧ c ≤ 'F' then some (c.toNat - 55)
  else none

def fromHexLoop : List Char → Array UInt8 → Option Bytes
  | [], acc => some acc.toList
  | [_], _ => none
  | a :: b :: rest, acc =>
    match hexVal a, hexVal b with
    | some x, some y => fromHexLoop rest (acc.push (UInt8.ofNat (x * 16 + y)))
    | _, _ => none

def fromHexChars (cs : List Char) : Option Bytes := fromHexLoop cs #[]

/-- `-` denotes the empty byte string in the line protocol. -/
def fromHex (s : String) : Option Bytes :=
  if s = "-" then some [] else fromHexChars s.toList

def hexOrDash (bs : Bytes) : String := if bs.isEmpty then "-" else toHex bs

end CTV
