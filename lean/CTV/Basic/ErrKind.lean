/-!
What a Go function's `error` result is, as far as `toHTTPStatus` can tell: `nil`, the error of the latest failing
call handed on unchanged (`return nil, err`), or an error made on the spot (`fmt.Errorf`, `errors.New`: never a
gRPC status, so `toHTTPStatus` maps it to 500 unless an `ErrorMapper` intervenes).
-/
inductive ErrKind | ok | passthrough | fresh
deriving Repr, DecidableEq
