/-!
Fixed-width integer arithmetic as `Int` with explicit wrap-around, so that Go's
int64 / uint64 overflow behaviour is *in* the regenerated kernels.
-/
namespace I64

def wrap64 (x : Int) : Int := (x + 2^63) % 2^64 - 2^63
def inRange (x : Int) : Prop := -(2^63) ≤ x ∧ x < 2^63

instance (x : Int) : Decidable (inRange x) := by unfold inRange; infer_instance

def add (a b : Int) : Int := wrap64 (a + b)
def sub (a b : Int) : Int := wrap64 (a - b)
def mul (a b : Int) : Int := wrap64 (a * b)
def neg (a : Int) : Int := wrap64 (-a)
/-- Go's `%` on signed integers truncates toward zero. -/
def rem (a b : Int) : Int := Int.tmod a b
/-- Go's `/` on signed integers truncates toward zero (wraps for MinInt64 / -1). -/
def div (a b : Int) : Int := wrap64 (Int.tdiv a b)
/-- `1 << k` at int64 (k is a uint in Go: shifts ≥ 64 give 0). -/
def shl (a : Int) (k : Int) : Int := if k < 0 then 0 else wrap64 (a * 2 ^ k.toNat)

theorem wrap64_id {x : Int} (h : inRange x) : wrap64 x = x := by
  unfold wrap64 inRange at *; omega

theorem wrap64_id' (x : Int) (h1 : -(2^63) ≤ x) (h2 : x < 2^63) : wrap64 x = x :=
  wrap64_id ⟨h1, h2⟩

theorem wrap64_inRange (x : Int) : inRange (wrap64 x) := by
  unfold wrap64 inRange; omega

theorem rem_nonneg {a b : Int} (ha : 0 ≤ a) : rem a b = a % b := by
  unfold rem
  rw [Int.tmod_eq_emod_of_nonneg ha]

theorem rem_bounds (a b : Int) (ha : 0 ≤ a) (hb : 0 < b) : 0 ≤ rem a b ∧ rem a b < b := by
  rw [rem_nonneg ha]
  exact ⟨Int.emod_nonneg _ (by omega), Int.emod_lt_of_pos _ hb⟩

/-- multiplication is computed modulo 2^64: wrapping a factor first changes nothing -/
theorem wrap64_mul_wrap64 (a b : Int) : wrap64 (a * wrap64 b) = wrap64 (a * b) := by
  unfold wrap64
  have h : (b + 2^63) % 2^64 = b + 2^63 - 2^64 * ((b + 2^63) / 2^64) := by
    have := Int.emod_add_mul_ediv (b + 2^63) (2^64)
    omega
  rw [h]
  have e : a * (b + 2 ^ 63 - 2 ^ 64 * ((b + 2 ^ 63) / 2 ^ 64) - 2 ^ 63) + 2 ^ 63
      = (a * b + 2^63) + 2^64 * (-(a * ((b + 2 ^ 63) / 2 ^ 64))) := by
    simp only [Int.mul_sub, Int.mul_add, Int.mul_neg]
    have : a * (2 ^ 64 * ((b + 2 ^ 63) / 2 ^ 64)) = 2 ^ 64 * (a * ((b + 2 ^ 63) / 2 ^ 64)) := by
      rw [← Int.mul_assoc, Int.mul_comm a (2^64), Int.mul_assoc]
    omega
  rw [e, Int.add_mul_emod_self_left]

/-- `x << k` written as a multiplication by a power of two -/
theorem mul_wrap_shl_one (a k : Int) : mul a (wrap64 (shl 1 k)) = shl a k := by
  unfold mul shl
  split
  · simp [wrap64]
  · rw [wrap64_mul_wrap64, wrap64_mul_wrap64, Int.one_mul]
/-- saturation to the int64 range (what `time.Time.Sub`, `time.Until`, `time.Since` do) -/
def sat (x : Int) : Int := if x < -(2^63) then -(2^63) else if x ≥ 2^63 then 2^63 - 1 else x

theorem sat_id {x : Int} (h1 : -(2^63) ≤ x) (h2 : x < 2^63) : sat x = x := by
  unfold sat; split
  · omega
  · split <;> omega
theorem sat_bounds (x : Int) : -(2^63) ≤ sat x ∧ sat x < 2^63 := by
  unfold sat; split
  · omega
  · split <;> omega
theorem sat_mono {x y : Int} (h : x ≤ y) : sat x ≤ sat y := by
  unfold sat; repeat' split
  all_goals omega

end I64

/-! Instants (`time.Time`) as unbounded integers of nanoseconds since the Unix epoch: `Add` is exact, `Sub` saturates. -/
namespace T
def add (t d : Int) : Int := t + d
def sub (a b : Int) : Int := I64.sat (a - b)
end T

namespace U64
def wrap (x : Int) : Int := x % 2^64
def inRange (x : Int) : Prop := 0 ≤ x ∧ x < 2^64
def add (a b : Int) : Int := wrap (a + b)
def sub (a b : Int) : Int := wrap (a - b)
def mul (a b : Int) : Int := wrap (a * b)
def div (a b : Int) : Int := a / b
def rem (a b : Int) : Int := a % b
/-- Go: shifting a uint64 left by ≥ 64 gives 0; the result is truncated to 64 bits. -/
def shl (a : Int) (k : Int) : Int := if k < 0 then 0 else wrap (a * 2 ^ k.toNat)
def shr (a : Int) (k : Int) : Int := if k < 0 then 0 else a / 2 ^ k.toNat

theorem wrap_id {x : Int} (h : inRange x) : wrap x = x := by
  unfold wrap inRange at *; omega
theorem wrap_inRange (x : Int) : inRange (wrap x) := by
  unfold wrap inRange; omega
end U64
