import CTV.Basic.Bytes
/-!
# RFC 6962 §3.1–3.5, §4.6 and RFC 5246 §4: the wire structures, transcribed from the RFC text

This file is written from the RFCs and **does not mention** the TLS codec model (`Tls.Ty`, `Tls.enc`, …)
nor anything regenerated from the repository.  `CTV/Props/C04.lean` proves that what the repository's struct
tags make `tls.Marshal` / `tls.Unmarshal` do coincides with these definitions.

Presentation language rules used (RFC 5246):

* §4.4  numbers are big-endian, `uintN` occupies N/8 bytes;
* §4.3  `opaque T[n]` is exactly n bytes; `T v<floor..ceiling>` is a byte length, written in as many bytes
        as are needed to hold `ceiling`, followed by that many bytes of elements; the length must lie in
        `floor..ceiling`;
* §4.5  an `enum { …, (m) }` occupies as many bytes as are needed to hold `m`;
* §4.6.1 `select (e) { case a: T; … }` has an encoding only for the listed cases.

Encoders return `none` when a field value has no encoding (length out of range, number too wide, an enum
value without a `case`).  Decoders return the value and the unread rest.
-/

namespace Rfc
open CTV

/-! ## RFC 5246 §4 building blocks -/

/-- §4.4: an unsigned integer in `w` bytes, big-endian. -/
def uintN (w n : Nat) : Option Bytes := if n < 256 ^ w then some (beEnc w n) else none
def takeUint (w : Nat) (bs : Bytes) : Option (Nat × Bytes) :=
  if w ≤ bs.length then some (beDec (bs.take w), bs.drop w) else none

/-- §4.3: `opaque x[n]`. -/
def opaqueFixed (n : Nat) (b : Bytes) : Option Bytes := if b.length = n then some b else none
def takeFixed (n : Nat) (bs : Bytes) : Option (Bytes × Bytes) :=
  if n ≤ bs.length then some (bs.take n, bs.drop n) else none

/-- §4.3: the number of bytes needed to hold the ceiling of a variable-length vector (ceilings up to 2^32−1). -/
def lenWidth (ceiling : Nat) : Nat :=
  if ceiling < 256 then 1 else if ceiling < 65536 then 2 else if ceiling < 16777216 then 3 else 4

/-- §4.3: `opaque x<floor..ceiling>` — also the frame of every variable-length vector: byte length, then the bytes. -/
def varVector (floor ceiling : Nat) (body : Bytes) : Option Bytes :=
  if floor ≤ body.length ∧ body.length ≤ ceiling then some (beEnc (lenWidth ceiling) body.length ++ body) else none
def takeVarVector (floor ceiling : Nat) (bs : Bytes) : Option (Bytes × Bytes) :=
  match takeUint (lenWidth ceiling) bs with
  | none => none
  | some (n, rest) =>
    if floor ≤ n ∧ n ≤ ceiling then
      if n ≤ rest.length then some (rest.take n, rest.drop n) else none
    else none

/-- the elements of a vector, one after the other -/
def concatAll (enc : α → Option Bytes) : List α → Option Bytes
  | [] => some []
  | x :: xs =>
    match enc x, concatAll enc xs with
    | some a, some b => some (a ++ b)
    | _, _ => none

/-- split the body of a vector into its elements; every element must use up part of the body and nothing may be left over -/
def splitAll (dec : Bytes → Option (α × Bytes)) : Nat → Bytes → Option (List α)
  | _, [] => some []
  | 0, _ :: _ => none
  | fuel + 1, b :: bs =>
    match dec (b :: bs) with
    | none => none
    | some (x, rest) =>
      if rest.length < (b :: bs).length then
        match splitAll dec fuel rest with
        | none => none
        | some xs => some (x :: xs)
      else none

/-! ## RFC 5246 §4.7 / §7.4.1.4.1: DigitallySigned

```
enum { none(0), md5(1), sha1(2), sha224(3), sha256(4), sha384(5), sha512(6), (255) } HashAlgorithm;
enum { anonymous(0), rsa(1), dsa(2), ecdsa(3), (255) } SignatureAlgorithm;
struct { HashAlgorithm hash; SignatureAlgorithm signature; } SignatureAndHashAlgorithm;
struct { SignatureAndHashAlgorithm algorithm; opaque signature<0..2^16-1>; } DigitallySigned;
```
Both enums are one byte wide; which codes a verifier supports is not a matter of the wire format (C05). -/

structure DigitallySigned where
  hash : Nat
  sigAlg : Nat
  signature : Bytes
deriving Repr, DecidableEq

def digitallySigned (d : DigitallySigned) : Option Bytes := do
  let h ← uintN 1 d.hash
  let s ← uintN 1 d.sigAlg
  let sig ← varVector 0 65535 d.signature
  pure (h ++ s ++ sig)

def decDigitallySigned (bs : Bytes) : Option (DigitallySigned × Bytes) := do
  let (h, r1) ← takeUint 1 bs
  let (s, r2) ← takeUint 1 r1
  let (sig, r3) ← takeVarVector 0 65535 r2
  pure (⟨h, s, sig⟩, r3)

/-! ## RFC 6962 §3.1: log entries

```
enum { x509_entry(0), precert_entry(1), (65535) } LogEntryType;
opaque ASN.1Cert<1..2^24-1>;
struct { ASN.1Cert leaf_certificate;  ASN.1Cert certificate_chain<0..2^24-1>; } X509ChainEntry;
struct { ASN.1Cert pre_certificate;   ASN.1Cert precertificate_chain<0..2^24-1>; } PrecertChainEntry;
```
-/

def asn1Cert (c : Bytes) : Option Bytes := varVector 1 16777215 c
def decAsn1Cert (bs : Bytes) : Option (Bytes × Bytes) := takeVarVector 1 16777215 bs

/-- `ASN.1Cert chain<0..2^24-1>` — §4.6: the `extra_data` of an X.509 entry is exactly this `certificate_chain`. -/
def certChain (chain : List Bytes) : Option Bytes := do
  let body ← concatAll asn1Cert chain
  varVector 0 16777215 body

def decCertChain (bs : Bytes) : Option (List Bytes × Bytes) := do
  let (body, rest) ← takeVarVector 0 16777215 bs
  let chain ← splitAll decAsn1Cert (body.length + 1) body
  pure (chain, rest)

structure PrecertChainEntry where
  preCertificate : Bytes
  chain : List Bytes
deriving Repr, DecidableEq

/-- §4.6: the `extra_data` of a precertificate entry is the whole `PrecertChainEntry`. -/
def precertChainEntry (e : PrecertChainEntry) : Option Bytes := do
  let p ← asn1Cert e.preCertificate
  let c ← certChain e.chain
  pure (p ++ c)

def decPrecertChainEntry (bs : Bytes) : Option (PrecertChainEntry × Bytes) := do
  let (p, r1) ← decAsn1Cert bs
  let (c, r2) ← decCertChain r1
  pure (⟨p, c⟩, r2)

/-! ## RFC 6962 §3.2: SignedCertificateTimestamp and the bytes it signs

```
enum { certificate_timestamp(0), tree_hash(1), (255) } SignatureType;
enum { v1(0), (255) } Version;
struct { opaque key_id[32]; } LogID;
opaque TBSCertificate<1..2^24-1>;
struct { opaque issuer_key_hash[32]; TBSCertificate tbs_certificate; } PreCert;
opaque CtExtensions<0..2^16-1>;

struct {
    Version sct_version;
    LogID id;
    uint64 timestamp;
    CtExtensions extensions;
    digitally-signed struct {
        Version sct_version;
        SignatureType signature_type = certificate_timestamp;
        uint64 timestamp;
        LogEntryType entry_type;
        select(entry_type) {
            case x509_entry: ASN.1Cert;
            case precert_entry: PreCert;
        } signed_entry;
        CtExtensions extensions;
    };
} SignedCertificateTimestamp;
```
-/

structure PreCert where
  issuerKeyHash : Bytes
  tbsCertificate : Bytes
deriving Repr, DecidableEq

def preCert (p : PreCert) : Option Bytes := do
  let h ← opaqueFixed 32 p.issuerKeyHash
  let t ← varVector 1 16777215 p.tbsCertificate
  pure (h ++ t)

def decPreCert (bs : Bytes) : Option (PreCert × Bytes) := do
  let (h, r1) ← takeFixed 32 bs
  let (t, r2) ← takeVarVector 1 16777215 r1
  pure (⟨h, t⟩, r2)

/-- `select(entry_type) { case x509_entry: ASN.1Cert; case precert_entry: PreCert; } signed_entry` -/
inductive SignedEntry where
  | x509 (cert : Bytes)
  | precert (p : PreCert)
deriving Repr, DecidableEq

def SignedEntry.entryType : SignedEntry → Nat
  | .x509 _ => 0
  | .precert _ => 1

/-- `LogEntryType entry_type; select(entry_type) {…} signed_entry` -/
def signedEntry (e : SignedEntry) : Option Bytes := do
  let t ← uintN 2 e.entryType
  let body ← match e with
    | .x509 c => asn1Cert c
    | .precert p => preCert p
  pure (t ++ body)

def decSignedEntry (bs : Bytes) : Option (SignedEntry × Bytes) := do
  let (t, r1) ← takeUint 2 bs
  if t = 0 then
    let (c, r2) ← decAsn1Cert r1
    pure (.x509 c, r2)
  else if t = 1 then
    let (p, r2) ← decPreCert r1
    pure (.precert p, r2)
  else none

def ctExtensions (e : Bytes) : Option Bytes := varVector 0 65535 e

structure SCT where
  version : Nat
  logID : Bytes
  timestamp : Nat
  extensions : Bytes
  signature : DigitallySigned
deriving Repr, DecidableEq

def sct (s : SCT) : Option Bytes := do
  let v ← uintN 1 s.version
  let id ← opaqueFixed 32 s.logID
  let ts ← uintN 8 s.timestamp
  let ext ← ctExtensions s.extensions
  let sig ← digitallySigned s.signature
  pure (v ++ id ++ ts ++ ext ++ sig)

def decSct (bs : Bytes) : Option (SCT × Bytes) := do
  let (v, r1) ← takeUint 1 bs
  let (id, r2) ← takeFixed 32 r1
  let (ts, r3) ← takeUint 8 r2
  let (ext, r4) ← takeVarVector 0 65535 r3
  let (sig, r5) ← decDigitallySigned r4
  pure (⟨v, id, ts, ext, sig⟩, r5)

/-- The input of the SCT signature (the `digitally-signed struct` above): `signature_type` is the constant
`certificate_timestamp(0)`. -/
structure SctSigInput where
  version : Nat
  timestamp : Nat
  entry : SignedEntry
  extensions : Bytes
deriving Repr, DecidableEq

def sctSigInput (i : SctSigInput) : Option Bytes := do
  let v ← uintN 1 i.version
  let st ← uintN 1 0
  let ts ← uintN 8 i.timestamp
  let e ← signedEntry i.entry
  let ext ← ctExtensions i.extensions
  pure (v ++ st ++ ts ++ e ++ ext)

/-! ## RFC 6962 §3.3: the SCT list carried in certificates and TLS extensions

```
opaque SerializedSCT<1..2^16-1>;
struct { SerializedSCT sct_list <1..2^16-1>; } SignedCertificateTimestampList;
```
-/

def serializedSCT (s : Bytes) : Option Bytes := varVector 1 65535 s
def decSerializedSCT (bs : Bytes) : Option (Bytes × Bytes) := takeVarVector 1 65535 bs

def sctList (scts : List Bytes) : Option Bytes := do
  let body ← concatAll serializedSCT scts
  varVector 1 65535 body

def decSctList (bs : Bytes) : Option (List Bytes × Bytes) := do
  let (body, rest) ← takeVarVector 1 65535 bs
  let scts ← splitAll decSerializedSCT (body.length + 1) body
  pure (scts, rest)

/-- §3.3, "the contents of the ASN.1 OCTET STRING embedded in the certificate extension": one `SignedCertificateTimestampList` and
nothing after it, each `SerializedSCT` of which is one `SignedCertificateTimestamp` and nothing after it. -/
def wholeSct (b : Bytes) : Option SCT :=
  match decSct b with
  | some (s, []) => some s
  | _ => none

def decEmbeddedSctList (bs : Bytes) : Option (List SCT) :=
  match decSctList bs with
  | some (items, []) => items.mapM wholeSct
  | _ => none

def embeddedSctList (scts : List SCT) : Option Bytes := do
  let items ← scts.mapM sct
  sctList items

/-! ## RFC 6962 §3.4: Merkle tree leaves

```
enum { timestamped_entry(0), (255) } MerkleLeafType;
struct {
    uint64 timestamp;
    LogEntryType entry_type;
    select(entry_type) { case x509_entry: ASN.1Cert; case precert_entry: PreCert; } signed_entry;
    CtExtensions extensions;
} TimestampedEntry;
struct {
    Version version;
    MerkleLeafType leaf_type;
    select (leaf_type) { case timestamped_entry: TimestampedEntry; }
} MerkleTreeLeaf;
```
and §2.1: the hash of a leaf is `SHA-256(0x00 || MerkleTreeLeaf)`. -/

structure TimestampedEntry where
  timestamp : Nat
  entry : SignedEntry
  extensions : Bytes
deriving Repr, DecidableEq

def timestampedEntry (t : TimestampedEntry) : Option Bytes := do
  let ts ← uintN 8 t.timestamp
  let e ← signedEntry t.entry
  let ext ← ctExtensions t.extensions
  pure (ts ++ e ++ ext)

def decTimestampedEntry (bs : Bytes) : Option (TimestampedEntry × Bytes) := do
  let (ts, r1) ← takeUint 8 bs
  let (e, r2) ← decSignedEntry r1
  let (ext, r3) ← takeVarVector 0 65535 r2
  pure (⟨ts, e, ext⟩, r3)

/-- `leaf_type` is not a field: the only `case` is `timestamped_entry(0)`. -/
structure MerkleTreeLeaf where
  version : Nat
  entry : TimestampedEntry
deriving Repr, DecidableEq

def merkleTreeLeaf (l : MerkleTreeLeaf) : Option Bytes := do
  let v ← uintN 1 l.version
  let lt ← uintN 1 0
  let te ← timestampedEntry l.entry
  pure (v ++ lt ++ te)

def decMerkleTreeLeaf (bs : Bytes) : Option (MerkleTreeLeaf × Bytes) := do
  let (v, r1) ← takeUint 1 bs
  let (lt, r2) ← takeUint 1 r1
  if lt = 0 then
    let (te, r3) ← decTimestampedEntry r2
    pure (⟨v, te⟩, r3)
  else none

/-- §2.1: `MTH({d(0)}) = SHA-256(0x00 || d(0))`: the bytes that are hashed for a leaf. -/
def leafHashInput (leaf : Bytes) : Bytes := 0x00 :: leaf
/-- §2.1: interior nodes hash `0x01 || left || right`. -/
def nodeHashInput (l r : Bytes) : Bytes := 0x01 :: (l ++ r)

/-! ## RFC 6962 §3.5: the signed tree head

```
digitally-signed struct {
    Version version;
    SignatureType signature_type = tree_hash;
    uint64 timestamp;
    uint64 tree_size;
    opaque sha256_root_hash[32];
} TreeHeadSignature;
```
-/

structure SthSigInput where
  version : Nat
  timestamp : Nat
  treeSize : Nat
  rootHash : Bytes
deriving Repr, DecidableEq

def sthSigInput (s : SthSigInput) : Option Bytes := do
  let v ← uintN 1 s.version
  let st ← uintN 1 1
  let ts ← uintN 8 s.timestamp
  let n ← uintN 8 s.treeSize
  let h ← opaqueFixed 32 s.rootHash
  pure (v ++ st ++ ts ++ n ++ h)

/-! ## what a client may rely on (§3.2 "v1", §4.6): complete parses and known versions / types

* A signature input exists only for `sct_version = v1(0)` / `version = v1(0)`: other versions define
  other (unknown) signed structures.
* A `leaf_input` of get-entries is a complete `MerkleTreeLeaf`; its `extra_data` is a complete
  `certificate_chain` (x509_entry) or `PrecertChainEntry` (precert_entry). -/

def sctSigInputV1 (i : SctSigInput) : Option Bytes := if i.version = 0 then sctSigInput i else none
def sthSigInputV1 (s : SthSigInput) : Option Bytes := if s.version = 0 then sthSigInput s else none

def complete (r : Option (α × Bytes)) : Option α :=
  match r with
  | some (x, []) => some x
  | _ => none

inductive ExtraData where
  | x509 (chain : List Bytes)
  | precert (e : PrecertChainEntry)
deriving Repr, DecidableEq

/-- §4.6: one get-entries element, both parts parsed completely. -/
def decLogEntry (leafInput extraData : Bytes) : Option (MerkleTreeLeaf × ExtraData) := do
  let leaf ← complete (decMerkleTreeLeaf leafInput)
  match leaf.entry.entry with
  | .x509 _ =>
    let c ← complete (decCertChain extraData)
    pure (leaf, .x509 c)
  | .precert _ =>
    let e ← complete (decPrecertChainEntry extraData)
    pure (leaf, .precert e)

end Rfc
