/-!
# RFC 6962 §2.1 Merkle hash trees over abstract hash functions (core Lean only)

`split`, `mth` (§2.1), `path` (§2.1.1), `consProof` (§2.1.2) transcribed from the RFC text, the
recursive verifiers `rootFromPath` / `rootsFromConsProof`, and the wrappers `verifyInclusion` /
`verifyConsistency` with the edge-case behaviour of `github.com/transparency-dev/merkle/proof`
(which is what the repository calls; the tie is the correspondence run of the C19 check).

Theorems (all for arbitrary `leafH nodeH emptyH`, arbitrary leaf type):
* `path_complete`, `consProof_complete`, `verifyInclusion_complete`, `verifyConsistency_complete`;
* soundness relative to the hypothesis structure `NoCollision` (never an axiom):
  `rootFromPath_sound`, `rootsFromConsProof_sound`, `verifyConsistency_sound`, `mth_inj`,
  `consistent_prefix`; plus the collision-extracting forms `…_or_collision`.
-/
set_option linter.unusedVariables false
set_option linter.unusedSimpArgs false
namespace Merkle

/-! ## the split point: the largest power of two smaller than `n` -/

def splitGo (k n : Nat) : Nat :=
  if h : 0 < k ∧ 2 * k < n then splitGo (2 * k) n else k
termination_by n - k
decreasing_by omega

/-- RFC 6962 §2.1: "k the largest power of two smaller than n". -/
def split (n : Nat) : Nat := splitGo 1 n

theorem splitGo_spec (k n : Nat) (hk : 0 < k) (hkn : k < n) :
    k ≤ splitGo k n ∧ splitGo k n < n ∧ n ≤ 2 * splitGo k n := by
  fun_induction splitGo k n with
  | case1 k h ih => have := ih (by omega) (by omega); omega
  | case2 k h => omega

theorem split_spec {n : Nat} (h : 2 ≤ n) : 0 < split n ∧ split n < n ∧ n ≤ 2 * split n := by
  have := splitGo_spec 1 n (by omega) (by omega)
  unfold split; omega

theorem splitGo_pow2 (k n : Nat) : ∃ a, splitGo k n = k * 2 ^ a := by
  fun_induction splitGo k n with
  | case1 k h ih =>
    obtain ⟨a, ha⟩ := ih
    exact ⟨a + 1, by rw [ha, Nat.pow_succ]; simp [Nat.mul_assoc, Nat.mul_comm]⟩
  | case2 k h => exact ⟨0, by simp⟩

theorem split_pow2 (n : Nat) : ∃ a, split n = 2 ^ a := by
  obtain ⟨a, ha⟩ := splitGo_pow2 1 n
  exact ⟨a, by unfold split; simpa using ha⟩

theorem pow2_lt_double {a b : Nat} (h : 2 ^ a < 2 ^ b) : 2 * 2 ^ a ≤ 2 ^ b := by
  have hab : a < b := by
    rcases Nat.lt_or_ge a b with h' | h'
    · exact h'
    · have := Nat.pow_le_pow_right (show 0 < 2 by omega) h'; omega
  have := Nat.pow_le_pow_right (show 0 < 2 by omega) (show a + 1 ≤ b from hab)
  rw [Nat.pow_succ] at this; omega

/-- The split point is *the* power of two `r` with `r < n ≤ 2r`. -/
theorem split_unique {n a : Nat} (h1 : 2 ^ a < n) (h2 : n ≤ 2 * 2 ^ a) : split n = 2 ^ a := by
  have hn : 2 ≤ n := by have := Nat.one_le_two_pow (n := a); omega
  have hs := split_spec hn
  obtain ⟨b, hb⟩ := split_pow2 n
  rw [hb] at hs ⊢
  rcases Nat.lt_trichotomy (2 ^ b) (2 ^ a) with h | h | h
  · have := pow2_lt_double h; omega
  · exact h
  · have := pow2_lt_double h; omega

/-- `split n < m ≤ n → split m = split n`: the prefix tree of size `m` splits at the same point. -/
theorem split_mid {m n : Nat} (h1 : split n < m) (h2 : m ≤ n) (hn : 2 ≤ n) : split m = split n := by
  have hs := split_spec hn
  obtain ⟨b, hb⟩ := split_pow2 n
  rw [hb] at h1 hs ⊢
  exact split_unique h1 (by omega)

/-! ## tree hash, audit paths, consistency proofs (RFC 6962 §2.1, §2.1.1, §2.1.2) -/

section defs
variable {α Hash : Type} (leafH : α → Hash) (nodeH : Hash → Hash → Hash) (emptyH : Hash)

/-- `MTH(D[n])`. -/
def mth (l : List α) : Hash :=
  if h : l.length < 2 then
    match l with
    | [] => emptyH
    | d :: _ => leafH d
  else
    let k := split l.length
    nodeH (mth (l.take k)) (mth (l.drop k))
termination_by l.length
decreasing_by
  all_goals simp only [List.length_take, List.length_drop]
  · have := @split_spec l.length (by omega); omega
  · have := @split_spec l.length (by omega); omega

/-- `PATH(m, D[n])`, lowest level first. -/
def path (m : Nat) (l : List α) : List Hash :=
  if h : l.length < 2 then [] else
    let k := split l.length
    if m < k then path m (l.take k) ++ [mth leafH nodeH emptyH (l.drop k)]
    else path (m - k) (l.drop k) ++ [mth leafH nodeH emptyH (l.take k)]
termination_by l.length
decreasing_by
  all_goals simp only [List.length_take, List.length_drop]
  · have := @split_spec l.length (by omega); omega
  · have := @split_spec l.length (by omega); omega

/-- `SUBPROOF(m, D[n], b)`, lowest level first. -/
def consSub (m : Nat) (l : List α) (b : Bool) : List Hash :=
  if h : m = l.length ∨ l.length < 2 then
    (if b then [] else [mth leafH nodeH emptyH l])
  else
    let k := split l.length
    if m ≤ k then consSub m (l.take k) b ++ [mth leafH nodeH emptyH (l.drop k)]
    else consSub (m - k) (l.drop k) false ++ [mth leafH nodeH emptyH (l.take k)]
termination_by l.length
decreasing_by
  all_goals simp only [List.length_take, List.length_drop]
  · have := @split_spec l.length (by omega); omega
  · have := @split_spec l.length (by omega); omega

/-- `PROOF(m, D[n]) = SUBPROOF(m, D[n], true)` (meaningful for `0 < m ≤ n`). -/
def consProof (m : Nat) (l : List α) : List Hash := consSub leafH nodeH emptyH m l true

/-- Recursive audit-path verifier: the root that leaf hash `lh` at index `m` of a tree of size `n`
    and the path `p` determine; `none` when index/size/path length do not fit. -/
def rootFromPath (m n : Nat) (lh : Hash) (p : List Hash) : Option Hash :=
  if h : n < 2 then (if p.isEmpty ∧ m = 0 ∧ n = 1 then some lh else none) else
    let k := split n
    match p.getLast? with
    | none => none
    | some sib =>
      if m < k then (rootFromPath m k lh p.dropLast).map (fun r => nodeH r sib)
      else (rootFromPath (m - k) (n - k) lh p.dropLast).map (fun r => nodeH sib r)
termination_by n
decreasing_by
  · have := @split_spec n (by omega); omega
  · have := @split_spec n (by omega); omega

/-- Recursive consistency-proof verifier: the pair (root of the first `m` leaves, root of all `n`)
    that `p` determines; `r1` is the claimed old root, used only where the RFC omits it from the proof
    (`b = true`: the old tree is a complete subtree on the left border). `none` when the shape is wrong. -/
def rootsFromCons (m n : Nat) (b : Bool) (r1 : Hash) (p : List Hash) : Option (Hash × Hash) :=
  if h : m = n ∨ n < 2 then
    (if m = n then
      (if b then (if p.isEmpty then some (r1, r1) else none)
       else (if p.length = 1 then p.head?.map (fun x => (x, x)) else none))
     else none)
  else
    let k := split n
    match p.getLast? with
    | none => none
    | some s =>
      if m ≤ k then (rootsFromCons m k b r1 p.dropLast).map (fun on => (on.1, nodeH on.2 s))
      else (rootsFromCons (m - k) (n - k) false r1 p.dropLast).map (fun on => (nodeH s on.1, nodeH s on.2))
termination_by n
decreasing_by
  · have := @split_spec n (by omega); omega
  · have := @split_spec n (by omega); omega

def rootsFromConsProof (m n : Nat) (r1 : Hash) (p : List Hash) : Option (Hash × Hash) :=
  rootsFromCons nodeH m n true r1 p

variable [DecidableEq Hash]

/-- `proof.VerifyInclusion` (without the leaf-hash length check, which is about byte strings). -/
def verifyInclusion (m n : Nat) (lh : Hash) (p : List Hash) (root : Hash) : Bool :=
  match rootFromPath nodeH m n lh p with
  | some r => r == root
  | none => false

/-- `proof.VerifyConsistency`, including its edge cases: equal sizes need an empty proof and equal
    roots; `m = 0` needs an empty proof and nothing else (the old root is *not* examined). -/
def verifyConsistency (m n : Nat) (p : List Hash) (r1 r2 : Hash) : Bool :=
  if n < m then false
  else if m = n then p.isEmpty && r1 == r2
  else if m = 0 then p.isEmpty
  else match rootsFromConsProof nodeH m n r1 p with
    | some (o, nw) => o == r1 && nw == r2
    | none => false

end defs

/-! ## completeness -/

section complete
variable {α Hash : Type} (leafH : α → Hash) (nodeH : Hash → Hash → Hash) (emptyH : Hash)

theorem mth_nil : mth leafH nodeH emptyH ([] : List α) = emptyH := by
  rw [mth]; simp
theorem mth_single (d : α) : mth leafH nodeH emptyH [d] = leafH d := by
  rw [mth]; simp
theorem mth_node (l : List α) (h : 2 ≤ l.length) :
    mth leafH nodeH emptyH l =
      nodeH (mth leafH nodeH emptyH (l.take (split l.length))) (mth leafH nodeH emptyH (l.drop (split l.length))) := by
  rw [mth]; simp [show ¬ l.length < 2 by omega]

theorem path_complete (n : Nat) : ∀ (l : List α) (m : Nat) (d : α) (_hl : l.length = n)
    (_hd : l[m]? = some d),
    rootFromPath nodeH m l.length (leafH d) (path leafH nodeH emptyH m l) = some (mth leafH nodeH emptyH l) := by
  induction n using Nat.strongRecOn with
  | _ n ih =>
    intro l m d hl hd
    have hm : m < l.length := by
      rcases Nat.lt_or_ge m l.length with h | h
      · exact h
      · simp [List.getElem?_eq_none h] at hd
    by_cases h2 : l.length < 2
    · match l, hm, h2, hd with
      | [d'], hm, _, hd =>
        have : m = 0 := by simp at hm; omega
        subst this
        simp at hd; subst hd
        rw [rootFromPath, path, mth]
        simp
    · have hs := @split_spec l.length (by omega)
      rw [rootFromPath, path, mth]
      simp only [h2, dite_false]
      by_cases hmk : m < split l.length
      · simp only [hmk, if_true, List.getLast?_append, List.getLast?_singleton, List.dropLast_concat,
          Option.some_or]
        have hlen : (l.take (split l.length)).length = split l.length := by simp; omega
        have key := ih (split l.length) (by omega) (l.take (split l.length)) m d hlen
          (by rw [List.getElem?_take]; simp [hmk, hd])
        rw [hlen] at key
        simp [key]
      · simp only [hmk, if_false, List.getLast?_append, List.getLast?_singleton, List.dropLast_concat,
          Option.some_or]
        have hlen : (l.drop (split l.length)).length = l.length - split l.length := by simp
        have key := ih (l.length - split l.length) (by omega) (l.drop (split l.length)) (m - split l.length) d (by omega)
          (by rw [List.getElem?_drop]; rw [← hd]; congr 1; omega)
        rw [hlen] at key
        simp [key]

/-- The old root argument is irrelevant when `b = false`. -/
theorem rootsFromCons_false_irrel (n : Nat) : ∀ (m : Nat) (r r' : Hash) (p : List Hash),
    rootsFromCons nodeH m n false r p = rootsFromCons nodeH m n false r' p := by
  induction n using Nat.strongRecOn with
  | _ n ih =>
    intro m r r' p
    rw [rootsFromCons]
    conv => rhs; rw [rootsFromCons]
    by_cases h : m = n ∨ n < 2
    · simp [h]
    · simp only [h, dite_false]
      have hs := @split_spec n (by omega)
      cases p.getLast? with
      | none => rfl
      | some s =>
        simp only []
        by_cases hmk : m ≤ split n
        · simp only [hmk, if_true]; rw [ih (split n) (by omega) m r r']
        · simp only [hmk, if_false]; rw [ih (n - split n) (by omega) (m - split n) r r']

/-- Completeness of `SUBPROOF`: it makes the recursive verifier return exactly
    `(MTH(D[0:m]), MTH(D[n]))`. -/
theorem consSub_complete (n : Nat) : ∀ (l : List α) (m : Nat) (b : Bool) (r1 : Hash) (_hl : l.length = n)
    (_hm0 : 0 < m) (_hm : m ≤ l.length) (_hr : b = true → r1 = mth leafH nodeH emptyH (l.take m)),
    rootsFromCons nodeH m l.length b r1 (consSub leafH nodeH emptyH m l b)
      = some (mth leafH nodeH emptyH (l.take m), mth leafH nodeH emptyH l) := by
  induction n using Nat.strongRecOn with
  | _ n ih =>
    intro l m b r1 hl hm0 hm hr
    by_cases hmn : m = l.length
    · -- base: the old tree is this whole subtree
      rw [rootsFromCons, consSub]
      have htake : l.take m = l := by rw [hmn]; exact List.take_length
      subst hmn
      cases b with
      | true => simp [hr rfl, htake]
      | false => simp [htake]
    · have h2 : ¬ l.length < 2 := by omega
      have hc : ¬ (m = l.length ∨ l.length < 2) := by omega
      have hs := @split_spec l.length (by omega)
      rw [rootsFromCons, consSub]
      simp only [hc, dite_false]
      by_cases hmk : m ≤ split l.length
      · simp only [hmk, if_true, List.getLast?_append, List.getLast?_singleton, List.dropLast_concat,
          Option.some_or]
        have hlen : (l.take (split l.length)).length = split l.length := by simp; omega
        have htt : (l.take (split l.length)).take m = l.take m := by
          rw [List.take_take]; congr 1; omega
        have key := ih (split l.length) (by omega) (l.take (split l.length)) m b r1 hlen hm0 (by omega)
          (by rw [htt]; exact hr)
        rw [hlen, htt] at key
        rw [key, mth_node leafH nodeH emptyH l (by omega)]
        rfl
      · simp only [hmk, if_false, List.getLast?_append, List.getLast?_singleton, List.dropLast_concat,
          Option.some_or]
        have hlen : (l.drop (split l.length)).length = l.length - split l.length := by simp
        have key := ih (l.length - split l.length) (by omega) (l.drop (split l.length)) (m - split l.length) false
          r1 (by omega) (by omega) (by omega) (by intro h; cases h)
        rw [hlen] at key
        rw [key, mth_node leafH nodeH emptyH l (by omega)]
        -- the prefix tree of size m splits at the same point
        have hlm : (l.take m).length = m := by simp; omega
        have hsm : split m = split l.length := split_mid (by omega) (by omega) (by omega)
        rw [mth_node leafH nodeH emptyH (l.take m) (by omega), hlm, hsm]
        have h1 : (l.take m).take (split l.length) = l.take (split l.length) := by
          rw [List.take_take]; congr 1; omega
        have h2' : (l.take m).drop (split l.length) = (l.drop (split l.length)).take (m - split l.length) := by
          rw [List.drop_take]
        rw [h1, h2']
        rfl

/-- **Consistency-proof completeness** (RFC 6962 §2.1.2): for `0 < m ≤ n`, `PROOF(m, D[n])` makes the
    verifier return the two genuine roots. -/
theorem consProof_complete (l : List α) (m : Nat) (hm0 : 0 < m) (hm : m ≤ l.length) :
    rootsFromConsProof nodeH m l.length (mth leafH nodeH emptyH (l.take m)) (consProof leafH nodeH emptyH m l)
      = some (mth leafH nodeH emptyH (l.take m), mth leafH nodeH emptyH l) :=
  consSub_complete leafH nodeH emptyH l.length l m true _ rfl hm0 hm (fun _ => rfl)

variable [DecidableEq Hash]

theorem verifyInclusion_complete (l : List α) (m : Nat) (d : α) (hd : l[m]? = some d) :
    verifyInclusion nodeH m l.length (leafH d) (path leafH nodeH emptyH m l) (mth leafH nodeH emptyH l) = true := by
  unfold verifyInclusion
  rw [path_complete leafH nodeH emptyH l.length l m d rfl hd]
  simp

/-- The wrapper accepts the RFC proof between any prefix and the whole list (including the edge
    cases `m = n` and `m = 0`, where the proof is empty). -/
theorem verifyConsistency_complete (l : List α) (m : Nat) (hm : m ≤ l.length) :
    verifyConsistency nodeH m l.length
      (if m = 0 ∨ m = l.length then [] else consProof leafH nodeH emptyH m l)
      (mth leafH nodeH emptyH (l.take m)) (mth leafH nodeH emptyH l) = true := by
  unfold verifyConsistency
  by_cases h1 : m = l.length
  · simp [h1]
  · by_cases h0 : m = 0
    · simp [h0]; omega
    · have hlt : ¬ l.length < m := by omega
      simp only [hlt, h1, h0, if_false, or_self]
      rw [consProof_complete leafH nodeH emptyH l m (by omega) hm]
      simp

end complete

/-! ## soundness relative to `NoCollision` -/

section sound
variable {α Hash : Type} (leafH : α → Hash) (nodeH : Hash → Hash → Hash) (emptyH : Hash)

/-- The hashes that occur in the tree over `l`: roots of contiguous segments (a superset of the
    subtree roots, closed under taking prefixes/suffixes, which keeps the statements simple). -/
def Occurs (l : List α) (h : Hash) : Prop :=
  ∃ i j, h = mth leafH nodeH emptyH ((l.drop i).take j)

/-- **Hypothesis structure** (never an axiom): the hash functions have no second preimage *on the
    values that occur in the genuine tree `l`*. The other side of each equation is arbitrary — it is
    what an adversary may put into a proof. -/
structure NoCollision (l : List α) : Prop where
  node_inj : ∀ a b c d : Hash, Occurs leafH nodeH emptyH l (nodeH a b) → nodeH a b = nodeH c d → a = c ∧ b = d
  leaf_inj : ∀ x y : α, Occurs leafH nodeH emptyH l (leafH x) → leafH x = leafH y → x = y

/-- A concrete collision involving a value of the tree over `l` (what the `…_or_collision` forms exhibit). -/
def Collision (l : List α) : Prop :=
  (∃ a b c d : Hash, Occurs leafH nodeH emptyH l (nodeH a b) ∧ nodeH a b = nodeH c d ∧ ¬ (a = c ∧ b = d)) ∨
  (∃ x y : α, Occurs leafH nodeH emptyH l (leafH x) ∧ leafH x = leafH y ∧ x ≠ y)

theorem noCollision_or_collision (l : List α) :
    NoCollision leafH nodeH emptyH l ∨ Collision leafH nodeH emptyH l := by
  by_cases h : Collision leafH nodeH emptyH l
  · exact Or.inr h
  · refine Or.inl ⟨?_, ?_⟩
    · intro a b c d ho he
      apply Classical.byContradiction
      intro hn
      exact h (Or.inl ⟨a, b, c, d, ho, he, hn⟩)
    · intro x y ho he
      apply Classical.byContradiction
      intro hn
      exact h (Or.inr ⟨x, y, ho, he, hn⟩)

theorem occurs_self (l : List α) : Occurs leafH nodeH emptyH l (mth leafH nodeH emptyH l) :=
  ⟨0, l.length, by simp⟩

theorem occurs_take (l : List α) (k : Nat) (h : Hash) (ho : Occurs leafH nodeH emptyH (l.take k) h) :
    Occurs leafH nodeH emptyH l h := by
  obtain ⟨i, j, rfl⟩ := ho
  refine ⟨i, min j (k - i), ?_⟩
  rw [List.drop_take, List.take_take]

theorem occurs_drop (l : List α) (k : Nat) (h : Hash) (ho : Occurs leafH nodeH emptyH (l.drop k) h) :
    Occurs leafH nodeH emptyH l h := by
  obtain ⟨i, j, rfl⟩ := ho
  refine ⟨k + i, j, ?_⟩
  rw [List.drop_drop]

theorem NoCollision.take {l : List α} (nc : NoCollision leafH nodeH emptyH l) (k : Nat) :
    NoCollision leafH nodeH emptyH (l.take k) :=
  ⟨fun a b c d ho => nc.node_inj a b c d (occurs_take leafH nodeH emptyH l k _ ho),
   fun x y ho => nc.leaf_inj x y (occurs_take leafH nodeH emptyH l k _ ho)⟩

theorem NoCollision.drop {l : List α} (nc : NoCollision leafH nodeH emptyH l) (k : Nat) :
    NoCollision leafH nodeH emptyH (l.drop k) :=
  ⟨fun a b c d ho => nc.node_inj a b c d (occurs_drop leafH nodeH emptyH l k _ ho),
   fun x y ho => nc.leaf_inj x y (occurs_drop leafH nodeH emptyH l k _ ho)⟩

/-- Splitting a root that is known to be the genuine root of `l` (`|l| ≥ 2`). -/
theorem node_split {l : List α} (nc : NoCollision leafH nodeH emptyH l) (h2 : 2 ≤ l.length) (c d : Hash)
    (he : nodeH c d = mth leafH nodeH emptyH l) :
    c = mth leafH nodeH emptyH (l.take (split l.length)) ∧ d = mth leafH nodeH emptyH (l.drop (split l.length)) := by
  have hn := mth_node leafH nodeH emptyH l h2
  have ho : Occurs leafH nodeH emptyH l
      (nodeH (mth leafH nodeH emptyH (l.take (split l.length))) (mth leafH nodeH emptyH (l.drop (split l.length)))) := by
    rw [← hn]; exact occurs_self leafH nodeH emptyH l
  have := nc.node_inj _ _ c d ho (by rw [← hn, he])
  exact ⟨this.1.symm, this.2.symm⟩

/-- **Audit-path soundness.** If the verifier reconstructs the genuine root of `l` from a leaf hash
    `lh` at index `m` and *any* path `p`, then — unless a hash of the tree has a second preimage —
    `lh` is the hash of the `m`-th leaf and `p` is the RFC path (audit paths are unique). -/
theorem rootFromPath_sound (n : Nat) : ∀ (l : List α) (m : Nat) (lh : Hash) (p : List Hash) (_hl : l.length = n)
    (_nc : NoCollision leafH nodeH emptyH l)
    (_h : rootFromPath nodeH m l.length lh p = some (mth leafH nodeH emptyH l)),
    (∃ d, l[m]? = some d ∧ lh = leafH d) ∧ p = path leafH nodeH emptyH m l := by
  induction n using Nat.strongRecOn with
  | _ n ih =>
    intro l m lh p hl nc h
    by_cases h2 : l.length < 2
    · rw [rootFromPath] at h
      simp only [h2, dite_true] at h
      by_cases hc : p.isEmpty ∧ m = 0 ∧ l.length = 1
      · simp only [hc, and_self, if_true, Option.some.injEq] at h
        obtain ⟨hp, hm, hl1⟩ := hc
        match l, hl1 with
        | [d], _ =>
          subst hm
          rw [mth_single] at h
          refine ⟨⟨d, by simp, h⟩, ?_⟩
          rw [path]; simp
          exact List.isEmpty_iff.mp hp
      · rw [if_neg hc] at h; cases h
    · have hs := @split_spec l.length (by omega)
      rw [rootFromPath] at h
      simp only [h2, dite_false] at h
      rw [path]
      simp only [h2, dite_false]
      cases hgl : p.getLast? with
      | none => simp [hgl] at h
      | some sib =>
        simp only [hgl] at h
        obtain ⟨ys, rfl⟩ := List.getLast?_eq_some_iff.mp hgl
        simp only [List.dropLast_concat] at h
        by_cases hmk : m < split l.length
        · simp only [hmk, if_true, Option.map_eq_some_iff] at h ⊢
          obtain ⟨r, hr, he⟩ := h
          obtain ⟨e1, e2⟩ := node_split leafH nodeH emptyH nc (by omega) r sib he
          have hlen : (l.take (split l.length)).length = split l.length := by simp; omega
          have key := ih (split l.length) (by omega) (l.take (split l.length)) m lh ys hlen
            (nc.take leafH nodeH emptyH _) (by rw [hlen, hr, e1])
          obtain ⟨⟨d, hd, hlh⟩, hpp⟩ := key
          refine ⟨⟨d, ?_, hlh⟩, ?_⟩
          · rw [List.getElem?_take] at hd; simpa [hmk] using hd
          · rw [hpp, e2]
        · simp only [hmk, if_false, Option.map_eq_some_iff] at h ⊢
          obtain ⟨r, hr, he⟩ := h
          obtain ⟨e1, e2⟩ := node_split leafH nodeH emptyH nc (by omega) sib r he
          have hlen : (l.drop (split l.length)).length = l.length - split l.length := by simp
          have key := ih (l.length - split l.length) (by omega) (l.drop (split l.length)) (m - split l.length) lh
            ys (by omega) (nc.drop leafH nodeH emptyH _) (by rw [hlen, hr, e2])
          obtain ⟨⟨d, hd, hlh⟩, hpp⟩ := key
          refine ⟨⟨d, ?_, hlh⟩, ?_⟩
          · rw [List.getElem?_drop] at hd; rw [← hd]; congr 1; omega
          · rw [hpp, e1]

/-- **Consistency-proof soundness.** If the recursive verifier, run on *any* proof `p`, returns the
    genuine root of `l` as the new root, then — unless a hash of the tree has a second preimage — the
    old root it returns is the genuine root of the first `m` leaves of `l`. -/
theorem rootsFromCons_sound (n : Nat) : ∀ (l : List α) (m : Nat) (b : Bool) (r1 o : Hash) (p : List Hash)
    (_hl : l.length = n) (_nc : NoCollision leafH nodeH emptyH l)
    (_h : rootsFromCons nodeH m l.length b r1 p = some (o, mth leafH nodeH emptyH l)),
    m ≤ l.length ∧ o = mth leafH nodeH emptyH (l.take m) := by
  induction n using Nat.strongRecOn with
  | _ n ih =>
    intro l m b r1 o p hl nc h
    by_cases hmn : m = l.length
    · have htake : l.take m = l := by rw [hmn]; exact List.take_length
      rw [rootsFromCons] at h
      simp only [hmn, true_or, dite_true, if_true] at h
      have ho : o = mth leafH nodeH emptyH l := by
        cases b with
        | true =>
          simp only [if_true] at h
          by_cases hp : p.isEmpty
          · simp only [hp, if_true, Option.some.injEq, Prod.mk.injEq] at h; rw [← h.1, h.2]
          · simp [hp] at h
        | false =>
          by_cases hp1 : p.length = 1
          · match p, hp1 with
            | [x], _ => simp at h; rw [← h.1, h.2]
          · simp [hp1] at h
      exact ⟨by omega, by rw [htake]; exact ho⟩
    · by_cases h2 : l.length < 2
      · rw [rootsFromCons] at h
        simp [hmn, h2] at h
      · have hc : ¬ (m = l.length ∨ l.length < 2) := by omega
        have hs := @split_spec l.length (by omega)
        rw [rootsFromCons] at h
        simp only [hc, dite_false] at h
        cases hgl : p.getLast? with
        | none => simp [hgl] at h
        | some s =>
          simp only [hgl] at h
          by_cases hmk : m ≤ split l.length
          · simp only [hmk, if_true, Option.map_eq_some_iff, Prod.mk.injEq] at h
            obtain ⟨⟨o', nw⟩, hr, rfl, he⟩ := h
            obtain ⟨e1, _⟩ := node_split leafH nodeH emptyH nc (by omega) nw s he
            have hlen : (l.take (split l.length)).length = split l.length := by simp; omega
            have key := ih (split l.length) (by omega) (l.take (split l.length)) m b r1 o' p.dropLast hlen
              (nc.take leafH nodeH emptyH _) (by rw [hlen, hr]; simp at e1 ⊢; exact e1)
            obtain ⟨k1, k2⟩ := key
            rw [hlen] at k1
            refine ⟨by omega, ?_⟩
            have hmin : min m (split l.length) = m := by omega
            rw [k2, List.take_take, hmin]
          · simp only [hmk, if_false, Option.map_eq_some_iff, Prod.mk.injEq] at h
            obtain ⟨⟨o', nw⟩, hr, rfl, he⟩ := h
            obtain ⟨e1, e2⟩ := node_split leafH nodeH emptyH nc (by omega) s nw he
            have hlen : (l.drop (split l.length)).length = l.length - split l.length := by simp
            have key := ih (l.length - split l.length) (by omega) (l.drop (split l.length)) (m - split l.length) false
              r1 o' p.dropLast (by omega) (nc.drop leafH nodeH emptyH _) (by rw [hlen, hr]; simp at e2 ⊢; exact e2)
            obtain ⟨k1, k2⟩ := key
            rw [hlen] at k1
            have hml : m ≤ l.length := by omega
            refine ⟨hml, ?_⟩
            have hlm : (l.take m).length = m := by simp; omega
            have hsm : split m = split l.length := split_mid (by omega) (by omega) (by omega)
            rw [mth_node leafH nodeH emptyH (l.take m) (by omega), hlm, hsm]
            have h1 : (l.take m).take (split l.length) = l.take (split l.length) := by
              rw [List.take_take]; congr 1; omega
            have h2' : (l.take m).drop (split l.length) = (l.drop (split l.length)).take (m - split l.length) := by
              rw [List.drop_take]
            rw [h1, h2', e1, k2]

/-- The recursive verifier as the RFC states it (`b = true` at the top). -/
theorem rootsFromConsProof_sound (l : List α) (m : Nat) (r1 o : Hash) (p : List Hash)
    (nc : NoCollision leafH nodeH emptyH l)
    (h : rootsFromConsProof nodeH m l.length r1 p = some (o, mth leafH nodeH emptyH l)) :
    m ≤ l.length ∧ o = mth leafH nodeH emptyH (l.take m) :=
  rootsFromCons_sound leafH nodeH emptyH l.length l m true r1 o p rfl nc h

/-- Under `NoCollision`, the tree hash is injective on lists of equal length. -/
theorem mth_inj (n : Nat) : ∀ (l1 l2 : List α) (_h1 : l1.length = n) (_h2 : l2.length = n)
    (_nc : NoCollision leafH nodeH emptyH l2)
    (_h : mth leafH nodeH emptyH l1 = mth leafH nodeH emptyH l2), l1 = l2 := by
  induction n using Nat.strongRecOn with
  | _ n ih =>
    intro l1 l2 h1 h2 nc h
    by_cases hn : n < 2
    · match l1, l2, h1, h2 with
      | [], [], _, _ => rfl
      | [a], [b], _, _ =>
        rw [mth_single, mth_single] at h
        have ho : Occurs leafH nodeH emptyH [b] (leafH b) := by
          have := occurs_self leafH nodeH emptyH [b]; rwa [mth_single] at this
        rw [nc.leaf_inj b a ho h.symm]
      | [], _ :: _, h1, h2 => simp at h1 h2; omega
      | _ :: _, [], h1, h2 => simp at h1 h2; omega
      | [_], _ :: _ :: _, h1, h2 => simp at h1 h2; omega
      | _ :: _ :: _, _, h1, _ => simp at h1; omega
    · have hs := @split_spec n (by omega)
      rw [mth_node leafH nodeH emptyH l1 (by omega)] at h
      obtain ⟨e1, e2⟩ := node_split leafH nodeH emptyH nc (by omega) _ _ h
      rw [h1, h2] at e1 e2
      have t := ih (split n) (by omega) (l1.take (split n)) (l2.take (split n)) (by simp; omega) (by simp; omega)
        (nc.take leafH nodeH emptyH _) e1
      have d := ih (n - split n) (by omega) (l1.drop (split n)) (l2.drop (split n)) (by simp; omega) (by simp; omega)
        (nc.drop leafH nodeH emptyH _) e2
      rw [← List.take_append_drop (split n) l1, ← List.take_append_drop (split n) l2, t, d]

variable [DecidableEq Hash]

theorem verifyInclusion_sound (l : List α) (m : Nat) (lh : Hash) (p : List Hash)
    (nc : NoCollision leafH nodeH emptyH l)
    (h : verifyInclusion nodeH m l.length lh p (mth leafH nodeH emptyH l) = true) :
    (∃ d, l[m]? = some d ∧ lh = leafH d) ∧ p = path leafH nodeH emptyH m l := by
  unfold verifyInclusion at h
  cases hr : rootFromPath nodeH m l.length lh p with
  | none => simp [hr] at h
  | some r =>
    simp only [hr, beq_iff_eq] at h
    exact rootFromPath_sound leafH nodeH emptyH l.length l m lh p rfl nc (by rw [hr, h])

/-- **Soundness of the verifier the witness calls.** If `verifyConsistency` accepts *any* proof
    between an old head `(m, r1)` with `m > 0` and a new head whose root is the genuine root of `l`,
    then — unless a hash of the tree over `l` has a second preimage — `r1` is the genuine root of the
    first `m` leaves of `l`.  (For `m = 0` the verifier never looks at `r1`; an empty tree commits to
    nothing, so there is nothing to conclude.) -/
theorem verifyConsistency_sound (l : List α) (m : Nat) (p : List Hash) (r1 : Hash)
    (nc : NoCollision leafH nodeH emptyH l) (hm0 : 0 < m)
    (h : verifyConsistency nodeH m l.length p r1 (mth leafH nodeH emptyH l) = true) :
    m ≤ l.length ∧ r1 = mth leafH nodeH emptyH (l.take m) := by
  unfold verifyConsistency at h
  by_cases hlt : l.length < m
  · simp [hlt] at h
  · by_cases heq : m = l.length
    · simp only [hlt, heq, if_false, if_true, Bool.and_eq_true, beq_iff_eq, Nat.lt_irrefl] at h
      refine ⟨by omega, ?_⟩
      rw [heq, List.take_length]; exact h.2
    · have h0 : ¬ m = 0 := by omega
      simp only [hlt, heq, h0, if_false] at h
      cases hr : rootsFromConsProof nodeH m l.length r1 p with
      | none => simp [hr] at h
      | some on =>
        obtain ⟨o, nw⟩ := on
        simp only [hr, Bool.and_eq_true, beq_iff_eq] at h
        have := rootsFromConsProof_sound leafH nodeH emptyH l m r1 o p nc (by rw [hr, h.2])
        exact ⟨this.1, by rw [← h.1]; exact this.2⟩

/-- Two genuine heads linked by an accepted proof: the old leaf list *is* the prefix of the new one. -/
theorem consistent_prefix (l1 l2 : List α) (p : List Hash)
    (nc : NoCollision leafH nodeH emptyH l2) (hm0 : 0 < l1.length)
    (h : verifyConsistency nodeH l1.length l2.length p (mth leafH nodeH emptyH l1) (mth leafH nodeH emptyH l2) = true) :
    l1 = l2.take l1.length := by
  obtain ⟨hle, hr⟩ := verifyConsistency_sound leafH nodeH emptyH l2 l1.length p _ nc hm0 h
  exact mth_inj leafH nodeH emptyH l1.length l1 (l2.take l1.length) rfl (by simp; omega)
    (nc.take leafH nodeH emptyH _) hr

/-- Collision-extracting form (no hypothesis about the hash functions at all): either the
    conclusion holds or a concrete second preimage of a value of the genuine tree exists. -/
theorem verifyConsistency_sound_or_collision (l : List α) (m : Nat) (p : List Hash) (r1 : Hash) (hm0 : 0 < m)
    (h : verifyConsistency nodeH m l.length p r1 (mth leafH nodeH emptyH l) = true) :
    (m ≤ l.length ∧ r1 = mth leafH nodeH emptyH (l.take m)) ∨ Collision leafH nodeH emptyH l := by
  rcases noCollision_or_collision leafH nodeH emptyH l with nc | c
  · exact Or.inl (verifyConsistency_sound leafH nodeH emptyH l m p r1 nc hm0 h)
  · exact Or.inr c

theorem verifyInclusion_sound_or_collision (l : List α) (m : Nat) (lh : Hash) (p : List Hash)
    (h : verifyInclusion nodeH m l.length lh p (mth leafH nodeH emptyH l) = true) :
    ((∃ d, l[m]? = some d ∧ lh = leafH d) ∧ p = path leafH nodeH emptyH m l) ∨ Collision leafH nodeH emptyH l := by
  rcases noCollision_or_collision leafH nodeH emptyH l with nc | c
  · exact Or.inl (verifyInclusion_sound leafH nodeH emptyH l m lh p nc h)
  · exact Or.inr c

end sound
end Merkle
