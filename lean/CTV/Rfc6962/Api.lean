import CTV.Basic.Bytes
/-!
# RFC 6962 §4: the JSON messages of the log client protocol, and RFC 4648 §4 base64

Written from the RFC text; mentions nothing of the repository.  "base64" fields are JSON strings holding the RFC 4648
base64 (with padding) of a byte string; numbers are JSON numbers.

```
4.1 add-chain / 4.2 add-pre-chain   input:  chain (array of base64 certificates)
                                    output: sct_version, id (base64), timestamp, extensions (base64), signature (base64)
4.3 get-sth                         output: tree_size, timestamp, sha256_root_hash (base64), tree_head_signature (base64)
4.4 get-sth-consistency             output: consistency (array of base64 nodes)
4.5 get-proof-by-hash               output: leaf_index, audit_path (array of base64 nodes)
4.6 get-entries                     output: entries (array of objects: leaf_input (base64), extra_data (base64))
4.7 get-roots                       output: certificates (array of base64 certificates)
4.8 get-entry-and-proof             output: leaf_input (base64), extra_data (base64), audit_path (array of base64 nodes)
```
-/
namespace Rfc
open CTV

inductive JKind where
  | number
  | base64
  | base64List
  /-- §4.6: an array of objects, each with the fields `entryFields` -/
  | entryList
deriving Repr, DecidableEq, Inhabited

def entryFields : List (String × JKind) := [("leaf_input", .base64), ("extra_data", .base64)]

/-- message name ↦ its fields, in the order the RFC lists them -/
def apiTable : List (String × List (String × JKind)) :=
  [("add-chain-input", [("chain", .base64List)]),
   ("add-chain-output", [("sct_version", .number), ("id", .base64), ("timestamp", .number), ("extensions", .base64), ("signature", .base64)]),
   ("get-sth", [("tree_size", .number), ("timestamp", .number), ("sha256_root_hash", .base64), ("tree_head_signature", .base64)]),
   ("get-sth-consistency", [("consistency", .base64List)]),
   ("get-proof-by-hash", [("leaf_index", .number), ("audit_path", .base64List)]),
   ("get-entries", [("entries", .entryList)]),
   ("get-roots", [("certificates", .base64List)]),
   ("get-entry-and-proof", [("leaf_input", .base64), ("extra_data", .base64), ("audit_path", .base64List)])]

/-! ## RFC 4648 §4 -/

def b64Char (n : Nat) : Char :=
  if n < 26 then Char.ofNat (65 + n) else if n < 52 then Char.ofNat (71 + n) else if n < 62 then Char.ofNat (n - 4)
  else if n = 62 then '+' else '/'

def b64Encode : Bytes → List Char
  | [] => []
  | [a] => [b64Char (a.toNat / 4), b64Char (a.toNat % 4 * 16), '=', '=']
  | [a, b] => [b64Char (a.toNat / 4), b64Char (a.toNat % 4 * 16 + b.toNat / 16), b64Char (b.toNat % 16 * 4), '=']
  | a :: b :: c :: rest =>
    b64Char (a.toNat / 4) :: b64Char (a.toNat % 4 * 16 + b.toNat / 16) :: b64Char (b.toNat % 16 * 4 + c.toNat / 64) ::
      b64Char (c.toNat % 64) :: b64Encode rest

def b64Val (c : Char) : Option Nat :=
  if 'A' ≤ c ∧ c ≤ 'Z' then some (c.toNat - 65)
  else if 'a' ≤ c ∧ c ≤ 'z' then some (c.toNat - 71)
  else if '0' ≤ c ∧ c ≤ '9' then some (c.toNat + 4)
  else if c = '+' then some 62 else if c = '/' then some 63 else none

/-- groups of four characters; the last group may be padded with one or two `=`. (Non-zero bits under the padding are
tolerated, as most decoders do.) -/
def b64Groups : List Char → Option Bytes
  | [] => some []
  | [a, b, '=', '='] =>
    match b64Val a, b64Val b with
    | some a, some b => some [UInt8.ofNat ((a * 4 + b / 16) % 256)]
    | _, _ => none
  | [a, b, c, '='] =>
    match b64Val a, b64Val b, b64Val c with
    | some a, some b, some c => some [UInt8.ofNat ((a * 4 + b / 16) % 256), UInt8.ofNat ((b * 16 + c / 4) % 256)]
    | _, _, _ => none
  | a :: b :: c :: d :: rest =>
    match b64Val a, b64Val b, b64Val c, b64Val d, b64Groups rest with
    | some a, some b, some c, some d, some tl =>
      some (UInt8.ofNat ((a * 4 + b / 16) % 256) :: UInt8.ofNat ((b * 16 + c / 4) % 256) :: UInt8.ofNat ((c * 64 + d) % 256) :: tl)
    | _, _, _, _, _ => none
  | _ => none

/-- CR and LF inside the text are skipped (RFC 4648 §3.3 leaves that to the referring specification; common decoders do). -/
def b64Decode (s : List Char) : Option Bytes :=
  b64Groups (s.filter fun c => c ≠ '\r' ∧ c ≠ '\n')

example : b64Encode [0x4d, 0x61, 0x6e] = "TWFu".toList := by decide
example : b64Encode [0x4d, 0x61] = "TWE=".toList ∧ b64Encode [0x4d] = "TQ==".toList ∧ b64Encode [] = [] := by decide
example : b64Decode "TWFu".toList = some [0x4d, 0x61, 0x6e] ∧ b64Decode "TQ==".toList = some [0x4d] ∧ b64Decode "TQ=".toList = none := by
  decide

end Rfc
