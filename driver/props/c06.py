PROPS = ["CTV.Props.C06", "CTV.Lemmas.FrontEnd", "CTV.Model.HandlerSpec"]
HARNESS = [dict(pkg="./trillian/ctfe/", test="TestVerifC06", race=True)]
RULE = ("histories against a full ctfe instance (newLogInfo + Handlers, all eight endpoints, in-memory transport) over the reference backend "
        "verifkit.RefLog, driven through client.LogClient and ctutil.LogInfo: add-chain / add-pre-chain of freshly issued certificates "
        "(direct or via an intermediate, root appended or omitted), resubmissions after the clock moved, sequencing in random batch sizes with "
        "nanosecond root timestamps that are not multiples of a millisecond, get-sth, get-sth-consistency between pairs of served STHs, "
        "get-proof-by-hash with the client-computed leaf hash (present and not-yet-sequenced), get-entries at the found index, "
        "get-entry-and-proof, get-roots; mid-history 8 concurrent verifying readers (race detector) while the writer submits and sequences; twice per history an STH hammer: 32 concurrent get-sth callers x 15000/6000 requests while the root changes every 1-6 served STHs (new leaf or timestamp-only), each STH verified under the log key and matched to a backend root current during the call; "
        "same-millisecond submissions incl. a precertificate and its re-signed twin (finding C06-1), duplicates through another intermediate certificate, 3-8 concurrent add-chain calls incl. the same chain twice; 12/120 external-chain-storage scenarios (indirect issuance-chain service over a fault-injecting storage, retry until SCT, read from a second front end with a cold cache); closing sweep: all pairs of served tree sizes, every SCT'd certificate. non-trivial = distinct lines not answered `err`")
TRUSTED = ["ct.MerkleTreeLeafFromChain for the (issuer key hash, TBS) of a precertificate fed to the model (C03's subject; the issuer key hash is re-checked)", "verifkit.RefLog stands in for Trillian (its contract is the model's Backend)", "net/http, encoding/json, base64, crypto/ecdsa, crypto/x509 (test PKI)",
           "tls.Marshal of MerkleTreeLeaf / chain entries (C04/C07's subject): the harness builds the expected leaf with the repo's own serializer",
           "github.com/transparency-dev/merkle (tied to the Lean verifiers by the C19 check)"]
ASSUMPTIONS = ["backend contract: RFC 6962 tree over LeafValue, de-duplication by LeafIdentityHash, atomic RPCs",
               "signature primitive correct (hsign)", "ValuesIdentify + no leaf-hash collision among stored values for index uniqueness"]

def is_nontrivial(op, impl):
    return impl != "err"
