PROPS = ["CTV.Props.C06"]
HARNESS = [dict(pkg="./trillian/ctfe/", test="TestVerifC06", race=True)]
RULE = "tbd"
TRUSTED = []
ASSUMPTIONS = []

def is_nontrivial(op, impl):
    return impl != "err"
