PROPS = ["CTV.Props.C16", "CTV.Props.C16Tie"]
HARNESS = [dict(pkg="./scanner/", test="TestVerifC16", race=True, synctest=True, timeout=1500, env={"GORACE": "log_path=/tmp/verif-c16-race"}),
           # the Fetcher as migrillian's Controller drives it, pass after pass (anchor trillian/migrillian/core/controller.go): oracle only,
           # the same scenarios are replayed on the migration model by ./check C20
           dict(pkg="./trillian/migrillian/core/", test="TestVerifC16Controller", race=True, synctest=True, timeout=900, model=False)]
RULE = ("scans of a scripted scanner.LogClient through the real Fetcher.Run / Scanner.ScanLog under virtual time (testing/synctest) and -race: "
        "tree sizes 0..3200, start/end at and around the boundaries (0, size-1, size, beyond the tree, sub-ranges), batch sizes 1..1000, 1..8 fetchers, "
        "1..8 matchers, channel buffers 0..1000, short reads of 1..asked entries, 429/5xx/network/gRPC-Unavailable/deadline errors, growth between STHs in "
        "continuous mode, Stop and context cancellation at seeded virtual instants, the repository's own matchers (all, none, serial, subject/issuer regex, "
        "SCT timestamp, parse-failure) with and without PrecertOnly; every client call, callback, stop and cancel is one trace event validated against the "
        "state machine; non-trivial = distinct events that moved the model (call/ret with entries/cb/m), counted by the orchestrator")
TRUSTED = ["testing/synctest fake clock (go1.24.1)", "github.com/google/trillian/client/backoff (runs unmodified under virtual time)",
           "the scripted LogClient stands in for a log that honours RFC 6962 get-entries (1..asked entries per answer)"]
ASSUMPTIONS = ["servers answer get-entries with between 1 and the number of entries asked for (Props/C16 shows, as examples, that more causes duplicates and none causes a livelock)",
               "BatchSize >= 1, ParallelFetch >= 1, NumWorkers >= 1, indices and tree sizes below 2^63",
               "events recorded under one mutex at the injected client interface form a linearisation consistent with happens-before"]

def is_nontrivial(op, impl):
    t = op.split()
    if not t:
        return False
    if t[0] in ("cb", "m"):
        return True
    if t[0] == "ret" and t[-1] != "err":
        return True
    return t[0] == "call"
