PROPS = ["CTV.Props.C01", "CTV.Props.C01Tie"]
HARNESS = [dict(pkg="./trillian/ctfe/", test="TestVerifC01", timeout=900)]
RULE = ("histories of add-chain / add-pre-chain requests through the real HTTP handlers of a logInfo with a de-duplicating fake backend, a per-request clock "
        "(epoch, sub-millisecond, 2038, 2262 maximum, random) and a digest-recording signer; PKIs from crypto/x509.CreateCertificate (RSA-2048 / P-256 / P-384 leaf and "
        "log keys, chains of 1-5, root included or omitted, direct issuer and pre-issuer with CT EKU, AKI present or absent, extra extensions), first-time and repeated "
        "submissions; malformed backend replies; non-trivial = distinct request lines answered 200")
TRUSTED = ["crypto/x509, crypto/ecdsa, crypto/rsa, crypto/sha256 of the standard library: independent parsing, signature verification and hashing in the harness",
           "the harness' own RFC 6962 layouts and DER surgery (a third implementation next to the repository's and the Lean model's)"]
ASSUMPTIONS = ["signature scheme correctness (Scheme.correct) and collision-freeness of SHA-256 on the submitted leaf certificates (NoCollision) are hypotheses of sct_binds",
               "the precertificate TBS transformation (x509.BuildPrecertTBS) is a parameter of the model (property C03); the harness derives it independently by DER surgery",
               "chain validation (C02) and X.509 parsing (C11) are inputs"]

def is_nontrivial(op, impl):
    return impl.startswith("200")
