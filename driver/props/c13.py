PROPS = ["CTV.Props.C13", "CTV.Model.RetrySpec"]
HARNESS = [dict(pkg="./jsonclient/", test="TestVerifC13", synctest=True, race=True),
           dict(pkg="./client/", test="TestVerifC13Client", synctest=True),
           dict(pkg="./jsonclient/", test="TestVerifC13Pair", synctest=True)]
RULE = ("(a) sequences of backoff.set(override|nil) on the real unexported backoff struct under virtual time (testing/synctest), compared exactly "
        "(wait, notBefore, multiplier) with the regenerated kernel; (b) PostAndParseWithRetry over a scripted in-memory RoundTripper in virtual time: "
        "response streams over {network error, unparsable 200, 408, 429/503 with Retry-After absent / seconds 0,1,2,30,200,3600,-1 / HTTP-date / junk, "
        "400,403,404,500,501,502,504,201,204, redirects 301/302/303/307/308, parsable 200}, context deadlines at arbitrary virtual instants; every request instant "
        "must fall in the window the model allows for the unknown jitter draw; non-trivial = distinct trace lines")
TRUSTED = ["testing/synctest virtual clock (go1.24.1 experiment)", "net/http client redirect handling", "math/rand jitter draw constrained to [0, maxJitter)"]
ASSUMPTIONS = ["instants are exact (unbounded Int ns); time.Time.Sub / time.Until saturate, Duration arithmetic wraps — as in Go", "backoff.set/until are atomic (sync.RWMutex), so concurrent callers are a sequence of the modelled steps"]
