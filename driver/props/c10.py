PROPS = ["CTV.Props.C10", "CTV.Props.C10Tie", "CTV.Model.DerTieSpec"]
HARNESS = [dict(pkg="./asn1/", test="TestVerifC10", timeout=900)]
RULE = ("generated target types (reflect.StructOf with asn1:\"...\" tags, nesting <= 4, every supported kind and field parameter) x byte strings "
        "(type-directed valid DER with seeded malformations, structure-preserving mutations, random); every case is decoded by the fork strictly, "
        "by the fork with lax, and by encoding/asn1 of go1.24.1, each compared with the Lean model in the matching dialect, and the decoded value is "
        "re-marshalled by all three; fork vs encoding/asn1 must agree on acceptance, value, remainder and re-marshalled octets except for the three "
        "allowed classes any-bool / set-order / gentime-fraction (counted, see ASSUMPTIONS); non-trivial = distinct operation lines that were accepted by the decoder under test")
TRUSTED = ["reflect, math/big, unicode/utf8, unicode/utf16 (modelled: utf8.Valid, utf16.Decode, string(rune))",
           "the upstream-iff clause is correspondence-decided (three-way: Lean model, fork, encoding/asn1 of go1.24.1), not proved"]
ALLOWED_DIFFERENCES = ["any-bool: interface{} target leaves a BOOLEAN nil and unvalidated (encoding/asn1 decodes it)",
                       "set-order: Marshal of a SET OF keeps the element order (encoding/asn1 sorts the encodings)",
                       "gentime-fraction: GeneralizedTime with fractional seconds rejected (encoding/asn1 accepts)",
                       "the lax parameter itself; field names in error texts (errors are compared as a class)"]
ASSUMPTIONS = ["the fixed list of allowed fork/upstream differences (counted as allowed-diff:* in the histogram, never failures): " + "; ".join(ALLOWED_DIFFERENCES),
               "64-bit int (lengths < 2^31 cannot overflow offset arithmetic)",
               "no-panic is a harness oracle, not a theorem (the allocation bound is parse_total_size on the model and an oracle on the implementation); Canon has no interface{} targets (c-lines answer 'skip' there)"]

def is_nontrivial(op, impl):
    return impl.startswith("ok ")
