PROPS = ["CTV.Props.C10"]
HARNESS = [dict(pkg="./asn1/", test="TestVerifC10", timeout=900)]
RULE = ("generated target types (reflect.StructOf with asn1:\"...\" tags, nesting <= 4, every supported kind and field parameter) x byte strings "
        "(type-directed valid DER with seeded malformations, structure-preserving mutations, random); every case is decoded by the fork strictly, "
        "by the fork with lax, and by encoding/asn1 of go1.24.1, each compared with the Lean model in the matching dialect, and the decoded value is "
        "re-marshalled by all three; non-trivial = distinct operation lines that were accepted by the decoder under test")
TRUSTED = ["reflect, math/big, unicode/utf8, unicode/utf16 (modelled: utf8.Valid, utf16.Decode, string(rune))",
           "the upstream-iff clause is correspondence-decided (three-way: Lean model, fork, encoding/asn1 of go1.24.1), not proved"]
ASSUMPTIONS = ["64-bit int (lengths < 2^31 cannot overflow offset arithmetic)",
               "time.Time and interface{} targets are outside the Lean model (differential comparison with encoding/asn1 only)"]

def is_nontrivial(op, impl):
    return impl.startswith("ok ")
