PROPS = ["CTV.Props.C19"]
_PKG = "./internal/witness/cmd/witness/internal/witness/"
HARNESS = [dict(pkg=_PKG, test="TestVerifC19"), dict(pkg=_PKG, test="TestVerifC19Merkle")]
RULE = "tbd"
TRUSTED = []
ASSUMPTIONS = []

def is_nontrivial(op, impl):
    return True
