PROPS = ["CTV.Props.C19", "CTV.Props.C19Tie", "CTV.Model.WitnessSpec", "CTV.Lemmas.Witness", "CTV.Rfc6962.Merkle"]
_PKG = "./internal/witness/cmd/witness/internal/witness/"
HARNESS = [dict(pkg=_PKG, test="TestVerifC19", race=True), dict(pkg=_PKG, test="TestVerifC19Merkle"),
           dict(pkg="./internal/witness/cmd/witness/internal/http/", test="TestVerifC19HTTP", model_args=["http"])]
RULE = ("TestVerifC19: histories of Update/GetSTH/GetLogs on the real Witness over sqlite (:memory: and file, SetMaxOpenConns(1) as impl.Main), "
        "2-3 logs + 2 configured entries with undecodable IDs + unknown IDs, per log 2-4 tree forks of up to 8/20/40/70/130 leaves; candidates: "
        "forward along compatible/incompatible forks, equal size (identical / re-signed / other fork), stale, size 0, signed garbage root, "
        "bad signature x7, wrong/zero/absent log_id, other log's STH, malformed JSON x6; proofs honest / other sizes / other fork / truncated / "
        "padded / bit-flipped / swapped / random / wrong element length / empty; concurrent batches of 2-8 Updates checked for a linearisation "
        "by the model. TestVerifC19Merkle: sha256 (NIST + every length 0..300 + long), mth/path/consProof vs testonly.Tree for all sizes <= 130, "
        "RootFromInclusionProof / VerifyConsistency on honest+mutated proofs for all sizes <= 130 and 300/3000 sampled sizes up to 2^48. "
        "non-trivial = distinct lines whose implementation answer is an acceptance (cosig/ok/lin) or the held STH")
TRUSTED = ["database/sql + mattn/go-sqlite3 (one connection, serialisable transactions)", "encoding/json, encoding/base64, tls.Marshal of the STH",
           "crypto/ecdsa, crypto/sha256 (the Lean SHA-256 is compared with it on every run)",
           "github.com/transparency-dev/merkle/proof (tied to Merkle.verifyConsistency / rootFromPath by correspondence on every run)"]
ASSUMPTIONS = ["one Witness call = one atomic step (serialisable transactions); recorded concurrent batches are checked to be linearisable",
               "Merkle.NoCollision for the tree the new root commits to (hypothesis of `Extends`, never an axiom)",
               "Scheme.correct for the witness' signature primitive", "Witness.Logs is not modified after New"]

def is_nontrivial(op, impl):
    return impl.startswith(("cosig", "held", "ok", "lin")) or op.startswith(("sha", "mth", "path", "cproof"))
