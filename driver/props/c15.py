PROPS = ["CTV.Props.C15", "CTV.Props.C15Tie", "CTV.Model.ConfigSpec"]
HARNESS = [dict(pkg="./trillian/ctfe/", test="TestVerifC15")]
RULE = ("LogConfig / LogMultiConfig messages generated field by field from valid bases (log, mirror, frozen log, frozen mirror; ECDSA P-256/P-384, "
        "RSA-2048, Ed25519 keys) plus 0-2 mutations (absent / empty / negative / duplicated / odd values of every field, odd connection strings "
        "such as mysql, mysqlx, mysqlfoo, mysql://a://b, postgres), passed through text and binary protobuf (LogConfigFromFile / "
        "MultiLogConfigFromFile where they accept the file) and validated by ValidateLogConfig / ValidateLogConfigs / ValidateLogMultiConfig / "
        "BuildLogBackendMap; accepted configs go through SetUpInstance (handler key set, STH getter kind) and get-sth is served with scripted "
        "backend roots and mirror STH storage; non-trivial = distinct request lines that were accepted / served 200")
TRUSTED = ["oracle bits computed with the same library functions the validator calls (x509.ParsePKIXPublicKey, Any.UnmarshalNew, "
           "ct.NewSignatureVerifier, ToSignedTreeHead, VerifySTHSignature, mysql.ParseDSN, pgconn.ParseConfig, AppendCertsFromPEMFile, keys.NewSigner)",
           "protobuf text/binary codecs, timestamppb.CheckValid (range constants restated in the model)"]
ASSUMPTIONS = ["mirror STH storage honours GetMirrorSTH's contract (returned TreeSize <= maxTreeSize) -- hypothesis of mirror_le_backend",
               "SetUpInstance is exercised with in-backend chain storage only (the CTFE backend opens a database and exits the process on failure)"]

def is_nontrivial(op, impl):
    return impl.startswith("ok") or impl.startswith("200")
