PROPS = ["CTV.Props.C03", "CTV.Props.C03Tie"]
HARNESS = [dict(pkg="./x509/", test="TestVerifC03", timeout=900)]
RULE = ("TBSCertificates from crypto/x509.CreateCertificate (seeded random templates: extension sets incl. random extra extensions with mixed "
        "criticality and empty/long values, serials with high bit / 20 octets, UTCTime/GeneralizedTime on both sides of 1950 and 2050, "
        "ECDSA/RSA/Ed25519 issuer and subject keys, PrintableString/UTF8String/IA5String names, names beyond 127 bytes), re-assembled by an "
        "independent DER splicer with the poison / SCT-list extension at every position (plus: no other extension, unique ids, no version, "
        "shuffled order); pre-issuer chains with all four AKI present/absent combinations; absent / twice; ~230 hand-made non-canonical or "
        "malformed variants per base and 60 random one/two-byte damages; seeded fuzzers for validity time strings, base-128 arcs and raw tag/length headers; "
        "a sweep of one filler extension's size across the 127/128, 255/256 and 65535/65536 length boundaries; the concrete TBSCertificates of the Lean examples; "
        "SCT lists (random, boundary 65335/65336/65535, RFC-valid lists embedded by hand, malformed). "
        "every hand-made deviation and every random damage is applied identically to precertificate, final certificate and plain content and "
        "the route equality is checked for every accepted input, canonical or not; pre-issuers with full / issuer+serial / key-id AKI forms and "
        "ten extKeyUsage forms; "
        "non-trivial = distinct op lines whose answer is `ok …` or `1` (the success path), counted by the orchestrator")
TRUSTED = ["Go's time.Parse/Format calendar arithmetic inside asn1 (mirrored by clockOk/zoneOk, compared on every generated time)",
           "asn1.ObjectIdentifier.Equal on parsed arcs = equality of canonical contents octets",
           "crypto primitives (signing the re-assembled certificates, SHA-256 of the issuer key)",
           "tls.Marshal of MerkleTreeLeaf (C04)"]
ASSUMPTIONS = ["the normal form the fork writes for an accepted TBSCertificate is well-formed (evaluated for every traced input by the driver; unproved, false within 2 bytes of the 2^31 limit)",
               "the pre-issuer handed to BuildPrecertTBS comes from x509.ParseCertificate (RawIssuer is one TLV)",
               "TBSCertificates shorter than 2^31 bytes (the fork refuses longer lengths; the model carries the same bound)"]

def is_nontrivial(op, impl):
    return impl.startswith("ok") or impl == "1"
