PROPS = ["CTV.Props.C07", "CTV.Props.C07b", "CTV.Props.C07Tie", "CTV.Model.HandlerSpec", "CTV.Model.HandlerCheckSpec"]
HARNESS = [dict(pkg="./trillian/ctfe/", test="TestVerifC07"), dict(pkg="./client/", test="TestVerifC07Client")]
RULE = ("get-entries requests through the real AppHandler with a scripted backend; start/end drawn from int64 boundary sets "
        "(0, m±1, k·m±1, 2^31, 2^62, 2^63-m-1..2^63-1, negatives), malformed strings, max in {1,2,3,7,1000,2^31,2^62,2^63-1}, "
        "alignment on/off, tree sizes around start, backend reply honest/short/surplus/mis-indexed/empty; "
        "non-trivial = distinct request lines that reached the backend (a valid range), counted by the orchestrator")
TRUSTED = ["net/http, encoding/json, strconv.ParseInt (modelled in CTV.Model.ParseInt, compared on every case)"]
ASSUMPTIONS = ["Go int64 arithmetic wraps modulo 2^64 (I64.add/sub)", "the fake backend stands in for Trillian"]

def is_nontrivial(op, impl):
    return " req " in impl
