PROPS = ["CTV.Props.C14", "CTV.Props.C14Tie", "CTV.Model.ChainStoreSpec"]
HARNESS = [dict(pkg="./trillian/ctfe/", test="TestVerifC14", race=True, timeout=1500),
           # one oversized chain (certificate_chain body above 2^24-1 bytes) through the real add-chain of both modes
           dict(pkg="./trillian/ctfe/", test="TestVerifC14Oversized", model=False),
           # the storage contract the model assumes, on the real SQL storages against a scripted database (no trace for the model)
           dict(pkg="./trillian/ctfe/storage/mysql/", test="TestVerifC14", model=False),
           dict(pkg="./trillian/ctfe/storage/postgresql/", test="TestVerifC14", model=False)]
RULE = ("two logInfos (in-backend service; newIndirectIssuanceChainService(memStore, cache)) per cache configuration (noop; real LRU with size 0/1/2/1000 x TTL 1ms/1h) "
        "fed the same submissions: generated PKI chains with 0..4 intermediates, both entry types, root included or not, the root itself (leaf-only path), "
        "synthetic certificates of boundary lengths (1,2,127,128,255,256,257,65535,65536, a 300 kB certificate once per thorough run) through the services' BuildLogLeaf, "
        "legacy full-chain leaves; every entry read through get-entries and get-entry-and-proof, faults injected at the k-th storage/cache call, stored chains "
        "corrupted (cut, extended, random, emptied, outer length shortened to an element boundary / longer than available, valid SEQUENCE + junk) / deleted, junk extra data; multi-entry ranges with faults and damage on non-first leaves; the history refused(storage fault) -> accepted -> eviction -> read; concurrent writers and readers with random faults under -race; "
        "non-trivial = distinct trace lines that were served 200 or stored a chain")
TRUSTED = ["SHA-256 (the hash value is taken from the trace; the driver checks it is a function and injective on the run)",
           "hashicorp/golang-lru expirable LRU (its Get/Add are observed at the cache interface, not modelled)",
           "encoding/asn1 of the standard library as the harness' independent statement of the stored DER form"]
ASSUMPTIONS = ["storage.Add keeps the first value under a key (the SQL storages ignore duplicate-key errors) -- memStore does the same",
               "no SHA-256 collision among the chains of a run", "the real SQL storages are replaced by an in-memory one (no database available)"]

def is_nontrivial(op, impl):
    return impl.startswith("200") or op.startswith("add ") or op.startswith("sadd ")
