PROPS = ["CTV.Props.C20", "CTV.Props.C20Tie"]
HARNESS = [dict(pkg="./trillian/migrillian/core/", test="TestVerifC20", race=True, synctest=True, timeout=1500)]
RULE = ("migrations by the real core.Controller (Run and RunWhenMaster) from an in-memory source log served through an http.RoundTripper and the real "
        "client.LogClient into a reference pre-ordered destination behind a function-field TrillianLogClient, under virtual time and -race: source sizes "
        "0..480 with growth between passes, certificate, precertificate and unparsable entries, destination empty / partial / full / forked, lagging "
        "sequencer, both identity functions, batch sizes 1..1000, 1..8 fetchers and submitters, one-shot and continuous, short reads, HTTP and network errors, "
        "runs of ResourceExhausted, fatal errors, cancellation, mastership loss via a scripted election, corrupted / refused consistency proofs; "
        "non-trivial = distinct get-entries / AddSequencedLeaves / proof events, counted by the orchestrator")
TRUSTED = ["testing/synctest fake clock", "github.com/google/trillian/client/backoff and util/election2 interfaces", "transparency-dev/merkle (proof.VerifyConsistency, testonly.Tree for the source log's roots and proofs)",
           "net/http client machinery between client.LogClient and the in-memory RoundTripper"]
ASSUMPTIONS = ["the destination is a pre-ordered log that stores (index, leaf, extra data, identity hash) and reports a tree size not beyond its contiguous stored prefix",
               "the source answers get-entries with 1..asked entries", "AddSequencedLeaves is atomic per request in the reference backend"]

def is_nontrivial(op, impl):
    t = op.split()
    return bool(t) and t[0] in ("call", "add", "proof", "addret") or (bool(t) and t[0] == "ret" and t[-1] != "err")
