PROPS = ["CTV.Props.C18", "CTV.Model.TemporalSpec"]
HARNESS = [dict(pkg="./client/", test="TestVerifC18")]
RULE = ("(window, instant) cases through ctfe.ValidateChain (real certificates from crypto/x509.CreateCertificate), "
        "client.NewTemporalLogClient/IndexByDate and loglist3.LogList.TemporallyCompatible; bounds at instant ±{0,1ns,1s,1s-1ns,0.5s,1h,24h}, absent bounds; "
        "shard lists of 1..5 shards (hour- and nanosecond-wide), contiguous / gapped by ±1ns / inverted / extending an unbounded shard, instants at every shard boundary ±1ns; "
        "non-trivial = every distinct case (each decides inside/outside at or near a boundary)")
TRUSTED = ["time.Time.Before/After/Equal are the strict order and equality on instants (modelled as Int nanoseconds)",
           "timestamppb.AsTime / CheckValid", "the rest of ValidateChain accepts the generated two-certificate chain"]
ASSUMPTIONS = ["instants within the int64 nanosecond range (years 1678..2262) in the correspondence run; the theorems hold for all Int"]
