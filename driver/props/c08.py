PROPS = ["CTV.Props.C08", "CTV.Props.C08Tie", "CTV.Model.HandlerSpec", "CTV.Model.HandlerCheckSpec"]
HARNESS = [dict(pkg="./trillian/ctfe/", test="TestVerifC08")]
EXHAUSTIVE = True
RULE = ("exhaustive fault matrix through the real AppHandler.ServeHTTP with a scripted backend: 8 endpoints × valid request variants × "
        "(17 gRPC codes 1..17 + a non-status error + every malformed-reply class: absent/garbled/short-hash roots, tree smaller/equal/larger than needed, "
        "absent proof/leaf/queued leaf, wrong hash sizes, surplus/mis-indexed leaves, undecodable/trailing echoed leaf, signer failure), masking on/off; "
        "plus seeded bad requests (wrong method, missing/malformed/out-of-range parameters, bad JSON bodies, wrong entry kind); RequestLog.IssueSCT/Status recorded; "
        "non-trivial = distinct matrix cells (every cell decides a status)")
TRUSTED = ["net/http, encoding/json, grpc/status.FromError", "trillian/types LogRootV1 (un)marshal"]
ASSUMPTIONS = ["a non-nil error cannot carry codes.OK (grpc/status)", "no ErrorMapper configured (theorems state the mapper hypothesis)",
               "panic-freedom of the real handlers rests on the exhaustive correspondence matrix, not on a theorem"]
