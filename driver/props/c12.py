PROPS = ["CTV.Props.C12"]
HARNESS = [dict(pkg="./client/", test="TestVerifC12", synctest=True, timeout=900)]
RULE = ("client.LogClient against a scripted http.RoundTripper inside a synctest bubble: GetSTH, AddChain, AddPreChain (with attempts answered 408/429/503/undecodable-200 "
        "before the response under test), GetSTHConsistency, GetProofByHash, GetEntryAndProof, GetRawEntries, GetAcceptedRoots, GetEntries; status in "
        "{200,301,302,303,307,308,400,403,404,408,429,500,502,503,504} x body in {valid, truncated JSON, wrong types, bad base64, JSON followed by garbage, empty/null/{}, extra fields, "
        "wrong lengths (root hash, id, DigitallySigned length field), trailing TLS bytes, foreign-key signature, corrupted signature, signature over other fields / another chain / "
        "the other entry type / other timestamp or extensions, hash or algorithm code changed, id zero/random/short/long/of another key, version != v1}; with and without a configured key "
        "(P-256, RSA-2048); chains: certificate, precertificate, precert submitted as cert and vice versa, missing issuer, unparsable, empty; ct.RawLogEntryFromLeaf on genuine, "
        "damaged, bit-flipped and cut leaf_input/extra_data. non-trivial = distinct lines answered `ok`")
TRUSTED = ["encoding/json, encoding/base64, net/http client (redirect handling), testing/synctest fake clock",
           "ct.MerkleTreeLeafFromRawChain and the X.509 parser (the entry an SCT is checked against, and the fatal/non-fatal verdict per entry, are inputs of the model: C03/C11)",
           "crypto primitives (as in C05)"]
ASSUMPTIONS = ["retry pacing is outside this property (C13); the model only knows which responses are retried"]


def is_nontrivial(op, impl):
    return impl.startswith("ok")
