PROPS = ["CTV.Props.C12", "CTV.Props.C12Tie"]
HARNESS = [dict(pkg="./client/", test="TestVerifC12", synctest=True, timeout=900)]
RULE = ("client.New on every kind of key option (none, DER/PEM well-formed, truncated, garbage-suffixed, several blocks, text, white space only) followed by get-sth with a bogus and a genuine signature; client.LogClient against a scripted http.RoundTripper inside a synctest bubble: GetSTH, AddChain, AddPreChain (with attempts answered 408/429/503/undecodable-200 "
        "before the response under test), GetSTHConsistency, GetProofByHash, GetEntryAndProof, GetRawEntries, GetAcceptedRoots, GetEntries; status in "
        "{200,201,202,203,204,205,206,207,226,299,300,301,302,303,304,307,308,400,403,404,408,429,500,502,503,504} (every method x every non-200 2xx x a VALID body) x body in {valid, truncated JSON, wrong types, bad base64, JSON followed by garbage, empty/null/{}, extra fields, "
        "wrong lengths (root hash, id, DigitallySigned length field), trailing TLS bytes, foreign-key signature, corrupted signature, signature over other fields / another chain / "
        "the other entry type / other timestamp or extensions, hash or algorithm code changed, id zero/random/short/long/of another key, version != v1}; with and without a configured key "
        "(P-256, RSA-2048); arbitrary extra response headers, transport failures, body read failures, a followed redirect; histories of 2-4 calls on ONE client "
        "(same head re-served with another signature, other head with the first signature, good after bad, re-served SCTs); one call in four through a TemporalLogClient; "
        "the entry an SCT must be over is derived independently of the repository (standard-library X.509, own poison-extension removal, SHA-256 in the Lean driver); chains: certificate, precertificate, precert submitted as cert and vice versa, missing issuer, unparsable, empty; ct.RawLogEntryFromLeaf on genuine, "
        "damaged, bit-flipped and cut leaf_input/extra_data. non-trivial = distinct lines answered `ok`")
TRUSTED = ["encoding/json, encoding/base64, net/http client (redirect handling), testing/synctest fake clock",
           "the X.509 parser (what it reports for the first three certificates of a chain, and the fatal/non-fatal verdict per entry, are inputs of the model: C11); x509.BuildPrecertTBS (C03; compared on every run with the harness' own extension removal)",
           "crypto primitives (as in C05)"]
ASSUMPTIONS = ["retry pacing is outside this property (C13); the model only knows which responses are retried"]


def is_nontrivial(op, impl):
    return impl.startswith("ok")
