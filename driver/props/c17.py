PROPS = ["CTV.Props.C17", "CTV.Props.C17Tie", "CTV.Model.TemporalSpec"]
HARNESS = [
    dict(pkg="./submission/", test="TestVerifC17", synctest=True, race=True, timeout=900),
    dict(pkg="./submission/", test="TestVerifC17Dist", synctest=True, race=True, timeout=900),
    dict(pkg="./ctpolicy/", test="TestVerifC17Policy", synctest=True, race=True, timeout=600),
]
RULE = ("(a) random operation sequences (request / setResult sct|err / groupComplete / collectSCTs) on the real safeSubmissionState for "
        "Chrome-shaped, Apple-shaped and arbitrary group structures, every answer and periodic full state dumps compared with the model; "
        "(b) GetSCTs under virtual time with scripted submitters (SCT / error / hang, latencies 1 ms .. 1 h, deadlines 0.55 s .. 3 h, weights, "
        "concurrent callers): the observation is validated against the model by the driver (search over session orders); "
        "non-trivial = distinct scenario/operation lines whose answer is not an error class")
TRUSTED = ["testing/synctest virtual clock (go1.24.1, GOEXPERIMENT=synctest)", "Go race detector (supporting evidence only)",
           "extract/k_policy.go lock walker: the (field, read/write, lock mode) table is what the go/ast walk sees"]
ASSUMPTIONS = ["LogPolicyData keys equal the groups' Name fields and are distinct (WF.names_nodup)",
               "a submission session lists distinct members of its group (WF.session_sub, WF.session_nodup; checked on the real GetSubmissionSession in the ctpolicy harness)",
               "'the chain verifies against the merged root pool' is modelled as membership of the chain's root in the union of the known root sets (x509 path building trusted)",
               "Submitter.SubmitToLog returns when its context is cancelled"]

def is_nontrivial(op, impl):
    return impl not in ("bad-op", "panic", "reject")
