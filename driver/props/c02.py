PROPS = ["CTV.Props.C02", "CTV.Props.C02Tie"]
HARNESS = [dict(pkg="./trillian/ctfe/", test="TestVerifC02", timeout=900)]
RULE = ("chains from generated hierarchies (1-3 roots, cross-signs, pre-issuers, same-name twins, RSA/ECDSA mixes, made with crypto/x509.CreateCertificate) "
        "with perturbations (plain / root included / dropped / swapped / duplicated / unrelated / forged signature / cross-signed route / unparsable / "
        "root untrusted / intermediate as trust anchor), every combination of the seven option switches with window bounds and clock at NotAfter-1s, -1ns, "
        "NotAfter, +1ns, +1s, the three entry points (ValidateChain, add-chain, add-pre-chain), chains and pools at the 100-signature budget; "
        "non-trivial = distinct trace lines whose chain was admitted or returned at least one chain")
TRUSTED = ["crypto/x509 (standard library) CreateCertificate, ParseCertificate and CheckSignature: issue the test PKIs and compute the sigOK matrix",
           "the fork's ParseCertificate: field extraction for the abstract view (property C11)"]
ASSUMPTIONS = ["sigOK child parent is an oracle (signature primitives are not modelled)",
               "the abstract view of a certificate is a function of its DER bytes (Coherent in the theorems that need it)"]

def is_nontrivial(op, impl):
    return impl.startswith("ok") or impl.startswith("chains")
