PROPS = ["CTV.Props.C05", "CTV.Props.C05Tie"]
HARNESS = [dict(pkg="./ctutil/", test="TestVerifC05", timeout=900), dict(pkg="./internal/witness/verifier/", test="TestVerifC05Witness", timeout=300)]
EXHAUSTIVE = True
RULE = ("tls.VerifySignature on the full 256x256 grid of (hash, signature) codes for one genuine P-256 signature (exhaustive); the same grid for an RSA-2048 and the DSA key "
        "(full in the thorough tier, the bands hash<16 / alg<16 in the quick tier); every key of {RSA 1024/2048/2048'/3072, P-224/256/256'/384/521, DSA-2048 (testdata), Ed25519} x hash 1..6: genuine signatures under "
        "every signature code, other hash codes, a foreign key of the same kind, sampled single-bit flips of signature and message, truncation, extension; "
        "~60 well-formed and malformed DER encodings of genuine (r,s) (zero, negative, non-minimal integers and lengths, indefinite, over-long and 4/5/8-octet "
        "lengths, wrong identifier octets, inner extra octets, trailing octets, every prefix) both through VerifySignature and straight into the asn1 fork; "
        "typed nil and zero-valued key pointers and foreign Go types (also through NewSignatureVerifier); NewSignatureVerifier on the key set, synthetic RSA moduli 1..8192 bits, non-key values, opt-in on/off; genuine SCTs/STHs "
        "with 24 resp. 13 single-field mutations each, SerializeSCT/STHSignatureInput against a hand-written RFC 6962 layout (2^24-1 / 2^24 boundary in the thorough tier); "
        "ctutil.VerifySCT (plain, embedded) and LogInfo.VerifySCTSignature on the testdata chains for every key x opt-in x 8 variants, on generated pre-issuer chains with the poison after / before / between the authority key identifier and the SAN (identifier last included), and on generated final certificates with an embedded SCT whose validity lies in 1949/1950 and 2049/2050/2051, the expected entry derived independently "
        "(standard-library X.509 + own extension stripping); nil entry pointers; "
        "NewFromSignedJSON with valid/invalid documents and signatures; WitnessVerifier.VerifySignature on cosigned STHs with 0 (nil/empty), 1, 2, 3, 5 witness signatures, each genuine / foreign / corrupted / other algorithm code / garbage at every position. The expected verdict of every case is computed by the harness from the standard library "
        "primitive on (key, digest, r, s). non-trivial = distinct lines whose implementation answer is not `err`")
TRUSTED = ["crypto/rsa, crypto/ecdsa, crypto/dsa, crypto/* hashes (the primitives: abstract `Prims` in the theorems, the standard library in the harness)",
           "encoding/asn1 of the standard library (canonical DER of (r,s) in the harness' oracle)"]
ASSUMPTIONS = ["the primitives are a parameter of every theorem (nothing is assumed about them); Scheme.correct is a hypothesis of the sign/verify corollaries only",
               "a Go array [32]byte always has 32 elements (guard `length = 32` in the model)"]


def is_nontrivial(op, impl):
    return impl.strip() != "err"
