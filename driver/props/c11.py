PROPS = ["CTV.Props.C11", "CTV.Props.C11Tie", "CTV.Model.DerTieSpec"]
HARNESS = [dict(pkg="./x509/", test="TestVerifC11", timeout=1200)]
RULE = ("certificates, CRLs, keys and CSRs from /repo/testdata, /repo/trillian/testdata, x509/testdata (incl. testdata/invalid) and the package's own test vectors, "
        "certificates issued by crypto/x509.CreateCertificate from random templates (key usage, EKU incl. unknown, basic constraints, SAN DNS/email/IP/URI, name constraints of all four kinds, policies, AIA, CRL DP, SKI/AKI, unknown and critical extensions, CT poison; validity on both edges of the UTCTime window 1950/2049 and beyond; NOT generated: SIA, RPKI address/AS blocks, embedded SCT lists, IA5/T61/BMP name strings, ECDSA/PSS signatures), bare certificates (no optional part) and certificates with unique ids, structure-preserving mutations of all of "
        "them (DER tree edited, enclosing lengths recomputed; typed mutations reach the lax relaxations), ordered and random concatenations of 1-4 accepted certificates compared certificate by certificate with ParseCertificate on the piece, random bytes; "
        "through all twelve entry points; non-trivial = distinct operation lines whose implementation answer is not 'fatal'")
TRUSTED = ["parseCertificate's payload processing (names, keys, extension contents) is an oracle to the wrapper model: its observed (object, error) result is an input of the pc/ptbs/pcs lines",
           "field-by-field agreement with crypto/x509 of go1.24.1 on encoder-issued certificates is correspondence-only (no Lean model of the extension payloads)"]
ASSUMPTIONS = ["a Go function returns through one of its return statements (their shapes are regenerated into Gen.X509Shapes; InnerOK is derived from them and additionally checked on every case by the harness)",
               "crypto/x509.CreateCertificate stands for 'a conforming encoder'"]

def is_nontrivial(op, impl):
    return not impl.endswith("fatal") and impl != "panic"
