PROPS = ["CTV.Props.C11"]
HARNESS = [dict(pkg="./x509/", test="TestVerifC11", timeout=1200)]
RULE = ("certificates, CRLs, keys and CSRs from /repo/testdata, /repo/trillian/testdata, x509/testdata (incl. testdata/invalid) and the package's own test vectors, "
        "certificates issued by crypto/x509.CreateCertificate from random templates over every extension the fork interprets, structure-preserving mutations of all of "
        "them (DER tree edited, enclosing lengths recomputed; typed mutations reach the lax relaxations), concatenations of 1-4 accepted certificates, random bytes; "
        "through all twelve entry points; non-trivial = distinct operation lines whose implementation answer is not 'fatal'")
TRUSTED = ["parseCertificate's payload processing (names, keys, extension contents) is an oracle to the wrapper model: its observed (object, error) result is an input of the pc/ptbs/pcs lines",
           "field-by-field agreement with crypto/x509 of go1.24.1 on encoder-issued certificates is correspondence-only (no Lean model of the extension payloads)"]
ASSUMPTIONS = ["InnerOK: parseCertificate returns (object, nil | NonFatalErrors) or (nil, fatal error) (checked on every case by the harness)",
               "crypto/x509.CreateCertificate stands for 'a conforming encoder'"]

def is_nontrivial(op, impl):
    return not impl.endswith("fatal") and impl != "panic"
