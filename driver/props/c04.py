PROPS = ["CTV.Props.C04"]
HARNESS = [dict(pkg=".", test="TestVerifC04", timeout=900)]
RULE = ("tls.Marshal / tls.Unmarshal of the exported ct types and the serialization.go functions at the length boundaries "
        "{0,1,255,256,65535,65536}, both entry types, all 256 hash / signature codes, empty and long chains, mutated byte strings; "
        "every line answered by the Lean RFC transcription; non-trivial = distinct lines with a successful encoding / decoding")
TRUSTED = ["encoding/json, encoding/base64 (observed through the API message types)", "crypto/sha256 (leaf hash compared with SHA-256(0x00 || leaf) computed in the harness)"]
ASSUMPTIONS = ["RFC 6962 / RFC 5246 text as transcribed in CTV/Rfc6962/Wire.lean"]

def is_nontrivial(op, impl):
    return impl != "err"
