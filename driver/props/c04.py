PROPS = ["CTV.Props.C04", "CTV.Props.C04SctList", "CTV.Props.C04Wrappers", "CTV.Props.C04Tie", "CTV.Model.CtWrappersSpec"]
HARNESS = [dict(pkg=".", test="TestVerifC04", timeout=900), dict(pkg="./trillian/util/", test="TestVerifC04Util", timeout=900),
           dict(pkg="./x509util/", test="TestVerifC04X509util", timeout=900)]
RULE = ("tls.Marshal / tls.Unmarshal of the exported ct types, the serialization.go functions and the JSON message conversions at the length "
        "boundaries {0,1,255,256,65535,65536} (2^24-1 once in the thorough tier), both entry types, all 256 hash / signature codes, empty and "
        "long chains, SCT lists around 65335/65535, mutated byte strings, BuildLogLeaf / ExtraDataForChain for chains of length 0..N, x509util.ParseSCTsFromCertificate on certificates with hand-encoded SCT-list extension bodies, real JSON messages in both directions; every line is answered by the Lean RFC transcription; "
        "non-trivial = distinct lines with a successful encoding / decoding")
TRUSTED = ["encoding/json and encoding/base64 are run for real (json.Marshal / json.Unmarshal of the eight RFC 6962 section 4 messages, the DigitallySigned / "
           "SHA256Hash / SignedTreeHead JSON methods) and compared with a Lean JSON printer / parser and base64; they are not modelled beyond that",
           "crypto/sha256 (LeafHashForLeaf compared bit for bit with the Lean SHA-256 of 0x00 || leaf)"]
ASSUMPTIONS = ["RFC 6962 sections 2.1, 3.1-3.5, 4.6 and RFC 5246 sections 4.3-4.7 as transcribed in CTV/Rfc6962/Wire.lean",
               "the repository's JSON entry type 0x8000 is an extension outside RFC 6962 and outside the equalities"]


def is_nontrivial(op, impl):
    return impl != "err"
