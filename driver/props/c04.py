import json, os

_ROOT = os.path.dirname(os.path.dirname(os.path.dirname(os.path.abspath(__file__))))


def _f4_known():
    """F4 (`maxlen:65335` on x509.SignedCertificateTimestampList) is still listed as an open finding."""
    try:
        fs = json.load(open(os.path.join(_ROOT, "known_findings.json"))).get("findings", [])
    except OSError:
        return False
    return any(f.get("property") == "C04" and f.get("id") == "F4" and f.get("status") == "known" for f in fs)


# CTV.Props.C04SctList states the SCT-list equalities at full strength (RFC 6962 section 3.3, ceiling 2^16-1).  They are false
# for the tag `maxlen:65335`, so while F4 is an open (known) finding the module is not an obligation: the check then
# relies on C04.enc_sctList_sound / dec_sctList_sound plus the harness, which exhibits the failing lengths
# 65336..65535 on every run.  As soon as the finding is marked fixed (or removed) the full theorems are demanded.
# VERIF_C04_FULL=1 forces them (used to validate fixes/C04-1.diff on a scratch tree).
PROPS = ["CTV.Props.C04"] + ([] if (_f4_known() and not os.environ.get("VERIF_C04_FULL")) else ["CTV.Props.C04SctList"])
HARNESS = [dict(pkg=".", test="TestVerifC04", timeout=900)]
RULE = ("tls.Marshal / tls.Unmarshal of the exported ct types, the serialization.go functions and the JSON message conversions at the length "
        "boundaries {0,1,255,256,65535,65536} (2^24-1 once in the thorough tier), both entry types, all 256 hash / signature codes, empty and "
        "long chains, SCT lists around 65335/65535, mutated byte strings; every line is answered by the Lean RFC transcription; "
        "non-trivial = distinct lines with a successful encoding / decoding")
TRUSTED = ["encoding/json, encoding/base64 (observed through the API message types)",
           "crypto/sha256 (LeafHashForLeaf compared with SHA-256(0x00 || leaf) computed in the harness)"]
ASSUMPTIONS = ["RFC 6962 sections 2.1, 3.1-3.5, 4.6 and RFC 5246 sections 4.3-4.7 as transcribed in CTV/Rfc6962/Wire.lean",
               "the repository's JSON entry type 0x8000 (XJSONLogEntryType) is an extension outside RFC 6962 and outside the equalities"]


def is_nontrivial(op, impl):
    return impl != "err"
