PROPS = ["CTV.Props.C09"]
HARNESS = [dict(pkg="./tls/", test="TestVerifC09", timeout=900)]
RULE = ("Go types generated with reflect.StructOf from the tag grammar x generated values x (valid encodings, truncations, bit flips, random bytes); "
        "non-trivial = distinct lines on which the implementation encoded or decoded successfully")
TRUSTED = ["reflect (reflect.StructOf builds the generated types)"]
ASSUMPTIONS = ["Go uint64 arithmetic wraps modulo 2^64 (U64.shl / U64.mul in the regenerated check kernel)"]

def is_nontrivial(op, impl):
    return impl.startswith("ok")
