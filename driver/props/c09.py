PROPS = ["CTV.Props.C09", "CTV.Props.C09Width8"]
HARNESS = [dict(pkg="./tls/", test="TestVerifC09", timeout=1500)]
RULE = ("Go types generated with reflect.StructOf from the tag grammar (depth <= 4, variants anywhere after their selector, bounds at each "
        "1..8-byte boundary, plus a corpus of shapes outside the well-formed grammar) x generated values x (valid encodings, truncations, "
        "bit flips, random bytes); the Go type shape and the raw tag strings travel in the line and are resolved by the Lean model of "
        "fieldTagToFieldInfo; non-trivial = distinct lines on which the implementation encoded or decoded successfully")
TRUSTED = ["reflect (reflect.StructOf builds the generated types; the tls package itself is driven through reflection)"]
ASSUMPTIONS = ["Go uint64 arithmetic wraps modulo 2^64 and shifts >= 64 give 0 (U64.shl / U64.mul in the regenerated check kernel)",
               "Ty.wf (size clause of 1..8 bytes on every enum / length, vector elements of positive width) for dec_enc; none for enc_dec"]


def is_nontrivial(op, impl):
    return impl.startswith("ok")
