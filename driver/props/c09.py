import json, os

_ROOT = os.path.dirname(os.path.dirname(os.path.dirname(os.path.abspath(__file__))))


def _known(fid):
    try:
        fs = json.load(open(os.path.join(_ROOT, "known_findings.json"))).get("findings", [])
    except OSError:
        return False
    return any(f.get("property") == "C09" and f.get("id") == fid and f.get("status") == "known" for f in fs)


# CTV.Props.C09TagWidth (`tag_width`: every width fieldTagToFieldInfo lets through is 1..8) is false for the tree without
# fixes/C09-5.diff (finding F14).  While F14 is an open (known) finding the module elaborates to nothing (#when) and is not an
# obligation; the harness exhibits the panic on every run.  Once the finding is marked fixed the theorem is demanded.
# VERIF_C09_FULL=1 forces it (used to validate the fix on a scratch tree).
PROPS = ["CTV.Props.C09", "CTV.Props.C09Width8", "CTV.Props.C09Tie", "CTV.Model.TlsSpec"] + ([] if (_known("F14") and not os.environ.get("VERIF_C09_FULL")) else ["CTV.Props.C09TagWidth"])
HARNESS = [dict(pkg="./tls/", test="TestVerifC09", timeout=1500)]
RULE = ("Go types generated with reflect.StructOf from the tag grammar (depth <= 4, variants anywhere after their selector, bounds at each "
        "1..8-byte boundary, plus a corpus of shapes outside the well-formed grammar) x generated values x (valid encodings, truncations, "
        "bit flips, random bytes); the Go type shape and the raw tag strings travel in the line and are resolved by the Lean model of "
        "fieldTagToFieldInfo; non-trivial = distinct lines on which the implementation encoded or decoded successfully")
TRUSTED = ["reflect (reflect.StructOf builds the generated types; the tls package itself is driven through reflection)"]
ASSUMPTIONS = ["Go uint64 arithmetic wraps modulo 2^64 and shifts >= 64 give 0 (U64.shl / U64.mul in the regenerated check kernel)",
               "Ty.wf (size clause of 1..8 bytes on every enum / length, vector elements of positive width) for dec_enc; none for enc_dec"]


def is_nontrivial(op, impl):
    return impl.startswith("ok")
