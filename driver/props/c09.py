import json, os

_ROOT = os.path.dirname(os.path.dirname(os.path.dirname(os.path.abspath(__file__))))


def _f2_known():
    """F2 (`1 << (8*count)` wraps for count = 8 in fieldInfo.check) is still listed as an open finding."""
    try:
        fs = json.load(open(os.path.join(_ROOT, "known_findings.json"))).get("findings", [])
    except OSError:
        return False
    return any(f.get("property") == "C09" and f.get("id") == "F2" and f.get("status") == "known" for f in fs)


# CTV.Props.C09Width8 states `check_spec` for all widths 1..8.  It is false for the unchanged tree at width 8, so while F2
# is an open (known) finding the module is not an obligation (C09.check_sound for all widths and check_spec_partial for
# widths <= 7 stand, the harness exhibits the refused 8-byte values on every run).  Once the finding is marked fixed the
# full theorem is demanded.  VERIF_C09_FULL=1 forces it (used to validate fixes/C09-2.diff on a scratch tree).
PROPS = ["CTV.Props.C09"] + ([] if (_f2_known() and not os.environ.get("VERIF_C09_FULL")) else ["CTV.Props.C09Width8"])
HARNESS = [dict(pkg="./tls/", test="TestVerifC09", timeout=1500)]
RULE = ("Go types generated with reflect.StructOf from the tag grammar (depth <= 4, variants anywhere after their selector, bounds at each "
        "1..8-byte boundary, plus a corpus of shapes outside the well-formed grammar) x generated values x (valid encodings, truncations, "
        "bit flips, random bytes); the Go type shape and the raw tag strings travel in the line and are resolved by the Lean model of "
        "fieldTagToFieldInfo; non-trivial = distinct lines on which the implementation encoded or decoded successfully")
TRUSTED = ["reflect (reflect.StructOf builds the generated types; the tls package itself is driven through reflection)"]
ASSUMPTIONS = ["Go uint64 arithmetic wraps modulo 2^64 and shifts >= 64 give 0 (U64.shl / U64.mul in the regenerated check kernel)",
               "Ty.wf (size clause of 1..8 bytes on every enum / length, vector elements of positive width) for dec_enc; none for enc_dec"]


def is_nontrivial(op, impl):
    return impl.startswith("ok")
