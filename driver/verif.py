#!/usr/bin/env python3
"""Orchestrator for /verif checks.  ./check <ID> [--tier quick|thorough] [--replay file]

Verdict procedure (DESIGN.md 3.6):
  1 extract   : regenerate lean/CTV/Gen from $VERIF_REPO's working tree
  2 proof     : lake build CTV.Props.<ID> + generated axiom audit
  3 corr      : Go harness (overlay, real code in-process) -> trace; ctvmodel replays it; diff
  4 search    : implementation-side property oracle (F lines of the harness) + model-side search
"""
import argparse, fcntl, hashlib, importlib, json, os, re, subprocess, sys, time

ROOT = os.path.dirname(os.path.dirname(os.path.abspath(__file__)))
REPO = os.environ.get("VERIF_REPO", "/repo")
BUILD = os.path.join(ROOT, "build")
LEAN = os.path.join(ROOT, "lean")
ALLOWED_AXIOMS = {"propext", "Classical.choice", "Quot.sound"}
FORBIDDEN = re.compile(r"\b(sorry|admit|native_decide|bv_decide|implemented_by|unsafe)\b|^\s*axiom\s|maxHeartbeats\s+0\b")

sys.path.insert(0, os.path.join(ROOT, "driver"))


def goenv(extra=None):
    e = dict(os.environ)
    e.update({"GOFLAGS": "-mod=mod", "GOPROXY": "off", "GOTOOLCHAIN": e.get("GOTOOLCHAIN", "auto")})
    e.pop("GOSUMDB", None)
    if extra:
        e.update(extra)
    return e


def sh(cmd, cwd=None, env=None, timeout=None):
    t0 = time.time()
    try:
        p = subprocess.run(cmd, cwd=cwd, env=env, stdout=subprocess.PIPE, stderr=subprocess.STDOUT, timeout=timeout, text=True, errors="replace")
        return p.returncode, p.stdout, time.time() - t0
    except subprocess.TimeoutExpired as ex:
        o = ex.stdout or ""
        if isinstance(o, bytes):
            o = o.decode(errors="replace")
        return 124, o + "\n[timeout]", time.time() - t0


class Lock:
    def __init__(self, name):
        os.makedirs(BUILD, exist_ok=True)
        self.path = os.path.join(BUILD, name + ".lock")

    def __enter__(self):
        self.f = open(self.path, "w")
        fcntl.flock(self.f, fcntl.LOCK_EX)

    def __exit__(self, *a):
        fcntl.flock(self.f, fcntl.LOCK_UN)
        self.f.close()


# ----------------------------------------------------------------------------- extract

def build_extract():
    exe = os.path.join(BUILD, "extract")
    srcs = [os.path.join(ROOT, "extract", f) for f in sorted(os.listdir(os.path.join(ROOT, "extract"))) if f.endswith(".go")]
    if os.path.exists(exe) and all(os.path.getmtime(s) <= os.path.getmtime(exe) for s in srcs):
        return exe, ""
    e = goenv({"GOTOOLCHAIN": "local"})
    rc, out, _ = sh(["go", "build", "-o", exe, "."], cwd=os.path.join(ROOT, "extract"), env=e)
    if rc != 0:
        raise SystemExit("cannot build extractor:\n" + out)
    return exe, out


def run_extract():
    """returns list of EXTRACT-FAIL lines (empty = ok)"""
    exe, _ = build_extract()
    rc, out, _ = sh([exe, "-repo", REPO, "-out", os.path.join(LEAN, "CTV", "Gen")])
    fails = [l for l in out.splitlines() if l.startswith("EXTRACT-FAIL")]
    if rc not in (0, 2):
        fails.append("EXTRACT-FAIL extractor crashed: " + out[-400:])
    return fails


# ----------------------------------------------------------------------------- lean

def strip_comments(src):
    src = re.sub(r"/-.*?-/", lambda m: "\n" * m.group(0).count("\n"), src, flags=re.S)
    return re.sub(r"--.*", "", src)


def prop_theorems(pid, modules):
    """(names, n_examples, forbidden hits) for the property modules"""
    names, nex, bad = [], 0, []
    for mod in modules:
        path = os.path.join(LEAN, *mod.split(".")) + ".lean"
        src = strip_comments(open(path).read())
        ns = []
        for line in src.splitlines():
            m = re.match(r"\s*namespace\s+(\S+)", line)
            if m:
                ns.append(m.group(1))
            m = re.match(r"\s*end\s+(\S+)", line)
            if m and ns and ns[-1] == m.group(1):
                ns.pop()
            m = re.match(r"\s*(?:private\s+|protected\s+)?(?:theorem|lemma)\s+([^\s:({\[]+)", line)
            if m:
                names.append(".".join(ns + [m.group(1)]))
            if re.match(r"\s*example\b", line):
                nex += 1
            if FORBIDDEN.search(line):
                bad.append(f"{mod}: {line.strip()}")
    return names, nex, bad


def scan_forbidden_all():
    bad = []
    for dp, _, fs in os.walk(os.path.join(LEAN, "CTV")):
        for f in fs:
            if f.endswith(".lean"):
                src = strip_comments(open(os.path.join(dp, f)).read())
                for line in src.splitlines():
                    if FORBIDDEN.search(line):
                        bad.append(f"{os.path.relpath(os.path.join(dp, f), LEAN)}: {line.strip()}")
    return bad


def gen_main():
    """CTV/Driver/Main.lean dispatches to every CTV/Driver/Cxx.lean present; CTV/Driver/MainCxx.lean is the root of the
    per-property executable ctvmodel_cxx (a check builds and runs only its own: a tie broken for one property must not
    stop another property's model from building)."""
    ddir = os.path.join(LEAN, "CTV", "Driver")
    mods = sorted(f[:-5] for f in os.listdir(ddir) if re.fullmatch(r"C\d+\.lean", f))
    s = "-- GENERATED by driver/verif.py from the list of CTV/Driver/Cxx.lean files.\n"
    s += "".join(f"import CTV.Driver.{m}\n" for m in mods)
    s += "\ndef main (args : List String) : IO UInt32 := do\n  match args with\n"
    for m in mods:
        s += f"  | \"{m}\" :: rest => CTV.Driver.{m}.run rest\n"
    s += "  | _ => do IO.eprintln \"usage: ctvmodel <property> [args]\"; return 64\n"
    files = {"Main.lean": s}
    for m in mods:
        files[f"Main{m}.lean"] = (f"-- GENERATED by driver/verif.py: root of the executable ctvmodel_{m.lower()}.\nimport CTV.Driver.{m}\n\n"
                                  f"def main (args : List String) : IO UInt32 := CTV.Driver.{m}.run args\n")
    for name, txt in files.items():
        p = os.path.join(ddir, name)
        if not os.path.exists(p) or open(p).read() != txt:
            open(p, "w").write(txt)


def import_closure(mods):
    """Lean modules (CTV.*) transitively imported by the given modules"""
    seen, todo = set(), list(mods)
    while todo:
        m = todo.pop()
        if m in seen or not m.startswith("CTV."):
            continue
        seen.add(m)
        p = os.path.join(LEAN, *m.split(".")) + ".lean"
        try:
            for l in open(p):
                mm = re.match(r"\s*import\s+(\S+)", l)
                if mm:
                    todo.append(mm.group(1))
        except OSError:
            pass
    return seen


def extract_fail_modules():
    """unit name -> generated module, read from the `-- EXTRACT-FAIL <unit>: …` markers the extractor leaves in CTV/Gen"""
    res = {}
    gdir = os.path.join(LEAN, "CTV", "Gen")
    for f in os.listdir(gdir):
        if f.endswith(".lean"):
            for l in open(os.path.join(gdir, f), errors="replace"):
                mm = re.match(r"-- EXTRACT-FAIL (\S+?):", l)
                if mm:
                    res[mm.group(1)] = "CTV.Gen." + f[:-5]
    return res


def lake(targets, timeout=3000):
    rc, out, dt = sh(["lake", "build"] + targets, cwd=LEAN, timeout=timeout)
    return rc, out, dt


def lean_errors(out):
    errs = []
    for l in out.splitlines():
        if l.startswith("error:") and "build failed" not in l and "Lean exited" not in l:
            errs.append(l)
    return errs


def failing_decls(out, modules):
    """names of declarations whose proof no longer checks, from error positions"""
    res = set()
    for m in re.finditer(r"error: (CTV/\S+?\.lean):(\d+):", out):
        path, ln = os.path.join(LEAN, m.group(1)), int(m.group(2))
        try:
            lines = open(path).read().splitlines()
        except OSError:
            continue
        for i in range(min(ln, len(lines)) - 1, -1, -1):
            mm = re.match(r"\s*(?:private\s+)?(theorem|lemma|example|def)\s*([^\s:({\[]*)", lines[i])
            if mm:
                res.add(f"{m.group(1)}:{mm.group(1)} {mm.group(2)}".strip())
                break
    return sorted(res)


def run_audit(pid, names):
    adir = os.path.join(LEAN, "audit")  # outside the library globs: generated per run, never part of `lake build`
    os.makedirs(adir, exist_ok=True)
    cfg = load_prop(pid)
    s = "-- GENERATED by driver/verif.py: axiom audit of every theorem of the property modules.\n"
    s += "".join(f"import {m}\n" for m in cfg.PROPS)
    s += "".join(f"#print axioms {n}\n" for n in names)
    p = os.path.join(adir, pid + ".lean")
    if not os.path.exists(p) or open(p).read() != s:
        open(p, "w").write(s)
    rc, out, dt = sh(["lake", "env", "lean", p], cwd=LEAN, timeout=3000)
    axioms, seen = {}, set()
    for m in re.finditer(r"'([^']+)' depends on axioms: \[([^\]]*)\]", out):
        axioms[m.group(1)] = [a.strip() for a in m.group(2).replace("\n", " ").split(",") if a.strip()]
        seen.add(m.group(1))
    for m in re.finditer(r"'([^']+)' does not depend on any axioms", out):
        axioms[m.group(1)] = []
        seen.add(m.group(1))
    bad = {n: [a for a in ax if a not in ALLOWED_AXIOMS] for n, ax in axioms.items()}
    bad = {n: a for n, a in bad.items() if a}
    missing = [n for n in names if n not in seen]
    return rc, out, axioms, bad, missing


# ----------------------------------------------------------------------------- harness

LOWLEVEL_PKGS = {"./asn1", "./tls", "./x509", "./x509/pkix", "./x509util", ".", "./"}


def build_overlay(pkg="", synctest=False):
    """overlay JSON for a harness run. Packages at the bottom of the repo's import graph (asn1, tls, x509, the root ct
    package) get a verifkit without the files that import repo packages (they would close an import cycle)."""
    repl = {}
    hdir = os.path.join(ROOT, "harness")
    low = pkg.rstrip("/") in LOWLEVEL_PKGS or pkg in LOWLEVEL_PKGS
    for dp, _, fs in os.walk(hdir):
        rel = os.path.relpath(dp, hdir)
        for f in fs:
            if not f.endswith(".go"):
                continue
            if not synctest and '"testing/synctest"' in open(os.path.join(dp, f)).read():
                continue  # virtual-time harnesses only compile with GOEXPERIMENT=synctest
            if low and rel.split(os.sep)[0] == "verifkit" and "github.com/google/certificate-transparency-go" in open(os.path.join(dp, f)).read().replace("certificate-transparency-go/internal/verifkit", ""):
                continue
            if rel.split(os.sep)[0] == "verifkit":
                dst = os.path.join(REPO, "internal", rel, f)
            else:
                dst = os.path.join(REPO, rel, f)
            repl[dst] = os.path.join(dp, f)
    os.makedirs(BUILD, exist_ok=True)
    tag = hashlib.sha1((REPO + ("|low" if low else "") + ("|st" if synctest else "")).encode()).hexdigest()[:8]
    p = os.path.join(BUILD, f"overlay-{tag}.json")
    s = json.dumps({"Replace": repl}, indent=1, sort_keys=True)
    if not os.path.exists(p) or open(p).read() != s:
        open(p, "w").write(s)
    return p


def run_harness(pid, h, tier, seed, outpath):
    """h: dict(pkg=, test=, synctest=False, race=False, timeout=, env={})"""
    ov = build_overlay(h["pkg"], bool(h.get("synctest")))
    env = {"VERIF_OUT": outpath, "VERIF_SEED": str(seed), "VERIF_TIER": tier, "VERIF_DIR": ROOT, "GOMEMLIMIT": "6GiB"}
    env.update(h.get("env", {}))
    if h.get("synctest"):
        env["GOEXPERIMENT"] = "synctest"
    cmd = ["go", "test", "-tags", "verif", "-vet=off", "-count=1", "-overlay", ov, "-run", "^" + h["test"] + "$"]
    if h.get("race"):
        cmd.append("-race")
    to = h.get("timeout", 600 if tier == "quick" else 3000)
    cmd += ["-timeout", f"{to}s", h["pkg"]]
    if os.path.exists(outpath):
        os.remove(outpath)
    rc, out, dt = sh(cmd, cwd=REPO, env=goenv(env), timeout=to + 60)
    return rc, out, dt


def parse_trace(path):
    T, F, S, X, ended = [], [], {}, [], False
    if not os.path.exists(path):
        return T, F, S, X, ended
    with open(path, errors="replace") as f:
        for line in f:
            line = line.rstrip("\n")
            if line.startswith("T "):
                T.append(line[2:])
            elif line.startswith("F "):
                k, _, d = line[2:].partition(" | ")
                F.append((k, d))
            elif line.startswith("S "):
                k, _, v = line[2:].rpartition(" ")
                S[k] = S.get(k, 0) + int(v)
            elif line.startswith("X "):
                X.append(line[2:])
            elif line == "END":
                ended = True
    return T, F, S, X, ended


def run_model(pid, tlines, args=(), exe=None):
    exe = exe or os.path.join(LEAN, ".lake", "build", "bin", f"ctvmodel_{pid.lower()}")
    inp = "\n".join(l.split(" => ")[0] for l in tlines) + ("\n" if tlines else "")
    p = subprocess.run([exe] + list(args), input=inp, stdout=subprocess.PIPE, stderr=subprocess.PIPE, text=True, errors="replace")
    return p.returncode, p.stdout.splitlines(), p.stderr


# ----------------------------------------------------------------------------- findings / verdict

def load_known():
    p = os.path.join(ROOT, "known_findings.json")
    if not os.path.exists(p):
        return []
    return json.load(open(p)).get("findings", [])


def load_prop(pid):
    return importlib.import_module("props." + pid.lower())


def write_replay(pid, tier, seed, payload):
    payload["repo"] = REPO
    os.makedirs(os.path.join(ROOT, "replays"), exist_ok=True)
    p = os.path.join(ROOT, "replays", f"{pid}-{tier}-{seed}.json")
    json.dump(payload, open(p, "w"), indent=1)
    return p


def main():
    ap = argparse.ArgumentParser()
    ap.add_argument("pid")
    ap.add_argument("--tier", default=os.environ.get("VERIF_TIER", "quick"))
    ap.add_argument("--replay")
    ap.add_argument("--keep", action="store_true")
    a = ap.parse_args()
    pid, tier = a.pid.upper(), a.tier
    seed = int(os.environ.get("VERIF_SEED", "1") or 1)
    if a.replay:
        rp = json.load(open(a.replay))
        tier, seed = rp.get("tier", tier), rp.get("seed", seed)
    os.environ["VERIF_TIER"] = tier
    t0 = time.time()
    cfg = load_prop(pid)
    problems = []      # (kind, text) obligations that no longer check
    confirmed = []     # (key, detail) concrete failing inputs of the property on the implementation
    notes = []

    # 1+2: extract and proofs (serialised: the Lean build directory is shared)
    with Lock("lean"):
        xf = run_extract()
        gen_main()
        # only the regenerated units this property's theorems and model depend on count (import closure of its modules)
        closure = import_closure(list(cfg.PROPS) + [f"CTV.Driver.{pid}"])
        fmods = extract_fail_modules()
        for l in xf:
            unit = (l.split() + ["", ""])[1]
            mod = fmods.get(unit)
            if mod is None or mod in closure:
                problems.append(("TIE(extract)", l))
            else:
                notes.append(f"extraction failure outside this property's modules ignored: {l[:160]}")
        names, nex, bad = prop_theorems(pid, cfg.PROPS)
        for b in bad + scan_forbidden_all():
            problems.append(("PROOF(forbidden)", b))
        exe_name = f"ctvmodel_{pid.lower()}"
        rc, out, dt_build = lake(cfg.PROPS + [exe_name])
        build_ok = rc == 0
        if build_ok:
            # every module of this property compiled although some unit of an imported generated module failed to extract:
            # a failed unit leaves no definition behind, so nothing this property proves or runs uses it
            kept = []
            for k, t in problems:
                if k == "TIE(extract)":
                    notes.append(f"extraction failure of a unit this property does not use ignored: {t[:160]}")
                else:
                    kept.append((k, t))
            problems = kept
        if not build_ok:
            # try the model driver alone so that the search can still run
            for d in failing_decls(out, cfg.PROPS):
                problems.append(("PROOF", d))
            if not failing_decls(out, cfg.PROPS):
                problems.append(("PROOF", "lake build failed: " + " | ".join(lean_errors(out)[:5])))
            rc2, out2, _ = lake([exe_name])
            model_ok = rc2 == 0
            if not model_ok:
                problems.append(("TIE(model-build)", " | ".join(lean_errors(out2)[:5])))
        else:
            model_ok = True
        # the Lean build directory and CTV/Gen are shared: take a private copy of the driver that was built from *this* run's
        # regenerated definitions before another run (possibly against another tree) rebuilds it
        model_exe = os.path.join(BUILD, f"ctvmodel-{os.getpid()}")
        if model_ok:
            import shutil
            shutil.copy2(os.path.join(LEAN, ".lake", "build", "bin", exe_name), model_exe)
        axioms = {}
        if build_ok:
            rc, aout, axioms, badax, missing = run_audit(pid, names)
            for n, ax in badax.items():
                problems.append(("PROOF(axiom)", f"{n} depends on {ax}"))
            for n in missing:
                problems.append(("PROOF(audit)", f"{n} not reported by #print axioms"))
        if tier == "thorough" and build_ok and getattr(cfg, "LEANCHECKER", True):
            for mod in cfg.PROPS:
                rc, o, _ = sh(["lake", "env", "leanchecker", mod], cwd=LEAN, timeout=3000)
                if rc != 0:
                    problems.append(("PROOF(leanchecker)", f"{mod}: {o[-300:]}"))
                else:
                    notes.append(f"leanchecker {mod}: ok")

    # 3: correspondence, 4a: implementation-side oracle
    stats, samples, evals, mism, harness_out, distinct = {}, [], 0, [], [], set()
    for h in cfg.HARNESS:
        hp = os.path.join(BUILD, f"{pid}-{h['test']}-{tier}-{seed}-{os.getpid()}.trace")
        rc, out, dt = run_harness(pid, h, tier, seed, hp)
        T, F, S, X, ended = parse_trace(hp)
        harness_out.append({"test": h["test"], "pkg": h["pkg"], "rc": rc, "wall_s": round(dt, 1), "trace_lines": len(T), "prop_failures": len(F)})
        if rc != 0 or not ended:
            tail = "\n".join(out.splitlines()[-25:])
            kind = "TIE(harness-build)" if "[build failed]" in out or "[setup failed]" in out else "TIE(harness-run)"
            problems.append((kind, f"{h['test']} rc={rc} ended={ended}: {tail}"))
        for k, v in S.items():
            stats[k] = stats.get(k, 0) + v
        samples += X
        evals += len(T)
        isnt = getattr(cfg, "is_nontrivial", lambda op, impl: True)
        for tl in T:
            op, _, impl = tl.partition(" => ")
            if isnt(op, impl):
                distinct.add(hashlib.sha1(op.encode()).digest()[:10])
        confirmed += [(h["test"] + ": " + k, d) for k, d in F]
        if T and model_ok and h.get("model", True):
            mrc, mout, merr = run_model(pid, T, h.get("model_args", ()), model_exe)
            if mrc != 0 or len(mout) != len(T):
                problems.append(("TIE(model-run)", f"ctvmodel rc={mrc} lines={len(mout)}/{len(T)} {merr[-300:]}"))
            for i, (tl, ml) in enumerate(zip(T, mout)):
                op, _, impl = tl.partition(" => ")
                if ml.strip() == "skip":
                    stats["model:skip"] = stats.get("model:skip", 0) + 1
                    continue
                if impl.strip() != ml.strip():
                    mism.append({"op": op[:2000], "impl": impl[:2000], "model": ml[:2000]})
        if not a.keep and os.path.exists(hp):
            os.remove(hp)
    for mm in mism[:20]:
        problems.append(("CORR", json.dumps(mm)))
    if len(mism) > 20:
        problems.append(("CORR", f"... {len(mism) - 20} more disagreements"))

    # 4b: model-side search, only when something broke and the property offers one
    if problems and model_ok and hasattr(cfg, "search"):
        try:
            confirmed += cfg.search(sys.modules[__name__], tier, seed)
        except Exception as ex:  # the search is best effort
            notes.append(f"model-side search failed: {ex}")

    # verdict
    known = [k for k in load_known() if k.get("property") == pid and k.get("status") == "known"]
    unknown, printed = [], set()
    for key, detail in confirmed:
        hit = next((k for k in known if re.fullmatch(k["key"], key)), None)
        if hit:
            if hit["key"] not in printed:
                printed.add(hit["key"])
                print(f"KNOWN-FINDING: property={pid} {hit['what']}")
        else:
            unknown.append((key, detail))
    for k in known:
        if k["key"] not in printed and not k.get("proof_only"):
            notes.append(f"stale known finding (did not reproduce on this run): {k['key']}")
    # problems explained by a known finding: a known entry may name the obligations it breaks
    excused = set()
    for k in known:
        if k["key"] in printed or k.get("proof_only"):
            for pat in k.get("breaks", []):
                for i, (kind, text) in enumerate(problems):
                    if re.search(pat, kind + " " + text):
                        excused.add(i)
            if k.get("proof_only") and k["key"] not in printed and any(True for i in excused):
                print(f"KNOWN-FINDING: property={pid} {k['what']}")
                printed.add(k["key"])
    open_problems = [p for i, p in enumerate(problems) if i not in excused]

    violation, replay = False, None
    if unknown:
        violation = True
        replay = write_replay(pid, tier, seed, {"property": pid, "tier": tier, "seed": seed, "kind": "failing-input",
            "failing_inputs": [{"key": k, "observed": d} for k, d in unknown[:50]],
            "broken_obligations": [f"{k}: {t}" for k, t in open_problems[:50]],
            "rerun": f"VERIF_SEED={seed} ./check {pid} --tier {tier}"})
        print(f"VIOLATION property={pid} replay={replay}")
    elif open_problems:
        violation = True
        replay = write_replay(pid, tier, seed, {"property": pid, "tier": tier, "seed": seed, "kind": "no-failing-input-found",
            "broken_obligations": [f"{k}: {t}" for k, t in open_problems[:80]],
            "rerun": f"VERIF_SEED={seed} ./check {pid} --tier {tier}"})
        print(f"VIOLATION property={pid} replay={replay} no-failing-input-found")

    # evidence
    nontrivial = len(distinct)
    ev = {
        "property_id": pid, "tier": tier, "seed": seed, "level": "proof",
        "coverage": {
            "obligations": len(names) + nex,
            "discharged": (len(names) + nex) if build_ok and not any(k.startswith("PROOF") for k, _ in problems) else 0,
            "checker_cmd": f"cd {LEAN} && lake build {' '.join(cfg.PROPS)} && lake env lean audit/{pid}.lean" + (" && lake env leanchecker <Props modules>" if tier == "thorough" else ""),
            "trusted_base": ["Lean 4.33.0 kernel", "axioms: " + ", ".join(sorted({a for ax in axioms.values() for a in ax}) or ["none"]),
                             "extract/ (Go->Lean translator for the regenerated kernels)", "correspondence harness + driver/verif.py"] + list(getattr(cfg, "TRUSTED", [])),
            "theorems": names, "examples": nex, "axioms_per_theorem": axioms,
            "evaluations": evals, "distinct_nontrivial": nontrivial,
            "rule": getattr(cfg, "RULE", "correspondence cases generated from VERIF_SEED by the Go harness; non-trivial = reached a non-error or boundary class (class:* counters)"),
            "samples": samples[:8] if samples else [f"theorem {n}" for n in names[:5]],
            "histogram": stats, "harness": harness_out, "correspondence_disagreements": len(mism),
            "impl_property_failures": len(confirmed), "known_findings_reproduced": sorted(printed),
            "broken_obligations": [f"{k}: {t}"[:400] for k, t in problems][:40], "notes": notes,
            "exhaustive": bool(getattr(cfg, "EXHAUSTIVE", False)),
        },
        "assumptions": list(getattr(cfg, "ASSUMPTIONS", [])),
        "wall_s": round(time.time() - t0, 1),
        "violations": (len(unknown) or len(open_problems)) if violation else 0,
    }
    if os.path.exists(model_exe):
        os.remove(model_exe)
    if os.path.realpath(REPO) != "/repo":
        # leave the shared CTV/Gen as /repo defines it (a scratch or mutant tree must never linger in the committed files)
        with Lock("lean"):
            exe, _ = build_extract()
            sh([exe, "-repo", "/repo", "-out", os.path.join(LEAN, "CTV", "Gen")])
    # evidence of runs against a scratch copy (VERIF_REPO) never overwrites the committed evidence of /repo
    evdir = os.path.join(ROOT, "evidence") if os.path.realpath(REPO) == "/repo" else os.path.join(BUILD, "evidence-scratch")
    os.makedirs(evdir, exist_ok=True)
    json.dump(ev, open(os.path.join(evdir, pid + ".json"), "w"), indent=1)
    print(f"{pid} {tier} seed={seed}: theorems={len(names)} examples={nex} build={'ok' if build_ok else 'FAILED'} corr={evals} lines, {len(mism)} disagreements, impl-failures={len(confirmed)} ({len(unknown)} unlisted), wall={ev['wall_s']}s")
    for k, t in open_problems[:12]:
        print(f"  broken: {k}: {t[:300]}")
    for k, d in unknown[:8]:
        print(f"  failing input: {k} -> {d[:300]}")
    sys.exit(1 if violation else 0)


if __name__ == "__main__":
    main()
