#!/bin/sh
# Build everything the checks need, offline, from files on disk only.
set -e
cd "$(dirname "$0")"
mkdir -p build evidence replays
(cd extract && GOFLAGS=-mod=mod GOPROXY=off GOTOOLCHAIN=local go build -o ../build/extract .)
./build/extract -repo "${VERIF_REPO:-/repo}" -out lean/CTV/Gen || true
python3 -c "import sys; sys.path.insert(0,'driver'); import verif; verif.gen_main()"
(cd lean && lake build)
