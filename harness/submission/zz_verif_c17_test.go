//go:build verif

package submission

// C17 harness, parts (a) and (b):
//  (a) TestVerifC17 "st" lines: direct operation sequences on safeSubmissionState, compared with CTV.Model.Races.
//  (b) "race" lines: GetSCTs with scripted submitters under virtual time (testing/synctest). The observation
//      (who was contacted at which virtual instant, what was returned when) is validated by the model driver; the
//      implementation-side oracle evaluates the property on the real outputs (out.Fail).

import (
	"context"
	"errors"
	"fmt"
	"sort"
	"strings"
	"sync"
	"testing"
	"testing/synctest"
	"time"

	ct "github.com/google/certificate-transparency-go"
	"github.com/google/certificate-transparency-go/ctpolicy"
	"github.com/google/certificate-transparency-go/internal/verifkit"
)

// ---------------------------------------------------------------------------------------------------------------
// configurations

type c17Cfg struct {
	groups []*ctpolicy.LogGroupInfo // in id order of creation
	gid    map[string]int           // group name -> model id (BaseName -> 0)
	logs   []string                 // log URLs, index+1 = model id
	lid    map[string]int
}

func c17LogURL(i int) string { return fmt.Sprintf("https://log%d.example/", i) }

func newC17Cfg(nlogs int) *c17Cfg {
	c := &c17Cfg{gid: map[string]int{ctpolicy.BaseName: 0}, lid: map[string]int{}}
	for i := 1; i <= nlogs; i++ {
		u := c17LogURL(i)
		c.logs = append(c.logs, u)
		c.lid[u] = i
	}
	return c
}

func (c *c17Cfg) addGroup(name string, isBase bool, min int, members []int, weights map[int]float32) *ctpolicy.LogGroupInfo {
	g := &ctpolicy.LogGroupInfo{Name: name, IsBase: isBase, MinInclusions: min, LogURLs: map[string]bool{}, LogWeights: map[string]float32{}}
	for _, m := range members {
		g.LogURLs[c.logs[m-1]] = true
		w, ok := weights[m]
		if !ok {
			w = 1.0
		}
		g.LogWeights[c.logs[m-1]] = w
	}
	if _, ok := c.gid[name]; !ok {
		c.gid[name] = len(c.gid)
	}
	c.groups = append(c.groups, g)
	return g
}

func (c *c17Cfg) data() ctpolicy.LogPolicyData {
	d := ctpolicy.LogPolicyData{}
	for _, g := range c.groups {
		d[g.Name] = g
	}
	return d
}

func (c *c17Cfg) sortedIDs(set map[string]bool) []int {
	var ids []int
	for u := range set {
		ids = append(ids, c.lid[u])
	}
	sort.Ints(ids)
	return ids
}

// encode: "<ngroups> (name min isBase nlogs l… nsess s…)*"; the session candidates are the logs with positive weight.
func (c *c17Cfg) encode() string {
	var sb strings.Builder
	fmt.Fprintf(&sb, "%d", len(c.groups))
	for _, g := range c.groups {
		ids := c.sortedIDs(g.LogURLs)
		fmt.Fprintf(&sb, " %d %d %s %d", c.gid[g.Name], g.MinInclusions, verifkit.B(g.IsBase), len(ids))
		for _, i := range ids {
			fmt.Fprintf(&sb, " %d", i)
		}
		pos := map[string]bool{}
		for u, w := range g.LogWeights {
			if w > 0 && g.LogURLs[u] {
				pos[u] = true
			}
		}
		ss := c.sortedIDs(pos)
		fmt.Fprintf(&sb, " %d", len(ss))
		for _, i := range ss {
			fmt.Fprintf(&sb, " %d", i)
		}
	}
	return sb.String()
}

func c17Subset(r *verifkit.Rand, n int, p int) []int {
	var s []int
	for i := 1; i <= n; i++ {
		if r.Intn(100) < p {
			s = append(s, i)
		}
	}
	return s
}

func c17All(n int) []int {
	s := make([]int, n)
	for i := range s {
		s[i] = i + 1
	}
	return s
}

var c17Dyadic = []float32{0, 0.5, 1, 2, 4}

func c17Weights(r *verifkit.Rand, n int) map[int]float32 {
	if r.Intn(10) < 7 {
		return nil
	}
	w := map[int]float32{}
	for i := 1; i <= n; i++ {
		w[i] = c17Dyadic[r.Intn(len(c17Dyadic))]
	}
	return w
}

// arbitrary group structure (used by both parts)
func c17ArbitraryCfg(r *verifkit.Rand, consistentBase bool) *c17Cfg {
	n := 1 + r.Intn(6)
	c := newC17Cfg(n)
	ng := 1 + r.Intn(3)
	for i := 0; i < ng; i++ {
		m := c17Subset(r, n, 55)
		min := r.Intn(4)
		if r.Intn(12) == 0 {
			min = 5
		}
		c.addGroup(fmt.Sprintf("g%d", i+1), false, min, m, c17Weights(r, n))
	}
	if r.Intn(10) < 7 {
		m := c17All(n)
		if r.Intn(10) < 3 {
			m = c17Subset(r, n, 70)
		}
		isBase := true
		if !consistentBase && r.Intn(10) == 0 {
			isBase = false
		}
		c.addGroup(ctpolicy.BaseName, isBase, r.Intn(5), m, c17Weights(r, n))
	}
	return c
}

// Chrome-shaped: Google-operated / Non-Google-operated (minimum 1 each) + All-logs
func c17ChromeCfg(r *verifkit.Rand) *c17Cfg {
	ng, nn := 1+r.Intn(3), 1+r.Intn(3)
	n := ng + nn
	c := newC17Cfg(n)
	var weights map[int]float32
	if r.Intn(10) < 2 {
		weights = map[int]float32{}
		for i := 1; i <= n; i++ {
			weights[i] = c17Dyadic[1+r.Intn(len(c17Dyadic)-1)]
		}
	}
	c.addGroup("Google-operated", false, 1, c17All(ng), weights)
	var non []int
	for i := ng + 1; i <= n; i++ {
		non = append(non, i)
	}
	c.addGroup("Non-Google-operated", false, 1, non, weights)
	min := 2 + r.Intn(4)
	if min > n && r.Intn(4) != 0 {
		min = n
	}
	c.addGroup(ctpolicy.BaseName, true, min, c17All(n), weights)
	return c
}

func c17AppleCfg(r *verifkit.Rand) *c17Cfg {
	n := 1 + r.Intn(5)
	c := newC17Cfg(n)
	min := 1 + r.Intn(n)
	if r.Intn(8) == 0 {
		min = n + 1
	}
	c.addGroup(ctpolicy.BaseName, true, min, c17All(n), c17Weights(r, n))
	return c
}

// ---------------------------------------------------------------------------------------------------------------
// (a) direct operation sequences on safeSubmissionState

func c17ResKind(r *submissionResult) string {
	switch {
	case r == nil:
		return "nil"
	case r.sct != nil:
		return "sct"
	case r.err != nil:
		return "err"
	}
	return "empty"
}

func c17Dump(c *c17Cfg, s *safeSubmissionState) string {
	s.mu.Lock()
	defer s.mu.Unlock()
	var parts []string
	var gids []int
	seen := map[int]string{}
	for _, g := range c.groups {
		if _, ok := seen[c.gid[g.Name]]; !ok {
			gids = append(gids, c.gid[g.Name])
		}
		seen[c.gid[g.Name]] = g.Name
	}
	sort.Ints(gids)
	for _, id := range gids {
		parts = append(parts, fmt.Sprintf("%d:%d", id, s.groupNeeds[seen[id]]))
	}
	for i, u := range c.logs {
		parts = append(parts, fmt.Sprintf("%d:%s:%s", i+1, c17ResKind(s.results[u]), verifkit.B(s.cancels[u] != nil)))
	}
	return strings.Join(parts, " ")
}

func c17StateCases(out *verifkit.Out, r *verifkit.Rand, n int) {
	sct := &ct.SignedCertificateTimestamp{}
	for it := 0; it < n; it++ {
		c := c17ArbitraryCfg(r, false)
		switch r.Intn(4) {
		case 0:
			c = c17ChromeCfg(r)
		case 1:
			c = c17AppleCfg(r)
		}
		s := newSafeSubmissionState(c.data())
		out.T("st new "+c.encode(), "ok")
		nops := 6 + r.Intn(30)
		var mu sync.Mutex
		called := map[int]int{}
		pending := []int{} // logs with a granted request and no result yet
		dumpOp := fmt.Sprintf("st dump %d", len(c.logs))
		for i := range c.logs {
			dumpOp += fmt.Sprintf(" %d", i+1)
		}
		disciplined := r.Intn(10) < 7 // setResult only after a granted request, once (what groupRace does)
		for k := 0; k < nops; k++ {
			l := 1 + r.Intn(len(c.logs))
			if r.Intn(15) == 0 {
				l = len(c.logs) + 1 // a log of no group
			}
			url := c17LogURL(l)
			switch op := r.Intn(10); {
			case op < 4:
				var got bool
				lid := l
				p := verifkit.Guard(func() {
					got = s.request(url, func() { mu.Lock(); called[lid]++; mu.Unlock() })
				})
				if p != "" {
					out.T(fmt.Sprintf("st req %d", l), "panic")
					out.Fail("state/request-panic", p)
					k = nops
					break
				}
				if got {
					pending = append(pending, l)
					out.Count("class:request-granted")
				} else {
					out.Count("class:request-refused")
				}
				out.T(fmt.Sprintf("st req %d", l), verifkit.B(got))
			case op < 8:
				if disciplined {
					if len(pending) == 0 {
						continue
					}
					j := r.Intn(len(pending))
					l = pending[j]
					pending = append(pending[:j], pending[j+1:]...)
					url = c17LogURL(l)
				}
				ok := r.Intn(10) < 7
				mu.Lock()
				for k := range called {
					delete(called, k)
				}
				mu.Unlock()
				p := verifkit.Guard(func() {
					if ok {
						s.setResult(url, sct, nil)
					} else {
						s.setResult(url, nil, errors.New("scripted"))
					}
				})
				if p != "" {
					out.T(fmt.Sprintf("st res %d %s", l, verifkit.B(ok)), "panic")
					out.Count("class:setResult-without-request-panics")
					if disciplined {
						out.Fail("state/setResult-panic-after-granted-request", p)
					}
					k = nops // the state is half-updated; end of this case
					break
				}
				var cs []int
				mu.Lock()
				for k, v := range called {
					for ; v > 0; v-- {
						cs = append(cs, k)
					}
				}
				mu.Unlock()
				sort.Ints(cs)
				ans := fmt.Sprintf("ok %d", len(cs))
				for _, x := range cs {
					ans += fmt.Sprintf(" %d", x)
				}
				out.T(fmt.Sprintf("st res %d %s", l, verifkit.B(ok)), ans)
				if ok {
					out.Count("class:setResult-sct")
				} else {
					out.Count("class:setResult-err")
				}
			case op < 9:
				g := r.Intn(len(c.gid) + 1)
				name := "no-such-group"
				for nm, id := range c.gid {
					if id == g {
						name = nm
					}
				}
				if name == "no-such-group" {
					g = 99
				}
				out.T(fmt.Sprintf("st gc %d", g), verifkit.B(s.groupComplete(name)))
			default:
				set := map[string]bool{}
				for _, a := range s.collectSCTs() {
					if set[a.LogURL] {
						out.Fail("state/collect-duplicate-log", a.LogURL)
					}
					set[a.LogURL] = true
				}
				ids := c.sortedIDs(set)
				ans := fmt.Sprintf("%d", len(ids))
				for _, x := range ids {
					ans += fmt.Sprintf(" %d", x)
				}
				out.T("st col", ans)
			}
			if k < nops && r.Intn(3) == 0 {
				out.T(dumpOp, c17Dump(c, s))
			}
		}
		out.Count("mode:state-sequence")
	}
}

// ---------------------------------------------------------------------------------------------------------------
// (b) GetSCTs under virtual time

const (
	c17OK = iota
	c17Err
	c17Hang
)

type c17Script struct {
	lat     time.Duration
	outcome int
}

type c17Contact struct {
	log string
	at  time.Duration
}

type c17Submitter struct {
	mu       sync.Mutex
	start    time.Time
	scripts  map[string]c17Script
	contacts []c17Contact
	// requests that ended because their context was cancelled (log, instant)
	cancelled []c17Contact
}

func (s *c17Submitter) sawCancel(logURL string) {
	s.mu.Lock()
	s.cancelled = append(s.cancelled, c17Contact{logURL, time.Since(s.start)})
	s.mu.Unlock()
}

func (s *c17Submitter) SubmitToLog(ctx context.Context, logURL string, _ []ct.ASN1Cert, _ bool) (*ct.SignedCertificateTimestamp, error) {
	s.mu.Lock()
	s.contacts = append(s.contacts, c17Contact{logURL, time.Since(s.start)})
	sc := s.scripts[logURL]
	s.mu.Unlock()
	if sc.outcome == c17Hang {
		<-ctx.Done()
		s.sawCancel(logURL)
		return nil, ctx.Err()
	}
	t := time.NewTimer(sc.lat)
	defer t.Stop()
	select {
	case <-t.C:
	case <-ctx.Done():
		s.sawCancel(logURL)
		return nil, ctx.Err()
	}
	if sc.outcome == c17Err {
		return nil, errors.New("scripted failure")
	}
	return &ct.SignedCertificateTimestamp{SCTVersion: ct.V1, Timestamp: uint64(len(logURL))}, nil
}

var c17Lats = []int{0, 100, 300, 900, 1100, 1900, 2100, 2500, 3100, 4700, 3600000}
var c17Deadlines = []int{550, 1550, 2550, 4550, 7550}

const c17Long = 3*3600*1000 + 550 // ms; longer than every scripted latency and every timer

type c17Scenario struct {
	shape    string // "chrome", "apple", "arbitrary" ("" for the fixed F10a scenarios, which are Chrome-shaped)
	cfg      *c17Cfg
	scripts  map[string]c17Script
	deadline time.Duration
}

type c17Result struct {
	scts     []*AssignedSCT
	err      error
	retAt    time.Duration
	contacts []c17Contact
	cancelled []c17Contact
	panicked string
}

// c17Bubble runs f in a synctest bubble. synctest.Run does not give the race detector a happens-before edge from
// the bubble's goroutines to its caller (go1.24.1), so the hand-over goes through a mutex.
func c17Bubble(f func()) {
	var mu sync.Mutex
	synctest.Run(func() {
		f()
		mu.Lock()
		mu.Unlock() //nolint
	})
	mu.Lock()
	mu.Unlock() //nolint
}

// run inside a synctest bubble
func c17RunGetSCTs(sc *c17Scenario, groups ctpolicy.LogPolicyData, start time.Time) *c17Result {
	sub := &c17Submitter{start: start, scripts: sc.scripts}
	res := &c17Result{}
	ctx, cancel := context.WithDeadline(context.Background(), start.Add(sc.deadline))
	defer cancel()
	res.panicked = verifkit.Guard(func() {
		res.scts, res.err = GetSCTs(ctx, sub, []ct.ASN1Cert{{Data: []byte{0x30, 0x00}}}, false, groups)
	})
	res.retAt = time.Since(start)
	// let every goroutine of the call finish (all of them leave at the deadline at the latest)
	if d := sc.deadline + time.Millisecond - time.Since(start); d > 0 {
		time.Sleep(d) // virtual time moves on only when every goroutine of the bubble is blocked or gone
	}
	sub.mu.Lock()
	res.contacts = append(res.contacts, sub.contacts...)
	res.cancelled = append(res.cancelled, sub.cancelled...)
	sub.mu.Unlock()
	return res
}

func c17Ms(d time.Duration) int64 { return int64(d / time.Millisecond) }

// c17FailedGroups reads the group names out of completenessError's text and renders them as " n id…" (sorted ids).
func c17FailedGroups(err error, gid map[string]int) string {
	if err == nil {
		return " 0"
	}
	const pre, suf = "log-group(s) ", " didn't receive enough SCTs"
	t := err.Error()
	if !strings.HasPrefix(t, pre) || !strings.HasSuffix(t, suf) {
		return " 0"
	}
	var ids []int
	for _, n := range strings.Split(t[len(pre):len(t)-len(suf)], ", ") {
		id, ok := gid[n]
		if !ok {
			id = 999
		}
		ids = append(ids, id)
	}
	sort.Ints(ids)
	out := fmt.Sprintf(" %d", len(ids))
	for _, i := range ids {
		out += fmt.Sprintf(" %d", i)
	}
	return out
}

func c17RaceLine(sc *c17Scenario, res *c17Result) string {
	c := sc.cfg
	var sb strings.Builder
	fmt.Fprintf(&sb, "race G %s L %d", c.encode(), len(c.logs))
	first := map[string]time.Duration{}
	for _, cc := range res.contacts {
		if _, ok := first[cc.log]; !ok {
			first[cc.log] = cc.at
		}
	}
	for i, u := range c.logs {
		s := sc.scripts[u]
		cs := "-"
		if at, ok := first[u]; ok {
			cs = fmt.Sprintf("%d", c17Ms(at))
		}
		fmt.Fprintf(&sb, " %d %d %d %s", i+1, c17Ms(s.lat), s.outcome, cs)
	}
	set := map[string]bool{}
	for _, a := range res.scts {
		set[a.LogURL] = true
	}
	ids := c.sortedIDs(set)
	fmt.Fprintf(&sb, " D %d R %d %s%s %d", c17Ms(sc.deadline), c17Ms(res.retAt), verifkit.B(res.err != nil), c17FailedGroups(res.err, c.gid), len(ids))
	for _, i := range ids {
		fmt.Fprintf(&sb, " %d", i)
	}
	return sb.String()
}

// failures of already recorded kinds are written at most c17KnownCap times per kind (the rest only counted), so that
// verifkit's limit on F lines can never hide a failure of another kind
const c17KnownCap = 15

var (
	c17KnownMu sync.Mutex
	c17KnownN  = map[string]int{}
)

func c17FailCapped(out *verifkit.Out, kind, key, detail string) {
	c17KnownMu.Lock()
	c17KnownN[kind]++
	n := c17KnownN[kind]
	c17KnownMu.Unlock()
	out.Count("class:fail-" + kind)
	if n <= c17KnownCap {
		out.Fail(key, detail)
	}
}

// c17Oracle: the property evaluated on the real outputs of one GetSCTs call.
func c17Oracle(out *verifkit.Out, tag string, sc *c17Scenario, res *c17Result) {
	c := sc.cfg
	desc := c17RaceLine(sc, res)
	if res.panicked != "" {
		out.Fail("race/panic "+tag, res.panicked+" | "+desc)
		return
	}
	// contacted at most once each, and only members (with positive weight) of some group
	seen := map[string]int{}
	for _, cc := range res.contacts {
		seen[cc.log]++
	}
	for u, n := range seen {
		if n > 1 {
			out.Fail("race/double-submit "+tag, fmt.Sprintf("%s contacted %d times | %s", u, n, desc))
		}
		member := false
		for _, g := range c.groups {
			if g.LogURLs[u] && g.LogWeights[u] > 0 {
				member = true
			}
		}
		if !member {
			out.Fail("race/contacted-outside-groups "+tag, u+" | "+desc)
		}
	}
	// SCTs: distinct logs, each from a contacted log scripted to succeed
	got := map[string]bool{}
	for _, a := range res.scts {
		if a == nil || a.SCT == nil {
			out.Fail("race/nil-sct "+tag, desc)
			continue
		}
		if got[a.LogURL] {
			out.Fail("race/duplicate-log-in-result "+tag, a.LogURL+" | "+desc)
		}
		got[a.LogURL] = true
		if seen[a.LogURL] == 0 || sc.scripts[a.LogURL].outcome != c17OK {
			out.Fail("race/sct-from-uncontacted-or-failing-log "+tag, a.LogURL+" | "+desc)
		}
	}
	satisfied := true
	for _, g := range c.groups {
		n := 0
		for u := range got {
			if g.LogURLs[u] {
				n++
			}
		}
		if n < g.MinInclusions {
			satisfied = false
			if res.err == nil {
				out.Fail("race/success-without-policy "+tag, fmt.Sprintf("group %q has %d of %d | %s", g.Name, n, g.MinInclusions, desc))
			}
		}
	}
	// termination: returned by the deadline
	if res.retAt > sc.deadline {
		out.Fail("race/returned-after-deadline "+tag, desc)
	}
	if res.err == nil {
		out.Count("class:getscts-success")
	} else {
		out.Count("class:getscts-error")
	}
	// completion instant of each contacted log (what its script does if it is left alone)
	first := map[string]time.Duration{}
	for _, cc := range res.contacts {
		if _, ok := first[cc.log]; !ok {
			first[cc.log] = cc.at
		}
	}
	cancelAt := map[string]time.Duration{}
	for _, cc := range res.cancelled {
		if _, ok := cancelAt[cc.log]; !ok {
			cancelAt[cc.log] = cc.at
		}
	}
	// SCTs handed to the code by instant t, among the members of g
	answeredOK := func(g *ctpolicy.LogGroupInfo, t time.Duration) int {
		n := 0
		for u := range g.LogURLs {
			at, ok := first[u]
			if !ok || sc.scripts[u].outcome != c17OK {
				continue
			}
			done := at + sc.scripts[u].lat
			if ca, c := cancelAt[u]; c && ca < done {
				continue
			}
			if done <= t {
				n++
			}
		}
		return n
	}
	// a request is cancelled (before the caller's own deadline) only when none of its groups still needs it; such a group
	// holds its minimum (C17.cancel_only_when_unneeded + needs_accounting), so at least that many of its logs have answered
	for u, at := range cancelAt {
		if at >= sc.deadline {
			continue
		}
		for _, g := range c.groups {
			if g.LogURLs[u] && answeredOK(g, at) < g.MinInclusions {
				out.Fail("cancelled-while-needed "+tag, fmt.Sprintf("request to %s cancelled at %d ms while group %q had only %d of %d SCTs | %s",
					u, c17Ms(at), g.Name, answeredOK(g, at), g.MinInclusions, desc))
			}
		}
	}
	// liveness inside the region `liveness_partial` covers: Chrome / Apple shaped groups with every member in the session,
	// no hanging log, no cancellation by the caller, every group keeps its minimum of succeeding members, and no group
	// race can have ended unsuccessfully before its requests completed: a non-base group already has its minimum of
	// answers at its last timer, or all its contacted succeeding logs have completed by then; for the base group the
	// latter. There an error is a violation (not F10a).
	if inLiveRegion(sc, first) {
		out.Count("class:liveness-region")
		if res.err != nil {
			out.Fail("livenessregion "+tag, res.err.Error()+" | "+desc)
			return
		}
	}
	// liveness: the caller did not cancel (deadline far beyond every latency and timer) ...
	if c17Ms(sc.deadline) == c17Long && res.err != nil {
		// ... the returned set itself satisfies every group, yet an error is reported
		if satisfied {
			c17FailCapped(out, "liveness-returned-set", "liveness returned-set-satisfies-policy-but-error "+tag, res.err.Error()+" | "+desc)
			return
		}
		// ... every log answers successfully and every group has enough members with positive weight
		allOK, enough := true, true
		for _, s := range sc.scripts {
			if s.outcome != c17OK {
				allOK = false
			}
		}
		for _, g := range c.groups {
			n := 0
			for u := range g.LogURLs {
				if g.LogWeights[u] > 0 {
					n++
				}
			}
			if n < g.MinInclusions {
				enough = false
			}
		}
		if allOK && enough {
			c17FailCapped(out, "liveness-all-logs", "liveness all-logs-answer-but-error "+tag, res.err.Error()+" | "+desc)
		}
	}
}

// inLiveRegion: see c17Oracle.
func inLiveRegion(sc *c17Scenario, first map[string]time.Duration) bool {
	c := sc.cfg
	if (sc.shape != "chrome" && sc.shape != "apple") || c17Ms(sc.deadline) != c17Long {
		return false
	}
	for _, s := range sc.scripts {
		if s.outcome == c17Hang {
			return false
		}
	}
	nums := parallelNums(c.data())
	for _, g := range c.groups {
		good := 0
		for u := range g.LogURLs {
			if g.LogWeights[u] <= 0 {
				return false // a member outside the session
			}
			if sc.scripts[u].outcome == c17OK {
				good++
			}
		}
		if good < g.MinInclusions || len(g.LogURLs) == 0 {
			return false
		}
		last := postInterval(len(g.LogURLs)-1, nums[g.Name], PostBatchInterval)
		answered, allDone := 0, true
		for u := range g.LogURLs {
			at, ok := first[u]
			if !ok || sc.scripts[u].outcome != c17OK {
				continue
			}
			if at+sc.scripts[u].lat <= last {
				answered++
			} else {
				allDone = false
			}
		}
		if !(allDone || (!g.IsBase && answered >= g.MinInclusions)) {
			return false
		}
	}
	return true
}

func c17Scripts(r *verifkit.Rand, c *c17Cfg, allOK bool) map[string]c17Script {
	m := map[string]c17Script{}
	for i, u := range c.logs {
		oc := c17OK
		if !allOK {
			switch x := r.Intn(100); {
			case x < 60:
			case x < 82:
				oc = c17Err
			default:
				oc = c17Hang
			}
		}
		lat := c17Lats[r.Intn(len(c17Lats))]
		if r.Intn(3) != 0 {
			lat = c17Lats[r.Intn(4)]
		}
		// the +(i+1) ms keeps every completion instant distinct from every other and from the whole-second timers
		m[u] = c17Script{time.Duration(lat+i+1) * time.Millisecond, oc}
	}
	return m
}

func c17RaceCases(out *verifkit.Out, r *verifkit.Rand, n int) {
	// F10a (DESIGN.md §6): one Google log, one non-Google log, both answer after 2.5 s
	{
		c := newC17Cfg(2)
		c.addGroup("Google-operated", false, 1, []int{1}, nil)
		c.addGroup("Non-Google-operated", false, 1, []int{2}, nil)
		c.addGroup(ctpolicy.BaseName, true, 2, []int{1, 2}, nil)
		for _, lat := range []int{1900, 2500} {
			sc := &c17Scenario{shape: "chrome", cfg: c, deadline: c17Long * time.Millisecond, scripts: map[string]c17Script{
				c.logs[0]: {time.Duration(lat+1) * time.Millisecond, c17OK}, c.logs[1]: {time.Duration(lat+2) * time.Millisecond, c17OK}}}
			var res *c17Result
			c17Bubble(func() { res = c17RunGetSCTs(sc, c.data(), time.Now()) })
			out.T(c17RaceLine(sc, res), "accept")
			c17Oracle(out, fmt.Sprintf("two-logs-%dms", lat), sc, res)
			out.Sample(c17RaceLine(sc, res))
		}
	}
	for it := 0; it < n; it++ {
		var c *c17Cfg
		shape := ""
		switch x := r.Intn(10); {
		case x < 5:
			c, shape = c17ChromeCfg(r), "chrome"
		case x < 7:
			c, shape = c17AppleCfg(r), "apple"
		default:
			c, shape = c17ArbitraryCfg(r, true), "arbitrary"
		}
		out.Count("mode:race-" + shape)
		out.T("pn "+c.encode(), c17ParallelNums(c))
		dl := c17Long
		if r.Intn(3) == 0 {
			dl = c17Deadlines[r.Intn(len(c17Deadlines))]
		}
		callers := 1
		if r.Intn(8) == 0 {
			callers = 2 + r.Intn(2)
		}
		scs := make([]*c17Scenario, callers)
		for k := range scs {
			scs[k] = &c17Scenario{shape: shape, cfg: c, scripts: c17Scripts(r, c, r.Intn(100) < 65), deadline: time.Duration(dl) * time.Millisecond}
		}
		results := make([]*c17Result, callers)
		c17Bubble(func() {
			start := time.Now()
			groups := c.data() // shared by the concurrent callers
			var wg sync.WaitGroup
			for k := range scs {
				wg.Add(1)
				go func(k int) {
					defer wg.Done()
					results[k] = c17RunGetSCTs(scs[k], groups, start)
				}(k)
			}
			if callers > 1 {
				// weight changes racing with the callers' GetSubmissionSession (positive weights stay positive, so the
				// set of session candidates does not change)
				wg.Add(1)
				go func() {
					defer wg.Done()
					for round := 0; round < 3; round++ {
						for _, g := range groups {
							all := map[string]float32{}
							for u, w := range g.LogWeights {
								if w > 0 {
									all[u] = c17Dyadic[1+(round+len(u))%(len(c17Dyadic)-1)]
								}
							}
							if round%2 == 0 {
								for u, w := range all {
									_ = g.SetLogWeight(u, w)
								}
							} else if len(all) == len(g.LogWeights) {
								_ = g.SetLogWeights(all)
							}
						}
						time.Sleep(500 * time.Millisecond)
					}
				}()
			}
			wg.Wait()
		})
		for k := range scs {
			line := c17RaceLine(scs[k], results[k])
			out.T(line, "accept")
			tag := fmt.Sprintf("%s seed=%d case=%d.%d", shape, verifkit.Seed(), it, k)
			c17Oracle(out, tag, scs[k], results[k])
			if it < 3 {
				out.Sample(line)
			}
		}
		if callers > 1 {
			out.Count("mode:race-concurrent-callers")
		}
	}
}

func c17ParallelNums(c *c17Cfg) string {
	nums := parallelNums(c.data())
	type kv struct{ id, v int }
	var xs []kv
	for name, v := range nums {
		xs = append(xs, kv{c.gid[name], v})
	}
	sort.Slice(xs, func(i, j int) bool { return xs[i].id < xs[j].id })
	var parts []string
	for _, x := range xs {
		parts = append(parts, fmt.Sprintf("%d:%d", x.id, x.v))
	}
	return strings.Join(parts, " ")
}

func TestVerifC17(t *testing.T) {
	out := verifkit.Open()
	defer out.Close()
	r := verifkit.NewRand(verifkit.Seed())
	c17StateCases(out, r.Fork(), verifkit.N(1500, 60000))
	c17RaceCases(out, r.Fork(), verifkit.N(300, 10000))
}
