//go:build verif

package submission

// C17 harness, part (b) at the Distributor / Proxy surface:
//   "dist" lines   Distributor.AddChain / AddPreChain with a scripted LogClientBuilder under virtual time: generated PKI
//                  (three roots, leaves with chosen NotBefore/NotAfter, precertificates), log lists with operators,
//                  states, temporal intervals (bounds at NotAfter, NotAfter±1 ns), per-log accepted roots (known or
//                  unknown); the oracle checks that only usable, temporally and root compatible logs are contacted and
//                  that a nil error carries a policy-satisfying SCT set; the driver recomputes the compatible set and the
//                  policy groups and validates the race.
//   "pol" lines    ChromeCTPolicy / AppleCTPolicy.LogsByGroup against the model's groups and thresholds
//   "compat" lines LogList.Compatible at boundary instants
//   concurrency    concurrent AddChain callers with RefreshRoots in between, Proxy with log-list refresh, under -race

import (
	"context"
	"crypto/ecdsa"
	"crypto/elliptic"
	"crypto/rand"
	stdx509 "crypto/x509"
	"crypto/x509/pkix"
	"encoding/asn1"
	"errors"
	"fmt"
	"math/big"
	"sort"
	"strings"
	"sync"
	"testing"
	"time"

	ct "github.com/google/certificate-transparency-go"
	"github.com/google/certificate-transparency-go/client"
	"github.com/google/certificate-transparency-go/ctpolicy"
	"github.com/google/certificate-transparency-go/internal/verifkit"
	"github.com/google/certificate-transparency-go/loglist3"
	"github.com/google/certificate-transparency-go/x509"
	"github.com/google/certificate-transparency-go/x509util"
)

// ---------------------------------------------------------------------------------------------------------------
// PKI

type c17Root struct {
	key  *ecdsa.PrivateKey
	cert *stdx509.Certificate
	der  []byte
}

var (
	c17PKIOnce sync.Once
	c17Roots   []*c17Root
	c17Serial  int64 = 1000
)

func c17PKI() []*c17Root {
	c17PKIOnce.Do(func() {
		for i := 0; i < 3; i++ {
			k, err := ecdsa.GenerateKey(elliptic.P256(), rand.Reader)
			if err != nil {
				panic(err)
			}
			tmpl := &stdx509.Certificate{
				SerialNumber: big.NewInt(int64(i + 1)), Subject: pkix.Name{CommonName: fmt.Sprintf("verif root %d", i)},
				NotBefore: time.Date(2015, 1, 1, 0, 0, 0, 0, time.UTC), NotAfter: time.Date(2045, 1, 1, 0, 0, 0, 0, time.UTC),
				IsCA: true, BasicConstraintsValid: true, KeyUsage: stdx509.KeyUsageCertSign,
			}
			der, err := stdx509.CreateCertificate(rand.Reader, tmpl, tmpl, &k.PublicKey, k)
			if err != nil {
				panic(err)
			}
			c, _ := stdx509.ParseCertificate(der)
			c17Roots = append(c17Roots, &c17Root{k, c, der})
		}
		// root 3: a CA certificate that the repository's x509 parses with a NON-FATAL error only (its subjectAltName holds an
		// iPAddress of 5 bytes); log clients that return it accept chains ending in it like any other root
		k, err := ecdsa.GenerateKey(elliptic.P256(), rand.Reader)
		if err != nil {
			panic(err)
		}
		tmpl := &stdx509.Certificate{
			SerialNumber: big.NewInt(4), Subject: pkix.Name{CommonName: "verif root 3 (odd SAN)"},
			NotBefore: time.Date(2015, 1, 1, 0, 0, 0, 0, time.UTC), NotAfter: time.Date(2045, 1, 1, 0, 0, 0, 0, time.UTC),
			IsCA: true, BasicConstraintsValid: true, KeyUsage: stdx509.KeyUsageCertSign, SubjectKeyId: []byte{3, 3, 3, 3},
			ExtraExtensions: []pkix.Extension{{Id: asn1.ObjectIdentifier{2, 5, 29, 17}, Value: []byte{0x30, 0x07, 0x87, 0x05, 1, 2, 3, 4, 5}}},
		}
		der, err := stdx509.CreateCertificate(rand.Reader, tmpl, tmpl, &k.PublicKey, k)
		if err != nil {
			panic(err)
		}
		if pc, perr := x509.ParseCertificate(der); pc == nil || perr == nil || x509.IsFatal(perr) {
			panic(fmt.Sprintf("root 3 is expected to parse with a non-fatal error only, got cert=%v err=%v", pc != nil, perr))
		}
		c17Roots = append(c17Roots, &c17Root{k, tmpl, der}) // the template stands in as issuer when leaves are signed
		// root 4: root 0 re-issued — same subject, same key, another serial number and validity: a DIFFERENT certificate. A log
		// that lists root 4 does not list root 0.
		r0 := c17Roots[0]
		re := &stdx509.Certificate{
			SerialNumber: big.NewInt(5), Subject: r0.cert.Subject,
			NotBefore: time.Date(2020, 1, 1, 0, 0, 0, 0, time.UTC), NotAfter: time.Date(2050, 1, 1, 0, 0, 0, 0, time.UTC),
			IsCA: true, BasicConstraintsValid: true, KeyUsage: stdx509.KeyUsageCertSign,
		}
		der4, err := stdx509.CreateCertificate(rand.Reader, re, re, &r0.key.PublicKey, r0.key)
		if err != nil {
			panic(err)
		}
		c4, _ := stdx509.ParseCertificate(der4)
		c17Roots = append(c17Roots, &c17Root{r0.key, c4, der4})
	})
	return c17Roots
}

var c17PoisonOID = asn1.ObjectIdentifier{1, 3, 6, 1, 4, 1, 11129, 2, 4, 3}

func c17Leaf(root *c17Root, nb, na time.Time, precert bool) []byte {
	k, err := ecdsa.GenerateKey(elliptic.P256(), rand.Reader)
	if err != nil {
		panic(err)
	}
	c17Serial++
	tmpl := &stdx509.Certificate{
		SerialNumber: big.NewInt(c17Serial), Subject: pkix.Name{CommonName: "leaf.example"},
		NotBefore: nb, NotAfter: na, KeyUsage: stdx509.KeyUsageDigitalSignature, DNSNames: []string{"leaf.example"},
	}
	if precert {
		tmpl.ExtraExtensions = []pkix.Extension{{Id: c17PoisonOID, Critical: true, Value: []byte{0x05, 0x00}}}
	}
	der, err := stdx509.CreateCertificate(rand.Reader, tmpl, root.cert, &k.PublicKey, root.key)
	if err != nil {
		panic(err)
	}
	return der
}

// ---------------------------------------------------------------------------------------------------------------
// log lists

type c17DLog struct {
	id       int
	url      string
	google   bool
	status   int // loglist3.LogStatus numbering
	interval *loglist3.TemporalInterval
	rootsErr bool  // GetAcceptedRoots fails: the distributor has no root entry for the log
	roots    []int // indices into c17PKI(): the log's CURRENT answer (the last refresh sees this)
	// history: what the log answered to the FIRST refresh when the scenario refreshes twice (nil: same as roots)
	firstRoots []int
	hasFirst   bool
	junk       bool // the current answer also carries an entry that does not parse as a certificate
	script   c17Script
}

func c17State(status int) *loglist3.LogStates {
	st := &loglist3.LogState{}
	switch loglist3.LogStatus(status) {
	case loglist3.PendingLogStatus:
		return &loglist3.LogStates{Pending: st}
	case loglist3.QualifiedLogStatus:
		return &loglist3.LogStates{Qualified: st}
	case loglist3.UsableLogStatus:
		return &loglist3.LogStates{Usable: st}
	case loglist3.ReadOnlyLogStatus:
		return &loglist3.LogStates{ReadOnly: &loglist3.ReadOnlyLogState{}}
	case loglist3.RetiredLogStatus:
		return &loglist3.LogStates{Retired: st}
	case loglist3.RejectedLogStatus:
		return &loglist3.LogStates{Rejected: st}
	}
	return nil
}

func c17LogList(logs []*c17DLog) *loglist3.LogList {
	// operators: two Google ones, three others; logs are dealt round-robin within their class
	ops := []*loglist3.Operator{
		{Name: "Google", Email: []string{"google-ct-logs@googlegroups.com"}},
		{Name: "Google too", Email: []string{"someone@example.com", "google-ct-logs@googlegroups.com"}},
		{Name: "Other A", Email: []string{"a@example.com"}},
		{Name: "Other B", Email: []string{}},
		{Name: "Other C", Email: []string{"google-ct-logs@example.com"}},
	}
	gi, oi := 0, 0
	for _, l := range logs {
		lg := &loglist3.Log{URL: l.url, Key: []byte{byte(l.id)}, State: c17State(l.status), TemporalInterval: l.interval}
		if l.google {
			ops[gi%2].Logs = append(ops[gi%2].Logs, lg)
			gi++
		} else {
			ops[2+oi%3].Logs = append(ops[2+oi%3].Logs, lg)
			oi++
		}
	}
	ll := &loglist3.LogList{}
	for _, op := range ops {
		if len(op.Logs) > 0 {
			ll.Operators = append(ll.Operators, op)
		}
	}
	return ll
}

// scripted log client
type c17Client struct {
	l     *c17DLog
	sub   *c17Submitter
	mu    sync.Mutex
	calls int // get-roots calls answered by this client
}

func (c *c17Client) AddChain(ctx context.Context, chain []ct.ASN1Cert) (*ct.SignedCertificateTimestamp, error) {
	return c.sub.SubmitToLog(ctx, c.l.url, chain, false)
}
func (c *c17Client) AddPreChain(ctx context.Context, chain []ct.ASN1Cert) (*ct.SignedCertificateTimestamp, error) {
	return c.sub.SubmitToLog(ctx, c.l.url, chain, true)
}
func (c *c17Client) GetAcceptedRoots(ctx context.Context) ([]ct.ASN1Cert, error) {
	if c.l.rootsErr {
		return nil, errors.New("scripted get-roots failure")
	}
	c.mu.Lock()
	c.calls++
	first := c.calls == 1 && c.l.hasFirst
	c.mu.Unlock()
	var out []ct.ASN1Cert
	roots := c.l.roots
	if first {
		roots = c.l.firstRoots
	}
	for _, r := range roots {
		out = append(out, ct.ASN1Cert{Data: c17PKI()[r].der})
	}
	if c.l.junk && !first {
		out = append(out, ct.ASN1Cert{Data: []byte("invalid000")})
	}
	return out, nil
}

func c17Builder(logs []*c17DLog, sub *c17Submitter) LogClientBuilder {
	by := map[string]*c17DLog{}
	for _, l := range logs {
		by[l.url] = l
	}
	return func(l *loglist3.Log) (client.AddLogClient, error) {
		return &c17Client{l: by[l.URL], sub: sub}, nil
	}
}

// ---------------------------------------------------------------------------------------------------------------
// scenarios

type c17DistScenario struct {
	policy   string // "c" / "a"
	disabled bool
	nb, na   time.Time
	rootIdx  int
	withRoot bool // the submitted chain includes the root certificate
	isPre    bool
	asPre    bool
	logs     []*c17DLog
	deadline time.Duration
	pending  bool // loadPendingLogs
	// histories
	twoRefreshes bool       // RefreshRoots runs twice before the submission (logs with hasFirst answer differently the first time)
	prevLogs     []*c17DLog // via a Proxy: this earlier version of the log list (same logs) is activated first, then `logs`
}

func c17Ns(t time.Time) int64 { return t.UnixNano() }

func (sc *c17DistScenario) head() string {
	var sb strings.Builder
	fmt.Fprintf(&sb, "dist %s %s PRE %s %s PEND %s D6 %d %d %d %d %d %d NA %d ROOT %d N %d", sc.policy, verifkit.B(sc.disabled), verifkit.B(sc.isPre), verifkit.B(sc.asPre), verifkit.B(sc.pending),
		sc.nb.Year(), int(sc.nb.Month()), sc.nb.Day(), sc.na.Year(), int(sc.na.Month()), sc.na.Day(), c17Ns(sc.na), sc.rootIdx, len(sc.logs))
	for _, l := range sc.logs {
		ia, ib := "-", "-"
		if l.interval != nil {
			ia, ib = fmt.Sprint(c17Ns(l.interval.StartInclusive)), fmt.Sprint(c17Ns(l.interval.EndExclusive))
		}
		fmt.Fprintf(&sb, " %d %s %d %s %s %s %d", l.id, verifkit.B(l.google), l.status, ia, ib, verifkit.B(!l.rootsErr), len(l.roots))
		for _, r := range l.roots {
			fmt.Fprintf(&sb, " %d", r)
		}
	}
	return sb.String()
}

func (sc *c17DistScenario) tail(res *c17Result) string {
	var sb strings.Builder
	fmt.Fprintf(&sb, " L %d", len(sc.logs))
	first := map[string]time.Duration{}
	for _, cc := range res.contacts {
		if _, ok := first[cc.log]; !ok {
			first[cc.log] = cc.at
		}
	}
	for _, l := range sc.logs {
		cs := "-"
		if at, ok := first[l.url]; ok {
			cs = fmt.Sprintf("%d", c17Ms(at))
		}
		fmt.Fprintf(&sb, " %d %d %d %s", l.id, c17Ms(l.script.lat), l.script.outcome, cs)
	}
	var ids []int
	for _, a := range res.scts {
		for _, l := range sc.logs {
			if l.url == a.LogURL {
				ids = append(ids, l.id)
			}
		}
	}
	sort.Ints(ids)
	fmt.Fprintf(&sb, " D %d R %d %s%s %d", c17Ms(sc.deadline), c17Ms(res.retAt), verifkit.B(res.err != nil),
		c17FailedGroups(res.err, map[string]int{"Google-operated": 1, "Non-Google-operated": 2, ctpolicy.BaseName: 0}), len(ids))
	for _, i := range ids {
		fmt.Fprintf(&sb, " %d", i)
	}
	return sb.String()
}

func c17Months(nb, na time.Time) int {
	m := (na.Year()-nb.Year())*12 + int(na.Month()) - int(nb.Month())
	if na.Day() < nb.Day() {
		m--
	}
	return m
}

func c17PolicyTotal(m int) int {
	switch {
	case m < 15:
		return 2
	case m <= 27:
		return 3
	case m <= 39:
		return 4
	}
	return 5
}

func c17GenDist(r *verifkit.Rand) *c17DistScenario {
	sc := &c17DistScenario{policy: "c"}
	if r.Intn(3) == 0 {
		sc.policy = "a"
	}
	sc.disabled = r.Intn(8) == 0
	sc.rootIdx = r.Intn(3)
	if r.Intn(6) == 0 {
		sc.rootIdx = 3 // the root with the non-fatal parse quirk
	}
	sc.withRoot = r.Bool()
	sc.isPre = r.Intn(5) == 0
	sc.asPre = sc.isPre
	if r.Intn(25) == 0 {
		sc.asPre = !sc.isPre
	}
	// validity: lifetimes around the policy thresholds
	months := []int{2, 6, 12, 13, 14, 14, 15, 16, 26, 27, 28, 38, 39, 40, 41, 60}[r.Intn(16)]
	sc.nb = time.Date(2021+r.Intn(3), time.Month(1+r.Intn(12)), 1+r.Intn(28), r.Intn(24), r.Intn(60), r.Intn(60), 0, time.UTC)
	sc.na = sc.nb.AddDate(0, months, 0)
	switch r.Intn(4) {
	case 0:
		sc.na = sc.na.AddDate(0, 0, -1)
	case 1:
		sc.na = sc.na.AddDate(0, 0, 1)
	case 2:
		sc.na = sc.na.Add(-time.Second)
	}
	sc.pending = r.Intn(5) == 0
	fallback := !sc.disabled && r.Intn(7) == 0 // the chain's root is in no known root set and some log has no root data
	n := 3 + r.Intn(6)
	nG := 1 + r.Intn(n-1)
	if r.Intn(20) == 0 {
		nG = 0
	}
	for i := 1; i <= n; i++ {
		l := &c17DLog{id: i, url: c17LogURL(i), google: i <= nG, status: int(loglist3.UsableLogStatus)}
		if r.Intn(9) == 0 {
			l.status = []int{1, 2, 4, 5, 6, 0}[r.Intn(6)]
		} else if sc.pending && r.Intn(3) == 0 {
			l.status = 1 + r.Intn(2)
		}
		switch x := r.Intn(10); {
		case x < 5: // no interval
		case x < 8: // comfortably inside
			l.interval = &loglist3.TemporalInterval{StartInclusive: sc.na.AddDate(0, -6, 0), EndExclusive: sc.na.AddDate(0, 6, 0)}
		default: // a bound at, just before or just after NotAfter
			d := []time.Duration{0, 1, -1, time.Second, -time.Second}[r.Intn(5)]
			if r.Bool() {
				l.interval = &loglist3.TemporalInterval{StartInclusive: sc.na.Add(d), EndExclusive: sc.na.AddDate(1, 0, 0)}
			} else {
				l.interval = &loglist3.TemporalInterval{StartInclusive: sc.na.AddDate(-1, 0, 0), EndExclusive: sc.na.Add(d)}
			}
		}
		switch x := r.Intn(20); {
		case x < 13:
			l.roots = []int{0, 1, 2, 3}
		case x < 16:
			l.roots = []int{sc.rootIdx}
		case x < 18:
			l.roots = []int{(sc.rootIdx + 1) % 3}
		default:
			l.rootsErr = true
		}
		if fallback {
			l.rootsErr, l.roots = false, []int{(sc.rootIdx + 1 + r.Intn(2)) % 3}
			if i == 1 || r.Intn(3) == 0 {
				l.rootsErr, l.roots = true, nil
			}
		}
		sc.logs = append(sc.logs, l)
	}
	allOK := r.Intn(100) < 60
	for i, l := range sc.logs {
		oc := c17OK
		if !allOK {
			switch x := r.Intn(100); {
			case x < 60:
			case x < 82:
				oc = c17Err
			default:
				oc = c17Hang
			}
		}
		lat := c17Lats[r.Intn(5)]
		if r.Intn(4) == 0 {
			lat = c17Lats[r.Intn(len(c17Lats))]
		}
		l.script = c17Script{time.Duration(lat+i+1) * time.Millisecond, oc}
	}
	sc.deadline = c17Long * time.Millisecond
	if r.Intn(3) == 0 {
		sc.deadline = time.Duration(c17Deadlines[r.Intn(len(c17Deadlines))]) * time.Millisecond
	}
	if !fallback && !sc.twoRefreshes && sc.rootIdx != 3 && r.Intn(8) == 0 {
		// re-issued root: the chain ends in root 0 and carries it; some logs list the re-issued certificate (root 4: same
		// subject and key, another certificate) INSTEAD of root 0 — they do not accept the chain's root
		// (at least one log with a client keeps root 0 itself, so that the path the distributor validates ends in root 0: with
		// only the re-issued certificate known, the validated path would be leaf, root 0, root 4 and root 4 the chain's root)
		sc.rootIdx, sc.withRoot = 0, true
		anchored := false
		for _, l := range sc.logs {
			if l.rootsErr {
				continue
			}
			if !anchored && l.status >= 1 && l.status <= 3 {
				l.roots, anchored = []int{0}, true
				continue
			}
			if r.Intn(2) == 0 {
				l.roots = []int{4}
			} else if r.Intn(2) == 0 {
				l.roots = []int{0}
			} else {
				l.roots = []int{0, 1, 2, 3}
			}
		}
		return sc
	}
	switch r.Intn(6) {
	case 0:
		// root history: two refreshes; by the second one some logs have dropped or swapped roots, some answers also carry an
		// entry that does not parse (partial failure: the answer still replaces what was known)
		sc.twoRefreshes = true
		for _, l := range sc.logs {
			if l.rootsErr || r.Intn(2) == 0 {
				continue
			}
			l.hasFirst, l.firstRoots = true, []int{0, 1, 2, 3}
			if r.Intn(2) == 0 {
				l.roots = []int{(sc.rootIdx + 1) % 3} // the chain's root is gone from this log
			}
			l.junk = r.Intn(2) == 0
		}
	case 1:
		// log-list history through the Proxy: the same logs, all usable and without interval in the earlier version
		for _, l := range sc.logs {
			c := *l
			c.status, c.interval = int(loglist3.UsableLogStatus), nil
			sc.prevLogs = append(sc.prevLogs, &c)
		}
		if !sc.pending {
			// make sure the refresh changes something: retire one log or close its interval before NotAfter
			l := sc.logs[r.Intn(len(sc.logs))]
			if r.Bool() {
				l.status = int(loglist3.RetiredLogStatus)
			} else {
				l.interval = &loglist3.TemporalInterval{StartInclusive: sc.na.AddDate(-1, 0, 0), EndExclusive: sc.na}
			}
		}
	}
	return sc
}

func (sc *c17DistScenario) policyOf() ctpolicy.CTPolicy {
	if sc.policy == "a" {
		return ctpolicy.AppleCTPolicy{}
	}
	return ctpolicy.ChromeCTPolicy{}
}

// c17DistSetup builds the distributor of a scenario (inside a bubble) and refreshes its roots.
func c17DistSetup(sc *c17DistScenario, sub *c17Submitter) (*Distributor, error) {
	var opts []DistributorOption
	if sc.disabled {
		opts = append(opts, DisableRootCompatibilityCheckingDistributorOption{})
	}
	d, err := NewDistributor(c17LogList(sc.logs), sc.policyOf(), c17Builder(sc.logs, sub), nil, opts...)
	if err != nil {
		return nil, err
	}
	d.RefreshRoots(context.Background())
	if sc.twoRefreshes {
		d.RefreshRoots(context.Background())
	}
	return d, nil
}

func c17DistClass(err error) string {
	switch {
	case err == nil:
		return ""
	case errors.Is(err, ErrDistributorNotEnoughCompatibleLogs):
		return "nogroups"
	case strings.Contains(err.Error(), "distributor unable to process cert-chain"):
		return "badchain"
	case strings.Contains(err.Error(), "chain method expected"):
		return "typemismatch"
	case strings.Contains(err.Error(), "didn't receive enough SCTs"):
		return ""
	}
	return "other:" + err.Error()
}

// c17DistOracle: the compatibility clause and the success clause on the real outputs.
func c17DistOracle(out *verifkit.Out, tag string, sc *c17DistScenario, res *c17Result, line string) {
	if res.panicked != "" {
		out.Fail("dist/panic "+tag, res.panicked+" | "+line)
		return
	}
	by := map[string]*c17DLog{}
	for _, l := range sc.logs {
		by[l.url] = l
	}
	// does the chain verify against the merged pool (some log with a client and known roots accepts its root)?
	inPool := false
	for _, l := range sc.logs {
		if l.status >= 1 && l.status <= 3 && !l.rootsErr {
			for _, r := range l.roots {
				if r == sc.rootIdx {
					inPool = true
				}
			}
		}
	}
	seen := map[string]int{}
	for _, cc := range res.contacts {
		seen[cc.log]++
		l := by[cc.log]
		if l == nil {
			out.Fail("dist/contacted-unknown-log "+tag, cc.log+" | "+line)
			continue
		}
		if seen[cc.log] > 1 {
			out.Fail("dist/double-submit "+tag, cc.log+" | "+line)
		}
		if l.status != int(loglist3.UsableLogStatus) {
			// with loadPendingLogs the caller asks for pending / qualified logs to be loaded as well: they are contacted
			// by a second call, unfiltered (observation, see notes); anything else is a violation
			if sc.pending && (l.status == int(loglist3.PendingLogStatus) || l.status == int(loglist3.QualifiedLogStatus)) {
				out.Count("class:pending-log-contacted")
				continue
			}
			out.Fail("dist/contacted-not-usable "+tag, fmt.Sprintf("%s status %d | %s", cc.log, l.status, line))
		}
		if iv := l.interval; iv != nil && !(!sc.na.Before(iv.StartInclusive) && sc.na.Before(iv.EndExclusive)) {
			out.Fail("dist/contacted-outside-temporal-interval "+tag, fmt.Sprintf("%s NotAfter %v interval [%v,%v) | %s", cc.log, sc.na, iv.StartInclusive, iv.EndExclusive, line))
		}
		// "whose accepted roots, where known, include the chain's root" (unless the caller disabled the check)
		if !sc.disabled && !l.rootsErr {
			ok := false
			for _, r := range l.roots {
				if r == sc.rootIdx {
					ok = true
				}
			}
			if !ok && inPool {
				out.Fail("dist/contacted-root-incompatible "+tag, fmt.Sprintf("%s accepts %v, chain root %d | %s", cc.log, l.roots, sc.rootIdx, line))
			} else if !ok {
				// fallback branch of addSomeChain: the chain does not verify against the merged pool, root data is incomplete
				c17FailCapped(out, "rootfallback", "rootfallback "+tag, fmt.Sprintf("%s is known to accept only roots %v, the chain's root is %d (in no known root set; some log has no root data yet) | %s", cc.log, l.roots, sc.rootIdx, line))
			}
		}
	}
	got := map[string]bool{}
	for _, a := range res.scts {
		if got[a.LogURL] {
			out.Fail("dist/duplicate-log-in-result "+tag, a.LogURL+" | "+line)
		}
		got[a.LogURL] = true
		if seen[a.LogURL] == 0 || by[a.LogURL] == nil || by[a.LogURL].script.outcome != c17OK {
			out.Fail("dist/sct-from-uncontacted-or-failing-log "+tag, a.LogURL+" | "+line)
		}
	}
	if res.err == nil {
		total := c17PolicyTotal(c17Months(sc.nb, sc.na))
		g, ng := 0, 0
		for u := range got {
			if by[u].google {
				g++
			} else {
				ng++
			}
		}
		if len(got) < total {
			out.Fail("dist/success-below-total "+tag, fmt.Sprintf("%d SCTs, policy total %d | %s", len(got), total, line))
		}
		if sc.policy == "c" && (g < 1 || ng < 1) {
			out.Fail("dist/success-without-operator-diversity "+tag, fmt.Sprintf("google %d other %d | %s", g, ng, line))
		}
		out.Count("class:dist-success")
	} else {
		out.Count("class:dist-error")
	}
	if res.retAt > sc.deadline {
		out.Fail("dist/returned-after-deadline "+tag, line)
	}
}

// c17Feasible: does the usable, temporally and root compatible part of the scenario's log list satisfy the policy's group
// minima? Only answered (true) when the root clause is unambiguous: checking disabled, or the chain's root is in the known
// root set of some log that has a client.
func c17Feasible(sc *c17DistScenario) (bool, string) {
	accepts := func(l *c17DLog) bool {
		for _, r := range l.roots {
			if r == sc.rootIdx {
				return true
			}
		}
		return false
	}
	inPool := false
	for _, l := range sc.logs {
		if l.status >= 1 && l.status <= 3 && !l.rootsErr && accepts(l) {
			inPool = true
		}
	}
	if !sc.disabled && !inPool {
		return false, ""
	}
	g, ng := 0, 0
	seen := map[string]bool{}
	for _, l := range sc.logs {
		if l.status != int(loglist3.UsableLogStatus) || seen[l.url] {
			continue
		}
		if iv := l.interval; iv != nil && !(!sc.na.Before(iv.StartInclusive) && sc.na.Before(iv.EndExclusive)) {
			continue
		}
		if !sc.disabled && !l.rootsErr && !accepts(l) {
			continue
		}
		seen[l.url] = true
		if l.google {
			g++
		} else {
			ng++
		}
	}
	total := c17PolicyTotal(c17Months(sc.nb, sc.na))
	ok := g+ng >= total && (sc.policy == "a" || (g >= 1 && ng >= 1))
	return ok, fmt.Sprintf("compatible logs: %d Google, %d other; policy total %d; chain root %d", g, ng, total, sc.rootIdx)
}

func c17RunDist(sc *c17DistScenario) (*c17Result, string) {
	res := &c17Result{}
	setupErr := ""
	chain := [][]byte{c17Leaf(c17PKI()[sc.rootIdx], sc.nb, sc.na, sc.isPre)}
	if sc.withRoot {
		chain = append(chain, c17PKI()[sc.rootIdx].der)
	}
	c17Bubble(func() {
		start := time.Now()
		sub := &c17Submitter{start: start, scripts: map[string]c17Script{}}
		for _, l := range sc.logs {
			sub.scripts[l.url] = l.script
		}
		type adder interface {
			AddChain(context.Context, [][]byte, bool) ([]*AssignedSCT, error)
			AddPreChain(context.Context, [][]byte, bool) ([]*AssignedSCT, error)
		}
		var d adder
		if sc.prevLogs == nil {
			dd, err := c17DistSetup(sc, sub)
			if err != nil {
				setupErr = err.Error()
				return
			}
			d = dd
		} else {
			// two log-list versions through the Proxy: v1 is activated, roots are fetched, then the refresh delivers v2
			pctx, pcancel := context.WithCancel(context.Background())
			defer pcancel()
			p := NewProxy(NewLogListManager(nil, nil), func(l *loglist3.LogList) (*Distributor, error) {
				var opts []DistributorOption
				if sc.disabled {
					opts = append(opts, DisableRootCompatibilityCheckingDistributorOption{})
				}
				return NewDistributor(l, sc.policyOf(), c17Builder(sc.logs, sub), nil, opts...)
			}, nil)
			if err := p.restartDistributor(pctx, c17LogList(sc.prevLogs)); err != nil {
				setupErr = err.Error()
				return
			}
			time.Sleep(time.Second)
			if err := p.restartDistributor(pctx, c17LogList(sc.logs)); err != nil {
				setupErr = err.Error()
				return
			}
			time.Sleep(time.Second) // the new distributor's first get-roots round
			d = p
		}
		start = time.Now()
		sub.mu.Lock()
		sub.start = start
		sub.mu.Unlock()
		ctx, cancel := context.WithDeadline(context.Background(), start.Add(sc.deadline))
		defer cancel()
		res.panicked = verifkit.Guard(func() {
			if sc.asPre {
				res.scts, res.err = d.AddPreChain(ctx, chain, sc.pending)
			} else {
				res.scts, res.err = d.AddChain(ctx, chain, sc.pending)
			}
		})
		res.retAt = time.Since(start)
		if dd := sc.deadline + time.Millisecond - time.Since(start); dd > 0 {
			time.Sleep(dd)
		}
		sub.mu.Lock()
		res.contacts = append(res.contacts, sub.contacts...)
		sub.mu.Unlock()
	})
	return res, setupErr
}

func c17DistCases(out *verifkit.Out, r *verifkit.Rand, n int) {
	c17PKI()
	for it := 0; it < n; it++ {
		sc := c17GenDist(r)
		res, setupErr := c17RunDist(sc)
		if setupErr != "" {
			out.Fail("dist/setup", setupErr)
			continue
		}
		line := sc.head() + sc.tail(res)
		tag := fmt.Sprintf("seed=%d case=%d", verifkit.Seed(), it)
		ans := c17DistClass(res.err)
		if ans == "" {
			ans = "accept"
		} else if len(res.contacts) > 0 {
			out.Fail("dist/contacts-before-refusal "+tag, ans+" | "+line)
		}
		// a refusal before any log is contacted is only legitimate when the compatible part of the list cannot satisfy the policy
		// (evaluated here from the scenario itself, for the cases where root checking is off or the chain's root is accepted by
		// some log with known roots, i.e. the chain verifies): "when enough compatible logs answer … it reports success"
		if (ans == "badchain" || ans == "nogroups") && sc.isPre == sc.asPre {
			if ok, why := c17Feasible(sc); ok {
				out.Fail("dist/refused-although-enough-compatible-logs "+tag, ans+": "+res.err.Error()+" | "+why+" | "+line)
			}
		}
		out.T(line, ans)
		out.Count("mode:dist-" + sc.policy + "-" + strings.SplitN(ans, ":", 2)[0])
		if sc.twoRefreshes {
			out.Count("mode:dist-history-two-root-refreshes")
		}
		if sc.prevLogs != nil {
			out.Count("mode:dist-history-two-log-list-versions-via-proxy")
		}
		c17DistOracle(out, tag, sc, res, line)
		if it < 2 {
			out.Sample(line)
		}
	}
}

// ---------------------------------------------------------------------------------------------------------------
// "pol" and "compat" lines

func c17PolCases(out *verifkit.Out, r *verifkit.Rand, n int) {
	for it := 0; it < n; it++ {
		nb := time.Date(2020+r.Intn(4), time.Month(1+r.Intn(12)), 1+r.Intn(31), 0, 0, 0, 0, time.UTC)
		months := []int{0, 1, 13, 14, 15, 16, 26, 27, 28, 38, 39, 40, 41, 99}[r.Intn(14)]
		na := nb.AddDate(0, months, r.Intn(5)-2)
		cert := &x509.Certificate{NotBefore: nb, NotAfter: na}
		nl := r.Intn(10)
		var logs []*c17DLog
		for i := 1; i <= nl; i++ {
			logs = append(logs, &c17DLog{id: i, url: c17LogURL(i), google: r.Intn(2) == 0, status: 3})
		}
		ll := c17LogList(logs)
		for _, pol := range []string{"c", "a"} {
			var p ctpolicy.CTPolicy = ctpolicy.ChromeCTPolicy{}
			if pol == "a" {
				p = ctpolicy.AppleCTPolicy{}
			}
			groups, err := p.LogsByGroup(cert, ll)
			op := fmt.Sprintf("pol %s D6 %d %d %d %d %d %d N %d", pol, nb.Year(), int(nb.Month()), nb.Day(), na.Year(), int(na.Month()), na.Day(), nl)
			for _, l := range logs {
				op += fmt.Sprintf(" %d %s", l.id, verifkit.B(l.google))
			}
			m := c17Months(nb, na)
			if err != nil {
				out.T(op, "err")
				out.Count("class:policy-refused")
				continue
			}
			ids := map[string]int{"Google-operated": 1, "Non-Google-operated": 2, ctpolicy.BaseName: 0}
			order := []string{"Google-operated", "Non-Google-operated", ctpolicy.BaseName}
			var parts []string
			cnt := 0
			for _, name := range order {
				g, ok := groups[name]
				if !ok {
					continue
				}
				cnt++
				var ms []int
				for u := range g.LogURLs {
					for _, l := range logs {
						if l.url == u {
							ms = append(ms, l.id)
						}
					}
				}
				sort.Ints(ms)
				s := fmt.Sprintf("%d %d %s %d", ids[name], g.MinInclusions, verifkit.B(g.IsBase), len(ms))
				for _, x := range ms {
					s += fmt.Sprintf(" %d", x)
				}
				parts = append(parts, s)
				if g.Name != name {
					out.Fail("pol/key-differs-from-name", name+" vs "+g.Name)
				}
			}
			if cnt != len(groups) {
				out.Fail("pol/unexpected-group-names", fmt.Sprint(len(groups)))
			}
			// the property's numbers
			if b := groups[ctpolicy.BaseName]; b == nil || b.MinInclusions != c17PolicyTotal(m) {
				out.Fail("pol/base-total", op)
			}
			out.T(op, fmt.Sprintf("groups %d %s", cnt, strings.Join(parts, " ")))
			out.Count("class:policy-groups")
		}
	}
}

func c17CompatCases(out *verifkit.Out, r *verifkit.Rand, n int) {
	pki := c17PKI()
	var rootCerts []*x509.Certificate
	for _, rt := range pki {
		c, err := x509.ParseCertificate(rt.der)
		if x509.IsFatal(err) {
			panic(err)
		}
		rootCerts = append(rootCerts, c)
	}
	nonCA := &x509.Certificate{Raw: []byte{1, 2, 3}, IsCA: false}
	for it := 0; it < n; it++ {
		na := time.Date(2024, 6, 1, 12, 0, 0, r.Intn(2)*500, time.UTC)
		nl := 1 + r.Intn(6)
		var logs []*c17DLog
		roots := loglist3.LogRoots{}
		for i := 1; i <= nl; i++ {
			l := &c17DLog{id: i, url: c17LogURL(i), google: r.Bool(), status: 3}
			switch r.Intn(4) {
			case 0:
			case 1:
				l.interval = &loglist3.TemporalInterval{StartInclusive: na.Add(-time.Hour), EndExclusive: na.Add(time.Hour)}
			default:
				d := []time.Duration{0, 1, -1, 500, -500}[r.Intn(5)]
				if r.Bool() {
					l.interval = &loglist3.TemporalInterval{StartInclusive: na.Add(d), EndExclusive: na.Add(time.Hour)}
				} else {
					l.interval = &loglist3.TemporalInterval{StartInclusive: na.Add(-time.Hour), EndExclusive: na.Add(d)}
				}
			}
			if r.Intn(4) == 0 {
				l.rootsErr = true
			} else {
				pool := x509util.NewPEMCertPool()
				for k := 0; k < 3; k++ {
					if r.Bool() {
						l.roots = append(l.roots, k)
						pool.AddCert(rootCerts[k])
					}
				}
				roots[l.url] = pool
			}
			logs = append(logs, l)
		}
		ll := c17LogList(logs)
		cert := &x509.Certificate{NotAfter: na}
		var root *x509.Certificate
		rootTok, ca := "-", true
		switch x := r.Intn(6); {
		case x < 4:
			k := r.Intn(3)
			root, rootTok = rootCerts[k], fmt.Sprint(k)
		case x == 4:
			root, rootTok, ca = nonCA, "9", false
		}
		got := ll.Compatible(cert, root, roots)
		var ids []int
		for _, op := range got.Operators {
			if len(op.Logs) == 0 {
				out.Fail("compat/empty-operator-kept", op.Name)
			}
			for _, lg := range op.Logs {
				for _, l := range logs {
					if l.url == lg.URL {
						ids = append(ids, l.id)
					}
				}
			}
		}
		sort.Ints(ids)
		sc := &c17DistScenario{logs: logs}
		h := sc.head()
		op := fmt.Sprintf("compat NA %d ROOT %s %s N %d%s", c17Ns(na), rootTok, verifkit.B(ca), nl, h[strings.Index(h, " N ")+len(fmt.Sprintf(" N %d", nl)):])
		ans := fmt.Sprintf("%d", len(ids))
		for _, x := range ids {
			ans += fmt.Sprintf(" %d", x)
		}
		out.T(op, ans)
		out.Count("class:compat")
	}
}

// ---------------------------------------------------------------------------------------------------------------
// concurrency that must be free of data races on the unchanged tree: several AddChain callers on one Distributor
// while its roots are refreshed; checked by the race detector of the test binary itself.

func c17ConcurrentDist(out *verifkit.Out, r *verifkit.Rand, n int) {
	for it := 0; it < n; it++ {
		sc := c17GenDist(r)
		sc.isPre, sc.asPre, sc.disabled = false, false, false
		chain := [][]byte{c17Leaf(c17PKI()[sc.rootIdx], sc.nb, sc.na, false), c17PKI()[sc.rootIdx].der}
		callers := 2 + r.Intn(3)
		type one struct {
			res *c17Result
			sub *c17Submitter
		}
		rs := make([]one, callers)
		c17Bubble(func() {
			start := time.Now()
			shared := &c17Submitter{start: start, scripts: map[string]c17Script{}}
			for _, l := range sc.logs {
				shared.scripts[l.url] = l.script
			}
			d, err := c17DistSetup(sc, shared)
			if err != nil {
				return
			}
			// every other case goes through a Proxy whose distributor is replaced (log-list refresh) meanwhile
			viaProxy := it%2 == 1
			pctx, pcancel := context.WithCancel(context.Background())
			defer pcancel()
			var p *Proxy
			ll := c17LogList(sc.logs)
			if viaProxy {
				p = NewProxy(NewLogListManager(nil, nil), func(l *loglist3.LogList) (*Distributor, error) {
					return NewDistributor(l, sc.policyOf(), c17Builder(sc.logs, shared), nil)
				}, nil)
				if err := p.restartDistributor(pctx, ll); err != nil {
					return
				}
			}
			var wg sync.WaitGroup
			for k := 0; k < callers; k++ {
				wg.Add(1)
				go func(k int) {
					defer wg.Done()
					res := &c17Result{}
					ctx, cancel := context.WithDeadline(context.Background(), start.Add(sc.deadline))
					defer cancel()
					time.Sleep(time.Duration(k) * 300 * time.Millisecond)
					res.panicked = verifkit.Guard(func() {
						if viaProxy {
							res.scts, res.err = p.AddChain(ctx, chain, false)
						} else {
							res.scts, res.err = d.AddChain(ctx, chain, false)
						}
					})
					rs[k].res = res
				}(k)
			}
			// root refreshes / distributor restarts racing with the submissions
			wg.Add(1)
			go func() {
				defer wg.Done()
				for i := 0; i < 4; i++ {
					if viaProxy {
						_ = p.restartDistributor(pctx, ll)
					} else {
						d.RefreshRoots(context.Background())
					}
					time.Sleep(250 * time.Millisecond)
				}
			}()
			wg.Wait()
			pcancel()
			if dd := sc.deadline + time.Millisecond - time.Since(start); dd > 0 {
				time.Sleep(dd)
			}
		})
		for k := range rs {
			if rs[k].res == nil {
				continue
			}
			if rs[k].res.panicked != "" {
				out.Fail("dist/concurrent-panic", rs[k].res.panicked)
			}
			if rs[k].res.err == nil {
				total := c17PolicyTotal(c17Months(sc.nb, sc.na))
				if len(rs[k].res.scts) < total {
					out.Fail("dist/concurrent-success-below-total", fmt.Sprintf("%d < %d", len(rs[k].res.scts), total))
				}
			}
		}
		if it%2 == 1 {
			out.Count("mode:proxy-concurrent-callers-with-distributor-restart")
		} else {
			out.Count("mode:dist-concurrent-callers-with-root-refresh")
		}
	}
}

// c17FirstRefresh: a fresh distributor whose first RefreshRoots runs concurrently with submissions of a chain that every
// log accepts. Whatever the interleaving — root data still empty (fallback: no log has root data, all are tried), or
// already complete (the chain verifies) — enough logs answer successfully, so the call has to succeed.
func c17FirstRefresh(out *verifkit.Out, n int) {
	pki := c17PKI()
	nb, na := time.Date(2023, 1, 1, 0, 0, 0, 0, time.UTC), time.Date(2023, 12, 1, 0, 0, 0, 0, time.UTC)
	chain := [][]byte{c17Leaf(pki[1], nb, na, false), pki[1].der}
	for it := 0; it < n; it++ {
		var logs []*c17DLog
		for i := 1; i <= 4; i++ {
			logs = append(logs, &c17DLog{id: i, url: c17LogURL(i), google: i <= 2, status: 3, roots: []int{0, 1, 2},
				script: c17Script{time.Duration(i) * time.Millisecond, c17OK}})
		}
		const callers = 4
		errs := make([]error, callers)
		panics := make([]string, callers)
		c17Bubble(func() {
			sub := &c17Submitter{start: time.Now(), scripts: map[string]c17Script{}}
			for _, l := range logs {
				sub.scripts[l.url] = l.script
			}
			d, err := NewDistributor(c17LogList(logs), ctpolicy.ChromeCTPolicy{}, c17Builder(logs, sub), nil)
			if err != nil {
				return
			}
			var wg sync.WaitGroup
			wg.Add(1)
			go func() { defer wg.Done(); d.RefreshRoots(context.Background()) }()
			for k := 0; k < callers; k++ {
				wg.Add(1)
				go func(k int) {
					defer wg.Done()
					ctx, cancel := context.WithTimeout(context.Background(), time.Hour)
					defer cancel()
					panics[k] = verifkit.Guard(func() { _, errs[k] = d.AddChain(ctx, chain, false) })
				}(k)
			}
			wg.Wait()
		})
		for k := 0; k < callers; k++ {
			if panics[k] != "" {
				out.Fail("firstrefresh/panic", panics[k])
			} else if errs[k] != nil {
				out.Fail(fmt.Sprintf("firstrefresh iteration=%d caller=%d", it, k),
					"fresh Distributor (4 usable logs, 2 Google, all accept roots 0,1,2, all answer within 4 ms), chain rooted in root 1, 12-month leaf, Chrome policy; AddChain started together with the first RefreshRoots returned: "+errs[k].Error())
			} else {
				out.Count("class:firstrefresh-success")
			}
		}
	}
}

func TestVerifC17Dist(t *testing.T) {
	out := verifkit.Open()
	defer out.Close()
	r := verifkit.NewRand(verifkit.Seed() ^ 0xd157)
	c17PolCases(out, r.Fork(), verifkit.N(300, 6000))
	c17CompatCases(out, r.Fork(), verifkit.N(400, 10000))
	c17DistCases(out, r.Fork(), verifkit.N(250, 5000))
	c17ConcurrentDist(out, r.Fork(), verifkit.N(20, 300))
	c17FirstRefresh(out, verifkit.N(150, 3000))
	c17LockProbes(out)
}
