//go:build verif

package submission

// C17 harness, data-race clause. The regenerated lock table (Gen.Policy.lockTable) predicts, for two sets of
// functions run concurrently on the same object, whether a conflicting pair of accesses to a guarded field exists in
// which one side does not hold the guard ("lockpair" lines, answered by the model from the table). Here each such pair
// is actually run, concurrently, in a child process of this race-instrumented test binary, and the race detector's
// verdict is the implementation's answer. A detected race is a property failure (out.Fail), listed as finding F10b.

import (
	"bytes"
	"context"
	"fmt"
	"net/http/httptest"
	"os"
	"os/exec"
	"path/filepath"
	"regexp"
	"sort"
	"strings"
	"sync"
	"testing"
	"time"

	ct "github.com/google/certificate-transparency-go"
	"github.com/google/certificate-transparency-go/ctpolicy"
	"github.com/google/certificate-transparency-go/internal/verifkit"
	"github.com/google/certificate-transparency-go/loglist3"
	"github.com/google/trillian/monitoring"
)

type c17Probe struct {
	name string
	a, b []string // function names as they appear in the lock table
	run  func(t *testing.T)
}

// both runs f and g concurrently on fresh state, `n` times; nothing but the start orders the two sides.
func c17Both(n int, setup func() (f, g func())) {
	for i := 0; i < n; i++ {
		f, g := setup()
		if i%2 == 1 {
			f, g = g, f // alternate which side is started first
		}
		var wg sync.WaitGroup
		wg.Add(2)
		go func() { defer wg.Done(); f() }()
		go func() { defer wg.Done(); g() }()
		wg.Wait()
	}
}

func c17ProbeGroup() *ctpolicy.LogGroupInfo {
	g := &ctpolicy.LogGroupInfo{Name: "g", MinInclusions: 1, LogURLs: map[string]bool{}, LogWeights: map[string]float32{}}
	for i := 1; i <= 4; i++ {
		g.LogURLs[c17LogURL(i)] = true
		g.LogWeights[c17LogURL(i)] = 1
	}
	return g
}

func c17ProbeLogs() []*c17DLog {
	var logs []*c17DLog
	for i := 1; i <= 4; i++ {
		logs = append(logs, &c17DLog{id: i, url: c17LogURL(i), google: i <= 2, status: 3, roots: []int{0, 1, 2},
			script: c17Script{time.Millisecond, c17OK}})
	}
	return logs
}

func c17ProbeProxy(ctx context.Context) (*Proxy, *loglist3.LogList) {
	logs := c17ProbeLogs()
	sub := &c17Submitter{start: time.Now(), scripts: map[string]c17Script{}}
	for _, l := range logs {
		sub.scripts[l.url] = l.script
	}
	ll := c17LogList(logs)
	p := NewProxy(NewLogListManager(nil, nil), GetDistributorBuilder(ChromeCTPolicy, c17Builder(logs, sub), nil), nil)
	if err := p.restartDistributor(ctx, ll); err != nil {
		panic(err)
	}
	return p, ll
}

type c17FakeRefresher struct {
	mu sync.Mutex
	n  int
}

func (f *c17FakeRefresher) Refresh() (*LogListData, error) {
	f.mu.Lock()
	defer f.mu.Unlock()
	f.n++
	return &LogListData{JSON: []byte(fmt.Sprint(f.n)), List: c17LogList(c17ProbeLogs()), DownloadTime: time.Now()}, nil
}
func (f *c17FakeRefresher) LastJSON() []byte { return nil }
func (f *c17FakeRefresher) Source() string   { return "fake" }

func c17Probes() []c17Probe {
	logRefOnce.Do(func() { logRefInitMetrics(context.Background(), monitoring.InertMetricFactory{}) })
	weights := map[string]float32{c17LogURL(1): 2, c17LogURL(2): 1}
	return []c17Probe{
		{"session||SetLogWeights", []string{"LogGroupInfo.GetSubmissionSession"}, []string{"LogGroupInfo.SetLogWeights"}, func(t *testing.T) {
			c17Both(200, func() (func(), func()) {
				g := c17ProbeGroup()
				return func() { g.GetSubmissionSession() }, func() { _ = g.SetLogWeights(weights) }
			})
		}},
		{"session||SetLogWeight", []string{"LogGroupInfo.GetSubmissionSession"}, []string{"LogGroupInfo.SetLogWeight"}, func(t *testing.T) {
			c17Both(200, func() (func(), func()) {
				g := c17ProbeGroup()
				return func() { g.GetSubmissionSession() }, func() { _ = g.SetLogWeight(c17LogURL(1), 3) }
			})
		}},
		{"SetLogWeight||SetLogWeight", []string{"LogGroupInfo.SetLogWeight"}, []string{"LogGroupInfo.SetLogWeight"}, func(t *testing.T) {
			c17Both(40, func() (func(), func()) {
				g := c17ProbeGroup()
				return func() { _ = g.SetLogWeight(c17LogURL(2), 2) }, func() { _ = g.SetLogWeight(c17LogURL(1), 3) }
			})
		}},
		{"SetLogWeights||SetLogWeights", []string{"LogGroupInfo.SetLogWeights"}, []string{"LogGroupInfo.SetLogWeights"}, func(t *testing.T) {
			c17Both(40, func() (func(), func()) {
				g := c17ProbeGroup()
				return func() { _ = g.SetLogWeights(weights) }, func() { _ = g.SetLogWeights(weights) }
			})
		}},
		{"session||session", []string{"LogGroupInfo.GetSubmissionSession"}, []string{"LogGroupInfo.GetSubmissionSession"}, func(t *testing.T) {
			c17Both(40, func() (func(), func()) {
				g := c17ProbeGroup()
				return func() { g.GetSubmissionSession() }, func() { g.GetSubmissionSession() }
			})
		}},
		{"Proxy.AddChain||restartDistributor", []string{"Proxy.AddChain"}, []string{"Proxy.restartDistributor"}, func(t *testing.T) {
			ctx, cancel := context.WithCancel(context.Background())
			defer cancel()
			c17Both(20, func() (func(), func()) {
				p, ll := c17ProbeProxy(ctx)
				return func() { _, _ = p.AddChain(ctx, nil, false) }, func() { _ = p.restartDistributor(ctx, ll) }
			})
		}},
		{"Proxy.AddPreChain||restartDistributor", []string{"Proxy.AddPreChain"}, []string{"Proxy.restartDistributor"}, func(t *testing.T) {
			ctx, cancel := context.WithCancel(context.Background())
			defer cancel()
			c17Both(20, func() (func(), func()) {
				p, ll := c17ProbeProxy(ctx)
				return func() { _, _ = p.AddPreChain(ctx, nil, false) }, func() { _ = p.restartDistributor(ctx, ll) }
			})
		}},
		{"ProxyServer.HandleInfo||restartDistributor", []string{"ProxyServer.HandleInfo"}, []string{"Proxy.restartDistributor"}, func(t *testing.T) {
			ctx, cancel := context.WithCancel(context.Background())
			defer cancel()
			c17Both(20, func() (func(), func()) {
				p, ll := c17ProbeProxy(ctx)
				p.llWatcher = NewLogListManager(&c17FakeRefresher{}, nil)
				s := &ProxyServer{p: p}
				return func() {
					verifkit.Guard(func() { s.HandleInfo(httptest.NewRecorder(), httptest.NewRequest("GET", "/", nil)) })
				}, func() { _ = p.restartDistributor(ctx, ll) }
			})
		}},
		{"RefreshLogList||ProduceClientLogList", []string{"LogListManager.RefreshLogList"}, []string{"LogListManager.ProduceClientLogList"}, func(t *testing.T) {
			c17Both(40, func() (func(), func()) {
				m := NewLogListManager(&c17FakeRefresher{}, nil)
				_, _ = m.RefreshLogList(context.Background())
				return func() { _, _ = m.RefreshLogList(context.Background()) }, func() { _ = m.ProduceClientLogList() }
			})
		}},
		{"RefreshLogList||GetTwoLatestLogLists", []string{"LogListManager.RefreshLogList"}, []string{"LogListManager.GetTwoLatestLogLists"}, func(t *testing.T) {
			c17Both(40, func() (func(), func()) {
				m := NewLogListManager(&c17FakeRefresher{}, nil)
				_, _ = m.RefreshLogList(context.Background())
				return func() { _, _ = m.RefreshLogList(context.Background()) }, func() { _, _ = m.GetTwoLatestLogLists() }
			})
		}},
		{"Refresh||LastJSON", []string{"logListRefresherImpl.Refresh"}, []string{"logListRefresherImpl.LastJSON"}, func(t *testing.T) {
			dir := t.TempDir()
			path := filepath.Join(dir, "ll.json")
			if err := os.WriteFile(path, []byte(`{"operators":[]}`), 0o644); err != nil {
				t.Fatal(err)
			}
			c17Both(40, func() (func(), func()) {
				r := NewCustomLogListRefresher(nil, path)
				return func() { _, _ = r.Refresh() }, func() { _ = r.LastJSON() }
			})
		}},
		{"RefreshRoots||AddChain", []string{"Distributor.RefreshRoots"}, []string{"Distributor.addSomeChain.func1"}, func(t *testing.T) {
			chain := [][]byte{c17Leaf(c17PKI()[0], time.Date(2023, 1, 1, 0, 0, 0, 0, time.UTC), time.Date(2023, 12, 1, 0, 0, 0, 0, time.UTC), false), c17PKI()[0].der}
			c17Both(10, func() (func(), func()) {
				logs := c17ProbeLogs()
				sub := &c17Submitter{start: time.Now(), scripts: map[string]c17Script{}}
				for _, l := range logs {
					sub.scripts[l.url] = l.script
				}
				d, err := NewDistributor(c17LogList(logs), ctpolicy.ChromeCTPolicy{}, c17Builder(logs, sub), nil)
				if err != nil {
					panic(err)
				}
				d.RefreshRoots(context.Background())
				return func() { d.RefreshRoots(context.Background()) }, func() {
					ctx, cancel := context.WithTimeout(context.Background(), 5*time.Second)
					defer cancel()
					_, _ = d.AddChain(ctx, chain, false)
				}
			})
		}},
		{"RefreshRoots||AddChain(chain that does not verify)", []string{"Distributor.RefreshRoots"}, []string{"Distributor.addSomeChain.func1"}, func(t *testing.T) {
			// the chain is rooted in root 0, every log accepts roots 1 and 2 only: the verification-failure path
			chain := [][]byte{c17Leaf(c17PKI()[0], time.Date(2023, 1, 1, 0, 0, 0, 0, time.UTC), time.Date(2023, 12, 1, 0, 0, 0, 0, time.UTC), false), c17PKI()[0].der}
			c17Both(30, func() (func(), func()) {
				logs := c17ProbeLogs()
				for _, l := range logs {
					l.roots = []int{1, 2}
				}
				sub := &c17Submitter{start: time.Now(), scripts: map[string]c17Script{}}
				for _, l := range logs {
					sub.scripts[l.url] = l.script
				}
				d, err := NewDistributor(c17LogList(logs), ctpolicy.ChromeCTPolicy{}, c17Builder(logs, sub), nil)
				if err != nil {
					panic(err)
				}
				return func() { d.RefreshRoots(context.Background()) }, func() {
					ctx, cancel := context.WithTimeout(context.Background(), 5*time.Second)
					defer cancel()
					_, _ = d.AddChain(ctx, chain, false)
				}
			})
		}},
		{"AddChain x4 released together after RefreshRoots", []string{"Distributor.addSomeChain.func1"}, []string{"Distributor.addSomeChain.func1"}, func(t *testing.T) {
			// the first users of a freshly refreshed root pool: they only hold the distributor's READ lock
			chain := [][]byte{c17Leaf(c17PKI()[1], time.Date(2023, 1, 1, 0, 0, 0, 0, time.UTC), time.Date(2023, 12, 1, 0, 0, 0, 0, time.UTC), false), c17PKI()[1].der}
			for it := 0; it < 25; it++ {
				logs := c17ProbeLogs()
				for _, l := range logs {
					l.roots = []int{0, 1, 2, 3, 4}
				}
				sub := &c17Submitter{start: time.Now(), scripts: map[string]c17Script{}}
				for _, l := range logs {
					sub.scripts[l.url] = l.script
				}
				d, err := NewDistributor(c17LogList(logs), ctpolicy.ChromeCTPolicy{}, c17Builder(logs, sub), nil)
				if err != nil {
					panic(err)
				}
				d.RefreshRoots(context.Background())
				release := make(chan struct{})
				var wg sync.WaitGroup
				for k := 0; k < 4; k++ {
					wg.Add(1)
					go func() {
						defer wg.Done()
						<-release
						ctx, cancel := context.WithTimeout(context.Background(), 5*time.Second)
						defer cancel()
						if _, err := d.AddChain(ctx, chain, false); err != nil {
							fmt.Println("PROBE-SUBMISSION-FAILED " + err.Error())
						}
					}()
				}
				close(release)
				wg.Wait()
			}
		}},
		{"request||setResult||collect", []string{"safeSubmissionState.request", "safeSubmissionState.groupComplete"},
			[]string{"safeSubmissionState.setResult", "safeSubmissionState.collectSCTs"}, func(t *testing.T) {
				c17Both(40, func() (func(), func()) {
					c := newC17Cfg(3)
					c.addGroup(ctpolicy.BaseName, true, 2, []int{1, 2, 3}, nil)
					s := newSafeSubmissionState(c.data())
					s.request(c.logs[0], func() {})
					return func() { s.request(c.logs[1], func() {}); s.groupComplete(ctpolicy.BaseName) },
						func() { s.setResult(c.logs[0], &ct.SignedCertificateTimestamp{}, nil); s.collectSCTs() }
				})
			}},
	}
}

// TestVerifC17RaceProbe runs one probe; only ever started as a child process by c17LockProbes.
func TestVerifC17RaceProbe(t *testing.T) {
	name := os.Getenv("VERIF_C17_PROBE")
	if name == "" {
		t.Skip("child-process helper of TestVerifC17Dist")
	}
	for _, p := range c17Probes() {
		if p.name == name {
			p.run(t)
			fmt.Println("PROBE-DONE " + name)
			return
		}
	}
	t.Fatalf("unknown probe %q", name)
}

var c17Frame = regexp.MustCompile(`certificate-transparency-go/((?:ctpolicy|submission)\.[^\s(]*(?:\([^)]*\))?[^\s(]*)\(`)

func c17LockProbes(out *verifkit.Out) {
	probes := c17Probes()
	outputs := make([]string, len(probes))
	sem := make(chan struct{}, 4)
	var wg sync.WaitGroup
	for i, p := range probes {
		wg.Add(1)
		go func(i int, name string) {
			defer wg.Done()
			sem <- struct{}{}
			defer func() { <-sem }()
			cmd := exec.Command(os.Args[0], "-test.run", "^TestVerifC17RaceProbe$", "-test.count=1", "-test.timeout=120s")
			cmd.Env = append(os.Environ(), "VERIF_C17_PROBE="+name, "VERIF_OUT=", "GORACE=halt_on_error=0", "GOMAXPROCS=4")
			var buf bytes.Buffer
			cmd.Stdout, cmd.Stderr = &buf, &buf
			_ = cmd.Run()
			outputs[i] = buf.String()
		}(i, p.name)
	}
	wg.Wait()
	for i, p := range probes {
		o := outputs[i]
		op := fmt.Sprintf("lockpair A %d %s B %d %s", len(p.a), strings.Join(p.a, " "), len(p.b), strings.Join(p.b, " "))
		if !strings.Contains(o, "PROBE-DONE "+p.name) {
			tail := o
			if len(tail) > 600 {
				tail = tail[len(tail)-600:]
			}
			out.T(op, "probe-crashed")
			out.Fail("probe/crash "+p.name, tail)
			continue
		}
		if i := strings.Index(o, "PROBE-SUBMISSION-FAILED "); i >= 0 {
			line := o[i:]
			if j := strings.Index(line, "\n"); j >= 0 {
				line = line[:j]
			}
			out.Fail("probe/submission-failed "+p.name, "every log accepts the chain's root and answers, yet: "+line)
		}
		if !strings.Contains(o, "WARNING: DATA RACE") {
			out.T(op, "norace")
			out.Count("class:probe-norace")
			continue
		}
		// the repository functions on top of the two stacks of each report
		fns := map[string]bool{}
		for _, rep := range strings.Split(o, "WARNING: DATA RACE")[1:] {
			for _, blk := range regexp.MustCompile(`(?m)^(Read|Write|Previous read|Previous write) at .*$`).Split(rep, -1)[1:] {
				if m := c17Frame.FindStringSubmatch(blk); m != nil {
					fns[m[1]] = true
				}
			}
		}
		var names []string
		for f := range fns {
			names = append(names, f)
		}
		sort.Strings(names)
		out.T(op, "race")
		out.Count("class:probe-race")
		out.Fail("race "+p.name, "race detector: conflicting unsynchronised accesses in "+strings.Join(names, " / "))
	}
}
