//go:build verif

package ctutil

// C05 — signature verification accepts exactly the valid log signatures.
// Drives tls.VerifySignature, ct.NewSignatureVerifier, SignatureVerifier.VerifySCTSignature / VerifySTHSignature,
// ct.SerializeSCTSignatureInput / SerializeSTHSignatureInput, loglist3.NewFromSignedJSON, ctutil.VerifySCT and the
// asn1 fork's Unmarshal of SEQUENCE{INTEGER,INTEGER}.  The expected verdicts come from verifkit (standard library
// primitives on the harness' own reading of the octets, RFC layouts written by hand).

import (
	"crypto"
	"crypto/dsa" //nolint:staticcheck
	"crypto/ecdsa"
	"crypto/ed25519"
	"crypto/elliptic"
	"crypto/rsa"
	"crypto/sha256"
	"fmt"
	"io"
	"log"
	"math/big"
	"strings"
	"testing"
	"time"

	ct "github.com/google/certificate-transparency-go"
	"github.com/google/certificate-transparency-go/asn1"
	"github.com/google/certificate-transparency-go/internal/verifkit"
	"github.com/google/certificate-transparency-go/loglist3"
	"github.com/google/certificate-transparency-go/testdata"
	"github.com/google/certificate-transparency-go/tls"
	"github.com/google/certificate-transparency-go/x509"
	"github.com/google/certificate-transparency-go/x509util"
)

type c05 struct {
	out *verifkit.Out
	r   *verifkit.Rand
}

func outcome(err error, p string) string {
	if p != "" {
		return "panic"
	}
	if err != nil {
		return "err"
	}
	return "ok"
}

// vline is the common prefix `<kind> <nil> <hash> <sigalg> <R> <S> <prim> <sighex>` of the v/vsct/vsth lines.
func vline(k *verifkit.SKey, isNil bool, hash, alg int, v verifkit.Verdict, sig []byte) string {
	return fmt.Sprintf("%s %s %d %d %s %s %s %s", k.Kind, verifkit.B(isNil), hash, alg, verifkit.IntStr(v.R), verifkit.IntStr(v.S), verifkit.B(v.Prim), verifkit.Hex(sig))
}

// verify runs tls.VerifySignature on one case, writes the trace line and evaluates the property.
func (c *c05) verify(class string, k *verifkit.SKey, hash, alg int, msg, sig []byte) string {
	v := k.Judge(hash, msg, sig)
	var err error
	p := verifkit.Guard(func() {
		err = tls.VerifySignature(k.Pub, msg, tls.DigitallySigned{
			Algorithm: tls.SignatureAndHashAlgorithm{Hash: tls.HashAlgorithm(hash), Signature: tls.SignatureAlgorithm(alg)}, Signature: sig})
	})
	got := outcome(err, p)
	c.out.T("v "+vline(k, false, hash, alg, v, sig), got)
	c.out.Count("class:" + class)
	c.out.Count("outcome:" + got)
	want := "err"
	if k.Expect(hash, alg, v) {
		want = "ok"
	}
	if got != want {
		key := fmt.Sprintf("v %s key=%s hash=%d alg=%d", class, k.Kind, hash, alg)
		if got == "ok" && (k.Kind == "dsa" || k.Kind == "ecdsa") && v.Prim && !v.Strict && v.R != nil && v.R.Sign() > 0 && v.S.Sign() > 0 {
			key = "v non-canonical-der-accepted " + class
		}
		c.out.Fail(key, fmt.Sprintf("tls.VerifySignature(%s, hash=%d, alg=%d, sig=%x) = %s, the property requires %s (prim=%v strictDER=%v r=%s s=%s) panic=%q",
			k.Name, hash, alg, sig, got, want, v.Prim, v.Strict, verifkit.IntStr(v.R), verifkit.IntStr(v.S), p))
	}
	return got
}

// derEnc: a deliberately non-validating DER writer for the malformed stream.
func derLenMin(n int) []byte {
	switch {
	case n < 0x80:
		return []byte{byte(n)}
	case n < 0x100:
		return []byte{0x81, byte(n)}
	case n < 0x10000:
		return []byte{0x82, byte(n >> 8), byte(n)}
	default:
		return []byte{0x83, byte(n >> 16), byte(n >> 8), byte(n)}
	}
}
func cat(bs ...[]byte) []byte {
	var o []byte
	for _, b := range bs {
		o = append(o, b...)
	}
	return o
}
func tlvB(tag byte, c []byte) []byte { return cat([]byte{tag}, derLenMin(len(c)), c) }

// intContent: minimal two's complement content octets.
func intContent(x *big.Int) []byte {
	b := verifkit.CanonRS(x, big.NewInt(1)) // 30 L 02 l <content> 02 01 01
	_, in, _ := splitTLV(b)
	_, c, _ := splitTLV(in)
	return c
}
func splitTLV(b []byte) (hdr int, content, rest []byte) {
	n := int(b[1])
	h := 2
	if n >= 0x80 {
		k := n & 0x7f
		n = 0
		for i := 0; i < k; i++ {
			n = n<<8 | int(b[2+i])
		}
		h = 2 + k
	}
	return h, b[h : h+n], b[h+n:]
}

type derCase struct {
	name string
	sig  []byte
}

// derVariants: well-formed and malformed encodings around a genuine (r, s).
func derVariants(r *verifkit.Rand, R, S *big.Int) []derCase {
	cr, cs := intContent(R), intContent(S)
	ir, is := tlvB(2, cr), tlvB(2, cs)
	canon := tlvB(0x30, cat(ir, is))
	neg := func(x *big.Int) *big.Int { return new(big.Int).Neg(x) }
	out := []derCase{
		{"canonical", canon},
		{"trailing1", cat(canon, []byte{0})},
		{"trailing5", cat(canon, r.Bytes(5))},
		{"trailing300", cat(canon, r.Bytes(300))},
		{"trailing-second-sig", cat(canon, canon)},
		{"inner-extra-null", tlvB(0x30, cat(ir, is, []byte{5, 0}))},
		{"inner-extra-int", tlvB(0x30, cat(ir, is, []byte{2, 1, 1}))},
		{"inner-extra-junk1", tlvB(0x30, cat(ir, is, []byte{0xff}))},
		{"inner-extra-junk200", tlvB(0x30, cat(ir, is, r.Bytes(200)))},
		{"inner-extra-junk70000", tlvB(0x30, cat(ir, is, r.Bytes(70000)))},
		{"inner-extra+trailing", cat(tlvB(0x30, cat(ir, is, []byte{5, 0})), []byte{1, 2})},
		{"r-zero", tlvB(0x30, cat(tlvB(2, []byte{0}), is))},
		{"s-zero", tlvB(0x30, cat(ir, tlvB(2, []byte{0})))},
		{"r-negative", tlvB(0x30, cat(tlvB(2, intContent(neg(R))), is))},
		{"s-negative", tlvB(0x30, cat(ir, tlvB(2, intContent(neg(S)))))},
		{"r-minus1", tlvB(0x30, cat(tlvB(2, []byte{0xff}), is))},
		{"r-highbit-unpadded", tlvB(0x30, cat(tlvB(2, cat([]byte{0x80}, cr)), is))},
		{"r-nonminimal-00", tlvB(0x30, cat(tlvB(2, cat([]byte{0}, padClear(cr))), is))},
		{"s-nonminimal-00", tlvB(0x30, cat(ir, tlvB(2, cat([]byte{0}, padClear(cs)))))},
		{"r-nonminimal-ff", tlvB(0x30, cat(tlvB(2, cat([]byte{0xff}, intContent(neg(R)))), is))},
		{"r-empty", tlvB(0x30, cat([]byte{2, 0}, is))},
		{"s-empty", tlvB(0x30, cat(ir, []byte{2, 0}))},
		{"s-missing", tlvB(0x30, ir)},
		{"empty-seq", []byte{0x30, 0}},
		{"empty", nil},
		{"one-byte", []byte{0x30}},
		{"seq-len-81-short", cat([]byte{0x30, 0x81, byte(len(ir) + len(is))}, ir, is)},
		{"seq-len-82-00", cat([]byte{0x30, 0x82, 0, byte(len(ir) + len(is))}, ir, is)},
		{"int-len-81-short", tlvB(0x30, cat([]byte{2, 0x81, byte(len(cr))}, cr, is))},
		{"seq-indefinite", cat([]byte{0x30, 0x80}, ir, is, []byte{0, 0})},
		{"int-indefinite", tlvB(0x30, cat([]byte{2, 0x80}, cr, []byte{0, 0}, is))},
		{"seq-len-too-long", cat([]byte{0x30, byte(len(ir) + len(is) + 1)}, ir, is)},
		{"seq-len-too-short", cat([]byte{0x30, byte(len(ir) + len(is) - 1)}, ir, is)},
		{"int-len-overruns-seq", tlvB(0x30, cat(ir, []byte{2, byte(len(cs) + 1)}, cs))},
		{"len-84-7fffffff", cat([]byte{0x30, 0x84, 0x7f, 0xff, 0xff, 0xff}, ir, is)},
		{"len-84-80000000", cat([]byte{0x30, 0x84, 0x80, 0, 0, 0}, ir, is)},
		{"len-84-00800000", cat([]byte{0x30, 0x84, 0, 0x80, 0, 0}, ir, is)},
		{"len-85", cat([]byte{0x30, 0x85, 1, 0, 0, 0, 0}, ir, is)},
		{"len-88", cat([]byte{0x30, 0x88, 0xff, 0xff, 0xff, 0xff, 0xff, 0xff, 0xff, 0xff}, ir, is)},
		{"len-ff", cat([]byte{0x30, 0xff}, ir, is)},
		{"len-83-nonminimal", cat([]byte{0x30, 0x83, 0, 0, byte(len(ir) + len(is))}, ir, is)},
		{"tag-set", cat([]byte{0x31}, canon[1:])},
		{"tag-primitive-seq", cat([]byte{0x10}, canon[1:])},
		{"tag-high-form-16", cat([]byte{0x3f, 0x10}, canon[1:])},
		{"tag-high-form-80-10", cat([]byte{0x3f, 0x80, 0x10}, canon[1:])},
		{"tag-app-class", cat([]byte{0x70}, canon[1:])},
		{"tag-ctx-class", cat([]byte{0xb0}, canon[1:])},
		{"int-tag-constructed", tlvB(0x30, cat([]byte{0x22}, ir[1:], is))},
		{"int-tag-ctx", tlvB(0x30, cat([]byte{0x82}, ir[1:], is))},
		{"int-tag-enum", tlvB(0x30, cat(ir, []byte{0x0a}, is[1:]))},
		{"int-tag-bitstring", tlvB(0x30, cat([]byte{0x03}, ir[1:], is))},
		{"int-tag-high-form-2", tlvB(0x30, cat([]byte{0x1f, 0x02}, ir[1:], is))},
		{"swapped", tlvB(0x30, cat(is, ir))},
		{"r-plus-one", tlvB(0x30, cat(tlvB(2, intContent(new(big.Int).Add(R, big.NewInt(1)))), is))},
		{"random", r.Bytes(1 + r.Intn(80))},
		{"random-seq", tlvB(0x30, r.Bytes(r.Intn(60)))},
	}
	// every proper prefix of the canonical encoding (sampled in the quick tier)
	step := 1
	if !verifkit.Thorough() {
		step = 1 + len(canon)/12
	}
	for i := 1; i < len(canon); i += step {
		out = append(out, derCase{"truncated", canon[:i]})
	}
	return out
}

// padClear makes sure the octets start with a clear top bit so that a 00 prefix is superfluous.
func padClear(c []byte) []byte {
	if len(c) > 0 && c[0]&0x80 != 0 {
		return cat([]byte{0x7f}, c)
	}
	return c
}

func flipBit(b []byte, i int) []byte {
	o := append([]byte(nil), b...)
	o[i/8] ^= 1 << uint(i%8)
	return o
}

func sigAlgOf(k *verifkit.SKey) int {
	switch k.Kind {
	case "rsa":
		return 1
	case "dsa":
		return 2
	case "ecdsa":
		return 3
	}
	return 0
}

func TestVerifC05(t *testing.T) {
	log.SetOutput(io.Discard) // "Garbage following signature" lines
	out := verifkit.Open()
	defer out.Close()
	c := &c05{out: out, r: verifkit.NewRand(verifkit.Seed())}
	verifkit.DSAKeyPEM = testdata.DsaPrivateKeyPEM
	keys := verifkit.Keys()
	msg := []byte("certificate transparency: one message for the whole grid")

	// 1. the exhaustive 256 x 256 grid of (hash, signature) codes on one message, one key, one genuine signature.
	gk := verifkit.KeyByName("p256")
	gsig := gk.Sign(4, msg)
	for h := 0; h < 256; h++ {
		for a := 0; a < 256; a++ {
			c.verify("grid", gk, h, a, msg, gsig)
		}
	}
	// the same grid for an RSA and a DSA key: full in the thorough tier, the two bands hash<16 / alg<16 in the quick tier
	for _, name := range []string{"rsa2048", "dsa"} {
		rk := verifkit.KeyByName(name)
		rsig := rk.Sign(4, msg)
		for h := 0; h < 256; h++ {
			for a := 0; a < 256; a++ {
				if verifkit.Thorough() || h < 16 || a < 16 {
					c.verify("grid-"+rk.Kind, rk, h, a, msg, rsig)
				}
			}
		}
	}

	// 2. every key x every supported hash: genuine signature under every signature code 0..4 and 255,
	//    under every other hash code, with another key of the same kind, bit flips of signature and message.
	nflip := verifkit.N(6, 60)
	for _, k := range keys {
		for h := 1; h <= 6; h++ {
			m := c.r.Bytes(1 + c.r.Intn(200))
			sig := k.Sign(h, m)
			for _, a := range []int{0, 1, 2, 3, 4, 255} {
				c.verify("genuine", k, h, a, m, sig)
			}
			al := sigAlgOf(k)
			for i := 0; i < verifkit.N(60, 200); i++ { // genuine, repeated with fresh messages: the success path
				m2 := c.r.Bytes(c.r.Intn(300))
				c.verify("genuine", k, h, al, m2, k.Sign(h, m2))
			}
			for h2 := 0; h2 <= 7; h2++ {
				if h2 != h {
					c.verify("other-hash", k, h2, al, m, sig)
				}
			}
			for _, k2 := range keys {
				if k2 != k && k2.Kind == k.Kind {
					c.verify("foreign-key", k2, h, al, m, sig)
				}
			}
			for i := 0; i < nflip && len(sig) > 0; i++ {
				c.verify("sig-bitflip", k, h, al, m, flipBit(sig, c.r.Intn(8*len(sig))))
				c.verify("msg-bitflip", k, h, al, flipBit(m, c.r.Intn(8*len(m))), sig)
			}
			c.verify("sig-truncated", k, h, al, m, sig[:len(sig)/2])
			c.verify("sig-extended", k, h, al, m, cat(sig, []byte{0}))
			c.verify("sig-empty", k, h, al, m, nil)
		}
	}

	// 3. DER: well-formed and malformed encodings of a genuine (r, s), (EC)DSA keys, also sent straight to the asn1 fork.
	type pair struct{ R, S *big.Int }
	for _, k := range keys {
		if k.Kind != "ecdsa" && k.Kind != "dsa" {
			continue
		}
		rounds := verifkit.N(2, 12)
		for it := 0; it < rounds; it++ {
			h := 1 + c.r.Intn(6)
			m := c.r.Bytes(1 + c.r.Intn(64))
			_, d, _ := verifkit.Digest(h, m)
			R, S := k.SignRS(d)
			for _, dc := range derVariants(c.r, R, S) {
				c.verify("der:"+dc.name, k, h, sigAlgOf(k), m, dc.sig)
				var got pair
				var rest []byte
				var err error
				p := verifkit.Guard(func() { rest, err = asn1.Unmarshal(dc.sig, &got) })
				ans := "err"
				if p != "" {
					ans = "panic"
					out.Fail("der panic "+dc.name, p)
				} else if err == nil {
					ans = fmt.Sprintf("ok %s %s %s", got.R, got.S, verifkit.Hex(rest))
				}
				out.T("der "+verifkit.Hex(dc.sig), ans)
			}
		}
	}
	// small integers: every (r, s) content of one or two octets that matters for minimality and sign
	for _, rc := range [][]byte{{0}, {1}, {0x7f}, {0x80}, {0xff}, {0, 0}, {0, 0x7f}, {0, 0x80}, {0, 0xff}, {0xff, 0}, {0xff, 0x7f}, {0xff, 0x80}, {0xff, 0xff}, {1, 0}, {0x7f, 0xff}, {0x80, 0}} {
		for _, sc := range [][]byte{{1}, {0}, {0x80}, {0, 0x80}, {0, 1}} {
			sig := tlvB(0x30, cat(tlvB(2, rc), tlvB(2, sc)))
			var got pair
			rest, err := asn1.Unmarshal(sig, &got)
			ans := "err"
			if err == nil {
				ans = fmt.Sprintf("ok %s %s %s", got.R, got.S, verifkit.Hex(rest))
			}
			out.T("der "+verifkit.Hex(sig), ans)
			c.verify("der:small", gk, 4, 3, msg, sig)
		}
	}

	// 4. typed nil and zero-valued keys: a mismatch is an error; a degenerate key of the declared type is outside the
	//    property (traced only: the model says which of them reach a nil dereference inside the primitive).
	for _, nk := range []struct {
		kind string
		tok  int
		pub  crypto.PublicKey
	}{{"rsa", 1, (*rsa.PublicKey)(nil)}, {"dsa", 1, (*dsa.PublicKey)(nil)}, {"ecdsa", 1, (*ecdsa.PublicKey)(nil)},
		{"rsa", 2, &rsa.PublicKey{}}, {"dsa", 2, &dsa.PublicKey{}}, {"ecdsa", 2, &ecdsa.PublicKey{}}} {
		for a := 0; a <= 4; a++ {
			for _, sig := range [][]byte{gsig, {1, 2, 3}} {
				var err error
				p := verifkit.Guard(func() {
					err = tls.VerifySignature(nk.pub, msg, tls.DigitallySigned{Algorithm: tls.SignatureAndHashAlgorithm{Hash: 4, Signature: tls.SignatureAlgorithm(a)}, Signature: sig})
				})
				R, S, _ := verifkit.LenientRS(sig)
				got := outcome(err, p)
				out.T(fmt.Sprintf("v %s %d 4 %d %s %s 0 %s", nk.kind, nk.tok, a, verifkit.IntStr(R), verifkit.IntStr(S), verifkit.Hex(sig)), got)
				out.Count("class:degenerate-key")
				if verifkit.RFCSigKind[a] != nk.kind && got != "err" {
					out.Fail(fmt.Sprintf("v degenerate-key mismatch key=%s alg=%d", nk.kind, a), "algorithm/key mismatch answered "+got)
				}
			}
		}
	}
	// a nil interface and a value-typed key are mismatches for every algorithm
	for a := 0; a <= 4; a++ {
		for _, pk := range []crypto.PublicKey{nil, rsa.PublicKey{}, ecdsa.PublicKey{}, "string"} {
			var err error
			p := verifkit.Guard(func() {
				err = tls.VerifySignature(pk, msg, tls.DigitallySigned{Algorithm: tls.SignatureAndHashAlgorithm{Hash: 4, Signature: tls.SignatureAlgorithm(a)}, Signature: gsig})
			})
			R, S, _ := verifkit.LenientRS(gsig)
			got := outcome(err, p)
			out.T(fmt.Sprintf("v other 0 4 %d %s %s 0 %s", a, verifkit.IntStr(R), verifkit.IntStr(S), verifkit.Hex(gsig)), got)
			out.Count("class:foreign-type")
			if got != "err" {
				out.Fail(fmt.Sprintf("v foreign-type %T alg=%d", pk, a), "answered "+got)
			}
		}
	}

	c.policy(keys)
	c.signedObjects(keys)
	c.signedJSON(keys)
}

// policy: ct.NewSignatureVerifier over the key set, synthetic RSA moduli at the boundary, and foreign key types.
func (c *c05) policy(keys []*verifkit.SKey) {
	saved := ct.AllowVerificationWithNonCompliantKeys
	defer func() { ct.AllowVerificationWithNonCompliantKeys = saved }()
	type pk struct {
		kind string
		bits int
		p256 bool
		pub  crypto.PublicKey
		tok  int // 0 real, 1 typed nil pointer, 2 pointer to the zero value
	}
	var pks []pk
	for _, k := range keys {
		pks = append(pks, pk{k.Kind, k.Bits, k.P256, k.Pub, 0})
	}
	for _, b := range []int{1, 2, 512, 1023, 1024, 2046, 2047, 2048, 2049, 3072, 4096, 8192} {
		n := new(big.Int).Lsh(big.NewInt(1), uint(b-1))
		n.Add(n, big.NewInt(1))
		if b == 1 {
			n = big.NewInt(1)
		}
		pks = append(pks, pk{"rsa", b, false, &rsa.PublicKey{N: n, E: 65537}, 0})
	}
	pks = append(pks, pk{"rsa", 0, false, &rsa.PublicKey{N: big.NewInt(0), E: 3}, 0})
	// a curve value that is a shallow copy of P-256's parameters compares equal to them
	p256 := verifkit.KeyByName("p256").Pub.(*ecdsa.PublicKey)
	cp := *elliptic.P256().Params()
	pks = append(pks, pk{"ecdsa", 0, true, &ecdsa.PublicKey{Curve: &cp, X: p256.X, Y: p256.Y}, 0})
	pks = append(pks, pk{"other", 0, false, nil, 0}, pk{"other", 0, false, "a string", 0}, pk{"other", 0, false, rsa.PublicKey{}, 0},
		pk{"other", 0, false, ed25519.PublicKey(nil), 0}, pk{"other", 0, false, 42, 0})
	// degenerate keys: typed nil pointers and pointers to the zero value (the constructor dereferences RSA/ECDSA ones)
	pks = append(pks, pk{"rsa", 0, false, (*rsa.PublicKey)(nil), 1}, pk{"ecdsa", 0, false, (*ecdsa.PublicKey)(nil), 1}, pk{"dsa", 0, false, (*dsa.PublicKey)(nil), 1},
		pk{"rsa", 0, false, &rsa.PublicKey{}, 2}, pk{"ecdsa", 0, false, &ecdsa.PublicKey{}, 2}, pk{"dsa", 0, false, &dsa.PublicKey{}, 2})
	for _, allow := range []bool{false, true} {
		ct.AllowVerificationWithNonCompliantKeys = allow
		for _, k := range pks {
			var sv *ct.SignatureVerifier
			var err error
			p := verifkit.Guard(func() { sv, err = ct.NewSignatureVerifier(k.pub) })
			got := outcome(err, p)
			c.out.T(fmt.Sprintf("nv %s %d %s %s %d", k.kind, k.bits, verifkit.B(k.p256), verifkit.B(allow), k.tok), got)
			c.out.Count("class:policy")
			if k.tok != 0 {
				// outside the property; what must still hold: no verifier for a key type RFC 6962 does not define
				c.out.Count("class:policy-degenerate-key:" + got)
				if k.kind == "dsa" && got != "err" {
					c.out.Fail(fmt.Sprintf("nv degenerate kind=%s tok=%d allow=%v", k.kind, k.tok, allow), got)
				}
				continue
			}
			want := (k.kind == "rsa" && (k.bits >= 2048 || allow)) || (k.kind == "ecdsa" && (k.p256 || allow))
			if (got == "ok") != want || p != "" || (got == "ok") != (sv != nil) || (sv != nil && sv.PubKey != k.pub) {
				c.out.Fail(fmt.Sprintf("nv kind=%s bits=%d p256=%v allow=%v", k.kind, k.bits, k.p256, allow),
					fmt.Sprintf("NewSignatureVerifier = %s (verifier %v), the policy requires constructible=%v; panic=%q", got, sv != nil, want, p))
			}
		}
	}
}

type sctCase struct {
	version   uint64
	logID     [32]byte
	ts        uint64
	etype     uint64
	cert      []byte
	ikh       [32]byte
	tbs       []byte
	ext       []byte
	hash, alg int
	sig       []byte
}

func (s sctCase) objects() (ct.SignedCertificateTimestamp, ct.LogEntry) {
	sct := ct.SignedCertificateTimestamp{SCTVersion: ct.Version(s.version), LogID: ct.LogID{KeyID: s.logID}, Timestamp: s.ts, Extensions: s.ext,
		Signature: ct.DigitallySigned{Algorithm: tls.SignatureAndHashAlgorithm{Hash: tls.HashAlgorithm(s.hash), Signature: tls.SignatureAlgorithm(s.alg)}, Signature: s.sig}}
	te := &ct.TimestampedEntry{Timestamp: s.ts ^ 0x55, EntryType: ct.LogEntryType(s.etype)} // the leaf's own timestamp is not what is signed
	switch s.etype {
	case 0:
		te.X509Entry = &ct.ASN1Cert{Data: s.cert}
	case 1:
		te.PrecertEntry = &ct.PreCert{IssuerKeyHash: s.ikh, TBSCertificate: s.tbs}
	}
	return sct, ct.LogEntry{Leaf: ct.MerkleTreeLeaf{Version: ct.V1, LeafType: ct.TimestampedEntryLeafType, TimestampedEntry: te}}
}

func (s sctCase) fields() string {
	return fmt.Sprintf("%d %d %d %s %s %s %s", s.version, s.ts, s.etype, verifkit.Hex(s.cert), verifkit.Hex(s.ikh[:]), verifkit.Hex(s.tbs), verifkit.Hex(s.ext))
}

var c05Lens = []int{1, 2, 127, 128, 255, 256, 1000}
var c05Ts = []uint64{0, 1, 1 << 32, 1<<63 - 1, 1 << 63, 1<<64 - 1, 1700000000000}

func (c *c05) newSCT(k *verifkit.SKey) sctCase {
	r := c.r
	s := sctCase{ts: c05Ts[r.Intn(len(c05Ts))], etype: uint64(r.Intn(2)), hash: 4, alg: sigAlgOf(k)}
	if r.Intn(3) == 0 {
		s.ts = r.U64()
	}
	if r.Intn(4) == 0 {
		s.hash = 1 + r.Intn(6)
	}
	copy(s.logID[:], r.Bytes(32))
	copy(s.ikh[:], r.Bytes(32))
	s.cert = r.Bytes(c05Lens[r.Intn(len(c05Lens))])
	s.tbs = r.Bytes(c05Lens[r.Intn(len(c05Lens))])
	if r.Intn(4) == 0 { // around and beyond the 2-octet boundary of the 3-octet length prefix
		big := r.Bytes([]int{65535, 65536, 65537, 70000, 131072}[r.Intn(5)])
		if s.etype == 0 {
			s.cert = big
		} else {
			s.tbs = big
		}
	}
	switch r.Intn(6) {
	case 0:
		s.ext = r.Bytes(1 + r.Intn(40))
	case 1:
		s.ext = r.Bytes([]int{255, 256, 65535}[r.Intn(3)])
	}
	if in := verifkit.SCTSigInput(s.version, s.ts, s.etype, s.cert, s.ikh[:], s.tbs, s.ext); in != nil {
		s.sig = k.Sign(s.hash, in)
	}
	return s
}

// checkSCT: SerializeSCTSignatureInput against the hand-written layout, then VerifySCTSignature.
func (c *c05) checkSCT(class string, k *verifkit.SKey, sv *ct.SignatureVerifier, s sctCase) {
	sct, entry := s.objects()
	want := verifkit.SCTSigInput(s.version, s.ts, s.etype, s.cert, s.ikh[:], s.tbs, s.ext)
	var in []byte
	var err error
	p := verifkit.Guard(func() { in, err = ct.SerializeSCTSignatureInput(sct, entry) })
	ans := "err"
	if p != "" {
		ans = "panic"
	} else if err == nil {
		ans = verifkit.Hex(in)
	}
	if len(s.cert)+len(s.tbs)+len(s.ext) < 3000 || (c.r.Intn(8) == 0 && len(s.cert)+len(s.tbs) < 200000) {
		c.out.T("sctin "+s.fields(), ans)
	}
	if p != "" || (err == nil) != (want != nil) || (err == nil && string(in) != string(want)) {
		c.out.Fail("sctin "+class, fmt.Sprintf("SerializeSCTSignatureInput(%s) = %s, RFC 6962 §3.2 gives %s", s.fields(), ans, verifkit.Hex(want)))
	}
	v := k.Judge(s.hash, want, s.sig)
	if want == nil {
		v.Prim = false
	}
	p = verifkit.Guard(func() { err = sv.VerifySCTSignature(sct, entry) })
	got := outcome(err, p)
	if len(s.cert)+len(s.tbs)+len(s.ext) < 3000 || class == "genuine" { // large entries: one line per genuine case, the oracle below judges all
		c.out.T("vsct "+vline(k, false, s.hash, s.alg, v, s.sig)+" "+s.fields(), got)
	}
	c.out.Count("class:sct:" + class)
	c.out.Count("outcome:" + got)
	exp := "err"
	if want != nil && k.Expect(s.hash, s.alg, v) {
		exp = "ok"
	}
	if got != exp {
		c.out.Fail("vsct "+class+" key="+k.Kind, fmt.Sprintf("VerifySCTSignature(%s, sig=%x) = %s, the property requires %s", s.fields(), s.sig, got, exp))
	}
}

type sthCase struct {
	version, ts, size uint64
	root              [32]byte
	hash, alg         int
	sig               []byte
}

func (s sthCase) object() ct.SignedTreeHead {
	return ct.SignedTreeHead{Version: ct.Version(s.version), TreeSize: s.size, Timestamp: s.ts, SHA256RootHash: s.root,
		TreeHeadSignature: ct.DigitallySigned{Algorithm: tls.SignatureAndHashAlgorithm{Hash: tls.HashAlgorithm(s.hash), Signature: tls.SignatureAlgorithm(s.alg)}, Signature: s.sig}}
}
func (s sthCase) fields() string {
	return fmt.Sprintf("%d %d %d %s", s.version, s.ts, s.size, verifkit.Hex(s.root[:]))
}

func (c *c05) checkSTH(class string, k *verifkit.SKey, sv *ct.SignatureVerifier, s sthCase) {
	want := verifkit.STHSigInput(s.version, s.ts, s.size, s.root[:])
	var in []byte
	var err error
	p := verifkit.Guard(func() { in, err = ct.SerializeSTHSignatureInput(s.object()) })
	ans := "err"
	if p != "" {
		ans = "panic"
	} else if err == nil {
		ans = verifkit.Hex(in)
	}
	c.out.T("sthin "+s.fields(), ans)
	if p != "" || (err == nil) != (want != nil) || (err == nil && string(in) != string(want)) {
		c.out.Fail("sthin "+class, fmt.Sprintf("SerializeSTHSignatureInput(%s) = %s, RFC 6962 §3.5 gives %s", s.fields(), ans, verifkit.Hex(want)))
	}
	v := k.Judge(s.hash, want, s.sig)
	if want == nil {
		v.Prim = false
	}
	p = verifkit.Guard(func() { err = sv.VerifySTHSignature(s.object()) })
	got := outcome(err, p)
	c.out.T("vsth "+vline(k, false, s.hash, s.alg, v, s.sig)+" "+s.fields(), got)
	c.out.Count("class:sth:" + class)
	c.out.Count("outcome:" + got)
	exp := "err"
	if want != nil && k.Expect(s.hash, s.alg, v) {
		exp = "ok"
	}
	if got != exp {
		c.out.Fail("vsth "+class+" key="+k.Kind, fmt.Sprintf("VerifySTHSignature(%s, sig=%x) = %s, the property requires %s", s.fields(), s.sig, got, exp))
	}
}

// signedObjects: genuine SCTs / STHs and every single-field mutation of them.
func (c *c05) signedObjects(keys []*verifkit.SKey) {
	saved := ct.AllowVerificationWithNonCompliantKeys
	ct.AllowVerificationWithNonCompliantKeys = true
	defer func() { ct.AllowVerificationWithNonCompliantKeys = saved }()
	r := c.r
	rounds := verifkit.N(8, 120)
	for _, k := range keys {
		if k.Kind != "rsa" && k.Kind != "ecdsa" {
			continue
		}
		sv, err := ct.NewSignatureVerifier(k.Pub)
		if err != nil {
			c.out.Fail("nv setup "+k.Name, err.Error())
			continue
		}
		var other *verifkit.SKey
		for _, k2 := range keys {
			if k2 != k && k2.Kind == k.Kind {
				other = k2
			}
		}
		osv, _ := ct.NewSignatureVerifier(other.Pub)
		for it := 0; it < rounds; it++ {
			s := c.newSCT(k)
			c.checkSCT("genuine", k, sv, s)
			c.checkSCT("foreign-key", other, osv, s)
			muts := []func(*sctCase){
				func(m *sctCase) { m.version = 1 },
				func(m *sctCase) { m.version = uint64(2 + r.Intn(254)) },
				func(m *sctCase) { m.ts++ },
				func(m *sctCase) { m.ts ^= 1 << uint(r.Intn(64)) },
				func(m *sctCase) { m.etype ^= 1 },
				func(m *sctCase) { m.etype = []uint64{2, 0x8000, 0xffff}[r.Intn(3)] },
				func(m *sctCase) { // the certificate of an X.509 entry, the TBS of a precertificate entry
					if m.etype == 0 {
						m.cert = flipBit(m.cert, r.Intn(8*len(m.cert)))
					} else {
						m.tbs = flipBit(m.tbs, r.Intn(8*len(m.tbs)))
					}
				},
				func(m *sctCase) {
					if m.etype == 0 {
						m.cert = append(append([]byte(nil), m.cert...), 0)
					} else {
						m.tbs = append(append([]byte(nil), m.tbs...), 0)
					}
				},
				func(m *sctCase) {
					if m.etype == 0 {
						m.cert = m.cert[:len(m.cert)-1]
					} else {
						m.tbs = m.tbs[:len(m.tbs)-1]
					}
				},
				func(m *sctCase) { m.etype, m.tbs = 1, flipBit(m.tbs, r.Intn(8*len(m.tbs))) }, // (also the entry type, for an X.509 entry)
				func(m *sctCase) { m.ts += 1 << 32 },
				func(m *sctCase) { m.ts-- },
				func(m *sctCase) { // the issuer key hash of a precertificate entry; for an X.509 entry the unused field (no change: still verifies)
					m.ikh[r.Intn(32)] ^= 1 << uint(r.Intn(8))
				},
				func(m *sctCase) { m.ext = append(append([]byte(nil), m.ext...), 0) },
				func(m *sctCase) {
					if len(m.ext) > 0 {
						m.ext = flipBit(m.ext, r.Intn(8*len(m.ext)))
					} else {
						m.ext = []byte{0}
					}
				},
				func(m *sctCase) { m.ext = make([]byte, 65536) },
				func(m *sctCase) { m.logID[r.Intn(32)] ^= 0xff }, // not a signed field: still verifies
				func(m *sctCase) { m.hash = 1 + (m.hash % 6) },
				func(m *sctCase) { m.hash = []int{0, 7, 8, 255}[r.Intn(4)] },
				func(m *sctCase) { m.alg = 1 + (m.alg % 3) },
				func(m *sctCase) { m.alg = []int{0, 4, 255}[r.Intn(3)] },
				func(m *sctCase) { m.sig = flipBit(m.sig, r.Intn(8*len(m.sig))) },
				func(m *sctCase) { m.sig = append(append([]byte(nil), m.sig...), 0x00) },
				func(m *sctCase) { m.sig = m.sig[:len(m.sig)-1] },
			}
			names := []string{"version=1", "version", "ts+1", "ts-bit", "etype-swap", "etype-unknown", "entry-bit", "entry-extended", "entry-shortened", "tbs-bit(+type)", "ts+2^32",
				"ts-1", "ikh-bit", "ext-extended", "ext-bit", "ext-65536", "logid (unsigned)", "hash-other", "hash-unsupported", "alg-other", "alg-unsupported", "sig-bit", "sig-trailing-byte", "sig-shortened"}
			for i, mf := range muts {
				if !verifkit.Thorough() && it > 1 && r.Intn(2) != 0 {
					continue
				}
				m := s
				mf(&m)
				c.checkSCT("mut:"+names[i], k, sv, m)
			}
			// STH
			h := sthCase{ts: c05Ts[r.Intn(len(c05Ts))], size: c05Ts[r.Intn(len(c05Ts))], hash: 4, alg: sigAlgOf(k)}
			if r.Bool() {
				h.ts, h.size = r.U64(), r.U64()>>uint(r.Intn(64))
			}
			copy(h.root[:], r.Bytes(32))
			h.sig = k.Sign(h.hash, verifkit.STHSigInput(0, h.ts, h.size, h.root[:]))
			c.checkSTH("genuine", k, sv, h)
			c.checkSTH("foreign-key", other, osv, h)
			hm := []func(*sthCase){
				func(m *sthCase) { m.version = 1 + uint64(r.Intn(255)) },
				func(m *sthCase) { m.ts ^= 1 << uint(r.Intn(64)) },
				func(m *sthCase) { m.size ^= 1 << uint(r.Intn(64)) },
				func(m *sthCase) { m.ts, m.size = m.size, m.ts },
				func(m *sthCase) { m.root[r.Intn(32)] ^= 1 << uint(r.Intn(8)) },
				func(m *sthCase) { m.hash = 1 + (m.hash % 6) },
				func(m *sthCase) { m.alg = 1 + (m.alg % 3) },
				func(m *sthCase) { m.sig = flipBit(m.sig, r.Intn(8*len(m.sig))) },
				func(m *sthCase) { m.sig = append(append([]byte(nil), m.sig...), 0x7) },
				func(m *sthCase) { m.hash = []int{0, 7, 8, 255}[r.Intn(4)] },
				func(m *sthCase) { m.alg = []int{0, 4, 255}[r.Intn(3)] },
				func(m *sthCase) { m.sig = m.sig[:len(m.sig)-1] },
				func(m *sthCase) { m.sig = nil },
			}
			hn := []string{"version", "ts-bit", "size-bit", "ts-size-swapped", "root-bit", "hash-other", "alg-other", "sig-bit", "sig-trailing-byte",
				"hash-unsupported", "alg-unsupported", "sig-shortened", "sig-empty"}
			for i, mf := range hm {
				m := h
				mf(&m)
				if m.ts == h.ts && m.size == h.size && i == 3 {
					continue
				}
				c.checkSTH("mut:"+hn[i], k, sv, m)
			}
		}
	}

	c.ctutilPaths(keys)
	c.embeddedDates()
	c.nilEntryPointers()
	c.sizeBoundary()
}

func c05DER(chain []*x509.Certificate) [][]byte {
	var o [][]byte
	for _, x := range chain {
		o = append(o, x.Raw)
	}
	return o
}

// ctutilPaths: ctutil.VerifySCT (plain and embedded) and LogInfo.VerifySCTSignature over the testdata chains, for EVERY key
// (the policy refusal is part of the line) and both settings of the opt-in.  The expected entry is derived independently
// (verifkit.IndependentEntry: standard-library X.509 + own extension stripping), not with the repository's leaf builder.
func (c *c05) ctutilPaths(keys []*verifkit.SKey) {
	saved := ct.AllowVerificationWithNonCompliantKeys
	defer func() { ct.AllowVerificationWithNonCompliantKeys = saved }()
	type sub struct {
		name    string
		pem     string
		precert bool
		order   string
	}
	// the pre-issuer chain also with the poison BEFORE the authority key identifier (something following it, or the identifier
	// last) and between the identifier and the next extension: the rewrite of §3.2 must not depend on where the poison sits
	for _, sb := range []sub{{"cert", testdata.TestCertPEM + testdata.CACertPEM, false, ""}, {"precert", testdata.TestPreCertPEM + testdata.CACertPEM, true, ""},
		{"precert-via-pre-issuer", "", true, ""}, {"precert-via-pre-issuer:poison,aki,san", "", true, "poison,aki,san"},
		{"precert-via-pre-issuer:san,poison,aki", "", true, "san,poison,aki"}, {"precert-via-pre-issuer:aki,poison,san", "", true, "aki,poison,san"},
		{"precert-via-pre-issuer:poison,san,aki", "", true, "poison,san,aki"}} {
		var chain []*x509.Certificate
		var err error
		if sb.pem != "" {
			chain, err = x509util.CertificatesFromPEM([]byte(sb.pem))
		} else {
			// [precertificate, Precertificate Signing Certificate (CT EKU), final CA], generated with the standard library
			for _, d := range verifkit.PreIssuerChainOrder(sb.order) {
				var x *x509.Certificate
				if x, err = x509.ParseCertificate(d); x509.IsFatal(err) {
					break
				}
				err = nil
				chain = append(chain, x)
			}
		}
		if err != nil {
			c.out.Fail("ctutil setup", err.Error())
			continue
		}
		et, cert, ikh, tbs, ok := verifkit.IndependentEntry(c05DER(chain), sb.precert, verifkit.OIDPoison)
		if !ok {
			c.out.Fail("ctutil independent entry "+sb.name, "no entry derived")
			continue
		}
		for _, allow := range []bool{false, true} {
			ct.AllowVerificationWithNonCompliantKeys = allow
			for _, k := range keys {
				ts := c05Ts[c.r.Intn(len(c05Ts))]
				s := sctCase{ts: ts, etype: et, cert: cert, tbs: tbs, hash: 4, alg: sigAlgOf(k)}
				copy(s.ikh[:], ikh)
				s.sig = k.Sign(4, verifkit.SCTSigInput(0, ts, et, cert, ikh, tbs, nil))
				variants := []string{"genuine", "ts+1", "sig-bit", "hash-other", "alg-other", "version=1", "extensions-added", "loginfo"}
				if strings.HasPrefix(sb.name, "precert-via-pre-issuer") {
					variants = append(variants, "signed-over-pre-issuer-key-hash")
				}
				if sb.order != "" {
					variants = []string{"genuine", "sig-bit", "loginfo", "signed-over-pre-issuer-key-hash"}
				}
				for _, variant := range variants {
					m := s
					switch variant {
					case "signed-over-pre-issuer-key-hash": // the key hash of the signing certificate instead of the final CA's: must not verify
						h := sha256.Sum256(chain[1].RawSubjectPublicKeyInfo)
						m.sig = k.Sign(4, verifkit.SCTSigInput(0, ts, et, cert, h[:], tbs, nil))
					case "ts+1":
						m.ts++
					case "sig-bit":
						m.sig = flipBit(m.sig, c.r.Intn(8*len(m.sig)))
					case "hash-other":
						m.hash = 1 + (m.hash % 6)
					case "alg-other":
						m.alg = 1 + (m.alg % 3)
					case "version=1":
						m.version = 1
					case "extensions-added":
						m.ext = []byte{1}
					}
					sct, _ := m.objects()
					var verr error
					var p string
					if variant == "loginfo" {
						// LogInfo.VerifySCTSignature overrides the leaf's timestamp with the SCT's
						p = verifkit.Guard(func() {
							li, lerr := newLogInfo(&loglist3.Log{Description: "t", Key: k.SPKI}, nil)
							if lerr != nil {
								verr = lerr
								return
							}
							etype := ct.X509LogEntryType
							if sb.precert {
								etype = ct.PrecertLogEntryType
							}
							leaf, lerr := ct.MerkleTreeLeafFromChain(chain, etype, ts^0x77)
							if lerr != nil {
								verr = lerr
								return
							}
							verr = li.VerifySCTSignature(sct, *leaf)
						})
						if k.SPKI == nil {
							continue
						}
					} else {
						p = verifkit.Guard(func() { verr = VerifySCT(k.Pub, chain, &sct, false) })
					}
					got := outcome(verr, p)
					constructible := (k.Kind == "rsa" && (k.Bits >= 2048 || allow)) || (k.Kind == "ecdsa" && (k.P256 || allow))
					v := k.Judge(m.hash, verifkit.SCTSigInput(m.version, m.ts, m.etype, m.cert, m.ikh[:], m.tbs, m.ext), m.sig)
					exp := "err"
					if constructible && m.version == 0 && k.Expect(m.hash, m.alg, v) {
						exp = "ok"
					}
					c.out.Count("class:ctutil:" + sb.name + ":" + variant)
					c.out.Count("outcome:" + got)
					c.out.T(fmt.Sprintf("vctutil %s %d %s %s %s", vline(k, false, m.hash, m.alg, v, m.sig), k.Bits, verifkit.B(k.P256), verifkit.B(allow), m.fields()), got)
					if got != exp {
						detail := ""
						if sb.order != "" {
							detail = fmt.Sprintf("; chain (hex DER, precertificate first; its extensions in order: %s): %s", verifkit.ExtensionOrder(chain[0].Raw), c05HexChain(chain))
						}
						c.out.Fail("ctutil "+variant+" "+sb.name+" key="+k.Name, fmt.Sprintf("= %s, the property requires %s (allow=%v)%s", got, exp, allow, detail))
					}
				}
			}
		}
	}

	// embedded = true: the final certificate of testdata with its embedded SCT, issued by the testdata log key
	ct.AllowVerificationWithNonCompliantKeys = false
	chain, err := x509util.CertificatesFromPEM([]byte(testdata.TestEmbeddedCertPEM + testdata.CACertPEM))
	pub, _, _, kerr := ct.PublicKeyFromPEM([]byte(testdata.LogPublicKeyPEM))
	if err != nil || kerr != nil {
		c.out.Fail("ctutil embedded setup", fmt.Sprint(err, kerr))
		return
	}
	logKey := &verifkit.SKey{Name: "testdata-log", Kind: "ecdsa", P256: true, Pub: pub}
	var emb ct.SignedCertificateTimestamp
	if _, err := tls.Unmarshal(testdata.TestPreCertProof, &emb); err != nil {
		c.out.Fail("ctutil embedded setup", err.Error())
		return
	}
	et, cert, ikh, tbs, ok := verifkit.IndependentEntry(c05DER(chain), true, verifkit.OIDSCTList)
	if !ok {
		c.out.Fail("ctutil embedded independent entry", "no entry derived")
		return
	}
	for _, variant := range []string{"genuine", "ts+1", "sig-bit"} {
		sct := emb
		sct.Signature.Signature = append([]byte(nil), emb.Signature.Signature...)
		switch variant {
		case "ts+1":
			sct.Timestamp++
		case "sig-bit":
			sct.Signature.Signature[len(sct.Signature.Signature)-1] ^= 1
		}
		var verr error
		p := verifkit.Guard(func() { verr = VerifySCT(pub, chain, &sct, true) })
		got := outcome(verr, p)
		m := sctCase{ts: sct.Timestamp, etype: et, cert: cert, tbs: tbs, ext: sct.Extensions, hash: int(sct.Signature.Algorithm.Hash), alg: int(sct.Signature.Algorithm.Signature), sig: sct.Signature.Signature}
		copy(m.ikh[:], ikh)
		v := logKey.Judge(m.hash, verifkit.SCTSigInput(0, m.ts, et, cert, ikh, tbs, m.ext), m.sig)
		exp := "err"
		if logKey.Expect(m.hash, m.alg, v) {
			exp = "ok"
		}
		c.out.Count("class:ctutil:embedded:" + variant)
		c.out.Count("outcome:" + got)
		c.out.T(fmt.Sprintf("vctutil %s 0 1 0 %s", vline(logKey, false, m.hash, m.alg, v, m.sig), m.fields()), got)
		if got != exp || (variant == "genuine" && got != "ok") {
			c.out.Fail("ctutil embedded "+variant, fmt.Sprintf("= %s, the property requires %s", got, exp))
		}
	}
}

func c05HexChain(chain []*x509.Certificate) string {
	var parts []string
	for _, x := range chain {
		parts = append(parts, verifkit.Hex(x.Raw))
	}
	return strings.Join(parts, " ")
}

// embeddedDates: ctutil.VerifySCT(embedded) on final certificates (made with the standard library) whose validity touches the
// UTCTime / GeneralizedTime cut-over of RFC 5280 §4.1.2.5 (years 1949/1950 and 2049/2050/2051): the precertificate entry is the
// TBSCertificate without the SCT list and with EVERY other octet kept, so the dates must survive the library's re-encoding.
func (c *c05) embeddedDates() {
	saved := ct.AllowVerificationWithNonCompliantKeys
	defer func() { ct.AllowVerificationWithNonCompliantKeys = saved }()
	ct.AllowVerificationWithNonCompliantKeys = false
	k := verifkit.KeyByName("p256")
	d := func(y int, m time.Month, day, hh, mm, ss int) time.Time {
		return time.Date(y, m, day, hh, mm, ss, 0, time.UTC)
	}
	pairs := [][2]time.Time{
		{d(2020, 1, 1, 0, 0, 0), d(2049, 12, 31, 23, 59, 59)},
		{d(2049, 12, 31, 23, 59, 59), d(2050, 1, 1, 0, 0, 0)},
		{d(2050, 1, 1, 0, 0, 0), d(2050, 12, 31, 23, 59, 59)},
		{d(2050, 6, 15, 12, 30, 45), d(2051, 1, 1, 0, 0, 0)},
		{d(2049, 1, 1, 0, 0, 0), d(2051, 6, 1, 0, 0, 0)},
		{d(2051, 1, 1, 0, 0, 0), d(2060, 1, 1, 0, 0, 0)},
		{d(1950, 1, 1, 0, 0, 0), d(2050, 1, 1, 0, 0, 0)},
		{d(1949, 12, 31, 23, 59, 59), d(1950, 1, 1, 0, 0, 1)},
		{d(1950, 7, 1, 0, 0, 0), d(2049, 7, 1, 0, 0, 0)},
		{d(2030, 2, 28, 1, 2, 3), d(2031, 2, 28, 1, 2, 3)},
	}
	for _, pr := range pairs {
		name := pr[0].Format("2006-01-02T15:04:05") + ".." + pr[1].Format("2006-01-02T15:04:05")
		ts := c05Ts[c.r.Intn(len(c05Ts))]
		var logID [32]byte
		copy(logID[:], c.r.Bytes(32))
		var sigOver []byte
		chainDER, err := verifkit.EmbeddedSCTChain(pr[0], pr[1], func(tbs, ikh []byte) []byte {
			sigOver = k.Sign(4, verifkit.SCTSigInput(0, ts, 1, nil, ikh, tbs, nil))
			b := append([]byte{0}, logID[:]...)
			for i := 7; i >= 0; i-- {
				b = append(b, byte(ts>>(8*uint(i))))
			}
			b = append(b, 0, 0, 4, byte(sigAlgOf(k)), byte(len(sigOver)>>8), byte(len(sigOver)))
			return append(b, sigOver...)
		})
		if err != nil {
			c.out.Fail("ctutil embedded-dates setup "+name, err.Error())
			continue
		}
		var chain []*x509.Certificate
		for _, der := range chainDER {
			x, perr := x509.ParseCertificate(der)
			if x509.IsFatal(perr) {
				err = perr
				break
			}
			chain = append(chain, x)
		}
		et, cert, ikh, tbs, ok := verifkit.IndependentEntry(chainDER, true, verifkit.OIDSCTList)
		if err != nil || !ok {
			c.out.Fail("ctutil embedded-dates setup "+name, fmt.Sprint(err, ok))
			continue
		}
		for _, variant := range []string{"genuine", "ts+1", "sig-bit"} {
			m := sctCase{ts: ts, etype: et, cert: cert, tbs: tbs, hash: 4, alg: sigAlgOf(k), sig: append([]byte(nil), sigOver...), logID: logID}
			copy(m.ikh[:], ikh)
			switch variant {
			case "ts+1":
				m.ts++
			case "sig-bit":
				m.sig = flipBit(m.sig, c.r.Intn(8*len(m.sig)))
			}
			sct, _ := m.objects()
			var verr error
			p := verifkit.Guard(func() { verr = VerifySCT(k.Pub, chain, &sct, true) })
			got := outcome(verr, p)
			v := k.Judge(m.hash, verifkit.SCTSigInput(0, m.ts, et, cert, ikh, tbs, nil), m.sig)
			exp := "err"
			if k.Expect(m.hash, m.alg, v) {
				exp = "ok"
			}
			c.out.Count("class:ctutil:embedded-dates:" + variant)
			c.out.Count("outcome:" + got)
			c.out.T(fmt.Sprintf("vctutil %s %d %s 0 %s", vline(k, false, m.hash, m.alg, v, m.sig), k.Bits, verifkit.B(k.P256), m.fields()), got)
			if got != exp || (variant == "genuine" && got != "ok") {
				c.out.Fail("ctutil embedded-dates "+variant+" validity="+name, fmt.Sprintf("VerifySCT(embedded) = %s (%v), the property requires %s; chain (hex DER): %s", got, verr, exp, c05HexChain(chain)))
			}
		}
	}
}

// nilEntryPointers: what VerifySCTSignature does with the pointers SerializeSCTSignatureInput does not guard (observation:
// callers inside the repository always set them; traced against the model, not judged).
func (c *c05) nilEntryPointers() {
	k := verifkit.KeyByName("p256")
	sv, _ := ct.NewSignatureVerifier(k.Pub)
	for _, ver := range []uint64{0, 1} {
		for _, which := range []string{"x509", "precert", "te"} {
			sct := ct.SignedCertificateTimestamp{SCTVersion: ct.Version(ver), Signature: ct.DigitallySigned{Algorithm: tls.SignatureAndHashAlgorithm{Hash: 4, Signature: 3}}}
			var te *ct.TimestampedEntry
			switch which {
			case "x509":
				te = &ct.TimestampedEntry{EntryType: ct.X509LogEntryType}
			case "precert":
				te = &ct.TimestampedEntry{EntryType: ct.PrecertLogEntryType}
			}
			var err error
			p := verifkit.Guard(func() { err = sv.VerifySCTSignature(sct, ct.LogEntry{Leaf: ct.MerkleTreeLeaf{TimestampedEntry: te}}) })
			got := outcome(err, p)
			c.out.T(fmt.Sprintf("vsctnil %s %d %s", k.Kind, ver, which), got)
			c.out.Count("class:nil-entry-pointer:" + got)
			if got == "ok" {
				c.out.Fail("vsctnil "+which, "a nil entry verified")
			}
		}
	}
}

// sizeBoundary (thorough tier): the 2^24-1 / 2^24 certificate and TBS bounds of RFC 6962, compared with the hand-written
// layout directly (no trace line: 16 MiB of hex per case).
func (c *c05) sizeBoundary() {
	if !verifkit.Thorough() {
		return
	}
	for _, n := range []int{1<<24 - 1, 1 << 24} {
		for _, et := range []uint64{0, 1} {
			big := c.r.Bytes(n)
			s := sctCase{ts: 5, etype: et, cert: []byte{1}, tbs: []byte{1}}
			if et == 0 {
				s.cert = big
			} else {
				s.tbs = big
			}
			sct, entry := s.objects()
			want := verifkit.SCTSigInput(0, s.ts, et, s.cert, s.ikh[:], s.tbs, nil)
			var in []byte
			var err error
			p := verifkit.Guard(func() { in, err = ct.SerializeSCTSignatureInput(sct, entry) })
			c.out.Count(fmt.Sprintf("class:sctin-size-boundary:%d", n))
			if p != "" || (err == nil) != (want != nil) || (err == nil && string(in) != string(want)) || (want != nil) != (n < 1<<24) {
				c.out.Fail(fmt.Sprintf("sctin size-boundary len=%d etype=%d", n, et), fmt.Sprintf("err=%v panic=%q, RFC layout exists=%v", err, p, want != nil))
			}
		}
	}
}

// signedJSON: loglist3.NewFromSignedJSON verifies before it parses, with SHA-256 and the algorithm of the key type.
func (c *c05) signedJSON(keys []*verifkit.SKey) {
	good := []byte(`{"version":"1.0","operators":[{"name":"op","email":["a@b"],"logs":[]}]}`)
	bad := []byte(`{"operators":[`)
	for _, k := range keys {
		for _, doc := range [][]byte{good, bad} {
			_, perr := loglist3.NewFromJSON(doc)
			parseOK := perr == nil
			var sigs []derCase
			if k.Kind == "ed25519" {
				sigs = []derCase{{"genuine", k.Sign(4, doc)}}
			} else {
				g := k.Sign(4, doc)
				sigs = []derCase{{"genuine", g}, {"sha1-signature", k.Sign(2, doc)}, {"bitflip", flipBit(g, c.r.Intn(8*len(g)))}, {"empty", nil},
					{"trailing", cat(g, []byte{9})}, {"over-other-doc", k.Sign(4, append([]byte(" "), doc...))}}
				if k.Kind != "rsa" {
					_, in, _ := splitTLV(g)
					sigs = append(sigs, derCase{"inner-extra", tlvB(0x30, cat(in, []byte{5, 0}))})
				}
			}
			for _, sc := range sigs {
				v := k.Judge(4, doc, sc.sig)
				var ll *loglist3.LogList
				var err error
				p := verifkit.Guard(func() { ll, err = loglist3.NewFromSignedJSON(doc, sc.sig, k.Pub) })
				got := outcome(err, p)
				c.out.T(fmt.Sprintf("sj %s 0 %s %s %s %s %s", k.Kind, verifkit.IntStr(v.R), verifkit.IntStr(v.S), verifkit.B(v.Prim), verifkit.Hex(sc.sig), verifkit.B(parseOK)), got)
				c.out.Count("class:signedjson:" + sc.name)
				c.out.Count("outcome:" + got)
				alg := sigAlgOf(k)
				if k.Kind == "dsa" {
					alg = 0 // NewFromSignedJSON has no DSA branch
				}
				exp := "err"
				if parseOK && k.Expect(4, alg, v) {
					exp = "ok"
				}
				if got != exp || (got == "ok") != (ll != nil) {
					key := "sj " + sc.name + " key=" + k.Kind
					if sc.name == "inner-extra" && got == "ok" {
						key = "sj non-canonical-der-accepted"
					}
					c.out.Fail(key, fmt.Sprintf("NewFromSignedJSON = %s (list %v), the property requires %s", got, ll != nil, exp))
				}
			}
		}
	}
}
