//go:build verif

package x509util

// C04 at the embedded-SCT-list entry point (RFC 6962 §3.3): the contents of the certificate extension 1.3.6.1.4.1.11129.2.4.2
// is an OCTET STRING holding a SignedCertificateTimestampList, each SerializedSCT of which is one SignedCertificateTimestamp —
// and nothing else. Certificates are built with HAND-ENCODED extension bodies (valid lists, a trailing byte, a truncated
// inner element, outer / inner length mismatches, items that are not SCTs, random flips) and go through
// ParseSCTsFromCertificate as DER and as PEM. ctvmodel answers `CERTSCTS <body>` from Rfc.decEmbeddedSctList.
//
// Implementation-side oracle: a list assembled from k valid SCTs comes back as exactly those k SCTs (each re-marshals to its
// bytes); a body that is invalid by construction is refused — decoding accepts exactly the valid encodings, it never hands
// back the part that parsed before the problem; DER and PEM input agree.

import (
	"bytes"
	"crypto/ecdsa"
	"crypto/elliptic"
	"crypto/rand"
	"encoding/pem"
	"fmt"
	"math/big"
	"strings"
	"testing"
	"time"

	"github.com/google/certificate-transparency-go/internal/verifkit"
	"github.com/google/certificate-transparency-go/tls"
	"github.com/google/certificate-transparency-go/x509"
	"github.com/google/certificate-transparency-go/x509/pkix"
)

func c04xDerOctet(b []byte) []byte {
	n := len(b)
	switch {
	case n < 128:
		return append([]byte{0x04, byte(n)}, b...)
	case n < 256:
		return append([]byte{0x04, 0x81, byte(n)}, b...)
	default:
		return append([]byte{0x04, 0x82, byte(n >> 8), byte(n)}, b...)
	}
}

func c04xBE2(n int) []byte { return []byte{byte(n >> 8), byte(n)} }

// a valid serialized SCT: version, 32-byte log id, timestamp, extensions<0..2^16-1>, hash, sig, signature<0..2^16-1>
func c04xSCT(r *verifkit.Rand) []byte {
	var b []byte
	b = append(b, byte(r.Intn(2)*r.Intn(256)))
	b = append(b, r.Bytes(32)...)
	b = append(b, r.Bytes(8)...)
	ext := r.Bytes(r.Intn(3) * r.Intn(6))
	b = append(append(b, c04xBE2(len(ext))...), ext...)
	b = append(b, byte(r.Intn(7)), byte(r.Intn(4)))
	sig := r.Bytes(r.Intn(40))
	return append(append(b, c04xBE2(len(sig))...), sig...)
}

func c04xList(items [][]byte) []byte {
	var body []byte
	for _, it := range items {
		body = append(append(body, c04xBE2(len(it))...), it...)
	}
	return append(c04xBE2(len(body)), body...)
}

func TestVerifC04X509util(t *testing.T) {
	out := verifkit.Open()
	defer out.Close()
	r := verifkit.NewRand(verifkit.Seed())
	key, err := ecdsa.GenerateKey(elliptic.P256(), rand.Reader)
	if err != nil {
		t.Fatal(err)
	}
	nb := time.Date(2024, 1, 1, 0, 0, 0, 0, time.UTC)
	serial := int64(1)
	certWith := func(extValue []byte) []byte {
		serial++
		tmpl := &x509.Certificate{SerialNumber: big.NewInt(serial), Subject: pkix.Name{CommonName: "verif embedded scts"}, NotBefore: nb, NotAfter: nb.AddDate(1, 0, 0),
			DNSNames: []string{"scts.example.com"}, ExtraExtensions: []pkix.Extension{{Id: x509.OIDExtensionCTSCT, Value: extValue}}}
		der, err := x509.CreateCertificate(rand.Reader, tmpl, tmpl, &key.PublicKey, key)
		if err != nil {
			panic(err)
		}
		return der
	}
	// run: what ParseSCTsFromCertificate makes of a certificate carrying this extension value ("err" or "ok n=k <sct bytes>…")
	run := func(extValue []byte) (string, string) {
		der := certWith(extValue)
		show := func(in []byte) (res string) {
			if pan := verifkit.Guard(func() {
				scts, err := ParseSCTsFromCertificate(in)
				if err != nil {
					res = "err"
					return
				}
				var sb strings.Builder
				fmt.Fprintf(&sb, "ok n=%d", len(scts))
				for _, s := range scts {
					b, merr := tls.Marshal(*s)
					if merr != nil {
						sb.WriteString(" unmarshalable")
						continue
					}
					sb.WriteString(" " + verifkit.Hex(b))
				}
				res = sb.String()
			}); pan != "" {
				res = "panic " + pan
			}
			return
		}
		return show(der), show(pem.EncodeToMemory(&pem.Block{Type: "CERTIFICATE", Bytes: der}))
	}
	n := verifkit.N(60, 1500)
	for it := 0; it < n; it++ {
		k := 1 + r.Intn(3)
		items := make([][]byte, k)
		for i := range items {
			items[i] = c04xSCT(r)
		}
		valid := c04xList(items)
		wantOK := fmt.Sprintf("ok n=%d", k)
		for _, it := range items {
			wantOK += " " + verifkit.Hex(it)
		}
		type tc struct {
			name string
			body []byte
			want string // "" = no expectation of its own (the model decides)
		}
		cp := func(b []byte) []byte { return append([]byte{}, b...) }
		cases := []tc{{"valid", valid, wantOK},
			{"trailing-byte", append(cp(valid), byte(r.Intn(256))), "err"},
			{"truncated", valid[:len(valid)-1-r.Intn(minInt(len(items[k-1]), 40))], "err"},
		}
		o := cp(valid) // outer length one too large / too small
		o[1]++
		cases = append(cases, tc{"outer-length+1", o, "err"})
		o = cp(valid)
		o[1]--
		cases = append(cases, tc{"outer-length-1", o, "err"})
		// the LAST inner length overruns the list (what parsed before it must not be handed back)
		last := 2
		for _, it := range items[:k-1] {
			last += 2 + len(it)
		}
		o = cp(valid)
		copy(o[last:], c04xBE2(len(items[k-1])+1+r.Intn(5)))
		cases = append(cases, tc{"inner-length-overrun", o, "err"})
		// an item that is one SCT followed by a byte, an item that is too short to be an SCT, an empty item
		junk := append([][]byte{}, items...)
		junk[r.Intn(k)] = append(cp(items[0]), 0)
		cases = append(cases, tc{"item-with-trailing-byte", c04xList(junk), "err"})
		junk = append([][]byte{}, items...)
		junk[r.Intn(k)] = r.Bytes(1 + r.Intn(30))
		cases = append(cases, tc{"item-not-an-sct", c04xList(junk), "err"})
		junk = append([][]byte{}, items...)
		junk[r.Intn(k)] = nil
		cases = append(cases, tc{"empty-item", c04xList(junk), "err"})
		if it%10 == 0 {
			cases = append(cases, tc{"empty-list", []byte{0, 0}, "err"}, tc{"empty-body", []byte{}, "err"})
		}
		for j := 0; j < 2; j++ {
			m := cp(valid)
			m[r.Intn(len(m))] ^= 1 << uint(r.Intn(8))
			cases = append(cases, tc{"flip", m, ""})
		}
		for _, c := range cases {
			out.Count("mode:embedded-sct-list:" + c.name)
			op := "CERTSCTS " + verifkit.Hex(c.body)
			if len(c.body) == 0 {
				op = "CERTSCTS -"
			}
			gotDER, gotPEM := run(c04xDerOctet(c.body))
			switch {
			case strings.HasPrefix(gotDER, "panic "):
				out.Fail("panic "+c.name+" "+op, gotDER)
			case gotDER != gotPEM:
				out.Fail("der-vs-pem "+c.name+" "+op, fmt.Sprintf("ParseSCTsFromCertificate gives %q for the DER certificate and %q for its PEM encoding", gotDER, gotPEM))
			case c.want != "" && gotDER != c.want:
				out.Fail("embedded-sct-list "+c.name+" "+op, fmt.Sprintf("ParseSCTsFromCertificate on a certificate whose SCT-list extension holds this body: got %q, the RFC 6962 §3.3 reading is %q", gotDER, c.want))
			default:
				out.T(op, gotDER)
			}
		}
		// the DER wrapper: bytes after the OCTET STRING inside the extension value are not part of any encoding either
		if it%5 == 0 {
			out.Count("mode:embedded-sct-list:asn1-trailing")
			if got, _ := run(append(c04xDerOctet(valid), 0)); got != "err" {
				out.Fail("embedded-sct-list asn1-trailing "+verifkit.Hex(valid), "extension value = OCTET STRING ‖ 00 is accepted: "+got)
			}
		}
	}
	_ = bytes.Equal
}

func minInt(a, b int) int {
	if a < b {
		return a
	}
	return b
}
