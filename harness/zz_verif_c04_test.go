//go:build verif

package ct

// C04 — RFC 6962 wire structures, signature inputs and leaf hashes are byte-exact.
//
// tls.Marshal / tls.Unmarshal on the exported ct types and the serialization.go functions are driven with
// field values at the length boundaries {0,1,255,256,65535,65536} (2^24−1 once per thorough run), both entry
// types, all 256 hash / signature codes, empty and long chains, and with mutated byte strings.  Every trace
// line is answered by ctvmodel from the *RFC transcription* (CTV/Rfc6962/Wire.lean), never from the model of
// the tls package.
//
// Implementation-side oracle (out.Fail): a value inside every RFC bound must encode and one outside must
// not; Unmarshal∘Marshal is the identity with nothing left; whatever decodes re-encodes to the bytes
// consumed; the complete-parse wrappers refuse trailing bytes, unknown versions and unknown entry types;
// LeafHashForLeaf = SHA-256(0x00 ‖ Marshal(leaf)); no panic.

import (
	"bytes"
	"crypto/ecdsa"
	"crypto/elliptic"
	"crypto/rand"
	"crypto/sha256"
	"encoding/base64"
	"encoding/json"
	"fmt"
	"math/big"
	"reflect"
	"strings"
	"testing"
	"time"

	"github.com/google/certificate-transparency-go/internal/verifkit"
	"github.com/google/certificate-transparency-go/tls"
	"github.com/google/certificate-transparency-go/x509"
	"github.com/google/certificate-transparency-go/x509/pkix"
)

var c04Lens = []int{0, 1, 2, 32, 255, 256, 257, 65535, 65536}

type c04Gen struct {
	r     *verifkit.Rand
	out   *verifkit.Out
	reuse map[string]interface{} // per structure: a destination that already holds a previously decoded value
}

// length picks a byte-string length: mostly small, the boundaries regularly, the 64 KiB ones now and then.
func (g *c04Gen) length() int {
	switch x := g.r.Intn(20); {
	case x < 9:
		return 1 + g.r.Intn(40)
	case x < 15:
		return c04Lens[g.r.Intn(7)]
	case x < 17:
		return c04Lens[g.r.Intn(len(c04Lens))]
	default:
		return g.r.Intn(600)
	}
}

func (g *c04Gen) bytes(n int) []byte { return g.r.Bytes(n) }

func (g *c04Gen) u64() uint64 {
	switch g.r.Intn(5) {
	case 0:
		return 0
	case 1:
		return ^uint64(0)
	case 2:
		return uint64(g.r.Intn(1 << 16))
	default:
		return g.r.U64() >> uint(g.r.Intn(64))
	}
}

func (g *c04Gen) enum8() uint64 {
	switch g.r.Intn(6) {
	case 0, 1, 2:
		return 0
	case 3:
		return uint64(g.r.Intn(4))
	case 4:
		return 255
	default:
		return uint64(g.r.Intn(300)) // 256…299 do not fit one byte
	}
}

func hx(b []byte) string { return verifkit.Hex(b) }

// be: n as w big-endian bytes (RFC 5246 §4.4)
func be(n uint64, w int) []byte {
	b := make([]byte, w)
	for i := w - 1; i >= 0; i-- {
		b[i] = byte(n)
		n >>= 8
	}
	return b
}

// ---------------------------------------------------------------------------------------------- entries

type c04Entry struct {
	et   uint64
	x509 *ASN1Cert
	pre  *PreCert
	json *JSONDataEntry
}

// rfcOK: the entry is one the RFC can express (and every length is inside its bounds).
func (e c04Entry) rfcOK() bool {
	switch {
	case e.et == 0 && e.x509 != nil && e.pre == nil && e.json == nil:
		return len(e.x509.Data) >= 1 && len(e.x509.Data) <= 1<<24-1
	case e.et == 1 && e.pre != nil && e.x509 == nil && e.json == nil:
		return len(e.pre.TBSCertificate) >= 1 && len(e.pre.TBSCertificate) <= 1<<24-1
	}
	return false
}

func (e c04Entry) String() string {
	s := fmt.Sprintf("et=%d", e.et)
	if e.x509 != nil {
		s += " x509=" + hx(e.x509.Data)
	} else {
		s += " x509=nil"
	}
	if e.pre != nil {
		s += " pre=" + hx(e.pre.IssuerKeyHash[:]) + ":" + hx(e.pre.TBSCertificate)
	} else {
		s += " pre=nil"
	}
	if e.json != nil {
		s += " json=" + hx(e.json.Data)
	} else {
		s += " json=nil"
	}
	return s
}

func (g *c04Gen) entry() c04Entry {
	var e c04Entry
	mkX := func() *ASN1Cert { return &ASN1Cert{Data: g.bytes(g.length())} }
	mkP := func() *PreCert {
		p := &PreCert{TBSCertificate: g.bytes(g.length())}
		copy(p.IssuerKeyHash[:], g.bytes(32))
		return p
	}
	switch x := g.r.Intn(20); {
	case x < 8:
		e.et, e.x509 = 0, mkX()
	case x < 16:
		e.et, e.pre = 1, mkP()
	case x == 16: // unknown entry type without any body
		e.et = []uint64{2, 3, 255, 256, 32768, 65535, 65536}[g.r.Intn(7)]
	case x == 17: // body under the wrong type
		e.et, e.x509 = 1, mkX()
	case x == 18:
		e.et, e.pre = 0, mkP()
	default: // both bodies / no body
		e.et = uint64(g.r.Intn(2))
		if g.r.Bool() {
			e.x509, e.pre = mkX(), mkP()
		}
	}
	return e
}

// ---------------------------------------------------------------------------------------------- generic helpers

// marshal runs tls.Marshal under a panic guard.
func c04Marshal(v interface{}) (b []byte, ok bool, pan string) {
	pan = verifkit.Guard(func() {
		x, err := tls.Marshal(v)
		if err == nil {
			b, ok = x, true
		}
	})
	return
}

// roundTrip: Unmarshal(Marshal(v)) = v with nothing left; ptr is a pointer to a zero value of v's type.
func (g *c04Gen) roundTrip(key string, v interface{}, enc []byte) {
	p := reflect.New(reflect.TypeOf(v))
	var rest []byte
	var err error
	if pan := verifkit.Guard(func() { rest, err = tls.Unmarshal(enc, p.Interface()) }); pan != "" {
		g.out.Fail("panic "+key, pan)
		return
	}
	if err != nil {
		g.out.Fail("roundtrip "+key, "own encoding does not decode: "+err.Error())
		return
	}
	if len(rest) != 0 {
		g.out.Fail("roundtrip "+key, "bytes left over after decoding own encoding: "+hx(rest))
		return
	}
	re, ok, _ := c04Marshal(p.Elem().Interface())
	if !ok || !bytes.Equal(re, enc) {
		g.out.Fail("roundtrip "+key, "decoded value re-encodes differently")
	}
}

// encodeCase: one `S` line. valid = the value is inside every RFC bound.
func (g *c04Gen) encodeCase(op string, v interface{}, valid bool) []byte {
	g.out.Count("mode:encode")
	enc, ok, pan := c04Marshal(v)
	key := op
	if len(key) > 300 {
		key = key[:300] + "…"
	}
	if pan != "" {
		g.out.Fail("panic "+key, pan)
		return nil
	}
	if ok != valid {
		if valid {
			g.out.Count("class:valid-rejected")
			g.out.Fail("valid-rejected "+key, "tls.Marshal refused a value that is inside every bound RFC 6962 / RFC 5246 give")
		} else {
			g.out.Fail("invalid-accepted "+key, "tls.Marshal accepted a value outside the RFC bounds: "+hx(enc))
		}
		return nil
	}
	if ok {
		g.out.Count("class:enc-ok")
		g.out.T(op, hx(enc))
		g.roundTrip(key, v, enc)
		return enc
	}
	g.out.Count("class:enc-err")
	g.out.T(op, "err")
	return nil
}

// mutations of a valid encoding: itself, with a suffix, truncated, bit-flipped; plus random bytes.
func (g *c04Gen) mutants(enc []byte) [][]byte {
	r := g.r
	ms := [][]byte{enc, append(append([]byte{}, enc...), r.Bytes(1+r.Intn(3))...)}
	if len(enc) > 0 {
		ms = append(ms, enc[:r.Intn(len(enc))], enc[:len(enc)-1])
		for j := 0; j < 3; j++ {
			m := append([]byte{}, enc...)
			pos := r.Intn(len(m))
			if r.Bool() {
				pos = r.Intn(1 + len(m)/8)
			}
			m[pos] ^= 1 << uint(r.Intn(8))
			ms = append(ms, m)
		}
	}
	ms = append(ms, r.Bytes(r.Intn(40)))
	return ms
}

// ---------------------------------------------------------------------------------------------- the structures

func showDS(d tls.DigitallySigned) string {
	return fmt.Sprintf("hash=%d sig=%d sigbytes=%s", d.Algorithm.Hash, d.Algorithm.Signature, hx(d.Signature))
}

func (g *c04Gen) ds(i int) tls.DigitallySigned {
	d := tls.DigitallySigned{Signature: g.bytes(g.length())}
	// all 256 codes of both enums in turn, then values that do not fit
	d.Algorithm.Hash = tls.HashAlgorithm(i % 256)
	d.Algorithm.Signature = tls.SignatureAlgorithm((i / 256 * 37 + i) % 256)
	if g.r.Intn(40) == 0 {
		d.Algorithm.Hash = tls.HashAlgorithm(256 + g.r.Intn(3))
	}
	if g.r.Intn(40) == 0 {
		d.Algorithm.Signature = tls.SignatureAlgorithm(256 + g.r.Intn(1000))
	}
	return d
}

func dsOK(d tls.DigitallySigned) bool {
	return d.Algorithm.Hash < 256 && d.Algorithm.Signature < 256 && len(d.Signature) <= 65535
}

func showLeaf(l *MerkleTreeLeaf) string {
	te := l.TimestampedEntry
	e := c04Entry{et: uint64(te.EntryType), x509: te.X509Entry, pre: te.PrecertEntry, json: te.JSONEntry}
	return fmt.Sprintf("v=%d lt=%d ts=%d %s ext=%s", l.Version, l.LeafType, te.Timestamp, e, hx(te.Extensions))
}

func (g *c04Gen) decodeCase(name string, mk func() interface{}, show func(interface{}) (string, bool), data []byte) {
	g.out.Count("mode:decode")
	op := "D " + name + " " + hx(data)
	p := mk()
	var rest []byte
	var err error
	buf := append([]byte{}, data...) // the decoder sees a private copy, which is overwritten afterwards (see below)
	if pan := verifkit.Guard(func() { rest, err = tls.Unmarshal(buf, p) }); pan != "" {
		g.out.Fail("panic "+op, pan)
		return
	}
	if err != nil {
		g.out.Count("class:dec-err")
		g.out.T(op, "err")
		return
	}
	s, rfc := show(p)
	if strings.HasPrefix(s, "FAIL ") {
		g.out.Fail(strings.TrimPrefix(s, "FAIL ")+" "+op, "tls.Unmarshal accepted it")
		return
	}
	if !rfc {
		// the repository's JSON entry type (0x8000), an extension the RFC does not have; the model answers it from the
		// regenerated type (the RFC decoder refuses it)
		g.out.Count("class:dec-json-extension")
	} else {
		g.out.Count("class:dec-ok")
	}
	rest = append([]byte{}, rest...)
	consumed := data[:len(data)-len(rest)]
	re, ok, _ := c04Marshal(reflect.ValueOf(p).Elem().Interface())
	if !ok || !bytes.Equal(re, consumed) {
		g.out.Fail("reenc "+op, "decoded value does not re-encode to the bytes consumed")
		return
	}
	g.out.T(op, "ok "+s+" rest="+hx(rest))
	// the caller reuses or scrubs its input buffer while holding the result (a read buffer refilled with the next message):
	// the decoded value is a value, not a view of the input — it still shows and re-encodes as before
	g.out.Count("mode:input-overwritten")
	for i := range buf {
		buf[i] ^= 0xa5
	}
	sA, _ := show(p)
	reA, okA, _ := c04Marshal(reflect.ValueOf(p).Elem().Interface())
	if sA != s || !okA || !bytes.Equal(reA, consumed) {
		g.out.Fail("alias "+op, fmt.Sprintf("after the input buffer was overwritten the decoded value changed from {%s} to {%s}; it re-encodes as %s instead of the bytes it was decoded from", s, sA, hx(reA)))
		return
	}
	// the same bytes decoded into a destination that already holds an earlier value of the structure (a client reusing a
	// variable, a pooled struct): the result must be what the fresh decode gave — nothing of the old value may survive
	if g.reuse == nil {
		g.reuse = map[string]interface{}{}
	}
	old, ok2 := g.reuse[name]
	if !ok2 {
		g.reuse[name] = p
		return
	}
	g.out.Count("mode:reused-destination")
	before, _ := show(old)
	var rest2 []byte
	var err2 error
	if pan := verifkit.Guard(func() { rest2, err2 = tls.Unmarshal(data, old) }); pan != "" {
		g.out.Fail("panic "+op, "decoding into a reused destination: "+pan)
		delete(g.reuse, name)
		return
	}
	s2, _ := show(old)
	re2, okm, _ := c04Marshal(reflect.ValueOf(old).Elem().Interface())
	if err2 != nil || s2 != s || !bytes.Equal(rest2, rest) || !okm || !bytes.Equal(re2, consumed) {
		g.out.Fail("reuse "+op, fmt.Sprintf("decoded into a destination holding {%s}: got {%s} (err=%v); a fresh destination gives {%s}", before, s2, err2, s))
		delete(g.reuse, name)
	}
}

func showChain(c []ASN1Cert) string {
	var sb strings.Builder
	fmt.Fprintf(&sb, "n=%d", len(c))
	for _, x := range c {
		sb.WriteString(" " + hx(x.Data))
	}
	return sb.String()
}

func (g *c04Gen) chain() ([]ASN1Cert, bool) {
	n := g.r.Intn(4)
	if g.r.Intn(10) == 0 {
		n = 20 + g.r.Intn(30) // a long chain
	}
	ok := true
	var c []ASN1Cert
	total := 0
	for i := 0; i < n; i++ {
		l := g.length()
		if n > 10 {
			l = 1 + g.r.Intn(50)
		}
		if l < 1 {
			ok = false
		}
		total += 3 + l
		c = append(c, ASN1Cert{Data: g.bytes(l)})
	}
	return c, ok && total <= 1<<24-1
}

// rfcSCTList assembles RFC 6962 §3.3 by hand: 2-byte total, then each SCT with its 2-byte length.
func rfcSCTList(scts [][]byte) []byte {
	var body []byte
	for _, s := range scts {
		body = append(body, byte(len(s)>>8), byte(len(s)))
		body = append(body, s...)
	}
	return append([]byte{byte(len(body) >> 8), byte(len(body))}, body...)
}

func (g *c04Gen) sctListCase(scts [][]byte) {
	var l x509.SignedCertificateTimestampList
	valid := true
	body := 0
	var sb strings.Builder
	fmt.Fprintf(&sb, "S SCTList n=%d", len(scts))
	for _, s := range scts {
		l.SCTList = append(l.SCTList, x509.SerializedSCT{Val: s})
		if len(s) < 1 || len(s) > 65535 {
			valid = false
		}
		body += 2 + len(s)
		sb.WriteString(" " + hx(s))
	}
	if body < 1 || body > 65535 {
		valid = false
	}
	op := sb.String()
	g.out.Count("mode:encode")
	enc, ok, pan := c04Marshal(l)
	key := fmt.Sprintf("SCTList body=%d n=%d", body, len(scts))
	switch {
	case pan != "":
		g.out.Fail("panic "+key, pan)
	case ok != valid && valid:
		g.out.Count("class:valid-rejected")
		g.out.Fail("valid-rejected "+key, "tls.Marshal refused an SCT list of "+fmt.Sprint(body)+" bytes; RFC 6962 §3.3 allows 1..65535")
	case ok != valid:
		g.out.Fail("invalid-accepted "+key, "tls.Marshal accepted an SCT list outside the RFC bounds")
	case ok:
		g.out.Count("class:enc-ok")
		g.out.T(op, hx(enc))
		g.roundTrip(key, l, enc)
	default:
		g.out.Count("class:enc-err")
		g.out.T(op, "err")
	}
	if !valid {
		return
	}
	// the decoder, on the RFC encoding assembled by hand
	data := rfcSCTList(scts)
	var back x509.SignedCertificateTimestampList
	rest, err := tls.Unmarshal(data, &back)
	if err != nil || len(rest) != 0 {
		g.out.Count("class:valid-rejected")
		g.out.Fail("valid-rejected-dec "+key, "tls.Unmarshal refused the RFC 6962 §3.3 encoding of an SCT list of "+fmt.Sprint(body)+" bytes")
		return
	}
	inputs := [][]byte{data}
	if body < 60000 {
		inputs = g.mutants(data)
	}
	for _, m := range inputs {
		g.decodeCase("SCTList", func() interface{} { return &x509.SignedCertificateTimestampList{} }, func(p interface{}) (string, bool) {
			l := p.(*x509.SignedCertificateTimestampList)
			var sb strings.Builder
			fmt.Fprintf(&sb, "n=%d", len(l.SCTList))
			for _, s := range l.SCTList {
				sb.WriteString(" " + hx(s.Val))
			}
			return sb.String(), true
		}, m)
	}
}

func showLeafDecoded(p interface{}) (string, bool) {
	l := p.(*MerkleTreeLeaf)
	if l.TimestampedEntry == nil || l.LeafType != 0 {
		// select(leaf_type) has the single case timestamped_entry(0): nothing else may decode
		return fmt.Sprintf("FAIL unknown-leaf-type-accepted lt=%d", l.LeafType), false
	}
	if te := l.TimestampedEntry; te.JSONEntry != nil {
		return fmt.Sprintf("json v=%d ts=%d data=%s ext=%s", l.Version, te.Timestamp, hx(te.JSONEntry.Data), hx(te.Extensions)), false
	}
	return showLeaf(l), true
}

func (g *c04Gen) one(it int) {
	r := g.r
	switch it % 10 {
	case 0, 1: // MerkleTreeLeaf / TimestampedEntry
		if r.Intn(12) == 0 {
			// the repository's extension to RFC 6962: entry type 0x8000 with a JSONDataEntry (the model answers from the
			// regenerated type; the RFC transcription has no such entry)
			leaf := MerkleTreeLeaf{Version: Version(g.enum8() % 256), TimestampedEntry: &TimestampedEntry{Timestamp: g.u64(),
				EntryType: LogEntryType(0x8000), JSONEntry: &JSONDataEntry{Data: g.bytes(g.length() % 300)}, Extensions: g.bytes(g.length() % 300)}}
			te := leaf.TimestampedEntry
			op := fmt.Sprintf("SJ MerkleTreeLeaf v=%d ts=%d data=%s ext=%s", leaf.Version, te.Timestamp, hx(te.JSONEntry.Data), hx(te.Extensions))
			enc, ok, pan := c04Marshal(leaf)
			if pan != "" || !ok {
				g.out.Fail("json-extension "+op, "tls.Marshal refused / panicked on a JSON-extension leaf: "+pan)
				return
			}
			g.out.Count("class:enc-json-extension")
			g.out.T(op, hx(enc))
			g.roundTrip(op, leaf, enc)
			for _, m := range g.mutants(enc) {
				g.decodeCase("MerkleTreeLeaf", func() interface{} { return &MerkleTreeLeaf{} }, showLeafDecoded, m)
			}
			if _, err := RawLogEntryFromLeaf(1, &LeafEntry{LeafInput: enc, ExtraData: []byte{0, 0, 0}}); err == nil {
				g.out.Fail("rawlogentry "+op, "RawLogEntryFromLeaf accepted the JSON entry type")
			}
			return
		}
		e := g.entry()
		ext := g.bytes(g.length())
		leaf := MerkleTreeLeaf{Version: Version(g.enum8()), LeafType: MerkleLeafType(0), TimestampedEntry: &TimestampedEntry{
			Timestamp: g.u64(), EntryType: LogEntryType(e.et), X509Entry: e.x509, PrecertEntry: e.pre, JSONEntry: e.json, Extensions: ext}}
		if r.Intn(15) == 0 {
			leaf.LeafType = MerkleLeafType(1 + r.Intn(300))
		}
		valid := e.rfcOK() && leaf.Version < 256 && leaf.LeafType == 0 && len(ext) <= 65535
		enc := g.encodeCase("S MerkleTreeLeaf "+showLeaf(&leaf), leaf, valid)
		g.encodeCase("S TimestampedEntry "+showLeaf(&leaf), *leaf.TimestampedEntry, e.rfcOK() && len(ext) <= 65535)
		if enc != nil {
			// leaf hash: SHA-256(0x00 ‖ leaf)
			h, err := LeafHashForLeaf(&leaf)
			if want := sha256.Sum256(append([]byte{0x00}, enc...)); err != nil || h != want {
				g.out.Fail("leafhash "+showLeaf(&leaf), fmt.Sprintf("LeafHashForLeaf = %x, SHA-256(0x00‖leaf) = %x, err=%v", h, want, err))
			} else if len(enc) < 600 {
				g.out.T("LH "+hx(enc), hx(h[:])) // the model: SHA-256 (in Lean) of 0x00 ‖ leaf
			}
			if len(enc) < 3000 {
				for _, m := range g.mutants(enc) {
					g.decodeCase("MerkleTreeLeaf", func() interface{} { return &MerkleTreeLeaf{} }, showLeafDecoded, m)
				}
			}
			g.rawLogEntry(enc, e)
		}
	case 2: // SignedCertificateTimestamp
		s := SignedCertificateTimestamp{SCTVersion: Version(g.enum8()), Timestamp: g.u64(), Extensions: g.bytes(g.length()), Signature: DigitallySigned(g.ds(it / 10))}
		copy(s.LogID.KeyID[:], g.bytes(32))
		valid := s.SCTVersion < 256 && len(s.Extensions) <= 65535 && dsOK(tls.DigitallySigned(s.Signature))
		show := func(s *SignedCertificateTimestamp) string {
			return fmt.Sprintf("v=%d id=%s ts=%d ext=%s %s", s.SCTVersion, hx(s.LogID.KeyID[:]), s.Timestamp, hx(s.Extensions), showDS(tls.DigitallySigned(s.Signature)))
		}
		enc := g.encodeCase("S SCT "+show(&s), s, valid)
		if enc != nil && len(enc) < 3000 {
			for _, m := range g.mutants(enc) {
				g.decodeCase("SCT", func() interface{} { return &SignedCertificateTimestamp{} }, func(p interface{}) (string, bool) {
					return show(p.(*SignedCertificateTimestamp)), true
				}, m)
			}
		}
	case 3: // DigitallySigned: every hash and signature code
		d := g.ds(it / 10)
		enc := g.encodeCase("S DS "+showDS(d), d, dsOK(d))
		if enc != nil && len(enc) < 3000 {
			for _, m := range g.mutants(enc) {
				g.decodeCase("DS", func() interface{} { return &tls.DigitallySigned{} }, func(p interface{}) (string, bool) {
					return showDS(*p.(*tls.DigitallySigned)), true
				}, m)
			}
		}
	case 4: // SCT signature input
		e := g.entry()
		for e.et == 1 && e.pre == nil { // the function dereferences PrecertEntry for precert entries: caller's obligation
			e = g.entry()
		}
		sct := SignedCertificateTimestamp{SCTVersion: Version(g.enum8()), Timestamp: g.u64(), Extensions: g.bytes(g.length())}
		entry := LogEntry{Leaf: MerkleTreeLeaf{TimestampedEntry: &TimestampedEntry{EntryType: LogEntryType(e.et), X509Entry: e.x509, PrecertEntry: e.pre, JSONEntry: e.json}}}
		// the leaf of a LogEntry has extensions of its own (none when a verifier rebuilt it from certificate + timestamp);
		// RFC 6962 §3.2 signs the SCT's extensions, whatever the leaf carries
		switch r.Intn(3) {
		case 0:
			entry.Leaf.TimestampedEntry.Extensions = g.bytes(1 + r.Intn(20))
		case 1:
			entry.Leaf.TimestampedEntry.Extensions = append(CTExtensions{}, sct.Extensions...)
		}
		entry.Leaf.TimestampedEntry.Timestamp = g.u64() // likewise: the signed timestamp is the SCT's
		op := fmt.Sprintf("SCTIN v=%d ts=%d ext=%s %s", sct.SCTVersion, sct.Timestamp, hx(sct.Extensions), e)
		var b []byte
		var err error
		if pan := verifkit.Guard(func() { b, err = SerializeSCTSignatureInput(sct, entry) }); pan != "" {
			g.out.Fail("panic "+op, pan)
			return
		}
		// what the function reads of the entry: the body that belongs to the entry type
		used := c04Entry{et: e.et}
		if e.et == 0 {
			used.x509 = e.x509
		} else if e.et == 1 {
			used.pre = e.pre
		}
		valid := sct.SCTVersion == 0 && used.rfcOK() && len(sct.Extensions) <= 65535
		if (err == nil) != valid {
			g.out.Fail("sigin "+op, fmt.Sprintf("SerializeSCTSignatureInput: err=%v, expected success=%v (version must be v1, entry type x509 or precert, lengths in range)", err, valid))
			return
		}
		if err == nil {
			// the RFC 6962 §3.2 `digitally-signed struct`, assembled by hand: version, signature_type = certificate_timestamp(0),
			// timestamp, entry_type, signed_entry, extensions — all taken from the SCT and the entry body
			want := []byte{0, 0}
			want = append(want, be(sct.Timestamp, 8)...)
			want = append(want, be(e.et, 2)...)
			if e.et == 0 {
				want = append(append(want, be(uint64(len(e.x509.Data)), 3)...), e.x509.Data...)
			} else {
				want = append(want, e.pre.IssuerKeyHash[:]...)
				want = append(append(want, be(uint64(len(e.pre.TBSCertificate)), 3)...), e.pre.TBSCertificate...)
			}
			want = append(append(want, be(uint64(len(sct.Extensions)), 2)...), sct.Extensions...)
			if !bytes.Equal(b, want) {
				g.out.Fail("sigin-bytes "+op+" leafext="+hx(entry.Leaf.TimestampedEntry.Extensions), fmt.Sprintf("SerializeSCTSignatureInput = %s, RFC 6962 §3.2 input = %s", hx(b), hx(want)))
				return
			}
		}
		if err != nil {
			g.out.T(op, "err")
		} else {
			g.out.T(op, hx(b))
		}
	case 5: // STH signature input
		sth := SignedTreeHead{Version: Version(g.enum8()), TreeSize: g.u64(), Timestamp: g.u64()}
		copy(sth.SHA256RootHash[:], g.bytes(32))
		op := fmt.Sprintf("STHIN v=%d ts=%d size=%d root=%s", sth.Version, sth.Timestamp, sth.TreeSize, hx(sth.SHA256RootHash[:]))
		b, err := SerializeSTHSignatureInput(sth)
		if (err == nil) != (sth.Version == 0) {
			g.out.Fail("sigin "+op, fmt.Sprintf("SerializeSTHSignatureInput: err=%v for version %d", err, sth.Version))
			return
		}
		if err == nil {
			// RFC 6962 §3.5 by hand: version, signature_type = tree_hash(1), timestamp, tree_size, sha256_root_hash
			want := append(append(append([]byte{0, 1}, be(sth.Timestamp, 8)...), be(sth.TreeSize, 8)...), sth.SHA256RootHash[:]...)
			if !bytes.Equal(b, want) {
				g.out.Fail("sigin-bytes "+op, fmt.Sprintf("SerializeSTHSignatureInput = %s, RFC 6962 §3.5 input = %s", hx(b), hx(want)))
				return
			}
		}
		if err != nil {
			g.out.T(op, "err")
		} else {
			g.out.T(op, hx(b))
		}
	case 6: // extra data: certificate chain
		c, ok := g.chain()
		enc := g.encodeCase("S CertChain "+showChain(c), CertificateChain{Entries: c}, ok)
		if enc != nil && len(enc) < 3000 {
			for _, m := range g.mutants(enc) {
				g.decodeCase("CertChain", func() interface{} { return &CertificateChain{} }, func(p interface{}) (string, bool) {
					return showChain(p.(*CertificateChain).Entries), true
				}, m)
			}
		}
	case 7: // extra data: precert chain entry
		c, ok := g.chain()
		pre := ASN1Cert{Data: g.bytes(g.length())}
		ok = ok && len(pre.Data) >= 1
		enc := g.encodeCase("S PrecertChain pre="+hx(pre.Data)+" "+showChain(c), PrecertChainEntry{PreCertificate: pre, CertificateChain: c}, ok)
		if enc != nil && len(enc) < 3000 {
			for _, m := range g.mutants(enc) {
				g.decodeCase("PrecertChain", func() interface{} { return &PrecertChainEntry{} }, func(p interface{}) (string, bool) {
					e := p.(*PrecertChainEntry)
					return "pre=" + hx(e.PreCertificate.Data) + " " + showChain(e.CertificateChain), true
				}, m)
			}
		}
	case 8: // SCT lists
		n := 1 + r.Intn(4)
		if r.Intn(6) == 0 {
			n = 0
		}
		var scts [][]byte
		for i := 0; i < n; i++ {
			l := g.length()
			if l > 600 {
				l = 1 + r.Intn(100)
			}
			scts = append(scts, g.bytes(l))
		}
		g.sctListCase(scts)
	case 9: // JSON API messages
		switch it % 40 {
		case 9:
			g.jsonCase(it)
		case 19:
			g.dsJSONCase(it / 40)
		default:
			g.jsonMsgCase(it)
		}
	}
}

// rawLogEntry drives RawLogEntryFromLeaf (§4.6) with the leaf just encoded and matching / mismatching extra data.
func (g *c04Gen) rawLogEntry(leafEnc []byte, e c04Entry) {
	r := g.r
	c, ok := g.chain()
	var extra []byte
	var okE bool
	kind := "chain"
	if r.Bool() {
		extra, okE, _ = c04Marshal(CertificateChain{Entries: c})
	} else {
		kind = "precertchain"
		extra, okE, _ = c04Marshal(PrecertChainEntry{PreCertificate: ASN1Cert{Data: g.bytes(1 + r.Intn(30))}, CertificateChain: c})
	}
	if !okE || !ok || len(extra) > 3000 || len(leafEnc) > 3000 {
		return
	}
	type tc struct {
		leaf, extra []byte
		clean       bool // both parts are complete encodings
		mustErr     bool // a byte was added to / removed from a complete encoding: a complete parse has to refuse it
	}
	cases := []tc{{leafEnc, extra, true, false},
		{append(append([]byte{}, leafEnc...), 0), extra, false, true},
		{leafEnc, append(append([]byte{}, extra...), byte(r.Intn(256))), false, true},
		{leafEnc[:len(leafEnc)-1], extra, false, true},
		{leafEnc, extra[:len(extra)-1], false, true}}
	for _, m := range g.mutants(extra)[2:] {
		cases = append(cases, tc{leafEnc, m, false, false})
	}
	for _, c := range cases {
		g.out.Count("mode:rawlogentry")
		op := "LEAF " + hx(c.leaf) + " " + hx(c.extra)
		var rle *RawLogEntry
		var err error
		leafBuf, extraBuf := append([]byte{}, c.leaf...), append([]byte{}, c.extra...)
		if pan := verifkit.Guard(func() { rle, err = RawLogEntryFromLeaf(7, &LeafEntry{LeafInput: leafBuf, ExtraData: extraBuf}) }); pan != "" {
			g.out.Fail("panic "+op, pan)
			continue
		}
		want := (e.et == 0 && kind == "chain") || (e.et == 1 && kind == "precertchain")
		if c.clean && (err == nil) != want {
			g.out.Fail("rawlogentry "+op, fmt.Sprintf("RawLogEntryFromLeaf: err=%v for entry type %d with extra data of kind %s", err, e.et, kind))
			continue
		}
		if c.mustErr && err == nil {
			g.out.Fail("rawlogentry "+op, "RawLogEntryFromLeaf accepted a leaf input / extra data with a byte added or removed")
			continue
		}
		if err != nil {
			g.out.T(op, "err")
			continue
		}
		shown := fmt.Sprintf("ok %s cert=%s chain %s", showLeaf(&rle.Leaf), hx(rle.Cert.Data), showChain(rle.Chain))
		g.out.T(op, shown)
		// the get-entries response buffer is reused for the next batch while the entry is still held
		for i := range leafBuf {
			leafBuf[i] ^= 0xa5
		}
		for i := range extraBuf {
			extraBuf[i] ^= 0xa5
		}
		if after := fmt.Sprintf("ok %s cert=%s chain %s", showLeaf(&rle.Leaf), hx(rle.Cert.Data), showChain(rle.Chain)); after != shown {
			g.out.Fail("alias "+op, "after leaf_input / extra_data were overwritten the RawLogEntry changed to: "+after)
		}
	}
}

// jsonCase: the JSON API messages carry the structures in base64 fields and convert without loss.
func (g *c04Gen) jsonCase(it int) {
	r := g.r
	if r.Bool() {
		d := g.ds(it / 10)
		sig, ok, _ := c04Marshal(d)
		if !ok {
			sig = g.bytes(r.Intn(8))
		}
		switch r.Intn(6) {
		case 0:
			sig = append(sig, 0) // trailing byte
		case 1:
			if len(sig) > 0 {
				sig = sig[:len(sig)-1]
			}
		}
		ext := g.bytes(g.length() % 300)
		rsp := AddChainResponse{SCTVersion: Version(g.enum8() % 256), ID: g.bytes([]int{32, 32, 32, 32, 31, 33, 0}[r.Intn(7)]), Timestamp: g.u64(),
			Extensions: base64.StdEncoding.EncodeToString(ext), Signature: sig}
		if r.Intn(10) == 0 {
			rsp.Extensions = "!!" + rsp.Extensions
		}
		op := fmt.Sprintf("TOSCT v=%d id=%s ts=%d ext64=%s sig=%s", rsp.SCTVersion, hx(rsp.ID), rsp.Timestamp, hx([]byte(rsp.Extensions)), hx(rsp.Signature))
		sct, err := rsp.ToSignedCertificateTimestamp()
		if err != nil {
			g.out.T(op, "err")
			return
		}
		g.out.T(op, fmt.Sprintf("ok v=%d id=%s ts=%d ext=%s %s", sct.SCTVersion, hx(sct.LogID.KeyID[:]), sct.Timestamp, hx(sct.Extensions), showDS(tls.DigitallySigned(sct.Signature))))
		// lossless: every field of the message is in the structure
		if uint64(sct.SCTVersion) != uint64(rsp.SCTVersion) || !bytes.Equal(sct.LogID.KeyID[:], rsp.ID) || sct.Timestamp != rsp.Timestamp || !bytes.Equal(sct.Extensions, ext) {
			g.out.Fail("json "+op, "ToSignedCertificateTimestamp lost or changed a field")
		}
		if back, ok, _ := c04Marshal(tls.DigitallySigned(sct.Signature)); !ok || !bytes.Equal(back, rsp.Signature) {
			g.out.Fail("json "+op, "signature does not re-encode to the bytes of the message")
		}
		return
	}
	d := g.ds(it / 10)
	sig, ok, _ := c04Marshal(d)
	if !ok {
		sig = g.bytes(r.Intn(8))
	}
	if r.Intn(6) == 0 {
		sig = append(sig, 7)
	}
	rsp := GetSTHResponse{TreeSize: g.u64(), Timestamp: g.u64(), SHA256RootHash: g.bytes([]int{32, 32, 32, 32, 31, 33, 0}[r.Intn(7)]), TreeHeadSignature: sig}
	op := fmt.Sprintf("TOSTH size=%d ts=%d root=%s sig=%s", rsp.TreeSize, rsp.Timestamp, hx(rsp.SHA256RootHash), hx(rsp.TreeHeadSignature))
	sth, err := rsp.ToSignedTreeHead()
	if err != nil {
		g.out.T(op, "err")
		return
	}
	g.out.T(op, fmt.Sprintf("ok size=%d ts=%d root=%s %s", sth.TreeSize, sth.Timestamp, hx(sth.SHA256RootHash[:]), showDS(tls.DigitallySigned(sth.TreeHeadSignature))))
	if sth.TreeSize != rsp.TreeSize || sth.Timestamp != rsp.Timestamp || !bytes.Equal(sth.SHA256RootHash[:], rsp.SHA256RootHash) {
		g.out.Fail("json "+op, "ToSignedTreeHead lost or changed a field")
	}
	if back, ok, _ := c04Marshal(tls.DigitallySigned(sth.TreeHeadSignature)); !ok || !bytes.Equal(back, rsp.TreeHeadSignature) {
		g.out.Fail("json "+op, "signature does not re-encode to the bytes of the message")
	}
}

// ---------------------------------------------------------------------------------------------- real JSON (RFC 6962 §4)

type c04JField struct {
	name string
	kind string // n b l e ; "s"/"sl": Go keeps the base64 text as string(s)
	num  uint64
	b    []byte
	l    [][]byte
	e    []LeafEntry
}

func c04HexList(l [][]byte) string {
	var p []string
	for _, x := range l {
		p = append(p, hx(x))
	}
	return strings.Join(p, ",")
}

func (f c04JField) token() string {
	switch f.kind {
	case "n":
		return fmt.Sprintf("%s=n%d", f.name, f.num)
	case "b", "s":
		return f.name + "=b" + hx(f.b)
	case "l", "sl":
		return f.name + "=l" + c04HexList(f.l)
	default:
		var p []string
		for _, x := range f.e {
			p = append(p, hx(x.LeafInput)+":"+hx(x.ExtraData))
		}
		return f.name + "=e" + strings.Join(p, ",")
	}
}

func c04Tokens(fs []c04JField) string {
	var p []string
	for _, f := range fs {
		p = append(p, f.token())
	}
	return strings.Join(p, " ")
}

func b64(b []byte) string { return base64.StdEncoding.EncodeToString(b) }

// jsonText renders one field the way a log server (any JSON writer) might: RFC field name, base64 strings.
func (f c04JField) jsonText(corrupt string) string {
	str := func(b []byte) string {
		t := b64(b)
		switch corrupt {
		case "badchar":
			t = "*" + t
		case "nopad":
			t = strings.TrimRight(t, "=") + "A"[:len(t)%1] // strip padding
			t = strings.TrimRight(t, "=")
		}
		return `"` + t + `"`
	}
	switch f.kind {
	case "n":
		if corrupt == "type" {
			return fmt.Sprintf(`"%s": "%d"`, f.name, f.num)
		}
		return fmt.Sprintf(`"%s": %d`, f.name, f.num)
	case "b", "s":
		if corrupt == "type" {
			return fmt.Sprintf(`"%s": 7`, f.name)
		}
		return fmt.Sprintf(`"%s":%s`, f.name, str(f.b))
	case "l", "sl":
		var p []string
		for _, x := range f.l {
			p = append(p, str(x))
		}
		return fmt.Sprintf(`"%s": [%s]`, f.name, strings.Join(p, ", "))
	default:
		var p []string
		for _, x := range f.e {
			p = append(p, fmt.Sprintf(`{"extra_data": %s, "leaf_input":%s}`, str(x.ExtraData), str(x.LeafInput)))
		}
		return fmt.Sprintf(`"%s":[%s]`, f.name, strings.Join(p, ","))
	}
}

func (g *c04Gen) byteLists() [][]byte {
	n := g.r.Intn(4)
	l := [][]byte{}
	for i := 0; i < n; i++ {
		l = append(l, g.bytes([]int{0, 1, 2, 3, 31, 32, 33, 100}[g.r.Intn(8)]))
	}
	return l
}

// jsonMsgCase: one RFC 6962 §4 message through encoding/json in both directions.
func (g *c04Gen) jsonMsgCase(it int) {
	r := g.r
	small := func() []byte { return g.bytes([]int{0, 1, 2, 3, 4, 5, 31, 32, 33, 64, 255, 256}[r.Intn(12)]) }
	var msg string
	var fs []c04JField
	var marshal func() ([]byte, error)           // json.Marshal of the Go message built from fs
	var unmarshal func([]byte) ([]c04JField, error) // json.Unmarshal into the Go message, read back as fields
	strs := func(l [][]byte) []string {
		o := []string{}
		for _, x := range l {
			o = append(o, b64(x))
		}
		return o
	}
	unb64 := func(ss []string) ([][]byte, error) {
		o := [][]byte{}
		for _, x := range ss {
			b, err := base64.StdEncoding.DecodeString(x)
			if err != nil {
				return nil, err
			}
			o = append(o, b)
		}
		return o, nil
	}
	nn := func(b []byte) []byte { // encoding/json leaves a missing field nil; the protocol does not distinguish
		if b == nil {
			return []byte{}
		}
		return b
	}
	nl := func(l [][]byte) [][]byte {
		o := [][]byte{}
		for _, x := range l {
			o = append(o, nn(x))
		}
		return o
	}
	switch (it / 10) % 8 {
	case 0:
		msg = "add-chain-input"
		fs = []c04JField{{name: "chain", kind: "l", l: g.byteLists()}}
		marshal = func() ([]byte, error) { return json.Marshal(AddChainRequest{Chain: fs[0].l}) }
		unmarshal = func(t []byte) ([]c04JField, error) {
			var m AddChainRequest
			err := json.Unmarshal(t, &m)
			return []c04JField{{name: "chain", kind: "l", l: nl(m.Chain)}}, err
		}
	case 1:
		msg = "add-chain-output"
		fs = []c04JField{{name: "sct_version", kind: "n", num: g.enum8() % 256}, {name: "id", kind: "b", b: g.bytes([]int{32, 32, 31, 0}[r.Intn(4)])},
			{name: "timestamp", kind: "n", num: g.u64()}, {name: "extensions", kind: "s", b: small()}, {name: "signature", kind: "b", b: small()}}
		marshal = func() ([]byte, error) {
			return json.Marshal(AddChainResponse{SCTVersion: Version(fs[0].num), ID: fs[1].b, Timestamp: fs[2].num, Extensions: b64(fs[3].b), Signature: fs[4].b})
		}
		unmarshal = func(t []byte) ([]c04JField, error) {
			var m AddChainResponse
			if err := json.Unmarshal(t, &m); err != nil {
				return nil, err
			}
			ext, err := base64.StdEncoding.DecodeString(m.Extensions)
			return []c04JField{{name: "sct_version", kind: "n", num: uint64(m.SCTVersion)}, {name: "id", kind: "b", b: nn(m.ID)}, {name: "timestamp", kind: "n", num: m.Timestamp},
				{name: "extensions", kind: "s", b: nn(ext)}, {name: "signature", kind: "b", b: nn(m.Signature)}}, err
		}
	case 2:
		msg = "get-sth"
		fs = []c04JField{{name: "tree_size", kind: "n", num: g.u64()}, {name: "timestamp", kind: "n", num: g.u64()},
			{name: "sha256_root_hash", kind: "b", b: g.bytes([]int{32, 32, 33, 0}[r.Intn(4)])}, {name: "tree_head_signature", kind: "b", b: small()}}
		marshal = func() ([]byte, error) {
			return json.Marshal(GetSTHResponse{TreeSize: fs[0].num, Timestamp: fs[1].num, SHA256RootHash: fs[2].b, TreeHeadSignature: fs[3].b})
		}
		unmarshal = func(t []byte) ([]c04JField, error) {
			var m GetSTHResponse
			err := json.Unmarshal(t, &m)
			return []c04JField{{name: "tree_size", kind: "n", num: m.TreeSize}, {name: "timestamp", kind: "n", num: m.Timestamp},
				{name: "sha256_root_hash", kind: "b", b: nn(m.SHA256RootHash)}, {name: "tree_head_signature", kind: "b", b: nn(m.TreeHeadSignature)}}, err
		}
	case 3:
		msg = "get-sth-consistency"
		fs = []c04JField{{name: "consistency", kind: "l", l: g.byteLists()}}
		marshal = func() ([]byte, error) { return json.Marshal(GetSTHConsistencyResponse{Consistency: fs[0].l}) }
		unmarshal = func(t []byte) ([]c04JField, error) {
			var m GetSTHConsistencyResponse
			err := json.Unmarshal(t, &m)
			return []c04JField{{name: "consistency", kind: "l", l: nl(m.Consistency)}}, err
		}
	case 4:
		msg = "get-proof-by-hash"
		fs = []c04JField{{name: "leaf_index", kind: "n", num: g.u64() >> 1}, {name: "audit_path", kind: "l", l: g.byteLists()}}
		marshal = func() ([]byte, error) {
			return json.Marshal(GetProofByHashResponse{LeafIndex: int64(fs[0].num), AuditPath: fs[1].l})
		}
		unmarshal = func(t []byte) ([]c04JField, error) {
			var m GetProofByHashResponse
			err := json.Unmarshal(t, &m)
			return []c04JField{{name: "leaf_index", kind: "n", num: uint64(m.LeafIndex)}, {name: "audit_path", kind: "l", l: nl(m.AuditPath)}}, err
		}
	case 5:
		msg = "get-entries"
		es := []LeafEntry{}
		for i := r.Intn(4); i > 0; i-- {
			es = append(es, LeafEntry{LeafInput: small(), ExtraData: small()})
		}
		fs = []c04JField{{name: "entries", kind: "e", e: es}}
		marshal = func() ([]byte, error) { return json.Marshal(GetEntriesResponse{Entries: es}) }
		unmarshal = func(t []byte) ([]c04JField, error) {
			var m GetEntriesResponse
			err := json.Unmarshal(t, &m)
			o := []LeafEntry{}
			for _, x := range m.Entries {
				o = append(o, LeafEntry{LeafInput: nn(x.LeafInput), ExtraData: nn(x.ExtraData)})
			}
			return []c04JField{{name: "entries", kind: "e", e: o}}, err
		}
	case 6:
		msg = "get-roots"
		fs = []c04JField{{name: "certificates", kind: "sl", l: g.byteLists()}}
		marshal = func() ([]byte, error) { return json.Marshal(GetRootsResponse{Certificates: strs(fs[0].l)}) }
		unmarshal = func(t []byte) ([]c04JField, error) {
			var m GetRootsResponse
			if err := json.Unmarshal(t, &m); err != nil {
				return nil, err
			}
			l, err := unb64(m.Certificates)
			return []c04JField{{name: "certificates", kind: "sl", l: l}}, err
		}
	default:
		msg = "get-entry-and-proof"
		fs = []c04JField{{name: "leaf_input", kind: "b", b: small()}, {name: "extra_data", kind: "b", b: small()}, {name: "audit_path", kind: "l", l: g.byteLists()}}
		marshal = func() ([]byte, error) {
			return json.Marshal(GetEntryAndProofResponse{LeafInput: fs[0].b, ExtraData: fs[1].b, AuditPath: fs[2].l})
		}
		unmarshal = func(t []byte) ([]c04JField, error) {
			var m GetEntryAndProofResponse
			err := json.Unmarshal(t, &m)
			return []c04JField{{name: "leaf_input", kind: "b", b: nn(m.LeafInput)}, {name: "extra_data", kind: "b", b: nn(m.ExtraData)}, {name: "audit_path", kind: "l", l: nl(m.AuditPath)}}, err
		}
	}
	// Go → JSON: field names, order and base64 as RFC 6962 §4 has them
	g.out.Count("mode:json-marshal")
	text, err := marshal()
	if err != nil {
		g.out.Fail("json-marshal "+msg+" "+c04Tokens(fs), err.Error())
		return
	}
	g.out.T("JM "+msg+" "+c04Tokens(fs), hx(text))
	// JSON → Go: the message as another implementation would write it (field order shuffled, whitespace, unknown members)
	g.out.Count("mode:json-unmarshal")
	corrupt, which := "", -1
	if r.Intn(4) == 0 {
		corrupt = []string{"badchar", "nopad", "type", "drop"}[r.Intn(4)]
		which = r.Intn(len(fs))
	}
	var parts []string
	for i, f := range fs {
		c := ""
		if i == which {
			c = corrupt
		}
		if c == "drop" {
			continue
		}
		parts = append(parts, f.jsonText(c))
	}
	if r.Bool() {
		parts = append(parts, []string{`"x_unknown": 1`, `"future": {"a": [1, 2, "z"], "b": null}`, `"ok":true`}[r.Intn(3)])
	}
	for i := len(parts) - 1; i > 0; i-- {
		j := r.Intn(i + 1)
		parts[i], parts[j] = parts[j], parts[i]
	}
	in := []byte("{ " + strings.Join(parts, []string{",", ", ", " ,\n  "}[r.Intn(3)]) + " }")
	op := "JU " + msg + " " + hx(in)
	got, err := unmarshal(in)
	if err != nil {
		g.out.Count("class:json-err")
		if corrupt == "" {
			g.out.Fail("json-unmarshal "+op, "a well-formed RFC 6962 message was refused: "+err.Error())
			return
		}
		g.out.T(op, "err")
		return
	}
	g.out.Count("class:json-ok")
	if corrupt == "" && c04Tokens(got) != c04Tokens(fs) {
		g.out.Fail("json-unmarshal "+op, "fields read back differ: "+c04Tokens(got)+" vs "+c04Tokens(fs))
		return
	}
	g.out.T(op, "ok "+c04Tokens(got))
}

// dsJSONCase: the base64 / JSON methods of ct.DigitallySigned and ct.SHA256Hash, and the JSON form of a signed tree head.
func (g *c04Gen) dsJSONCase(it int) {
	r := g.r
	d := g.ds(it)
	if !dsOK(d) {
		d.Algorithm.Hash, d.Algorithm.Signature = tls.SHA256, tls.ECDSA
		if len(d.Signature) > 65535 {
			d.Signature = d.Signature[:100]
		}
	}
	cd := DigitallySigned(d)
	text, err := cd.Base64String()
	if err != nil {
		g.out.Fail("ds-base64 "+showDS(d), err.Error())
		return
	}
	g.out.T("DS64 "+showDS(d), hx([]byte(text)))
	// MarshalJSON is the quoted base64; UnmarshalJSON / FromBase64String invert it
	if j, err := json.Marshal(cd); err != nil || string(j) != `"`+text+`"` {
		g.out.Fail("ds-json "+showDS(d), fmt.Sprintf("json.Marshal(DigitallySigned) = %s err=%v, want quoted %s", j, err, text))
	}
	var back DigitallySigned
	if err := json.Unmarshal([]byte(`"`+text+`"`), &back); err != nil || !reflect.DeepEqual(tls.DigitallySigned(back).Algorithm, d.Algorithm) || !bytes.Equal(back.Signature, d.Signature) {
		g.out.Fail("ds-json "+showDS(d), fmt.Sprintf("json.Unmarshal of the marshalled DigitallySigned: err=%v", err))
	}
	// decoding: the exact text, with a byte appended to / removed from the TLS structure, with a damaged base64 text
	raw, _, _ := c04Marshal(d)
	texts := []string{text, b64(append(append([]byte{}, raw...), byte(r.Intn(256)))), b64(raw[:len(raw)-1]), "!" + text, strings.TrimRight(text, "=") + "="}
	for i, tx := range texts {
		var x DigitallySigned
		err := x.FromBase64String(tx)
		op := "DS64DEC " + hx([]byte(tx))
		if i == 0 && err != nil {
			g.out.Fail("ds-base64 "+op, "FromBase64String refuses what Base64String produced: "+err.Error())
			continue
		}
		if (i == 1 || i == 2) && err == nil {
			g.out.Fail("ds-base64 "+op, "FromBase64String accepted a DigitallySigned with a byte added / removed")
			continue
		}
		if err != nil {
			g.out.T(op, "err")
		} else {
			g.out.T(op, "ok "+showDS(tls.DigitallySigned(x)))
		}
	}
	// SignedTreeHead ⇄ JSON (sha256_root_hash and log_id are SHA256Hash: exactly 32 bytes)
	sth := SignedTreeHead{Version: Version(g.enum8() % 256), TreeSize: g.u64(), Timestamp: g.u64(), TreeHeadSignature: cd}
	copy(sth.SHA256RootHash[:], g.bytes(32))
	copy(sth.LogID[:], g.bytes(32))
	js, err := json.Marshal(sth)
	if err != nil {
		g.out.Fail("sth-json "+showDS(d), err.Error())
		return
	}
	want := fmt.Sprintf(`{"sth_version":%d,"tree_size":%d,"timestamp":%d,"sha256_root_hash":"%s","tree_head_signature":"%s","log_id":"%s"}`,
		sth.Version, sth.TreeSize, sth.Timestamp, b64(sth.SHA256RootHash[:]), text, b64(sth.LogID[:]))
	if string(js) != want {
		g.out.Fail("sth-json "+showDS(d), fmt.Sprintf("json.Marshal(SignedTreeHead) = %s, want %s", js, want))
	}
	var sb SignedTreeHead
	if err := json.Unmarshal(js, &sb); err != nil || !reflect.DeepEqual(sb, sth) {
		// nil vs empty signature bytes are the same message
		if err != nil || sb.Version != sth.Version || sb.TreeSize != sth.TreeSize || sb.Timestamp != sth.Timestamp || sb.SHA256RootHash != sth.SHA256RootHash ||
			sb.LogID != sth.LogID || !bytes.Equal(sb.TreeHeadSignature.Signature, sth.TreeHeadSignature.Signature) || sb.TreeHeadSignature.Algorithm != sth.TreeHeadSignature.Algorithm {
			g.out.Fail("sth-json "+showDS(d), fmt.Sprintf("SignedTreeHead does not survive json.Marshal / json.Unmarshal (err=%v)", err))
		}
	}
	for _, n := range []int{31, 33, 0} {
		bad := strings.Replace(want, b64(sth.SHA256RootHash[:]), b64(g.bytes(n)), 1)
		if err := json.Unmarshal([]byte(bad), &sb); err == nil {
			g.out.Fail("sth-json rootlen="+fmt.Sprint(n), "json.Unmarshal accepted a sha256_root_hash of the wrong length")
		}
	}
}

// ---------------------------------------------------------------------------------------------- leaves from real chains

// c04ChainLeaves: MerkleTreeLeafFromChain / MerkleTreeLeafFromRawChain / MerkleTreeLeafForEmbeddedSCT over real chains: an X.509
// entry, a precertificate issued directly by the CA, and a precertificate issued by a Precertificate Signing Certificate
// (CT EKU) — chain [precert, pre-issuer, CA], where RFC 6962 §3.2 takes issuer_key_hash from the *final* issuer, chain[2].
// Oracle: the leaf is the hand-derived one (entry type, timestamp, SHA-256 of the final issuer's SPKI; the TBS has no poison /
// SCT-list extension, names the final issuer, keeps serial, subject and key); the DER-chain variant and the parsed-chain variant
// agree on every chain, errors included; the leaf encodes to what the RFC transcription gives (`S MerkleTreeLeaf` line).
func (g *c04Gen) c04ChainLeaves(round int) {
	key := func() *ecdsa.PrivateKey {
		k, err := ecdsa.GenerateKey(elliptic.P256(), rand.Reader)
		if err != nil {
			panic(err)
		}
		return k
	}
	mk := func(tmpl, parent *x509.Certificate, pub *ecdsa.PublicKey, signer *ecdsa.PrivateKey) *x509.Certificate {
		der, err := x509.CreateCertificate(rand.Reader, tmpl, parent, pub, signer)
		if err != nil {
			panic(err)
		}
		c, err := x509.ParseCertificate(der)
		if x509.IsFatal(err) {
			panic(err)
		}
		return c
	}
	r := g.r
	caKey, preKey, leafKey := key(), key(), key()
	nb := time.Date(2024, 1, 1, 0, 0, 0, 0, time.UTC)
	na := nb.AddDate(1, 0, 0)
	caT := &x509.Certificate{SerialNumber: big.NewInt(int64(1 + r.Intn(1000))), Subject: pkix.Name{CommonName: fmt.Sprintf("verif ca %d", round)},
		NotBefore: nb, NotAfter: na, IsCA: true, BasicConstraintsValid: true, KeyUsage: x509.KeyUsageCertSign, SubjectKeyId: g.bytes(4)}
	ca := mk(caT, caT, &caKey.PublicKey, caKey)
	piT := &x509.Certificate{SerialNumber: big.NewInt(2), Subject: pkix.Name{CommonName: "verif precert signing cert"}, NotBefore: nb, NotAfter: na,
		IsCA: true, BasicConstraintsValid: true, KeyUsage: x509.KeyUsageCertSign,
		ExtKeyUsage: []x509.ExtKeyUsage{x509.ExtKeyUsageCertificateTransparency}, SubjectKeyId: g.bytes(4)}
	pi := mk(piT, ca, &preKey.PublicKey, caKey)
	name := fmt.Sprintf("leaf%d.example.com", r.Intn(1000))
	leafT := func(extra ...pkix.Extension) *x509.Certificate {
		return &x509.Certificate{SerialNumber: big.NewInt(int64(3 + r.Intn(1<<30))), Subject: pkix.Name{CommonName: name}, NotBefore: nb, NotAfter: na,
			DNSNames: []string{name}, ExtraExtensions: extra}
	}
	poison := pkix.Extension{Id: x509.OIDExtensionCTPoison, Critical: true, Value: []byte{0x05, 0x00}}
	sctExt := pkix.Extension{Id: x509.OIDExtensionCTSCT, Value: append([]byte{0x04, 0x06}, rfcSCTList([][]byte{{1, 2}})...)}
	extra := mk(leafT(), ca, &leafKey.PublicKey, caKey) // an unrelated certificate to pad chains with
	type tc struct {
		name   string
		chain  []*x509.Certificate
		etype  LogEntryType
		ok     bool
		issuer *x509.Certificate // final issuer (precert entries)
	}
	preDirect := mk(leafT(poison), ca, &leafKey.PublicKey, caKey)
	preVia := mk(leafT(poison), pi, &leafKey.PublicKey, preKey)
	plain := mk(leafT(), ca, &leafKey.PublicKey, caKey)
	cases := []tc{
		{"x509", []*x509.Certificate{plain, ca}, X509LogEntryType, true, nil},
		{"x509-alone", []*x509.Certificate{plain}, X509LogEntryType, true, nil},
		{"x509-long", []*x509.Certificate{plain, ca, extra, extra}, X509LogEntryType, true, nil},
		{"precert-direct", []*x509.Certificate{preDirect, ca}, PrecertLogEntryType, true, ca},
		{"precert-direct-long", []*x509.Certificate{preDirect, ca, extra, extra}, PrecertLogEntryType, true, ca},
		{"precert-preissuer", []*x509.Certificate{preVia, pi, ca}, PrecertLogEntryType, true, ca},
		{"precert-preissuer-long", []*x509.Certificate{preVia, pi, ca, extra}, PrecertLogEntryType, true, ca},
		{"precert-no-issuer", []*x509.Certificate{preDirect}, PrecertLogEntryType, false, nil},
		{"precert-preissuer-no-ca", []*x509.Certificate{preVia, pi}, PrecertLogEntryType, false, nil},
		{"unknown-type", []*x509.Certificate{plain, ca}, LogEntryType(2 + r.Intn(100)), false, nil},
	}
	marshal := func(l *MerkleTreeLeaf) []byte {
		b, ok, _ := c04Marshal(*l)
		if !ok {
			return nil
		}
		return b
	}
	checkTBS := func(key string, tbs []byte, from, issuer *x509.Certificate, dropped []int) {
		c, err := x509.ParseTBSCertificate(tbs)
		if err != nil {
			g.out.Fail("chainleaf-tbs "+key, "the TBSCertificate of the leaf does not parse: "+err.Error())
			return
		}
		for _, e := range c.Extensions {
			if e.Id.Equal(x509.OIDExtensionCTPoison) || e.Id.Equal(x509.OIDExtensionCTSCT) {
				g.out.Fail("chainleaf-tbs "+key, "the TBSCertificate of the leaf still carries extension "+e.Id.String())
			}
		}
		if !bytes.Equal(c.RawIssuer, issuer.RawSubject) || c.SerialNumber.Cmp(from.SerialNumber) != 0 || !bytes.Equal(c.RawSubject, from.RawSubject) ||
			!bytes.Equal(c.RawSubjectPublicKeyInfo, from.RawSubjectPublicKeyInfo) {
			g.out.Fail("chainleaf-tbs "+key, "issuer / serial / subject / key of the leaf's TBSCertificate are not those of the final certificate")
		}
	}
	for _, c := range cases {
		g.out.Count("mode:leaf-from-chain")
		ts := g.u64()
		raw := make([]ASN1Cert, len(c.chain))
		var lens []string
		for i, x := range c.chain {
			raw[i] = ASN1Cert{Data: x.Raw}
			lens = append(lens, fmt.Sprint(len(x.Raw)))
		}
		key := fmt.Sprintf("%s etype=%d chainlen=%d certs=%s ts=%d", c.name, c.etype, len(c.chain), strings.Join(lens, "/"), ts)
		var pl, rl *MerkleTreeLeaf
		var perr, rerr error
		if pan := verifkit.Guard(func() {
			pl, perr = MerkleTreeLeafFromChain(c.chain, c.etype, ts)
			rl, rerr = MerkleTreeLeafFromRawChain(raw, c.etype, ts)
		}); pan != "" {
			g.out.Fail("panic chainleaf "+key, pan)
			continue
		}
		if (perr == nil) != c.ok {
			g.out.Fail("chainleaf "+key, fmt.Sprintf("MerkleTreeLeafFromChain: err=%v, expected success=%v", perr, c.ok))
			continue
		}
		if (rerr == nil) != (perr == nil) {
			g.out.Fail("chainleaf-raw-vs-parsed "+key, fmt.Sprintf("MerkleTreeLeafFromRawChain err=%v but MerkleTreeLeafFromChain err=%v on the same chain", rerr, perr))
			continue
		}
		if perr != nil {
			continue
		}
		pb, rb := marshal(pl), marshal(rl)
		if pb == nil || !bytes.Equal(pb, rb) {
			g.out.Fail("chainleaf-raw-vs-parsed "+key, fmt.Sprintf("the two variants build different leaves: %s vs %s", hx(rb), hx(pb)))
			continue
		}
		te := pl.TimestampedEntry
		if pl.Version != V1 || pl.LeafType != TimestampedEntryLeafType || te == nil || te.Timestamp != ts || te.EntryType != c.etype || len(te.Extensions) != 0 {
			g.out.Fail("chainleaf "+key, "version / leaf type / timestamp / entry type of the leaf are not what was asked for")
			continue
		}
		if c.etype == X509LogEntryType {
			if te.X509Entry == nil || te.PrecertEntry != nil || !bytes.Equal(te.X509Entry.Data, c.chain[0].Raw) {
				g.out.Fail("chainleaf "+key, "the X.509 entry is not the submitted certificate")
				continue
			}
		} else {
			want := sha256.Sum256(c.issuer.RawSubjectPublicKeyInfo)
			if te.PrecertEntry == nil || te.X509Entry != nil || te.PrecertEntry.IssuerKeyHash != want {
				g.out.Fail("chainleaf "+key, "issuer_key_hash is not SHA-256 of the final issuer's SubjectPublicKeyInfo")
				continue
			}
			checkTBS(key, te.PrecertEntry.TBSCertificate, c.chain[0], c.issuer, nil)
		}
		g.encodeCase("S MerkleTreeLeaf "+showLeaf(pl), *pl, true)
	}
	// a certificate with embedded SCTs and its issuer
	withSCT := mk(leafT(sctExt), ca, &leafKey.PublicKey, caKey)
	ts := g.u64()
	el, err := MerkleTreeLeafForEmbeddedSCT([]*x509.Certificate{withSCT, ca}, ts)
	ekey := fmt.Sprintf("embedded-sct certlen=%d ts=%d", len(withSCT.Raw), ts)
	if err != nil || el.TimestampedEntry == nil || el.TimestampedEntry.PrecertEntry == nil {
		g.out.Fail("chainleaf "+ekey, fmt.Sprintf("MerkleTreeLeafForEmbeddedSCT: %v", err))
	} else {
		te := el.TimestampedEntry
		if te.EntryType != PrecertLogEntryType || te.Timestamp != ts || te.PrecertEntry.IssuerKeyHash != sha256.Sum256(ca.RawSubjectPublicKeyInfo) {
			g.out.Fail("chainleaf "+ekey, "entry type / timestamp / issuer_key_hash of the leaf for an embedded SCT")
		}
		checkTBS(ekey, te.PrecertEntry.TBSCertificate, withSCT, ca, nil)
		g.encodeCase("S MerkleTreeLeaf "+showLeaf(el), *el, true)
	}
	if _, err := MerkleTreeLeafForEmbeddedSCT([]*x509.Certificate{withSCT}, ts); err == nil {
		g.out.Fail("chainleaf embedded-sct-no-issuer", "MerkleTreeLeafForEmbeddedSCT accepted a chain without issuer")
	}
	// Entries whose certificate draws only NON-FATAL complaints from the lax parser (logs hold plenty of those): leaf_input and
	// extra_data are valid encodings, so LogEntryFromLeaf / ToLogEntry / Leaf.X509Certificate() / Leaf.Precertificate() hand back the
	// entry (certificate) and an error for which x509.IsFatal is false — which is how client.GetEntries and the scanner decide
	// whether to keep the entry.
	sanBadIP := pkix.Extension{Id: x509.OIDExtensionSubjectAltName, Value: append([]byte{0x30, 0x07 + byte(2+len(name)), 0x87, 0x05, 10, 0, 0, 1, byte(r.Intn(256)), 0x82, byte(len(name))}, name...)}
	sctTrunc := pkix.Extension{Id: x509.OIDExtensionCTSCT, Value: []byte{0x04, 0x03, 0x00, 0x05, byte(r.Intn(256))}} // SCT list declaring 5 bytes, holding 1
	bare := func(extra ...pkix.Extension) *x509.Certificate {
		t := leafT(extra...)
		t.DNSNames = nil
		return t
	}
	type nf struct {
		name  string
		chain []*x509.Certificate
		etype LogEntryType
		soft  bool // the parser has non-fatal complaints about the entry's certificate
	}
	nfCases := []nf{
		{"x509-clean", []*x509.Certificate{plain, ca}, X509LogEntryType, false},
		{"x509-san-5-byte-ip", []*x509.Certificate{mk(bare(sanBadIP), ca, &leafKey.PublicKey, caKey), ca}, X509LogEntryType, true},
		{"x509-truncated-sct-list", []*x509.Certificate{mk(leafT(sctTrunc), ca, &leafKey.PublicKey, caKey), ca}, X509LogEntryType, true},
		{"precert-clean", []*x509.Certificate{preDirect, ca}, PrecertLogEntryType, false},
		{"precert-san-5-byte-ip", []*x509.Certificate{mk(bare(poison, sanBadIP), ca, &leafKey.PublicKey, caKey), ca}, PrecertLogEntryType, true},
		{"precert-preissuer-san-5-byte-ip", []*x509.Certificate{mk(bare(poison, sanBadIP), pi, &leafKey.PublicKey, preKey), pi, ca}, PrecertLogEntryType, true},
	}
	for _, c := range nfCases {
		g.out.Count("mode:nonfatal-entry")
		ts := g.u64()
		idx := int64(r.Intn(1 << 20))
		key := fmt.Sprintf("%s etype=%d certlen=%d index=%d ts=%d", c.name, c.etype, len(c.chain[0].Raw), idx, ts)
		if _, perr := x509.ParseCertificate(c.chain[0].Raw); x509.IsFatal(perr) || (perr != nil) != c.soft {
			g.out.Fail("nonfatal-setup "+key, fmt.Sprintf("the generated certificate parses with err=%v, expected non-fatal complaints=%v", perr, c.soft))
			continue
		}
		l, err := MerkleTreeLeafFromChain(c.chain, c.etype, ts)
		if err != nil {
			g.out.Fail("nonfatal-entry "+key, "MerkleTreeLeafFromChain: "+err.Error())
			continue
		}
		leafInput := marshal(l)
		var rest []ASN1Cert
		for _, x := range c.chain[1:] {
			rest = append(rest, ASN1Cert{Data: x.Raw})
		}
		var extraData []byte
		if c.etype == X509LogEntryType {
			extraData, _, _ = c04Marshal(CertificateChain{Entries: rest})
		} else {
			extraData, _, _ = c04Marshal(PrecertChainEntry{PreCertificate: ASN1Cert{Data: c.chain[0].Raw}, CertificateChain: rest})
		}
		le := &LeafEntry{LeafInput: leafInput, ExtraData: extraData}
		var e1, e2 *LogEntry
		var err1, err2, errC error
		var viaLeaf *x509.Certificate
		if pan := verifkit.Guard(func() {
			e1, err1 = LogEntryFromLeaf(idx, le)
			if rle, rerr := RawLogEntryFromLeaf(idx, le); rerr == nil {
				e2, err2 = rle.ToLogEntry()
				if c.etype == X509LogEntryType {
					viaLeaf, errC = rle.Leaf.X509Certificate()
				} else {
					viaLeaf, errC = rle.Leaf.Precertificate()
				}
			} else {
				err2, errC = rerr, rerr
			}
		}); pan != "" {
			g.out.Fail("panic nonfatal-entry "+key, pan)
			continue
		}
		for _, q := range []struct {
			what string
			e    *LogEntry
			err  error
		}{{"LogEntryFromLeaf", e1, err1}, {"RawLogEntry.ToLogEntry", e2, err2}} {
			switch {
			case q.e == nil || x509.IsFatal(q.err):
				g.out.Fail("nonfatal-entry "+key, fmt.Sprintf("%s on valid leaf_input / extra_data: entry nil=%v, err=%v, x509.IsFatal(err)=%v — the entry is lost to GetEntries / the scanner", q.what, q.e == nil, q.err, x509.IsFatal(q.err)))
			case !c.soft && q.err != nil:
				g.out.Fail("nonfatal-entry "+key, fmt.Sprintf("%s reports err=%v for a certificate the parser has no complaint about", q.what, q.err))
			case c.etype == X509LogEntryType && (q.e.X509Cert == nil || !bytes.Equal(q.e.X509Cert.Raw, c.chain[0].Raw)):
				g.out.Fail("nonfatal-entry "+key, q.what+": X509Cert is not the logged certificate")
			case c.etype == PrecertLogEntryType && (q.e.Precert == nil || q.e.Precert.TBSCertificate == nil || !bytes.Equal(q.e.Precert.Submitted.Data, c.chain[0].Raw)):
				g.out.Fail("nonfatal-entry "+key, q.what+": Precert is missing or is not the submitted precertificate")
			case q.e.Index != idx:
				g.out.Fail("nonfatal-entry "+key, q.what+": wrong index")
			}
		}
		if viaLeaf == nil || x509.IsFatal(errC) || (!c.soft && errC != nil) {
			g.out.Fail("nonfatal-entry "+key, fmt.Sprintf("MerkleTreeLeaf.X509Certificate/Precertificate on a valid leaf: cert nil=%v, err=%v, x509.IsFatal(err)=%v", viaLeaf == nil, errC, x509.IsFatal(errC)))
		}
	}
}

func TestVerifC04(t *testing.T) {
	out := verifkit.Open()
	defer out.Close()
	g := &c04Gen{r: verifkit.NewRand(verifkit.Seed()), out: out}
	// the SCT-list bound of RFC 6962 §3.3 (1..2^16−1) at its edges, first
	for _, total := range []int{1, 3, 255, 256, 65335, 65336, 65400, 65535, 65536} {
		if total < 3 {
			g.sctListCase([][]byte{}) // no 1-byte or 2-byte list exists: the empty list (body 0) stands for "below the floor"
			continue
		}
		g.sctListCase([][]byte{g.bytes(total - 2)})
	}
	g.sctListCase([][]byte{g.bytes(30000), g.bytes(30000), g.bytes(5394)}) // body 65400 in three SCTs
	for round := 0; round < verifkit.N(3, 40); round++ {
		g.c04ChainLeaves(round)
	}
	n := verifkit.N(1500, 120000)
	for it := 0; it < n; it++ {
		g.one(it)
	}
	if verifkit.Thorough() {
		// the 3-byte length ceiling, once: a certificate of 2^24−1 bytes and one byte more (implementation side only)
		big := make([]byte, 1<<24-1)
		if _, ok, _ := c04Marshal(ASN1Cert{Data: big}); !ok {
			out.Fail("valid-rejected ASN1Cert len=16777215", "tls.Marshal refused a certificate of 2^24−1 bytes")
		}
		if _, ok, _ := c04Marshal(ASN1Cert{Data: append(big, 0)}); ok {
			out.Fail("invalid-accepted ASN1Cert len=16777216", "tls.Marshal accepted a certificate of 2^24 bytes")
		}
		// the same ceiling for PreCert.TBSCertificate, and on the decode side: ff ff ff ‖ 2^24−1 bytes decodes completely,
		// one byte less is truncated
		pre := PreCert{TBSCertificate: big}
		if enc, ok, _ := c04Marshal(pre); !ok || len(enc) != 32+3+len(big) {
			out.Fail("valid-rejected PreCert tbslen=16777215", "tls.Marshal refused a TBSCertificate of 2^24−1 bytes")
		}
		if _, ok, _ := c04Marshal(PreCert{TBSCertificate: append(big, 0)}); ok {
			out.Fail("invalid-accepted PreCert tbslen=16777216", "tls.Marshal accepted a TBSCertificate of 2^24 bytes")
		}
		wire := append([]byte{0xff, 0xff, 0xff}, big...)
		var back ASN1Cert
		if rest, err := tls.Unmarshal(wire, &back); err != nil || len(rest) != 0 || len(back.Data) != len(big) {
			out.Fail("valid-rejected-dec ASN1Cert len=16777215", fmt.Sprintf("tls.Unmarshal of ff ff ff ‖ 2^24−1 bytes: err=%v", err))
		}
		if _, err := tls.Unmarshal(wire[:len(wire)-1], &back); err == nil {
			out.Fail("invalid-accepted-dec ASN1Cert len=16777214+prefix", "tls.Unmarshal accepted a truncated 2^24−1-byte certificate")
		}
		// a certificate_chain whose body is exactly 2^24−1 bytes: one certificate of 2^24−4 bytes
		cw := append([]byte{0xff, 0xff, 0xff, 0xff, 0xff, 0xfc}, big[:len(big)-3]...)
		var chain CertificateChain
		if rest, err := tls.Unmarshal(cw, &chain); err != nil || len(rest) != 0 || len(chain.Entries) != 1 || len(chain.Entries[0].Data) != 1<<24-4 {
			out.Fail("valid-rejected-dec CertChain body=16777215", fmt.Sprintf("tls.Unmarshal of a certificate_chain of 2^24−1 bytes: err=%v", err))
		}
	}
}
