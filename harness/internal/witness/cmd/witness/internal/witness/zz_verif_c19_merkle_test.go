//go:build verif

package witness

// Correspondence of the shared Lean libraries CTV/Sha256.lean and CTV/Rfc6962/Merkle.lean with
// crypto/sha256 and github.com/transparency-dev/merkle/{proof,testonly} (what the repository calls).
// Lines: sha, mth, path, cproof (generators vs RFC definitions), incl, cons (verifiers).

import (
	"bytes"
	"crypto/sha256"
	"encoding/hex"
	"fmt"
	"math/bits"
	"strings"
	"testing"

	"github.com/google/certificate-transparency-go/internal/verifkit"
	"github.com/transparency-dev/merkle/proof"
	"github.com/transparency-dev/merkle/rfc6962"
	"github.com/transparency-dev/merkle/testonly"
)

func vHexList(hs [][]byte) string {
	if len(hs) == 0 {
		return "-"
	}
	s := make([]string, len(hs))
	for i, h := range hs {
		s[i] = verifkit.Hex(h)
	}
	return strings.Join(s, " ")
}

// vProofToks renders "k h1 … hk".
func vProofToks(p [][]byte) string {
	var b strings.Builder
	fmt.Fprintf(&b, "%d", len(p))
	for _, h := range p {
		b.WriteByte(' ')
		b.WriteString(verifkit.Hex(h))
	}
	return b.String()
}

func vClone(p [][]byte) [][]byte {
	q := make([][]byte, len(p))
	for i := range p {
		q[i] = append([]byte(nil), p[i]...)
	}
	return q
}

// vMutateProof returns a named variant of an honest proof.
func vMutateProof(r *verifkit.Rand, p [][]byte, other [][]byte) (string, [][]byte) {
	q := vClone(p)
	switch r.Intn(9) {
	case 0:
		return "honest", q
	case 1:
		if len(q) > 0 {
			return "truncated-last", q[:len(q)-1]
		}
		return "honest", q
	case 2:
		if len(q) > 0 {
			return "truncated-first", q[1:]
		}
		return "honest", q
	case 3:
		return "padded-back", append(q, r.Bytes(32))
	case 4:
		return "padded-front", append([][]byte{r.Bytes(32)}, q...)
	case 5:
		if len(q) > 0 {
			i := r.Intn(len(q))
			q[i][r.Intn(len(q[i]))] ^= 1 << uint(r.Intn(8))
			return "bitflip", q
		}
		return "honest", q
	case 6:
		for i := range q {
			q[i] = r.Bytes(32)
		}
		return "random", q
	case 7:
		if other != nil {
			return "other-fork", vClone(other)
		}
		return "honest", q
	default:
		if len(q) > 1 {
			i := r.Intn(len(q) - 1)
			q[i], q[i+1] = q[i+1], q[i]
			return "swapped", q
		}
		return "honest", q
	}
}

type vConstTree struct {
	p [65][]byte // p[l] = hash of a perfect subtree of 2^l equal leaves
}

func newVConstTree(leaf []byte) *vConstTree {
	t := &vConstTree{}
	t.p[0] = rfc6962.DefaultHasher.HashLeaf(leaf)
	for l := 1; l < 65; l++ {
		t.p[l] = rfc6962.DefaultHasher.HashChildren(t.p[l-1], t.p[l-1])
	}
	return t
}

// root of the tree of n equal leaves, by the RFC 6962 recursion (all leaves equal, so a subtree hash depends on its size only).
func (t *vConstTree) root(n uint64) []byte {
	if n == 0 {
		return rfc6962.DefaultHasher.EmptyRoot()
	}
	if n&(n-1) == 0 {
		return t.p[bits.TrailingZeros64(n)]
	}
	k := uint64(1) << uint(bits.Len64(n-1)-1)
	return rfc6962.DefaultHasher.HashChildren(t.p[bits.TrailingZeros64(k)], t.root(n-k))
}

func (t *vConstTree) rehash(n proof.Nodes) [][]byte {
	hs := make([][]byte, len(n.IDs))
	for i, id := range n.IDs {
		hs[i] = t.p[id.Level]
	}
	out, err := n.Rehash(hs, rfc6962.DefaultHasher.HashChildren)
	if err != nil {
		panic(err)
	}
	return out
}

func TestVerifC19Merkle(t *testing.T) {
	out := verifkit.Open()
	defer out.Close()
	r := verifkit.NewRand(verifkit.Seed() ^ 0x6d65726b)
	hasher := rfc6962.DefaultHasher

	// ---- SHA-256: NIST vectors, every length 0…300, random long inputs
	sha := func(class string, b []byte) {
		d := sha256.Sum256(b)
		out.T("sha "+verifkit.Hex(b), hex.EncodeToString(d[:]))
		out.Count("class:sha-" + class)
	}
	for _, v := range []string{"", "abc", "abcdbcdecdefdefgefghfghighijhijkijkljklmklmnlmnomnopnopq",
		"abcdefghbcdefghicdefghijdefghijkefghijklfghijklmghijklmnhijklmnoijklmnopjklmnopqklmnopqrlmnopqrsmnopqrstnopqrstu"} {
		sha("nist", []byte(v))
	}
	sha("nist", bytes.Repeat([]byte("a"), 1000))
	for n := 0; n <= 300; n++ {
		sha("len0-300", r.Bytes(n))
	}
	for i := 0; i < verifkit.N(40, 400); i++ {
		sha("long", r.Bytes(301+r.Intn(6000)))
	}

	// ---- trees: honest and one fork per size
	maxN := 130
	leaves := make([][]byte, maxN+1)
	forkLeaves := make([][]byte, maxN+1)
	for i := range leaves {
		leaves[i] = r.Bytes(1 + r.Intn(3))
		forkLeaves[i] = leaves[i]
	}
	leafToks := func(ls [][]byte) string {
		s := make([]string, len(ls))
		for i := range ls {
			s[i] = verifkit.Hex(ls[i])
		}
		return strings.Join(s, " ")
	}
	tree := testonly.New(hasher)
	tree.AppendData(leaves...)
	div := 40 + r.Intn(20)
	for i := div; i < len(forkLeaves); i++ {
		forkLeaves[i] = append([]byte{0xff}, leaves[i]...)
	}
	fork := testonly.New(hasher)
	fork.AppendData(forkLeaves...)

	for n := 0; n <= maxN; n++ {
		out.T(fmt.Sprintf("mth %d %s", n, leafToks(leaves[:n])), verifkit.Hex(tree.HashAt(uint64(n))))
		out.Count("class:mth")
	}
	// generators: path / consProof as the RFC defines them vs testonly.Tree
	for n := 1; n <= maxN; n++ {
		ms := []int{0, n - 1, n / 2, r.Intn(n), r.Intn(n)}
		if n <= 20 || verifkit.Thorough() {
			ms = nil
			for m := 0; m < n; m++ {
				ms = append(ms, m)
			}
		}
		for _, m := range ms {
			p, err := tree.InclusionProof(uint64(m), uint64(n))
			if err != nil {
				t.Fatal(err)
			}
			out.T(fmt.Sprintf("path %d %d %s", m, n, leafToks(leaves[:n])), vHexList(p))
			out.Count("class:path")
		}
		for _, m := range append(ms, n) {
			p, err := tree.ConsistencyProof(uint64(m), uint64(n))
			if err != nil {
				t.Fatal(err)
			}
			out.T(fmt.Sprintf("cproof %d %d %s", m, n, leafToks(leaves[:n])), vHexList(p))
			out.Count("class:cproof")
		}
	}

	// ---- verifiers on honest / mutated proofs, all sizes ≤ maxN
	incl := func(class string, m, n uint64, lh []byte, p [][]byte, wantRoot []byte) {
		var ans string
		if pn := verifkit.Guard(func() {
			root, err := proof.RootFromInclusionProof(hasher, m, n, lh, p)
			if err != nil {
				ans = "err"
			} else {
				ans = "ok " + verifkit.Hex(root)
				if wantRoot != nil && class == "honest" && !bytes.Equal(root, wantRoot) {
					out.Fail(fmt.Sprintf("incl honest m=%d n=%d", m, n), "honest inclusion proof does not reproduce the root")
				}
			}
		}); pn != "" {
			ans = "panic"
			out.Fail(fmt.Sprintf("incl m=%d n=%d", m, n), "panic: "+pn)
		}
		out.T(fmt.Sprintf("incl %d %d %s %s", m, n, verifkit.Hex(lh), vProofToks(p)), ans)
		out.Count("class:incl-" + class)
		if strings.HasPrefix(ans, "ok") {
			out.Count("mode:incl-accepted")
		}
	}
	cons := func(class string, m, n uint64, r1, r2 []byte, p [][]byte, honest bool) {
		var ans string
		if pn := verifkit.Guard(func() {
			if err := proof.VerifyConsistency(hasher, m, n, p, r1, r2); err != nil {
				ans = "err"
			} else {
				ans = "ok"
			}
		}); pn != "" {
			ans = "panic"
			out.Fail(fmt.Sprintf("cons m=%d n=%d", m, n), "panic: "+pn)
		}
		if honest && ans != "ok" {
			out.Fail(fmt.Sprintf("cons honest m=%d n=%d", m, n), "honest consistency proof rejected")
		}
		out.T(fmt.Sprintf("cons %d %d %s %s %s", m, n, verifkit.Hex(r1), verifkit.Hex(r2), vProofToks(p)), ans)
		out.Count("class:cons-" + class)
		if ans == "ok" {
			out.Count("mode:cons-accepted")
		}
	}

	for n := 1; n <= maxN; n++ {
		reps := verifkit.N(4, 12)
		if n <= 16 {
			reps = n * 2
		}
		for i := 0; i < reps; i++ {
			m := r.Intn(n)
			if n <= 16 {
				m = i % n
			}
			p, _ := tree.InclusionProof(uint64(m), uint64(n))
			fp, _ := fork.InclusionProof(uint64(m), uint64(n))
			lh := tree.LeafHash(uint64(m))
			incl("honest", uint64(m), uint64(n), lh, p, tree.HashAt(uint64(n)))
			cl, q := vMutateProof(r, p, fp)
			incl(cl, uint64(m), uint64(n), lh, q, nil)
			switch r.Intn(4) {
			case 0:
				incl("wrong-index", uint64(r.Intn(n+2)), uint64(n), lh, p, nil)
			case 1:
				incl("wrong-size", uint64(m), uint64(r.Intn(n+3)), lh, p, nil)
			case 2:
				incl("index>=size", uint64(n+r.Intn(3)), uint64(n), lh, p, nil)
			}
		}
	}
	incl("size0", 0, 0, tree.LeafHash(0), nil, nil)
	for n := 0; n <= maxN; n++ {
		reps := verifkit.N(5, 14)
		for i := 0; i < reps; i++ {
			m := r.Intn(n + 1)
			if n <= 16 {
				m = i % (n + 1)
			}
			p, _ := tree.ConsistencyProof(uint64(m), uint64(n))
			fp, _ := fork.ConsistencyProof(uint64(m), uint64(n))
			r1, r2 := tree.HashAt(uint64(m)), tree.HashAt(uint64(n))
			cons("honest", uint64(m), uint64(n), r1, r2, p, true)
			cl, q := vMutateProof(r, p, fp)
			cons(cl, uint64(m), uint64(n), r1, r2, q, false)
			switch r.Intn(7) {
			case 0:
				cons("forked-new-root", uint64(m), uint64(n), r1, fork.HashAt(uint64(n)), p, false)
			case 1:
				cons("forked-old-root", uint64(m), uint64(n), fork.HashAt(uint64(m)), r2, p, false)
			case 2:
				cons("fork-proof-fork-root", uint64(m), uint64(n), r1, fork.HashAt(uint64(n)), fp, false)
			case 3:
				cons("swapped-roots", uint64(m), uint64(n), r2, r1, p, false)
			case 4:
				cons("swapped-sizes", uint64(n), uint64(m), r1, r2, p, false)
			case 5:
				m2 := r.Intn(n + 1)
				cons("other-sizes", uint64(m2), uint64(n), tree.HashAt(uint64(m2)), r2, p, false)
			case 6:
				cons("old-root-garbage", uint64(m), uint64(n), r.Bytes(32), r2, p, false)
			}
		}
	}

	// ---- sampled larger sizes (to 2^40 and beyond) on a tree of equal leaves: node hashes depend on the level only
	ct := newVConstTree([]byte("x"))
	for i := 0; i < verifkit.N(300, 3000); i++ {
		var n uint64
		switch r.Intn(4) {
		case 0:
			n = uint64(1)<<uint(8+r.Intn(40)) + uint64(r.Intn(3)) - 1
		case 1:
			n = r.U64()>>uint(16+r.Intn(40)) + 2
		case 2:
			n = (r.U64()>>uint(40+r.Intn(16)) + 1) << uint(r.Intn(24))
		default:
			n = uint64(131 + r.Intn(100000))
		}
		if n < 2 {
			n = 2
		}
		m := r.U64() % n
		switch r.Intn(4) {
		case 0:
			m = n - 1 - uint64(r.Intn(2))%n
		case 1:
			m = (uint64(1) << uint(r.Intn(bits.Len64(n)))) % n
		}
		in, err := proof.Inclusion(m, n)
		if err != nil {
			t.Fatal(err)
		}
		p := ct.rehash(in)
		incl("honest", m, n, ct.p[0], p, ct.root(n))
		cl, q := vMutateProof(r, p, nil)
		incl(cl, m, n, ct.p[0], q, nil)
		if m > 0 {
			cn, err := proof.Consistency(m, n)
			if err != nil {
				t.Fatal(err)
			}
			cp := ct.rehash(cn)
			cons("honest", m, n, ct.root(m), ct.root(n), cp, true)
			// all leaves are equal, so many mutations keep a proof valid; the model must agree either way
			cl, q := vMutateProof(r, cp, nil)
			cons(cl, m, n, ct.root(m), ct.root(n), q, false)
			cons("other-sizes", m-1, n, ct.root(m), ct.root(n), cp, false)
		}
		out.Count("class:large-size")
	}
}
