//go:build verif

package witness

// C19 — the witness only ever cosigns a forward-moving, consistent history per log.
//
// Drives the real Witness (sqlite configured as impl.Main configures it) with histories of
// Update / GetSTH / GetLogs over several logs; candidates come from families of honest and forked
// Merkle trees, proofs are correct / for other sizes / from other forks / truncated / padded / random.
// Every call is a trace line replayed by `ctvmodel C19`; independently of the model the harness
// evaluates the property itself on the observed returns and on the stored row (out.Fail).

import (
	"bytes"
	"context"
	"crypto/ecdsa"
	"crypto/ed25519"
	"crypto/elliptic"
	crand "crypto/rand"
	"crypto/rsa"
	"crypto/sha256"
	"crypto/x509"
	"database/sql"
	"encoding/base64"
	"encoding/hex"
	"encoding/json"
	"encoding/pem"
	"fmt"
	"os"
	"path/filepath"
	"sort"
	"strings"
	"sync"
	"testing"

	ct "github.com/google/certificate-transparency-go"
	"github.com/google/certificate-transparency-go/internal/verifkit"
	"github.com/google/certificate-transparency-go/internal/witness/api"
	"github.com/google/certificate-transparency-go/internal/witness/verifier"
	"github.com/google/certificate-transparency-go/tls"
	_ "github.com/mattn/go-sqlite3"
	"github.com/transparency-dev/merkle/rfc6962"
	"github.com/transparency-dev/merkle/testonly"
	"google.golang.org/grpc/codes"
	"google.golang.org/grpc/status"
)

// ---------------------------------------------------------------- world: logs, keys, tree families

type vwFork struct {
	tree *testonly.Tree
	div  int // leaves [0,div) are shared with fork 0 (fork 0: div = max)
}

type vwLog struct {
	id     string // key in Witness.Logs
	idHash []byte // decoded ID (nil if the configured string is not base64 of 32 bytes)
	key    *ecdsa.PrivateKey
	forks  []*vwFork
	real   bool // a log with trees (the bogus-ID entries have none)
}

type vwWorld struct {
	logs     []*vwLog // configured, sorted by id
	unknown  []string // IDs that are not configured
	maxN     int
	aliases  []vwAlias
	wKeyPEM  string
	wKind    string // witness key: p256 | rsa | ed25519 (New accepts it, tls.CreateSignature cannot use it)
	canSign  bool
	wVerify  *verifier.WitnessVerifier
	sigTok   map[string]int
	rawTok   map[string]int
	signed   map[string]ct.DigitallySigned
	otherKey *ecdsa.PrivateKey
}

type vwAlias struct {
	id  string
	log *vwLog
}

func vwGenKey() *ecdsa.PrivateKey {
	k, err := ecdsa.GenerateKey(elliptic.P256(), crand.Reader)
	if err != nil {
		panic(err)
	}
	return k
}

func vwLogID(k *ecdsa.PrivateKey) (string, []byte) {
	der, err := x509.MarshalPKIXPublicKey(&k.PublicKey)
	if err != nil {
		panic(err)
	}
	h := sha256.Sum256(der)
	return base64.StdEncoding.EncodeToString(h[:]), h[:]
}

func newVWWorld(r *verifkit.Rand, nLogs, maxN int, kind string) *vwWorld {
	w := &vwWorld{wKind: kind, canSign: kind != "ed25519", maxN: maxN, sigTok: map[string]int{}, rawTok: map[string]int{}, signed: map[string]ct.DigitallySigned{}}
	for i := 0; i < nLogs; i++ {
		k := vwGenKey()
		id, h := vwLogID(k)
		for try := 0; try < 16 && !strings.ContainsAny(id, "+/"); try++ { // so that the ID has a URL-safe spelling that differs
			k = vwGenKey()
			id, h = vwLogID(k)
		}
		l := &vwLog{id: id, idHash: h, key: k, real: true}
		leaves := make([][]byte, maxN)
		for j := range leaves {
			leaves[j] = r.Bytes(1 + r.Intn(8))
		}
		nf := 2 + r.Intn(3)
		for f := 0; f < nf; f++ {
			fl := make([][]byte, maxN)
			copy(fl, leaves)
			div := maxN
			if f > 0 {
				div = r.Intn(maxN)
				if r.Intn(4) == 0 {
					div = r.Intn(3) // forks very early
				}
				for j := div; j < maxN; j++ {
					fl[j] = append([]byte{byte(f)}, r.Bytes(4)...)
				}
			}
			t := testonly.New(rfc6962.DefaultHasher)
			t.AppendData(fl...)
			l.forks = append(l.forks, &vwFork{tree: t, div: div})
		}
		w.logs = append(w.logs, l)
	}
	// configured entries whose ID string does not decode to 32 bytes (parse must refuse everything for them)
	w.logs = append(w.logs, &vwLog{id: "not-base64-!!", key: w.logs[0].key, forks: w.logs[0].forks})
	w.logs = append(w.logs, &vwLog{id: base64.StdEncoding.EncodeToString([]byte("short-id")), key: w.logs[0].key, forks: w.logs[0].forks})
	sort.Slice(w.logs, func(i, j int) bool { return w.logs[i].id < w.logs[j].id })
	uk := vwGenKey()
	uid, _ := vwLogID(uk)
	w.unknown = []string{uid, "garbage", "", "a b"}
	// other spellings of CONFIGURED log IDs that Go's non-strict base64 decodes to the same 32 bytes: non-zero padding bits
	// in the last sextet, a trailing newline. They are not keys of Witness.Logs: the log is unknown under that name.
	const b64 = "ABCDEFGHIJKLMNOPQRSTUVWXYZabcdefghijklmnopqrstuvwxyz0123456789+/"
	for _, l := range w.logs {
		if !l.real || len(l.id) != 44 {
			continue
		}
		i := strings.IndexByte(b64, l.id[42])
		w.aliases = append(w.aliases, vwAlias{l.id[:42] + string(b64[i|1+r.Intn(2)*2]) + "=", l}, vwAlias{l.id + "\n", l})
		// the URL-safe alphabet ('-' for '+', '_' for '/'): not base64.StdEncoding, so not even decodable as a log ID
		if u := strings.NewReplacer("+", "-", "/", "_").Replace(l.id); u != l.id {
			w.aliases = append(w.aliases, vwAlias{u, l}, vwAlias{strings.TrimRight(u, "="), l})
		}
	}
	w.otherKey = uk
	var priv, pub interface{}
	switch kind {
	case "rsa":
		vwRSAOnce.Do(func() {
			var err error
			if vwRSAKey, err = rsa.GenerateKey(crand.Reader, 2048); err != nil {
				panic(err)
			}
		})
		priv, pub = vwRSAKey, &vwRSAKey.PublicKey
	case "ed25519":
		p, s, err := ed25519.GenerateKey(crand.Reader)
		if err != nil {
			panic(err)
		}
		priv, pub = s, p
	default:
		wk := vwGenKey()
		priv, pub = wk, &wk.PublicKey
	}
	der, err := x509.MarshalPKCS8PrivateKey(priv)
	if err != nil {
		panic(err)
	}
	w.wKeyPEM = string(pem.EncodeToMemory(&pem.Block{Type: "PRIVATE KEY", Bytes: der}))
	if w.canSign {
		wv, err := verifier.NewWitnessVerifier(pub)
		if err != nil {
			panic(err)
		}
		w.wVerify = wv
	}
	return w
}

var (
	vwRSAOnce sync.Once
	vwRSAKey  *rsa.PrivateKey
)

func (w *vwWorld) realLogs() []*vwLog {
	var ls []*vwLog
	for _, l := range w.logs {
		if l.real {
			ls = append(ls, l)
		}
	}
	return ls
}

func (w *vwWorld) tok(m map[string]int, prefix string, b []byte) string {
	if v, ok := m[string(b)]; ok {
		return fmt.Sprintf("%s%d", prefix, v)
	}
	m[string(b)] = len(m) + 1
	return fmt.Sprintf("%s%d", prefix, len(m))
}

func vwID(id string) string { return verifkit.Hex([]byte(id)) }

// ---------------------------------------------------------------- candidates

type vwCand struct {
	garbage  bool   // body does not decode to a SignedTreeHead
	src      *vwLog // whose trees / key produced it
	fork     int    // -1: root is not the root of any tree of the family
	size     uint64
	ts       uint64
	root     []byte
	idField  []byte // nil = absent / zero
	sig      ct.DigitallySigned
	signedBy *ecdsa.PrivateKey // nil = no valid signature over exactly (ts,size,root), version 0
	raw      []byte
	desc     string
}

func (w *vwWorld) sign(k *ecdsa.PrivateKey, size, ts uint64, root []byte) ct.DigitallySigned {
	key := fmt.Sprintf("%p %d %d %x", k, size, ts, root)
	if s, ok := w.signed[key]; ok {
		return s
	}
	sth := ct.SignedTreeHead{Version: ct.V1, TreeSize: size, Timestamp: ts}
	copy(sth.SHA256RootHash[:], root)
	in, err := ct.SerializeSTHSignatureInput(sth)
	if err != nil {
		panic(err)
	}
	ds, err := tls.CreateSignature(*k, tls.SHA256, in)
	if err != nil {
		panic(err)
	}
	w.signed[key] = ct.DigitallySigned(ds)
	return ct.DigitallySigned(ds)
}

// mkCand builds a candidate STH for a tree head of `src`; sigMode / idMode / jsonMode select the defects.
func (w *vwWorld) mkCand(r *verifkit.Rand, src *vwLog, target *vwLog, fork int, size uint64, tsVariant int, sigMode, idMode, jsonMode string) *vwCand {
	c := &vwCand{src: src, fork: fork, size: size}
	c.root = src.forks[fork].tree.HashAt(size)
	c.ts = size*1000 + uint64(fork)*10 + uint64(tsVariant)
	signer := src.key
	version := 0
	switch sigMode {
	case "good":
	case "garbage-root": // validly signed by the log, but the root is not the root of any tree
		c.root = r.Bytes(32)
		c.fork = -1
	case "otherkey":
		signer = w.otherKey
	}
	c.sig = w.sign(signer, c.size, c.ts, c.root)
	c.signedBy = signer
	switch sigMode {
	case "corrupt":
		s := append([]byte(nil), c.sig.Signature...)
		s[len(s)-1-r.Intn(8)] ^= 0x01 << uint(r.Intn(8))
		c.sig.Signature = s
		c.signedBy = nil
	case "tamper-root":
		c.root = append([]byte(nil), c.root...)
		c.root[r.Intn(32)] ^= 0x80
		c.fork = -1
		c.signedBy = nil
	case "tamper-size":
		c.size++
		c.signedBy = nil
	case "tamper-ts":
		c.ts++
		c.signedBy = nil
	case "version1":
		version = 1
		c.signedBy = nil
	case "nosig":
		c.sig = ct.DigitallySigned{}
		c.signedBy = nil
	}
	switch idMode {
	case "absent":
	case "zero":
	case "correct":
		c.idField = target.idHash
	case "wrong":
		c.idField = r.Bytes(32)
	case "source":
		c.idField = src.idHash
	}
	// raw JSON, written by hand so that field presence, order and spacing are under control
	sigB64 := ""
	if sigMode != "nosig" {
		var err error
		if sigB64, err = c.sig.Base64String(); err != nil {
			panic(err)
		}
	}
	fields := []string{
		fmt.Sprintf(`"tree_size":%d`, c.size),
		fmt.Sprintf(`"timestamp":%d`, c.ts),
		fmt.Sprintf(`"sha256_root_hash":"%s"`, base64.StdEncoding.EncodeToString(c.root)),
	}
	if sigMode != "nosig" {
		fields = append(fields, fmt.Sprintf(`"tree_head_signature":"%s"`, sigB64))
	}
	if version != 0 {
		fields = append(fields, fmt.Sprintf(`"sth_version":%d`, version))
	}
	if idMode == "zero" {
		fields = append(fields, fmt.Sprintf(`"log_id":"%s"`, base64.StdEncoding.EncodeToString(make([]byte, 32))))
	} else if c.idField != nil {
		fields = append(fields, fmt.Sprintf(`"log_id":"%s"`, base64.StdEncoding.EncodeToString(c.idField)))
	}
	sep := ","
	switch jsonMode {
	case "plain":
	case "spaced":
		sep = " ,\n  "
	case "extra":
		fields = append(fields, `"unknown_field":[1,2,{"a":null}]`)
	case "reordered":
		for i := len(fields) - 1; i > 0; i-- {
			j := r.Intn(i + 1)
			fields[i], fields[j] = fields[j], fields[i]
		}
	}
	c.raw = []byte("{" + strings.Join(fields, sep) + "}")
	switch jsonMode {
	case "truncated":
		c.raw = c.raw[:len(c.raw)-1-r.Intn(len(c.raw)-1)]
		c.garbage = true
	case "notjson":
		c.raw = []byte("tree_size=5")
		c.garbage = true
	case "empty":
		c.raw = nil
		c.garbage = true
	case "wrongtype":
		c.raw = []byte(`{"tree_size":"` + fmt.Sprint(c.size) + `","timestamp":0}`)
		c.garbage = true
	case "badroot":
		c.raw = []byte(fmt.Sprintf(`{"tree_size":%d,"timestamp":%d,"sha256_root_hash":"AAEC","tree_head_signature":"%s"}`, c.size, c.ts, sigB64))
		c.garbage = true
	case "array":
		c.raw = []byte(`[1,2,3]`)
		c.garbage = true
	}
	c.desc = fmt.Sprintf("src=%s fork=%d size=%d ts=%d sig=%s id=%s json=%s", src.id[:6], c.fork, c.size, c.ts, sigMode, idMode, jsonMode)
	return c
}

// valid: ground truth — would a correct parse() accept this candidate for `target`?
func (c *vwCand) valid(target *vwLog, known bool) bool {
	if !known || c.garbage || target.idHash == nil {
		return false
	}
	if c.idField != nil && !bytes.Equal(c.idField, target.idHash) {
		return false
	}
	return c.signedBy != nil && c.signedBy == target.key
}

func (w *vwWorld) candToks(c *vwCand, target *vwLog, known bool) string {
	if c.garbage {
		return "g"
	}
	sigOK := known && c.signedBy != nil && target != nil && c.signedBy == target.key
	sb, _ := tls.Marshal(tls.DigitallySigned(c.sig))
	return fmt.Sprintf("s %d %d %s %s %s %s %s", c.size, c.ts, verifkit.Hex(c.root), verifkit.Hex(c.idField),
		w.tok(w.sigTok, "s", sb), verifkit.B(sigOK), w.tok(w.rawTok, "r", c.raw))
}

// ---------------------------------------------------------------- one witness instance + the harness-side oracle

type vwInst struct {
	w     *vwWorld
	wit   *Witness
	db    *sql.DB
	held  map[string]*vwCand // harness' own record of what each log's row must hold
	byRaw map[string]*vwCand // every candidate submitted so far, by raw bytes (to resynchronise after a failure)
	out   *verifkit.Out
	name  string
	nOps  int
}

func (w *vwWorld) newInst(t *testing.T, out *verifkit.Out, dsn, name string) *vwInst {
	db, err := sql.Open("sqlite3", dsn)
	if err != nil {
		t.Fatal(err)
	}
	db.SetMaxOpenConns(1) // as impl.Main does
	logs := map[string]ct.SignatureVerifier{}
	for _, l := range w.logs {
		sv, err := ct.NewSignatureVerifier(&l.key.PublicKey)
		if err != nil {
			t.Fatal(err)
		}
		logs[l.id] = *sv
	}
	wit, err := New(Opts{DB: db, PrivKey: w.wKeyPEM, KnownLogs: logs})
	if err != nil {
		// a witness that refuses a configuration containing entries whose ID string is not base64 of 32 bytes: go on with the
		// decodable ones, so that the histories and their oracles still run (the property is about those)
		out.Count("mode:new-refused-undecodable-log-ids")
		w.logs = w.realLogs()
		logs = map[string]ct.SignatureVerifier{}
		for _, l := range w.logs {
			sv, _ := ct.NewSignatureVerifier(&l.key.PublicKey)
			logs[l.id] = *sv
		}
		if wit, err = New(Opts{DB: db, PrivKey: w.wKeyPEM, KnownLogs: logs}); err != nil {
			t.Fatal(err)
		}
	}
	var b strings.Builder
	if w.canSign {
		fmt.Fprintf(&b, "new %d", len(w.logs))
	} else {
		fmt.Fprintf(&b, "newx %d", len(w.logs)) // a witness whose signSTH always fails
	}
	for _, l := range w.logs {
		h := "x"
		if l.idHash != nil {
			h = verifkit.Hex(l.idHash)
		}
		fmt.Fprintf(&b, " %s %s", vwID(l.id), h)
	}
	out.T(b.String(), "ok")
	return &vwInst{w: w, wit: wit, db: db, held: map[string]*vwCand{}, byRaw: map[string]*vwCand{}, out: out, name: name}
}

// resync makes the bookkeeping follow the stored row (only after a failure has been reported).
func (in *vwInst) resync(id string) {
	raw := in.stored(id)
	if raw == nil {
		delete(in.held, id)
	} else if c := in.byRaw[string(raw)]; c != nil {
		in.held[id] = c
	}
}

func (in *vwInst) stored(id string) []byte {
	raw, err := in.wit.getLatestSTH(in.db.QueryRow, id)
	if err != nil {
		return nil
	}
	return raw
}

// canonical answer of Update / GetSTH
func (in *vwInst) canon(reply []byte, err error, key string) string {
	if err != nil && len(reply) == 0 {
		if status.Code(err) == codes.NotFound {
			return "err nf"
		}
		return "err x"
	}
	var cs api.CosignedSTH
	if jerr := json.Unmarshal(reply, &cs); jerr != nil {
		in.out.Fail(key, "reply is not a JSON (co)signed tree head: "+jerr.Error())
		return "weird"
	}
	if len(cs.WitnessSigs) > 0 {
		if err != nil {
			in.out.Fail(key, "a cosigned STH was returned together with an error: "+err.Error())
		}
		// cosig_verifies, on the implementation's output
		if verr := in.w.wVerify.VerifySignature(cs); verr != nil {
			in.out.Fail(key, "cosignature does not verify under the witness key: "+verr.Error())
		}
		if len(cs.WitnessSigs) != 1 {
			in.out.Fail(key, fmt.Sprintf("%d witness signatures", len(cs.WitnessSigs)))
		}
		// the cosignature is over tls.Marshal of exactly the STH it accompanies: the model's `cosigInput` must give the same
		// bytes, and the witness signature must verify over them
		if in.w.canSign {
			signedBytes, merr := tls.Marshal(cs.SignedTreeHead)
			if merr != nil {
				in.out.Fail(key, "tls.Marshal of the returned STH: "+merr.Error())
			} else {
				if verr := in.w.wVerify.SigVerifier.VerifySignature(signedBytes, tls.DigitallySigned(cs.WitnessSigs[0])); verr != nil {
					in.out.Fail(key, "cosig_verifies: the witness signature does not verify over tls.Marshal of the STH it accompanies")
				}
				in.out.T(fmt.Sprintf("cosin %d %d %d %s %d %d %s %s", cs.Version, cs.TreeSize, cs.Timestamp, verifkit.Hex(cs.SHA256RootHash[:]),
					cs.TreeHeadSignature.Algorithm.Hash, cs.TreeHeadSignature.Algorithm.Signature, verifkit.Hex(cs.TreeHeadSignature.Signature), verifkit.Hex(cs.LogID[:])),
					verifkit.Hex(signedBytes))
				in.out.Count("class:cosig-input")
			}
		}
		sb, _ := tls.Marshal(tls.DigitallySigned(cs.TreeHeadSignature))
		return fmt.Sprintf("cosig %d %d %s %s %s", cs.TreeSize, cs.Timestamp, verifkit.Hex(cs.SHA256RootHash[:]), verifkit.Hex(cs.LogID[:]),
			in.w.tok(in.w.sigTok, "s", sb))
	}
	e := "N"
	if err != nil {
		e = "E"
		if status.Code(err) != codes.FailedPrecondition {
			in.out.Fail(key, "held STH returned with an error that is not FailedPrecondition: "+err.Error())
		}
	}
	return fmt.Sprintf("held %s %d %s %s", in.w.tok(in.w.rawTok, "r", reply), cs.TreeSize, verifkit.Hex(cs.SHA256RootHash[:]), e)
}

// extends: ground truth from the tree family — is (fork,size,root) of c a genuine extension of prev?
func vwExtends(prev, c *vwCand) bool {
	if c.size < prev.size {
		return false
	}
	if prev.size == 0 {
		return true // every tree extends the empty tree
	}
	if c.fork < 0 || c.src == nil {
		return false
	}
	if prev.size > c.src.forks[c.fork].tree.Size() {
		return false
	}
	return bytes.Equal(c.src.forks[c.fork].tree.HashAt(prev.size), prev.root)
}

// checkUpdate is the property evaluated on the implementation's observable behaviour for one Update.
func (in *vwInst) checkUpdate(key string, id string, target *vwLog, known bool, c *vwCand, before []byte, prev *vwCand, reply []byte, err error, after []byte, ans string) (accepted bool) {
	out := in.out
	accepted = strings.HasPrefix(ans, "cosig")
	changed := !bytes.Equal(before, after)
	valid := target != nil && c.valid(target, known)
	if accepted {
		out.Count("mode:accepted")
		if !known {
			out.Fail(key, fmt.Sprintf("stored_signed: an Update addressed to log ID %q, which is not a key of the configured logs, was stored and cosigned (%s)", id, c.desc))
		} else if !valid {
			out.Fail(key, "stored_signed: cosigned an STH that does not carry a valid signature of the configured log ("+c.desc+")")
		}
		if !bytes.Equal(after, c.raw) {
			out.Fail(key, "accepted update but the stored row is not the submitted STH")
		}
		// the cosigned STH is the submitted one, with the log ID filled in
		var cs api.CosignedSTH
		_ = json.Unmarshal(reply, &cs)
		if cs.TreeSize != c.size || cs.Timestamp != c.ts || !bytes.Equal(cs.SHA256RootHash[:], c.root) || (target != nil && !bytes.Equal(cs.LogID[:], target.idHash)) {
			out.Fail(key, "cosigned STH differs from the submitted one")
		}
		if prev != nil {
			if c.size < prev.size {
				out.Fail(key, fmt.Sprintf("monotone: held STH shrank %d -> %d", prev.size, c.size))
			} else if c.size == prev.size {
				if !bytes.Equal(c.root, prev.root) {
					out.Fail(key, "monotone: equal size, different root accepted")
				}
			} else if !vwExtends(prev, c) {
				out.Fail(key, fmt.Sprintf("monotone: accepted %s over held size=%d fork=%d, not an extension", c.desc, prev.size, prev.fork))
			}
		}
	} else {
		out.Count("mode:refused")
		if changed {
			out.Fail(key, "refused_unchanged: the update was refused but the stored row changed")
		}
		if valid && prev != nil {
			// stale / inconsistent / bad proof: answered with the held STH and FailedPrecondition,
			// except the resubmission of the same head (no error)
			same := c.size == prev.size && bytes.Equal(c.root, prev.root)
			if !bytes.Equal(reply, before) {
				out.Fail(key, "refused (stale/inconsistent) but the reply is not the currently held STH")
			}
			if same && err != nil {
				out.Fail(key, "resubmission of the held head answered with an error: "+err.Error())
			}
			if !same && status.Code(err) != codes.FailedPrecondition {
				out.Fail(key, fmt.Sprintf("refused (stale/inconsistent) with code %v", status.Code(err)))
			}
		}
		if !valid && len(reply) != 0 {
			out.Fail(key, "an invalid STH was answered with a body")
		}
	}
	if changed && !accepted {
		out.Fail(key, "store changed without a cosigned reply")
	}
	return accepted
}

func (in *vwInst) update(id string, target *vwLog, known bool, c *vwCand, pf [][]byte, class string) {
	in.nOps++
	key := fmt.Sprintf("%s op%d upd %s [%s]", in.name, in.nOps, class, c.desc)
	in.byRaw[string(c.raw)] = c
	before := in.stored(id)
	prev := in.held[id]
	if (prev == nil) != (before == nil) || (prev != nil && !bytes.Equal(prev.raw, before)) {
		in.out.Fail(key, "harness bookkeeping and stored row disagree before the call")
		in.resync(id)
		prev = in.held[id]
	}
	var reply []byte
	var err error
	if p := verifkit.Guard(func() { reply, err = in.wit.Update(context.Background(), id, c.raw, pf) }); p != "" {
		in.out.Fail(key, "panic: "+p)
		in.out.T(fmt.Sprintf("upd %s %s %s", vwID(id), in.w.candToks(c, target, known), vProofToks(pf)), "panic")
		return
	}
	ans := in.canon(reply, err, key)
	after := in.stored(id)
	in.out.T(fmt.Sprintf("upd %s %s %s", vwID(id), in.w.candToks(c, target, known), vProofToks(pf)), ans)
	in.out.Count("class:" + class)
	if !in.w.canSign && strings.HasPrefix(ans, "err") && target != nil && c.valid(target, known) {
		// a valid STH is answered with a bodyless error only when signSTH failed: the update is refused, so the
		// row must be unchanged (refused_unchanged). It is not, while Update commits before it signs.
		in.out.Count("mode:sign-failure")
		if !bytes.Equal(before, after) {
			in.out.Fail(fmt.Sprintf("%s op%d commit-before-sign %s", in.name, in.nOps, class),
				"refused_unchanged: Update answered with an error ("+fmt.Sprint(err)+") but the stored row was replaced by the submitted STH ("+c.desc+")")
			if !bytes.Equal(after, c.raw) {
				in.out.Fail(key, "after a failed signature the row is neither the old nor the submitted STH")
			}
			if prev != nil && (c.size <= prev.size || !vwExtends(prev, c)) {
				in.out.Fail(key, "monotone: the row written before the failed signature is not an extension of the held head")
			}
			in.held[id] = c
		}
		return
	}
	if in.checkUpdate(key, id, target, known, c, before, prev, reply, err, after, ans) {
		in.held[id] = c
	}
	if h := in.held[id]; (h == nil) != (after == nil) || (h != nil && !bytes.Equal(h.raw, after)) {
		in.resync(id) // a failure has been reported above
	}
}

func (in *vwInst) get(id string) {
	in.nOps++
	key := fmt.Sprintf("%s op%d get", in.name, in.nOps)
	var reply []byte
	var err error
	if p := verifkit.Guard(func() { reply, err = in.wit.GetSTH(id) }); p != "" {
		in.out.Fail(key, "panic: "+p)
	}
	ans := in.canon(reply, err, key)
	in.out.T("get "+vwID(id), ans)
	in.out.Count("class:get")
	if h := in.held[id]; h != nil && !in.w.canSign {
		if ans != "err x" {
			in.out.Fail(key, "GetSTH of a witness that cannot sign: "+ans)
		}
	} else if h != nil {
		if !strings.HasPrefix(ans, "cosig") {
			in.out.Fail(key, "GetSTH does not return the held STH: "+ans)
		} else {
			var cs api.CosignedSTH
			_ = json.Unmarshal(reply, &cs)
			if cs.TreeSize != h.size || !bytes.Equal(cs.SHA256RootHash[:], h.root) || cs.Timestamp != h.ts {
				in.out.Fail(key, "GetSTH returned a different head than the one held")
			}
		}
	} else if ans != "err nf" {
		in.out.Fail(key, "GetSTH for a log without a row: "+ans)
	}
}

func (in *vwInst) getLogs() {
	in.nOps++
	key := fmt.Sprintf("%s op%d logs", in.name, in.nOps)
	logs, err := in.wit.GetLogs()
	if err != nil {
		in.out.Fail(key, "GetLogs: "+err.Error())
	}
	sort.Strings(logs)
	toks := []string{"logs", fmt.Sprint(len(logs))}
	for _, l := range logs {
		toks = append(toks, vwID(l))
	}
	in.out.T("logs", strings.Join(toks, " "))
	in.out.Count("class:logs")
	var want []string
	for id := range in.held {
		want = append(want, id)
	}
	sort.Strings(want)
	if strings.Join(want, ",") != strings.Join(logs, ",") {
		in.out.Fail(key, fmt.Sprintf("GetLogs = %v, rows expected for %v", logs, want))
	}
}

// ---------------------------------------------------------------- generators

var vwSigModes = []string{"otherkey", "corrupt", "tamper-root", "tamper-size", "tamper-ts", "version1", "nosig"}
var vwJSONBad = []string{"truncated", "notjson", "empty", "wrongtype", "badroot", "array"}
var vwJSONGood = []string{"plain", "plain", "plain", "spaced", "extra", "reordered"}
var vwIDGood = []string{"absent", "absent", "correct", "zero"}

// compatible forks: those that share at least the first `size` leaves with fork f
func vwCompatible(l *vwLog, f int, size uint64) []int {
	var res []int
	for g, fk := range l.forks {
		if g == f {
			res = append(res, g)
			continue
		}
		common := fk.div
		if f > 0 && l.forks[f].div < common {
			common = l.forks[f].div
		}
		if uint64(common) >= size {
			res = append(res, g)
		}
	}
	return res
}

func (in *vwInst) genProof(r *verifkit.Rand, l *vwLog, prev *vwCand, c *vwCand, mode string) (string, [][]byte) {
	if prev == nil || c.fork < 0 {
		if r.Intn(3) == 0 {
			return "proof-random", [][]byte{r.Bytes(32)}
		}
		return "proof-none", nil
	}
	tr := c.src.forks[c.fork].tree
	honest := func(t *testonly.Tree, m, n uint64) [][]byte {
		if m > n || n > t.Size() {
			return nil
		}
		p, err := t.ConsistencyProof(m, n)
		if err != nil {
			return nil
		}
		return p
	}
	p := honest(tr, prev.size, c.size)
	switch mode {
	case "honest":
		return "proof-honest", p
	case "other-sizes":
		m := uint64(r.Intn(int(c.size) + 1))
		n := m + uint64(r.Intn(in.w.maxN-int(m)+1))
		return "proof-other-sizes", honest(tr, m, n)
	case "other-fork":
		g := r.Intn(len(l.forks))
		return "proof-other-fork", honest(l.forks[g].tree, prev.size, c.size)
	case "wronglen":
		q := vClone(p)
		if len(q) > 0 {
			i := r.Intn(len(q))
			if r.Bool() {
				q[i] = q[i][:31]
			} else {
				q[i] = append(q[i], 0)
			}
		}
		return "proof-wronglen", q
	case "empty":
		return "proof-empty", nil
	default:
		var other [][]byte
		if g := r.Intn(len(l.forks)); g != c.fork {
			other = honest(l.forks[g].tree, prev.size, c.size)
		}
		cl, q := vMutateProof(r, p, other)
		return "proof-" + cl, q
	}
}

// step performs one randomly chosen operation on the instance.
func (in *vwInst) step(r *verifkit.Rand) {
	w := in.w
	reals := w.realLogs()
	x := r.Intn(100)
	switch {
	case x < 8:
		ids := append([]string{}, w.unknown...)
		for _, a := range w.aliases {
			ids = append(ids, a.id)
		}
		for _, l := range w.logs {
			ids = append(ids, l.id)
		}
		in.get(ids[r.Intn(len(ids))])
		return
	case x < 12:
		in.getLogs()
		return
	case x < 18: // unknown / undecodable log IDs
		src := reals[r.Intn(len(reals))]
		c := w.mkCand(r, src, src, 0, uint64(r.Intn(w.maxN+1)), 0, "good", "absent", "plain")
		if k := r.Intn(3); k == 0 {
			id := w.unknown[r.Intn(len(w.unknown))]
			in.update(id, nil, false, c, nil, "unknown-log")
		} else if k == 1 && len(w.aliases) > 0 {
			// a validly signed head of a configured log, addressed by another base64 spelling of its ID: fresh, stale or forked
			a := w.aliases[r.Intn(len(w.aliases))]
			size := uint64(r.Intn(w.maxN + 1))
			if h := in.held[a.log.id]; h != nil && h.size > 0 && r.Bool() {
				size = uint64(r.Intn(int(h.size))) // smaller than what is held under the configured spelling
			}
			ca := w.mkCand(r, a.log, a.log, r.Intn(len(a.log.forks)), size, 0, "good", []string{"absent", "correct"}[r.Intn(2)], "plain")
			in.update(a.id, nil, false, ca, nil, "alias-of-configured-log-id")
			// per log-ID *hash*: whatever spelling was used, the heads the witness holds and cosigns for one log must be one
			// forward-moving, consistent history
			if got, main := in.held[a.id], in.held[a.log.id]; got != nil && main != nil {
				lo, hi := got, main
				if lo.size > hi.size {
					lo, hi = hi, lo
				}
				if !vwExtends(lo, hi) || (lo.size == hi.size && !bytes.Equal(lo.root, hi.root)) {
					in.out.Fail(fmt.Sprintf("%s op%d alias-of-configured-log-id %q", in.name, in.nOps, a.id),
						fmt.Sprintf("monotone (per log-ID hash): under the spelling %q of log %q the witness holds and cosigns size=%d fork=%d while it holds size=%d fork=%d under the configured spelling — two inconsistent histories for one log", a.id, a.log.id, got.size, got.fork, main.size, main.fork))
				}
			}
		} else {
			var bogus []*vwLog
			for _, l := range w.logs {
				if !l.real {
					bogus = append(bogus, l)
				}
			}
			if len(bogus) == 0 {
				in.update(w.unknown[r.Intn(len(w.unknown))], nil, false, c, nil, "unknown-log")
				return
			}
			l := bogus[r.Intn(len(bogus))]
			in.update(l.id, l, true, c, nil, "undecodable-log-id")
		}
		return
	}
	l := reals[r.Intn(len(reals))]
	prev := in.held[l.id]
	// defects of the STH itself
	if x < 32 {
		src := l
		sigMode, idMode, jsonMode := "good", vwIDGood[r.Intn(len(vwIDGood))], vwJSONGood[r.Intn(len(vwJSONGood))]
		class := ""
		switch r.Intn(5) {
		case 0:
			sigMode = vwSigModes[r.Intn(len(vwSigModes))]
			class = "sth-badsig-" + sigMode
		case 1:
			idMode = "wrong"
			class = "sth-wrong-id"
		case 2:
			jsonMode = vwJSONBad[r.Intn(len(vwJSONBad))]
			class = "sth-badjson-" + jsonMode
		case 3: // another configured log's STH under this log's ID
			for src == l {
				src = reals[r.Intn(len(reals))]
			}
			if r.Bool() {
				idMode = "source"
			}
			class = "sth-of-other-log"
		default: // validly signed, but the root belongs to no tree
			sigMode = "garbage-root"
			class = "sth-signed-garbage-root"
		}
		size := uint64(r.Intn(w.maxN + 1))
		if prev != nil && r.Intn(3) > 0 {
			size = prev.size + uint64(r.Intn(w.maxN-int(prev.size)+1))
		}
		fork := r.Intn(len(src.forks))
		c := w.mkCand(r, src, l, fork, size, 0, sigMode, idMode, jsonMode)
		_, pf := in.genProof(r, l, prev, c, "honest")
		in.update(l.id, l, true, c, pf, class)
		return
	}
	idMode, jsonMode := vwIDGood[r.Intn(len(vwIDGood))], vwJSONGood[r.Intn(len(vwJSONGood))]
	if prev == nil {
		size := uint64(r.Intn(w.maxN + 1))
		if r.Intn(6) == 0 {
			size = uint64(r.Intn(3))
		}
		c := w.mkCand(r, l, l, r.Intn(len(l.forks)), size, 0, "good", idMode, jsonMode)
		cl, pf := in.genProof(r, l, nil, c, "")
		in.update(l.id, l, true, c, pf, "tofu/"+cl)
		return
	}
	y := r.Intn(100)
	pfork := prev.fork
	if pfork < 0 {
		pfork = 0
	}
	switch {
	case y < 55: // forward along a compatible fork, honest proof
		if int(prev.size) >= w.maxN {
			in.get(l.id)
			return
		}
		fs := vwCompatible(l, pfork, prev.size)
		f := fs[r.Intn(len(fs))]
		step := 1 + r.Intn(w.maxN-int(prev.size))
		if r.Intn(3) > 0 {
			step = 1 + r.Intn(3)
			if int(prev.size)+step > w.maxN {
				step = 1
			}
		}
		c := w.mkCand(r, l, l, f, prev.size+uint64(step), 0, "good", idMode, jsonMode)
		cl, pf := in.genProof(r, l, prev, c, "honest")
		in.update(l.id, l, true, c, pf, "forward/"+cl)
	case y < 68: // forward, defective proof
		if int(prev.size) >= w.maxN {
			in.get(l.id)
			return
		}
		fs := vwCompatible(l, pfork, prev.size)
		f := fs[r.Intn(len(fs))]
		c := w.mkCand(r, l, l, f, prev.size+1+uint64(r.Intn(w.maxN-int(prev.size))), 0, "good", idMode, jsonMode)
		mode := []string{"other-sizes", "other-fork", "wronglen", "empty", "mut", "mut", "mut"}[r.Intn(7)]
		cl, pf := in.genProof(r, l, prev, c, mode)
		in.update(l.id, l, true, c, pf, "forward/"+cl)
	case y < 76: // forward to an arbitrary (often incompatible) fork with that fork's own proof
		if int(prev.size) >= w.maxN {
			in.get(l.id)
			return
		}
		f := r.Intn(len(l.forks))
		c := w.mkCand(r, l, l, f, prev.size+1+uint64(r.Intn(w.maxN-int(prev.size))), 0, "good", idMode, jsonMode)
		cl, pf := in.genProof(r, l, prev, c, "honest")
		in.update(l.id, l, true, c, pf, "forward-anyfork/"+cl)
	case y < 88: // equal size: identical bytes / re-signed with another timestamp / another fork's root
		f := pfork
		tsv := 0
		class := "equal-identical"
		switch r.Intn(3) {
		case 1:
			tsv = 1 + r.Intn(5)
			class = "equal-resigned"
		case 2:
			f = r.Intn(len(l.forks))
			class = "equal-anyfork"
		}
		var c *vwCand
		if class == "equal-identical" {
			c = prev
		} else {
			c = w.mkCand(r, l, l, f, prev.size, tsv, "good", idMode, jsonMode)
		}
		cl, pf := in.genProof(r, l, prev, c, []string{"honest", "empty", "mut"}[r.Intn(3)])
		in.update(l.id, l, true, c, pf, class+"/"+cl)
	default: // stale
		if prev.size == 0 {
			in.get(l.id)
			return
		}
		size := uint64(r.Intn(int(prev.size)))
		f := r.Intn(len(l.forks))
		c := w.mkCand(r, l, l, f, size, 0, "good", idMode, jsonMode)
		// a proof in the other direction (from the candidate up to the held head) must not help either
		var pf [][]byte
		if prev.fork >= 0 && r.Bool() {
			pf, _ = l.forks[prev.fork].tree.ConsistencyProof(size, prev.size)
		}
		in.update(l.id, l, true, c, pf, "stale")
	}
}

// ---------------------------------------------------------------- concurrent batches

type vwConcItem struct {
	id     string
	target *vwLog
	c      *vwCand
	pf     [][]byte
	reply  []byte
	err    error
	panic  string
}

// concurrent runs k Updates at once; the recorded replies must have a linearisation accepted by the model
// (checked by the driver), and the property must hold for whichever order the database chose.
func (in *vwInst) concurrent(r *verifkit.Rand, k int) {
	w := in.w
	in.nOps++
	key := fmt.Sprintf("%s op%d conc", in.name, in.nOps)
	reals := w.realLogs()
	items := make([]*vwConcItem, k)
	focus := reals[r.Intn(len(reals))]
	for i := range items {
		l := focus
		if r.Intn(4) == 0 {
			l = reals[r.Intn(len(reals))]
		}
		prev := in.held[l.id]
		var c *vwCand
		var pf [][]byte
		switch {
		case prev == nil:
			c = w.mkCand(r, l, l, r.Intn(len(l.forks)), uint64(r.Intn(w.maxN+1)), 0, "good", "absent", "plain")
		case r.Intn(8) == 0:
			c = w.mkCand(r, l, l, 0, uint64(r.Intn(w.maxN+1)), 0, "corrupt", "absent", "plain")
		default:
			pfork := prev.fork
			if pfork < 0 {
				pfork = 0
			}
			f := pfork
			if r.Intn(3) == 0 {
				f = r.Intn(len(l.forks))
			}
			size := uint64(r.Intn(w.maxN + 1))
			c = w.mkCand(r, l, l, f, size, 0, "good", "absent", "plain")
			base := prev
			if i > 0 && r.Intn(3) == 0 && items[i-1].id == l.id && !items[i-1].c.garbage && items[i-1].c.fork >= 0 {
				base = items[i-1].c // a chain inside the batch: proof relative to the previous item's head
			}
			_, pf = in.genProof(r, l, base, c, "honest")
		}
		in.byRaw[string(c.raw)] = c
		items[i] = &vwConcItem{id: l.id, target: l, c: c, pf: pf}
	}
	before := map[string][]byte{}
	for _, l := range reals {
		before[l.id] = in.stored(l.id)
	}
	var wg sync.WaitGroup
	start := make(chan struct{})
	for _, it := range items {
		wg.Add(1)
		go func(it *vwConcItem) {
			defer wg.Done()
			<-start
			it.panic = verifkit.Guard(func() { it.reply, it.err = in.wit.Update(context.Background(), it.id, it.c.raw, it.pf) })
		}(it)
	}
	close(start)
	wg.Wait()
	var b strings.Builder
	fmt.Fprintf(&b, "conc %d", k)
	accepted := map[string][]*vwCand{}
	for i, it := range items {
		ikey := fmt.Sprintf("%s item%d [%s]", key, i, it.c.desc)
		if it.panic != "" {
			in.out.Fail(ikey, "panic: "+it.panic)
		}
		ans := in.canon(it.reply, it.err, ikey)
		fmt.Fprintf(&b, " | upd %s %s %s ~ %s", vwID(it.id), w.candToks(it.c, it.target, true), vProofToks(it.pf), ans)
		if strings.HasPrefix(ans, "cosig") {
			accepted[it.id] = append(accepted[it.id], it.c)
			if !it.c.valid(it.target, true) {
				in.out.Fail(ikey, "stored_signed: cosigned an invalid STH in a concurrent batch")
			}
		} else if ans == "err x" && it.c.valid(it.target, true) {
			in.out.Fail(ikey, "a valid update failed with an internal error under concurrency: "+fmt.Sprint(it.err))
		}
	}
	in.out.T(b.String(), "lin")
	in.out.Count("class:concurrent-batch")
	in.out.Add("class:concurrent-updates", int64(k))
	// property on the outcome: per log, the accepted candidates form a chain of extensions starting at the
	// previously held head, and the row now holds the largest of them (or is unchanged)
	for _, l := range reals {
		after := in.stored(l.id)
		acc := accepted[l.id]
		sort.Slice(acc, func(i, j int) bool { return acc[i].size < acc[j].size })
		cur := in.held[l.id]
		for _, c := range acc {
			if cur != nil {
				if c.size <= cur.size {
					in.out.Fail(key, fmt.Sprintf("monotone: two accepted heads of log %s do not grow (%d then %d)", l.id[:6], cur.size, c.size))
				} else if !vwExtends(cur, c) {
					in.out.Fail(key, fmt.Sprintf("monotone: accepted %s over size=%d fork=%d in a concurrent batch, not an extension", c.desc, cur.size, cur.fork))
				}
			}
			cur = c
		}
		var want []byte
		if cur != nil {
			want = cur.raw
		}
		if !bytes.Equal(after, want) {
			in.out.Fail(key, fmt.Sprintf("after a concurrent batch the row of log %s is not the largest accepted head (lost update?)", l.id[:6]))
		}
		if len(acc) == 0 && !bytes.Equal(after, before[l.id]) {
			in.out.Fail(key, "refused_unchanged: row changed without any accepted update")
		}
		if cur != nil {
			in.held[l.id] = cur
		}
		if !bytes.Equal(after, want) {
			in.resync(l.id)
		}
	}
}

// ---------------------------------------------------------------- the test

func TestVerifC19(t *testing.T) {
	out := verifkit.Open()
	defer out.Close()
	seed := verifkit.Seed()
	r := verifkit.NewRand(seed)
	dir := filepath.Join(os.Getenv("VERIF_DIR"), "build")
	if os.Getenv("VERIF_DIR") == "" {
		dir = t.TempDir()
	}
	_ = os.MkdirAll(dir, 0o755)
	nInst := verifkit.N(40, 1000)
	nOps := verifkit.N(45, 70)
	var world *vwWorld
	for i := 0; i < nInst; i++ {
		if i%8 == 0 {
			maxN := []int{8, 20, 40, 70}[r.Intn(4)]
			if verifkit.Thorough() && r.Intn(4) == 0 {
				maxN = 130
			}
			kind := map[int]string{1: "ed25519", 3: "rsa"}[(i/8)%5]
			if kind == "" {
				kind = "p256"
			}
			world = newVWWorld(r.Fork(), 2+r.Intn(2), maxN, kind)
		}
		out.Count("mode:witness-key-" + world.wKind)
		dsn, name := ":memory:", fmt.Sprintf("seed%d w%d mem", seed, i)
		var file string
		if i%4 == 3 {
			file = filepath.Join(dir, fmt.Sprintf("c19-%d-%d-%d.db", os.Getpid(), seed, i))
			os.Remove(file)
			dsn, name = file, fmt.Sprintf("seed%d w%d file", seed, i)
		}
		if world.wKind != "p256" {
			name += " " + world.wKind
			out.Count("mode:db-file")
		} else {
			out.Count("mode:db-memory")
		}
		in := world.newInst(t, out, dsn, name)
		rr := r.Fork()
		for j := 0; j < nOps; j++ {
			if i%2 == 1 && world.canSign && rr.Intn(6) == 0 {
				in.concurrent(rr, 2+rr.Intn(7))
			} else {
				in.step(rr)
			}
		}
		// closing sweep: every log's row, seen through GetSTH, and the list of rows
		for _, l := range world.logs {
			in.get(l.id)
		}
		in.getLogs()
		if i < 3 {
			out.Sample(fmt.Sprintf("%s: %d ops, held heads: %s", name, in.nOps, in.describeHeld()))
		}
		in.db.Close()
		if file != "" {
			os.Remove(file)
		}
	}
	_ = hex.EncodeToString
}

func (in *vwInst) describeHeld() string {
	var s []string
	for id, c := range in.held {
		if c != nil {
			s = append(s, fmt.Sprintf("%s…:size=%d/fork=%d", id[:6], c.size, c.fork))
		}
	}
	sort.Strings(s)
	return strings.Join(s, " ")
}
