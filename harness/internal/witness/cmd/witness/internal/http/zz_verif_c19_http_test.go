//go:build verif

package http

// C19, HTTP layer: the same histories as TestVerifC19 in miniature, driven through the witness'
// HTTP handlers (router configured as impl.Main configures it) and replayed on the same model.
// Status mapping under test: accepted -> 200 + cosigned STH; stale / inconsistent -> 409 + the held
// raw STH; everything else refused without an STH.

import (
	"bytes"
	"crypto/ecdsa"
	"crypto/elliptic"
	crand "crypto/rand"
	"crypto/sha256"
	"crypto/x509"
	"database/sql"
	"encoding/base64"
	"encoding/json"
	"encoding/pem"
	"fmt"
	"io"
	"net/http"
	"net/http/httptest"
	"net/url"
	"sort"
	"strings"
	"testing"

	ct "github.com/google/certificate-transparency-go"
	"github.com/google/certificate-transparency-go/internal/verifkit"
	"github.com/google/certificate-transparency-go/internal/witness/api"
	"github.com/google/certificate-transparency-go/internal/witness/cmd/witness/internal/witness"
	"github.com/google/certificate-transparency-go/internal/witness/verifier"
	"github.com/google/certificate-transparency-go/tls"
	"github.com/gorilla/mux"
	_ "github.com/mattn/go-sqlite3"
	"github.com/transparency-dev/merkle/rfc6962"
	"github.com/transparency-dev/merkle/testonly"
)

type vhLog struct {
	id     string
	idHash []byte
	key    *ecdsa.PrivateKey
	trees  []*testonly.Tree // 0 honest, 1 fork
	div    int
}

type vhCand struct {
	log            *vhLog
	fork           int
	size, ts       uint64
	root           []byte
	idField        []byte
	sigOK          bool
	garbage        bool
	raw            []byte
	sigTok, rawTok string
}

type vhEnv struct {
	out    *verifkit.Out
	r      *verifkit.Rand
	logs   []*vhLog
	router *mux.Router
	wv     *verifier.WitnessVerifier
	toks   map[string]int
	held   map[string]*vhCand
	name   string
	n      int
	maxN   int
}

func vhKey() *ecdsa.PrivateKey {
	k, err := ecdsa.GenerateKey(elliptic.P256(), crand.Reader)
	if err != nil {
		panic(err)
	}
	return k
}

func (e *vhEnv) tok(prefix string, b []byte) string {
	k := prefix + string(b)
	if v, ok := e.toks[k]; ok {
		return fmt.Sprintf("%s%d", prefix, v)
	}
	e.toks[k] = len(e.toks) + 1
	return fmt.Sprintf("%s%d", prefix, len(e.toks))
}

func vhID(id string) string { return verifkit.Hex([]byte(id)) }

func newVHEnv(t *testing.T, out *verifkit.Out, r *verifkit.Rand, name string) *vhEnv {
	e := &vhEnv{out: out, r: r, toks: map[string]int{}, held: map[string]*vhCand{}, name: name, maxN: 6 + r.Intn(30)}
	for i := 0; i < 2; i++ {
		k := vhKey()
		der, _ := x509.MarshalPKIXPublicKey(&k.PublicKey)
		h := sha256.Sum256(der)
		l := &vhLog{id: base64.StdEncoding.EncodeToString(h[:]), idHash: h[:], key: k, div: r.Intn(e.maxN)}
		leaves := make([][]byte, e.maxN)
		fl := make([][]byte, e.maxN)
		for j := range leaves {
			leaves[j] = r.Bytes(3)
			fl[j] = leaves[j]
			if j >= l.div {
				fl[j] = append([]byte{0xff}, leaves[j]...)
			}
		}
		a, b := testonly.New(rfc6962.DefaultHasher), testonly.New(rfc6962.DefaultHasher)
		a.AppendData(leaves...)
		b.AppendData(fl...)
		l.trees = []*testonly.Tree{a, b}
		e.logs = append(e.logs, l)
	}
	sort.Slice(e.logs, func(i, j int) bool { return e.logs[i].id < e.logs[j].id })
	wk := vhKey()
	pk8, _ := x509.MarshalPKCS8PrivateKey(wk)
	db, err := sql.Open("sqlite3", ":memory:")
	if err != nil {
		t.Fatal(err)
	}
	db.SetMaxOpenConns(1)
	t.Cleanup(func() { db.Close() })
	known := map[string]ct.SignatureVerifier{}
	for _, l := range e.logs {
		sv, err := ct.NewSignatureVerifier(&l.key.PublicKey)
		if err != nil {
			t.Fatal(err)
		}
		known[l.id] = *sv
	}
	w, err := witness.New(witness.Opts{DB: db, PrivKey: string(pem.EncodeToMemory(&pem.Block{Type: "PRIVATE KEY", Bytes: pk8})), KnownLogs: known})
	if err != nil {
		t.Fatal(err)
	}
	e.wv, err = verifier.NewWitnessVerifier(&wk.PublicKey)
	if err != nil {
		t.Fatal(err)
	}
	e.router = mux.NewRouter().UseEncodedPath() // as impl.Main
	NewServer(w).RegisterHandlers(e.router)
	var b strings.Builder
	fmt.Fprintf(&b, "new %d", len(e.logs))
	for _, l := range e.logs {
		fmt.Fprintf(&b, " %s %s", vhID(l.id), verifkit.Hex(l.idHash))
	}
	out.T(b.String(), "ok")
	return e
}

func (e *vhEnv) mkCand(l *vhLog, fork int, size uint64, mode string) *vhCand {
	c := &vhCand{log: l, fork: fork, size: size, ts: size*100 + uint64(fork), sigOK: true}
	c.root = l.trees[fork].HashAt(size)
	signer := l.key
	if mode == "otherkey" {
		signer = e.logs[0].key
		if l == e.logs[0] {
			signer = e.logs[1].key
		}
		c.sigOK = false
	}
	sth := ct.SignedTreeHead{Version: ct.V1, TreeSize: c.size, Timestamp: c.ts}
	copy(sth.SHA256RootHash[:], c.root)
	in, _ := ct.SerializeSTHSignatureInput(sth)
	ds, err := tls.CreateSignature(*signer, tls.SHA256, in)
	if err != nil {
		panic(err)
	}
	if mode == "tamper" {
		c.root = append([]byte(nil), c.root...)
		c.root[0] ^= 1
		c.sigOK = false
	}
	sigB64, _ := ct.DigitallySigned(ds).Base64String()
	fields := []string{fmt.Sprintf(`"tree_size":%d`, c.size), fmt.Sprintf(`"timestamp":%d`, c.ts),
		fmt.Sprintf(`"sha256_root_hash":"%s"`, base64.StdEncoding.EncodeToString(c.root)), fmt.Sprintf(`"tree_head_signature":"%s"`, sigB64)}
	switch mode {
	case "id":
		c.idField = l.idHash
		fields = append(fields, fmt.Sprintf(`"log_id":"%s"`, base64.StdEncoding.EncodeToString(l.idHash)))
	case "wrongid":
		c.idField = e.r.Bytes(32)
		fields = append(fields, fmt.Sprintf(`"log_id":"%s"`, base64.StdEncoding.EncodeToString(c.idField)))
	}
	c.raw = []byte("{" + strings.Join(fields, ",") + "}")
	if mode == "garbage" {
		c.raw = c.raw[:len(c.raw)/2]
		c.garbage = true
	}
	sb, _ := tls.Marshal(ds)
	c.sigTok, c.rawTok = e.tok("s", sb), e.tok("r", c.raw)
	return c
}

func (c *vhCand) toks() string {
	if c.garbage {
		return "g"
	}
	return fmt.Sprintf("s %d %d %s %s %s %s %s", c.size, c.ts, verifkit.Hex(c.root), verifkit.Hex(c.idField), c.sigTok, verifkit.B(c.sigOK), c.rawTok)
}

func (c *vhCand) valid() bool {
	return !c.garbage && c.sigOK && (c.idField == nil || bytes.Equal(c.idField, c.log.idHash))
}

func (e *vhEnv) do(method, path string, body []byte) (int, []byte) {
	req := httptest.NewRequest(method, path, bytes.NewReader(body))
	w := httptest.NewRecorder()
	e.router.ServeHTTP(w, req)
	b, _ := io.ReadAll(w.Result().Body)
	return w.Code, b
}

// canon maps an HTTP answer to the protocol's answer classes (error kinds are not distinguished at this layer).
func (e *vhEnv) canon(key string, code int, body []byte) string {
	switch code {
	case http.StatusOK, http.StatusConflict:
		var cs api.CosignedSTH
		if err := json.Unmarshal(body, &cs); err != nil {
			e.out.Fail(key, fmt.Sprintf("status %d with a body that is not an STH: %v", code, err))
			return "weird"
		}
		if len(cs.WitnessSigs) > 0 {
			if code != http.StatusOK {
				e.out.Fail(key, "cosigned STH with status 409")
			}
			if err := e.wv.VerifySignature(cs); err != nil {
				e.out.Fail(key, "cosignature does not verify: "+err.Error())
			}
			sb, _ := tls.Marshal(tls.DigitallySigned(cs.TreeHeadSignature))
			return fmt.Sprintf("cosig %d %d %s %s %s", cs.TreeSize, cs.Timestamp, verifkit.Hex(cs.SHA256RootHash[:]), verifkit.Hex(cs.LogID[:]), e.tok("s", sb))
		}
		f := "N"
		if code == http.StatusConflict {
			f = "E"
		}
		return fmt.Sprintf("held %s %d %s %s", e.tok("r", body), cs.TreeSize, verifkit.Hex(cs.SHA256RootHash[:]), f)
	default:
		return "err"
	}
}

// checkGet: every 200 body of GET …/sth is a cosigned STH whose witness signature verifies and whose head is the one currently
// held for that log (stated independently of how the server produces it: from the witness, a cache, …).
func (e *vhEnv) checkGet(key, id string, code int, body []byte) {
	h := e.held[id]
	if code != http.StatusOK {
		if h != nil {
			e.out.Fail(key, fmt.Sprintf("GET sth for a log with a held head answered %d", code))
		}
		return
	}
	var cs api.CosignedSTH
	if err := json.Unmarshal(body, &cs); err != nil {
		e.out.Fail(key, "GET sth: 200 with a body that is not an STH: "+err.Error())
		return
	}
	if len(cs.WitnessSigs) == 0 {
		e.out.Fail(key, fmt.Sprintf("cosig_verifies: GET sth served an STH (size=%d) without a witness signature", cs.TreeSize))
	} else if err := e.wv.VerifySignature(cs); err != nil {
		e.out.Fail(key, "cosig_verifies: GET sth served an STH whose witness signature does not verify: "+err.Error())
	}
	if h == nil {
		e.out.Fail(key, "GET sth served an STH for a log without a held head")
	} else if cs.TreeSize != h.size || cs.Timestamp != h.ts || !bytes.Equal(cs.SHA256RootHash[:], h.root) {
		e.out.Fail(key, fmt.Sprintf("GET sth served size=%d ts=%d, the held head is size=%d ts=%d", cs.TreeSize, cs.Timestamp, h.size, h.ts))
	}
}

func (e *vhEnv) update(id string, l *vhLog, c *vhCand, pf [][]byte, class string) {
	e.n++
	key := fmt.Sprintf("%s op%d http-update %s", e.name, e.n, class)
	body, _ := json.Marshal(api.UpdateRequest{STH: c.raw, Proof: pf})
	_, before := e.do("GET", fmt.Sprintf(api.HTTPGetSTH, url.PathEscape(id)), nil)
	code, rsp := e.do("PUT", fmt.Sprintf(api.HTTPUpdate, url.PathEscape(id)), body)
	afterCode, after := e.do("GET", fmt.Sprintf(api.HTTPGetSTH, url.PathEscape(id)), nil)
	ans := e.canon(key, code, rsp)
	defer func() { // once the bookkeeping below has followed the PUT: what GET serves now
		e.checkGet(fmt.Sprintf("%s op%d http-get-after-%s", e.name, e.n, class), id, afterCode, after)
	}()
	var ps strings.Builder
	fmt.Fprintf(&ps, "%d", len(pf))
	for _, h := range pf {
		ps.WriteString(" " + verifkit.Hex(h))
	}
	e.out.T(fmt.Sprintf("upd %s %s %s", vhID(id), c.toks(), ps.String()), ans)
	e.out.Count("class:http-" + class)
	prev := e.held[id]
	heldChanged := func() bool { // GetSTH re-signs, so compare the embedded head, not the bytes
		var a, b api.CosignedSTH
		_ = json.Unmarshal(before, &a)
		_ = json.Unmarshal(after, &b)
		return a.TreeSize != b.TreeSize || a.SHA256RootHash != b.SHA256RootHash || a.Timestamp != b.Timestamp
	}
	if strings.HasPrefix(ans, "cosig") {
		e.out.Count("mode:http-accepted")
		if l == nil || !c.valid() {
			e.out.Fail(key, "stored_signed: an invalid STH was cosigned over HTTP")
		}
		if prev != nil && (c.size <= prev.size || (prev.size > 0 && !bytes.Equal(c.log.trees[c.fork].HashAt(prev.size), prev.root))) {
			e.out.Fail(key, fmt.Sprintf("monotone: accepted size %d fork %d over held size %d fork %d", c.size, c.fork, prev.size, prev.fork))
		}
		e.held[id] = c
	} else {
		e.out.Count("mode:http-refused")
		if heldChanged() {
			e.out.Fail(key, "refused_unchanged: refused over HTTP but GetSTH now returns another head")
		}
		if l != nil && c.valid() && prev != nil {
			same := c.size == prev.size && bytes.Equal(c.root, prev.root)
			if !bytes.Equal(rsp, prev.raw) {
				e.out.Fail(key, "stale/inconsistent update not answered with the held STH")
			}
			if !same && code != http.StatusConflict {
				e.out.Fail(key, fmt.Sprintf("stale/inconsistent update answered with status %d, want 409", code))
			}
		}
		if (l == nil || !c.valid()) && (code == http.StatusOK || code == http.StatusConflict) {
			e.out.Fail(key, fmt.Sprintf("an invalid STH / unknown log was answered with status %d", code))
		}
	}
}

func TestVerifC19HTTP(t *testing.T) {
	out := verifkit.Open()
	defer out.Close()
	r := verifkit.NewRand(verifkit.Seed() ^ 0x68747470)
	for i := 0; i < verifkit.N(30, 300); i++ {
		e := newVHEnv(t, out, r.Fork(), fmt.Sprintf("seed%d h%d", verifkit.Seed(), i))
		for j := 0; j < verifkit.N(40, 60); j++ {
			x := e.r.Intn(100)
			l := e.logs[e.r.Intn(len(e.logs))]
			prev := e.held[l.id]
			switch {
			case x < 8:
				e.n++
				id := []string{l.id, "unknown", "a/b+c="}[e.r.Intn(3)]
				code, body := e.do("GET", fmt.Sprintf(api.HTTPGetSTH, url.PathEscape(id)), nil)
				e.checkGet(fmt.Sprintf("%s op%d http-get %s", e.name, e.n, id), id, code, body)
				ans := e.canon(fmt.Sprintf("%s op%d http-get", e.name, e.n), code, body)
				if code == http.StatusNotFound {
					ans = "err"
				}
				e.out.T("get "+vhID(id), ans)
				e.out.Count("class:http-get")
			case x < 12:
				e.n++
				code, body := e.do("GET", api.HTTPGetLogs, nil)
				var ids []string
				if code != 200 || json.Unmarshal(body, &ids) != nil {
					e.out.Fail(fmt.Sprintf("%s op%d http-logs", e.name, e.n), fmt.Sprintf("status %d body %q", code, body))
				}
				sort.Strings(ids)
				toks := []string{"logs", fmt.Sprint(len(ids))}
				for _, id := range ids {
					toks = append(toks, vhID(id))
				}
				e.out.T("logs", strings.Join(toks, " "))
				e.out.Count("class:http-logs")
			case x < 18:
				c := e.mkCand(l, 0, uint64(e.r.Intn(e.maxN+1)), "good")
				e.update([]string{"unknown", "x y", "a/b"}[e.r.Intn(3)], nil, c, nil, "unknown-log")
			case x < 30:
				mode := []string{"otherkey", "tamper", "wrongid", "garbage"}[e.r.Intn(4)]
				size := uint64(e.r.Intn(e.maxN + 1))
				c := e.mkCand(l, e.r.Intn(2), size, mode)
				var pf [][]byte
				if prev != nil && prev.size <= size {
					pf, _ = l.trees[c.fork].ConsistencyProof(prev.size, size)
				}
				e.update(l.id, l, c, pf, "invalid-"+mode)
			default:
				mode := "good"
				if e.r.Intn(3) == 0 {
					mode = "id"
				}
				size := uint64(e.r.Intn(e.maxN + 1))
				fork := e.r.Intn(2)
				if prev != nil && e.r.Intn(3) > 0 { // forward, same fork
					fork = prev.fork
					if int(prev.size) < e.maxN {
						size = prev.size + 1 + uint64(e.r.Intn(e.maxN-int(prev.size)))
					}
				}
				c := e.mkCand(l, fork, size, mode)
				var pf [][]byte
				class := "tofu"
				if prev != nil {
					class = "stale-or-equal"
					if prev.size < size {
						pf, _ = l.trees[fork].ConsistencyProof(prev.size, size)
						class = "forward-honest-proof"
						switch e.r.Intn(6) {
						case 0:
							if len(pf) > 0 {
								pf = pf[:len(pf)-1]
							}
							class = "forward-truncated"
						case 1:
							pf = append(pf, e.r.Bytes(32))
							class = "forward-padded"
						case 2:
							pf, _ = l.trees[1-fork].ConsistencyProof(prev.size, size)
							class = "forward-other-fork-proof"
						}
					}
				}
				if prev != nil && e.r.Intn(6) == 0 {
					c, pf, class = prev, nil, "replay-identical" // the held STH again, byte for byte
				}
				e.update(l.id, l, c, pf, class)
			}
		}
	}
}
