//go:build verif

package verifier

// C05, one more observation point: WitnessVerifier.VerifySignature — a caller of SignatureVerifier.VerifySignature on the
// DigitallySigned blobs of a CosignedSTH.  0, 1, 2, 3 and 5 witness signatures, each genuine / by a foreign key / corrupted /
// with another algorithm code / garbage, at every position.  Oracle (standard library on (key, digest, r, s) per signature):
// the cosigned STH verifies exactly when SOME signature it carries is valid; with no signature it never does.

import (
	"fmt"
	"strings"
	"testing"

	ct "github.com/google/certificate-transparency-go"
	"github.com/google/certificate-transparency-go/internal/verifkit"
	"github.com/google/certificate-transparency-go/internal/witness/api"
	"github.com/google/certificate-transparency-go/testdata"
	"github.com/google/certificate-transparency-go/tls"
)

func c05wAlg(k *verifkit.SKey) int {
	switch k.Kind {
	case "rsa":
		return 1
	case "ecdsa":
		return 3
	}
	return 2
}

func TestVerifC05Witness(t *testing.T) {
	out := verifkit.Open()
	defer out.Close()
	verifkit.DSAKeyPEM = testdata.DsaPrivateKeyPEM
	r := verifkit.NewRand(verifkit.Seed())
	kinds := []string{"genuine", "foreign-key", "corrupted", "other-alg-code", "garbage"}
	for _, pair := range [][2]string{{"p256", "p256b"}, {"rsa2048", "rsa2048b"}} {
		k, other := verifkit.KeyByName(pair[0]), verifkit.KeyByName(pair[1])
		wv, err := NewWitnessVerifier(k.Pub)
		if err != nil {
			out.Fail("vwit setup", err.Error())
			continue
		}
		var root ct.SHA256Hash
		copy(root[:], r.Bytes(32))
		sth := ct.SignedTreeHead{Version: ct.V1, TreeSize: r.U64() >> 8, Timestamp: r.U64() >> 8, SHA256RootHash: root,
			TreeHeadSignature: ct.DigitallySigned{Algorithm: tls.SignatureAndHashAlgorithm{Hash: tls.SHA256, Signature: tls.ECDSA}, Signature: r.Bytes(8)}}
		msg, err := tls.Marshal(sth)
		if err != nil {
			out.Fail("vwit setup", err.Error())
			continue
		}
		mk := func(kind string) ct.DigitallySigned {
			alg := c05wAlg(k)
			sig := k.Sign(4, msg)
			switch kind {
			case "foreign-key":
				sig = other.Sign(4, msg)
			case "corrupted":
				sig = append([]byte(nil), sig...)
				sig[len(sig)-1-r.Intn(8)] ^= 1 << uint(r.Intn(8))
			case "other-alg-code":
				alg = 4 - alg
			case "garbage":
				sig = r.Bytes(1 + r.Intn(70))
			}
			return ct.DigitallySigned{Algorithm: tls.SignatureAndHashAlgorithm{Hash: 4, Signature: tls.SignatureAlgorithm(alg)}, Signature: sig}
		}
		var cases [][]string
		cases = append(cases, nil, []string{}) // nil and empty slice
		for _, a := range kinds {
			cases = append(cases, []string{a})
			for _, b := range kinds {
				cases = append(cases, []string{a, b})
			}
		}
		for i := 0; i < 3; i++ { // genuine at each of three positions, the others bad
			c := []string{kinds[1+r.Intn(4)], kinds[1+r.Intn(4)], kinds[1+r.Intn(4)]}
			cases = append(cases, append([]string(nil), c...))
			c[i] = "genuine"
			cases = append(cases, c)
		}
		for it := 0; it < verifkit.N(6, 200); it++ {
			c := make([]string, 5)
			for j := range c {
				c[j] = kinds[1+r.Intn(4)]
			}
			if r.Bool() {
				c[r.Intn(5)] = "genuine"
			}
			cases = append(cases, c)
		}
		for ci, cs := range cases {
			var sigs []ct.DigitallySigned
			if cs != nil {
				sigs = []ct.DigitallySigned{}
			}
			line := fmt.Sprintf("vwit %s %d", k.Kind, len(cs))
			want := "err"
			for _, kind := range cs {
				ds := mk(kind)
				sigs = append(sigs, ds)
				v := k.Judge(int(ds.Algorithm.Hash), msg, ds.Signature)
				if k.Expect(int(ds.Algorithm.Hash), int(ds.Algorithm.Signature), v) {
					want = "ok"
				}
				line += fmt.Sprintf(" %d %d %s %s %s %s", ds.Algorithm.Hash, ds.Algorithm.Signature, verifkit.IntStr(v.R), verifkit.IntStr(v.S), verifkit.B(v.Prim), verifkit.Hex(ds.Signature))
			}
			var verr error
			p := verifkit.Guard(func() { verr = wv.VerifySignature(api.CosignedSTH{SignedTreeHead: sth, WitnessSigs: sigs}) })
			got := "ok"
			if p != "" {
				got = "panic"
			} else if verr != nil {
				got = "err"
			}
			out.T(line, got)
			out.Count(fmt.Sprintf("class:vwit:%d-signatures", len(cs)))
			out.Count("outcome:vwit-" + got)
			if got != want {
				key := fmt.Sprintf("vwit key=%s signatures=%d [%s]", k.Kind, len(cs), strings.Join(cs, ","))
				if len(cs) == 0 {
					key = fmt.Sprintf("vwit key=%s no-witness-signature-accepted", k.Kind)
				}
				out.Fail(key, fmt.Sprintf("WitnessVerifier.VerifySignature(CosignedSTH with %d witness signatures, case %d) = %s, the property requires %s", len(cs), ci, got, want))
			}
		}
	}
}
