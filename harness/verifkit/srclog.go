//go:build verif

package verifkit

import (
	"crypto/ecdsa"
	"crypto/elliptic"
	"crypto/rand"
	"encoding/binary"
	"encoding/pem"
	"fmt"
	"math/big"
	"sync"
	"time"

	ct "github.com/google/certificate-transparency-go"
	"github.com/google/certificate-transparency-go/testdata"
	"github.com/google/certificate-transparency-go/tls"
	"github.com/google/certificate-transparency-go/x509"
	"github.com/google/certificate-transparency-go/x509/pkix"
)

// Pay is the payload identifier of entry i of the source log with the given seed. The Lean model
// (CTV.Driver.C16 / C20) computes the same function, so both sides know what the log holds at every index
// without exchanging the bytes.
func Pay(seed uint64, i int64) uint64 { return (seed + uint64(i)*2654435761) % 4294967296 }

// FoldDigest condenses a sequence of payload identifiers (same fold as the Lean driver).
func FoldDigest(ids []uint64) uint64 {
	var acc uint64 = uint64(len(ids))
	for _, p := range ids {
		acc = (acc*1000003 + p) % 1099511627689
	}
	return acc
}

// Entry classes of a SrcLog in certificate mode (index = Pay % NClasses).
const NClasses = 8

// SrcClass describes one class of entries.
type SrcClass struct {
	Precert bool   // entry type precert_entry (else x509_entry)
	Cert    []byte // the (pre-)certificate DER as submitted (garbage for the unparsable classes)
	TBS     []byte // precert classes: the TBSCertificate of the leaf (nil = the test-data precertificate's)
	Bad     bool   // the certificate / TBS does not parse
	Lax     bool   // the certificate / TBS parses, but only with non-fatal errors (x509.NonFatalErrors)
}

var (
	laxOnce         sync.Once
	laxCert, laxPre []byte
	laxPreTBS       []byte
)

// laxCerts builds (once per process) a certificate and a precertificate that parse with *non-fatal* errors only: they carry
// a non-critical RFC 3779 AS-identifiers extension whose body is not valid ASN.1 (such certificates exist in real logs).
func laxCerts() ([]byte, []byte, []byte) {
	laxOnce.Do(func() {
		key, err := ecdsa.GenerateKey(elliptic.P256(), rand.Reader)
		if err != nil {
			panic(err)
		}
		bad := pkix.Extension{Id: x509.OIDExtensionASList, Critical: false, Value: []byte{0x01}}
		poison := pkix.Extension{Id: x509.OIDExtensionCTPoison, Critical: true, Value: []byte{0x05, 0x00}}
		mk := func(serial int64, cn string, exts []pkix.Extension) []byte {
			tmpl := &x509.Certificate{SerialNumber: big.NewInt(serial), Subject: pkix.Name{CommonName: cn}, NotBefore: time.Unix(1500000000, 0),
				NotAfter: time.Unix(1900000000, 0), DNSNames: []string{cn}, ExtraExtensions: exts}
			der, err := x509.CreateCertificate(rand.Reader, tmpl, tmpl, &key.PublicKey, key)
			if err != nil {
				panic(err)
			}
			return der
		}
		laxCert = mk(77001, "lax.example.com", []pkix.Extension{bad})
		laxPre = mk(77002, "laxpre.example.com", []pkix.Extension{poison, bad})
		for _, der := range [][]byte{laxCert, laxPre} {
			if c, err := x509.ParseCertificate(der); c == nil || err == nil || x509.IsFatal(err) {
				panic(fmt.Sprintf("verifkit: want a certificate with non-fatal parse errors only, got cert=%v err=%v", c != nil, err))
			}
		}
		pc, _ := x509.ParseCertificate(laxPre)
		laxPreTBS = pc.RawTBSCertificate
		if c, err := x509.ParseTBSCertificate(laxPreTBS); c == nil || err == nil || x509.IsFatal(err) {
			panic(fmt.Sprintf("verifkit: want a TBSCertificate with non-fatal parse errors only, got cert=%v err=%v", c != nil, err))
		}
	})
	return laxCert, laxPre, laxPreTBS
}

// SrcLog is a deterministic source log: entry i is a function of (Seed, i).
type SrcLog struct {
	Seed    uint64
	Opaque  bool // entries are opaque bytes (not MerkleTreeLeaf structures); enough for the Fetcher, which never looks inside
	Unique  bool // every index carries a different certificate (x509 entries only): the first UniquePool indices a distinct well-formed
	// certificate, the others distinct byte strings that do not parse. Needed where the certificate bytes identify the leaf (SHA256_CERT_DATA).
	Classes [NClasses]SrcClass
	ca      []byte
	tbs     []byte
	ikh     [32]byte
}

func pemDER(s string) []byte {
	b, _ := pem.Decode([]byte(s))
	if b == nil {
		panic("verifkit: bad PEM in testdata")
	}
	return b.Bytes
}

// NewSrcLog builds the log description. seed must be < 2^32.
func NewSrcLog(seed uint64, opaque bool) *SrcLog {
	l := &SrcLog{Seed: seed % 4294967296, Opaque: opaque}
	l.ca = pemDER(testdata.CACertPEM)
	c0 := pemDER(testdata.TestCertPEM)
	c3 := pemDER(testdata.TestEmbeddedCertPEM)
	pre := pemDER(testdata.TestPreCertPEM)
	pc, err := x509.ParseCertificate(pre)
	if pc == nil {
		panic(fmt.Sprintf("verifkit: testdata precert does not parse: %v", err))
	}
	l.tbs = pc.RawTBSCertificate
	for i := range l.ikh {
		l.ikh[i] = byte(i + 1)
	}
	garbage := []byte{0x30, 0x03, 0x01, 0x02, 0x03}
	lc, lp, lpTBS := laxCerts()
	l.Classes = [NClasses]SrcClass{
		{Cert: c0}, {Cert: l.ca}, {Precert: true, Cert: pre}, {Cert: c3},
		{Precert: true, Cert: lp, TBS: lpTBS, Lax: true}, {Cert: lc, Lax: true}, {Cert: garbage, Bad: true}, {Precert: true, Cert: garbage, Bad: true},
	}
	return l
}

// UniquePool is the number of distinct well-formed certificates available to a Unique log.
const UniquePool = 40

var (
	uniqOnce sync.Once
	uniqPool [][]byte
)

func uniquePool() [][]byte {
	uniqOnce.Do(func() {
		key, err := ecdsa.GenerateKey(elliptic.P256(), rand.Reader)
		if err != nil {
			panic(err)
		}
		for i := 0; i < UniquePool; i++ {
			cn := fmt.Sprintf("u%d.example.com", i)
			tmpl := &x509.Certificate{SerialNumber: big.NewInt(int64(88000 + i)), Subject: pkix.Name{CommonName: cn}, NotBefore: time.Unix(1500000000, 0),
				NotAfter: time.Unix(1900000000, 0), DNSNames: []string{cn}}
			der, err := x509.CreateCertificate(rand.Reader, tmpl, tmpl, &key.PublicKey, key)
			if err != nil {
				panic(err)
			}
			uniqPool = append(uniqPool, der)
		}
	})
	return uniqPool
}

// CertOf returns the certificate bytes entry i carries (what SHA256_CERT_DATA hashes), whether the entry is a precertificate,
// and whether the certificate fails to parse.
func (l *SrcLog) CertOf(i int64) (cert []byte, precert, bad bool) {
	if l.Unique {
		if i < UniquePool {
			return uniquePool()[i], false, false
		}
		b := []byte{0x30, 0x0a, 0x04, 0x08, 0, 0, 0, 0, 0, 0, 0, 0}
		binary.BigEndian.PutUint64(b[4:], uint64(i))
		return b, false, true
	}
	c := l.Classes[l.Class(i)]
	return c.Cert, c.Precert, c.Bad
}

// Class returns the class of entry i.
func (l *SrcLog) Class(i int64) int { return int(Pay(l.Seed, i) % NClasses) }

func must(b []byte, err error) []byte {
	if err != nil {
		panic(err)
	}
	return b
}

// Entry returns what the log holds at index i.
func (l *SrcLog) Entry(i int64) ct.LeafEntry {
	p := Pay(l.Seed, i)
	if l.Opaque {
		r := NewRand(p ^ 0xa5a5a5a5)
		li := make([]byte, 8, 8+24)
		binary.BigEndian.PutUint64(li, p)
		li = append(li, r.Bytes(r.Intn(24))...)
		return ct.LeafEntry{LeafInput: li, ExtraData: r.Bytes(r.Intn(12))}
	}
	c := l.Classes[p%NClasses]
	if l.Unique {
		cert, _, _ := l.CertOf(i)
		c = SrcClass{Cert: cert}
	}
	if !c.Precert {
		leaf := ct.CreateX509MerkleTreeLeaf(ct.ASN1Cert{Data: c.Cert}, p)
		return ct.LeafEntry{
			LeafInput: must(tls.Marshal(*leaf)),
			ExtraData: must(tls.Marshal(ct.CertificateChain{Entries: []ct.ASN1Cert{{Data: l.ca}}})),
		}
	}
	tbs := l.tbs
	if c.TBS != nil {
		tbs = c.TBS
	}
	if c.Bad {
		tbs = c.Cert
	}
	leaf := ct.MerkleTreeLeaf{Version: ct.V1, LeafType: ct.TimestampedEntryLeafType,
		TimestampedEntry: &ct.TimestampedEntry{Timestamp: p, EntryType: ct.PrecertLogEntryType,
			PrecertEntry: &ct.PreCert{IssuerKeyHash: l.ikh, TBSCertificate: tbs}}}
	return ct.LeafEntry{
		LeafInput: must(tls.Marshal(leaf)),
		ExtraData: must(tls.Marshal(ct.PrecertChainEntry{PreCertificate: ct.ASN1Cert{Data: c.Cert}, CertificateChain: []ct.ASN1Cert{{Data: l.ca}}})),
	}
}

// IDOf recovers the payload identifier from the bytes of an entry (the harness' own decoding, independent of the code under test).
func (l *SrcLog) IDOf(e *ct.LeafEntry) (uint64, bool) {
	if l.Opaque {
		if len(e.LeafInput) < 8 {
			return 0, false
		}
		return binary.BigEndian.Uint64(e.LeafInput), true
	}
	// MerkleTreeLeaf: version(1) leaf_type(1) timestamp(8) ...
	if len(e.LeafInput) < 10 {
		return 0, false
	}
	return binary.BigEndian.Uint64(e.LeafInput[2:10]), true
}
