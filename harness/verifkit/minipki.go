//go:build verif

package verifkit

import (
	"crypto/ecdsa"
	"crypto/elliptic"
	"crypto/rand"
	"crypto/x509"
	"crypto/x509/pkix"
	"encoding/asn1"
	"encoding/pem"
	"fmt"
	"math/big"
	"time"
)

// MiniPKI is a throw-away CA hierarchy (root -> intermediate) that issues any number of distinct
// leaf certificates and precertificates (standard-library crypto/x509, ECDSA P-256).
type MiniPKI struct {
	RootDER, IntDER []byte
	Int2DER         []byte // a second certificate for the same intermediate CA (same subject and key, other serial): an alternative path
	rootCert        *x509.Certificate
	rootKey         *ecdsa.PrivateKey
	intCert         *x509.Certificate
	intKey          *ecdsa.PrivateKey
	leafKey         *ecdsa.PrivateKey
	base            time.Time
	// OddSAN: the next certificates issued carry a subjectAltName with a 5-byte iPAddress (non-fatal parse error in the CT x509 fork)
	OddSAN bool
}

var oidCTPoison = asn1.ObjectIdentifier{1, 3, 6, 1, 4, 1, 11129, 2, 4, 3}

func mustKey() *ecdsa.PrivateKey {
	k, err := ecdsa.GenerateKey(elliptic.P256(), rand.Reader)
	if err != nil {
		panic(err)
	}
	return k
}

// NewMiniPKI creates the hierarchy; validity is centred on `at`.
func NewMiniPKI(at time.Time) *MiniPKI {
	p := &MiniPKI{rootKey: mustKey(), intKey: mustKey(), leafKey: mustKey(), base: at}
	rootT := &x509.Certificate{SerialNumber: big.NewInt(1), Subject: pkix.Name{CommonName: "verif root", Organization: []string{"verif"}},
		NotBefore: at.Add(-24 * time.Hour), NotAfter: at.Add(10 * 365 * 24 * time.Hour), IsCA: true, BasicConstraintsValid: true,
		KeyUsage: x509.KeyUsageCertSign | x509.KeyUsageCRLSign}
	var err error
	if p.RootDER, err = x509.CreateCertificate(rand.Reader, rootT, rootT, &p.rootKey.PublicKey, p.rootKey); err != nil {
		panic(err)
	}
	p.rootCert, _ = x509.ParseCertificate(p.RootDER)
	intT := &x509.Certificate{SerialNumber: big.NewInt(2), Subject: pkix.Name{CommonName: "verif intermediate", Organization: []string{"verif"}},
		NotBefore: at.Add(-24 * time.Hour), NotAfter: at.Add(5 * 365 * 24 * time.Hour), IsCA: true, BasicConstraintsValid: true,
		KeyUsage: x509.KeyUsageCertSign | x509.KeyUsageCRLSign}
	if p.IntDER, err = x509.CreateCertificate(rand.Reader, intT, p.rootCert, &p.intKey.PublicKey, p.rootKey); err != nil {
		panic(err)
	}
	p.intCert, _ = x509.ParseCertificate(p.IntDER)
	intT.SerialNumber = big.NewInt(3)
	if p.Int2DER, err = x509.CreateCertificate(rand.Reader, intT, p.rootCert, &p.intKey.PublicKey, p.rootKey); err != nil {
		panic(err)
	}
	return p
}

// RootPEM is the trust anchor in PEM form.
func (p *MiniPKI) RootPEM() string {
	return string(pem.EncodeToMemory(&pem.Block{Type: "CERTIFICATE", Bytes: p.RootDER}))
}

// Issue returns the DER of a fresh end-entity certificate (or precertificate, with the critical CT
// poison extension) with the given serial, issued by the intermediate (viaInt) or directly by the root.
func (p *MiniPKI) Issue(serial int64, precert, viaInt bool) []byte {
	t := &x509.Certificate{SerialNumber: big.NewInt(1000 + serial),
		Subject:   pkix.Name{CommonName: fmt.Sprintf("leaf-%d.example.com", serial), Organization: []string{"verif"}},
		DNSNames:  []string{fmt.Sprintf("leaf-%d.example.com", serial)},
		NotBefore: p.base.Add(-time.Hour), NotAfter: p.base.Add(90 * 24 * time.Hour),
		KeyUsage: x509.KeyUsageDigitalSignature, ExtKeyUsage: []x509.ExtKeyUsage{x509.ExtKeyUsageServerAuth}, BasicConstraintsValid: true}
	if precert {
		t.ExtraExtensions = []pkix.Extension{{Id: oidCTPoison, Critical: true, Value: []byte{0x05, 0x00}}}
	}
	if p.OddSAN {
		// subjectAltName ::= SEQUENCE { dNSName [2] "leaf-N.example.com", iPAddress [7] 01 02 03 04 05 }: the 5-byte address makes the
		// lenient CT parser report a NonFatalErrors value while the certificate still parses and the chain still verifies
		name := []byte(fmt.Sprintf("leaf-%d.example.com", serial))
		gn := append([]byte{0x82, byte(len(name))}, name...)
		gn = append(gn, 0x87, 0x05, 1, 2, 3, 4, 5)
		t.DNSNames = nil
		t.ExtraExtensions = append(t.ExtraExtensions, pkix.Extension{Id: asn1.ObjectIdentifier{2, 5, 29, 17}, Value: append([]byte{0x30, byte(len(gn))}, gn...)})
	}
	parent, key := p.rootCert, p.rootKey
	if viaInt {
		parent, key = p.intCert, p.intKey
	}
	der, err := x509.CreateCertificate(rand.Reader, t, parent, &p.leafKey.PublicKey, key)
	if err != nil {
		panic(err)
	}
	return der
}
