//go:build verif

package verifkit

import (
	"bytes"
	"context"
	"sync"

	"github.com/google/trillian"
	"github.com/google/trillian/types"
	"github.com/transparency-dev/merkle/rfc6962"
	"github.com/transparency-dev/merkle/testonly"
	"google.golang.org/grpc"
	"google.golang.org/grpc/codes"
	"google.golang.org/grpc/status"
	"google.golang.org/protobuf/proto"
)

// RefLog is a spec-derived, in-memory reference implementation of the part of the Trillian log
// API that the CT front end uses: an RFC 6962 tree over LeafValue, de-duplication by
// LeafIdentityHash, sequencing in explicit batches (Sequence), roots and proofs from
// transparency-dev/merkle/testonly.Tree. Safe for concurrent use.
type RefLog struct {
	mu      sync.Mutex
	tree    *testonly.Tree
	leaves  []*trillian.LogLeaf // integrated, by index
	pending []*trillian.LogLeaf // queued, not yet integrated
	byID    map[string]*trillian.LogLeaf
	tsNanos uint64
	Roots   []RefRoot // every root ever published, in order (Roots[0] is the empty tree)
	Calls   map[string]int
	lastID  []byte
	// Wire: every reply is passed through the protobuf wire encoding, as it is when it comes from a Trillian server over gRPC
	// (an empty repeated field arrives as nil).
	Wire bool
}

// RefRoot is one published log root.
type RefRoot struct {
	Size    uint64
	Hash    []byte
	TSNanos uint64
}

// NewRefLog returns an empty log whose first root carries the given timestamp.
func NewRefLog(tsNanos uint64) *RefLog {
	l := &RefLog{tree: testonly.New(rfc6962.DefaultHasher), byID: map[string]*trillian.LogLeaf{}, tsNanos: tsNanos, Calls: map[string]int{}}
	l.Roots = append(l.Roots, RefRoot{0, l.tree.Hash(), tsNanos})
	return l
}

func overTheWire[M proto.Message](on bool, in, out M) (M, error) {
	if !on {
		return in, nil
	}
	b, err := proto.Marshal(in)
	if err != nil {
		return out, err
	}
	return out, proto.Unmarshal(b, out)
}

func (l *RefLog) slr() *trillian.SignedLogRoot {
	b, err := (&types.LogRootV1{TreeSize: l.tree.Size(), RootHash: l.tree.Hash(), TimestampNanos: l.tsNanos}).MarshalBinary()
	if err != nil {
		panic(err)
	}
	return &trillian.SignedLogRoot{LogRoot: b}
}

// Sequence integrates up to k queued leaves (all if k < 0) and publishes a new root with the given timestamp.
// It returns the new tree size.
func (l *RefLog) Sequence(k int, tsNanos uint64) uint64 {
	l.mu.Lock()
	defer l.mu.Unlock()
	if k < 0 || k > len(l.pending) {
		k = len(l.pending)
	}
	for _, lf := range l.pending[:k] {
		lf.LeafIndex = int64(len(l.leaves))
		lf.MerkleLeafHash = rfc6962.DefaultHasher.HashLeaf(lf.LeafValue)
		l.leaves = append(l.leaves, lf)
		l.tree.AppendData(lf.LeafValue)
	}
	l.pending = l.pending[k:]
	l.tsNanos = tsNanos
	l.Roots = append(l.Roots, RefRoot{l.tree.Size(), l.tree.Hash(), tsNanos})
	return l.tree.Size()
}

// LastQueuedIdentity is the LeafIdentityHash of the most recent QueueLeaf request as the caller sent it.
func (l *RefLog) LastQueuedIdentity() []byte {
	l.mu.Lock()
	defer l.mu.Unlock()
	return append([]byte(nil), l.lastID...)
}

// PendingIdentities lists the identity hashes of the queued (not yet integrated) leaves in queue order.
func (l *RefLog) PendingIdentities() [][]byte {
	l.mu.Lock()
	defer l.mu.Unlock()
	var ids [][]byte
	for _, lf := range l.pending {
		ids = append(ids, append([]byte(nil), lf.LeafIdentityHash...))
	}
	return ids
}

// NumRoots is the number of roots published so far; RootN returns the i-th of them (both safe for concurrent use).
func (l *RefLog) NumRoots() int { l.mu.Lock(); defer l.mu.Unlock(); return len(l.Roots) }
func (l *RefLog) RootN(i int) RefRoot {
	l.mu.Lock()
	defer l.mu.Unlock()
	return l.Roots[i]
}

// Size is the number of integrated leaves; Pending the number of queued ones.
func (l *RefLog) Size() uint64 { l.mu.Lock(); defer l.mu.Unlock(); return l.tree.Size() }
func (l *RefLog) Pending() int { l.mu.Lock(); defer l.mu.Unlock(); return len(l.pending) }

// RootAt returns the root hash of the first n integrated leaves.
func (l *RefLog) RootAt(n uint64) []byte { l.mu.Lock(); defer l.mu.Unlock(); return l.tree.HashAt(n) }

// Leaf returns a copy of the integrated leaf at index i (nil if none).
func (l *RefLog) Leaf(i int64) *trillian.LogLeaf {
	l.mu.Lock()
	defer l.mu.Unlock()
	if i < 0 || i >= int64(len(l.leaves)) {
		return nil
	}
	return cloneLeaf(l.leaves[i])
}

// IndexOfIdentity returns the index of the integrated leaf with this identity hash (-1: unknown, -2: queued only).
func (l *RefLog) IndexOfIdentity(id []byte) int64 {
	l.mu.Lock()
	defer l.mu.Unlock()
	lf := l.byID[string(id)]
	if lf == nil {
		return -1
	}
	if lf.MerkleLeafHash == nil {
		return -2
	}
	return lf.LeafIndex
}

func cloneLeaf(lf *trillian.LogLeaf) *trillian.LogLeaf {
	return &trillian.LogLeaf{LeafValue: append([]byte(nil), lf.LeafValue...), ExtraData: append([]byte(nil), lf.ExtraData...),
		LeafIdentityHash: append([]byte(nil), lf.LeafIdentityHash...), MerkleLeafHash: append([]byte(nil), lf.MerkleLeafHash...), LeafIndex: lf.LeafIndex}
}

func (l *RefLog) QueueLeaf(_ context.Context, in *trillian.QueueLeafRequest, _ ...grpc.CallOption) (*trillian.QueueLeafResponse, error) {
	l.mu.Lock()
	defer l.mu.Unlock()
	l.Calls["QueueLeaf"]++
	if in.Leaf == nil || len(in.Leaf.LeafValue) == 0 {
		return nil, status.Error(codes.InvalidArgument, "reflog: empty leaf")
	}
	id := in.Leaf.LeafIdentityHash
	l.lastID = append([]byte(nil), id...)
	if len(id) == 0 {
		id = rfc6962.DefaultHasher.HashLeaf(in.Leaf.LeafValue)
	}
	if old := l.byID[string(id)]; old != nil {
		return overTheWire(l.Wire, &trillian.QueueLeafResponse{QueuedLeaf: &trillian.QueuedLogLeaf{Leaf: cloneLeaf(old), Status: status.New(codes.AlreadyExists, "duplicate").Proto()}}, &trillian.QueueLeafResponse{})
	}
	lf := &trillian.LogLeaf{LeafValue: append([]byte(nil), in.Leaf.LeafValue...), ExtraData: append([]byte(nil), in.Leaf.ExtraData...),
		LeafIdentityHash: append([]byte(nil), id...)}
	l.byID[string(id)] = lf
	l.pending = append(l.pending, lf)
	return overTheWire(l.Wire, &trillian.QueueLeafResponse{QueuedLeaf: &trillian.QueuedLogLeaf{Leaf: cloneLeaf(lf)}}, &trillian.QueueLeafResponse{})
}

func (l *RefLog) GetLatestSignedLogRoot(_ context.Context, _ *trillian.GetLatestSignedLogRootRequest, _ ...grpc.CallOption) (*trillian.GetLatestSignedLogRootResponse, error) {
	l.mu.Lock()
	defer l.mu.Unlock()
	l.Calls["GetLatestSignedLogRoot"]++
	return overTheWire(l.Wire, &trillian.GetLatestSignedLogRootResponse{SignedLogRoot: l.slr()}, &trillian.GetLatestSignedLogRootResponse{})
}

func (l *RefLog) GetConsistencyProof(_ context.Context, in *trillian.GetConsistencyProofRequest, _ ...grpc.CallOption) (*trillian.GetConsistencyProofResponse, error) {
	l.mu.Lock()
	defer l.mu.Unlock()
	l.Calls["GetConsistencyProof"]++
	if in.FirstTreeSize <= 0 || in.SecondTreeSize < in.FirstTreeSize {
		return nil, status.Error(codes.InvalidArgument, "reflog: bad consistency range")
	}
	if uint64(in.SecondTreeSize) > l.tree.Size() {
		return overTheWire(l.Wire, &trillian.GetConsistencyProofResponse{SignedLogRoot: l.slr()}, &trillian.GetConsistencyProofResponse{}) // the caller sees a root that is too small
	}
	p, err := l.tree.ConsistencyProof(uint64(in.FirstTreeSize), uint64(in.SecondTreeSize))
	if err != nil {
		return nil, status.Error(codes.Internal, err.Error())
	}
	return overTheWire(l.Wire, &trillian.GetConsistencyProofResponse{SignedLogRoot: l.slr(), Proof: &trillian.Proof{Hashes: p}}, &trillian.GetConsistencyProofResponse{})
}

func (l *RefLog) GetInclusionProofByHash(_ context.Context, in *trillian.GetInclusionProofByHashRequest, _ ...grpc.CallOption) (*trillian.GetInclusionProofByHashResponse, error) {
	l.mu.Lock()
	defer l.mu.Unlock()
	l.Calls["GetInclusionProofByHash"]++
	if in.TreeSize <= 0 || len(in.LeafHash) != 32 {
		return nil, status.Error(codes.InvalidArgument, "reflog: bad request")
	}
	if uint64(in.TreeSize) > l.tree.Size() {
		return overTheWire(l.Wire, &trillian.GetInclusionProofByHashResponse{SignedLogRoot: l.slr()}, &trillian.GetInclusionProofByHashResponse{})
	}
	var proofs []*trillian.Proof
	for i := int64(0); i < in.TreeSize; i++ {
		if bytes.Equal(l.leaves[i].MerkleLeafHash, in.LeafHash) {
			p, err := l.tree.InclusionProof(uint64(i), uint64(in.TreeSize))
			if err != nil {
				return nil, status.Error(codes.Internal, err.Error())
			}
			proofs = append(proofs, &trillian.Proof{LeafIndex: i, Hashes: p})
		}
	}
	if len(proofs) == 0 {
		return nil, status.Error(codes.NotFound, "reflog: no such leaf hash in that tree")
	}
	return overTheWire(l.Wire, &trillian.GetInclusionProofByHashResponse{SignedLogRoot: l.slr(), Proof: proofs}, &trillian.GetInclusionProofByHashResponse{})
}

func (l *RefLog) GetInclusionProof(_ context.Context, in *trillian.GetInclusionProofRequest, _ ...grpc.CallOption) (*trillian.GetInclusionProofResponse, error) {
	l.mu.Lock()
	defer l.mu.Unlock()
	l.Calls["GetInclusionProof"]++
	if in.TreeSize <= 0 || in.LeafIndex < 0 || in.LeafIndex >= in.TreeSize {
		return nil, status.Error(codes.InvalidArgument, "reflog: bad request")
	}
	if uint64(in.TreeSize) > l.tree.Size() {
		return overTheWire(l.Wire, &trillian.GetInclusionProofResponse{SignedLogRoot: l.slr()}, &trillian.GetInclusionProofResponse{})
	}
	p, err := l.tree.InclusionProof(uint64(in.LeafIndex), uint64(in.TreeSize))
	if err != nil {
		return nil, status.Error(codes.Internal, err.Error())
	}
	return overTheWire(l.Wire, &trillian.GetInclusionProofResponse{SignedLogRoot: l.slr(), Proof: &trillian.Proof{LeafIndex: in.LeafIndex, Hashes: p}}, &trillian.GetInclusionProofResponse{})
}

func (l *RefLog) GetEntryAndProof(_ context.Context, in *trillian.GetEntryAndProofRequest, _ ...grpc.CallOption) (*trillian.GetEntryAndProofResponse, error) {
	l.mu.Lock()
	defer l.mu.Unlock()
	l.Calls["GetEntryAndProof"]++
	if in.TreeSize <= 0 || in.LeafIndex < 0 || in.LeafIndex >= in.TreeSize {
		return nil, status.Error(codes.InvalidArgument, "reflog: bad request")
	}
	if uint64(in.TreeSize) > l.tree.Size() {
		return overTheWire(l.Wire, &trillian.GetEntryAndProofResponse{SignedLogRoot: l.slr()}, &trillian.GetEntryAndProofResponse{})
	}
	p, err := l.tree.InclusionProof(uint64(in.LeafIndex), uint64(in.TreeSize))
	if err != nil {
		return nil, status.Error(codes.Internal, err.Error())
	}
	return overTheWire(l.Wire, &trillian.GetEntryAndProofResponse{SignedLogRoot: l.slr(), Proof: &trillian.Proof{LeafIndex: in.LeafIndex, Hashes: p}, Leaf: cloneLeaf(l.leaves[in.LeafIndex])}, &trillian.GetEntryAndProofResponse{})
}

func (l *RefLog) GetLeavesByRange(_ context.Context, in *trillian.GetLeavesByRangeRequest, _ ...grpc.CallOption) (*trillian.GetLeavesByRangeResponse, error) {
	l.mu.Lock()
	defer l.mu.Unlock()
	l.Calls["GetLeavesByRange"]++
	if in.StartIndex < 0 || in.Count <= 0 {
		return nil, status.Error(codes.InvalidArgument, "reflog: bad range")
	}
	rsp := &trillian.GetLeavesByRangeResponse{SignedLogRoot: l.slr()}
	for i := in.StartIndex; i < in.StartIndex+in.Count && i < int64(len(l.leaves)); i++ {
		rsp.Leaves = append(rsp.Leaves, cloneLeaf(l.leaves[i]))
	}
	return overTheWire(l.Wire, rsp, &trillian.GetLeavesByRangeResponse{})
}

func (l *RefLog) InitLog(_ context.Context, _ *trillian.InitLogRequest, _ ...grpc.CallOption) (*trillian.InitLogResponse, error) {
	return nil, errUnimpl
}
func (l *RefLog) AddSequencedLeaves(_ context.Context, _ *trillian.AddSequencedLeavesRequest, _ ...grpc.CallOption) (*trillian.AddSequencedLeavesResponse, error) {
	return nil, errUnimpl
}
