//go:build verif

package verifkit

// Signature helpers shared by the C05 and C12 harnesses: a cached key set, signing with the
// standard library, an independent (deliberately lenient) reader of SEQUENCE{INTEGER,INTEGER},
// the standard library's verdict on (key, digest, r, s), and the RFC 6962 §3.2/§3.5 signature
// inputs written by hand (not through the repository's tls codec).

import (
	"bytes"
	"crypto"
	"crypto/dsa" //nolint:staticcheck
	"crypto/ecdsa"
	"crypto/ed25519"
	"crypto/elliptic"
	_ "crypto/md5"
	"crypto/rand"
	"crypto/rsa"
	_ "crypto/sha1"
	_ "crypto/sha256"
	_ "crypto/sha512"
	"crypto/x509"
	stdasn1 "encoding/asn1"
	"encoding/binary"
	"encoding/pem"
	"math/big"
	"sync"
)

// SKey is one key of the cached set.
type SKey struct {
	Name string // e.g. "rsa2048", "p256", "dsa2048", "ed25519"
	Kind string // "rsa" | "dsa" | "ecdsa" | "ed25519"
	Bits int    // RSA: modulus bits
	P256 bool   // ECDSA: on P-256
	Pub  crypto.PublicKey
	priv interface{}
	SPKI []byte // PKIX DER of the public key when the standard library can marshal it
}

// RFC 5246 §7.4.1.4.1 HashAlgorithm codes.
var rfcHash = map[int]crypto.Hash{1: crypto.MD5, 2: crypto.SHA1, 3: crypto.SHA224, 4: crypto.SHA256, 5: crypto.SHA384, 6: crypto.SHA512}

// RFC 5246 §7.4.1.4.1 SignatureAlgorithm codes.
var RFCSigKind = map[int]string{1: "rsa", 2: "dsa", 3: "ecdsa"}

// Digest hashes msg under the RFC 5246 hash code (ok=false: code not in 1..6).
func Digest(code int, msg []byte) (crypto.Hash, []byte, bool) {
	h, ok := rfcHash[code]
	if !ok {
		return 0, nil, false
	}
	w := h.New()
	w.Write(msg)
	return h, w.Sum(nil), true
}

var (
	keysOnce sync.Once
	keys     []*SKey
)

// DSAKeyPEM must be set (to an OpenSSL "DSA PRIVATE KEY" block) before Keys() if a DSA key is wanted.
var DSAKeyPEM string

// Keys returns the cached key set: RSA 1024/2048/3072 (+ a second 2048), P-224/256/384/521 (+ a second P-256),
// DSA (from DSAKeyPEM), Ed25519.
func Keys() []*SKey {
	keysOnce.Do(func() {
		add := func(k *SKey) {
			if der, err := x509.MarshalPKIXPublicKey(k.Pub); err == nil {
				k.SPKI = der
			}
			keys = append(keys, k)
		}
		for _, spec := range []struct {
			name string
			bits int
		}{{"rsa1024", 1024}, {"rsa2048", 2048}, {"rsa2048b", 2048}, {"rsa3072", 3072}} {
			p, err := rsa.GenerateKey(rand.Reader, spec.bits)
			if err != nil {
				panic(err)
			}
			add(&SKey{Name: spec.name, Kind: "rsa", Bits: p.N.BitLen(), Pub: &p.PublicKey, priv: p})
		}
		for _, spec := range []struct {
			name string
			c    elliptic.Curve
		}{{"p224", elliptic.P224()}, {"p256", elliptic.P256()}, {"p256b", elliptic.P256()}, {"p384", elliptic.P384()}, {"p521", elliptic.P521()}} {
			p, err := ecdsa.GenerateKey(spec.c, rand.Reader)
			if err != nil {
				panic(err)
			}
			add(&SKey{Name: spec.name, Kind: "ecdsa", P256: spec.c == elliptic.P256(), Pub: &p.PublicKey, priv: p})
		}
		if DSAKeyPEM != "" {
			blk, _ := pem.Decode([]byte(DSAKeyPEM))
			var k struct {
				Version       int
				P, Q, G, Y, X *big.Int
			}
			if blk == nil {
				panic("verifkit: bad DSA PEM")
			}
			if _, err := stdasn1.Unmarshal(blk.Bytes, &k); err != nil {
				panic(err)
			}
			p := &dsa.PrivateKey{PublicKey: dsa.PublicKey{Parameters: dsa.Parameters{P: k.P, Q: k.Q, G: k.G}, Y: k.Y}, X: k.X}
			add(&SKey{Name: "dsa", Kind: "dsa", Bits: k.P.BitLen(), Pub: &p.PublicKey, priv: p})
		}
		pub, priv, err := ed25519.GenerateKey(rand.Reader)
		if err != nil {
			panic(err)
		}
		add(&SKey{Name: "ed25519", Kind: "ed25519", Pub: pub, priv: priv})
	})
	return keys
}

// KeyByName returns the named key of the set (nil if absent).
func KeyByName(name string) *SKey {
	for _, k := range Keys() {
		if k.Name == name {
			return k
		}
	}
	return nil
}

// SignRS signs a digest with an ECDSA or DSA key.
func (k *SKey) SignRS(digest []byte) (r, s *big.Int) {
	var err error
	switch p := k.priv.(type) {
	case *ecdsa.PrivateKey:
		r, s, err = ecdsa.Sign(rand.Reader, p, digest)
	case *dsa.PrivateKey:
		r, s, err = dsa.Sign(rand.Reader, p, digest)
	default:
		panic("verifkit: SignRS on " + k.Kind)
	}
	if err != nil {
		panic(err)
	}
	return
}

// Sign produces the signature octets a log would put into a DigitallySigned for this key:
// PKCS#1 v1.5 for RSA, DER SEQUENCE{r,s} for (EC)DSA, raw Ed25519 otherwise (no TLS code point exists for it).
func (k *SKey) Sign(hashCode int, msg []byte) []byte {
	h, d, ok := Digest(hashCode, msg)
	if !ok {
		panic("verifkit: Sign with unsupported hash code")
	}
	switch p := k.priv.(type) {
	case *rsa.PrivateKey:
		sig, err := rsa.SignPKCS1v15(rand.Reader, p, h, d)
		if err != nil {
			panic(err)
		}
		return sig
	case ed25519.PrivateKey:
		return ed25519.Sign(p, msg)
	}
	r, s := k.SignRS(d)
	return CanonRS(r, s)
}

// CanonRS is the DER encoding of SEQUENCE{INTEGER r, INTEGER s} (standard library encoder).
func CanonRS(r, s *big.Int) []byte {
	b, err := stdasn1.Marshal(struct{ R, S *big.Int }{r, s})
	if err != nil {
		panic(err)
	}
	return b
}

func lenientLen(b []byte) (n int, rest []byte, ok bool) {
	if len(b) == 0 {
		return 0, nil, false
	}
	c := int(b[0])
	b = b[1:]
	if c < 0x80 {
		return c, b, true
	}
	k := c & 0x7f
	if k == 0 || k > len(b) {
		return 0, nil, false
	}
	v := new(big.Int).SetBytes(b[:k])
	if !v.IsInt64() || v.Int64() > 1<<40 {
		return 0, nil, false
	}
	return int(v.Int64()), b[k:], true
}

func lenientTLV(b []byte) (content, rest []byte, ok bool) {
	if len(b) == 0 {
		return nil, nil, false
	}
	n, r, ok := lenientLen(b[1:])
	if !ok || n > len(r) {
		return nil, nil, false
	}
	return r[:n], r[n:], true
}

func twos(c []byte) *big.Int {
	v := new(big.Int).SetBytes(c)
	if len(c) > 0 && c[0]&0x80 != 0 {
		v.Sub(v, new(big.Int).Lsh(big.NewInt(1), uint(8*len(c))))
	}
	return v
}

// LenientRS reads two integers out of anything shaped like TLV{TLV TLV …}: any identifier octets, any
// definite length form (minimal or not), any two's-complement content including the empty one.
// It accepts a superset of what a DER parser accepts and agrees with it on the values.
func LenientRS(sig []byte) (r, s *big.Int, ok bool) {
	in, _, ok := lenientTLV(sig)
	if !ok {
		return nil, nil, false
	}
	c1, in, ok := lenientTLV(in)
	if !ok {
		return nil, nil, false
	}
	c2, _, ok := lenientTLV(in)
	if !ok {
		return nil, nil, false
	}
	return twos(c1), twos(c2), true
}

// StrictRS: sig = DER(SEQUENCE{r,s}) ++ rest for the (r, s) read leniently — the acceptance condition of the property
// ("bytes trailing a complete DER-encoded ECDSA or DSA value are ignored").
func StrictRS(sig []byte) (r, s *big.Int, ok bool) {
	r, s, ok = LenientRS(sig)
	if !ok {
		return nil, nil, false
	}
	return r, s, bytes.HasPrefix(sig, CanonRS(r, s))
}

// PrimRaw is the standard library's verdict for an RSA key on the raw signature octets.
func (k *SKey) PrimRaw(h crypto.Hash, digest, sig []byte) bool {
	p, ok := k.Pub.(*rsa.PublicKey)
	return ok && rsa.VerifyPKCS1v15(p, h, digest, sig) == nil
}

// PrimRS is the standard library's verdict for an (EC)DSA key on (digest, r, s).
func (k *SKey) PrimRS(digest []byte, r, s *big.Int) bool {
	if r == nil || s == nil {
		return false
	}
	switch p := k.Pub.(type) {
	case *ecdsa.PublicKey:
		return ecdsa.Verify(p, digest, r, s)
	case *dsa.PublicKey:
		return dsa.Verify(p, digest, r, s)
	}
	return false
}

// Verdict is what the C05 line protocol carries about one (key, hash code, message, signature octets).
type Verdict struct {
	R, S   *big.Int // lenient reading (nil when unreadable)
	Prim   bool     // standard library's verdict on (key, digest, R, S) resp. (key, hash, digest, octets)
	Strict bool     // (EC)DSA: the octets are DER(R,S) followed by anything
	HashOK bool
}

// Judge computes the verdict independently of the code under test.
func (k *SKey) Judge(hashCode int, msg, sig []byte) Verdict {
	var v Verdict
	v.R, v.S, _ = LenientRS(sig)
	if v.R != nil {
		_, _, v.Strict = StrictRS(sig)
	}
	h, d, ok := Digest(hashCode, msg)
	v.HashOK = ok
	if !ok {
		return v
	}
	switch k.Kind {
	case "rsa":
		v.Prim = k.PrimRaw(h, d, sig)
	case "dsa", "ecdsa":
		v.Prim = k.PrimRS(d, v.R, v.S)
	}
	return v
}

// Expect is the property's acceptance predicate for tls.VerifySignature(key, msg, {hash, alg, sig}).
func (k *SKey) Expect(hashCode, sigAlg int, v Verdict) bool {
	if !v.HashOK || RFCSigKind[sigAlg] != k.Kind {
		return false
	}
	if k.Kind == "rsa" {
		return v.Prim
	}
	return v.Strict && v.R.Sign() > 0 && v.S.Sign() > 0 && v.Prim
}

func IntStr(x *big.Int) string {
	if x == nil {
		return "-"
	}
	return x.String()
}

// SCTSigInput is RFC 6962 §3.2's digitally-signed struct, written by hand. etype 0: cert; 1: ikh (32 bytes) + tbs.
// nil = not expressible (version ≠ v1, other entry types, lengths outside the RFC's bounds).
func SCTSigInput(version uint64, ts uint64, etype uint64, cert, ikh, tbs, ext []byte) []byte {
	if version != 0 || len(ext) > 65535 {
		return nil
	}
	var b bytes.Buffer
	b.WriteByte(0) // v1
	b.WriteByte(0) // certificate_timestamp
	binary.Write(&b, binary.BigEndian, ts)
	u24 := func(n int) { b.Write([]byte{byte(n >> 16), byte(n >> 8), byte(n)}) }
	switch etype {
	case 0:
		if len(cert) < 1 || len(cert) > 1<<24-1 {
			return nil
		}
		b.Write([]byte{0, 0})
		u24(len(cert))
		b.Write(cert)
	case 1:
		if len(tbs) < 1 || len(tbs) > 1<<24-1 || len(ikh) != 32 {
			return nil
		}
		b.Write([]byte{0, 1})
		b.Write(ikh)
		u24(len(tbs))
		b.Write(tbs)
	default:
		return nil
	}
	b.Write([]byte{byte(len(ext) >> 8), byte(len(ext))})
	b.Write(ext)
	return b.Bytes()
}

// STHSigInput is RFC 6962 §3.5's TreeHeadSignature, written by hand.
func STHSigInput(version, ts, size uint64, root []byte) []byte {
	if version != 0 || len(root) != 32 {
		return nil
	}
	var b bytes.Buffer
	b.WriteByte(0) // v1
	b.WriteByte(1) // tree_hash
	binary.Write(&b, binary.BigEndian, ts)
	binary.Write(&b, binary.BigEndian, size)
	b.Write(root)
	return b.Bytes()
}
