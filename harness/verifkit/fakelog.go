//go:build verif

package verifkit

import (
	"context"

	"github.com/google/trillian"
	"google.golang.org/grpc"
	"google.golang.org/grpc/codes"
	"google.golang.org/grpc/status"
)

// FuncLog is a trillian.TrillianLogClient whose methods are function fields;
// unset methods answer Unimplemented. Calls counts every RPC made.
type FuncLog struct {
	Calls                    int
	QueueLeafF               func(*trillian.QueueLeafRequest) (*trillian.QueueLeafResponse, error)
	GetInclusionProofF       func(*trillian.GetInclusionProofRequest) (*trillian.GetInclusionProofResponse, error)
	GetInclusionProofByHashF func(*trillian.GetInclusionProofByHashRequest) (*trillian.GetInclusionProofByHashResponse, error)
	GetConsistencyProofF     func(*trillian.GetConsistencyProofRequest) (*trillian.GetConsistencyProofResponse, error)
	GetLatestSignedLogRootF  func(*trillian.GetLatestSignedLogRootRequest) (*trillian.GetLatestSignedLogRootResponse, error)
	GetEntryAndProofF        func(*trillian.GetEntryAndProofRequest) (*trillian.GetEntryAndProofResponse, error)
	AddSequencedLeavesF      func(*trillian.AddSequencedLeavesRequest) (*trillian.AddSequencedLeavesResponse, error)
	GetLeavesByRangeF        func(*trillian.GetLeavesByRangeRequest) (*trillian.GetLeavesByRangeResponse, error)
}

var errUnimpl = status.Error(codes.Unimplemented, "verifkit: not scripted")

func (f *FuncLog) QueueLeaf(_ context.Context, in *trillian.QueueLeafRequest, _ ...grpc.CallOption) (*trillian.QueueLeafResponse, error) {
	f.Calls++
	if f.QueueLeafF == nil {
		return nil, errUnimpl
	}
	return f.QueueLeafF(in)
}
func (f *FuncLog) GetInclusionProof(_ context.Context, in *trillian.GetInclusionProofRequest, _ ...grpc.CallOption) (*trillian.GetInclusionProofResponse, error) {
	f.Calls++
	if f.GetInclusionProofF == nil {
		return nil, errUnimpl
	}
	return f.GetInclusionProofF(in)
}
func (f *FuncLog) GetInclusionProofByHash(_ context.Context, in *trillian.GetInclusionProofByHashRequest, _ ...grpc.CallOption) (*trillian.GetInclusionProofByHashResponse, error) {
	f.Calls++
	if f.GetInclusionProofByHashF == nil {
		return nil, errUnimpl
	}
	return f.GetInclusionProofByHashF(in)
}
func (f *FuncLog) GetConsistencyProof(_ context.Context, in *trillian.GetConsistencyProofRequest, _ ...grpc.CallOption) (*trillian.GetConsistencyProofResponse, error) {
	f.Calls++
	if f.GetConsistencyProofF == nil {
		return nil, errUnimpl
	}
	return f.GetConsistencyProofF(in)
}
func (f *FuncLog) GetLatestSignedLogRoot(_ context.Context, in *trillian.GetLatestSignedLogRootRequest, _ ...grpc.CallOption) (*trillian.GetLatestSignedLogRootResponse, error) {
	f.Calls++
	if f.GetLatestSignedLogRootF == nil {
		return nil, errUnimpl
	}
	return f.GetLatestSignedLogRootF(in)
}
func (f *FuncLog) GetEntryAndProof(_ context.Context, in *trillian.GetEntryAndProofRequest, _ ...grpc.CallOption) (*trillian.GetEntryAndProofResponse, error) {
	f.Calls++
	if f.GetEntryAndProofF == nil {
		return nil, errUnimpl
	}
	return f.GetEntryAndProofF(in)
}
func (f *FuncLog) InitLog(_ context.Context, _ *trillian.InitLogRequest, _ ...grpc.CallOption) (*trillian.InitLogResponse, error) {
	f.Calls++
	return nil, errUnimpl
}
func (f *FuncLog) AddSequencedLeaves(_ context.Context, in *trillian.AddSequencedLeavesRequest, _ ...grpc.CallOption) (*trillian.AddSequencedLeavesResponse, error) {
	f.Calls++
	if f.AddSequencedLeavesF == nil {
		return nil, errUnimpl
	}
	return f.AddSequencedLeavesF(in)
}
func (f *FuncLog) GetLeavesByRange(_ context.Context, in *trillian.GetLeavesByRangeRequest, _ ...grpc.CallOption) (*trillian.GetLeavesByRangeResponse, error) {
	f.Calls++
	if f.GetLeavesByRangeF == nil {
		return nil, errUnimpl
	}
	return f.GetLeavesByRangeF(in)
}
