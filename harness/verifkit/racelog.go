//go:build verif

package verifkit

import (
	"fmt"
	"os"
	"regexp"
	"strings"
)

var raceFrame = regexp.MustCompile(`(?m)^  (\S+)\(\)\n\s+(\S+?):(\d+)`)

// RaceReports returns one summary line per distinct data-race report the race detector has written so far. It needs the
// test binary to run with GORACE=log_path=<prefix> (the detector then writes to <prefix>.<pid> instead of stderr); without
// it, or without -race, the result is empty. A summary names the first non-runtime frame of both accesses.
func RaceReports() []string {
	prefix := ""
	for _, f := range strings.Fields(os.Getenv("GORACE")) {
		if strings.HasPrefix(f, "log_path=") {
			prefix = strings.TrimPrefix(f, "log_path=")
		}
	}
	if prefix == "" {
		return nil
	}
	path := fmt.Sprintf("%s.%d", prefix, os.Getpid())
	b, err := os.ReadFile(path)
	if err != nil {
		return nil
	}
	os.Remove(path)
	seen := map[string]bool{}
	var out []string
	for _, rep := range strings.Split(string(b), "==================") {
		if !strings.Contains(rep, "DATA RACE") {
			continue
		}
		var parts []string
		for _, sec := range strings.Split(rep, "\n\n") {
			sec = strings.TrimPrefix(strings.TrimSpace(sec), "WARNING: DATA RACE\n")
			head := strings.SplitN(strings.TrimSpace(sec), "\n", 2)[0]
			kind := ""
			switch {
			case strings.HasPrefix(head, "Read at"), strings.HasPrefix(head, "Previous read at"):
				kind = "read"
			case strings.HasPrefix(head, "Write at"), strings.HasPrefix(head, "Previous write at"):
				kind = "write"
			default:
				continue
			}
			m := raceFrame.FindStringSubmatch(sec)
			if m != nil {
				fn := m[1]
				if i := strings.LastIndex(fn, "/"); i >= 0 {
					fn = fn[i+1:]
				}
				file := m[2]
				if i := strings.LastIndex(file, "/"); i >= 0 {
					file = file[i+1:]
				}
				parts = append(parts, fmt.Sprintf("%s %s %s:%s", kind, fn, file, m[3]))
			}
		}
		s := strings.Join(parts, " <-> ")
		if s != "" && !seen[s] {
			seen[s] = true
			out = append(out, s)
		}
	}
	return out
}
