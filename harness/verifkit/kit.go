//go:build verif

// Package verifkit is overlaid into /repo/internal/verifkit by /verif's checks
// (go test -overlay); it is never part of the repository.
package verifkit

import (
	"bufio"
	"encoding/hex"
	"fmt"
	"os"
	"sort"
	"strconv"
	"strings"
	"sync"
)

// Rand is SplitMix64; every random choice of a harness derives from one state.
type Rand struct{ s uint64 }

func NewRand(seed uint64) *Rand { return &Rand{s: seed} }

func (r *Rand) U64() uint64 {
	r.s += 0x9e3779b97f4a7c15
	z := r.s
	z = (z ^ (z >> 30)) * 0xbf58476d1ce4e5b9
	z = (z ^ (z >> 27)) * 0x94d049bb133111eb
	return z ^ (z >> 31)
}
func (r *Rand) Intn(n int) int {
	if n <= 0 {
		return 0
	}
	return int(r.U64() % uint64(n))
}
func (r *Rand) I64n(n int64) int64 {
	if n <= 0 {
		return 0
	}
	return int64(r.U64() % uint64(n))
}
func (r *Rand) Bool() bool { return r.U64()&1 == 1 }
func (r *Rand) Bytes(n int) []byte {
	b := make([]byte, n)
	for i := range b {
		b[i] = byte(r.U64())
	}
	return b
}
func (r *Rand) Fork() *Rand { return NewRand(r.U64()) }

// Seed returns VERIF_SEED (default 1).
func Seed() uint64 {
	if v, err := strconv.ParseUint(os.Getenv("VERIF_SEED"), 10, 64); err == nil {
		return v
	}
	return 1
}

// Thorough reports whether VERIF_TIER=thorough.
func Thorough() bool { return os.Getenv("VERIF_TIER") == "thorough" }

// N picks the case count for the tier.
func N(quick, thorough int) int {
	if Thorough() {
		return thorough
	}
	return quick
}

// Out is the line writer shared by a harness run.
type Out struct {
	mu      sync.Mutex
	w       *bufio.Writer
	f       *os.File
	stats   map[string]int64
	samples int
	fails   int
}

// Open opens $VERIF_OUT (or stdout).
func Open() *Out {
	o := &Out{stats: map[string]int64{}}
	if p := os.Getenv("VERIF_OUT"); p != "" {
		f, err := os.Create(p)
		if err != nil {
			panic(err)
		}
		o.f = f
		o.w = bufio.NewWriterSize(f, 1<<16)
	} else {
		o.w = bufio.NewWriter(os.Stdout)
	}
	return o
}

// T writes a trace line: the operation and, after " => ", the implementation's answer.
func (o *Out) T(op, answer string) {
	o.mu.Lock()
	defer o.mu.Unlock()
	fmt.Fprintf(o.w, "T %s => %s\n", op, answer)
}

// Fail records a violation of the property itself observed on the implementation.
// key identifies the failing input / call site (matched against known_findings.json).
func (o *Out) Fail(key, detail string) {
	o.mu.Lock()
	defer o.mu.Unlock()
	o.fails++
	if o.fails <= 200 {
		fmt.Fprintf(o.w, "F %s | %s\n", key, strings.ReplaceAll(detail, "\n", "\\n"))
	}
}

// Count bumps a named counter (input-distribution histogram for the evidence file).
func (o *Out) Count(name string) { o.Add(name, 1) }
func (o *Out) Add(name string, n int64) {
	o.mu.Lock()
	defer o.mu.Unlock()
	o.stats[name] += n
}

// Sample records up to 8 example cases.
func (o *Out) Sample(s string) {
	o.mu.Lock()
	defer o.mu.Unlock()
	if o.samples < 8 {
		o.samples++
		if len(s) > 400 {
			s = s[:400] + "…"
		}
		fmt.Fprintf(o.w, "X %s\n", strings.ReplaceAll(s, "\n", "\\n"))
	}
}

// Close flushes counters and the file.
func (o *Out) Close() {
	o.mu.Lock()
	defer o.mu.Unlock()
	keys := make([]string, 0, len(o.stats))
	for k := range o.stats {
		keys = append(keys, k)
	}
	sort.Strings(keys)
	for _, k := range keys {
		fmt.Fprintf(o.w, "S %s %d\n", k, o.stats[k])
	}
	fmt.Fprintf(o.w, "END\n")
	o.w.Flush()
	if o.f != nil {
		o.f.Close()
	}
}

// Hex renders bytes for the line protocol ("-" for empty).
func Hex(b []byte) string {
	if len(b) == 0 {
		return "-"
	}
	return hex.EncodeToString(b)
}

// Guard runs f and reports a panic as a string ("" if none).
func Guard(f func()) (p string) {
	defer func() {
		if r := recover(); r != nil {
			p = fmt.Sprint(r)
		}
	}()
	f()
	return ""
}

func B(b bool) string {
	if b {
		return "1"
	}
	return "0"
}
