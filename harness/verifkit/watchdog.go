//go:build verif

package verifkit

import (
	"os"
	"time"
)

// Watchdog guards one scenario against loops that never block (under testing/synctest such a loop stops the fake
// clock, so no virtual-time limit can fire). Call it outside the bubble; call the returned function when the
// scenario is over. If the scenario is still running after d of real time, the failure is recorded with the
// scenario's key, the trace is closed properly and the test binary exits.
func (o *Out) Watchdog(d time.Duration, key string) (stop func()) {
	t := time.AfterFunc(d, func() {
		o.Fail("hang "+key, "the scenario did not finish within "+d.String()+" of real time: some goroutine loops without ever blocking")
		o.Close()
		os.Exit(3)
	})
	return func() { t.Stop() }
}
