//go:build verif

package verifkit

// An independent derivation of the RFC 6962 §3.2 `signed_entry` of a submission, used as the oracle for
// "the SCT verifies for the chain and entry type that was submitted": standard-library X.509 parsing and a
// hand-written removal of one extension from a TBSCertificate.  Nothing here calls the repository.

import (
	"bytes"
	"crypto/sha256"
	"crypto/x509"
	stdasn1 "encoding/asn1"
	"errors"
)

var (
	OIDPoison  = stdasn1.ObjectIdentifier{1, 3, 6, 1, 4, 1, 11129, 2, 4, 3}
	OIDSCTList = stdasn1.ObjectIdentifier{1, 3, 6, 1, 4, 1, 11129, 2, 4, 2}
	oidCTEKU   = stdasn1.ObjectIdentifier{1, 3, 6, 1, 4, 1, 11129, 2, 4, 4}
)

func derHeader(tag byte, n int) []byte {
	switch {
	case n < 0x80:
		return []byte{tag, byte(n)}
	case n < 0x100:
		return []byte{tag, 0x81, byte(n)}
	case n < 0x10000:
		return []byte{tag, 0x82, byte(n >> 8), byte(n)}
	default:
		return []byte{tag, 0x83, byte(n >> 16), byte(n >> 8), byte(n)}
	}
}

func derWrap(tag byte, content []byte) []byte {
	return append(derHeader(tag, len(content)), content...)
}

// elements splits the content octets of a constructed value into its elements (full encodings).
func elements(content []byte) ([]stdasn1.RawValue, error) {
	var out []stdasn1.RawValue
	for len(content) > 0 {
		var rv stdasn1.RawValue
		rest, err := stdasn1.Unmarshal(content, &rv)
		if err != nil {
			return nil, err
		}
		out = append(out, rv)
		content = rest
	}
	return out, nil
}

// StripExtension returns the TBSCertificate with exactly one occurrence of the extension `oid` removed and every other
// octet kept (lengths of the enclosing SEQUENCEs re-encoded minimally).  Error if the extension is absent or repeated.
func StripExtension(tbs []byte, oid stdasn1.ObjectIdentifier) ([]byte, error) {
	var outer stdasn1.RawValue
	if rest, err := stdasn1.Unmarshal(tbs, &outer); err != nil || len(rest) != 0 || outer.Tag != stdasn1.TagSequence {
		return nil, errors.New("verifkit: TBSCertificate is not one SEQUENCE")
	}
	fields, err := elements(outer.Bytes)
	if err != nil {
		return nil, err
	}
	var body bytes.Buffer
	removed := 0
	for _, f := range fields {
		if !(f.Class == stdasn1.ClassContextSpecific && f.Tag == 3) {
			body.Write(f.FullBytes)
			continue
		}
		var list stdasn1.RawValue // Extensions ::= SEQUENCE OF Extension
		if rest, err := stdasn1.Unmarshal(f.Bytes, &list); err != nil || len(rest) != 0 {
			return nil, errors.New("verifkit: malformed extensions")
		}
		exts, err := elements(list.Bytes)
		if err != nil {
			return nil, err
		}
		var kept bytes.Buffer
		for _, e := range exts {
			parts, err := elements(e.Bytes)
			if err != nil || len(parts) < 2 {
				return nil, errors.New("verifkit: malformed extension")
			}
			var id stdasn1.ObjectIdentifier
			if _, err := stdasn1.Unmarshal(parts[0].FullBytes, &id); err != nil {
				return nil, err
			}
			if id.Equal(oid) {
				removed++
				continue
			}
			kept.Write(e.FullBytes)
		}
		body.Write(derWrap(0xa3, derWrap(0x30, kept.Bytes())))
	}
	if removed != 1 {
		return nil, errors.New("verifkit: extension not present exactly once")
	}
	return derWrap(0x30, body.Bytes()), nil
}

// IndependentEntry derives the signed entry of RFC 6962 §3.2 for a submitted chain (DER certificates, leaf first).
//   - precert=false: x509_entry, the leaf certificate as submitted;
//   - precert=true:  precert_entry, issuer_key_hash = SHA-256 of the issuer's SubjectPublicKeyInfo, TBSCertificate = the
//     leaf's TBSCertificate without the poison extension (strip = OIDPoison) or without the SCT list (strip = OIDSCTList,
//     for a final certificate with embedded SCTs).
//
// ok=false when the submission has no entry (empty chain, unparsable certificate, missing issuer, extension absent) or when
// it needs the Precertificate Signing Certificate rewrite (issuer with the CT EKU), which this oracle does not implement.
func IndependentEntry(chain [][]byte, precert bool, strip stdasn1.ObjectIdentifier) (etype uint64, cert, ikh, tbs []byte, ok bool) {
	if len(chain) == 0 {
		return 0, nil, nil, nil, false
	}
	if !precert {
		// the signed entry is the leaf certificate exactly as submitted, whatever a parser thinks of it
		return 0, chain[0], nil, nil, true
	}
	leaf, err := x509.ParseCertificate(chain[0])
	if err != nil {
		return 0, nil, nil, nil, false
	}
	if len(chain) < 2 {
		return 0, nil, nil, nil, false
	}
	issuer, err := x509.ParseCertificate(chain[1])
	if err != nil {
		return 0, nil, nil, nil, false
	}
	for _, eku := range issuer.UnknownExtKeyUsage {
		if eku.Equal(oidCTEKU) {
			return 0, nil, nil, nil, false
		}
	}
	stripped, err := StripExtension(leaf.RawTBSCertificate, strip)
	if err != nil {
		return 0, nil, nil, nil, false
	}
	h := sha256.Sum256(issuer.RawSubjectPublicKeyInfo)
	return 1, nil, h[:], stripped, true
}

// NonMinimalSerial re-encodes a certificate with its serial number INTEGER zero-padded by one octet (`02 02 00 01` for 1):
// not DER, so a strict parser refuses it and only a lenient ("lax") one reads it.  Signature bytes are kept (and no longer match).
func NonMinimalSerial(cert []byte) ([]byte, error) {
	var outer stdasn1.RawValue
	if rest, err := stdasn1.Unmarshal(cert, &outer); err != nil || len(rest) != 0 {
		return nil, errors.New("verifkit: not one certificate")
	}
	parts, err := elements(outer.Bytes)
	if err != nil || len(parts) != 3 {
		return nil, errors.New("verifkit: malformed certificate")
	}
	fields, err := elements(parts[0].Bytes)
	if err != nil {
		return nil, err
	}
	var tbs bytes.Buffer
	done := false
	for _, f := range fields {
		if !done && f.Class == stdasn1.ClassUniversal && f.Tag == stdasn1.TagInteger {
			tbs.Write(derWrap(0x02, append([]byte{0}, f.Bytes...)))
			done = true
			continue
		}
		tbs.Write(f.FullBytes)
	}
	if !done {
		return nil, errors.New("verifkit: no serial number")
	}
	var body bytes.Buffer
	body.Write(derWrap(0x30, tbs.Bytes()))
	body.Write(parts[1].FullBytes)
	body.Write(parts[2].FullBytes)
	return derWrap(0x30, body.Bytes()), nil
}
