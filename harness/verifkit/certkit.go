//go:build verif

package verifkit

// An independent derivation of the RFC 6962 §3.2 `signed_entry` of a submission, used as the oracle for
// "the SCT verifies for the chain and entry type that was submitted": standard-library X.509 parsing and a
// hand-written removal of one extension from a TBSCertificate.  Nothing here calls the repository.

import (
	"bytes"
	"crypto/ecdsa"
	"crypto/elliptic"
	"crypto/rand"
	"crypto/sha256"
	"crypto/x509"
	"crypto/x509/pkix"
	stdasn1 "encoding/asn1"
	"errors"
	"math/big"
	"strings"
	"sync"
	"time"
)

var (
	OIDPoison  = stdasn1.ObjectIdentifier{1, 3, 6, 1, 4, 1, 11129, 2, 4, 3}
	OIDSCTList = stdasn1.ObjectIdentifier{1, 3, 6, 1, 4, 1, 11129, 2, 4, 2}
	oidCTEKU   = stdasn1.ObjectIdentifier{1, 3, 6, 1, 4, 1, 11129, 2, 4, 4}
)

func derHeader(tag byte, n int) []byte {
	switch {
	case n < 0x80:
		return []byte{tag, byte(n)}
	case n < 0x100:
		return []byte{tag, 0x81, byte(n)}
	case n < 0x10000:
		return []byte{tag, 0x82, byte(n >> 8), byte(n)}
	default:
		return []byte{tag, 0x83, byte(n >> 16), byte(n >> 8), byte(n)}
	}
}

func derWrap(tag byte, content []byte) []byte {
	return append(derHeader(tag, len(content)), content...)
}

// elements splits the content octets of a constructed value into its elements (full encodings).
func elements(content []byte) ([]stdasn1.RawValue, error) {
	var out []stdasn1.RawValue
	for len(content) > 0 {
		var rv stdasn1.RawValue
		rest, err := stdasn1.Unmarshal(content, &rv)
		if err != nil {
			return nil, err
		}
		out = append(out, rv)
		content = rest
	}
	return out, nil
}

// StripExtension returns the TBSCertificate with exactly one occurrence of the extension `oid` removed and every other
// octet kept (lengths of the enclosing SEQUENCEs re-encoded minimally).  Error if the extension is absent or repeated.
func StripExtension(tbs []byte, oid stdasn1.ObjectIdentifier) ([]byte, error) {
	var outer stdasn1.RawValue
	if rest, err := stdasn1.Unmarshal(tbs, &outer); err != nil || len(rest) != 0 || outer.Tag != stdasn1.TagSequence {
		return nil, errors.New("verifkit: TBSCertificate is not one SEQUENCE")
	}
	fields, err := elements(outer.Bytes)
	if err != nil {
		return nil, err
	}
	var body bytes.Buffer
	removed := 0
	for _, f := range fields {
		if !(f.Class == stdasn1.ClassContextSpecific && f.Tag == 3) {
			body.Write(f.FullBytes)
			continue
		}
		var list stdasn1.RawValue // Extensions ::= SEQUENCE OF Extension
		if rest, err := stdasn1.Unmarshal(f.Bytes, &list); err != nil || len(rest) != 0 {
			return nil, errors.New("verifkit: malformed extensions")
		}
		exts, err := elements(list.Bytes)
		if err != nil {
			return nil, err
		}
		var kept bytes.Buffer
		for _, e := range exts {
			parts, err := elements(e.Bytes)
			if err != nil || len(parts) < 2 {
				return nil, errors.New("verifkit: malformed extension")
			}
			var id stdasn1.ObjectIdentifier
			if _, err := stdasn1.Unmarshal(parts[0].FullBytes, &id); err != nil {
				return nil, err
			}
			if id.Equal(oid) {
				removed++
				continue
			}
			kept.Write(e.FullBytes)
		}
		body.Write(derWrap(0xa3, derWrap(0x30, kept.Bytes())))
	}
	if removed != 1 {
		return nil, errors.New("verifkit: extension not present exactly once")
	}
	return derWrap(0x30, body.Bytes()), nil
}

// IndependentEntry derives the signed entry of RFC 6962 §3.2 for a submitted chain (DER certificates, leaf first).
//   - precert=false: x509_entry, the leaf certificate as submitted;
//   - precert=true:  precert_entry, issuer_key_hash = SHA-256 of the issuer's SubjectPublicKeyInfo, TBSCertificate = the
//     leaf's TBSCertificate without the poison extension (strip = OIDPoison) or without the SCT list (strip = OIDSCTList,
//     for a final certificate with embedded SCTs).
//
// ok=false when the submission has no entry (empty chain, unparsable certificate, missing issuer, extension absent) or when
// it needs the Precertificate Signing Certificate rewrite (issuer with the CT EKU), which this oracle does not implement.
func IndependentEntry(chain [][]byte, precert bool, strip stdasn1.ObjectIdentifier) (etype uint64, cert, ikh, tbs []byte, ok bool) {
	if len(chain) == 0 {
		return 0, nil, nil, nil, false
	}
	if !precert {
		// the signed entry is the leaf certificate exactly as submitted, whatever a parser thinks of it
		return 0, chain[0], nil, nil, true
	}
	leaf, err := x509.ParseCertificate(chain[0])
	if err != nil {
		return 0, nil, nil, nil, false
	}
	if len(chain) < 2 {
		return 0, nil, nil, nil, false
	}
	issuer, err := x509.ParseCertificate(chain[1])
	if err != nil {
		return 0, nil, nil, nil, false
	}
	stripped, err := StripExtension(leaf.RawTBSCertificate, strip)
	if err != nil {
		return 0, nil, nil, nil, false
	}
	for _, eku := range issuer.UnknownExtKeyUsage {
		if eku.Equal(oidCTEKU) {
			// RFC 6962 §3.2: issued by a Precertificate Signing Certificate — the entry names the FINAL issuer: its key hash,
			// its name as the TBSCertificate's issuer, its key identifier as the authority key identifier
			if len(chain) < 3 {
				return 0, nil, nil, nil, false
			}
			final, err := x509.ParseCertificate(chain[2])
			if err != nil {
				return 0, nil, nil, nil, false
			}
			rewritten, err := reissueUnder(stripped, issuer)
			if err != nil {
				return 0, nil, nil, nil, false
			}
			h := sha256.Sum256(final.RawSubjectPublicKeyInfo)
			return 1, nil, h[:], rewritten, true
		}
	}
	h := sha256.Sum256(issuer.RawSubjectPublicKeyInfo)
	return 1, nil, h[:], stripped, true
}

var oidAKI = stdasn1.ObjectIdentifier{2, 5, 29, 35}

// reissueUnder rewrites a TBSCertificate issued by the Precertificate Signing Certificate `pre` as if the final CA had issued
// it: issuer := pre's issuer, authority key identifier := pre's authority key identifier.  Only the case in which both carry
// an authority key identifier is implemented (error otherwise).
func reissueUnder(tbs []byte, pre *x509.Certificate) ([]byte, error) {
	var preAKI []byte
	for _, e := range pre.Extensions {
		if e.Id.Equal(oidAKI) {
			preAKI = e.Value
		}
	}
	if preAKI == nil {
		return nil, errors.New("verifkit: pre-issuer without authority key identifier")
	}
	var outer stdasn1.RawValue
	if rest, err := stdasn1.Unmarshal(tbs, &outer); err != nil || len(rest) != 0 {
		return nil, errors.New("verifkit: TBSCertificate is not one SEQUENCE")
	}
	fields, err := elements(outer.Bytes)
	if err != nil {
		return nil, err
	}
	var body bytes.Buffer
	seqNo, replaced := 0, false
	for _, f := range fields {
		if f.Class == stdasn1.ClassUniversal && f.Tag == stdasn1.TagSequence {
			seqNo++
			if seqNo == 2 { // signature algorithm is the first SEQUENCE, the issuer Name the second
				body.Write(pre.RawIssuer)
				continue
			}
		}
		if !(f.Class == stdasn1.ClassContextSpecific && f.Tag == 3) {
			body.Write(f.FullBytes)
			continue
		}
		var list stdasn1.RawValue
		if rest, err := stdasn1.Unmarshal(f.Bytes, &list); err != nil || len(rest) != 0 {
			return nil, errors.New("verifkit: malformed extensions")
		}
		exts, err := elements(list.Bytes)
		if err != nil {
			return nil, err
		}
		var kept bytes.Buffer
		for _, e := range exts {
			parts, err := elements(e.Bytes)
			if err != nil || len(parts) < 2 {
				return nil, errors.New("verifkit: malformed extension")
			}
			var id stdasn1.ObjectIdentifier
			if _, err := stdasn1.Unmarshal(parts[0].FullBytes, &id); err != nil {
				return nil, err
			}
			if id.Equal(oidAKI) {
				var eb bytes.Buffer
				for _, p := range parts[:len(parts)-1] {
					eb.Write(p.FullBytes)
				}
				eb.Write(derWrap(0x04, preAKI))
				kept.Write(derWrap(0x30, eb.Bytes()))
				replaced = true
				continue
			}
			kept.Write(e.FullBytes)
		}
		body.Write(derWrap(0xa3, derWrap(0x30, kept.Bytes())))
	}
	if !replaced {
		return nil, errors.New("verifkit: precertificate without authority key identifier")
	}
	return derWrap(0x30, body.Bytes()), nil
}

var (
	preChainOnce sync.Once
	preChainKeys [3]*ecdsa.PrivateKey // final CA, Precertificate Signing Certificate, leaf
	preChainCA   *x509.Certificate
	preChainPre  *x509.Certificate
	preChainTop  [][]byte // DER of [signing certificate, CA]
	preChainMu   sync.Mutex
	preChainBy   = map[string][][]byte{}
)

var oidSAN = stdasn1.ObjectIdentifier{2, 5, 29, 17}

func preChainSetup() {
	preChainOnce.Do(func() {
		for i := range preChainKeys {
			k, err := ecdsa.GenerateKey(elliptic.P256(), rand.Reader)
			if err != nil {
				panic(err)
			}
			preChainKeys[i] = k
		}
		caKey, preKey := preChainKeys[0], preChainKeys[1]
		nb, na := time.Date(2020, 1, 1, 0, 0, 0, 0, time.UTC), time.Date(2040, 1, 1, 0, 0, 0, 0, time.UTC)
		caT := &x509.Certificate{SerialNumber: big.NewInt(1), Subject: pkix.Name{CommonName: "verif final CA"}, NotBefore: nb, NotAfter: na, IsCA: true,
			BasicConstraintsValid: true, KeyUsage: x509.KeyUsageCertSign, SubjectKeyId: []byte{1, 1, 1, 1}}
		caDER, err := x509.CreateCertificate(rand.Reader, caT, caT, &caKey.PublicKey, caKey)
		if err != nil {
			panic(err)
		}
		preChainCA, _ = x509.ParseCertificate(caDER)
		preT := &x509.Certificate{SerialNumber: big.NewInt(2), Subject: pkix.Name{CommonName: "verif precertificate signing certificate"}, NotBefore: nb, NotAfter: na, IsCA: true,
			BasicConstraintsValid: true, KeyUsage: x509.KeyUsageCertSign | x509.KeyUsageDigitalSignature, SubjectKeyId: []byte{2, 2, 2, 2},
			UnknownExtKeyUsage: []stdasn1.ObjectIdentifier{oidCTEKU}}
		preDER, err := x509.CreateCertificate(rand.Reader, preT, preChainCA, &preKey.PublicKey, caKey)
		if err != nil {
			panic(err)
		}
		preChainPre, _ = x509.ParseCertificate(preDER)
		preChainTop = [][]byte{preDER, caDER}
	})
}

// PreIssuerChain returns (generated once per run) the DER of [precertificate, Precertificate Signing Certificate (CT EKU), CA]:
// the precertificate carries the critical poison extension and is signed by the signing certificate, which the CA issued.
// The poison is the last extension (after the authority key identifier).
func PreIssuerChain() [][]byte { return PreIssuerChainOrder("") }

// PreIssuerChainOrder: the same chain with the precertificate's poison, authority key identifier and subject alternative name
// in the given order, e.g. "poison,aki,san" (the other extensions — key usage, subject key identifier — come before them);
// "" is the standard library's own order with the poison last.  The extension values do not depend on the order.
func PreIssuerChainOrder(order string) [][]byte {
	preChainSetup()
	preChainMu.Lock()
	defer preChainMu.Unlock()
	if c, ok := preChainBy[order]; ok {
		return c
	}
	nb, na := time.Date(2020, 1, 1, 0, 0, 0, 0, time.UTC), time.Date(2040, 1, 1, 0, 0, 0, 0, time.UTC)
	leafT := &x509.Certificate{SerialNumber: big.NewInt(3), Subject: pkix.Name{CommonName: "precert.example"}, NotBefore: nb, NotAfter: na,
		KeyUsage: x509.KeyUsageDigitalSignature, DNSNames: []string{"precert.example"}, SubjectKeyId: []byte{3, 3, 3, 3},
		ExtraExtensions: []pkix.Extension{{Id: OIDPoison, Critical: true, Value: []byte{5, 0}}}}
	if order != "" {
		// what the standard library would write for the two extensions, placed by hand
		aki := derWrap(0x30, derWrap(0x80, preChainPre.SubjectKeyId))
		san := derWrap(0x30, derWrap(0x82, []byte("precert.example")))
		leafT.DNSNames = nil
		leafT.ExtraExtensions = nil
		for _, name := range bytes.Split([]byte(order), []byte(",")) {
			switch string(name) {
			case "poison":
				leafT.ExtraExtensions = append(leafT.ExtraExtensions, pkix.Extension{Id: OIDPoison, Critical: true, Value: []byte{5, 0}})
			case "aki":
				leafT.ExtraExtensions = append(leafT.ExtraExtensions, pkix.Extension{Id: oidAKI, Value: aki})
			case "san":
				leafT.ExtraExtensions = append(leafT.ExtraExtensions, pkix.Extension{Id: oidSAN, Value: san})
			default:
				panic("verifkit: unknown extension name " + string(name))
			}
		}
	}
	leafDER, err := x509.CreateCertificate(rand.Reader, leafT, preChainPre, &preChainKeys[2].PublicKey, preChainKeys[1])
	if err != nil {
		panic(err)
	}
	c := [][]byte{leafDER, preChainTop[0], preChainTop[1]}
	preChainBy[order] = c
	return c
}

// ExtensionOrder lists the extension OIDs of a certificate in order (dotted), for messages.
func ExtensionOrder(der []byte) string {
	c, err := x509.ParseCertificate(der)
	if err != nil {
		return "?"
	}
	var parts []string
	for _, e := range c.Extensions {
		parts = append(parts, e.Id.String())
	}
	return strings.Join(parts, " ")
}

// EmbeddedSCTChain builds, with the standard library, [final certificate with an embedded SCT list, CA] valid from notBefore to
// notAfter.  sign(tbsWithoutList, issuerKeyHash) must return the serialized SCT to embed: the certificate is created twice from
// the same template (a TBSCertificate is a deterministic function of the template), first with a placeholder list to learn the
// TBSCertificate without the list, then with the real one.
func EmbeddedSCTChain(notBefore, notAfter time.Time, sign func(tbs, ikh []byte) []byte) (chain [][]byte, err error) {
	preChainSetup()
	caKey, leafKey := preChainKeys[0], preChainKeys[2]
	caT := &x509.Certificate{SerialNumber: big.NewInt(11), Subject: pkix.Name{CommonName: "verif CA for embedded SCTs"},
		NotBefore: time.Date(1940, 1, 1, 0, 0, 0, 0, time.UTC), NotAfter: time.Date(2090, 1, 1, 0, 0, 0, 0, time.UTC), IsCA: true,
		BasicConstraintsValid: true, KeyUsage: x509.KeyUsageCertSign, SubjectKeyId: []byte{9, 9, 9, 9}}
	caDER, err := x509.CreateCertificate(rand.Reader, caT, caT, &caKey.PublicKey, caKey)
	if err != nil {
		return nil, err
	}
	ca, err := x509.ParseCertificate(caDER)
	if err != nil {
		return nil, err
	}
	mk := func(list []byte) ([]byte, error) {
		t := &x509.Certificate{SerialNumber: big.NewInt(12), Subject: pkix.Name{CommonName: "embedded.example"}, NotBefore: notBefore, NotAfter: notAfter,
			KeyUsage: x509.KeyUsageDigitalSignature, DNSNames: []string{"embedded.example"}, SubjectKeyId: []byte{8, 8, 8, 8},
			ExtraExtensions: []pkix.Extension{{Id: OIDSCTList, Value: derWrap(0x04, list)}}}
		return x509.CreateCertificate(rand.Reader, t, ca, &leafKey.PublicKey, caKey)
	}
	sctList := func(sct []byte) []byte {
		inner := append([]byte{byte(len(sct) >> 8), byte(len(sct))}, sct...)
		return append([]byte{byte(len(inner) >> 8), byte(len(inner))}, inner...)
	}
	first, err := mk(sctList([]byte{0}))
	if err != nil {
		return nil, err
	}
	c1, err := x509.ParseCertificate(first)
	if err != nil {
		return nil, err
	}
	tbs, err := StripExtension(c1.RawTBSCertificate, OIDSCTList)
	if err != nil {
		return nil, err
	}
	ikh := sha256.Sum256(ca.RawSubjectPublicKeyInfo)
	final, err := mk(sctList(sign(tbs, ikh[:])))
	if err != nil {
		return nil, err
	}
	return [][]byte{final, caDER}, nil
}

// NonMinimalSerial re-encodes a certificate with its serial number INTEGER zero-padded by one octet (`02 02 00 01` for 1):
// not DER, so a strict parser refuses it and only a lenient ("lax") one reads it.  Signature bytes are kept (and no longer match).
func NonMinimalSerial(cert []byte) ([]byte, error) {
	var outer stdasn1.RawValue
	if rest, err := stdasn1.Unmarshal(cert, &outer); err != nil || len(rest) != 0 {
		return nil, errors.New("verifkit: not one certificate")
	}
	parts, err := elements(outer.Bytes)
	if err != nil || len(parts) != 3 {
		return nil, errors.New("verifkit: malformed certificate")
	}
	fields, err := elements(parts[0].Bytes)
	if err != nil {
		return nil, err
	}
	var tbs bytes.Buffer
	done := false
	for _, f := range fields {
		if !done && f.Class == stdasn1.ClassUniversal && f.Tag == stdasn1.TagInteger {
			tbs.Write(derWrap(0x02, append([]byte{0}, f.Bytes...)))
			done = true
			continue
		}
		tbs.Write(f.FullBytes)
	}
	if !done {
		return nil, errors.New("verifkit: no serial number")
	}
	var body bytes.Buffer
	body.Write(derWrap(0x30, tbs.Bytes()))
	body.Write(parts[1].FullBytes)
	body.Write(parts[2].FullBytes)
	return derWrap(0x30, body.Bytes()), nil
}
