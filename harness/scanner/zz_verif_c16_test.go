//go:build verif

package scanner

// C16 harness: drives the real Fetcher and Scanner against a scripted LogClient under virtual time
// (testing/synctest) and the race detector. Every call of the injected client, every callback and every
// Stop / cancellation is recorded under one mutex; the recorded sequence is the trace that `ctvmodel C16`
// validates against the state machine of CTV.Model.Scan. Independently of the model, the harness evaluates
// the property itself on what the real code delivered (out.Fail).

import (
	"bytes"
	"context"
	"errors"
	"fmt"
	"math/big"
	"net/http"
	"regexp"
	"sort"
	"strings"
	"sync"
	"testing"
	"testing/synctest"
	"time"

	ct "github.com/google/certificate-transparency-go"
	"github.com/google/certificate-transparency-go/internal/verifkit"
	"github.com/google/certificate-transparency-go/jsonclient"
	"github.com/google/certificate-transparency-go/x509"
	"google.golang.org/grpc/codes"
	"google.golang.org/grpc/status"
)

type c16Growth struct {
	at   time.Duration
	size int64
}

type c16Params struct {
	id       string
	scan     bool
	start    int64
	end      int64
	batch    int
	par      int
	cont     bool
	nMatch   int
	buf      int
	preOnly  bool
	matcher  interface{}
	mName    string
	target   int64 // payload selected by MatchSCTTimestamp, -1 otherwise
	seed     uint64
	fseed    uint64
	size0    int64
	growth   []c16Growth
	errPct   int
	shortPct int
	sthErr   int
	stopAt   time.Duration
	cancelAt time.Duration
	slowCb   bool
	emptyPct int   // share of get-entries answers that are a 200 reply with zero entries (at most two in a row per request)
	failFrom int64 // requests starting at or beyond this index always fail with gRPC Unavailable (a dead back end); -1 = never
}

func (p *c16Params) String() string {
	g := ""
	for _, x := range p.growth {
		g += fmt.Sprintf("+%v:%d", x.at, x.size)
	}
	return fmt.Sprintf("%s scan=%v range=[%d,%d) batch=%d par=%d cont=%v match=%d/%s buf=%d preonly=%v size0=%d growth=%s err=%d%% short=%d%% empty=%d%% stop=%v cancel=%v failFrom=%d seed=%d fseed=%d",
		p.id, p.scan, p.start, p.end, p.batch, p.par, p.cont, p.nMatch, p.mName, p.buf, p.preOnly, p.size0, g, p.errPct, p.shortPct, p.emptyPct, p.stopAt, p.cancelAt, p.failFrom, p.seed, p.fseed)
}

type c16Delivery struct {
	index int64
	entry ct.LeafEntry
}

type c16Callback struct {
	precert bool
	rle     *ct.RawLogEntry
}

// c16Client is the scripted scanner.LogClient and the trace recorder.
type c16Client struct {
	mu        sync.Mutex
	out       *verifkit.Out
	p         *c16Params
	src       *verifkit.SrcLog
	size      int64
	attempts  map[[2]int64]int
	errRun    map[[2]int64]int
	emptyRun  map[[2]int64]int
	retained  []EntryBatch // the batches exactly as handed to the callback (no copy): a consumer may keep them
	sthCalls  int
	delivered []c16Delivery
	callbacks []c16Callback
	beyond    []string
	maxSize   int64
	calls     int
	sthFlight int  // GetSTH calls in flight
	returned  bool // Run / ScanLog has returned
	lateSTH   int  // GetSTH calls in flight when it returned, or started afterwards: the range generator outlived Run
	runaway   string
	abort     context.CancelFunc
}

func c16Hash(a, b, c, d uint64) uint64 {
	r := verifkit.NewRand(a ^ b*0x9e3779b97f4a7c15 ^ c*0xc2b2ae3d27d4eb4f ^ d*0x165667b19e3779f9)
	return r.U64()
}

var c16Latencies = []time.Duration{0, 0, time.Millisecond, 10 * time.Millisecond, 100 * time.Millisecond, 1500 * time.Millisecond, 2500 * time.Millisecond}

func (c *c16Client) BaseURI() string { return "verif://c16/" + c.p.id }

func (c *c16Client) GetSTH(ctx context.Context) (*ct.SignedTreeHead, error) {
	c.mu.Lock()
	n := c.sthCalls
	c.sthCalls++
	c.sthFlight++
	if c.returned {
		c.lateSTH++
	}
	c.mu.Unlock()
	h := c16Hash(c.p.fseed, 0x5747, uint64(n), 1)
	time.Sleep(c16Latencies[h%uint64(len(c16Latencies))])
	c.mu.Lock()
	defer c.mu.Unlock()
	c.sthFlight--
	if c.returned {
		// the scan is over for the caller: do not feed the trace, do not let the generator go on
		return nil, errors.New("verif: scan already returned")
	}
	if int((h>>8)%100) < c.p.sthErr && n > 0 {
		c.out.T("sth err", "ok")
		return nil, errors.New("verif: scripted GetSTH failure")
	}
	c.out.T(fmt.Sprintf("sth %d", c.size), "ok")
	return &ct.SignedTreeHead{TreeSize: uint64(c.size), Timestamp: uint64(n)}, nil
}

func (c *c16Client) GetRawEntries(ctx context.Context, start, end int64) (*ct.GetEntriesResponse, error) {
	c.mu.Lock()
	key := [2]int64{start, end}
	att := c.attempts[key]
	c.attempts[key]++
	c.calls++
	if c.runaway != "" {
		// the scenario has been aborted: stop feeding the trace
		c.mu.Unlock()
		return nil, errors.New("verif: scenario aborted")
	}
	if att > 400 || c.calls > 40*int(c.maxSize+100) {
		// no contract-abiding run asks for the same range hundreds of times (at most 3 scripted errors per answer) or makes
		// that many requests: a request loop that does not advance. Abort the scenario instead of spinning for ever.
		c.runaway = fmt.Sprintf("GetRawEntries(%d,%d) asked %d times (%d requests in all, tree size %d)", start, end, att+1, c.calls, c.size)
		c.out.T("cancel", "ok")
		if c.abort != nil {
			c.abort()
		}
		c.mu.Unlock()
		return nil, errors.New("verif: scenario aborted")
	}
	c.out.T(fmt.Sprintf("call %d %d", start, end), "ok")
	c.mu.Unlock()

	h := c16Hash(c.p.fseed, uint64(start), uint64(end), uint64(att))
	lat := c16Latencies[h%uint64(len(c16Latencies))]
	honourCtx := (h>>40)&1 == 0
	ctxErr := false
	if lat > 0 {
		if honourCtx {
			select {
			case <-time.After(lat):
			case <-ctx.Done():
				ctxErr = true
			}
		} else {
			time.Sleep(lat)
		}
	}

	c.mu.Lock()
	defer c.mu.Unlock()
	fail := func(err error) (*ct.GetEntriesResponse, error) {
		c.errRun[key]++
		c.out.T(fmt.Sprintf("ret %d %d err", start, end), "ok")
		return nil, err
	}
	if ctxErr {
		return fail(ctx.Err())
	}
	if start < 0 || end < start || end >= c.size {
		c.beyond = append(c.beyond, fmt.Sprintf("GetRawEntries(%d,%d) with tree size %d", start, end, c.size))
		return fail(jsonclient.RspError{Err: errors.New("verif: bad range"), StatusCode: http.StatusBadRequest})
	}
	if c.p.failFrom >= 0 && start >= c.p.failFrom {
		// permanently failing: the only way out for the worker holding this range is the cancellation of its context
		return fail(status.Error(codes.Unavailable, "verif: back end down"))
	}
	if int((h>>8)%100) < c.p.errPct && c.errRun[key] < 3 {
		switch (h >> 16) % 9 {
		case 6:
			// a lagging front end refuses, once, a request that lies inside the STH another front end served ("need tree size 8, only got 4")
			return fail(jsonclient.RspError{Err: errors.New("verif: 400 need bigger tree"), StatusCode: http.StatusBadRequest})
		case 7:
			return fail(jsonclient.RspError{Err: errors.New("verif: 404"), StatusCode: http.StatusNotFound})
		case 8:
			return fail(jsonclient.RspError{Err: errors.New("verif: 416"), StatusCode: http.StatusRequestedRangeNotSatisfiable})
		case 0:
			return fail(jsonclient.RspError{Err: errors.New("verif: 429"), StatusCode: http.StatusTooManyRequests})
		case 1:
			return fail(jsonclient.RspError{Err: errors.New("verif: 500"), StatusCode: http.StatusInternalServerError})
		case 2:
			return fail(jsonclient.RspError{Err: errors.New("verif: 503"), StatusCode: http.StatusServiceUnavailable})
		case 3:
			return fail(errors.New("verif: connection reset by peer"))
		case 4:
			return fail(status.Error(codes.Unavailable, "verif: unavailable")) // the only kind backoff.Retry itself retries (1–30 s pauses)
		default:
			return fail(context.DeadlineExceeded)
		}
	}
	c.errRun[key] = 0
	if int((h>>48)%100) < c.p.emptyPct && c.emptyRun[key] < 2 {
		// a 200 reply without entries: not an error, not progress either; the range must still be completed
		c.emptyRun[key]++
		c.out.T(fmt.Sprintf("ret %d %d 0", start, end), "ok")
		return &ct.GetEntriesResponse{}, nil
	}
	c.emptyRun[key] = 0
	n := end - start + 1
	k := n
	if int((h>>24)%100) < c.p.shortPct {
		k = 1 + int64((h>>32)%uint64(n))
	}
	rsp := &ct.GetEntriesResponse{Entries: make([]ct.LeafEntry, k)}
	for j := int64(0); j < k; j++ {
		rsp.Entries[j] = c.src.Entry(start + j)
	}
	c.out.T(fmt.Sprintf("ret %d %d %d", start, end, k), "ok")
	return rsp, nil
}

// fetcher-level callback
func (c *c16Client) onBatch(b EntryBatch) {
	if c.p.slowCb {
		time.Sleep(time.Duration(len(b.Entries)%3) * 40 * time.Millisecond)
	}
	c.mu.Lock()
	defer c.mu.Unlock()
	c.retained = append(c.retained, b)
	ids := make([]uint64, len(b.Entries))
	for j := range b.Entries {
		e := b.Entries[j]
		ids[j], _ = c.src.IDOf(&e)
		c.delivered = append(c.delivered, c16Delivery{index: b.Start + int64(j), entry: e})
	}
	c.out.T(fmt.Sprintf("cb %d %d", b.Start, len(b.Entries)), fmt.Sprint(verifkit.FoldDigest(ids)))
}

// scanner-level callbacks
func (c *c16Client) onFound(precert bool) func(*ct.RawLogEntry) {
	return func(rle *ct.RawLogEntry) {
		if c.p.slowCb {
			time.Sleep(time.Duration(rle.Index%4) * 25 * time.Millisecond)
		}
		c.mu.Lock()
		defer c.mu.Unlock()
		c.callbacks = append(c.callbacks, c16Callback{precert: precert, rle: rle})
		c.out.T(fmt.Sprintf("m %s %d %d", verifkit.B(precert), rle.Index, rle.Leaf.TimestampedEntry.Timestamp), "ok")
	}
}

// c16ClassTable asks the configured matcher, once per entry class, whether it selects that class
// (this *defines* "the entries its matcher selects"; the scanner's job, checked here, is to call back exactly those).
func c16ClassTable(p *c16Params, src *verifkit.SrcLog) (string, [verifkit.NClasses]bool) {
	var sel [verifkit.NClasses]bool
	var sb strings.Builder
	// find a representative index for every class
	rep := map[int]int64{}
	for i := int64(0); len(rep) < verifkit.NClasses && i < 100000; i++ {
		if _, ok := rep[src.Class(i)]; !ok {
			rep[src.Class(i)] = i
		}
	}
	for cl := 0; cl < verifkit.NClasses; cl++ {
		c := src.Classes[cl]
		e := src.Entry(rep[cl])
		switch m := p.matcher.(type) {
		case Matcher:
			le, _ := ct.LogEntryFromLeaf(0, &e)
			switch {
			case le == nil:
				sel[cl] = false // no parsed certificate to show to a Matcher
			case le.X509Cert != nil:
				sel[cl] = m.CertificateMatches(le.X509Cert)
			case le.Precert != nil:
				sel[cl] = m.PrecertificateMatches(le.Precert)
			}
		case MatchSCTTimestamp:
			le, _ := ct.LogEntryFromLeaf(1, &e)
			sel[cl] = le != nil // and the timestamp equals the target (the model adds that condition)
		case LeafMatcher:
			sel[cl] = m.Matches(&e)
		}
		if c.Precert {
			sb.WriteByte('p')
		} else {
			sb.WriteByte('c')
		}
		sb.WriteString(verifkit.B(sel[cl]))
	}
	return sb.String(), sel
}

func c16Run(out *verifkit.Out, p *c16Params) {
	src := verifkit.NewSrcLog(p.seed, !p.scan)
	c := &c16Client{out: out, p: p, src: src, size: p.size0, maxSize: p.size0, attempts: map[[2]int64]int{}, errRun: map[[2]int64]int{}, emptyRun: map[[2]int64]int{}}
	table, sel := "", [verifkit.NClasses]bool{}
	if p.scan {
		table, sel = c16ClassTable(p, src)
	}
	kind := "fetch"
	if p.scan {
		kind = "scan"
	}
	scLine := fmt.Sprintf("sc id="+p.id+" kind=%s start=%d end=%d batch=%d par=%d cont=%s match=%d seed=%d preonly=%s", kind, p.start, p.end, p.batch, p.par, verifkit.B(p.cont), p.nMatch, src.Seed, verifkit.B(p.preOnly))
	if !p.scan {
		scLine = fmt.Sprintf("sc id="+p.id+" kind=%s start=%d end=%d batch=%d par=%d cont=%s match=0 seed=%d", kind, p.start, p.end, p.batch, p.par, verifkit.B(p.cont), src.Seed)
	} else {
		scLine += " table=" + table
		if p.target >= 0 {
			scLine += fmt.Sprintf(" target=%d", p.target)
		}
	}
	out.T(scLine, "ok")

	stopWatch := out.Watchdog(150*time.Second, p.String())
	defer stopWatch()
	var (
		runErr    error
		scanRet   int64
		timedOut  bool
		stopped   bool
		cancelled bool
		finalEnd  int64
		stopT     time.Duration
		cancelT   time.Duration
		retT      time.Duration
	)
	pan := verifkit.Guard(func() {
		synctest.Run(func() {
			ctx, cancel := context.WithCancel(context.Background())
			defer cancel()
			t0 := time.Now()
			c.mu.Lock()
			c.abort = cancel
			c.mu.Unlock()
			fo := FetcherOptions{BatchSize: p.batch, ParallelFetch: p.par, StartIndex: p.start, EndIndex: p.end, Continuous: p.cont}
			var f *Fetcher
			var s *Scanner
			if p.scan {
				s = NewScanner(c, ScannerOptions{FetcherOptions: fo, Matcher: p.matcher, PrecertOnly: p.preOnly, NumWorkers: p.nMatch, BufferSize: p.buf})
				f = s.fetcher
			} else {
				f = NewFetcher(c, &fo)
			}
			for _, g := range p.growth {
				g := g
				go func() {
					time.Sleep(g.at)
					c.mu.Lock()
					if g.size > c.size {
						c.size = g.size
					}
					if c.size > c.maxSize {
						c.maxSize = c.size
					}
					c.mu.Unlock()
				}()
			}
			fin := make(chan struct{})
			if p.stopAt > 0 {
				go func() {
					select {
					case <-time.After(p.stopAt):
					case <-fin:
						return
					}
					c.mu.Lock()
					stopped = true
					stopT = time.Since(t0)
					out.T("stop", "ok")
					c.mu.Unlock()
					f.Stop()
				}()
			}
			if p.cancelAt > 0 {
				go func() {
					select {
					case <-time.After(p.cancelAt):
					case <-fin:
						return
					}
					c.mu.Lock()
					cancelled = true
					cancelT = time.Since(t0)
					out.T("cancel", "ok")
					c.mu.Unlock()
					cancel()
				}()
			}
			go func() {
				defer close(fin)
				if p.scan {
					scanRet, runErr = s.ScanLog(ctx, c.onFound(false), c.onFound(true))
				} else {
					runErr = f.Run(ctx, c.onBatch)
				}
				retT = time.Since(t0)
				c.mu.Lock()
				c.returned = true
				c.lateSTH += c.sthFlight
				c.mu.Unlock()
			}()
			select {
			case <-fin:
			case <-time.After(1000 * time.Hour):
				timedOut = true
				cancel()
				<-fin
			}
			c.mu.Lock()
			late := c.lateSTH > 0
			c.mu.Unlock()
			if late {
				finalEnd = -1 // not read: the generator goroutine may still be writing it
			} else if p.scan {
				finalEnd = s.fetcher.opts.EndIndex
			} else {
				finalEnd = fo.EndIndex
			}
		})
	})

	key := p.String()
	if pan != "" {
		out.Fail("panic "+key, pan)
		out.T("done", "panic")
		return
	}
	c.mu.Lock()
	defer c.mu.Unlock()
	// ---- trace line for the end of the scenario
	if p.scan {
		if runErr != nil {
			out.T("done", "0 err")
		} else {
			out.T(fmt.Sprintf("done ret=%d", scanRet), fmt.Sprintf("%d", len(c.callbacks)))
		}
	} else {
		if runErr != nil {
			out.T("done", "0 err")
		} else {
			out.T("done", fmt.Sprintf("%d nil", len(c.delivered)))
		}
	}

	// ---- implementation-side oracle: the property itself on what the real code did
	if c.runaway != "" {
		out.Fail("request-loop "+key, c.runaway)
		cancelled = true // what was delivered before the abort is still checked for duplicates, range and payload
	}
	if p.cont && runErr == nil && !stopped && !cancelled && c.runaway == "" && !timedOut {
		// a continuous scan only ends when it is stopped or its context is cancelled; returning on its own means everything the log
		// publishes from now on is never delivered
		out.Fail("early-return "+key, fmt.Sprintf("continuous Run/ScanLog returned nil at %v without Stop or cancellation (%d entries delivered, log grows to %d)", retT, len(c.delivered)+len(c.callbacks), c.maxSize))
	}
	if c.lateSTH > 0 {
		// Run has returned to its caller while the goroutine it started (genRanges → updateSTH) was still talking to the log;
		// that goroutine then writes f.sth and f.opts.EndIndex, which the caller (ScanLog's return value) reads: a data race
		out.Fail("generator-outlives-run "+key, fmt.Sprintf("%d GetSTH call(s) of the range generator were in flight or started after Run/ScanLog had returned", c.lateSTH))
	}
	// "terminates when cancelled": once the caller's context is cancelled the scan returns promptly, whatever the server does
	// (a request in flight may take its scripted latency of at most 2.5 s; nothing else may hold it up)
	if cancelled && c.runaway == "" && retT > cancelT+time.Minute {
		out.Fail("cancel-slow "+key, fmt.Sprintf("context cancelled at %v, Run/ScanLog returned at %v", cancelT, retT))
	}
	if p.failFrom >= 0 {
		out.Count("class:dead-backend")
		if stopped && cancelled && stopT < cancelT && retT >= cancelT {
			out.Count("observed:stop-alone-did-not-end-the-fetch-against-a-dead-backend")
		}
	}
	if timedOut {
		out.Fail("no-termination "+key, "Run/ScanLog had not returned after 1000 h of virtual time")
	}
	for _, b := range c.beyond {
		out.Fail("beyond-tree "+key, b)
	}
	if runErr != nil {
		out.Count("outcome:error")
		return // only when the very first GetSTH fails; nothing was delivered
	}
	if finalEnd < 0 {
		out.Count("outcome:end-index-unreadable")
		return
	}
	expectEnd := finalEnd
	if !p.cont {
		// one-shot: the end is the requested one, clamped to the tree the (only) STH showed — independent of the code's own bookkeeping
		want := p.end
		if want == 0 || want > p.size0 {
			want = p.size0
		}
		if finalEnd != want {
			out.Fail("end-index "+key, fmt.Sprintf("effective end index %d, expected %d", finalEnd, want))
		}
		expectEnd = want
	} else if finalEnd > c.maxSize {
		out.Fail("end-index "+key, fmt.Sprintf("effective end index %d beyond the largest tree published (%d)", finalEnd, c.maxSize))
	}
	seen := map[int64]int{}
	if !p.scan {
		for _, d := range c.delivered {
			seen[d.index]++
			want := src.Entry(d.index)
			if !bytes.Equal(d.entry.LeafInput, want.LeafInput) || !bytes.Equal(d.entry.ExtraData, want.ExtraData) {
				out.Fail("payload "+key, fmt.Sprintf("index %d delivered with bytes that are not the log's entry for that index", d.index))
			}
		}
	}
	if !p.scan {
		// a consumer that keeps the batches it was given (migrillian queues them on a channel) must still find the log's bytes in them
		// after the fetch is over
		for _, b := range c.retained {
			for j := range b.Entries {
				want := src.Entry(b.Start + int64(j))
				if !bytes.Equal(b.Entries[j].LeafInput, want.LeafInput) || !bytes.Equal(b.Entries[j].ExtraData, want.ExtraData) {
					out.Fail("payload-retained "+key, fmt.Sprintf("the batch handed to the callback with Start=%d holds, after Run returned, other bytes at position %d than the log's entry %d: its Entries were overwritten", b.Start, j, b.Start+int64(j)))
					break
				}
			}
		}
	}
	rangeCheck := func(have map[int64]int, what string) {
		var idx []int64
		for i, n := range have {
			idx = append(idx, i)
			if n > 1 {
				out.Fail("duplicate "+key, fmt.Sprintf("%s: index %d delivered %d times", what, i, n))
			}
			if i < p.start || i >= expectEnd {
				out.Fail("outside-range "+key, fmt.Sprintf("%s: index %d delivered, range is [%d,%d)", what, i, p.start, expectEnd))
			}
		}
		sort.Slice(idx, func(a, b int) bool { return idx[a] < idx[b] })
		if !cancelled {
			// without cancellation the delivered set is a prefix [start, c) of the range (all of it unless stopped)
			for j, i := range idx {
				if i != p.start+int64(j) {
					out.Fail("gap "+key, fmt.Sprintf("%s: index %d missing although %d was delivered", what, p.start+int64(j), i))
					break
				}
			}
			if !stopped && !timedOut && p.start < expectEnd && int64(len(idx)) != expectEnd-p.start {
				out.Fail("incomplete "+key, fmt.Sprintf("%s: %d of %d indices of [%d,%d) delivered", what, len(idx), expectEnd-p.start, p.start, expectEnd))
			}
		}
	}
	if !p.scan {
		rangeCheck(seen, "fetch")
		if p.cont && stopped && !cancelled {
			// "carries on with newly published entries": a continuous fetch that is stopped (not cancelled) has delivered every entry
			// that (i) the log published early enough before Stop for the fetcher to have learned of it and fetched it — the STH poll
			// backs off up to 30 s (+ jitter) after a 45 s quick phase, and fetching is given 40 s per entry, the allowance the
			// generator uses for its own stop times — and (ii) the log actually serves (not beyond a back end that died). Entries
			// published later than that, or after Stop, are not demanded; nothing more than the published prefix may be delivered anyway.
			demand := int64(0)
			qualifies := func(at time.Duration, size int64) bool {
				return at+2*time.Minute+time.Duration(size+1)*40*time.Second <= stopT
			}
			if qualifies(0, p.size0) {
				demand = p.size0
			}
			for _, g := range p.growth {
				if qualifies(g.at, g.size) && g.size > demand {
					demand = g.size
				}
			}
			if p.failFrom >= 0 && demand > p.failFrom {
				demand = p.failFrom
			}
			want := demand - p.start
			if want < 0 {
				want = 0
			}
			if int64(len(seen)) < want {
				out.Fail("continuous-behind "+key, fmt.Sprintf("stopped at %v having delivered %d entries; the log had published [%d,%d) long enough before", stopT, len(seen), p.start, demand))
			}
			if int64(len(seen)) > c.maxSize-p.start && c.maxSize >= p.start {
				out.Fail("continuous-behind "+key, fmt.Sprintf("delivered %d entries, the log only ever published [%d,%d)", len(seen), p.start, c.maxSize))
			}
		}
		out.Count("outcome:fetch-ok")
		return
	}
	// scanner: which indices went through the matcher stage is not visible from outside; what is visible is the
	// callbacks. Every index of the range whose entry the matcher selects must have exactly one callback of the
	// right kind carrying that entry; nothing else may have one.
	if scanRet != finalEnd {
		out.Fail("scan-return "+key, fmt.Sprintf("ScanLog returned %d, the fetcher's end index is %d", scanRet, finalEnd))
	}
	cbSeen := map[int64]int{}
	for _, cb := range c.callbacks {
		i := cb.rle.Index
		cbSeen[i]++
		pay := verifkit.Pay(src.Seed, i)
		cl := src.Classes[pay%verifkit.NClasses]
		want := sel[pay%verifkit.NClasses] && (p.target < 0 || int64(pay) == p.target)
		if !cl.Precert && p.preOnly {
			want = false
		}
		if !want {
			out.Fail("callback-unselected "+key, fmt.Sprintf("callback for index %d, which the matcher does not select", i))
		}
		if cb.precert != cl.Precert {
			out.Fail("callback-kind "+key, fmt.Sprintf("index %d: precert callback=%v, entry is precert=%v", i, cb.precert, cl.Precert))
		}
		if cb.rle.Leaf.TimestampedEntry.Timestamp != pay || !bytes.Equal(cb.rle.Cert.Data, cl.Cert) {
			out.Fail("callback-payload "+key, fmt.Sprintf("index %d: callback carries another entry", i))
		}
	}
	for i, n := range cbSeen {
		if n > 1 {
			out.Fail("callback-twice "+key, fmt.Sprintf("index %d: %d callbacks", i, n))
		}
		if i < p.start || i >= expectEnd {
			out.Fail("outside-range "+key, fmt.Sprintf("callback for index %d, range is [%d,%d)", i, p.start, expectEnd))
		}
	}
	if !cancelled && !stopped && !timedOut {
		for i := p.start; i < expectEnd; i++ {
			pay := verifkit.Pay(src.Seed, i)
			cl := src.Classes[pay%verifkit.NClasses]
			want := sel[pay%verifkit.NClasses] && (p.target < 0 || int64(pay) == p.target) && !(p.preOnly && !cl.Precert)
			if want && cbSeen[i] == 0 {
				out.Fail("callback-missing "+key, fmt.Sprintf("index %d is selected by the matcher but no callback was made", i))
				break
			}
		}
	}
	out.Count("outcome:scan-ok")
}

func c16Pick(r *verifkit.Rand, xs ...int) int { return xs[r.Intn(len(xs))] }

func c16Gen(r *verifkit.Rand, it int) *c16Params {
	p := &c16Params{id: fmt.Sprintf("s%d", it), target: -1, failFrom: -1}
	p.seed = r.U64() % 4294967296
	p.fseed = r.U64()
	p.scan = it%3 == 2
	switch r.Intn(10) {
	case 0:
		p.size0 = int64(r.Intn(3))
	case 1:
		p.size0 = int64(900 + r.Intn(2300))
	default:
		p.size0 = int64(3 + r.Intn(300))
	}
	if p.scan && p.size0 > 600 {
		p.size0 = 600
	}
	p.batch = c16Pick(r, 1, 1, 2, 3, 7, 16, 50, 100, 999, 1000)
	p.par = c16Pick(r, 1, 1, 2, 2, 3, 4, 8)
	p.nMatch = c16Pick(r, 1, 1, 2, 3, 8)
	p.buf = c16Pick(r, 0, 0, 1, 10, 1000)
	switch r.Intn(8) {
	case 0:
		p.start = p.size0 // empty range
	case 1:
		if p.size0 > 0 {
			p.start = p.size0 - 1
		}
	case 2, 3:
		p.start = r.I64n(p.size0 + 1)
	default:
		p.start = 0
	}
	switch r.Intn(6) {
	case 0:
		p.end = p.size0 + 1 + r.I64n(50) // beyond the tree: Prepare clamps it
	case 1:
		if p.size0 > p.start {
			p.end = p.start + 1 + r.I64n(p.size0-p.start) // a proper sub-range
		}
	case 2:
		p.end = p.size0
	default:
		p.end = 0
	}
	if r.Intn(12) == 0 && p.size0 > 2 {
		// an explicit empty range [s,s) or inverted range [s,e) with e < s, s ≠ 0: nothing is to be delivered
		p.start = 1 + r.I64n(p.size0-1)
		if r.Bool() {
			p.end = p.start
		} else {
			p.end = 1 + r.I64n(p.start)
		}
	}
	p.errPct = c16Pick(r, 0, 0, 10, 30)
	p.emptyPct = c16Pick(r, 0, 0, 0, 10, 30)
	p.shortPct = c16Pick(r, 0, 30, 60, 100)
	p.slowCb = r.Intn(3) == 0
	if r.Intn(10) < 3 {
		p.cont = true
		p.sthErr = c16Pick(r, 0, 20)
		n := r.Intn(5)
		at := time.Duration(0)
		sz := p.size0
		if p.end > 0 && p.end > sz {
			sz = p.end
		}
		for j := 0; j < n; j++ {
			at += time.Duration(200+r.Intn(90000)) * time.Millisecond
			sz += int64(1 + r.Intn(c16Pick(r, 3, 40, 1500)))
			if p.scan && sz > 700 {
				break
			}
			p.growth = append(p.growth, c16Growth{at: at, size: sz})
		}
		if r.Intn(4) == 0 {
			p.cancelAt = at/2 + time.Duration(r.Intn(60000))*time.Millisecond + time.Millisecond
		} else {
			// long enough (virtual time is free) for the 30 s (+jitter) STH polling and for every request, retry and
			// back-off of the slowest configuration (one fetcher, batch 1, every answer short, three errors each) to catch up
			p.stopAt = at + 10*time.Minute + time.Duration(sz+1)*40*time.Second
		}
	} else {
		switch r.Intn(8) {
		case 0:
			p.stopAt = time.Duration(1+r.Intn(4000)) * time.Millisecond
		case 1:
			p.cancelAt = time.Duration(1+r.Intn(4000)) * time.Millisecond
		}
	}
	if r.Intn(16) == 0 && p.size0 > p.start {
		// a back end that dies part-way: only cancellation ends the scan; sometimes Stop is tried first
		p.failFrom = p.start + r.I64n(p.size0-p.start)
		p.cancelAt = time.Duration(1+r.Intn(20)) * time.Minute
		p.stopAt = 0
		if r.Bool() {
			p.stopAt = p.cancelAt / 2
		}
	}
	if p.scan {
		switch r.Intn(8) {
		case 0:
			p.matcher, p.mName = MatchAll{}, "all"
		case 1:
			p.matcher, p.mName = &MatchAll{}, "all-ptr"
		case 2:
			p.matcher, p.mName = MatchNone{}, "none"
		case 3:
			m := MatchSerialNumber{}
			c, _ := x509.ParseCertificate(verifkit.NewSrcLog(0, false).Classes[r.Intn(4)].Cert)
			if c != nil {
				m.SerialNumber = *new(big.Int).Set(c.SerialNumber)
			}
			p.matcher, p.mName = m, "serial"
		case 4:
			re := regexp.MustCompile(c16PickS(r, "example", "Certificate Transparency", "^$", "."))
			p.matcher, p.mName = MatchSubjectRegex{CertificateSubjectRegex: re, PrecertificateSubjectRegex: re}, "subject:"+re.String()
		case 5:
			hi := p.size0
			if hi < 1 {
				hi = 1
			}
			p.target = int64(verifkit.Pay(p.seed, p.start+r.I64n(hi)))
			p.matcher, p.mName = MatchSCTTimestamp{Timestamp: uint64(p.target)}, "timestamp"
		case 6:
			p.matcher, p.mName = CertParseFailMatcher{MatchNonFatalErrs: r.Bool()}, "parsefail"
		default:
			re := regexp.MustCompile(c16PickS(r, "Certificate Transparency CA", "nomatch"))
			p.matcher, p.mName = MatchIssuerRegex{CertificateIssuerRegex: re, PrecertificateIssuerRegex: re}, "issuer:"+re.String()
		}
		p.preOnly = r.Intn(4) == 0
	}
	return p
}

func c16PickS(r *verifkit.Rand, xs ...string) string { return xs[r.Intn(len(xs))] }

func TestVerifC16(t *testing.T) {
	out := verifkit.Open()
	defer out.Close()
	defer func() {
		// the run is under -race: every report of the detector is a failure of "for any … scheduling" with a concrete pair of accesses
		for _, r := range verifkit.RaceReports() {
			out.Fail("data-race "+r, "the race detector reported unsynchronised accesses (see the key); the run used -race with GORACE=log_path")
		}
	}()
	r := verifkit.NewRand(verifkit.Seed())
	n := verifkit.N(300, 2500)
	// fixed boundary scenarios first
	fixed := []*c16Params{
		{id: "b0", target: -1, size0: 0, batch: 1, par: 1, nMatch: 1, seed: 1},
		{id: "b1", target: -1, size0: 1, batch: 1000, par: 8, nMatch: 1, seed: 2},
		{id: "b2", target: -1, size0: 2001, batch: 1000, par: 3, nMatch: 1, seed: 3, shortPct: 100},
		{id: "b3", target: -1, size0: 64, batch: 7, par: 8, nMatch: 1, seed: 4, errPct: 30, shortPct: 60},
		{id: "b4", target: -1, size0: 10, end: 10, start: 10, batch: 3, par: 2, nMatch: 1, seed: 5},
		{id: "b5", target: -1, size0: 10, start: 12, batch: 3, par: 2, nMatch: 1, seed: 6},
		{id: "b6", target: -1, size0: 5, batch: 2, par: 2, nMatch: 1, seed: 7, cont: true, growth: []c16Growth{{time.Second, 6}, {50 * time.Second, 9}, {3 * time.Minute, 2500}}, stopAt: 20 * time.Minute, shortPct: 30},
		{id: "b7", target: -1, scan: true, size0: 120, batch: 16, par: 4, nMatch: 8, buf: 0, seed: 8, matcher: MatchAll{}, mName: "all", shortPct: 60, errPct: 10, slowCb: true},
		{id: "b9", target: -1, size0: 5, start: 8, batch: 2, par: 2, nMatch: 1, seed: 10, cont: true, growth: []c16Growth{{time.Second, 6}, {50 * time.Second, 9}, {3 * time.Minute, 20}}, stopAt: 20 * time.Minute},
		{id: "c0", target: -1, size0: 50, batch: 5, par: 2, nMatch: 1, seed: 20, failFrom: 20, cancelAt: 5 * time.Minute, shortPct: 30},
		{id: "c1", target: -1, size0: 50, batch: 5, par: 3, nMatch: 1, seed: 21, failFrom: 20, stopAt: 2 * time.Minute, cancelAt: 30 * time.Minute},
		{id: "c2", target: -1, scan: true, size0: 60, batch: 8, par: 2, nMatch: 2, buf: 1, seed: 22, failFrom: 17, cancelAt: 3 * time.Minute, matcher: MatchAll{}, mName: "all"},
		{id: "c3", target: -1, size0: 9, batch: 2, par: 2, nMatch: 1, seed: 23, failFrom: 30, cont: true, growth: []c16Growth{{20 * time.Second, 40}}, stopAt: 4 * time.Minute, cancelAt: 25 * time.Minute},
		// continuous scan, the only fetcher is stuck on a dead back end, the generator (at the end of the range) accepts a bigger STH
		// and then waits to hand out the next range; cancellation ends both. ScanLog then reads the end index the generator wrote.
		{id: "r0", target: -1, scan: true, size0: 6, batch: 3, par: 1, nMatch: 1, seed: 24, failFrom: 3, cont: true, growth: []c16Growth{{30 * time.Second, 40}}, cancelAt: 10 * time.Minute, matcher: MatchAll{}, mName: "all"},
		{id: "r1", target: -1, size0: 6, batch: 3, par: 1, nMatch: 1, seed: 25, failFrom: 3, cont: true, growth: []c16Growth{{30 * time.Second, 40}}, cancelAt: 10 * time.Minute},
		{id: "e0", target: -1, size0: 6, batch: 2, par: 1, nMatch: 1, seed: 26, emptyPct: 100},
		{id: "e1", target: -1, scan: true, size0: 40, batch: 7, par: 3, nMatch: 2, seed: 27, emptyPct: 30, shortPct: 30, matcher: MatchAll{}, mName: "all"},
		{id: "x0", target: -1, scan: true, size0: 10, start: 2, end: 2, batch: 3, par: 2, nMatch: 2, seed: 28, matcher: MatchAll{}, mName: "all"},
		{id: "x1", target: -1, scan: true, size0: 10, start: 3, end: 1, batch: 3, par: 2, nMatch: 2, seed: 29, matcher: MatchAll{}, mName: "all"},
		{id: "x2", target: -1, size0: 10, start: 3, end: 1, batch: 3, par: 2, nMatch: 1, seed: 30},
		{id: "h0", target: -1, size0: 7, start: 7, batch: 3, par: 2, nMatch: 1, seed: 31, cont: true, growth: []c16Growth{{20 * time.Second, 12}, {2 * time.Minute, 30}}, stopAt: 30 * time.Minute},
		{id: "h1", target: -1, scan: true, size0: 0, start: 0, batch: 5, par: 3, nMatch: 2, seed: 32, cont: true, growth: []c16Growth{{40 * time.Second, 9}}, stopAt: 30 * time.Minute, matcher: MatchAll{}, mName: "all"},
		{id: "b8", target: -1, scan: true, size0: 90, batch: 1000, par: 1, nMatch: 3, buf: 1000, seed: 9, matcher: CertParseFailMatcher{}, mName: "parsefail", preOnly: true},
	}
	for _, p := range fixed {
		if p.failFrom == 0 {
			p.failFrom = -1
		}
		p.fseed = p.seed * 77
		out.Count("mode:fixed")
		c16Run(out, p)
	}
	// continuous scans whose start index lies beyond the tree the first STH shows (a client resuming against a
	// lagging front end): the range is [start, ∞), so nothing below start may be delivered
	for it := 0; it < verifkit.N(2, 6); it++ {
		p := c16Gen(r.Fork(), it)
		p.id = fmt.Sprintf("sb%d", it)
		p.scan, p.cont, p.end, p.cancelAt, p.matcher, p.mName, p.target, p.preOnly, p.failFrom = false, true, 0, 0, nil, "", -1, false, -1
		p.size0 = int64(r.Intn(40))
		p.start = p.size0 + 1 + int64(r.Intn(20))
		p.growth = nil
		at, sz := time.Duration(0), p.size0
		for j := 0; j < 2+r.Intn(3); j++ {
			at += time.Duration(200+r.Intn(90000)) * time.Millisecond
			sz += int64(1 + r.Intn(30))
			p.growth = append(p.growth, c16Growth{at: at, size: sz})
		}
		p.stopAt = at + 10*time.Minute + time.Duration(sz+1)*40*time.Second
		out.Count("mode:fetch")
		out.Count("class:start-beyond-tree")
		c16Run(out, p)
	}
	for it := 0; it < n; it++ {
		p := c16Gen(r, it)
		if p.scan {
			out.Count("mode:scan")
		} else {
			out.Count("mode:fetch")
		}
		if p.cont {
			out.Count("class:continuous")
		}
		if p.stopAt > 0 {
			out.Count("class:stopped")
		}
		if p.cancelAt > 0 {
			out.Count("class:cancelled")
		}
		if it < 6 {
			out.Sample(p.String())
		}
		c16Run(out, p)
	}
}
