//go:build verif

package client

// C12 — a log client holding the log key never hands back unverified signed data.
// A scripted http.RoundTripper plays an arbitrary server; every LogClient method is driven against
// status x body classes inside a testing/synctest bubble (retry back-off runs on the fake clock).
// Expected verdicts: standard-library verification of whatever the client returned (verifkit), log ID =
// SHA-256 of the configured key's SPKI, RspError carrying the status and body of the response received.

import (
	"bytes"
	"context"
	"crypto/sha256"
	stdx509 "crypto/x509"
	"encoding/base64"
	"encoding/json"
	"encoding/pem"
	"errors"
	"fmt"
	"io"
	"log"
	"net/http"
	"strings"
	"testing"
	"testing/synctest"
	"time"

	ct "github.com/google/certificate-transparency-go"
	"github.com/google/certificate-transparency-go/internal/verifkit"
	"github.com/google/certificate-transparency-go/jsonclient"
	"github.com/google/certificate-transparency-go/testdata"
	"github.com/google/certificate-transparency-go/tls"
	"github.com/google/certificate-transparency-go/x509"
	"github.com/google/certificate-transparency-go/x509util"
)

type c12Rsp struct {
	status      int
	body        []byte
	hdr         http.Header // extra response headers (arbitrary; the client must not care)
	netErr      bool        // the transport fails instead of answering
	cutAt       int         // > 0: the body reader fails after this many octets
	viaRedirect bool        // the client first gets a 302 with a Location and follows it to this response (GET only)
}

type c12FailingReader struct {
	r   io.Reader
	n   int
	err error
}

func (f *c12FailingReader) Read(p []byte) (int, error) {
	if f.n <= 0 {
		return 0, f.err
	}
	if len(p) > f.n {
		p = p[:f.n]
	}
	n, err := f.r.Read(p)
	f.n -= n
	if err == io.EOF {
		err = f.err
	}
	return n, err
}

// c12Script answers the successive requests of one client call; when it runs out it ends the context.
type c12Script struct {
	rsps   []c12Rsp
	i      int
	cancel context.CancelFunc
	last   *c12Rsp
	paths  []string
}

func (s *c12Script) RoundTrip(req *http.Request) (*http.Response, error) {
	s.paths = append(s.paths, req.Method+" "+req.URL.Path)
	if req.Body != nil {
		io.Copy(io.Discard, req.Body)
		req.Body.Close()
	}
	if s.i >= len(s.rsps) {
		s.cancel()
		return nil, context.Canceled
	}
	r := &s.rsps[s.i]
	s.i++
	if r.netErr {
		return nil, errors.New("scripted transport failure")
	}
	s.last = r
	h := http.Header{"Content-Type": {"application/json"}}
	for k, v := range r.hdr {
		h[k] = v
	}
	var body io.Reader = bytes.NewReader(r.body)
	if r.cutAt > 0 {
		body = &c12FailingReader{r: body, n: r.cutAt, err: errors.New("scripted read failure")}
	}
	return &http.Response{StatusCode: r.status, Status: fmt.Sprintf("%d %s", r.status, http.StatusText(r.status)), Proto: "HTTP/1.1", ProtoMajor: 1, ProtoMinor: 1,
		Header: h, Body: io.NopCloser(body), ContentLength: -1, Request: req}, nil
}

type c12Silent struct{}

func (c12Silent) Printf(string, ...interface{}) {}

// c12Sess is ONE client (so any state it keeps between calls is exercised) inside one bubble.
type c12Sess struct {
	sc *c12Script
	cl *LogClient
}

// call runs one client call against the given responses.
func (s *c12Sess) call(rsps []c12Rsp, f func(ctx context.Context, c *LogClient)) (panicText string) {
	ctx, cancel := context.WithTimeout(context.Background(), 24*time.Hour)
	defer cancel()
	s.sc.rsps, s.sc.i, s.sc.last, s.sc.cancel = rsps, 0, nil, cancel
	return verifkit.Guard(func() { f(ctx, s.cl) })
}

// c12Session builds one client for key k (nil: no key) and hands it to body.
func c12Session(k *verifkit.SKey, body func(s *c12Sess)) (setupErr string) {
	opts := jsonclient.Options{Logger: c12Silent{}}
	if k != nil {
		opts.PublicKeyDER = k.SPKI
	}
	return c12SessionOpts(opts, body)
}

// c12SessionOpts: the same for arbitrary options (the key option is what the construction scenario varies).
func c12SessionOpts(opts jsonclient.Options, body func(s *c12Sess)) (setupErr string) {
	synctest.Run(func() {
		sc := &c12Script{}
		c, err := New("http://log.example/prefix/", &http.Client{Transport: sc}, opts)
		if err != nil {
			setupErr = "client.New: " + err.Error()
			return
		}
		body(&c12Sess{sc: sc, cl: c})
	})
	return
}

// c12Call runs f against a fresh client wired to the script, inside a bubble; returns f's panic text.
func c12Call(k *verifkit.SKey, rsps []c12Rsp, f func(ctx context.Context, c *LogClient)) (sc *c12Script, panicText string) {
	if e := c12Session(k, func(s *c12Sess) {
		sc = s.sc
		panicText = s.call(rsps, f)
	}); e != "" {
		return &c12Script{}, e
	}
	return
}

// c12On: on the given session if there is one, else on a fresh client.
func c12On(sess *c12Sess, k *verifkit.SKey, rsps []c12Rsp, f func(ctx context.Context, c *LogClient)) (*c12Script, string) {
	if sess != nil {
		p := sess.call(rsps, f)
		return sess.sc, p
	}
	return c12Call(k, rsps, f)
}

var c12HeaderPool = []http.Header{nil, nil, {"Retry-After": {"120"}}, {"Content-Type": {"text/html"}}, {"Content-Type": {""}}, {"X-Frame-Options": {"deny"}, "Cache-Control": {"no-store"}},
	{"Retry-After": {"Wed, 21 Oct 2065 07:28:00 GMT"}}, {"Content-Encoding": {"identity"}}, {"Set-Cookie": {"a=b"}}, {"Content-Length": {"3"}}, {"Www-Authenticate": {"Basic"}}}

// c12Err classifies an error the way the property distinguishes: RspError (status, body) or anything else.
func c12Err(out *verifkit.Out, key string, err error, sc *c12Script) string {
	var re RspError
	if errors.As(err, &re) {
		if sc.last == nil {
			out.Fail(key+" rsperror-without-response", err.Error())
		} else if want := c12Received(sc.last); re.StatusCode != sc.last.status || !bytes.Equal(re.Body, want) {
			out.Fail(key+" rsperror-wrong-status-or-body", fmt.Sprintf("RspError{%d, %q}, the response was %d %q", re.StatusCode, re.Body, sc.last.status, sc.last.body))
		}
		return fmt.Sprintf("rsperr %d", re.StatusCode)
	}
	return "err"
}

// c12Received: the octets of the body the client could read.
func c12Received(r *c12Rsp) []byte {
	if r.cutAt > 0 && r.cutAt < len(r.body) {
		return r.body[:r.cutAt]
	}
	return r.body
}

func b64(b []byte) string { return base64.StdEncoding.EncodeToString(b) }

func c12DS(hash, alg int, sig []byte) []byte {
	return append([]byte{byte(hash), byte(alg), byte(len(sig) >> 8), byte(len(sig))}, sig...)
}

// c12ParseDS: the harness' own reading of a DigitallySigned (nil when malformed or followed by anything).
func c12ParseDS(b []byte) (hash, alg int, sig []byte, ok bool) {
	if len(b) < 4 {
		return 0, 0, nil, false
	}
	n := int(b[2])<<8 | int(b[3])
	if len(b) != 4+n {
		return 0, 0, nil, false
	}
	return int(b[0]), int(b[1]), b[4:], true
}

func c12SigAlg(k *verifkit.SKey) int {
	switch k.Kind {
	case "rsa":
		return 1
	case "ecdsa":
		return 3
	}
	return 2
}

func c12Flip(b []byte, i int) []byte {
	o := append([]byte(nil), b...)
	if len(o) > 0 {
		o[(i/8)%len(o)] ^= 1 << uint(i%8)
	}
	return o
}

type c12 struct {
	out   *verifkit.Out
	r     *verifkit.Rand
	keys  []*verifkit.SKey // configured keys (compliant): p256, rsa2048
	other map[string]*verifkit.SKey
}

var c12Statuses = []int{200, 200, 200, 200, 200, 200, 200, 200, 200, 200, 200, 200, 200, 200, 200, 200, 200, 200, 200, 200, 200, 200, 200, 200, 200, 200, 200, 200, 200, 200, 200, 200, 200, 200, 200, 200, 201, 202, 203, 204, 206, 299, 301, 302, 303, 307, 308, 400, 403, 404, 500, 502, 504}

// ---------------------------------------------------------------------------------------------- get-sth

type sthFields struct {
	size, ts uint64
	root     []byte
	sig      []byte // tree_head_signature octets
}

func (f sthFields) json() []byte {
	return []byte(fmt.Sprintf(`{"tree_size":%d,"timestamp":%d,"sha256_root_hash":%q,"tree_head_signature":%q}`, f.size, f.ts, b64(f.root), b64(f.sig)))
}

func (c *c12) sth() {
	r := c.r
	n := verifkit.N(300, 8000)
	for it := 0; it < n; it++ {
		var k *verifkit.SKey
		if r.Intn(8) != 0 {
			k = c.keys[r.Intn(len(c.keys))]
		}
		// the first iterations sweep every structural defect of the STH fields (classes 10..14 and the valid one) on a client
		// WITHOUT a verifier and on one with, answered 200 and delivered undisturbed: without a key nothing downstream
		// (the signature check) hides a missing field check
		force := -1
		if it < 12 {
			force = []int{10, 11, 12, 13, 14, 0}[it%6]
			if it < 6 {
				k = nil
			}
		}
		signer := k
		if signer == nil {
			signer = c.keys[0]
		}
		f := sthFields{size: r.U64() >> uint(r.Intn(64)), ts: r.U64() >> uint(r.Intn(64)), root: r.Bytes(32)}
		hash := 4
		f.sig = c12DS(hash, c12SigAlg(signer), signer.Sign(hash, verifkit.STHSigInput(0, f.ts, f.size, f.root)))
		class := "valid"
		body := []byte(nil)
		pick := r.Intn(42)
		if force >= 0 {
			pick = force
		}
		switch pick {
		case 0, 1, 2, 3, 4, 5, 6, 22, 23, 24, 25, 26, 27, 28, 29, 30, 31, 32, 33, 34, 35, 36, 37, 38, 39, 40, 41:
		case 7:
			class = "foreign-key-signature"
			o := c.other[signer.Kind]
			f.sig = c12DS(hash, c12SigAlg(o), o.Sign(hash, verifkit.STHSigInput(0, f.ts, f.size, f.root)))
		case 8:
			class = "corrupted-signature"
			f.sig = c12Flip(f.sig, 32+r.Intn(8*(len(f.sig)-4)))
		case 9:
			class = "signature-over-other-fields"
			switch r.Intn(3) {
			case 0:
				f.size ^= 1 << uint(r.Intn(64))
			case 1:
				f.ts++
			default:
				f.root = c12Flip(f.root, r.Intn(256))
			}
		case 10:
			class = "root-wrong-length"
			f.root = r.Bytes([]int{0, 1, 31, 33, 64}[r.Intn(5)])
		case 11:
			class = "signature-trailing-bytes"
			f.sig = append(append([]byte(nil), f.sig...), r.Bytes(1+r.Intn(3))...)
		case 12:
			class = "signature-truncated"
			f.sig = f.sig[:r.Intn(len(f.sig))]
		case 13:
			if r.Bool() {
				class = "signature-empty"
				f.sig = nil
			} else {
				class = "digitally-signed-with-empty-signature"
				f.sig = []byte{4, byte(c12SigAlg(signer)), 0, 0}
			}
		case 14:
			class = "signature-length-field-wrong"
			f.sig = append([]byte(nil), f.sig...)
			f.sig[3] += byte(1 + r.Intn(3))
		case 15:
			class = "truncated-json"
			b := f.json()
			body = b[:r.Intn(len(b))]
		case 16:
			class = "wrong-types"
			body = [][]byte{[]byte(`{"tree_size":"12","timestamp":1,"sha256_root_hash":"","tree_head_signature":""}`), []byte(`{"tree_size":-1}`), []byte(`[]`), []byte(`"x"`),
				[]byte(`{"tree_size":1.5}`), []byte(`{"sha256_root_hash":"!!not base64!!"}`), []byte(`{"tree_head_signature":12}`), []byte(`{"tree_size":18446744073709551616}`)}[r.Intn(8)]
		case 17:
			class = "json-then-garbage"
			body = append(f.json(), []byte(` trailing{`)...)
		case 18:
			class = "empty-or-null"
			body = [][]byte{{}, []byte(`null`), []byte(`{}`), []byte(` `)}[r.Intn(4)]
		case 19:
			class = "hash-or-alg-code"
			f.sig = append([]byte(nil), f.sig...)
			if r.Bool() {
				f.sig[0] = byte(r.Intn(256))
			} else {
				f.sig[1] = byte(r.Intn(256))
			}
		case 20:
			class = "der-inner-extra"
			if signer.Kind == "ecdsa" {
				h, a, sg, _ := c12ParseDS(f.sig)
				in := sg[2:]
				f.sig = c12DS(h, a, append([]byte{0x30, byte(len(in) + 2)}, append(append([]byte(nil), in...), 5, 0)...))
			}
		default:
			class = "extra-json-fields"
			body = []byte(strings.Replace(string(f.json()), "{", `{"sth_version":7,"log_id":"AAAA","unknown":[1,2],`, 1))
		}
		if body == nil {
			body = f.json()
		}
		status := c12Statuses[r.Intn(len(c12Statuses))]
		inject := r.Intn(30)
		if force >= 0 {
			status, inject = 200, 29
		}
		rsp := c12Rsp{status: status, body: body, hdr: c12HeaderPool[r.Intn(len(c12HeaderPool))]}
		switch inject {
		case 0:
			rsp.netErr, class = true, class+"+transport-error"
		case 1:
			if len(body) > 1 {
				rsp.cutAt, class = 1+r.Intn(len(body)-1), class+"+body-read-error"
				if r.Bool() { // cut short in transit after a COMPLETE JSON value (Content-Length promised more)
					rsp.cutAt, class = len(body), class+"+read-error-after-complete-body"
				}
			}
		case 2:
			rsp.viaRedirect, class = true, class+"+via-redirect"
		}
		c.oneSTHOn(nil, class, k, rsp)
	}
}

func (c *c12) oneSTH(class string, k *verifkit.SKey, status int, body []byte) {
	c.oneSTHOn(nil, class, k, c12Rsp{status: status, body: body, hdr: c12HeaderPool[c.r.Intn(len(c12HeaderPool))]})
}

// oneSTHOn: one GetSTH call, on the session's client when there is one (histories), judged and traced.
func (c *c12) oneSTHOn(sess *c12Sess, class string, k *verifkit.SKey, rsp c12Rsp) {
	status, body := rsp.status, c12Received(&rsp)
	// what the client will see after JSON decoding (encoding/json is trusted); a body that cannot be read completely is not decoded
	var dec ct.GetSTHResponse
	jsonOK := json.NewDecoder(bytes.NewReader(body)).Decode(&dec) == nil && !(rsp.cutAt > 0)
	if rsp.cutAt > 0 {
		dec = ct.GetSTHResponse{}
	}
	var sth *ct.SignedTreeHead
	var err error
	rsps := []c12Rsp{rsp}
	if rsp.viaRedirect {
		rsps = []c12Rsp{{status: 302, body: []byte("moved"), hdr: http.Header{"Location": {"http://log.example/prefix/ct/v1/get-sth"}}}, rsp}
	}
	sc, p := c12On(sess, k, rsps, func(ctx context.Context, cl *LogClient) { sth, err = cl.GetSTH(ctx) })
	if rsp.netErr {
		// no response at all: any error will do, but not a result and not a panic
		ans := "err"
		if p != "" {
			ans = "panic"
			c.out.Fail("sth transport-error panic", p)
		} else if err == nil || sth != nil {
			ans = "ok"
			c.out.Fail("sth transport-error accepted", "GetSTH returned a result although the transport failed")
		}
		c.out.T("nores get-sth", ans)
		c.out.Count("class:sth:" + class)
		c.out.Count("outcome:" + ans)
		return
	}
	key := fmt.Sprintf("sth %s status=%d", class, status)
	var v verifkit.Verdict
	kind := "-"
	if k != nil {
		kind = k.Kind
		if h, _, sg, ok := c12ParseDS(dec.TreeHeadSignature); ok && jsonOK {
			v = k.Judge(h, verifkit.STHSigInput(0, dec.Timestamp, dec.TreeSize, dec.SHA256RootHash), sg)
		}
	}
	ans := ""
	switch {
	case p != "":
		ans = "panic"
		c.out.Fail(key+" panic", p)
	case err != nil:
		ans = c12Err(c.out, key, err, sc)
		if sth != nil {
			c.out.Fail(key+" partial-result", "an STH was returned together with an error")
		}
		if ans == "err" {
			c.out.Fail(key+" error-without-status", "a response was received but the error is not an RspError: "+err.Error())
		}
	default:
		ds := tls.DigitallySigned(sth.TreeHeadSignature)
		ans = fmt.Sprintf("ok %d %d %s %d %d %s", sth.TreeSize, sth.Timestamp, verifkit.Hex(sth.SHA256RootHash[:]), ds.Algorithm.Hash, ds.Algorithm.Signature, verifkit.Hex(ds.Signature))
		if status != 200 {
			c.out.Fail(key+" non-200-accepted", ans)
		}
		if _, _, _, ok := c12ParseDS(dec.TreeHeadSignature); !jsonOK || !ok || len(dec.SHA256RootHash) != sha256.Size {
			c.out.Fail(key+" malformed-response-accepted", ans)
		}
		if sth.TreeSize != dec.TreeSize || sth.Timestamp != dec.Timestamp || !bytes.Equal(sth.SHA256RootHash[:], dec.SHA256RootHash) {
			c.out.Fail(key+" sth-differs-from-response", ans)
		}
		if k != nil {
			// the property: the STH handed back verifies under the configured key (standard library, hand-written signature input)
			jv := k.Judge(int(ds.Algorithm.Hash), verifkit.STHSigInput(uint64(sth.Version), sth.Timestamp, sth.TreeSize, sth.SHA256RootHash[:]), ds.Signature)
			if !k.Expect(int(ds.Algorithm.Hash), int(ds.Algorithm.Signature), jv) {
				fk := key + " unverified-sth-returned"
				if jv.Prim && !jv.Strict {
					fk = "sth non-canonical-der-accepted"
				}
				c.out.Fail(fk, ans)
			}
		}
	}
	c.out.T(fmt.Sprintf("sth %s %s %s %s %s %d %s %d %d %s %s", verifkit.B(k != nil), kind, verifkit.IntStr(v.R), verifkit.IntStr(v.S), verifkit.B(v.Prim), status, verifkit.B(jsonOK),
		dec.TreeSize, dec.Timestamp, verifkit.Hex(dec.SHA256RootHash), verifkit.Hex(dec.TreeHeadSignature)), ans)
	c.out.Count("class:sth:" + class)
	c.out.Count("outcome:" + strings.Fields(ans)[0])
}

// ---------------------------------------------------------------------------------------------- construction

// construct: client.New on every kind of key option — none, well-formed, malformed, white space only, followed by garbage, DER and
// PEM — and, when a client comes out, one get-sth with a garbage signature and one with a genuine one.  Oracle: an option that is
// SET (non-empty DER or non-empty PEM string) gives an error or a client that verifies; it never gives a client without a verifier.
func (c *c12) construct() {
	r := c.r
	pemOf := func(label string, der []byte) string {
		return string(pem.EncodeToMemory(&pem.Block{Type: label, Bytes: der}))
	}
	type opt struct {
		class string
		der   []byte
		pem   string
	}
	for _, k := range c.keys {
		good := pemOf("PUBLIC KEY", k.SPKI)
		opts := []opt{
			{"none", nil, ""},
			{"der-valid", k.SPKI, ""},
			{"der-truncated", k.SPKI[:len(k.SPKI)-1-r.Intn(8)], ""},
			{"der-garbage-suffix", append(append([]byte(nil), k.SPKI...), r.Bytes(1+r.Intn(4))...), ""},
			{"der-random", r.Bytes(1 + r.Intn(90)), ""},
			{"der-single-zero", []byte{0}, ""},
			{"der-empty-slice+pem-valid", []byte{}, good},
			{"der-valid+pem-garbage", k.SPKI, "not a key"},
			{"der-garbage+pem-valid", []byte{0x30, 0x03, 0x02, 0x01, 0x01}, good},
			{"pem-valid", nil, good},
			{"pem-valid-no-final-newline", nil, strings.TrimRight(good, "\n")},
			{"pem-leading-text", nil, "# log key\n" + good},
			{"pem-leading-blank-lines", nil, "\n\n" + good},
			{"pem-trailing-blank-line", nil, good + "\n"},
			{"pem-trailing-spaces", nil, good + "  \t\n"},
			{"pem-garbage-suffix", nil, good + "garbage"},
			{"pem-two-blocks", nil, good + good},
			{"pem-other-label", nil, pemOf("CERTIFICATE", k.SPKI)},
			{"pem-bad-base64", nil, "-----BEGIN PUBLIC KEY-----\n!!!!\n-----END PUBLIC KEY-----\n"},
			{"pem-empty-block", nil, "-----BEGIN PUBLIC KEY-----\n-----END PUBLIC KEY-----\n"},
			{"pem-of-truncated-der", nil, pemOf("PUBLIC KEY", k.SPKI[:len(k.SPKI)-2])},
			{"pem-of-der-with-suffix", nil, pemOf("PUBLIC KEY", append(append([]byte(nil), k.SPKI...), 0))},
			{"pem-unterminated", nil, good[:len(good)-12]},
			{"text-only", nil, "not a key"},
			{"whitespace-newline", nil, "\n"},
			{"whitespace-space", nil, " "},
			{"whitespace-mixed", nil, " \r\n\t\n"},
			{"whitespace-many-newlines", nil, strings.Repeat("\n", 1+r.Intn(5))},
			{"nul-byte", nil, "\x00"},
		}
		for _, o := range opts {
			given := len(o.der) > 0 || o.pem != ""
			// the harness' own reading of the option (standard library): exactly one well-formed key?
			parsed := false
			if len(o.der) > 0 {
				_, err := stdx509.ParsePKIXPublicKey(o.der)
				parsed = err == nil
			} else if o.pem != "" {
				if b, rest := pem.Decode([]byte(o.pem)); b != nil && len(rest) == 0 {
					_, err := stdx509.ParsePKIXPublicKey(b.Bytes)
					parsed = err == nil
				}
			}
			key := "newc " + o.class + " key=" + k.Name
			f := sthFields{size: r.U64() >> uint(r.Intn(64)), ts: r.U64() >> uint(r.Intn(64)), root: r.Bytes(32)}
			genuine := f
			genuine.sig = c12DS(4, c12SigAlg(k), k.Sign(4, verifkit.STHSigInput(0, f.ts, f.size, f.root)))
			bogus := f
			bogus.sig = c12DS(4, c12SigAlg(k), []byte{0xde, 0xad})
			ans := ""
			setupErr := c12SessionOpts(jsonclient.Options{Logger: c12Silent{}, PublicKeyDER: o.der, PublicKey: o.pem}, func(s *c12Sess) {
				ans = "ok keyless"
				if s.cl.Verifier != nil {
					ans = "ok verifier"
				}
				if given && s.cl.Verifier == nil {
					c.out.Fail(key+" key-option-set-but-no-verifier", fmt.Sprintf("New(Options{PublicKeyDER: %x, PublicKey: %q}) built a client with Verifier == nil: signature checking silently off", o.der, o.pem))
				}
				var sth *ct.SignedTreeHead
				var err error
				p := s.call([]c12Rsp{{status: 200, body: bogus.json()}}, func(ctx context.Context, cl *LogClient) { sth, err = cl.GetSTH(ctx) })
				if given && p == "" && err == nil && sth != nil {
					c.out.Fail(key+" unverified-sth-returned", fmt.Sprintf("New(Options{PublicKeyDER: %x, PublicKey: %q}) then GetSTH handed back %s whose signature is the two octets dead", o.der, o.pem, bogus.json()))
				}
				if p != "" {
					c.out.Fail(key+" panic", p)
				}
				p = s.call([]c12Rsp{{status: 200, body: genuine.json()}}, func(ctx context.Context, cl *LogClient) { sth, err = cl.GetSTH(ctx) })
				if p != "" || err != nil || sth == nil {
					c.out.Fail(key+" genuine-sth-refused", fmt.Sprintf("%v %s", err, p))
				}
			})
			if setupErr != "" {
				ans = "err"
				if !given {
					c.out.Fail(key+" construction-failed-without-key-option", setupErr)
				}
			}
			c.out.T(fmt.Sprintf("newc %s %s", verifkit.B(given), verifkit.B(parsed)), ans)
			c.out.Count("class:newc:" + o.class)
			c.out.Count("outcome:newc-" + strings.ReplaceAll(ans, " ", "-"))
		}
	}
}

// ---------------------------------------------------------------------------------------------- add-chain

type sctFields struct {
	version uint64
	id      []byte
	ts      uint64
	ext     string // as sent (base64 text)
	sig     []byte
}

func (f sctFields) json() []byte {
	return []byte(fmt.Sprintf(`{"sct_version":%d,"id":%q,"timestamp":%d,"extensions":%q,"signature":%q}`, f.version, b64(f.id), f.ts, f.ext, b64(f.sig)))
}

type c12Chain struct {
	name  string
	pre   bool
	chain []ct.ASN1Cert
}

func (c *c12) chains() []c12Chain {
	der := func(pemText string) []ct.ASN1Cert {
		certs, err := x509util.CertificatesFromPEM([]byte(pemText))
		if err != nil {
			panic(err)
		}
		var o []ct.ASN1Cert
		for _, x := range certs {
			o = append(o, ct.ASN1Cert{Data: x.Raw})
		}
		return o
	}
	cert := der(testdata.TestCertPEM + testdata.CACertPEM)
	pre := der(testdata.TestPreCertPEM + testdata.CACertPEM)
	lax, err := verifkit.NonMinimalSerial(cert[0].Data) // read only by the lenient fallback of the repository's parser
	if err != nil {
		panic(err)
	}
	var viaPre []ct.ASN1Cert // [precertificate, Precertificate Signing Certificate (CT EKU), final CA]
	for _, d := range verifkit.PreIssuerChain() {
		viaPre = append(viaPre, ct.ASN1Cert{Data: d})
	}
	return []c12Chain{
		{"cert", false, cert}, {"cert", false, cert}, {"cert", false, cert}, {"cert", false, cert}, {"cert", false, cert}, {"cert", false, cert},
		{"precert", true, pre}, {"precert", true, pre}, {"precert", true, pre},
		{"cert-alone", false, cert[:1]},
		{"precert", true, pre}, {"precert", true, pre}, {"precert", true, pre},
		{"precert-as-cert", false, pre},
		{"cert-as-precert", true, cert},
		{"precert-without-issuer", true, pre[:1]},
		{"garbage-cert", false, []ct.ASN1Cert{{Data: []byte{0x30, 0x03, 1, 2, 3}}}},
		{"precert-via-pre-issuer", true, viaPre}, {"precert-via-pre-issuer", true, viaPre}, {"precert-via-pre-issuer", true, viaPre},
		{"precert-via-pre-issuer-without-ca", true, viaPre[:2]},
		{"lax-only-cert", false, []ct.ASN1Cert{{Data: lax}, cert[1]}},
		{"lax-only-cert", false, []ct.ASN1Cert{{Data: lax}, cert[1]}},
		{"lax-only-cert+trailing-bytes", false, []ct.ASN1Cert{{Data: append(append([]byte(nil), lax...), 0xde, 0xad, 0xbe, 0xef)}, cert[1]}},
		{"cert+trailing-bytes", false, []ct.ASN1Cert{{Data: append(append([]byte(nil), cert[0].Data...), 0xde, 0xad, 0xbe, 0xef)}, cert[1]}},
		{"empty-chain", false, nil},
		{"empty-prechain", true, nil},
	}
}

// c12Leaf: what the SCT signature must be over for this submission — derived WITHOUT the repository's leaf builder
// (verifkit.IndependentEntry: standard-library X.509, own removal of the poison extension, SHA-256 of the issuer's SPKI).
func c12Leaf(ch c12Chain, ts uint64) (state string, etype uint64, cert, ikh, tbs []byte) {
	var der [][]byte
	for _, x := range ch.chain {
		der = append(der, x.Data)
	}
	et, cert, ikh, tbs, ok := verifkit.IndependentEntry(der, ch.pre, verifkit.OIDPoison)
	if !ok {
		return "err", 0, nil, nil, nil
	}
	return "ok", et, cert, ikh, tbs
}

// c12ChainToks: the first three certificates of the submission as the X.509 parsers see them, and the precertificate TBS
// without its poison extension (own stripping) — the inputs of the model's `leafFromRawChain`.
//
//	<pre> <k> {<raw> <fatal> <tbs> <spki> <preissuer>}*k <stripped|none>
func c12ChainToks(ch c12Chain) string {
	n := len(ch.chain)
	if n > 3 {
		n = 3
	}
	toks := []string{verifkit.B(ch.pre), fmt.Sprint(n)}
	stripped := "none"
	for i := 0; i < n; i++ {
		raw := ch.chain[i].Data
		_, ferr := x509.ParseCertificate(raw) // the repository's lenient parser decides what is fatal (C11)
		fatal := x509.IsFatal(ferr)
		var tbs, spki []byte
		pre := false
		if sc, err := stdx509.ParseCertificate(raw); err == nil {
			tbs, spki = sc.RawTBSCertificate, sc.RawSubjectPublicKeyInfo
			for _, eku := range sc.UnknownExtKeyUsage {
				if eku.String() == "1.3.6.1.4.1.11129.2.4.4" {
					pre = true
				}
			}
			if i == 0 {
				if st, err := verifkit.StripExtension(tbs, verifkit.OIDPoison); err == nil {
					stripped = verifkit.Hex(st)
				}
				if ch.pre && len(ch.chain) >= 3 {
					var der [][]byte
					for _, x := range ch.chain {
						der = append(der, x.Data)
					}
					if _, _, _, t2, ok := verifkit.IndependentEntry(der, true, verifkit.OIDPoison); ok {
						stripped = verifkit.Hex(t2)
					}
				}
			}
		}
		toks = append(toks, verifkit.Hex(raw), verifkit.B(fatal), verifkit.Hex(tbs), verifkit.Hex(spki), verifkit.B(pre))
	}
	toks = append(toks, stripped)
	return strings.Join(toks, " ")
}

func (c *c12) add() {
	r := c.r
	chains := c.chains()
	n := verifkit.N(500, 12000)
	for it := 0; it < n; it++ {
		var k *verifkit.SKey
		if r.Intn(8) != 0 {
			k = c.keys[r.Intn(len(c.keys))]
		}
		signer := k
		if signer == nil {
			signer = c.keys[0]
		}
		ch := chains[r.Intn(len(chains))]
		keyID := sha256.Sum256(signer.SPKI)
		f := sctFields{id: keyID[:], ts: r.U64() >> uint(r.Intn(64))}
		var ext []byte
		if r.Intn(4) == 0 {
			ext = r.Bytes(1 + r.Intn(20))
		}
		f.ext = b64(ext)
		sign := func(s *verifkit.SKey, ch c12Chain, ts uint64, ext []byte) []byte {
			st, et, cert, ikh, tbs := c12Leaf(ch, ts)
			if st != "ok" {
				cert, et = []byte{1}, 0
			}
			return c12DS(4, c12SigAlg(s), s.Sign(4, verifkit.SCTSigInput(0, ts, et, cert, ikh, tbs, ext)))
		}
		f.sig = sign(signer, ch, f.ts, ext)
		class := "valid"
		body := []byte(nil)
		sel := r.Intn(52)
		if (strings.HasSuffix(ch.name, "+trailing-bytes") && r.Bool()) || (ch.name == "precert-via-pre-issuer" && r.Intn(3) == 0) {
			sel = 13
		}
		switch sel {
		case 0, 1, 2, 3, 4, 5, 6, 7, 30, 31, 32, 33, 34, 35, 36, 37, 38, 39, 40, 41, 42, 43, 44, 45, 46, 47, 48, 49, 50, 51:
		case 8:
			class = "foreign-key-signature"
			f.sig = sign(c.other[signer.Kind], ch, f.ts, ext)
		case 9:
			class = "corrupted-signature"
			f.sig = c12Flip(f.sig, 32+r.Intn(8*(len(f.sig)-4)))
		case 10:
			class = "signature-over-another-chain"
			f.sig = sign(signer, c12Chain{"other", false, []ct.ASN1Cert{chains[0].chain[1]}}, f.ts, ext)
		case 11:
			class = "signature-over-other-entry-type"
			f.sig = sign(signer, c12Chain{"x", !ch.pre, ch.chain}, f.ts, ext)
		case 12:
			class = "signature-over-other-timestamp-or-extensions"
			if r.Bool() {
				f.sig = sign(signer, ch, f.ts+1, ext)
			} else {
				f.sig = sign(signer, ch, f.ts, append([]byte{7}, ext...))
			}
		case 13:
			if ch.name == "precert-via-pre-issuer" {
				class = "signature-over-pre-issuer-key-hash"
				_, et, cert, _, tbs := c12Leaf(ch, f.ts)
				if sc, err := stdx509.ParseCertificate(ch.chain[1].Data); err == nil {
					h := sha256.Sum256(sc.RawSubjectPublicKeyInfo)
					f.sig = c12DS(4, c12SigAlg(signer), signer.Sign(4, verifkit.SCTSigInput(0, f.ts, et, cert, h[:], tbs, ext)))
				}
				break
			}
			if strings.HasSuffix(ch.name, "+trailing-bytes") {
				class = "signature-over-prefix-of-submitted-certificate"
				d := ch.chain[0].Data
				f.sig = sign(signer, c12Chain{"prefix", false, []ct.ASN1Cert{{Data: d[:len(d)-4]}, ch.chain[1]}}, f.ts, ext)
				break
			}
			class = "id-zero"
			f.id = make([]byte, 32)
		case 14:
			class = "id-random"
			f.id = r.Bytes(32)
		case 15:
			class = "id-short"
			f.id = [][]byte{{1, 2, 3}, {}, keyID[:31]}[r.Intn(3)]
		case 16:
			if r.Bool() {
				class = "id-absent" // what the repository's own tests serve: the SCT must still carry the key's hash
				if r.Bool() {
					f.id = nil
				} else {
					body = []byte(fmt.Sprintf(`{"sct_version":0,"timestamp":%d,"extensions":%q,"signature":%q}`, f.ts, f.ext, b64(f.sig)))
				}
				break
			}
			class = "id-long"
			f.id = append(append([]byte(nil), keyID[:]...), r.Bytes(1+r.Intn(32))...)
		case 17:
			class = "id-of-other-key"
			o := sha256.Sum256(c.other[signer.Kind].SPKI)
			f.id = o[:]
		case 18:
			class = "version-not-v1"
			f.version = uint64(1 + r.Intn(300))
		case 19:
			class = "extensions-not-base64"
			f.ext = []string{"!!", "A", "AAA=A"}[r.Intn(3)]
		case 20:
			class = "signature-trailing-bytes"
			f.sig = append(append([]byte(nil), f.sig...), r.Bytes(1+r.Intn(3))...)
		case 21:
			if r.Bool() {
				class = "signature-truncated"
				f.sig = f.sig[:r.Intn(len(f.sig))]
			} else {
				class = "digitally-signed-with-empty-signature"
				f.sig = []byte{4, byte(c12SigAlg(signer)), 0, 0}
			}
		case 22:
			class = "signature-length-field-wrong"
			f.sig = append([]byte(nil), f.sig...)
			f.sig[3] += byte(1 + r.Intn(3))
		case 23:
			class = "truncated-json"
			b := f.json()
			body = b[:r.Intn(len(b))]
		case 24:
			class = "wrong-types"
			body = [][]byte{[]byte(`{"sct_version":"0"}`), []byte(`{"timestamp":-5}`), []byte(`[1]`), []byte(`{"id":7}`), []byte(`{"id":"%%%"}`), []byte(`{"signature":{}}`),
				[]byte(`{"extensions":5}`), []byte(`{"sct_version":18446744073709551616}`)}[r.Intn(8)]
		case 25:
			class = "json-then-garbage"
			body = append(f.json(), []byte(`}`)...)
		case 26:
			class = "empty-or-null"
			body = [][]byte{{}, []byte(`null`), []byte(`{}`)}[r.Intn(3)]
		case 27:
			class = "hash-or-alg-code"
			f.sig = append([]byte(nil), f.sig...)
			if r.Bool() {
				f.sig[0] = byte(r.Intn(256))
			} else {
				f.sig[1] = byte(r.Intn(256))
			}
		case 28:
			class = "extensions-changed"
			f.ext = b64(append([]byte{9}, ext...))
		default:
			class = "extra-json-fields"
			body = []byte(strings.Replace(string(f.json()), "{", `{"unknown":{"a":1},`, 1))
		}
		if body == nil {
			body = f.json()
		}
		status := c12Statuses[r.Intn(len(c12Statuses))]
		rsps := []c12Rsp{{status: status, body: body, hdr: c12HeaderPool[r.Intn(len(c12HeaderPool))]}}
		// attempts answered with a retryable status (or an undecodable 200) before the response under test
		if r.Intn(5) == 0 {
			for n := 1 + r.Intn(3); n > 0; n-- {
				pre := []c12Rsp{{status: 408, body: []byte("timeout")}, {status: 429}, {status: 503, body: []byte("{}"), hdr: http.Header{"Retry-After": {"1"}}}, {status: 200, body: []byte(`{"sct_version":`)}}[r.Intn(4)]
				rsps = append([]c12Rsp{pre}, rsps...)
			}
			class += "+after-retry"
		}
		c.oneAdd(class, k, ch, rsps)
	}
}

func (c *c12) oneAdd(class string, k *verifkit.SKey, ch c12Chain, rsps []c12Rsp) {
	c.oneAddOn(nil, class, k, ch, rsps)
}

// oneAddOn: one AddChain / AddPreChain call, on the session's client when there is one (histories), judged and traced.
// For a well-formed chain the call goes, one time in four, through a TemporalLogClient whose single shard is that client.
func (c *c12) oneAddOn(sess *c12Sess, class string, k *verifkit.SKey, ch c12Chain, rsps []c12Rsp) {
	var sct *ct.SignedCertificateTimestamp
	var err error
	viaTemporal := (ch.name == "cert" || ch.name == "precert") && c.r.Intn(4) == 0
	if viaTemporal {
		class += "+via-temporal-client"
	}
	sc, p := c12On(sess, k, rsps, func(ctx context.Context, cl *LogClient) {
		var adder AddLogClient = cl
		if viaTemporal {
			adder = &TemporalLogClient{Clients: []*LogClient{cl}, intervals: []interval{{}}}
		}
		if ch.pre {
			sct, err = adder.AddPreChain(ctx, ch.chain)
		} else {
			sct, err = adder.AddChain(ctx, ch.chain)
		}
	})
	key := fmt.Sprintf("add %s chain=%s", class, ch.name)
	// the line: every response as the client decodes it, and the first one that is final
	var toks []string
	var final *ct.AddChainResponse
	decided := false
	for _, rp := range rsps {
		var dec ct.AddChainResponse
		var target interface{} = &dec
		jsonOK := json.Unmarshal(rp.body, &target) == nil && rp.cutAt == 0
		if rp.cutAt > 0 {
			dec = ct.AddChainResponse{}
		}
		exts, xerr := base64.StdEncoding.DecodeString(dec.Extensions)
		toks = append(toks, fmt.Sprintf("%d %s %d %s %d %s %s %s", rp.status, verifkit.B(jsonOK), uint64(dec.SCTVersion), verifkit.Hex(dec.ID), dec.Timestamp,
			verifkit.B(xerr == nil), verifkit.Hex(exts), verifkit.Hex(dec.Signature)))
		if !decided {
			if rp.status == 200 && jsonOK {
				d := dec
				final, decided = &d, true
			} else if rp.status != 200 && rp.status != 408 && rp.status != 429 && rp.status != 503 {
				decided = true
			}
		}
	}
	kind, keyID := "-", "-"
	var v verifkit.Verdict
	leafTok := c12ChainToks(ch)
	if final != nil {
		st, et, cert, ikh, tbs := c12Leaf(ch, final.Timestamp)
		if k != nil {
			if h, _, sg, ok := c12ParseDS(final.Signature); ok {
				if st == "ok" {
					exts, _ := base64.StdEncoding.DecodeString(final.Extensions)
					v = k.Judge(h, verifkit.SCTSigInput(uint64(final.SCTVersion), final.Timestamp, et, cert, ikh, tbs, exts), sg)
				} else {
					v.R, v.S, _ = verifkit.LenientRS(sg)
				}
			}
		}
	}
	if k != nil {
		kind = k.Kind
		h := sha256.Sum256(k.SPKI)
		keyID = verifkit.Hex(h[:])
	}
	ans := ""
	switch {
	case p != "":
		ans = "panic"
		fk := key + " panic"
		if len(ch.chain) == 0 {
			fk = "add empty-chain panic"
		}
		c.out.Fail(fk, p)
	case err != nil:
		ans = c12Err(c.out, key, err, sc)
		if sct != nil {
			c.out.Fail(key+" partial-result", "an SCT was returned together with an error")
		}
		if ans == "err" && !(errors.Is(err, context.Canceled) || errors.Is(err, context.DeadlineExceeded)) {
			c.out.Fail(key+" error-without-status", "a response was received but the error is not an RspError: "+err.Error())
		}
	default:
		ds := tls.DigitallySigned(sct.Signature)
		ans = fmt.Sprintf("ok %d %s %d %s %d %d %s", uint64(sct.SCTVersion), verifkit.Hex(sct.LogID.KeyID[:]), sct.Timestamp, verifkit.Hex(sct.Extensions), ds.Algorithm.Hash, ds.Algorithm.Signature, verifkit.Hex(ds.Signature))
		if sc.last == nil || sc.last.status != 200 {
			c.out.Fail(key+" non-200-accepted", ans)
		}
		if final == nil {
			c.out.Fail(key+" undecodable-response-accepted", ans)
		} else {
			_, _, _, dsok := c12ParseDS(final.Signature)
			exts, xerr := base64.StdEncoding.DecodeString(final.Extensions)
			if !dsok || xerr != nil {
				c.out.Fail(key+" malformed-response-accepted", ans)
			}
			if uint64(sct.SCTVersion) != uint64(final.SCTVersion) || sct.Timestamp != final.Timestamp || !bytes.Equal(sct.Extensions, exts) {
				c.out.Fail(key+" sct-differs-from-response", ans)
			}
		}
		if k != nil {
			// the property: the SCT verifies for the chain and entry type submitted, and its log ID is the hash of the configured key
			st, et, cert, ikh, tbs := c12Leaf(ch, sct.Timestamp)
			jv := k.Judge(int(ds.Algorithm.Hash), verifkit.SCTSigInput(uint64(sct.SCTVersion), sct.Timestamp, et, cert, ikh, tbs, sct.Extensions), ds.Signature)
			if st != "ok" || !k.Expect(int(ds.Algorithm.Hash), int(ds.Algorithm.Signature), jv) {
				c.out.Fail(key+" unverified-sct-returned", ans)
			}
			if want := sha256.Sum256(k.SPKI); sct.LogID.KeyID != want {
				c.out.Fail("add logid-not-key-hash "+class, fmt.Sprintf("the SCT handed back has LogID %x, the configured key hashes to %x (response id %x)", sct.LogID.KeyID, want, final.ID))
			}
		} else if final != nil && len(final.ID) != sha256.Size && false { // a client without a key: outside the property (counted only)
			c.out.Fail("add logid-wrong-length "+class, fmt.Sprintf("response id has %d octets, the SCT handed back has LogID %x", len(final.ID), sct.LogID.KeyID))
		}
	}
	c.out.T(fmt.Sprintf("add %s %s %s %s %s %s %s %d %s", verifkit.B(k != nil), kind, keyID, verifkit.IntStr(v.R), verifkit.IntStr(v.S), verifkit.B(v.Prim), leafTok, len(rsps), strings.Join(toks, " ")), ans)
	c.out.Count("class:add:" + class)
	c.out.Count("outcome:" + strings.Fields(ans)[0])
}

// ---------------------------------------------------------------------------------------------- plain GET methods

func (c *c12) plain() {
	r := c.r
	type ep struct {
		name  string
		valid []byte
		dec   func([]byte) bool
		call  func(ctx context.Context, cl *LogClient) (interface{}, error)
	}
	proof := fmt.Sprintf(`[%q,%q]`, b64(r.Bytes(32)), b64(r.Bytes(32)))
	eps := []ep{
		{"get-sth-consistency", []byte(`{"consistency":` + proof + `}`),
			func(b []byte) bool {
				var x ct.GetSTHConsistencyResponse
				return json.NewDecoder(bytes.NewReader(b)).Decode(&x) == nil
			},
			func(ctx context.Context, cl *LogClient) (interface{}, error) {
				v, err := cl.GetSTHConsistency(ctx, 3, 9)
				if err != nil && v != nil {
					return v, err
				}
				return nil, err
			}},
		{"get-proof-by-hash", []byte(`{"leaf_index":5,"audit_path":` + proof + `}`),
			func(b []byte) bool {
				var x ct.GetProofByHashResponse
				return json.NewDecoder(bytes.NewReader(b)).Decode(&x) == nil
			},
			func(ctx context.Context, cl *LogClient) (interface{}, error) {
				v, err := cl.GetProofByHash(ctx, []byte("hash"), 9)
				if v == nil {
					return nil, err
				}
				return v, err
			}},
		{"get-entry-and-proof", []byte(`{"leaf_input":"AAAA","extra_data":"AAAA","audit_path":` + proof + `}`),
			func(b []byte) bool {
				var x ct.GetEntryAndProofResponse
				return json.NewDecoder(bytes.NewReader(b)).Decode(&x) == nil
			},
			func(ctx context.Context, cl *LogClient) (interface{}, error) {
				v, err := cl.GetEntryAndProof(ctx, 1, 9)
				if v == nil {
					return nil, err
				}
				return v, err
			}},
		{"get-entries-raw", []byte(`{"entries":[{"leaf_input":"AAAA","extra_data":"AAAA"}]}`),
			func(b []byte) bool {
				var x ct.GetEntriesResponse
				return json.NewDecoder(bytes.NewReader(b)).Decode(&x) == nil
			},
			func(ctx context.Context, cl *LogClient) (interface{}, error) {
				v, err := cl.GetRawEntries(ctx, 0, 3)
				if v == nil {
					return nil, err
				}
				return v, err
			}},
	}
	bodies := func(valid []byte) [][2]string {
		return [][2]string{{"valid", string(valid)}, {"valid", string(valid)}, {"valid", string(valid)}, {"truncated-json", string(valid[:len(valid)/2])}, {"truncated-json", string(valid[:len(valid)-1])},
			{"wrong-types", `{"consistency":"x","leaf_index":"1","audit_path":5,"leaf_input":7,"entries":{}}`}, {"wrong-types", `[]`}, {"wrong-types", `7`},
			{"bad-base64", `{"consistency":["%%"],"audit_path":["%%"],"leaf_input":"%%","entries":[{"leaf_input":"%%"}]}`},
			{"json-then-garbage", string(valid) + `xyz`}, {"valid+read-error-after-complete-body", string(valid)}, {"empty", ``}, {"null", `null`}, {"empty-object", `{}`}, {"html", `<html>502</html>`}}
	}
	for _, e := range eps {
		for _, st := range []int{200, 201, 203, 206, 301, 302, 307, 400, 404, 408, 429, 500, 503} {
			for _, bd := range bodies(e.valid) {
				body := []byte(bd[1])
				jsonOK := e.dec(body)
				rsp := c12Rsp{status: st, body: body, hdr: c12HeaderPool[r.Intn(len(c12HeaderPool))]}
				if bd[0] == "valid+read-error-after-complete-body" {
					rsp.cutAt, jsonOK = len(body), false // the body could not be read to its end: nothing is decoded
				}
				var res interface{}
				var err error
				sc, p := c12Call(c.keys[0], []c12Rsp{rsp}, func(ctx context.Context, cl *LogClient) { res, err = e.call(ctx, cl) })
				key := fmt.Sprintf("get %s %s status=%d", e.name, bd[0], st)
				ans := "ok"
				switch {
				case p != "":
					ans = "panic"
					c.out.Fail(key+" panic", p)
				case err != nil:
					ans = c12Err(c.out, key, err, sc)
					if res != nil {
						c.out.Fail(key+" partial-result", "a result was returned together with an error")
					}
					if ans == "err" {
						c.out.Fail(key+" error-without-status", err.Error())
					}
				default:
					if st != 200 || !jsonOK {
						c.out.Fail(key+" bad-response-accepted", "")
					}
				}
				c.out.T(fmt.Sprintf("get %d %s", st, verifkit.B(jsonOK)), ans)
				c.out.Count("class:get:" + e.name + ":" + bd[0])
				c.out.Count("outcome:" + strings.Fields(ans)[0])
			}
		}
	}
	// get-roots: base64 of every certificate
	for _, st := range []int{200, 200, 404, 500} {
		for _, certs := range [][]string{{}, {b64([]byte{1, 2})}, {b64([]byte{1}), b64([]byte{2, 3})}, {"%%"}, {b64([]byte{1}), "A"}, {"A", b64([]byte{1})}} {
			j, _ := json.Marshal(map[string]interface{}{"certificates": certs})
			for _, body := range [][]byte{j, j[:len(j)/2], []byte(`{"certificates":"x"}`)} {
				var dec ct.GetRootsResponse
				jsonOK := json.NewDecoder(bytes.NewReader(body)).Decode(&dec) == nil
				var toks []string
				for _, s := range dec.Certificates {
					_, e := base64.StdEncoding.DecodeString(s)
					toks = append(toks, verifkit.B(e == nil))
				}
				var roots []ct.ASN1Cert
				var err error
				sc, p := c12Call(nil, []c12Rsp{{status: st, body: body}}, func(ctx context.Context, cl *LogClient) { roots, err = cl.GetAcceptedRoots(ctx) })
				key := fmt.Sprintf("roots status=%d", st)
				ans := "ok"
				switch {
				case p != "":
					ans = "panic"
					c.out.Fail(key+" panic", p)
				case err != nil:
					ans = c12Err(c.out, key, err, sc)
					if roots != nil {
						c.out.Fail(key+" partial-result", fmt.Sprintf("%d roots returned together with an error", len(roots)))
					}
					if ans == "err" {
						c.out.Fail(key+" error-without-status", err.Error())
					}
				}
				c.out.T(strings.TrimSpace(fmt.Sprintf("roots %d %s %d %s", st, verifkit.B(jsonOK), len(toks), strings.Join(toks, " "))), ans)
				c.out.Count("class:roots")
				c.out.Count("outcome:" + strings.Fields(ans)[0])
			}
		}
	}
}

// ---------------------------------------------------------------------------------------------- entries

type c12Entry struct {
	class       string
	leaf, extra []byte
}

func c12Must(b []byte, err error) []byte {
	if err != nil {
		panic(err)
	}
	return b
}

// entryPool: genuine entries built with the repository's encoder from the testdata certificates, and damaged ones.
func (c *c12) entryPool() []c12Entry {
	r := c.r
	certs, _ := x509util.CertificatesFromPEM([]byte(testdata.TestCertPEM + testdata.CACertPEM))
	pres, _ := x509util.CertificatesFromPEM([]byte(testdata.TestPreCertPEM + testdata.CACertPEM))
	asn := func(cs []*x509.Certificate) []ct.ASN1Cert {
		var o []ct.ASN1Cert
		for _, x := range cs {
			o = append(o, ct.ASN1Cert{Data: x.Raw})
		}
		return o
	}
	mk := func(class string, etype ct.LogEntryType, chain []*x509.Certificate, ts uint64, ext []byte) c12Entry {
		leaf, err := ct.MerkleTreeLeafFromChain(chain, etype, ts)
		if err != nil {
			panic(err)
		}
		leaf.TimestampedEntry.Extensions = ext
		var extra []byte
		if etype == ct.X509LogEntryType {
			extra = c12Must(tls.Marshal(ct.CertificateChain{Entries: asn(chain[1:])}))
		} else {
			extra = c12Must(tls.Marshal(ct.PrecertChainEntry{PreCertificate: ct.ASN1Cert{Data: chain[0].Raw}, CertificateChain: asn(chain[1:])}))
		}
		return c12Entry{class, c12Must(tls.Marshal(*leaf)), extra}
	}
	good := []c12Entry{
		mk("x509", ct.X509LogEntryType, certs, r.U64(), nil),
		mk("x509-no-chain", ct.X509LogEntryType, certs[:1], 0, nil),
		mk("x509-extensions", ct.X509LogEntryType, certs, 1<<64-1, r.Bytes(5)),
		mk("precert", ct.PrecertLogEntryType, pres, r.U64(), nil),
		mk("precert-extensions", ct.PrecertLogEntryType, pres, 12345, r.Bytes(300)),
	}
	pool := append([]c12Entry(nil), good...)
	pool = append(pool, good...) // weight of the success path
	u24 := func(n int) []byte { return []byte{byte(n >> 16), byte(n >> 8), byte(n)} }
	cat := func(bs ...[]byte) []byte {
		var o []byte
		for _, b := range bs {
			o = append(o, b...)
		}
		return o
	}
	hdr := func(version, leafType byte, ts uint64, et uint16) []byte {
		b := []byte{version, leafType, 0, 0, 0, 0, 0, 0, 0, 0, byte(et >> 8), byte(et)}
		for i := 0; i < 8; i++ {
			b[2+i] = byte(ts >> uint(56-8*i))
		}
		return b
	}
	junk := []byte{0x30, 0x03, 0x02, 0x01, 0x01}
	lax, lerr := verifkit.NonMinimalSerial(certs[0].Raw)
	if lerr != nil {
		panic(lerr)
	}
	g := good[0]
	p := good[3]
	pool = append(pool,
		c12Entry{"leaf-trailing-byte", cat(g.leaf, []byte{0}), g.extra},
		c12Entry{"leaf-truncated", g.leaf[:len(g.leaf)-1-r.Intn(40)], g.extra},
		c12Entry{"leaf-empty", nil, g.extra},
		c12Entry{"leaf-version-7", cat([]byte{7}, g.leaf[1:]), g.extra},
		c12Entry{"leaf-type-1", cat(g.leaf[:1], []byte{1}, g.leaf[2:]), g.extra},
		c12Entry{"entry-type-2", cat(g.leaf[:10], []byte{0, 2}, g.leaf[12:]), g.extra},
		c12Entry{"entry-type-json", cat(hdr(0, 0, 5, 0x8000), u24(2), []byte("{}"), []byte{0, 0}), g.extra},
		c12Entry{"entry-type-swapped", cat(g.leaf[:10], []byte{0, 1}, g.leaf[12:]), g.extra},
		c12Entry{"cert-length-zero", cat(hdr(0, 0, 5, 0), u24(0), []byte{0, 0}), cat(u24(0))},
		c12Entry{"cert-not-x509", cat(hdr(0, 0, 5, 0), u24(len(junk)), junk, []byte{0, 0}), cat(u24(0))},
		c12Entry{"cert-lax-only", cat(hdr(0, 0, 5, 0), u24(len(lax)), lax, []byte{0, 0}), cat(u24(0))},
		c12Entry{"cert-lax-only+trailing-bytes", cat(hdr(0, 0, 5, 0), u24(len(lax)+4), lax, []byte{0xde, 0xad, 0xbe, 0xef}, []byte{0, 0}), cat(u24(0))},
		c12Entry{"cert+trailing-bytes", cat(hdr(0, 0, 5, 0), u24(len(certs[0].Raw)+4), certs[0].Raw, []byte{0xde, 0xad, 0xbe, 0xef}, []byte{0, 0}), cat(u24(0))},
		c12Entry{"tbs-not-x509", cat(hdr(0, 0, 5, 1), r.Bytes(32), u24(len(junk)), junk, []byte{0, 0}), cat(u24(len(junk)), junk, u24(0))},
		c12Entry{"extensions-length-overruns", cat(g.leaf[:len(g.leaf)-2], []byte{0, 9}), g.extra},
		c12Entry{"extra-trailing-byte", g.leaf, cat(g.extra, []byte{9})},
		c12Entry{"extra-truncated", g.leaf, g.extra[:len(g.extra)-1]},
		c12Entry{"extra-empty", g.leaf, nil},
		c12Entry{"extra-of-precert-for-x509", g.leaf, p.extra},
		c12Entry{"extra-of-x509-for-precert", p.leaf, g.extra},
		c12Entry{"extra-inner-cert-overruns", g.leaf, cat(u24(5), u24(9), []byte{1, 2})},
		c12Entry{"extra-inner-cert-empty", g.leaf, cat(u24(3), u24(0))},
		c12Entry{"extra-junk-certs", g.leaf, cat(u24(2*(3+len(junk))), u24(len(junk)), junk, u24(len(junk)), junk)},
		c12Entry{"precert-extra-trailing", p.leaf, cat(p.extra, []byte{0})},
		c12Entry{"precert-extra-precert-empty", p.leaf, cat(u24(0), u24(0))},
		c12Entry{"random", r.Bytes(r.Intn(60)), r.Bytes(r.Intn(30))},
	)
	return pool
}

// c12Show renders a RawLogEntry the way the model prints its own.
func c12Show(e *ct.RawLogEntry) string {
	te := e.Leaf.TimestampedEntry
	var cert, ikh, tbs []byte
	switch te.EntryType {
	case ct.X509LogEntryType:
		cert = te.X509Entry.Data
	case ct.PrecertLogEntryType:
		cert, ikh, tbs = e.Cert.Data, te.PrecertEntry.IssuerKeyHash[:], te.PrecertEntry.TBSCertificate
	}
	s := fmt.Sprintf("%d %d %d %s %s %s %s %d", uint64(e.Leaf.Version), te.Timestamp, uint64(te.EntryType), verifkit.Hex(cert), verifkit.Hex(ikh), verifkit.Hex(tbs), verifkit.Hex(te.Extensions), len(e.Chain))
	for _, x := range e.Chain {
		s += " " + verifkit.Hex(x.Data)
	}
	return s
}

func (c *c12) entries() {
	r := c.r
	pool := c.entryPool()
	// the decoder on its own: total, and consistent with its input (re-encoding gives the input back)
	decode := func(en c12Entry) (rle *ct.RawLogEntry, fatal bool) {
		var err error
		p := verifkit.Guard(func() { rle, err = ct.RawLogEntryFromLeaf(7, &ct.LeafEntry{LeafInput: en.leaf, ExtraData: en.extra}) })
		key := "rle " + en.class
		ans := "err"
		switch {
		case p != "":
			ans = "panic"
			c.out.Fail(key+" panic", p)
		case err == nil:
			ans = "ok " + c12Show(rle)
			if rle.Index != 7 {
				c.out.Fail(key+" index", fmt.Sprint(rle.Index))
			}
			li, e1 := tls.Marshal(rle.Leaf)
			var xd []byte
			var e2 error
			if rle.Leaf.TimestampedEntry.EntryType == ct.X509LogEntryType {
				xd, e2 = tls.Marshal(ct.CertificateChain{Entries: rle.Chain})
				if !bytes.Equal(rle.Cert.Data, rle.Leaf.TimestampedEntry.X509Entry.Data) {
					c.out.Fail(key+" inconsistent-entry", "Cert is not the leaf's certificate")
				}
			} else {
				xd, e2 = tls.Marshal(ct.PrecertChainEntry{PreCertificate: rle.Cert, CertificateChain: rle.Chain})
			}
			if e1 != nil || e2 != nil || !bytes.Equal(li, en.leaf) || !bytes.Equal(xd, en.extra) {
				c.out.Fail(key+" inconsistent-entry", fmt.Sprintf("re-encoding the returned entry does not give back leaf_input / extra_data (%v %v)", e1, e2))
			}
		default:
			if rle != nil {
				c.out.Fail(key+" partial-result", "entry returned together with an error")
			}
		}
		c.out.T(fmt.Sprintf("rle %s %s", verifkit.Hex(en.leaf), verifkit.Hex(en.extra)), ans)
		c.out.Count("class:rle:" + en.class)
		c.out.Count("outcome:" + strings.Fields(ans)[0])
		if rle != nil && err == nil {
			var e3 error
			var le *ct.LogEntry
			if p := verifkit.Guard(func() { le, e3 = rle.ToLogEntry() }); p != "" {
				c.out.Fail(key+" ToLogEntry panic", p)
				return rle, true
			}
			if le != nil {
				c12CertCoversField(c.out, key, le)
			}
			return rle, x509.IsFatal(e3)
		}
		return nil, false
	}
	fatal := map[int]bool{}
	okDec := map[int]bool{}
	for i, en := range pool {
		rle, f := decode(en)
		fatal[i], okDec[i] = f, rle != nil
	}
	for i := 0; i < verifkit.N(300, 20000); i++ {
		en := pool[r.Intn(len(pool))]
		switch r.Intn(3) {
		case 0:
			en = c12Entry{en.class + "+bitflip-leaf", c12Flip(en.leaf, r.Intn(8*len(en.leaf)+1)), en.extra}
		case 1:
			en = c12Entry{en.class + "+bitflip-extra", en.leaf, c12Flip(en.extra, r.Intn(8*len(en.extra)+1))}
		default:
			cut := r.Intn(len(en.leaf) + 1)
			en = c12Entry{en.class + "+cut-leaf", en.leaf[:cut], en.extra}
		}
		en.class = "mutated"
		decode(en)
	}

	// GetEntries over responses mixing genuine and damaged entries; first a sweep: every entry of the pool that does not decode
	// (unknown entry type, damaged leaf, fatal certificate …) alone, and between / before / after genuine ones, answered 200
	var sweep [][]int
	for d := 10; d < len(pool); d++ {
		g1, g2 := r.Intn(10), r.Intn(10)
		sweep = append(sweep, []int{g1, d, g2})
		switch d % 3 {
		case 0:
			sweep = append(sweep, []int{d})
		case 1:
			sweep = append(sweep, []int{g1, d})
		default:
			sweep = append(sweep, []int{d, g2})
		}
	}
	n := verifkit.N(120, 3000) + len(sweep)
	for it := 0; it < n; it++ {
		cnt := r.Intn(4)
		var idx []int
		for j := 0; j < cnt; j++ {
			if r.Intn(4) == 0 {
				idx = append(idx, r.Intn(len(pool)))
			} else {
				idx = append(idx, r.Intn(10)) // genuine
			}
		}
		if it < len(sweep) {
			idx = sweep[it]
		}
		type je struct {
			LeafInput []byte `json:"leaf_input"`
			ExtraData []byte `json:"extra_data"`
		}
		var es []je
		var toks []string
		allOK := true
		for _, i := range idx {
			es = append(es, je{pool[i].leaf, pool[i].extra})
			toks = append(toks, fmt.Sprintf("%s %s %s", verifkit.Hex(pool[i].leaf), verifkit.Hex(pool[i].extra), verifkit.B(fatal[i])))
			allOK = allOK && okDec[i] && !fatal[i]
		}
		body, _ := json.Marshal(map[string]interface{}{"entries": es})
		class := "valid-json"
		bp := r.Intn(10)
		if it < len(sweep) {
			bp, class = 9, "sweep"
		}
		switch bp {
		case 0:
			body, class = body[:r.Intn(len(body))], "truncated-json"
		case 1:
			body, class = []byte(`{"entries":[{"leaf_input":5}]}`), "wrong-types"
		case 2:
			body, class = append(body, '!'), "json-then-garbage"
		}
		var dec ct.GetEntriesResponse
		jsonOK := json.NewDecoder(bytes.NewReader(body)).Decode(&dec) == nil
		if class != "valid-json" && class != "json-then-garbage" && class != "sweep" {
			toks = nil
			for _, e := range dec.Entries {
				toks = append(toks, fmt.Sprintf("%s %s 0", verifkit.Hex(e.LeafInput), verifkit.Hex(e.ExtraData)))
			}
			if !jsonOK {
				toks = nil
			}
		}
		status := c12Statuses[r.Intn(len(c12Statuses))]
		start, end := int64(r.Intn(100)), int64(0)
		end = start + int64(r.Intn(5))
		pick := r.Intn(12)
		if it < len(sweep) {
			status, pick = 200, 11
			start = 1 + int64(r.Intn(100))
			end = start + int64(len(idx)) - 1
		}
		switch pick {
		case 0:
			end = start - 1 - int64(r.Intn(3))
		case 1:
			start, end = -5, -1
		}
		c.entriesCall(class, status, body, start, end, toks, jsonOK, allOK)
	}
}

// entriesCall: one GetEntries call on a fresh client, judged and traced.
func (c *c12) entriesCall(class string, status int, body []byte, start, end int64, toks []string, jsonOK, allOK bool) {
	r := c.r
	var got []ct.LogEntry
	var err error
	sc, p := c12Call(c.keys[0], []c12Rsp{{status: status, body: body, hdr: c12HeaderPool[r.Intn(len(c12HeaderPool))]}}, func(ctx context.Context, cl *LogClient) { got, err = cl.GetEntries(ctx, start, end) })
	key := fmt.Sprintf("ents %s status=%d", class, status)
	ans := ""
	switch {
	case p != "":
		ans = "panic"
		c.out.Fail(key+" panic", p)
	case err != nil:
		ans = c12Err(c.out, key, err, sc)
		if got != nil {
			c.out.Fail(key+" partial-result", fmt.Sprintf("%d entries returned together with an error", len(got)))
		}
		if ans == "err" && sc.last != nil {
			fk := key + " error-without-status"
			if status == 200 && jsonOK && !allOK {
				fk = "ents undecodable-entry bare-error"
			}
			c.out.Fail(fk, "a response was received ("+fmt.Sprint(sc.last.status)+") but the error carries neither status nor body: "+err.Error())
		}
	default:
		ans = fmt.Sprintf("ok %d", len(got))
		for i := range got {
			e := got[i]
			if e.Index != start+int64(i) {
				c.out.Fail(key+" index", fmt.Sprint(e.Index))
			}
			if e.Leaf.TimestampedEntry == nil {
				c.out.Fail(key+" partially-filled-result", fmt.Sprintf("entry %d of %d is a zero-valued LogEntry, returned with a nil error; response %s", i, len(got), body))
				ans += " zero-entry"
				continue
			}
			ans += " " + c12Show(&ct.RawLogEntry{Index: e.Index, Leaf: e.Leaf, Cert: c12Submitted(&e), Chain: e.Chain})
			c12CertCoversField(c.out, key, &e)
		}
		if status != 200 || !jsonOK || !allOK {
			c.out.Fail(key+" bad-response-accepted", ans)
		}
	}
	ntok := len(toks)
	c.out.T(strings.TrimSpace(fmt.Sprintf("ents %d %d %d %s %d %s", start, end, status, verifkit.B(jsonOK), ntok, strings.Join(toks, " "))), ans)
	c.out.Count("class:ents:" + class)
	c.out.Count("outcome:" + strings.Fields(ans)[0])

}

// oneEntries: GetEntries over the given genuine pool entries.
func (c *c12) oneEntries(class string, status int, body []byte, start, end int64, idx []int, pool []c12Entry) {
	var toks []string
	for _, i := range idx {
		toks = append(toks, fmt.Sprintf("%s %s 0", verifkit.Hex(pool[i].leaf), verifkit.Hex(pool[i].extra)))
	}
	var dec ct.GetEntriesResponse
	jsonOK := json.NewDecoder(bytes.NewReader(body)).Decode(&dec) == nil
	c.entriesCall(class, status, body, start, end, toks, jsonOK, true)
}

// ---------------------------------------------------------------------------------------------- one client, several calls

// histories: 2-4 calls on ONE LogClient, so that anything the client remembers between calls is exercised: the same tree
// head re-served with another signature (foreign key, last octet flipped), another head with the signature of the first,
// good after bad and bad after good; for add-chain the same submission answered with a re-served SCT whose signature is
// corrupted.  Every call is judged exactly like a first call: whatever is returned must verify under the configured key.
func (c *c12) histories() {
	r := c.r
	n := verifkit.N(40, 1500)
	for it := 0; it < n; it++ {
		k := c.keys[r.Intn(len(c.keys))]
		o := c.other[k.Kind]
		mk := func(size, ts uint64, root []byte, signer *verifkit.SKey, over sthFields) sthFields {
			f := sthFields{size: size, ts: ts, root: root}
			f.sig = c12DS(4, c12SigAlg(signer), signer.Sign(4, verifkit.STHSigInput(0, over.ts, over.size, over.root)))
			return f
		}
		h1 := sthFields{size: 1 + r.U64()>>40, ts: r.U64() >> 20, root: r.Bytes(32)}
		h2 := sthFields{size: h1.size + 1 + uint64(r.Intn(5)), ts: h1.ts + 1000, root: r.Bytes(32)}
		good1 := mk(h1.size, h1.ts, h1.root, k, h1)
		good2 := mk(h2.size, h2.ts, h2.root, k, h2)
		flipped := good1
		flipped.sig = append([]byte(nil), good1.sig...)
		flipped.sig[len(flipped.sig)-1] ^= 1
		steps := map[string]sthFields{
			"good":                             good1,
			"good-resigned":                    mk(h1.size, h1.ts, h1.root, k, h1),
			"same-head-foreign-key-signature":  mk(h1.size, h1.ts, h1.root, o, h1),
			"same-head-last-octet-flipped":     flipped,
			"same-head-empty-signature":        {size: h1.size, ts: h1.ts, root: h1.root, sig: []byte{4, byte(c12SigAlg(k)), 0, 0}},
			"other-head-signature-of-first":    {size: h2.size, ts: h2.ts, root: h2.root, sig: good1.sig},
			"other-head-good":                  good2,
			"other-head-foreign-key-signature": mk(h2.size, h2.ts, h2.root, o, h2),
			"same-head-signature-over-other":   mk(h1.size, h1.ts, h1.root, k, h2),
		}
		names := []string{"good", "good-resigned", "same-head-foreign-key-signature", "same-head-last-octet-flipped", "same-head-empty-signature",
			"other-head-signature-of-first", "other-head-good", "other-head-foreign-key-signature", "same-head-signature-over-other"}
		var seq []string
		switch r.Intn(4) {
		case 0: // bad after good
			seq = []string{"good", names[2+r.Intn(4)]}
		case 1: // good after bad
			seq = []string{names[2+r.Intn(4)], "good", names[2+r.Intn(7)]}
		case 2:
			seq = []string{"good", "good-resigned", names[2+r.Intn(7)], "other-head-good"}
		default:
			for j := 2 + r.Intn(3); j > 0; j-- {
				seq = append(seq, names[r.Intn(len(names))])
			}
		}
		if e := c12Session(k, func(s *c12Sess) {
			for j, nm := range seq {
				c.oneSTHOn(s, fmt.Sprintf("history[%d/%d]:%s", j+1, len(seq), nm), k, c12Rsp{status: 200, body: steps[nm].json()})
			}
		}); e != "" {
			c.out.Fail("sth history setup", e)
		}
	}
	// add-chain: the same submission, several times, on one client
	chains := c.chains()
	for it := 0; it < verifkit.N(30, 1000); it++ {
		k := c.keys[r.Intn(len(c.keys))]
		o := c.other[k.Kind]
		ch := chains[[]int{0, 6}[r.Intn(2)]]
		keyID := sha256.Sum256(k.SPKI)
		ts := r.U64() >> 20
		_, et, cert, ikh, tbs := c12Leaf(ch, ts)
		in := verifkit.SCTSigInput(0, ts, et, cert, ikh, tbs, nil)
		good := sctFields{id: keyID[:], ts: ts, sig: c12DS(4, c12SigAlg(k), k.Sign(4, in))}
		foreign := good
		foreign.sig = c12DS(4, c12SigAlg(o), o.Sign(4, in))
		flipped := good
		flipped.sig = append([]byte(nil), good.sig...)
		flipped.sig[len(flipped.sig)-1] ^= 1
		later := good
		later.ts = ts + 1 // the signature of the first SCT re-served under another timestamp
		steps := map[string]sctFields{"good": good, "re-served-foreign-key-signature": foreign, "re-served-last-octet-flipped": flipped, "re-served-other-timestamp": later}
		names := []string{"good", "re-served-foreign-key-signature", "re-served-last-octet-flipped", "re-served-other-timestamp"}
		var seq []string
		switch r.Intn(3) {
		case 0:
			seq = []string{"good", names[1+r.Intn(3)]}
		case 1:
			seq = []string{names[1+r.Intn(3)], "good", names[1+r.Intn(3)]}
		default:
			seq = []string{"good", "good", names[1+r.Intn(3)], "good"}
		}
		if e := c12Session(k, func(s *c12Sess) {
			for j, nm := range seq {
				c.oneAddOn(s, fmt.Sprintf("history[%d/%d]:%s", j+1, len(seq), nm), k, ch, []c12Rsp{{status: 200, body: steps[nm].json()}})
			}
		}); e != "" {
			c.out.Fail("add history setup", e)
		}
	}
}

// ---------------------------------------------------------------------------------------------- status x VALID body, every method

// statusMatrix: every method with a perfectly valid body under every 2xx status other than 200 (and a few more): a status
// other than 200 is an error carrying the status and the body, whatever the body says.
func (c *c12) statusMatrix() {
	r := c.r
	chains := c.chains()
	statuses := []int{200, 201, 202, 203, 204, 205, 206, 207, 226, 299, 300, 304, 400, 500}
	pool := c.entryPool()
	for _, st := range statuses {
		for _, k := range c.keys {
			// get-sth
			f := sthFields{size: r.U64() >> 30, ts: r.U64() >> 20, root: r.Bytes(32)}
			f.sig = c12DS(4, c12SigAlg(k), k.Sign(4, verifkit.STHSigInput(0, f.ts, f.size, f.root)))
			c.oneSTHOn(nil, "status-matrix:valid", k, c12Rsp{status: st, body: f.json()})
			if st == 200 {
				c.oneSTHOn(nil, "valid+read-error-after-complete-body", k, c12Rsp{status: st, body: f.json(), cutAt: len(f.json())})
			}
			// add-chain, add-pre-chain
			for _, ci := range []int{0, 6} {
				ch := chains[ci]
				keyID := sha256.Sum256(k.SPKI)
				ts := r.U64() >> 20
				_, et, cert, ikh, tbs := c12Leaf(ch, ts)
				sf := sctFields{id: keyID[:], ts: ts, sig: c12DS(4, c12SigAlg(k), k.Sign(4, verifkit.SCTSigInput(0, ts, et, cert, ikh, tbs, nil)))}
				c.oneAddOn(nil, "status-matrix:valid", k, ch, []c12Rsp{{status: st, body: sf.json()}})
				if st == 200 {
					c.oneAddOn(nil, "valid+read-error-after-complete-body", k, ch, []c12Rsp{{status: st, body: sf.json(), cutAt: len(sf.json())}})
				}
			}
		}
		// get-entries with genuine entries
		type je struct {
			LeafInput []byte `json:"leaf_input"`
			ExtraData []byte `json:"extra_data"`
		}
		body, _ := json.Marshal(map[string]interface{}{"entries": []je{{pool[0].leaf, pool[0].extra}, {pool[3].leaf, pool[3].extra}}})
		c.oneEntries("status-matrix:valid", st, body, 0, 1, []int{0, 3}, pool)
	}
}

// ---------------------------------------------------------------------------------------------- temporal (multi-shard) client

// temporalRoots: TemporalLogClient.GetAcceptedRoots over 2-3 shards, each shard with its own scripted transport and response
// class: one failing shard makes the whole call fail — with an error and WITHOUT a partially filled result.
func (c *c12) temporalRoots() {
	r := c.r
	good := func() []byte {
		var certs []string
		for j := r.Intn(3); j >= 0; j-- {
			certs = append(certs, b64(r.Bytes(1+r.Intn(6))))
		}
		j, _ := json.Marshal(map[string]interface{}{"certificates": certs})
		return j
	}
	classes := []func() c12Rsp{
		func() c12Rsp { return c12Rsp{status: 200, body: good()} },
		func() c12Rsp { return c12Rsp{status: 200, body: good()} },
		func() c12Rsp { return c12Rsp{status: 200, body: good()} },
		func() c12Rsp { return c12Rsp{status: 500, body: []byte("oops")} },
		func() c12Rsp { return c12Rsp{status: 404, body: good()} },
		func() c12Rsp { return c12Rsp{status: 200, body: []byte(`{"certificates":["%%"]}`)} },
		func() c12Rsp { b := good(); return c12Rsp{status: 200, body: b[:len(b)/2]} },
		func() c12Rsp { return c12Rsp{status: 203, body: good()} },
		func() c12Rsp { return c12Rsp{netErr: true} },
	}
	for it := 0; it < verifkit.N(120, 3000); it++ {
		n := 2 + r.Intn(2)
		rsps := make([]c12Rsp, n)
		var toks []string
		allOK := true
		for i := range rsps {
			rsps[i] = classes[r.Intn(len(classes))]()
			var dec ct.GetRootsResponse
			jsonOK := !rsps[i].netErr && json.NewDecoder(bytes.NewReader(rsps[i].body)).Decode(&dec) == nil
			b64ok := true
			for _, s := range dec.Certificates {
				if _, e := base64.StdEncoding.DecodeString(s); e != nil {
					b64ok = false
				}
			}
			st := rsps[i].status
			if rsps[i].netErr {
				st = 0
			}
			ok := st == 200 && jsonOK && b64ok
			allOK = allOK && ok
			toks = append(toks, fmt.Sprintf("%d %s %s", st, verifkit.B(jsonOK), verifkit.B(b64ok)))
		}
		var roots []ct.ASN1Cert
		var err error
		p := ""
		synctest.Run(func() {
			ctx, cancel := context.WithTimeout(context.Background(), time.Hour)
			defer cancel()
			tlc := &TemporalLogClient{}
			for i := range rsps {
				sc := &c12Script{rsps: []c12Rsp{rsps[i]}, cancel: cancel}
				cl, e := New(fmt.Sprintf("http://shard%d.example/", i), &http.Client{Transport: sc}, jsonclient.Options{Logger: c12Silent{}})
				if e != nil {
					p = e.Error()
					return
				}
				tlc.Clients = append(tlc.Clients, cl)
				tlc.intervals = append(tlc.intervals, interval{})
			}
			p = verifkit.Guard(func() { roots, err = tlc.GetAcceptedRoots(ctx) })
			synctest.Wait()
		})
		key := fmt.Sprintf("troots shards=%d", n)
		ans := "ok"
		switch {
		case p != "":
			ans = "panic"
			c.out.Fail(key+" panic", p)
		case err != nil:
			ans = "err"
			if roots != nil {
				c.out.Fail("troots partial-result", fmt.Sprintf("%d roots returned together with the error %q (shards: %s)", len(roots), err.Error(), strings.Join(toks, " | ")))
			}
		default:
			if !allOK {
				c.out.Fail(key+" failing-shard-ignored", strings.Join(toks, " | "))
			}
		}
		c.out.T(fmt.Sprintf("troots %d %s", n, strings.Join(toks, " ")), ans)
		c.out.Count("class:temporal-roots")
		c.out.Count("outcome:" + ans)
	}
}

// c12CertCoversField: the parsed (pre-)certificate of a returned entry must be the parse of the WHOLE certificate / TBS field of
// the leaf — an entry whose parsed certificate covers only a prefix of the field is inconsistent with leaf_input.
func c12CertCoversField(out *verifkit.Out, key string, e *ct.LogEntry) {
	te := e.Leaf.TimestampedEntry
	if te == nil {
		return
	}
	if e.X509Cert != nil && te.X509Entry != nil && !bytes.Equal(e.X509Cert.Raw, te.X509Entry.Data) {
		out.Fail(key+" entry-certificate-covers-part-of-field", fmt.Sprintf("parsed certificate has %d octets, the leaf's certificate field %d", len(e.X509Cert.Raw), len(te.X509Entry.Data)))
	}
	if e.Precert != nil && e.Precert.TBSCertificate != nil && te.PrecertEntry != nil && !bytes.Equal(e.Precert.TBSCertificate.RawTBSCertificate, te.PrecertEntry.TBSCertificate) {
		out.Fail(key+" entry-tbs-covers-part-of-field", fmt.Sprintf("parsed TBS has %d octets, the leaf's TBS field %d", len(e.Precert.TBSCertificate.RawTBSCertificate), len(te.PrecertEntry.TBSCertificate)))
	}
}

// c12Submitted: the certificate a LogEntry says was submitted (RawLogEntry.Cert).
func c12Submitted(e *ct.LogEntry) ct.ASN1Cert {
	if e.Precert != nil {
		return e.Precert.Submitted
	}
	if e.Leaf.TimestampedEntry != nil && e.Leaf.TimestampedEntry.X509Entry != nil {
		return *e.Leaf.TimestampedEntry.X509Entry
	}
	return ct.ASN1Cert{}
}

func TestVerifC12(t *testing.T) {
	log.SetOutput(io.Discard)
	out := verifkit.Open()
	defer out.Close()
	verifkit.DSAKeyPEM = testdata.DsaPrivateKeyPEM
	c := &c12{out: out, r: verifkit.NewRand(verifkit.Seed()),
		keys:  []*verifkit.SKey{verifkit.KeyByName("p256"), verifkit.KeyByName("rsa2048")},
		other: map[string]*verifkit.SKey{"ecdsa": verifkit.KeyByName("p256b"), "rsa": verifkit.KeyByName("rsa2048b")}}
	c.construct()
	c.sth()
	c.add()
	c.plain()
	c.entries()
	c.statusMatrix()
	c.histories()
	c.temporalRoots()
}
