//go:build verif

// C18 harness (external test package of client, added by the /verif overlay): it drives the three exported APIs that draw
// temporal shard boundaries (ctfe.ValidateChain, client.TemporalLogClient, loglist3.LogList).
package client_test

import (
	"crypto/ecdsa"
	"crypto/elliptic"
	"crypto/rand"
	stdx509 "crypto/x509"
	"crypto/x509/pkix"
	"context"
	"encoding/base64"
	"encoding/pem"
	"fmt"
	"io"
	"net/http"
	"net/http/httptest"
	"os"
	"path/filepath"
	"math/big"
	stdx509key "crypto/x509"
	"strings"
	"testing"
	"time"

	ct "github.com/google/certificate-transparency-go"
	"github.com/google/certificate-transparency-go/client"
	"github.com/google/certificate-transparency-go/client/configpb"
	"github.com/google/certificate-transparency-go/internal/verifkit"
	"github.com/google/certificate-transparency-go/loglist3"
	"github.com/google/certificate-transparency-go/trillian/ctfe"
	"github.com/google/certificate-transparency-go/trillian/integration"
	ctfeconfigpb "github.com/google/certificate-transparency-go/trillian/ctfe/configpb"
	"github.com/google/trillian"
	"github.com/google/trillian/crypto/keys"
	"github.com/google/trillian/crypto/keys/der"
	"github.com/google/trillian/crypto/keyspb"
	"github.com/google/trillian/monitoring"
	"google.golang.org/protobuf/types/known/anypb"
	"github.com/google/certificate-transparency-go/x509"
	"github.com/google/certificate-transparency-go/x509util"
	tspb "google.golang.org/protobuf/types/known/timestamppb"
)

type pki struct {
	caKey  *ecdsa.PrivateKey
	caCert *stdx509.Certificate
	caDER  []byte
	key    *ecdsa.PrivateKey
	pool   *x509util.PEMCertPool
	ca     *x509.Certificate // the root as parsed by the fork
	rootsFile string
	privAny   *anypb.Any
	serial int64
	pubDER []byte
}

func newPKI(t *testing.T) *pki {
	p := &pki{}
	var err error
	p.caKey, err = ecdsa.GenerateKey(elliptic.P256(), rand.Reader)
	if err != nil {
		t.Fatal(err)
	}
	p.key, _ = ecdsa.GenerateKey(elliptic.P256(), rand.Reader)
	p.pubDER, _ = stdx509key.MarshalPKIXPublicKey(&p.caKey.PublicKey)
	tmpl := &stdx509.Certificate{SerialNumber: big.NewInt(1), Subject: pkix.Name{CommonName: "verif C18 root"},
		NotBefore: time.Date(1500, 1, 1, 0, 0, 0, 0, time.UTC), NotAfter: time.Date(9999, 12, 31, 23, 59, 59, 0, time.UTC), IsCA: true, BasicConstraintsValid: true,
		KeyUsage: stdx509.KeyUsageCertSign}
	p.caDER, err = stdx509.CreateCertificate(rand.Reader, tmpl, tmpl, &p.caKey.PublicKey, p.caKey)
	if err != nil {
		t.Fatal(err)
	}
	p.caCert, _ = stdx509.ParseCertificate(p.caDER)
	p.pool = x509util.NewPEMCertPool()
	c, err := x509.ParseCertificate(p.caDER)
	if err != nil {
		t.Fatal(err)
	}
	p.pool.AddCert(c)
	p.ca = c
	return p
}

func (p *pki) leaf(notAfter time.Time) []byte {
	p.serial++
	tmpl := &stdx509.Certificate{SerialNumber: big.NewInt(1000 + p.serial), Subject: pkix.Name{CommonName: "leaf"},
		NotBefore: time.Date(1500, 1, 1, 0, 0, 1, 0, time.UTC), NotAfter: notAfter}
	der, err := stdx509.CreateCertificate(rand.Reader, tmpl, p.caCert, &p.key.PublicKey, p.caKey)
	if err != nil {
		panic(err)
	}
	return der
}

// postAddChain builds a writable log instance from a LogConfig with the given window (ValidateLogConfig -> SetUpInstance, backend:
// a fake that queues whatever it is given) and POSTs the chain to its add-chain endpoint; it hands back the HTTP status.
func (p *pki) postAddChain(t *testing.T, lo, up *tspb.Timestamp, chain [][]byte) (int, string) {
	if p.rootsFile == "" {
		p.rootsFile = filepath.Join(t.TempDir(), "roots.pem")
		if err := os.WriteFile(p.rootsFile, pem.EncodeToMemory(&pem.Block{Type: "CERTIFICATE", Bytes: p.caDER}), 0o600); err != nil {
			return 0, err.Error()
		}
		keyDER, err := stdx509key.MarshalPKCS8PrivateKey(p.key)
		if err != nil {
			return 0, err.Error()
		}
		if p.privAny, err = anypb.New(&keyspb.PrivateKey{Der: keyDER}); err != nil {
			return 0, err.Error()
		}
		keys.RegisterHandler(&keyspb.PrivateKey{}, der.FromProto)
	}
	vcfg, err := ctfe.ValidateLogConfig(&ctfeconfigpb.LogConfig{LogId: 7, Prefix: "shard", RootsPemFile: []string{p.rootsFile}, PrivateKey: p.privAny,
		NotAfterStart: lo, NotAfterLimit: up})
	if err != nil {
		return 0, "ValidateLogConfig: " + err.Error()
	}
	fl := &verifkit.FuncLog{QueueLeafF: func(req *trillian.QueueLeafRequest) (*trillian.QueueLeafResponse, error) {
		return &trillian.QueueLeafResponse{QueuedLeaf: &trillian.QueuedLogLeaf{Leaf: req.Leaf}}, nil
	}}
	inst, err := ctfe.SetUpInstance(context.Background(), ctfe.InstanceOptions{Validated: vcfg, Client: fl, Deadline: time.Second,
		MetricFactory: monitoring.InertMetricFactory{}, RequestLog: new(ctfe.DefaultRequestLog)})
	if err != nil {
		return 0, "SetUpInstance: " + err.Error()
	}
	h, ok := inst.Handlers["/shard/ct/v1/add-chain"]
	if !ok {
		return 0, "no add-chain handler"
	}
	var b strings.Builder
	b.WriteString(`{"chain":[`)
	for i, c := range chain {
		if i > 0 {
			b.WriteString(",")
		}
		b.WriteString(`"` + base64.StdEncoding.EncodeToString(c) + `"`)
	}
	b.WriteString("]}")
	w := httptest.NewRecorder()
	h.ServeHTTP(w, httptest.NewRequest("POST", "http://log.example/shard/ct/v1/add-chain", strings.NewReader(b.String())))
	return w.Code, ""
}

// ns renders an instant as decimal nanoseconds since the Unix epoch, exactly (years 1..9999 do not fit int64).
func ns(t time.Time) string {
	v := new(big.Int).Mul(big.NewInt(t.Unix()), big.NewInt(1000000000))
	return v.Add(v, big.NewInt(int64(t.Nanosecond()))).String()
}

func optStr(t *time.Time) string {
	if t == nil {
		return "-"
	}
	return ns(*t)
}

// cmpT orders instants by (seconds, nanoseconds) without using time.Time's own comparison methods.
func cmpT(a, b time.Time) int {
	switch {
	case a.Unix() != b.Unix():
		if a.Unix() < b.Unix() {
			return -1
		}
		return 1
	case a.Nanosecond() != b.Nanosecond():
		if a.Nanosecond() < b.Nanosecond() {
			return -1
		}
		return 1
	}
	return 0
}

// inWin is the declarative statement of the property: start <= t < limit with optional bounds.
func inWin(lo, up *time.Time, t time.Time) bool {
	return (lo == nil || cmpT(*lo, t) <= 0) && (up == nil || cmpT(t, *up) < 0)
}

// reloc returns the same instant carried in another Location (zone information must never matter).
func reloc(r *verifkit.Rand, t time.Time) time.Time {
	switch r.Intn(5) {
	case 0:
		return t.In(time.FixedZone("plus1", 3600))
	case 1:
		return t.In(time.FixedZone("zero", 0))
	case 2:
		return time.Unix(t.Unix(), int64(t.Nanosecond())) // time.Local
	case 3:
		return t.UTC()
	}
	return t
}

// hostRecorder is the http.RoundTripper of the shard clients: it records which shard was contacted and refuses the request.
type hostRecorder struct{ hosts []string }

func (h *hostRecorder) RoundTrip(req *http.Request) (*http.Response, error) {
	h.hosts = append(h.hosts, req.URL.Host)
	return &http.Response{StatusCode: 400, Status: "400 Bad Request", Header: http.Header{}, Body: io.NopCloser(strings.NewReader("verif")), Request: req}, nil
}

func ts(t *time.Time) *tspb.Timestamp {
	if t == nil {
		return nil
	}
	return tspb.New(*t)
}

func TestVerifC18(t *testing.T) {
	out := verifkit.Open()
	defer out.Close()
	r := verifkit.NewRand(verifkit.Seed())
	p := newPKI(t)
	bases := []time.Time{time.Date(2031, 3, 4, 5, 6, 7, 0, time.UTC), time.Date(2031, 3, 4, 5, 6, 7, 0, time.UTC), time.Date(2031, 3, 4, 5, 6, 7, 0, time.UTC),
		time.Date(9998, 6, 1, 0, 0, 0, 0, time.UTC), time.Date(2262, 4, 11, 23, 0, 0, 0, time.UTC), time.Date(2300, 1, 1, 0, 0, 0, 0, time.UTC),
		time.Date(3000, 6, 1, 0, 0, 0, 0, time.UTC), time.Date(1960, 1, 1, 0, 0, 0, 0, time.UTC), time.Date(1677, 9, 21, 0, 0, 0, 0, time.UTC), time.Date(1600, 1, 1, 0, 0, 0, 0, time.UTC)}
	base := bases[0]
	deltas := []time.Duration{0, 1, -1, time.Second, -time.Second, time.Second - 1, 1 - time.Second, 500 * time.Millisecond, time.Hour, -time.Hour, 24 * time.Hour}
	pick := func(around time.Time) *time.Time {
		if r.Intn(6) == 0 {
			return nil
		}
		var d time.Duration
		if r.Intn(4) == 0 {
			d = time.Duration(r.I64n(int64(48*time.Hour))) - 24*time.Hour
		} else {
			d = deltas[r.Intn(len(deltas))]
		}
		v := around.Add(d)
		return &v
	}
	n := verifkit.N(1500, 40000)
	for it := 0; it < n; it++ {
		// instant: whole seconds for certificates; sub-second for the two APIs that accept any time.Time
		base = bases[r.Intn(len(bases))]
		tt := base.Add(time.Duration(r.Intn(100000)) * time.Second)
		lo, up := pick(tt), pick(tt)
		if r.Intn(3) == 0 && lo != nil {
			v := lo.Add(time.Duration(1+r.Intn(5)) * time.Hour)
			up = &v
		}
		key := fmt.Sprintf("win lo=%s up=%s t=%s", optStr(lo), optStr(up), ns(tt))
		want := inWin(lo, up, tt)
		// 1. the log server
		a := "x"
		if pn := verifkit.Guard(func() {
			// the window reaches the server the way an operator configures it: LogConfig -> ValidateLogConfig -> validation options
			vcfg, cerr := ctfe.ValidateLogConfig(&ctfeconfigpb.LogConfig{LogId: 7, Prefix: "shard", IsMirror: true,
				PublicKey: &keyspb.PublicKey{Der: p.pubDER}, NotAfterStart: ts(lo), NotAfterLimit: ts(up)})
			if cerr != nil {
				if lo != nil && up != nil && cmpT(*up, *lo) < 0 {
					a = "x" // limit before start: refused by configuration validation
					return
				}
				out.Fail(key, "ValidateLogConfig refused an ordered window: "+cerr.Error())
				return
			}
			opts := ctfe.NewCertValidationOpts(p.pool, time.Time{}, false, false, vcfg.NotAfterStart, vcfg.NotAfterLimit, false, nil)
			_, err := ctfe.ValidateChain([][]byte{p.leaf(tt), p.caDER}, opts)
			a = verifkit.B(err == nil)
			if err != nil && !strings.Contains(err.Error(), "NotAfter") {
				out.Fail(key, "ValidateChain rejected a valid chain for another reason: "+err.Error())
			}
		}); pn != "" {
			out.Fail(key, "ValidateChain panic: "+pn)
		}
		if a != "x" && a != verifkit.B(want) {
			out.Fail(key, fmt.Sprintf("log server admits=%s, start<=t<limit is %v", a, want))
		}
		// 1b. the log server as a whole: the same window configured on an instance built by SetUpInstance, the chain POSTed
		//     to its add-chain endpoint (anything in front of ValidateChain that looks at NotAfter must draw the same line)
		if a != "x" && (it%4 == 0 || (lo != nil && cmpT(*lo, tt) == 0) || (up != nil && cmpT(*up, tt) == 0)) {
			st, perr := p.postAddChain(t, ts(lo), ts(up), [][]byte{p.leaf(tt), p.caDER})
			out.Count("class:whole-server-add-chain")
			switch {
			case perr != "":
				out.Fail(key, "add-chain on a SetUpInstance instance: "+perr)
			case (st == 200) != want || (st != 200 && st != 400):
				out.Fail(key, fmt.Sprintf("add-chain on the configured instance answers %d, start<=t<limit is %v", st, want))
			}
		}
		// sub-second instant for the other two
		sub := tt
		if r.Bool() {
			sub = tt.Add(time.Duration(r.Intn(3)-1) * time.Nanosecond * time.Duration(1+r.Intn(999999999)))
		}
		wantSub := inWin(lo, up, sub)
		// 2. the shard client with a single shard
		rt := "x"
		tlc, err := client.NewTemporalLogClient(&configpb.TemporalLogConfig{Shard: []*configpb.LogShardConfig{{Uri: "http://one", NotAfterStart: ts(lo), NotAfterLimit: ts(up)}}}, nil)
		inverted := lo != nil && up != nil && !(cmpT(*lo, *up) < 0)
		if (err != nil) != inverted {
			out.Fail(key, fmt.Sprintf("single-shard construction err=%v, inverted=%v", err, inverted))
		}
		if err == nil {
			idx, ierr := tlc.IndexByDate(reloc(r, sub))
			rt = verifkit.B(ierr == nil && idx == 0)
			if (ierr == nil) != wantSub {
				out.Fail(key+" sub="+ns(sub), fmt.Sprintf("shard client routes=%v, start<=t<limit is %v", ierr == nil, wantSub))
			}
		}
		// 3. the log-list filter (both bounds needed)
		c := "x"
		if lo != nil && up != nil {
			ll := loglist3.LogList{Operators: []*loglist3.Operator{{Name: "op", Logs: []*loglist3.Log{{URL: "u", TemporalInterval: &loglist3.TemporalInterval{StartInclusive: reloc(r, *lo), EndExclusive: reloc(r, *up)}}}}}}
			got := ll.TemporallyCompatible(&x509.Certificate{NotAfter: reloc(r, sub)})
			kept := len(got.Operators) == 1 && len(got.Operators[0].Logs) == 1
			c = verifkit.B(kept)
			if kept != wantSub {
				out.Fail(key+" sub="+ns(sub), fmt.Sprintf("log-list filter keeps=%v, start<=t<limit is %v", kept, wantSub))
			}
			// the other entry point of the same filter: Compatible, without a root and with a CA root the log accepts
			// (or whose root set is unknown) — the window must be the same one
			cert := &x509.Certificate{NotAfter: reloc(r, sub)}
			roots := loglist3.LogRoots{}
			if r.Bool() {
				pool := x509util.NewPEMCertPool()
				pool.AddCert(p.ca)
				roots["u"] = pool
			}
			for i, root := range []*x509.Certificate{nil, p.ca} {
				got := ll.Compatible(cert, root, roots)
				k := len(got.Operators) == 1 && len(got.Operators[0].Logs) == 1
				c += verifkit.B(k)
				if k != wantSub {
					out.Fail(key+" sub="+ns(sub), fmt.Sprintf("LogList.Compatible (root given: %v, roots known: %v) keeps=%v, start<=t<limit is %v", i == 1, len(roots) > 0, k, wantSub))
				}
			}
		}
		// 4. the helper the integration tests and the hammer use to pick a NotAfter that a sharded log must admit
		if lo != nil && up != nil && cmpT(*lo, *up) < 0 {
			na, naErr := integration.NotAfterForLog(&ctfeconfigpb.LogConfig{NotAfterStart: ts(lo), NotAfterLimit: ts(up)})
			out.Count("class:not-after-for-log")
			if naErr != nil {
				out.Fail(key, "integration.NotAfterForLog refuses an ordered window: "+naErr.Error())
			} else if !inWin(lo, up, na) {
				out.Fail(key, fmt.Sprintf("integration.NotAfterForLog picks %s, which is outside start<=t<limit", ns(na)))
			}
		}
		op := fmt.Sprintf("win %s %s %s %s", optStr(lo), optStr(up), ns(tt), ns(sub))
		out.T(op, a+" "+rt+" "+c)
		if want {
			out.Count("class:inside")
		} else {
			out.Count("class:outside")
		}
		if (lo != nil && cmpT(*lo, tt) == 0) || (up != nil && cmpT(*up, tt) == 0) {
			out.Count("class:exact-boundary")
		}
		if it < 3 {
			out.Sample(op + " => " + a + " " + rt + " " + c)
		}
	}

	// shard lists
	m := verifkit.N(800, 20000)
	for it := 0; it < m; it++ {
		k := 1 + r.Intn(5)
		base = bases[r.Intn(len(bases))]
		cur := base.Add(time.Duration(r.Intn(1000)) * time.Hour)
		var los, ups []*time.Time
		mode := r.Intn(8) // 0..4 contiguous, 5 gap, 6 inverted, 7 unbounded middle
		for i := 0; i < k; i++ {
			var lo, up *time.Time
			if !(i == 0 && r.Intn(3) == 0) {
				v := cur
				lo = &v
			}
			step := time.Duration(1+r.Intn(100)) * time.Hour
			if r.Intn(4) == 0 {
				step = time.Duration(1 + r.Intn(3)) // nanosecond-wide shards
			}
			nx := cur.Add(step)
			if !(i == k-1 && r.Intn(3) == 0) {
				v := nx
				up = &v
			}
			los, ups = append(los, lo), append(ups, up)
			cur = nx
		}
		bad := false
		if k > 1 {
			j := 1 + r.Intn(k-1)
			switch mode {
			case 5:
				v := los[j].Add(time.Duration(r.Intn(3)-1) * time.Nanosecond)
				if cmpT(v, *los[j]) != 0 {
					bad = true
				}
				los[j] = &v
			case 6:
				if ups[j] != nil {
					v := los[j].Add(-time.Duration(r.Intn(2)) * time.Nanosecond)
					ups[j] = &v
					bad = true
				}
			case 7:
				ups[j-1] = nil
				bad = true
			}
		}
		var shards []*configpb.LogShardConfig
		desc := ""
		// front ends: normally one per shard; sometimes several shards are served by one front end (the same URI listed twice —
		// unusual but legal), which must not disturb which shard's front end a certificate is sent to
		front := make([]int, k)
		shared := r.Intn(4) == 0
		for i := 0; i < k; i++ {
			front[i] = i
			if shared {
				front[i] = i / 2
				if r.Intn(3) == 0 {
					front[i] = r.Intn(2)
				}
			}
			shards = append(shards, &configpb.LogShardConfig{Uri: fmt.Sprintf("http://s%d", front[i]), NotAfterStart: ts(los[i]), NotAfterLimit: ts(ups[i])})
			desc += " " + optStr(los[i]) + " " + optStr(ups[i])
		}
		keyExtra := ""
		if shared {
			keyExtra = fmt.Sprintf(" fronts=%v", front)
			out.Count("class:shared-front-end")
		}
		// the instant: a boundary of some shard ± 1ns, or random
		var when time.Time
		j := r.Intn(k)
		switch {
		case r.Intn(3) == 0 && los[j] != nil:
			when = los[j].Add(time.Duration(r.Intn(3)-1) * time.Nanosecond)
		case r.Intn(2) == 0 && ups[j] != nil:
			when = ups[j].Add(time.Duration(r.Intn(3)-1) * time.Nanosecond)
		default:
			when = base.Add(time.Duration(r.I64n(int64(1200 * time.Hour))))
		}
		if r.Intn(2) == 0 {
			when = when.Truncate(time.Second)
		}
		key := fmt.Sprintf("shards%s%s t=%s", desc, keyExtra, ns(when))
		ans := ""
		tlc, err := client.NewTemporalLogClient(&configpb.TemporalLogConfig{Shard: shards}, nil)
		if err != nil {
			ans = "refused"
			out.Count("class:list-refused")
			if !bad {
				out.Fail(key, "a contiguous, non-inverted shard list was refused: "+err.Error())
			}
		} else {
			if bad {
				out.Fail(key, "a non-contiguous / inverted / unbounded-extended shard list was accepted")
			}
			idx, ierr := tlc.IndexByDate(reloc(r, when))
			cnt, which := 0, -1
			for i := 0; i < k; i++ {
				if inWin(los[i], ups[i], when) {
					cnt++
					which = i
				}
			}
			if ierr != nil {
				ans = "none"
				out.Count("class:list-outside-span")
				if cnt != 0 {
					out.Fail(key, fmt.Sprintf("instant inside shard %d routed nowhere", which))
				}
			} else {
				ans = fmt.Sprint(idx)
				out.Count("class:list-routed")
				if cnt != 1 || which != idx {
					out.Fail(key, fmt.Sprintf("routed to %d but %d shard windows contain the instant (last %d)", idx, cnt, which))
				}
			}
		}
		// later lookups on the SAME client object: routing keeps no memory (the second and third answers obey the same windows)
		if err == nil {
			for extra := 0; extra < 3; extra++ {
				var w2 time.Time
				jj := r.Intn(k)
				switch r.Intn(4) {
				case 0:
					if ups[k-1] != nil {
						w2 = ups[k-1].Add(time.Duration(r.Intn(3)) * time.Hour) // at or beyond the end of the whole span
					} else {
						w2 = when.Add(time.Hour)
					}
				case 1:
					if los[0] != nil {
						w2 = los[0].Add(-time.Duration(1+r.Intn(3)) * time.Nanosecond) // just before the span
					} else {
						w2 = when.Add(-time.Hour)
					}
				case 2:
					if los[jj] != nil {
						w2 = *los[jj]
					} else {
						w2 = when
					}
				default:
					w2 = base.Add(time.Duration(r.I64n(int64(1200 * time.Hour))))
				}
				idx2, ierr2 := tlc.IndexByDate(reloc(r, w2))
				cnt2, which2 := 0, -1
				for i := 0; i < k; i++ {
					if inWin(los[i], ups[i], w2) {
						cnt2++
						which2 = i
					}
				}
				out.Count("class:later-lookup-same-client")
				if (ierr2 == nil) != (cnt2 == 1) || (ierr2 == nil && idx2 != which2) {
					out.Fail(key+keyExtra, fmt.Sprintf("lookup #%d on the same client: t=%s routed to %d (err=%v) but %d window(s) contain it (shard %d)", extra+2, ns(w2), idx2, ierr2, cnt2, which2))
				}
			}
		}
		// the full routing path: TemporalLogClient.AddChain parses the certificate and contacts exactly the routed shard
		if err == nil && when.Nanosecond() == 0 && when.Year() >= 1600 && when.Year() <= 9998 {
			rec := &hostRecorder{}
			tlc2, err2 := client.NewTemporalLogClient(&configpb.TemporalLogConfig{Shard: shards}, &http.Client{Transport: rec})
			if err2 == nil {
				if pn := verifkit.Guard(func() {
					_, _ = tlc2.AddChain(context.Background(), []ct.ASN1Cert{{Data: p.leaf(when)}, {Data: p.caDER}})
				}); pn != "" {
					out.Fail(key, "TemporalLogClient.AddChain panic: "+pn)
				}
				want := ""
				for i := 0; i < k; i++ {
					if inWin(los[i], ups[i], when) {
						want = fmt.Sprintf("s%d", front[i])
					}
				}
				got := strings.Join(rec.hosts, ",")
				if got != want {
					out.Fail(key, fmt.Sprintf("AddChain contacted shard(s) %q, the certificate's NotAfter belongs to %q", got, want))
				}
				out.Count("class:addchain-routed")
			}
		}
		op := fmt.Sprintf("shards %d%s %s", k, desc, ns(when))
		out.T(op, ans)
		if it < 2 {
			out.Sample(op + " => " + ans)
		}
	}
}
