//go:build verif

// C13 at its second observation point: client.LogClient.AddChain / AddPreChain over a scripted RoundTripper under virtual time
// (testing/synctest). The jsonclient-level harness drives PostAndParseWithRetry and the back-off kernel exactly; this one checks
// that nothing between the caller and that loop changes the contract: the caller's context — and nothing else — ends the retries,
// a server-supplied Retry-After is honoured whatever its length, the first parsable 200 is what comes back.
package client

import (
	"bytes"
	"context"
	"encoding/base64"
	"errors"
	"fmt"
	"io"
	"net/http"
	"strconv"
	"strings"
	"testing"
	"testing/synctest"
	"time"

	ct "github.com/google/certificate-transparency-go"
	"github.com/google/certificate-transparency-go/internal/verifkit"
	"github.com/google/certificate-transparency-go/jsonclient"
)

type c13Step struct {
	kind   string // "status" | "neterr" | "bad200" | "ok"
	status int
	ra     int // Retry-After seconds (-1: none)
}

type c13Transport struct {
	steps []c13Step
	i     int
	t0    time.Time
	times []time.Duration // virtual instants of the POSTs
	body  []byte
}

func (s *c13Transport) RoundTrip(req *http.Request) (*http.Response, error) {
	if req.Body != nil {
		io.Copy(io.Discard, req.Body)
		req.Body.Close()
	}
	s.times = append(s.times, time.Since(s.t0))
	st := c13Step{kind: "status", status: 500, ra: -1}
	if s.i < len(s.steps) {
		st = s.steps[s.i]
	}
	s.i++
	mk := func(code int, body []byte, ra int) *http.Response {
		h := http.Header{"Content-Type": {"application/json"}}
		if ra >= 0 {
			h.Set("Retry-After", strconv.Itoa(ra))
		}
		return &http.Response{StatusCode: code, Status: fmt.Sprintf("%d %s", code, http.StatusText(code)), Proto: "HTTP/1.1", ProtoMajor: 1, ProtoMinor: 1,
			Header: h, Body: io.NopCloser(bytes.NewReader(body)), ContentLength: -1, Request: req}
	}
	switch st.kind {
	case "neterr":
		return nil, errors.New("scripted transport failure")
	case "bad200":
		return mk(200, []byte(`{"sct_version":`), -1), nil
	case "ok":
		return mk(200, s.body, -1), nil
	}
	return mk(st.status, []byte("scripted"), st.ra), nil
}

type c13Quiet struct{}

func (c13Quiet) Printf(string, ...interface{}) {}

func TestVerifC13Client(t *testing.T) {
	out := verifkit.Open()
	defer out.Close()
	r := verifkit.NewRand(verifkit.Seed() ^ 0xc13c11e47)
	sig := append([]byte{4, 3, 0, 8}, []byte("12345678")...)
	okBody := []byte(fmt.Sprintf(`{"sct_version":0,"id":%q,"timestamp":1234,"extensions":"","signature":%q}`,
		base64.StdEncoding.EncodeToString(bytes.Repeat([]byte{7}, 32)), base64.StdEncoding.EncodeToString(sig)))
	ras := []int{-1, -1, 0, 1, 5, 60, 127, 128, 129, 299, 300, 301, 600, 3600, 90000}
	const jitter = 250 * time.Millisecond
	const capWait = 128 * time.Second

	n := verifkit.N(400, 8000)
	for it := 0; it < n; it++ {
		// ---- the script
		var steps []c13Step
		k := r.Intn(5)
		if it%7 == 0 {
			k = 1 + r.Intn(2) // short scripts with one long server-imposed wait: the cases a client-side time limit would cut
		}
		for j := 0; j < k; j++ {
			switch r.Intn(6) {
			case 0:
				steps = append(steps, c13Step{kind: "neterr", ra: -1})
			case 1:
				steps = append(steps, c13Step{kind: "bad200", ra: -1})
			case 2:
				steps = append(steps, c13Step{kind: "status", status: 408, ra: -1})
			default:
				ra := ras[r.Intn(len(ras))]
				if it%7 == 0 {
					ra = []int{301, 600, 3600, 90000}[r.Intn(4)]
				}
				steps = append(steps, c13Step{kind: "status", status: []int{503, 429}[r.Intn(2)], ra: ra})
			}
		}
		final := c13Step{kind: "ok", ra: -1}
		if r.Intn(4) == 0 {
			final = c13Step{kind: "status", status: []int{400, 403, 404, 500, 502}[r.Intn(5)], ra: -1}
		}
		steps = append(steps, final)
		// ---- the caller's context
		ctxKind := []string{"none", "none", "timeout", "cancel"}[r.Intn(4)]
		limit := []time.Duration{10 * time.Second, 2 * time.Minute, 10 * time.Minute, 2 * time.Hour, 48 * time.Hour}[r.Intn(5)]
		pre := r.Bool()
		var desc strings.Builder
		for _, s := range steps {
			fmt.Fprintf(&desc, "%s", s.kind)
			if s.kind == "status" {
				fmt.Fprintf(&desc, ":%d", s.status)
			}
			if s.ra >= 0 {
				fmt.Fprintf(&desc, ":ra=%d", s.ra)
			}
			desc.WriteString(" ")
		}
		key := fmt.Sprintf("addchain pre=%v ctx=%s", pre, ctxKind)
		if ctxKind != "none" {
			key += "(" + limit.String() + ")"
		}
		key += " script=[" + strings.TrimSpace(desc.String()) + "]"

		var sct *ct.SignedCertificateTimestamp
		var err error
		var ctxErrAtReturn error
		var retAt time.Duration
		tr := &c13Transport{steps: steps, body: okBody}
		pn := ""
		synctest.Run(func() {
			tr.t0 = time.Now()
			lc, nerr := New("http://log.example/x", &http.Client{Transport: tr}, jsonclient.Options{Logger: c13Quiet{}})
			if nerr != nil {
				pn = "client construction: " + nerr.Error()
				return
			}
			ctx, cancel := context.Background(), context.CancelFunc(func() {})
			switch ctxKind {
			case "timeout":
				ctx, cancel = context.WithTimeout(ctx, limit)
			case "cancel":
				ctx, cancel = context.WithCancel(ctx)
				go func() { time.Sleep(limit); cancel() }()
			}
			defer cancel()
			pn = verifkit.Guard(func() {
				chain := []ct.ASN1Cert{{Data: []byte{0x30, 0x00}}}
				if pre {
					sct, err = lc.AddPreChain(ctx, chain)
				} else {
					sct, err = lc.AddChain(ctx, chain)
				}
			})
			retAt = time.Since(tr.t0)
			ctxErrAtReturn = ctx.Err()
		})
		out.Count("class:ctx-" + ctxKind)
		if pn != "" {
			out.Fail(key, "panic: "+pn)
			continue
		}
		// ---- the property, stated on what was observed
		isCtxErr := err != nil && (errors.Is(err, context.Canceled) || errors.Is(err, context.DeadlineExceeded))
		if isCtxErr && ctxErrAtReturn == nil {
			out.Fail(key, fmt.Sprintf("returned the context error %q after %s and %d request(s) although the caller's context had not ended", err, retAt, len(tr.times)))
		}
		ended := ctxKind != "none" && retAt >= limit
		if ctxKind != "none" && retAt > limit+time.Second {
			out.Fail(key, fmt.Sprintf("the caller's context ended at %s but the call returned at %s", limit, retAt))
		}
		// pacing between consecutive requests
		var notBefore time.Duration
		for i := 0; i+1 < len(tr.times) && i < len(steps); i++ {
			gap := tr.times[i+1] - tr.times[i]
			s := steps[i]
			if s.kind == "status" && s.ra >= 0 {
				if nb := tr.times[i] + time.Duration(s.ra)*time.Second; nb > notBefore {
					notBefore = nb
				}
				if gap < time.Duration(s.ra)*time.Second {
					out.Fail(key, fmt.Sprintf("request %d came %s after a %d with Retry-After %d", i+2, gap, s.status, s.ra))
				}
			}
			latest := tr.times[i] + capWait
			if s.kind == "status" && s.status == 408 {
				latest = tr.times[i]
			}
			if notBefore > latest {
				latest = notBefore
			}
			if tr.times[i+1] > latest+jitter {
				out.Fail(key, fmt.Sprintf("request %d came at %s, later than the cap allows (%s + jitter)", i+2, tr.times[i+1], latest))
			}
		}
		// outcome
		if !ended && !isCtxErr {
			if len(tr.times) != len(steps) {
				out.Fail(key, fmt.Sprintf("%d request(s) made, the script needs %d to reach the first non-retryable answer", len(tr.times), len(steps)))
			}
			if final.kind == "ok" {
				out.Count("class:final-200")
				if err != nil || sct == nil || sct.Timestamp != 1234 {
					out.Fail(key, fmt.Sprintf("the first parsable 200 was not returned: sct=%v err=%v", sct, err))
				}
			} else {
				out.Count("class:final-error-status")
				var re jsonclient.RspError
				if sct != nil || err == nil || !errors.As(err, &re) || re.StatusCode != final.status {
					out.Fail(key, fmt.Sprintf("status %d must come back at once as an error carrying it: sct=%v err=%v", final.status, sct, err))
				}
			}
		} else {
			out.Count("class:context-ended")
			if err == nil && final.kind != "ok" {
				out.Fail(key, "success without a 200 answer")
			}
		}
		if it < 3 {
			out.Sample(key + fmt.Sprintf(" => posts=%d ret=%s err=%v", len(tr.times), retAt, err))
		}
	}
}
