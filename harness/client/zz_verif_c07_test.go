//go:build verif

// C07 seen from the library client: whatever legal range is asked for, the entries the log serves for it come back as served
// (GetRawEntries: the same bytes, in order), and a legal request is never failed by the client's own bookkeeping.
package client

import (
	"bytes"
	"context"
	"encoding/base64"
	"fmt"
	"io"
	"math"
	"net/http"
	"strings"
	"testing"

	"github.com/google/certificate-transparency-go/internal/verifkit"
	"github.com/google/certificate-transparency-go/jsonclient"
)

type c07Server struct {
	n       int // entries served per request (the log truncates as it likes, at least one)
	lastURL string
}

func c07Leaf(i int64) ([]byte, []byte) {
	return []byte(fmt.Sprintf("leaf-%d", i)), []byte(fmt.Sprintf("extra-%d", i))
}

func (s *c07Server) RoundTrip(req *http.Request) (*http.Response, error) {
	s.lastURL = req.URL.String()
	var start, end int64
	fmt.Sscanf(req.URL.Query().Get("start"), "%d", &start)
	fmt.Sscanf(req.URL.Query().Get("end"), "%d", &end)
	var b strings.Builder
	b.WriteString(`{"entries":[`)
	for k := 0; k < s.n && (end-start < 0 || int64(k) <= end-start); k++ {
		if k > 0 {
			b.WriteString(",")
		}
		l, x := c07Leaf(start + int64(k))
		fmt.Fprintf(&b, `{"leaf_input":%q,"extra_data":%q}`, base64.StdEncoding.EncodeToString(l), base64.StdEncoding.EncodeToString(x))
	}
	b.WriteString("]}")
	return &http.Response{StatusCode: 200, Status: "200 OK", Proto: "HTTP/1.1", ProtoMajor: 1, ProtoMinor: 1, Header: http.Header{"Content-Type": {"application/json"}},
		Body: io.NopCloser(strings.NewReader(b.String())), ContentLength: -1, Request: req}, nil
}

func TestVerifC07Client(t *testing.T) {
	out := verifkit.Open()
	defer out.Close()
	mx := int64(math.MaxInt64)
	ranges := [][2]int64{{0, 0}, {0, 1}, {0, 999}, {5, 5}, {7, 1006}, {0, mx}, {1, mx}, {5, mx}, {mx - 1, mx}, {mx, mx}, {mx - 2, mx - 1}, {0, mx - 1}, {1 << 31, 1<<31 + 10}, {1 << 62, mx}}
	for _, rg := range ranges {
		for _, n := range []int{1, 2, 7} {
			srv := &c07Server{n: n}
			lc, err := New("http://log.example/x", &http.Client{Transport: srv}, jsonclient.Options{})
			if err != nil {
				t.Fatal(err)
			}
			key := fmt.Sprintf("client get-entries start=%d end=%d served=%d", rg[0], rg[1], n)
			out.Count("class:client-range")
			var pn string
			pn = verifkit.Guard(func() {
				rsp, err := lc.GetRawEntries(context.Background(), rg[0], rg[1])
				want := n
				if span := uint64(rg[1] - rg[0]); span < uint64(want) { // end >= start; no +1 on an int64 that may be MaxInt64
					want = int(span) + 1
				}
				if err != nil {
					out.Fail(key, "a legal range whose reply is well-formed was failed by the client: "+err.Error())
					return
				}
				if len(rsp.Entries) != want {
					out.Fail(key, fmt.Sprintf("%d entries handed back, the log served %d", len(rsp.Entries), want))
					return
				}
				for k, e := range rsp.Entries {
					l, x := c07Leaf(rg[0] + int64(k))
					if !bytes.Equal(e.LeafInput, l) || !bytes.Equal(e.ExtraData, x) {
						out.Fail(key, fmt.Sprintf("entry %d of the reply is not the served bytes of index %d", k, rg[0]+int64(k)))
					}
				}
			})
			if pn != "" {
				out.Fail(key, "panic: "+pn)
			}
		}
	}
}
