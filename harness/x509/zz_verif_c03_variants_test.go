//go:build verif

package x509_test

import (
	"bytes"
	"crypto/rand"

	stdx509 "crypto/x509"
	"fmt"
	"github.com/google/certificate-transparency-go/internal/verifkit"
	"github.com/google/certificate-transparency-go/x509"
)

type variant struct {
	name string
	tbs  []byte
}

func utc(s string) []byte { return mk(0x17, []byte(s)) }
func gen(s string) []byte { return mk(0x18, []byte(s)) }

// odd but well-formed / malformed TLVs for the RawValue fields (issuer, subject, AlgorithmIdentifier parameters)
var rawValues = []struct {
	name string
	b    []byte
}{
	{"null", []byte{0x05, 0x00}},
	{"empty-set", []byte{0x31, 0x00}},
	{"utf8", []byte{0x0c, 0x03, 0x61, 0x62, 0x63}},
	{"hightag-31", []byte{0x1f, 0x1f, 0x00}},
	{"hightag-1936-ctx", []byte{0xbf, 0x8f, 0x10, 0x01, 0x00}},
	{"hightag-padded", []byte{0x1f, 0x80, 0x1f, 0x00}},
	{"hightag-nonminimal-30", []byte{0x1f, 0x1e, 0x00}},
	{"hightag-5bytes", []byte{0x1f, 0x85, 0x80, 0x80, 0x80, 0x00, 0x00}},
	{"hightag-maxint32", []byte{0x1f, 0x87, 0xff, 0xff, 0xff, 0x7f, 0x00}},
	{"hightag-2^31", []byte{0x1f, 0x88, 0x80, 0x80, 0x80, 0x00, 0x00}},
	{"hightag-6bytes", []byte{0x1f, 0x81, 0x80, 0x80, 0x80, 0x80, 0x00, 0x00}},
	{"hightag-truncated", []byte{0x1f, 0x81}},
	{"len-long-127", append([]byte{0x04, 0x81, 0x7f}, bytes.Repeat([]byte{7}, 127)...)},
	{"len-long-128", append([]byte{0x04, 0x81, 0x80}, bytes.Repeat([]byte{7}, 128)...)},
	{"len-leading-zero", append([]byte{0x04, 0x82, 0x00, 0x80}, bytes.Repeat([]byte{7}, 128)...)},
	{"len-indefinite", []byte{0x24, 0x80, 0x00, 0x00}},
	{"len-256", append([]byte{0x04, 0x82, 0x01, 0x00}, bytes.Repeat([]byte{7}, 256)...)},
	{"len-too-long", []byte{0x04, 0x05, 0x01}},
}

var validities = []struct {
	name string
	a, b []byte
}{
	{"utc-2049", utc("300101000000Z"), utc("491231235959Z")},
	{"utc-1950", utc("500101000000Z"), utc("991231235959Z")},
	{"utc-no-seconds", utc("3001010000Z"), utc("491231235959Z")},
	{"utc-plus0100", utc("300101000000+0100"), utc("491231235959Z")},
	{"utc-minus0930", utc("300101000000Z"), utc("491231235959-0930")},
	{"utc-minus0000", utc("300101000000-0000"), utc("491231235959Z")},
	{"utc-plus0000", utc("300101000000+0000"), utc("491231235959Z")},
	{"utc-plus2400", utc("300101000000+2400"), utc("491231235959Z")},
	{"utc-plus2459", utc("300101000000+2459"), utc("491231235959Z")},
	{"utc-plus2460", utc("300101000000+2460"), utc("491231235959Z")},
	{"utc-plus2500", utc("300101000000+2500"), utc("491231235959Z")},
	{"utc-plus0060", utc("300101000000+0060"), utc("491231235959Z")},
	{"utc-plus0001", utc("300101000000+0001"), utc("491231235959Z")},
	{"utc-feb30", utc("300230000000Z"), utc("491231235959Z")},
	{"utc-feb29-leap", utc("480229000000Z"), utc("491231235959Z")},
	{"utc-feb29-nonleap", utc("470229000000Z"), utc("491231235959Z")},
	{"utc-feb29-2000", utc("000229000000Z"), utc("491231235959Z")},
	{"utc-feb29-1952", utc("520229000000Z"), utc("991231235959Z")},
	{"utc-apr31", utc("300431000000Z"), utc("491231235959Z")},
	{"utc-day00", utc("300100000000Z"), utc("491231235959Z")},
	{"utc-month13", utc("301301000000Z"), utc("491231235959Z")},
	{"utc-month00", utc("300001000000Z"), utc("491231235959Z")},
	{"utc-hour24", utc("300101240000Z"), utc("491231235959Z")},
	{"utc-min60", utc("300101006000Z"), utc("491231235959Z")},
	{"utc-sec60", utc("300101000060Z"), utc("491231235959Z")},
	{"utc-fraction", utc("300101000000.5Z"), utc("491231235959Z")},
	{"utc-lower-z", utc("300101000000z"), utc("491231235959Z")},
	{"utc-no-zone", utc("300101000000"), utc("491231235959Z")},
	{"utc-empty", utc(""), utc("491231235959Z")},
	{"utc-space", utc("30010100000 Z"), utc("491231235959Z")},
	{"utc-4digit-year", utc("20300101000000Z"), utc("491231235959Z")},
	{"gen-2050", utc("300101000000Z"), gen("20500101000000Z")},
	{"gen-2049", utc("300101000000Z"), gen("20491231235959Z")},
	{"gen-1949", gen("19491231235959Z"), utc("491231235959Z")},
	{"gen-1950", gen("19500101000000Z"), utc("491231235959Z")},
	{"gen-9999", utc("300101000000Z"), gen("99991231235959Z")},
	{"gen-0000", gen("00000101000000Z"), utc("491231235959Z")},
	{"gen-0000-feb29", gen("00000229000000Z"), utc("491231235959Z")},
	{"gen-plus0100", utc("300101000000Z"), gen("20500101000000+0100")},
	{"gen-no-seconds", utc("300101000000Z"), gen("205001010000Z")},
	{"gen-fraction", utc("300101000000Z"), gen("20500101000000.5Z")},
	{"gen-2100-feb29", utc("300101000000Z"), gen("21000229000000Z")},
	{"gen-2400-feb29", utc("300101000000Z"), gen("24000229000000Z")},
	{"gen-2-digit-year", utc("300101000000Z"), gen("500101000000Z")},
	{"utc-constructed", append([]byte{0x37}, utc("300101000000Z")[1:]...), utc("491231235959Z")},
	{"time-as-utf8", mk(0x0c, []byte("300101000000Z")), utc("491231235959Z")},
}

func reval(raw []byte, f func(val []byte) []byte) []byte {
	tag, val, _, _, _ := readTLV(raw)
	return mk(tag, f(append([]byte(nil), val...)))
}

// variantsOf lists hand-made departures from the canonical form (some still canonical, some re-encoded by the fork,
// some refused). The expectation is not written down here: what the fork does is compared with the model's domain.
func variantsOf(p parts, r *verifkit.Rand) []variant {
	var vs []variant
	add := func(name string, q parts) { vs = append(vs, variant{name, q.assemble()}) }
	setVer := func(v []byte) parts {
		q := p.clone()
		if q.verOff() == 1 {
			if v == nil {
				q.pre = q.pre[1:]
			} else {
				q.pre[0] = v
			}
		} else if v != nil {
			q.pre = append([][]byte{v}, q.pre...)
		}
		return q
	}
	add("ver-absent", setVer(nil))
	add("ver-explicit-v1", setVer([]byte{0xa0, 3, 2, 1, 0}))
	add("ver-v2", setVer([]byte{0xa0, 3, 2, 1, 1}))
	add("ver-v4", setVer([]byte{0xa0, 3, 2, 1, 3}))
	add("ver-negative", setVer([]byte{0xa0, 3, 2, 1, 0xff}))
	add("ver-nonminimal", setVer([]byte{0xa0, 4, 2, 2, 0, 2}))
	add("ver-two-bytes", setVer([]byte{0xa0, 4, 2, 2, 1, 2}))
	add("ver-8-bytes", setVer([]byte{0xa0, 10, 2, 8, 0x7f, 1, 2, 3, 4, 5, 6, 7}))
	add("ver-9-bytes", setVer([]byte{0xa0, 11, 2, 9, 0x7f, 1, 2, 3, 4, 5, 6, 7, 8}))
	add("ver-empty-int", setVer([]byte{0xa0, 2, 2, 0}))
	add("ver-empty-wrapper", setVer([]byte{0xa0, 0}))
	add("ver-primitive-wrapper", setVer([]byte{0x80, 3, 2, 1, 2}))
	add("ver-wrapper-too-long", setVer([]byte{0xa0, 5, 2, 1, 2, 5, 0}))
	add("ver-wrapper-too-short", setVer([]byte{0xa0, 2, 2, 1, 2}))
	add("ver-not-integer", setVer([]byte{0xa0, 3, 4, 1, 2}))
	add("ver-twice", func() parts {
		q := setVer([]byte{0xa0, 3, 2, 1, 2})
		q.pre = append([][]byte{{0xa0, 3, 2, 1, 2}}, q.pre...)
		return q
	}())

	setF := func(i int, b []byte) parts { q := p.clone(); q.setField(i, b); return q }
	for _, s := range []struct {
		n string
		b []byte
	}{{"nonminimal", []byte{2, 2, 0, 1}}, {"negative", []byte{2, 1, 0x80}}, {"empty", []byte{2, 0}}, {"zero", []byte{2, 1, 0}},
		{"ff-padded", []byte{2, 2, 0xff, 0x80}}, {"ff-needed", []byte{2, 2, 0xff, 0x7f}}, {"00-needed", []byte{2, 2, 0, 0x80}},
		{"constructed", []byte{0x22, 1, 5}}, {"long-length-form", []byte{2, 0x81, 1, 5}}, {"minus-one", []byte{2, 1, 0xff}}} {
		add("serial-"+s.n, setF(fSerial, s.b))
	}

	sig := p.field(fSigAlg)
	_, sv, _, _, _ := readTLV(sig)
	sfs, _ := splitAll(sv)
	_, oidv, _, _, _ := readTLV(sfs[0])
	add("sigalg-oid-padded-arc", setF(fSigAlg, mk(0x30, append([][]byte{mk(0x06, oidv[:1], []byte{0x80}, oidv[1:])}, sfs[1:]...)...)))
	add("sigalg-oid-padded-first", setF(fSigAlg, mk(0x30, append([][]byte{mk(0x06, []byte{0x80}, oidv)}, sfs[1:]...)...)))
	add("sigalg-oid-empty", setF(fSigAlg, mk(0x30, append([][]byte{{0x06, 0}}, sfs[1:]...)...)))
	add("sigalg-oid-truncated-arc", setF(fSigAlg, mk(0x30, append([][]byte{mk(0x06, oidv, []byte{0x86})}, sfs[1:]...)...)))
	add("sigalg-oid-arc-maxint32", setF(fSigAlg, mk(0x30, append([][]byte{mk(0x06, oidv, []byte{0x87, 0xff, 0xff, 0xff, 0x7f})}, sfs[1:]...)...)))
	add("sigalg-oid-arc-2^31", setF(fSigAlg, mk(0x30, append([][]byte{mk(0x06, oidv, []byte{0x88, 0x80, 0x80, 0x80, 0x00})}, sfs[1:]...)...)))
	add("sigalg-oid-arc-6-bytes", setF(fSigAlg, mk(0x30, append([][]byte{mk(0x06, oidv, []byte{0x81, 0x80, 0x80, 0x80, 0x80, 0x00})}, sfs[1:]...)...)))
	add("sigalg-oid-first-arc-big", setF(fSigAlg, mk(0x30, append([][]byte{mk(0x06, []byte{0x87, 0xff, 0xff, 0xff, 0x7f, 0x01})}, sfs[1:]...)...)))
	add("sigalg-oid-one-byte", setF(fSigAlg, mk(0x30, append([][]byte{{0x06, 1, 0x7f}}, sfs[1:]...)...)))
	add("sigalg-extra-element", setF(fSigAlg, mk(0x30, sv, []byte{5, 0})))
	add("sigalg-three-elements", setF(fSigAlg, mk(0x30, sfs[0], []byte{5, 0}, []byte{5, 0})))
	add("sigalg-no-params", setF(fSigAlg, mk(0x30, sfs[0])))
	add("sigalg-empty", setF(fSigAlg, []byte{0x30, 0}))
	add("sigalg-set", setF(fSigAlg, append([]byte{0x31}, sig[1:]...)))
	add("sigalg-trailing-garbage", setF(fSigAlg, mk(0x30, sfs[0], []byte{5})))
	for _, rv := range rawValues {
		add("sigalg-params-"+rv.name, setF(fSigAlg, mk(0x30, sfs[0], rv.b)))
		add("issuer-"+rv.name, setF(fIssuer, rv.b))
		if r.Intn(3) == 0 {
			add("subject-"+rv.name, setF(fSubject, rv.b))
		}
	}
	for _, v := range validities {
		add("validity-"+v.name, setF(fValidity, mk(0x30, v.a, v.b)))
		if r.Intn(4) == 0 {
			add("validity-swapped-"+v.name, setF(fValidity, mk(0x30, v.b, v.a)))
		}
	}
	add("validity-three", setF(fValidity, mk(0x30, utc("300101000000Z"), utc("491231235959Z"), utc("491231235959Z"))))
	add("validity-one", setF(fValidity, mk(0x30, utc("300101000000Z"))))
	add("validity-empty", setF(fValidity, []byte{0x30, 0}))
	add("validity-trailing-null", setF(fValidity, mk(0x30, utc("300101000000Z"), utc("491231235959Z"), []byte{5, 0})))

	spki := p.field(fSPKI)
	_, kv, _, _, _ := readTLV(spki)
	kfs, _ := splitAll(kv)
	_, av, _, _, _ := readTLV(kfs[0])
	afs, _ := splitAll(av)
	_, aoid, _, _, _ := readTLV(afs[0])
	_, bits, _, _, _ := readTLV(kfs[1])
	add("spki-trailing-tlv", setF(fSPKI, mk(0x30, kv, []byte{5, 0})))
	add("spki-trailing-garbage", setF(fSPKI, mk(0x30, kv, []byte{0xde})))
	add("spki-alg-oid-padded", setF(fSPKI, mk(0x30, mk(0x30, append([][]byte{mk(0x06, aoid[:1], []byte{0x80}, aoid[1:])}, afs[1:]...)...), kfs[1])))
	add("spki-alg-extra", setF(fSPKI, mk(0x30, mk(0x30, av, []byte{5, 0}, []byte{5, 0}), kfs[1])))
	add("spki-alg-params-garbage", setF(fSPKI, mk(0x30, mk(0x30, afs[0], []byte{5}), kfs[1])))
	add("spki-alg-oid-empty", setF(fSPKI, mk(0x30, mk(0x30, []byte{6, 0}), kfs[1])))
	add("spki-alg-oid-arc-2^31", setF(fSPKI, mk(0x30, mk(0x30, mk(0x06, aoid, []byte{0x88, 0x80, 0x80, 0x80, 0x00})), kfs[1])))
	add("spki-bits-pad8", setF(fSPKI, mk(0x30, kfs[0], mk(0x03, []byte{8}, bits[1:]))))
	add("spki-bits-pad-nonzero", setF(fSPKI, mk(0x30, kfs[0], mk(0x03, []byte{1}, bits[1:len(bits)-1], []byte{0x01}))))
	add("spki-bits-pad-ok", setF(fSPKI, mk(0x30, kfs[0], mk(0x03, []byte{1}, bits[1:len(bits)-1], []byte{0x02}))))
	add("spki-bits-empty", setF(fSPKI, mk(0x30, kfs[0], []byte{3, 0})))
	add("spki-bits-only-pad0", setF(fSPKI, mk(0x30, kfs[0], []byte{3, 1, 0})))
	add("spki-bits-only-pad1", setF(fSPKI, mk(0x30, kfs[0], []byte{3, 1, 1})))
	add("spki-bits-missing", setF(fSPKI, mk(0x30, kfs[0])))
	add("spki-bits-octetstring", setF(fSPKI, mk(0x30, kfs[0], mk(0x04, bits))))
	add("spki-set", setF(fSPKI, append([]byte{0x31}, spki[1:]...)))

	withUIDs := func(u ...[]byte) parts {
		q := p.clone()
		n := q.verOff() + 6
		q.pre = append(append([][]byte{}, q.pre[:n]...), u...)
		return q
	}
	add("uid-81-empty-bits", withUIDs([]byte{0x81, 1, 0}))
	add("uid-81-pad7", withUIDs([]byte{0x81, 2, 7, 0x80}))
	add("uid-81-pad7-dirty", withUIDs([]byte{0x81, 2, 7, 0x81}))
	add("uid-81-pad8", withUIDs([]byte{0x81, 2, 8, 0}))
	add("uid-81-zero-length", withUIDs([]byte{0x81, 0}))
	add("uid-81-pad-without-data", withUIDs([]byte{0x81, 1, 3}))
	add("uid-82-only", withUIDs([]byte{0x82, 3, 0, 1, 2}))
	add("uid-81-82", withUIDs([]byte{0x81, 2, 0, 9}, []byte{0x82, 2, 0, 8}))
	add("uid-82-81", withUIDs([]byte{0x82, 2, 0, 8}, []byte{0x81, 2, 0, 9}))
	add("uid-81-81", withUIDs([]byte{0x81, 2, 0, 9}, []byte{0x81, 2, 0, 8}))
	add("uid-82-82", withUIDs([]byte{0x82, 2, 0, 9}, []byte{0x82, 2, 0, 8}))
	add("uid-a1-constructed", withUIDs([]byte{0xa1, 2, 0, 9}))
	add("uid-83", withUIDs([]byte{0x83, 2, 0, 9}))

	var others []int // the extensions that are neither poison nor SCT list: the same ones, in the same order, in precert and final
	for i, e := range p.exts {
		if o := extOID(e); !bytes.Equal(o, oidPoison) && !bytes.Equal(o, oidSCT) {
			others = append(others, i)
		}
	}
	if len(others) > 0 {
		k := others[r.Intn(len(others))]
		e := p.exts[k]
		_, ev, _, _, _ := readTLV(e)
		efs, _ := splitAll(ev)
		withExt := func(ne []byte) parts { q := p.clone(); q.exts[k] = ne; return q }
		oidT, valT := efs[0], efs[len(efs)-1]
		_, eo, _, _, _ := readTLV(oidT)
		add("ext-critical-false-explicit", withExt(mk(0x30, oidT, []byte{1, 1, 0}, valT)))
		add("ext-critical-true", withExt(mk(0x30, oidT, []byte{1, 1, 0xff}, valT)))
		add("ext-critical-01", withExt(mk(0x30, oidT, []byte{1, 1, 1}, valT)))
		add("ext-critical-two-bytes", withExt(mk(0x30, oidT, []byte{1, 2, 0xff, 0xff}, valT)))
		add("ext-critical-empty", withExt(mk(0x30, oidT, []byte{1, 0}, valT)))
		add("ext-critical-twice", withExt(mk(0x30, oidT, []byte{1, 1, 0xff}, []byte{1, 1, 0xff}, valT)))
		add("ext-trailing-null", withExt(mk(0x30, ev, []byte{5, 0})))
		add("ext-trailing-garbage", withExt(mk(0x30, ev, []byte{5})))
		add("ext-oid-padded", withExt(mk(0x30, append([][]byte{mk(0x06, eo[:1], []byte{0x80}, eo[1:])}, efs[1:]...)...)))
		add("ext-oid-empty", withExt(mk(0x30, append([][]byte{{6, 0}}, efs[1:]...)...)))
		add("ext-no-value", withExt(mk(0x30, oidT)))
		add("ext-only-bool", withExt(mk(0x30, oidT, []byte{1, 1, 0xff})))
		add("ext-value-constructed", withExt(mk(0x30, oidT, append([]byte{0x24}, valT[1:]...))))
		add("ext-value-bitstring", withExt(mk(0x30, oidT, append([]byte{0x03}, valT[1:]...))))
		add("ext-empty", withExt([]byte{0x30, 0}))
		add("ext-set", withExt(append([]byte{0x31}, e[1:]...)))
		add("ext-value-first", withExt(mk(0x30, valT, oidT)))
		add("ext-duplicated", p.insertExt(k, e))
	}
	noExt := p.clone()
	noExt.exts, noExt.hasExts = nil, false
	add("exts-absent", noExt)
	add("exts-empty-list", noExt.withExts(nil))
	rawTail := func(q parts, b ...byte) parts { q2 := q.clone(); q2.tail = b; return q2 }
	add("exts-a3-empty", rawTail(noExt, 0xa3, 0))
	add("exts-83-empty", rawTail(noExt, 0x83, 0))
	add("exts-a3-set", rawTail(noExt, 0xa3, 2, 0x31, 0))
	add("exts-a3-octets", rawTail(noExt, 0xa3, 3, 4, 1, 0))
	add("exts-83-primitive", rawTail(noExt, 0x83, 2, 0x30, 0))
	add("exts-wrapper-too-long", rawTail(noExt, 0xa3, 4, 0x30, 0, 5, 0))
	add("exts-wrapper-too-short", rawTail(noExt, 0xa3, 1, 0x30, 0))
	add("exts-wrapper-claims-more", rawTail(noExt, 0xa3, 3, 0x30, 0))
	add("exts-inner-overruns", rawTail(noExt, 0xa3, 2, 0x30, 1))
	add("exts-a2", rawTail(noExt, 0xa2, 2, 0x30, 0))
	add("exts-a4", rawTail(noExt, 0xa4, 2, 0x30, 0))
	add("tail-null-after-spki", rawTail(noExt, 5, 0))
	add("tail-octet-after-spki", rawTail(noExt, 4, 1, 0))
	add("tail-garbage-after-spki", rawTail(noExt, 4))
	add("tail-null-after-exts", rawTail(p, 5, 0))
	add("tail-octet-after-exts", rawTail(p, 4, 1, 0))
	add("tail-garbage-after-exts", rawTail(p, 0xff))
	add("tail-second-exts", rawTail(p, 0xa3, 2, 0x30, 0))
	add("exts-list-element-not-sequence", p.insertExt(0, []byte{5, 0}))
	add("exts-list-element-set", p.insertExt(0, []byte{0x31, 0}))

	can := p.assemble()
	vs = append(vs, variant{"outer-trailing-byte", append(append([]byte{}, can...), 0)})
	vs = append(vs, variant{"outer-truncated", can[:len(can)-1]})
	vs = append(vs, variant{"outer-set", append([]byte{0x31}, can[1:]...)})
	vs = append(vs, variant{"outer-empty", []byte{0x30, 0}})
	vs = append(vs, variant{"outer-nothing", nil})
	vs = append(vs, variant{"outer-one-byte", []byte{0x30}})
	_, cv, _, _, _ := readTLV(can)
	if len(cv) >= 256 && len(cv) < 65536 {
		vs = append(vs, variant{"outer-length-leading-zero", append([]byte{0x30, 0x83, 0, byte(len(cv) >> 8), byte(len(cv))}, cv...)})
	}
	if len(cv) < 256 {
		vs = append(vs, variant{"outer-length-two-bytes", append([]byte{0x30, 0x82, 0, byte(len(cv))}, cv...)})
	}
	return vs
}

// accepted: does the real unmarshal (no trailing data) succeed, and what does unmarshal→marshal return?
func accepted(tbs []byte) (out []byte, ok bool) {
	verifkit.Guard(func() {
		b, err := x509.VerifRemarshalTBS(tbs)
		out, ok = b, err == nil
	})
	return
}

// routePair is the property's first clause as an oracle that needs no model and no canonical form: the SAME content (and the same
// deviation from the canonical encoding, if any) once as precertificate `pre` (poison) and once as final certificate `fin` (SCT list),
// `plain` = the same without either. For every input the fork accepts, both routes must succeed or fail together, return the same
// bytes, and those are what unmarshal→marshal makes of `plain`; the leaf builders must agree as well.
func (x *runner) routePair(label string, pre, fin, plain []byte, ca *authority) {
	cp, cf := x.opCanon(pre), x.opCanon(fin)
	a, errA := x.opBuild(pre, nil, cp)
	b, errB := x.opRemove("sct", fin, cf)
	_, accP := accepted(pre)
	_, accF := accepted(fin)
	want, accW := accepted(plain)
	if accW {
		x.out.T("remarshal "+h(plain), "ok "+h(want)) // what unmarshal→marshal makes of the content without poison / SCT list
	} else {
		x.out.T("remarshal "+h(plain), "err")
	}
	x.out.Count(fmt.Sprintf("class:pair-accepted=%v-canonical=%v", accP && accF, cp && cf))
	key := label + " pre=" + h(pre) + " fin=" + h(fin)
	if label == "damaged" {
		// A byte change that lands in a length octet can move field boundaries, and then differently in the two inputs (the bytes that
		// follow differ: poison vs SCT list). The oracle is about the SAME content on both sides, so for random damage it is applied only when
		// the independent splicer still sees the same fields and the same other extensions in both inputs.
		sp, okP := splitTBS(pre)
		sf, okF := splitTBS(fin)
		same := okP && okF && bytes.Equal(bytes.Join(sp.pre, nil), bytes.Join(sf.pre, nil)) && bytes.Equal(sp.tail, sf.tail) && sp.hasExts == sf.hasExts
		if same {
			var op, of [][]byte
			for _, e := range sp.exts {
				if !bytes.Equal(extOID(e), oidPoison) {
					op = append(op, e)
				}
			}
			for _, e := range sf.exts {
				if !bytes.Equal(extOID(e), oidSCT) {
					of = append(of, e)
				}
			}
			same = bytes.Equal(bytes.Join(op, []byte{0xff}), bytes.Join(of, []byte{0xff})) && len(op) == len(sp.exts)-1 && len(of) == len(sf.exts)-1
		}
		if !same {
			x.out.Count("class:pair-damaged-content-not-comparable")
			return
		}
	}
	if accP != accF {
		x.out.Fail(key, fmt.Sprintf("the same deviation is accepted on one side only (precert %v, final %v)", accP, accF))
		return
	}
	if !accP {
		return
	}
	if (errA == nil) != (errB == nil) {
		x.out.Fail(key, fmt.Sprintf("accepted input: one route fails (precert route %v, embedded route %v)", errA, errB))
		return
	}
	if errA != nil {
		return
	}
	if !bytes.Equal(a, b) {
		x.out.Fail(key, "accepted input: routes differ: "+h(a)+" vs "+h(b))
		return
	}
	if accW && !bytes.Equal(a, want) {
		if q, ok := splitTBS(plain); !ok || q.hasExts || len(q.tail) > 0 { // without an extension field the result has `a3 02 30 00`, plain has nothing
			x.out.Fail(key, "accepted input: the routes' result is not the re-marshalled certificate without poison / SCT list: "+h(a)+" vs "+h(want))
		}
	}
	if cp && cf {
		if d := removalDiff(pre, a, oidPoison); d != "" {
			if _, splits := splitTBS(pre); splits {
				x.out.Fail(key, "canonical input, but the removal changed something else: "+d)
			}
		}
		return
	}
	// not canonical, yet accepted: the leaf builders over signed chains (when the repository's certificate parser takes them)
	chP, chF := x.chainOf(pre, ca.sgn.key, ca.parsed), x.chainOf(fin, ca.sgn.key, ca.parsed)
	if chP == nil || chF == nil {
		x.out.Count("class:pair-noncanonical-not-a-certificate")
		return
	}
	lp, lf := x.opLeafPre(pre, chP, cp), x.opLeafEmb(fin, chF, cf)
	if lp == nil || lf == nil || !bytes.Equal(leafBytes(lp), leafBytes(lf)) || len(leafBytes(lp)) == 0 {
		x.out.Fail(key, "accepted non-canonical input: leaf from precert chain and leaf for embedded SCT differ")
	}
	x.out.Count("class:pair-noncanonical-leaf-routes")
}

func (x *runner) variantCases(ca *authority) {
	r := x.r
	tm := rndTemplate(r, rndSerial(r))
	der, err := stdx509.CreateCertificate(rand.Reader, tm, ca.tmpl, x.k.leafs[r.Intn(len(x.k.leafs))].Public(), ca.sgn.key)
	if err != nil {
		return
	}
	sc, _ := stdx509.ParseCertificate(der)
	base, ok := splitTBS(sc.RawTBSCertificate)
	if !ok {
		return
	}
	i, j := r.Intn(len(base.exts)+1), r.Intn(len(base.exts)+1)
	sctVal, _ := sctListValue(rndSCTItems(r))
	p := base.insertExt(i, mkExt(oidPoison, true, []byte{5, 0}))
	f := base.insertExt(j, mkExt(oidSCT, false, sctVal))
	w := base.withExts(base.exts)
	// the same deviations, drawn from the same random stream, applied to precertificate, final certificate and the plain content
	seed := r.U64()
	vp, vf, vw := variantsOf(p, verifkit.NewRand(seed)), variantsOf(f, verifkit.NewRand(seed)), variantsOf(w, verifkit.NewRand(seed))
	if len(vp) != len(vf) || len(vp) != len(vw) {
		x.out.Fail("gen", "variant lists differ in length")
		return
	}
	for n := range vp {
		if vp[n].name != vf[n].name || vp[n].name != vw[n].name {
			x.out.Fail("gen", "variant lists differ: "+vp[n].name+" / "+vf[n].name)
			return
		}
		c := isCanon(vp[n].tbs)
		x.out.Count(fmt.Sprintf("variant:%s:canon=%s", vp[n].name, map[bool]string{true: "1", false: "0"}[c]))
		x.routePair("variant "+vp[n].name, vp[n].tbs, vf[n].tbs, vw[n].tbs, ca)
	}
	// random damage: the same one- or two-byte change in the fields before the extensions, or inside one of the other extensions
	cp, cf, cw := p.assemble(), f.assemble(), w.assemble()
	preLen := len(bytes.Join(p.pre, nil))
	start := func(tbs []byte) int { _, v, _, _, _ := readTLV(tbs); return len(tbs) - len(v) }
	for n := 0; n < 60; n++ {
		mp, mf, mw := append([]byte(nil), cp...), append([]byte(nil), cf...), append([]byte(nil), cw...)
		flips := 1 + r.Intn(2)/1*0
		if r.Intn(4) == 0 {
			flips = 2
		}
		for q := 0; q < flips; q++ {
			mask := byte(1 + r.Intn(255))
			if len(base.exts) > 0 && r.Intn(3) == 0 {
				e := base.exts[r.Intn(len(base.exts))]
				pos := r.Intn(len(e))
				for _, m := range [][]byte{mp, mf, mw} {
					if at := bytes.Index(m, e); at >= 0 {
						m[at+pos] ^= mask
					}
				}
			} else {
				pos := r.Intn(preLen)
				mp[start(cp)+pos] ^= mask
				mf[start(cf)+pos] ^= mask
				mw[start(cw)+pos] ^= mask
			}
		}
		x.out.Count(fmt.Sprintf("class:damaged-canon=%v", isCanon(mp)))
		x.routePair("damaged", mp, mf, mw, ca)
	}
	// unpaired damage (truncation, deletion, anywhere): domain and result lines only
	for n := 0; n < 20; n++ {
		m := append([]byte(nil), cp...)
		switch r.Intn(3) {
		case 0:
			m = m[:r.Intn(len(m))]
		case 1:
			pos := r.Intn(len(m))
			m = append(m[:pos], m[pos+1:]...)
		default:
			m[r.Intn(len(m))] ^= byte(1 + r.Intn(255))
		}
		x.opBuild(m, nil, x.opCanon(m))
	}
}

// fuzzCases stresses the three places where the model mirrors library behaviour it cannot see the source of through the
// extractor: Go's time.Parse/Format inside asn1 (validity), base-128 arcs (signature algorithm OID) and raw tag/length
// headers (issuer). Each case is one canonical-domain line plus one BuildPrecertTBS line.
func (x *runner) fuzzCases(ca *authority, n int) {
	r := x.r
	tm := rndTemplate(r, rndSerial(r))
	der, err := stdx509.CreateCertificate(rand.Reader, tm, ca.tmpl, x.k.leafs[r.Intn(len(x.k.leafs))].Public(), ca.sgn.key)
	if err != nil {
		return
	}
	sc, _ := stdx509.ParseCertificate(der)
	base, ok := splitTBS(sc.RawTBSCertificate)
	if !ok {
		return
	}
	p := base.insertExt(r.Intn(len(base.exts)+1), mkExt(oidPoison, true, []byte{5, 0}))
	two := func(v int) string { return fmt.Sprintf("%02d", v) }
	pick := func(okMax, lo, hi int) int { // mostly within 0..okMax, now and then in lo..hi
		if r.Intn(14) == 0 {
			return lo + r.Intn(hi-lo+1)
		}
		return r.Intn(okMax + 1)
	}
	rndTime := func() []byte {
		gen := r.Bool()
		var sb []byte
		if gen {
			y := []int{0, 1, 1899, 1949, 1950, 2049, 2050, 2051, 2100, 2400, 9999, 2050 + r.Intn(7000), 2052, 2096, 1000 + r.Intn(9000)}[r.Intn(15)]
			sb = append(sb, fmt.Sprintf("%04d", y)...)
		} else {
			sb = append(sb, two(r.Intn(100))...)
		}
		mo := 1 + pick(11, 0, 13) - func() int {
			if r.Intn(9) == 0 {
				return 1
			}
			return 0
		}()
		if mo < 0 {
			mo = 0
		}
		d := []int{1, 28, 29, 30, 31, 1 + r.Intn(28), 1 + r.Intn(28), 1 + r.Intn(28), 1 + r.Intn(28), 1 + r.Intn(28), 0, 32}[r.Intn(12)]
		if r.Intn(4) == 0 {
			mo = 2
		}
		sb = append(sb, two(mo)...)
		sb = append(sb, two(d)...)
		sb = append(sb, two(pick(23, 24, 25))...)
		sb = append(sb, two(pick(59, 60, 61))...)
		if r.Intn(12) != 0 {
			sb = append(sb, two(pick(59, 60, 61))...)
		}
		switch r.Intn(16) {
		case 0, 1, 2, 3, 4, 10, 11, 12, 13, 14, 15:
			sb = append(sb, 'Z')
		case 5, 6, 7:
			sb = append(sb, "+-"[r.Intn(2)])
			sb = append(sb, two(pick(23, 24, 26))...)
			sb = append(sb, two(pick(59, 60, 61))...)
		case 8:
			sb = append(sb, []string{"", "z", "+0000", "-0000", "Z0", "+01", "+01:00", ".5Z", ",5Z", " Z"}[r.Intn(10)]...)
		default:
			sb = append(sb, 'Z')
			if len(sb) > 3 {
				sb[r.Intn(len(sb))] = byte(0x2f + r.Intn(13)) // one character around the digits
			}
		}
		tag := byte(0x17)
		if gen != (r.Intn(10) == 0) {
			tag = 0x18
		}
		return mk(tag, sb)
	}
	rndArcs := func() []byte {
		var o []byte
		for i, k := 0, 1+r.Intn(5); i < k; i++ {
			switch r.Intn(8) {
			case 0:
				o = append(o, 0x80) // padding byte in front of the arc
				fallthrough
			case 1, 2, 3:
				o = append(o, byte(r.Intn(128)))
			case 4:
				o = append(o, 0x80|byte(1+r.Intn(127)), byte(r.Intn(128)))
			case 5:
				o = append(o, 0x80|byte(r.Intn(16)), 0x80|byte(r.Intn(128)), 0x80|byte(r.Intn(128)), 0x80|byte(r.Intn(128)), byte(r.Intn(128)))
			case 6:
				o = append(o, 0x81, 0x80, 0x80, 0x80, 0x80, 0x00)
			default:
				o = append(o, 0x80|byte(r.Intn(128))) // possibly left unterminated
			}
		}
		return o
	}
	rndHeader := func() []byte {
		var b []byte
		first := byte(r.Intn(256))
		b = append(b, first)
		if first&0x1f == 0x1f {
			b = append(b, rndArcs()...)
			if r.Intn(3) == 0 {
				b = append(b[:1], []byte{0x1f, 0x1e, 0x80, 0x7f, 0x81}[r.Intn(5)])
				if b[1]&0x80 != 0 {
					b = append(b, byte(r.Intn(128)))
				}
			}
		}
		n := []int{0, 1, 5, 127, 128, 129, 255, 256, 300}[r.Intn(9)]
		switch r.Intn(6) {
		case 0:
			b = append(b, 0x81, byte(n)) // long form even when short would do
		case 1:
			b = append(b, 0x82, byte(n>>8), byte(n))
		case 2:
			b = append(b, 0x80)
		default:
			b = append(b, derLen(n)...)
		}
		if r.Intn(8) == 0 {
			n += r.Intn(3) - 1
			if n < 0 {
				n = 0
			}
		}
		return append(b, r.Bytes(n)...)
	}
	sig := p.field(fSigAlg)
	_, sv, _, _, _ := readTLV(sig)
	sfs, _ := splitAll(sv)
	for i := 0; i < n; i++ {
		q := p.clone()
		kind := ""
		switch i % 3 {
		case 0:
			a, b := rndTime(), rndTime()
			if r.Intn(3) == 0 {
				a = utc("300101000000Z")
			}
			q.setField(fValidity, mk(0x30, a, b))
			kind = "time"
		case 1:
			q.setField(fSigAlg, mk(0x30, append([][]byte{mk(0x06, rndArcs())}, sfs[1:]...)...))
			kind = "oid"
		default:
			q.setField([]int{fIssuer, fSubject}[r.Intn(2)], rndHeader())
			kind = "header"
		}
		v := q.assemble()
		c := x.opCanon(v)
		x.out.Count(fmt.Sprintf("class:fuzz-%s-canon=%v", kind, c))
		o, err := x.opBuild(v, nil, c)
		if c && err == nil {
			if _, splits := splitTBS(v); splits {
				if d := removalDiff(v, o, oidPoison); d != "" {
					x.out.Fail("fuzz "+kind+" "+h(v), "canonical input, but the removal changed something else: "+d)
				}
			}
		}
	}
}
