//go:build verif

// C03 harness (external test package of x509, added by the /verif overlay).
//
// TBSCertificates are produced by the standard library's crypto/x509.CreateCertificate from seeded random templates,
// taken apart and re-assembled by the little DER splicer below (which shares no code with the repository's asn1 fork)
// with the CT poison / SCT-list extension inserted at every position, and then pushed through the repository's
// x509.BuildPrecertTBS, RemoveSCTList, RemoveCTPoison, ct.MerkleTreeLeafFromChain, ct.MerkleTreeLeafForEmbeddedSCT,
// ctutil.VerifySCT / LeafHash and the SCT-list codecs. Every call is a trace line for the Lean model; the property itself
// (byte equality of the two routes, byte-diff against the input, exactly-one rule, SCT list read back) is evaluated
// here on the real outputs and reported with out.Fail.
package x509_test

import (
	"bytes"
	"crypto"
	"crypto/ecdsa"
	"crypto/ed25519"
	"crypto/elliptic"
	"crypto/rand"
	"crypto/rsa"
	"crypto/sha256"
	"crypto/sha512"
	stdx509 "crypto/x509"
	stdpkix "crypto/x509/pkix"
	stdasn1 "encoding/asn1"
	"encoding/hex"
	"fmt"
	"math/big"
	"net"
	"strings"
	"testing"
	"time"

	ct "github.com/google/certificate-transparency-go"
	"github.com/google/certificate-transparency-go/asn1"
	"github.com/google/certificate-transparency-go/ctutil"
	"github.com/google/certificate-transparency-go/internal/verifkit"
	"github.com/google/certificate-transparency-go/submission"
	"github.com/google/certificate-transparency-go/tls"
	"github.com/google/certificate-transparency-go/x509"
	"github.com/google/certificate-transparency-go/x509util"
)

// ----------------------------------------------------------------------------- independent DER splicer

func derLen(n int) []byte {
	if n < 128 {
		return []byte{byte(n)}
	}
	var b []byte
	for m := n; m > 0; m >>= 8 {
		b = append([]byte{byte(m)}, b...)
	}
	return append([]byte{0x80 | byte(len(b))}, b...)
}

func mk(tag byte, val ...[]byte) []byte {
	body := bytes.Join(val, nil)
	out := append([]byte{tag}, derLen(len(body))...)
	return append(out, body...)
}

// readTLV reads one single-byte-tag, definite-length TLV (all the splicer ever meets in standard-library output).
func readTLV(b []byte) (tag byte, val, raw, rest []byte, ok bool) {
	if len(b) < 2 || b[0]&0x1f == 0x1f {
		return
	}
	tag = b[0]
	n, off := int(b[1]), 2
	if b[1]&0x80 != 0 {
		k := int(b[1] & 0x7f)
		if k == 0 || k > 3 || len(b) < 2+k {
			return
		}
		n = 0
		for i := 0; i < k; i++ {
			n = n<<8 | int(b[2+i])
		}
		off = 2 + k
	}
	if len(b) < off+n {
		return
	}
	return tag, b[off : off+n], b[:off+n], b[off+n:], true
}

func splitAll(b []byte) (out [][]byte, ok bool) {
	for len(b) > 0 {
		_, _, raw, rest, k := readTLV(b)
		if !k {
			return nil, false
		}
		out = append(out, raw)
		b = rest
	}
	return out, true
}

// parts is a TBSCertificate cut into the raw TLVs of its fields.
type parts struct {
	pre     [][]byte // version? serial sigAlg issuer validity subject spki uid? suid?
	hasExts bool
	exts    [][]byte // raw Extension TLVs
	tail    []byte   // raw bytes appended after the last field inside the outer SEQUENCE (non-canonical variants)
}

func (p parts) clone() parts {
	q := parts{hasExts: p.hasExts, tail: append([]byte(nil), p.tail...)}
	q.pre = append([][]byte(nil), p.pre...)
	q.exts = append([][]byte(nil), p.exts...)
	return q
}

func (p parts) verOff() int {
	if len(p.pre) > 0 && p.pre[0][0] == 0xa0 {
		return 1
	}
	return 0
}

const (
	fSerial = iota
	fSigAlg
	fIssuer
	fValidity
	fSubject
	fSPKI
)

func (p parts) field(i int) []byte        { return p.pre[p.verOff()+i] }
func (p *parts) setField(i int, b []byte) { p.pre[p.verOff()+i] = b }

func splitTBS(tbs []byte) (p parts, ok bool) {
	tag, val, _, rest, k := readTLV(tbs)
	if !k || tag != 0x30 || len(rest) != 0 {
		return p, false
	}
	fs, k := splitAll(val)
	if !k || len(fs) < 6 {
		return p, false
	}
	if last := fs[len(fs)-1]; last[0] == 0xa3 {
		_, w, _, _, _ := readTLV(last)
		st, sv, _, r2, k := readTLV(w)
		if !k || st != 0x30 || len(r2) != 0 {
			return p, false
		}
		p.exts, k = splitAll(sv)
		if !k {
			return p, false
		}
		p.hasExts = true
		fs = fs[:len(fs)-1]
	}
	p.pre = fs
	return p, true
}

func (p parts) assemble() []byte {
	body := bytes.Join(p.pre, nil)
	if p.hasExts {
		body = append(body, mk(0xa3, mk(0x30, p.exts...))...)
	}
	body = append(body, p.tail...)
	return mk(0x30, body)
}

func (p parts) insertExt(i int, e []byte) parts {
	q := p.clone()
	q.hasExts = true
	q.exts = append(append(append([][]byte(nil), p.exts[:i]...), e), p.exts[i:]...)
	return q
}

func (p parts) withExts(e [][]byte) parts {
	q := p.clone()
	q.hasExts = true
	q.exts = append([][]byte{}, e...)
	return q
}

var (
	oidPoison = []byte{0x2b, 0x06, 0x01, 0x04, 0x01, 0xd6, 0x79, 0x02, 0x04, 0x03}
	oidSCT    = []byte{0x2b, 0x06, 0x01, 0x04, 0x01, 0xd6, 0x79, 0x02, 0x04, 0x02}
	oidAKI    = []byte{0x55, 0x1d, 0x23}
)

func mkExt(oid []byte, crit bool, val []byte) []byte {
	if crit {
		return mk(0x30, mk(0x06, oid), []byte{0x01, 0x01, 0xff}, mk(0x04, val))
	}
	return mk(0x30, mk(0x06, oid), mk(0x04, val))
}

func extOID(raw []byte) []byte {
	_, v, _, _, ok := readTLV(raw)
	if !ok {
		return nil
	}
	t, o, _, _, ok := readTLV(v)
	if !ok || t != 0x06 {
		return nil
	}
	return o
}

func extValue(raw []byte) []byte {
	_, v, _, _, _ := readTLV(raw)
	fs, _ := splitAll(v)
	if len(fs) == 0 {
		return nil
	}
	_, o, _, _, _ := readTLV(fs[len(fs)-1])
	return o
}

func findExt(exts [][]byte, oid []byte) int {
	for i, e := range exts {
		if bytes.Equal(extOID(e), oid) {
			return i
		}
	}
	return -1
}

func countExt(exts [][]byte, oid []byte) int {
	n := 0
	for _, e := range exts {
		if bytes.Equal(extOID(e), oid) {
			n++
		}
	}
	return n
}

// removalDiff is the property's byte-level clause as a predicate over real input and output: the output's fields before the
// extensions are the input's, byte for byte, and its extension list is the input's with exactly one element — carrying oid —
// taken out, the rest identical and in order; the three enclosing lengths are re-encoded minimally (assemble does that).
func removalDiff(in, out, oid []byte) string {
	pi, ok := splitTBS(in)
	if !ok {
		return "input does not split"
	}
	po, ok := splitTBS(out)
	if !ok {
		return "output does not split"
	}
	if !bytes.Equal(out, po.assemble()) {
		return "output lengths not minimal"
	}
	if !bytes.Equal(bytes.Join(pi.pre, nil), bytes.Join(po.pre, nil)) {
		return "fields before the extensions differ"
	}
	if !po.hasExts || len(po.exts) != len(pi.exts)-1 {
		return fmt.Sprintf("extension count %d -> %d", len(pi.exts), len(po.exts))
	}
	k := 0
	for k < len(po.exts) && bytes.Equal(pi.exts[k], po.exts[k]) {
		k++
	}
	if !bytes.Equal(extOID(pi.exts[k]), oid) {
		return fmt.Sprintf("extension removed at %d is not the target", k)
	}
	for j := k; j < len(po.exts); j++ {
		if !bytes.Equal(pi.exts[j+1], po.exts[j]) {
			return fmt.Sprintf("extension %d changed", j)
		}
	}
	return ""
}

// ----------------------------------------------------------------------------- keys and signing

type signer struct {
	name string
	key  crypto.Signer
}

func detECKey(r *verifkit.Rand, c elliptic.Curve) *ecdsa.PrivateKey {
	d := new(big.Int).SetBytes(r.Bytes(c.Params().BitSize/8 - 1))
	d.Add(d, big.NewInt(1))
	k := &ecdsa.PrivateKey{D: d}
	k.Curve = c
	k.X, k.Y = c.ScalarBaseMult(d.Bytes())
	return k
}

type keyring struct {
	cas   []signer // certificate-signing keys: ECDSA P-256, RSA, Ed25519
	pis   []signer // keys of the precertificate signing certificates (distinct from every root key)
	leafs []crypto.Signer
	log   *ecdsa.PrivateKey
}

func newKeyring(t *testing.T, r *verifkit.Rand) *keyring {
	k := &keyring{}
	rk, err := rsa.GenerateKey(rand.Reader, 2048)
	if err != nil {
		t.Fatal(err)
	}
	k.cas = []signer{{"ecdsa", detECKey(r, elliptic.P256())}, {"rsa", rk}, {"ed25519", ed25519.NewKeyFromSeed(r.Bytes(32))}}
	k.pis = []signer{{"ecdsa", detECKey(r, elliptic.P256())}, {"ecdsa", detECKey(r, elliptic.P384())}, {"ed25519", ed25519.NewKeyFromSeed(r.Bytes(32))}}
	k.leafs = []crypto.Signer{detECKey(r, elliptic.P256()), detECKey(r, elliptic.P384()), ed25519.NewKeyFromSeed(r.Bytes(32)), rk,
		detECKey(r, elliptic.P256()), ed25519.NewKeyFromSeed(r.Bytes(32))}
	k.log = detECKey(r, elliptic.P256())
	return k
}

// signTBS wraps a TBSCertificate into a Certificate signed by key (the outer algorithm is the TBS's own signature field).
func signTBS(tbs []byte, key crypto.Signer) ([]byte, error) {
	p, ok := splitTBS(tbs)
	if !ok {
		return nil, fmt.Errorf("tbs does not split")
	}
	var sig []byte
	var err error
	// the digest named by the TBS's own signature algorithm (ecdsa-with-SHA384 for P-384 issuers, SHA-256 otherwise)
	hash, digest := crypto.SHA256, func() []byte { d := sha256.Sum256(tbs); return d[:] }()
	if bytes.Contains(p.field(fSigAlg), []byte{0x2a, 0x86, 0x48, 0xce, 0x3d, 0x04, 0x03, 0x03}) {
		d := sha512.Sum384(tbs)
		hash, digest = crypto.SHA384, d[:]
	}
	switch k := key.(type) {
	case *ecdsa.PrivateKey:
		sig, err = ecdsa.SignASN1(rand.Reader, k, digest)
	case *rsa.PrivateKey:
		sig, err = rsa.SignPKCS1v15(rand.Reader, k, hash, digest)
	case ed25519.PrivateKey:
		sig = ed25519.Sign(k, tbs)
	default:
		err = fmt.Errorf("unknown key type")
	}
	if err != nil {
		return nil, err
	}
	return mk(0x30, tbs, p.field(fSigAlg), mk(0x03, []byte{0}, sig)), nil
}

// ----------------------------------------------------------------------------- template generator

var printable = "abcdefghijklmnopqrstuvwxyzABCDEFGHIJKLMNOPQRSTUVWXYZ0123456789 '()+,-./:=?"

func rndName(r *verifkit.Rand, tag string) stdpkix.Name {
	str := func(max int) string {
		n := 1 + r.Intn(max)
		var sb strings.Builder
		for i := 0; i < n; i++ {
			sb.WriteByte(printable[r.Intn(len(printable))])
		}
		return sb.String()
	}
	n := stdpkix.Name{CommonName: tag + " " + str(12)}
	if r.Bool() {
		n.Organization = []string{str(20)}
	}
	if r.Intn(3) == 0 {
		n.OrganizationalUnit = []string{str(8), str(8)}
	}
	if r.Bool() {
		n.Country = []string{[]string{"GB", "US", "DE", "JP"}[r.Intn(4)]}
	}
	if r.Intn(4) == 0 {
		n.Locality = []string{"Zürich ✓"} // forces UTF8String
	}
	if r.Intn(4) == 0 {
		n.SerialNumber = str(10)
	}
	if r.Intn(4) == 0 {
		n.ExtraNames = []stdpkix.AttributeTypeAndValue{{Type: stdasn1.ObjectIdentifier{1, 2, 840, 113549, 1, 9, 1}, Value: "a@b.example"},
			{Type: stdasn1.ObjectIdentifier{2, 5, 4, 12}, Value: "Dr *&"}}
	}
	if r.Intn(6) == 0 {
		n.Province = []string{strings.Repeat("x", 100+r.Intn(60))} // pushes the name beyond 127 bytes
	}
	return n
}

var notAfters = []time.Time{
	time.Date(2049, 12, 31, 23, 59, 59, 0, time.UTC), time.Date(2050, 1, 1, 0, 0, 0, 0, time.UTC),
	time.Date(2049, 12, 31, 23, 59, 58, 0, time.UTC), time.Date(2050, 1, 1, 0, 0, 1, 0, time.UTC),
	time.Date(9999, 12, 31, 23, 59, 59, 0, time.UTC), time.Date(2100, 2, 28, 12, 0, 0, 0, time.UTC),
	time.Date(2048, 2, 29, 1, 2, 3, 0, time.UTC), time.Date(2052, 2, 29, 1, 2, 3, 0, time.UTC),
}

func rndTimes(r *verifkit.Rand) (time.Time, time.Time) {
	nb := time.Date(1990+r.Intn(60), time.Month(1+r.Intn(12)), 1+r.Intn(28), r.Intn(24), r.Intn(60), r.Intn(60), 0, time.UTC)
	switch r.Intn(8) {
	case 0:
		nb = time.Date(1950, 1, 1, 0, 0, 0, 0, time.UTC)
	case 1:
		nb = time.Date(1949, 12, 31, 23, 59, 59, 0, time.UTC) // GeneralizedTime below the UTCTime window
	case 2:
		nb = time.Date(2049, 12, 31, 23, 59, 59, 0, time.UTC)
	case 3:
		nb = time.Date(2050, 1, 1, 0, 0, 0, 0, time.UTC)
	}
	var na time.Time
	if r.Bool() {
		na = notAfters[r.Intn(len(notAfters))]
	} else {
		na = time.Date(2020+r.Intn(90), time.Month(1+r.Intn(12)), 1+r.Intn(28), r.Intn(24), r.Intn(60), r.Intn(60), 0, time.UTC)
	}
	return nb, na
}

func rndSerial(r *verifkit.Rand) *big.Int {
	switch r.Intn(7) {
	case 0:
		return big.NewInt(int64(1 + r.Intn(127)))
	case 1:
		return big.NewInt(int64(128 + r.Intn(128))) // high bit set: leading zero octet
	case 2:
		b := r.Bytes(19)
		b[0] |= 0x80 // 19 bytes, high bit: 20 octets on the wire
		return new(big.Int).SetBytes(b)
	case 3:
		b := r.Bytes(20)
		b[0] = b[0]&0x7f | 0x40 // exactly 20 octets
		return new(big.Int).SetBytes(b)
	case 4:
		return big.NewInt(0x7f)
	case 5:
		return big.NewInt(0xff00)
	default:
		b := r.Bytes(1 + r.Intn(16))
		b[0] |= 1
		return new(big.Int).SetBytes(b)
	}
}

func rndOID(r *verifkit.Rand) stdasn1.ObjectIdentifier {
	arcs := []int{1 + r.Intn(2), r.Intn(40)}
	for i, n := 0, 1+r.Intn(6); i < n; i++ {
		arcs = append(arcs, []int{r.Intn(128), 128 + r.Intn(16256), 16384 + r.Intn(1<<20), 1<<31 - 1, 0, 127, 128}[r.Intn(7)])
	}
	return arcs
}

func rndTemplate(r *verifkit.Rand, serial *big.Int) *stdx509.Certificate {
	nb, na := rndTimes(r)
	t := &stdx509.Certificate{SerialNumber: serial, Subject: rndName(r, "leaf"), NotBefore: nb, NotAfter: na}
	if r.Intn(4) != 0 {
		t.KeyUsage = stdx509.KeyUsage(1 + r.Intn(255))
	}
	if r.Bool() {
		t.ExtKeyUsage = []stdx509.ExtKeyUsage{stdx509.ExtKeyUsageServerAuth}
		if r.Bool() {
			t.ExtKeyUsage = append(t.ExtKeyUsage, stdx509.ExtKeyUsageClientAuth)
		}
	}
	if r.Bool() {
		t.BasicConstraintsValid = true
	}
	if r.Intn(3) != 0 {
		t.DNSNames = []string{"a.example.com", "www.example.org"}[:1+r.Intn(2)]
	}
	if r.Intn(4) == 0 {
		t.IPAddresses = []net.IP{net.IPv4(10, 0, 0, byte(r.Intn(256)))}
	}
	if r.Intn(4) == 0 {
		t.EmailAddresses = []string{"x@example.com"}
	}
	if r.Intn(3) == 0 {
		t.SubjectKeyId = r.Bytes(1 + r.Intn(20))
	}
	if r.Intn(3) == 0 {
		t.PolicyIdentifiers = []stdasn1.ObjectIdentifier{{2, 23, 140, 1, 2, 1}}
	}
	if r.Intn(3) == 0 {
		t.CRLDistributionPoints = []string{"http://crl.example.com/" + hex.EncodeToString(r.Bytes(1+r.Intn(70)))}
	}
	if r.Intn(3) == 0 {
		t.OCSPServer = []string{"http://ocsp.example.com"}
	}
	for i, n := 0, r.Intn(4); i < n; i++ {
		t.ExtraExtensions = append(t.ExtraExtensions, stdpkix.Extension{Id: rndOID(r), Critical: r.Intn(3) == 0, Value: r.Bytes([]int{0, 1, 5, 40, 127, 128, 300}[r.Intn(7)])})
	}
	return t
}

// pki: a root and, under it, a precertificate signing certificate (CT EKU), each with and without key identifiers.
type authority struct {
	sgn    signer
	tmpl   *stdx509.Certificate // as handed to CreateCertificate as parent (SubjectKeyId present or not)
	der    []byte
	parsed *x509.Certificate
}

var oidEKUCT = stdasn1.ObjectIdentifier{1, 3, 6, 1, 4, 1, 11129, 2, 4, 4}

func mkAuthority(t *testing.T, r *verifkit.Rand, name string, sgn signer, parent *authority, withSKI, ctEKU bool) *authority {
	tm := &stdx509.Certificate{SerialNumber: rndSerial(r), Subject: rndName(r, name), NotBefore: time.Date(2000, 1, 1, 0, 0, 0, 0, time.UTC),
		NotAfter: time.Date(2200, 1, 1, 0, 0, 0, 0, time.UTC), IsCA: true, BasicConstraintsValid: true, KeyUsage: stdx509.KeyUsageCertSign | stdx509.KeyUsageDigitalSignature}
	if ctEKU {
		tm.UnknownExtKeyUsage = []stdasn1.ObjectIdentifier{oidEKUCT}
	}
	tm.SubjectKeyId = r.Bytes(20) // set explicitly so that the library does not derive one; removed below when unwanted
	a := &authority{sgn: sgn}
	par, pkey := tm, sgn.key
	if parent != nil {
		par, pkey = parent.tmpl, parent.sgn.key
	}
	der, err := stdx509.CreateCertificate(rand.Reader, tm, par, sgn.key.Public(), pkey)
	if err != nil {
		t.Fatalf("authority %s: %v", name, err)
	}
	if !withSKI {
		// take the subjectKeyIdentifier out again and re-sign, so that certificates issued under it carry no authority key id
		c, _ := stdx509.ParseCertificate(der)
		p, ok := splitTBS(c.RawTBSCertificate)
		if !ok {
			t.Fatal("authority tbs does not split")
		}
		i := findExt(p.exts, []byte{0x55, 0x1d, 0x0e})
		if i < 0 {
			t.Fatal("no SKI in authority")
		}
		q := p.withExts(append(append([][]byte{}, p.exts[:i]...), p.exts[i+1:]...))
		der, err = signTBS(q.assemble(), pkey)
		if err != nil {
			t.Fatal(err)
		}
		tm.SubjectKeyId = nil
	}
	a.der = der
	a.tmpl = tm
	tm.Raw = nil
	// the parent handed to CreateCertificate needs RawSubject to copy the issuer name from
	sc, err := stdx509.ParseCertificate(der)
	if err != nil {
		t.Fatalf("authority %s does not parse: %v", name, err)
	}
	cp := *sc
	if !withSKI {
		cp.SubjectKeyId = nil
	}
	a.tmpl = &cp
	a.parsed, err = x509.ParseCertificate(der)
	if x509.IsFatal(err) {
		t.Fatalf("authority %s does not parse (repo): %v", name, err)
	}
	return a
}

// ----------------------------------------------------------------------------- the run

type runner struct {
	akiCache map[string]*authority
	t        *testing.T
	out      *verifkit.Out
	r        *verifkit.Rand
	k        *keyring
	n        int
}

func h(b []byte) string { return verifkit.Hex(b) }

// isCanon: does the real unmarshal→marshal reproduce the bytes?
func isCanon(tbs []byte) bool {
	var c bool
	verifkit.Guard(func() {
		b, err := x509.VerifRemarshalTBS(tbs)
		c = err == nil && bytes.Equal(b, tbs)
	})
	return c
}

func res(b []byte, err error, p string) string {
	if p != "" {
		return "panic"
	}
	if err != nil {
		return "err"
	}
	return "ok " + h(b)
}

// opCanon emits the domain line and returns the flag.
func (x *runner) opCanon(tbs []byte) bool {
	c := isCanon(tbs)
	x.out.T("canon "+h(tbs), verifkit.B(c))
	return c
}

// opRemove runs removeExtension for the named target and returns its result.
func (x *runner) opRemove(which string, tbs []byte, canon bool) ([]byte, error) {
	var b []byte
	var err error
	p := verifkit.Guard(func() {
		switch which {
		case "sct":
			b, err = x509.RemoveSCTList(tbs)
		case "poison":
			b, err = x509.RemoveCTPoison(tbs)
		default:
			o, _ := hex.DecodeString(which)
			var oid asn1.ObjectIdentifier
			if _, e := asn1.Unmarshal(mk(0x06, o), &oid); e != nil {
				panic("harness: bad oid")
			}
			b, err = x509.VerifRemoveExtension(tbs, oid)
		}
	})
	if p != "" {
		x.out.Fail("rm "+which+" "+h(tbs), "panic: "+p)
		err = fmt.Errorf("panic")
	}
	_ = canon // the answer is the real one for every input; the model covers everything the fork accepts
	x.out.T("rm "+which+" "+h(tbs), res(b, err, p))
	return b, err
}

var oidEKU = []byte{0x55, 0x1d, 0x25}

// chain1Tokens describes chain[1] for the model, read with the splicer from the certificate's own bytes (not from the repository's
// parse): `c1 <RawIssuer> <none | v:first AKI extension value> <n> <KeyPurposeId contents>…`. Whether that makes it a pre-issuer
// is for the model to decide.
func chain1Tokens(c *x509.Certificate) string {
	if c == nil {
		return "nil"
	}
	p, ok := splitTBS(c.RawTBSCertificate)
	if !ok {
		return "nil"
	}
	aki := "none"
	if k := findExt(p.exts, oidAKI); k >= 0 {
		aki = "v:" + h(extValue(p.exts[k]))
	}
	var ekus [][]byte
	if k := findExt(p.exts, oidEKU); k >= 0 {
		_, seq, _, _, _ := readTLV(extValue(p.exts[k]))
		ids, _ := splitAll(seq)
		for _, id := range ids {
			_, o, _, _, _ := readTLV(id)
			ekus = append(ekus, o)
		}
	}
	s := fmt.Sprintf("c1 %s %s %d", h(p.field(fIssuer)), aki, len(ekus))
	for _, e := range ekus {
		s += " " + h(e)
	}
	return s
}

func spkiTokens(chain []*x509.Certificate) string {
	s := ""
	for i, c := range chain {
		if i > 0 {
			s += " " + h(c.RawSubjectPublicKeyInfo)
		}
	}
	return s
}

func (x *runner) opBuild(tbs []byte, pi *x509.Certificate, canon bool) ([]byte, error) {
	var b []byte
	var err error
	p := verifkit.Guard(func() { b, err = x509.BuildPrecertTBS(tbs, pi) })
	op := "build " + h(tbs) + " " + chain1Tokens(pi)
	if p != "" {
		x.out.Fail(op, "panic: "+p)
		err = fmt.Errorf("panic")
	}
	_ = canon
	x.out.T(op, res(b, err, p))
	return b, err
}

// leafAnswer renders a MerkleTreeLeaf as "ok <tbs> <issuer_key_hash>".
func leafAnswer(leaf *ct.MerkleTreeLeaf, err error, p string) string {
	if p != "" {
		return "panic"
	}
	if err != nil || leaf == nil || leaf.TimestampedEntry == nil || leaf.TimestampedEntry.PrecertEntry == nil {
		return "err"
	}
	pe := leaf.TimestampedEntry.PrecertEntry
	return fmt.Sprintf("ok %s %s", h(pe.TBSCertificate), h(pe.IssuerKeyHash[:]))
}

func (x *runner) chainOf(tbs []byte, key crypto.Signer, rest ...*x509.Certificate) []*x509.Certificate {
	der, err := signTBS(tbs, key)
	if err != nil {
		return nil
	}
	var c *x509.Certificate
	verifkit.Guard(func() { c, err = x509.ParseCertificate(der) })
	if c == nil || x509.IsFatal(err) {
		return nil
	}
	return append([]*x509.Certificate{c}, rest...)
}

func (x *runner) opLeafPre(tbs []byte, chain []*x509.Certificate, canon bool) *ct.MerkleTreeLeaf {
	var leaf *ct.MerkleTreeLeaf
	var err error
	p := verifkit.Guard(func() { leaf, err = ct.MerkleTreeLeafFromChain(chain, ct.PrecertLogEntryType, 1234) })
	var c1 *x509.Certificate
	if len(chain) > 1 {
		c1 = chain[1]
	}
	op := fmt.Sprintf("leafpre %s %d%s %s", h(tbs), len(chain), spkiTokens(chain), chain1Tokens(c1))
	if p != "" {
		x.out.Fail(op, "panic: "+p)
	}
	_ = canon
	x.out.T(op, leafAnswer(leaf, err, p))
	if err != nil {
		return nil
	}
	return leaf
}

func (x *runner) opLeafEmb(tbs []byte, chain []*x509.Certificate, canon bool) *ct.MerkleTreeLeaf {
	var leaf *ct.MerkleTreeLeaf
	var err error
	p := verifkit.Guard(func() { leaf, err = ct.MerkleTreeLeafForEmbeddedSCT(chain, 1234) })
	op := fmt.Sprintf("leafemb %s %d%s", h(tbs), len(chain), spkiTokens(chain))
	if p != "" {
		x.out.Fail(op, "panic: "+p)
	}
	_ = canon
	x.out.T(op, leafAnswer(leaf, err, p))
	if err != nil {
		return nil
	}
	return leaf
}

func leafBytes(l *ct.MerkleTreeLeaf) []byte {
	if l == nil {
		return nil
	}
	b, err := tls.Marshal(*l)
	if err != nil {
		return nil
	}
	return b
}

// rndSCTItems: opaque SerializedSCT values.
func rndSCTItems(r *verifkit.Rand) [][]byte {
	n := 1 + r.Intn(4)
	var l [][]byte
	for i := 0; i < n; i++ {
		l = append(l, r.Bytes([]int{1, 2, 47, 119, 120, 121, 255, 256, 300}[r.Intn(9)]))
	}
	return l
}

func sctListValue(items [][]byte) ([]byte, error) {
	var l x509.SignedCertificateTimestampList
	for _, it := range items {
		l.SCTList = append(l.SCTList, x509.SerializedSCT{Val: it})
	}
	b, err := tls.Marshal(l)
	if err != nil {
		return nil, err
	}
	return asn1.Marshal(b)
}

func itemsTokens(items [][]byte) string {
	s := fmt.Sprint(len(items))
	for _, it := range items {
		s += " " + h(it)
	}
	return s
}

// one base TBS, all positions, both routes, direct issuer.
func (x *runner) directCase(ca *authority, thorough bool) {
	r := x.r
	leafKey := x.k.leafs[r.Intn(len(x.k.leafs))]
	tm := rndTemplate(r, rndSerial(r))
	der, err := stdx509.CreateCertificate(rand.Reader, tm, ca.tmpl, leafKey.Public(), ca.sgn.key)
	if err != nil {
		x.out.Count("gen:create-failed")
		return
	}
	sc, err := stdx509.ParseCertificate(der)
	if err != nil {
		x.out.Count("gen:std-parse-failed")
		return
	}
	base, ok := splitTBS(sc.RawTBSCertificate)
	if !ok {
		x.out.Fail("gen", "standard library TBS does not split: "+h(sc.RawTBSCertificate))
		return
	}
	switch r.Intn(8) {
	case 0: // no extensions at all: the poison is then the only one and its removal leaves `a3 02 30 00`
		base.exts, base.hasExts = nil, false
		x.out.Count("class:base-no-extensions")
	case 1: // unique identifiers (the standard library never writes them)
		base.pre = append(base.pre, mk(0x81, []byte{byte(r.Intn(8))}, append(r.Bytes(r.Intn(4)), 0)))
		if r.Bool() {
			base.pre = append(base.pre, mk(0x82, []byte{0}, r.Bytes(r.Intn(5))))
		}
		x.out.Count("class:base-unique-ids")
	case 2: // v1-style: no version field
		if base.verOff() == 1 {
			base.pre = base.pre[1:]
		}
		x.out.Count("class:base-no-version")
	case 3: // shuffled extension order
		for i := len(base.exts) - 1; i > 0; i-- {
			j := r.Intn(i + 1)
			base.exts[i], base.exts[j] = base.exts[j], base.exts[i]
		}
		x.out.Count("class:base-shuffled")
	default:
		x.out.Count("class:base-stdlib")
	}
	x.out.Count(fmt.Sprintf("class:ca-%s", ca.sgn.name))
	x.out.Count(fmt.Sprintf("class:exts-%d", len(base.exts)))
	// what both routes must produce: the base with its extension field present (even when empty)
	want := base.withExts(base.exts).assemble()
	items := rndSCTItems(r)
	sctVal, err := sctListValue(items)
	if err != nil {
		x.out.Fail("sctlist marshal "+itemsTokens(items), err.Error())
		return
	}
	n := len(base.exts)
	for i := 0; i <= n; i++ {
		pc, sc := r.Intn(4) != 0, r.Intn(4) == 0
		j := i
		if r.Bool() {
			j = r.Intn(n + 1)
		}
		pre := base.insertExt(i, mkExt(oidPoison, pc, []byte{0x05, 0x00})).assemble()
		fin := base.insertExt(j, mkExt(oidSCT, sc, sctVal)).assemble()
		key := fmt.Sprintf("direct i=%d/%d j=%d pre=%s fin=%s", i, n, j, h(pre), h(fin))
		cp, cf := x.opCanon(pre), x.opCanon(fin)
		if !cp || !cf {
			x.out.Fail(key, fmt.Sprintf("standard-library TBS not reproduced by unmarshal/marshal (precert %v, final %v)", cp, cf))
			continue
		}
		x.n++
		a, errA := x.opBuild(pre, nil, cp)
		b, errB := x.opRemove("sct", fin, cf)
		if errA != nil || errB != nil {
			x.out.Fail(key, fmt.Sprintf("route failed: precert %v, embedded %v", errA, errB))
			continue
		}
		if !bytes.Equal(a, b) {
			x.out.Fail(key, "routes differ: "+h(a)+" vs "+h(b))
		}
		if !bytes.Equal(a, want) {
			x.out.Fail(key, "precert route is not the spliced expectation: "+h(a)+" want "+h(want))
		}
		if d := removalDiff(pre, a, oidPoison); d != "" {
			x.out.Fail(key, "poison removal: "+d)
		}
		if d := removalDiff(fin, b, oidSCT); d != "" {
			x.out.Fail(key, "sct removal: "+d)
		}
		if i == 0 || thorough || r.Intn(3) == 0 {
			// RemoveCTPoison and the leaf builders over signed chains
			c, errC := x.opRemove("poison", pre, cp)
			if errC != nil || !bytes.Equal(c, a) {
				x.out.Fail(key, "RemoveCTPoison differs from BuildPrecertTBS(nil)")
			}
			chP := x.chainOf(pre, ca.sgn.key, ca.parsed)
			chF := x.chainOf(fin, ca.sgn.key, ca.parsed)
			if chP == nil || chF == nil {
				x.out.Fail(key, "re-assembled certificate does not parse")
				continue
			}
			lp := x.opLeafPre(pre, chP, cp)
			lf := x.opLeafEmb(fin, chF, cf)
			if lp == nil || lf == nil || !bytes.Equal(leafBytes(lp), leafBytes(lf)) || len(leafBytes(lp)) == 0 {
				x.out.Fail(key, "leaf from precert chain and leaf for embedded SCT differ")
			}
			var lr *ct.MerkleTreeLeaf
			var errR error
			if p := verifkit.Guard(func() {
				lr, errR = ct.MerkleTreeLeafFromRawChain([]ct.ASN1Cert{{Data: chP[0].Raw}, {Data: ca.der}}, ct.PrecertLogEntryType, 1234)
			}); p != "" || errR != nil || !bytes.Equal(leafBytes(lr), leafBytes(lp)) {
				x.out.Fail(key, fmt.Sprintf("MerkleTreeLeafFromRawChain differs from MerkleTreeLeafFromChain (%v %s)", errR, p))
			}
			x.derivedRoute(key, pre, fin, chP, chF, lf, cp, cf)
			// the SCT list read back from the parsed final certificate
			got := chF[0].SCTList.SCTList
			same := len(got) == len(items)
			for q := 0; same && q < len(got); q++ {
				same = bytes.Equal(got[q].Val, items[q])
			}
			if !same {
				x.out.Fail(key, "Certificate.SCTList differs from the embedded list")
			}
			if i == 0 {
				// no issuer in the chain / no chain at all: refused, never a panic
				x.opLeafPre(pre, chP[:1], cp)
				x.opLeafEmb(fin, chF[:1], cf)
				x.opLeafPre(pre, nil, cp)
				x.opLeafEmb(fin, nil, cf)
			}
			x.out.Count("class:leaf-routes")
		}
	}
	// the exactly-one rule
	b0 := base.assemble()
	c0 := x.opCanon(b0)
	if _, err := x.opRemove("poison", b0, c0); err == nil && c0 {
		x.out.Fail("absent "+h(b0), "poison removed from a TBS without poison")
	}
	if _, err := x.opRemove("sct", b0, c0); err == nil && c0 {
		x.out.Fail("absent "+h(b0), "SCT list removed from a TBS without one")
	}
	i1, i2 := r.Intn(n+1), r.Intn(n+2)
	two := base.insertExt(i1, mkExt(oidPoison, true, []byte{5, 0})).insertExt(i2, mkExt(oidPoison, r.Bool(), []byte{5, 0})).assemble()
	c2 := x.opCanon(two)
	if _, err := x.opBuild(two, nil, c2); err == nil && c2 {
		x.out.Fail("twice "+h(two), "poison present twice and BuildPrecertTBS succeeded")
	}
	twoS := base.insertExt(i1, mkExt(oidSCT, false, sctVal)).insertExt(i2, mkExt(oidSCT, false, []byte{4, 0})).assemble()
	c2 = x.opCanon(twoS)
	if _, err := x.opRemove("sct", twoS, c2); err == nil && c2 {
		x.out.Fail("twice "+h(twoS), "SCT list present twice and RemoveSCTList succeeded")
	}
	x.out.Count("class:absent-and-twice")
	// removing an ordinary extension by its own OID: same byte-level rule
	if n > 0 {
		k := r.Intn(n)
		oid := extOID(base.exts[k])
		in := base.assemble()
		if countExt(base.exts, oid) == 1 {
			o, err := x.opRemove(h(oid), in, c0)
			if c0 && (err != nil || removalDiff(in, o, oid) != "") {
				x.out.Fail("rm-own "+h(oid)+" "+h(in), fmt.Sprintf("err=%v diff=%s", err, removalDiff(in, o, oid)))
			}
			x.out.Count("class:remove-ordinary")
		}
	}
	if x.n%40 == 1 {
		x.out.Sample(fmt.Sprintf("direct exts=%d ca=%s tbs=%s", n, ca.sgn.name, h(want)))
	}
}

// pre-issuer: the precertificate is issued by a CT-EKU intermediate, the final certificate by the root.
func (x *runner) preIssuerCase(root, pi *authority, rootSKI, piSKI bool) {
	r := x.r
	leafKey := x.k.leafs[r.Intn(len(x.k.leafs))]
	tm := rndTemplate(r, rndSerial(r))
	tm.AuthorityKeyId = nil
	derP, err := stdx509.CreateCertificate(rand.Reader, tm, pi.tmpl, leafKey.Public(), pi.sgn.key)
	if err != nil {
		x.out.Count("gen:create-failed")
		return
	}
	derF, err := stdx509.CreateCertificate(rand.Reader, tm, root.tmpl, leafKey.Public(), root.sgn.key)
	if err != nil {
		x.out.Count("gen:create-failed")
		return
	}
	cP, _ := stdx509.ParseCertificate(derP)
	cF, _ := stdx509.ParseCertificate(derF)
	if cP == nil || cF == nil {
		x.out.Count("gen:std-parse-failed")
		return
	}
	bp, ok1 := splitTBS(cP.RawTBSCertificate)
	bf, ok2 := splitTBS(cF.RawTBSCertificate)
	if !ok1 || !ok2 {
		x.out.Fail("gen", "standard library TBS does not split")
		return
	}
	if pi.sgn.name != root.sgn.name {
		// different signature algorithms: the final certificate's signature field must be the precertificate's (RFC 6962 3.1)
		bf.setField(fSigAlg, bp.field(fSigAlg))
	}
	if r.Intn(4) == 0 {
		// nothing but the poison / the SCT list (and, where the pre-issuer has one, the authority key id the final issuer writes):
		// after the transformation the extension list is empty or holds the key id alone
		var keep [][]byte
		if k := findExt(bf.exts, oidAKI); k >= 0 && rootSKI {
			keep = [][]byte{bf.exts[k]}
		}
		bp, bf = bp.withExts(nil), bf.withExts(keep)
		piSKI = false
		x.out.Count("class:preissuer-no-other-extension")
	}
	if r.Intn(3) == 0 {
		// unique identifiers (never written by the library) on both sides: the pre-issuer edit must leave them alone
		u := [][]byte{mk(0x81, []byte{byte(r.Intn(8))}, append(r.Bytes(1+r.Intn(3)), 0))}
		if r.Bool() {
			u = append(u, mk(0x82, []byte{0}, r.Bytes(r.Intn(5))))
		}
		bp.pre = append(bp.pre, u...)
		bf.pre = append(bf.pre, u...)
		x.out.Count("class:preissuer-unique-ids")
	}
	if piSKI && rootSKI && r.Intn(2) == 0 {
		// a critical authority key id on both sides (the library never writes one): the replace case must keep the flag
		crit := func(p *parts) {
			if k := findExt(p.exts, oidAKI); k >= 0 {
				p.exts[k] = mkExt(oidAKI, true, extValue(p.exts[k]))
			}
		}
		crit(&bp)
		crit(&bf)
		x.out.Count("class:preissuer-aki-critical")
	}
	cls := fmt.Sprintf("class:preissuer-aki-pre%v-final%v", piSKI, rootSKI)
	if rootSKI {
		// the pre-issuer's own authority key id in each RFC 5280 4.2.1.1 form; the real CA writes that same value into the final certificate
		form := []string{"keyid", "full", "issuer-serial"}[r.Intn(3)]
		pi = x.akiForm(pi, root, form)
		k := findExt(bf.exts, oidAKI)
		if pi == nil || k < 0 {
			x.out.Fail("gen", "cannot rewrite the authority key id ("+form+")")
			return
		}
		var v []byte
		for _, e := range pi.parsed.Extensions {
			if e.Id.Equal(x509.OIDExtensionAuthorityKeyId) {
				v = e.Value
			}
		}
		_, crit := readCrit(bf.exts[k])
		bf.exts[k] = mkExt(oidAKI, crit, v)
		cls += "-" + form
	}
	x.out.Count(cls)
	atEnd := false
	if !piSKI && rootSKI {
		// the code appends the authority key id at the end; a final certificate agrees only if its issuer puts it there
		k := findExt(bf.exts, oidAKI)
		if k < 0 {
			x.out.Fail("gen", "final certificate without AKI although the root has a key id")
			return
		}
		aki := bf.exts[k]
		bfEnd := bf.withExts(append(append(append([][]byte{}, bf.exts[:k]...), bf.exts[k+1:]...), aki))
		if k != len(bf.exts)-1 {
			// library placement (middle of the list): recorded, the routes are expected to differ
			x.preRoutes(bp, bf, root, pi, cls+"-midlist", false)
		}
		bf, atEnd = bfEnd, true
	}
	_ = atEnd
	x.preRoutes(bp, bf, root, pi, cls, true)
	x.preVerify(bp, bf, root, pi, cls)
	if k := findExt(bp.exts, oidAKI); k >= 0 {
		// a precertificate with two authority key ids: only the first one is replaced / deleted
		dup := bp.insertExt(r.Intn(len(bp.exts)+1), mkExt(oidAKI, r.Bool(), r.Bytes(1+r.Intn(8))))
		pre := dup.insertExt(r.Intn(len(dup.exts)+1), mkExt(oidPoison, true, []byte{5, 0})).assemble()
		x.opBuild(pre, pi.parsed, x.opCanon(pre))
		x.out.Count("class:preissuer-two-akis")
	}
}

// ekuCases: who counts as a pre-issuer is decided from the KeyPurposeIds of chain[1] — by the model on the trace lines, and here by
// looking for the CT key purpose in the raw extension. The pre-issuer's extKeyUsage is rewritten with the splicer and re-signed.
func (x *runner) ekuCases(root, pi *authority) {
	r := x.r
	ctOID := []byte{0x2b, 0x06, 0x01, 0x04, 0x01, 0xd6, 0x79, 0x02, 0x04, 0x04}
	near := []byte{0x2b, 0x06, 0x01, 0x04, 0x01, 0xd6, 0x79, 0x02, 0x04, 0x05}
	prefix := []byte{0x2b, 0x06, 0x01, 0x04, 0x01, 0xd6, 0x79, 0x02, 0x04}
	server := []byte{0x2b, 0x06, 0x01, 0x05, 0x05, 0x07, 0x03, 0x01}
	anyEKU := []byte{0x55, 0x1d, 0x25, 0x00}
	forms := []struct {
		name string
		ids  [][]byte
	}{{"ct", [][]byte{ctOID}}, {"server+ct", [][]byte{server, ctOID}}, {"ct+server", [][]byte{ctOID, server}}, {"any+ct", [][]byte{anyEKU, ctOID}},
		{"near-miss", [][]byte{near}}, {"prefix", [][]byte{prefix}}, {"server", [][]byte{server}}, {"any", [][]byte{anyEKU}}, {"absent", nil},
		{"unknown+ct+unknown", [][]byte{{0x2a, 0x03}, ctOID, {0x2a, 0x04}}}}
	c, err := stdx509.ParseCertificate(pi.der)
	if err != nil {
		return
	}
	pp, ok := splitTBS(c.RawTBSCertificate)
	k := findExt(pp.exts, oidEKU)
	if !ok || k < 0 {
		x.out.Fail("gen", "pre-issuer without extKeyUsage")
		return
	}
	leafKey := x.k.leafs[r.Intn(len(x.k.leafs))]
	tm := rndTemplate(r, rndSerial(r))
	derP, err := stdx509.CreateCertificate(rand.Reader, tm, pi.tmpl, leafKey.Public(), pi.sgn.key)
	if err != nil {
		return
	}
	cP, _ := stdx509.ParseCertificate(derP)
	bp, ok := splitTBS(cP.RawTBSCertificate)
	if !ok {
		return
	}
	pre := bp.insertExt(r.Intn(len(bp.exts)+1), mkExt(oidPoison, true, []byte{5, 0})).assemble()
	for _, f := range forms {
		q := pp.clone()
		if f.ids == nil {
			q.exts = append(append([][]byte{}, pp.exts[:k]...), pp.exts[k+1:]...)
		} else {
			var ids [][]byte
			for _, id := range f.ids {
				ids = append(ids, mk(0x06, id))
			}
			q.exts[k] = mkExt(oidEKU, false, mk(0x30, ids...))
		}
		der, err := signTBS(q.assemble(), root.sgn.key)
		if err != nil {
			continue
		}
		var pc *x509.Certificate
		verifkit.Guard(func() { pc, err = x509.ParseCertificate(der) })
		if pc == nil || x509.IsFatal(err) {
			x.out.Count("class:eku-" + f.name + "-unparsable")
			continue
		}
		isPre := false
		for _, id := range f.ids {
			isPre = isPre || bytes.Equal(id, ctOID)
		}
		x.out.Count(fmt.Sprintf("class:eku-%s-preissuer=%v", f.name, isPre))
		key := "eku " + f.name + " pre=" + h(pre) + " chain1=" + h(der)
		cp := x.opCanon(pre)
		o, errB := x.opBuild(pre, pc, cp)
		if isPre != (errB == nil) {
			x.out.Fail(key, fmt.Sprintf("BuildPrecertTBS with this certificate as pre-issuer: error %v, CT key purpose present %v", errB, isPre))
		}
		ch := x.chainOf(pre, pi.sgn.key, pc, root.parsed)
		if ch == nil {
			continue
		}
		leaf := x.opLeafPre(pre, ch, cp)
		if leaf == nil {
			x.out.Fail(key, "no leaf")
			continue
		}
		pe := leaf.TimestampedEntry.PrecertEntry
		wantKey, wantIssuer := sha256.Sum256(pc.RawSubjectPublicKeyInfo), bp.field(fIssuer)
		if isPre {
			wantKey, wantIssuer = sha256.Sum256(root.parsed.RawSubjectPublicKeyInfo), pc.RawIssuer
			if errB == nil && !bytes.Equal(o, pe.TBSCertificate) {
				x.out.Fail(key, "leaf TBS differs from BuildPrecertTBS with the pre-issuer")
			}
		}
		po, ok := splitTBS(pe.TBSCertificate)
		if !ok || pe.IssuerKeyHash != wantKey || !bytes.Equal(po.field(fIssuer), wantIssuer) {
			x.out.Fail(key, fmt.Sprintf("pre-issuer detection: CT key purpose present %v, but issuer / issuer key hash of the entry say otherwise", isPre))
		}
	}
}

// preVerify: pre-issuer layout of "an embedded SCT verifies exactly when the log signed that precertificate" — the log signs the entry built from
// [precert, preIssuer, issuer]; that SCT, embedded in the final certificate issued by the issuer, must verify through ctutil.VerifySCT(embedded).
func (x *runner) preVerify(bp, bf parts, root, pi *authority, cls string) {
	r := x.r
	pre := bp.insertExt(r.Intn(len(bp.exts)+1), mkExt(oidPoison, true, []byte{5, 0})).assemble()
	chP := x.chainOf(pre, pi.sgn.key, pi.parsed, root.parsed)
	if chP == nil {
		x.out.Fail("pre-verify "+h(pre), "precertificate does not parse")
		return
	}
	leaf, err := ct.MerkleTreeLeafFromChain(chP, ct.PrecertLogEntryType, 4242)
	if err != nil {
		x.out.Fail("pre-verify "+h(pre), "no leaf: "+err.Error())
		return
	}
	pub, _ := stdx509.MarshalPKIXPublicKey(x.k.log.Public())
	sct := ct.SignedCertificateTimestamp{SCTVersion: ct.V1, LogID: ct.LogID{KeyID: sha256.Sum256(pub)}, Timestamp: 4242}
	in, err := ct.SerializeSCTSignatureInput(sct, ct.LogEntry{Leaf: *leaf})
	if err != nil {
		x.out.Fail("pre-verify "+h(pre), "no signature input: "+err.Error())
		return
	}
	ds, err := tls.CreateSignature(*x.k.log, tls.SHA256, in)
	if err != nil {
		return
	}
	sct.Signature = ct.DigitallySigned(ds)
	sctBytes, _ := tls.Marshal(sct)
	val, err := sctListValue([][]byte{sctBytes})
	if err != nil {
		return
	}
	fin := bf.insertExt(r.Intn(len(bf.exts)+1), mkExt(oidSCT, false, val)).assemble()
	chF := x.chainOf(fin, root.sgn.key, root.parsed)
	if chF == nil {
		x.out.Fail("pre-verify "+h(fin), "final certificate does not parse")
		return
	}
	key := strings.TrimPrefix(cls, "class:") + " verify pre=" + h(pre) + " fin=" + h(fin) + " preissuer=" + h(pi.der)
	if err := ctutil.VerifySCT(x.k.log.Public(), chF, &sct, true); err != nil {
		x.out.Fail(key, "the SCT the log signed over the pre-issuer precertificate entry does not verify on the final certificate: "+err.Error())
	}
	h1, e1 := ctutil.LeafHash(chP, &sct, false)
	h2, e2 := ctutil.LeafHash(chF, &sct, true)
	if e1 != nil || e2 != nil || h1 != h2 {
		x.out.Fail(key, "LeafHash differs between the pre-issuer precertificate chain and the embedded route")
	}
	x.out.Count("class:preissuer-verify-embedded")
}

// derivedRoute: the entry points that DERIVE the entry type from the certificate (ctutil.LeafHash / createLeaf with embedded=false, through
// Certificate.IsPrecertificate) must land on the same entry as the embedded route — whether the poison is critical or not, and also after
// a caller has cleared the poison from UnhandledCriticalExtensions (scanner/matcher.go and trillian/integration do before verifying).
// IsPrecertificate itself is compared with the independent classification "the TBS carries extension 1.3.6.1.4.1.11129.2.4.3".
func (x *runner) derivedRoute(key string, pre, fin []byte, chP, chF []*x509.Certificate, lf *ct.MerkleTreeLeaf, cp, cf bool) {
	if lf == nil || len(chP) == 0 || len(chF) == 0 {
		return
	}
	want, err := ct.LeafHashForLeaf(lf)
	if err != nil {
		return
	}
	sct := &ct.SignedCertificateTimestamp{SCTVersion: ct.V1, Timestamp: 1234}
	hasPoison := func(tbs []byte) bool {
		p, ok := splitTBS(tbs)
		return ok && countExt(p.exts, oidPoison) > 0
	}
	for _, cleared := range []bool{false, true} {
		c0 := *chP[0]
		if cleared {
			c0.UnhandledCriticalExtensions = nil
		}
		state := fmt.Sprintf("(poison critical=%v, UnhandledCriticalExtensions cleared=%v)", len(chP[0].UnhandledCriticalExtensions) > 0, cleared)
		var isP bool
		if p := verifkit.Guard(func() { isP = c0.IsPrecertificate() }); p != "" || isP != hasPoison(pre) {
			x.out.Fail(key, fmt.Sprintf("IsPrecertificate = %v for a certificate whose TBS carries the CT poison %s %s", isP, state, p))
		}
		if !cleared {
			x.out.T("isprecert "+h(pre), verifkit.B(isP))
		}
		chain := append([]*x509.Certificate{&c0}, chP[1:]...)
		var got [32]byte
		var errH error
		if p := verifkit.Guard(func() { got, errH = ctutil.LeafHash(chain, sct, false) }); p != "" || errH != nil || got != want {
			x.out.Fail(key, fmt.Sprintf("ctutil.LeafHash(precert chain, embedded=false) differs from the leaf hash of the embedded route %s: %v %s", state, errH, p))
		}
	}
	var isF bool
	verifkit.Guard(func() { isF = chF[0].IsPrecertificate() })
	if isF != hasPoison(fin) {
		x.out.Fail(key, fmt.Sprintf("IsPrecertificate = %v for the final certificate", isF))
	}
	x.out.T("isprecert "+h(fin), verifkit.B(isF))
	x.out.Count("class:derived-entry-type-routes")
}

// readCrit reports whether a raw Extension carries critical TRUE.
func readCrit(raw []byte) ([]byte, bool) {
	_, v, _, _, _ := readTLV(raw)
	fs, _ := splitAll(v)
	return raw, len(fs) == 3 && bytes.Equal(fs[1], []byte{1, 1, 0xff})
}

// akiForm returns the pre-issuer with its authorityKeyIdentifier extension rewritten into the given form and re-signed by the root:
// "keyid" (as issued), "full" = keyIdentifier + authorityCertIssuer + authorityCertSerialNumber, "issuer-serial" = the latter two only.
func (x *runner) akiForm(pi, root *authority, form string) *authority {
	if form == "keyid" {
		return pi
	}
	key := fmt.Sprintf("%p/%s", pi, form)
	if x.akiCache == nil {
		x.akiCache = map[string]*authority{}
	}
	if a, ok := x.akiCache[key]; ok {
		return a
	}
	c, err := stdx509.ParseCertificate(pi.der)
	if err != nil {
		return nil
	}
	p, ok := splitTBS(c.RawTBSCertificate)
	k := findExt(p.exts, oidAKI)
	if !ok || k < 0 {
		return nil
	}
	_, akiSeq, _, _, _ := readTLV(extValue(p.exts[k]))
	kid, _ := splitAll(akiSeq) // [0] keyIdentifier as written by the library
	rc, _ := stdx509.ParseCertificate(root.der)
	issuer := mk(0xa1, mk(0xa4, rc.RawSubject))
	sb := rc.SerialNumber.Bytes()
	if len(sb) == 0 || sb[0]&0x80 != 0 {
		sb = append([]byte{0}, sb...)
	}
	serial := mk(0x82, sb)
	var val []byte
	if form == "full" {
		val = mk(0x30, kid[0], issuer, serial)
	} else {
		val = mk(0x30, issuer, serial)
	}
	q := p.clone()
	q.exts[k] = mkExt(oidAKI, false, val)
	der, err := signTBS(q.assemble(), root.sgn.key)
	if err != nil {
		return nil
	}
	a := *pi
	a.der = der
	a.parsed, err = x509.ParseCertificate(der)
	if a.parsed == nil || x509.IsFatal(err) {
		return nil
	}
	x.akiCache[key] = &a
	return &a
}

func (x *runner) preRoutes(bp, bf parts, root, pi *authority, cls string, expectEqual bool) {
	r := x.r
	items := rndSCTItems(r)
	sctVal, _ := sctListValue(items)
	np, nf := len(bp.exts), len(bf.exts)
	positions := []int{0, np}
	if np > 1 {
		positions = append(positions, 1+r.Intn(np-1))
	}
	for _, i := range positions {
		j := r.Intn(nf + 1)
		if !expectEqual {
			j = nf // keep the appended-AKI comparison about the AKI alone
		}
		pre := bp.insertExt(i, mkExt(oidPoison, true, []byte{5, 0})).assemble()
		fin := bf.insertExt(j, mkExt(oidSCT, false, sctVal)).assemble()
		key := fmt.Sprintf("%s i=%d j=%d pre=%s fin=%s issuer=%s", strings.TrimPrefix(cls, "class:"), i, j, h(pre), h(fin), h(pi.der))
		cp, cf := x.opCanon(pre), x.opCanon(fin)
		if !cp || !cf {
			x.out.Fail(key, "standard-library TBS not reproduced by unmarshal/marshal")
			continue
		}
		x.n++
		a, errA := x.opBuild(pre, pi.parsed, cp)
		b, errB := x.opRemove("sct", fin, cf)
		if errA != nil || errB != nil {
			x.out.Fail(key, fmt.Sprintf("route failed: precert %v, embedded %v", errA, errB))
			continue
		}
		if !expectEqual {
			// precertificate without AKI, final certificate with the library's AKI placement: the code appends the key id at the end, so the
			// routes differ (the property states this case under the hypothesis `AkiRel.append`). What must still hold: the ONLY difference is
			// where the authority key id sits — same fields, same other extensions in the same order, same AKI extension bytes.
			if bytes.Equal(a, b) {
				x.out.Count("class:aki-midlist-yet-equal")
				continue
			}
			x.out.Count("class:aki-appended-vs-library-placement(hypothesis of routes_commute_preissuer not met)")
			pa, okA := splitTBS(a)
			pb, okB := splitTBS(b)
			ka, kb := -1, -1
			if okA && okB {
				ka, kb = findExt(pa.exts, oidAKI), findExt(pb.exts, oidAKI)
			}
			if !okA || !okB || ka != len(pa.exts)-1 || kb < 0 || !bytes.Equal(bytes.Join(pa.pre, nil), bytes.Join(pb.pre, nil)) ||
				!bytes.Equal(pa.exts[ka], pb.exts[kb]) ||
				!bytes.Equal(bytes.Join(pa.exts[:ka], nil), bytes.Join(append(append([][]byte{}, pb.exts[:kb]...), pb.exts[kb+1:]...), nil)) {
				x.out.Fail(key, "routes differ in more than the position of the authority key id: "+h(a)+" vs "+h(b))
			}
			continue
		}
		if !bytes.Equal(a, b) {
			x.out.Fail(key, "routes differ: "+h(a)+" vs "+h(b))
			continue
		}
		// issuer and key id are the pre-issuer's own issuer's; everything else is the precertificate's
		pa, ok := splitTBS(a)
		if !ok || !bytes.Equal(pa.field(fIssuer), pi.parsed.RawIssuer) {
			x.out.Fail(key, "issuer of the result is not the pre-issuer's issuer")
		}
		chP := x.chainOf(pre, pi.sgn.key, pi.parsed, root.parsed)
		chF := x.chainOf(fin, root.sgn.key, root.parsed)
		if chP == nil || chF == nil {
			x.out.Fail(key, "re-assembled certificate does not parse")
			continue
		}
		lp := x.opLeafPre(pre, chP, cp)
		lf := x.opLeafEmb(fin, chF, cf)
		if lp == nil || lf == nil || !bytes.Equal(leafBytes(lp), leafBytes(lf)) || len(leafBytes(lp)) == 0 {
			x.out.Fail(key, "leaf from pre-issuer chain and leaf for embedded SCT differ")
		}
		x.derivedRoute(key, pre, fin, chP, chF, lf, cp, cf)
		// the raw-chain entry point on exactly [precert, preIssuer, issuer] and with one more certificate behind it
		for _, extra := range [][]ct.ASN1Cert{nil, {{Data: root.der}}, {{Data: root.der}, {Data: root.der}}} {
			raw := append([]ct.ASN1Cert{{Data: chP[0].Raw}, {Data: pi.der}, {Data: root.der}}, extra...)
			var lr *ct.MerkleTreeLeaf
			var errR error
			if p := verifkit.Guard(func() { lr, errR = ct.MerkleTreeLeafFromRawChain(raw, ct.PrecertLogEntryType, 1234) }); p != "" || errR != nil || !bytes.Equal(leafBytes(lr), leafBytes(lf)) {
				x.out.Fail(key, fmt.Sprintf("MerkleTreeLeafFromRawChain over %d certificates (precert, pre-issuer, issuer…) differs from the embedded route: %v %s", len(raw), errR, p))
			}
		}
		x.out.Count("class:preissuer-raw-chain-3-4-5")
		// a chain that stops at the pre-issuer cannot be turned into a leaf
		x.opLeafPre(pre, chP[:2], cp)
		// without a pre-issuer argument nothing but the poison changes
		d, errD := x.opBuild(pre, nil, cp)
		if errD != nil || removalDiff(pre, d, oidPoison) != "" {
			x.out.Fail(key, "BuildPrecertTBS(nil) on a pre-issuer precertificate: "+removalDiff(pre, d, oidPoison))
		}
		// an issuer without the CT EKU is refused as pre-issuer
		if _, errE := x.opBuild(pre, root.parsed, cp); errE == nil {
			x.out.Fail(key, "certificate without CT EKU accepted as pre-issuer")
		}
	}
}

// embedded SCT verifies exactly when the log signed that precertificate (ctutil.VerifySCT / LeafHash).
func (x *runner) verifyCase(ca *authority) {
	r := x.r
	leafKey := x.k.leafs[0]
	tm := rndTemplate(r, rndSerial(r))
	der, err := stdx509.CreateCertificate(rand.Reader, tm, ca.tmpl, leafKey.Public(), ca.sgn.key)
	if err != nil {
		return
	}
	sc, _ := stdx509.ParseCertificate(der)
	base, ok := splitTBS(sc.RawTBSCertificate)
	if !ok {
		return
	}
	n := len(base.exts)
	pre := base.insertExt(r.Intn(n+1), mkExt(oidPoison, true, []byte{5, 0})).assemble()
	chP := x.chainOf(pre, ca.sgn.key, ca.parsed)
	if chP == nil {
		x.out.Fail("verify "+h(pre), "precertificate does not parse")
		return
	}
	leaf, err := ct.MerkleTreeLeafFromChain(chP, ct.PrecertLogEntryType, 777)
	if err != nil {
		x.out.Fail("verify "+h(pre), "no leaf: "+err.Error())
		return
	}
	pub, _ := stdx509.MarshalPKIXPublicKey(x.k.log.Public())
	sct := ct.SignedCertificateTimestamp{SCTVersion: ct.V1, LogID: ct.LogID{KeyID: sha256.Sum256(pub)}, Timestamp: 777}
	in, err := ct.SerializeSCTSignatureInput(sct, ct.LogEntry{Leaf: *leaf})
	if err != nil {
		x.out.Fail("verify "+h(pre), "no signature input: "+err.Error())
		return
	}
	ds, err := tls.CreateSignature(*x.k.log, tls.SHA256, in)
	if err != nil {
		x.out.Fail("verify "+h(pre), "sign: "+err.Error())
		return
	}
	sct.Signature = ct.DigitallySigned(ds)
	sctBytes, _ := tls.Marshal(sct)
	other := r.Bytes(60)
	val, err := submission.ASN1MarshalSCTs([]*submission.AssignedSCT{{SCT: &sct}})
	if err != nil {
		x.out.Fail("verify "+h(pre), "ASN1MarshalSCTs: "+err.Error())
		return
	}
	x.out.T("sctenc 1 "+h(sctBytes), "ok "+h(val))
	val2, _ := sctListValue([][]byte{other, sctBytes})
	fin := base.insertExt(r.Intn(n+1), mkExt(oidSCT, false, val2)).assemble()
	chF := x.chainOf(fin, ca.sgn.key, ca.parsed)
	if chF == nil {
		x.out.Fail("verify "+h(fin), "final certificate does not parse")
		return
	}
	key := "verify pre=" + h(pre) + " fin=" + h(fin)
	if err := ctutil.VerifySCT(x.k.log.Public(), chF, &sct, true); err != nil {
		x.out.Fail(key, "embedded SCT signed over the precertificate does not verify on the final certificate: "+err.Error())
	}
	h1, e1 := ctutil.LeafHash(chP, &sct, false)
	h2, e2 := ctutil.LeafHash(chF, &sct, true)
	if e1 != nil || e2 != nil || h1 != h2 {
		x.out.Fail(key, "LeafHash differs between precertificate and embedded route")
	}
	// a final certificate that differs from the precertificate in one extension byte must not verify
	m := base.clone()
	if n > 0 {
		k := r.Intn(n)
		e := append([]byte(nil), m.exts[k]...)
		e[len(e)-1] ^= 1
		m.exts[k] = e
		fin2 := m.insertExt(0, mkExt(oidSCT, false, val2)).assemble()
		if ch2 := x.chainOf(fin2, ca.sgn.key, ca.parsed); ch2 != nil {
			if err := ctutil.VerifySCT(x.k.log.Public(), ch2, &sct, true); err == nil {
				x.out.Fail(key, "embedded SCT verifies on a certificate that differs from the signed precertificate: "+h(fin2))
			}
		}
	}
	// an SCT that is not in the list is refused
	sct3 := sct
	sct3.Timestamp = 778
	if err := ctutil.VerifySCT(x.k.log.Public(), chF, &sct3, true); err == nil {
		x.out.Fail(key, "SCT that is not embedded accepted as embedded")
	}
	if _, err := ctutil.LeafHash(chF, &sct3, true); err == nil {
		x.out.Fail(key, "LeafHash(embedded) computed for an SCT that is not in the certificate")
	}
	sct3Bytes, _ := tls.Marshal(sct3)
	if v2, err := submission.ASN1MarshalSCTs([]*submission.AssignedSCT{{SCT: &sct3}, {SCT: &sct}}); err != nil {
		x.out.Fail(key, "ASN1MarshalSCTs of two SCTs: "+err.Error())
	} else {
		x.out.T("sctenc 2 "+h(sct3Bytes)+" "+h(sctBytes), "ok "+h(v2))
		x.sctDec(ca, base, v2, [][]byte{sct3Bytes, sctBytes})
	}
	// x509util round trip of the parsed list
	got, err := x509util.ParseSCTsFromSCTList(&x509.SignedCertificateTimestampList{SCTList: chF[0].SCTList.SCTList[1:]})
	if err != nil || len(got) != 1 {
		x.out.Fail(key, fmt.Sprintf("ParseSCTsFromSCTList: %v", err))
	} else {
		back, err := x509util.MarshalSCTsIntoSCTList(got)
		if err != nil || len(back.SCTList) != 1 || !bytes.Equal(back.SCTList[0].Val, sctBytes) {
			x.out.Fail(key, "MarshalSCTsIntoSCTList(ParseSCTsFromSCTList(l)) differs from l")
		}
	}
	x.out.Count("class:verify-embedded")
}

// the SCT list codec on its own: marshal, embed, parse the certificate, read back.
func (x *runner) sctListCase(ca *authority, base parts, items [][]byte, label string) {
	val, err := sctListValue(items)
	a := "err"
	if err == nil {
		a = "ok " + h(val)
	}
	x.out.T("sctenc "+itemsTokens(items), a)
	x.out.Count("class:sctlist-" + label)
	if err != nil {
		return
	}
	x.sctDec(ca, base, val, items)
}

// sctDec embeds an extension value, parses the certificate with the repository's parser and reports Certificate.SCTList.
func (x *runner) sctDec(ca *authority, base parts, val []byte, embedded [][]byte) {
	fin := base.insertExt(len(base.exts), mkExt(oidSCT, false, val)).assemble()
	der, err := signTBS(fin, ca.sgn.key)
	if err != nil {
		return
	}
	var c *x509.Certificate
	p := verifkit.Guard(func() { c, err = x509.ParseCertificate(der) })
	a := "err-nonfatal" // an unreadable SCT list is recorded as a NonFatalError: the certificate is still returned
	if err != nil && (c == nil || x509.IsFatal(err)) {
		a = "err-fatal"
	}
	if p != "" {
		a = "panic"
		x.out.Fail("sctdec "+h(val), "panic: "+p)
	} else if err == nil && c != nil {
		a = "ok " + fmt.Sprint(len(c.SCTList.SCTList))
		for _, s := range c.SCTList.SCTList {
			a += " " + h(s.Val)
		}
		if embedded != nil {
			same := len(embedded) == len(c.SCTList.SCTList)
			for q := 0; same && q < len(embedded); q++ {
				same = bytes.Equal(embedded[q], c.SCTList.SCTList[q].Val)
			}
			if !same {
				x.out.Fail("sctdec "+h(val), "SCT list read back differs from the embedded list")
			}
		}
	} else if embedded != nil {
		x.out.Fail("sctdec "+h(val), fmt.Sprintf("marshalled SCT list does not read back: %v", err))
	}
	x.out.T("sctdec "+h(val), a)
}

func TestVerifC03(t *testing.T) {
	out := verifkit.Open()
	defer out.Close()
	r := verifkit.NewRand(verifkit.Seed())
	x := &runner{t: t, out: out, r: r, k: newKeyring(t, r)}
	thorough := verifkit.Thorough()

	// authorities: for every signing key type a root with / without key id, and pre-issuers under them with / without key id
	type fam struct {
		root [2]*authority    // [withSKI]
		pi   [2][2]*authority // [rootSKI][piSKI]
		noEK *authority
	}
	var fams []fam
	b2i := func(b bool) int {
		if b {
			return 1
		}
		return 0
	}
	for ci, sg := range x.k.cas {
		var f fam
		for _, rs := range []bool{false, true} {
			f.root[b2i(rs)] = mkAuthority(t, r, "root", sg, nil, rs, false)
			for _, ps := range []bool{false, true} {
				psg := x.k.pis[ci] // its own key; under the RSA root a pre-issuer with another key type
				f.pi[b2i(rs)][b2i(ps)] = mkAuthority(t, r, "preissuer", psg, f.root[b2i(rs)], ps, true)
			}
		}
		fams = append(fams, f)
	}

	nDirect := verifkit.N(150, 4000)
	for i := 0; i < nDirect; i++ {
		f := fams[[]int{0, 0, 0, 1, 2}[r.Intn(5)]]
		x.directCase(f.root[r.Intn(2)], thorough)
	}
	nPre := verifkit.N(48, 1000)
	for i := 0; i < nPre; i++ {
		f := fams[[]int{0, 0, 1, 2}[r.Intn(4)]]
		rs, ps := i%2 == 0, (i/2)%2 == 0
		x.preIssuerCase(f.root[b2i(rs)], f.pi[b2i(rs)][b2i(ps)], rs, ps)
	}
	for i, n := 0, verifkit.N(3, 30); i < n; i++ {
		f := fams[i%len(fams)]
		x.ekuCases(f.root[1], f.pi[1][i%2])
	}
	for i, n := 0, verifkit.N(6, 60); i < n; i++ {
		x.verifyCase(fams[0].root[i%2])
	}

	// SCT lists on their own
	ca := fams[0].root[1]
	tm := rndTemplate(r, big.NewInt(77))
	der, err := stdx509.CreateCertificate(rand.Reader, tm, ca.tmpl, x.k.leafs[0].Public(), ca.sgn.key)
	if err != nil {
		t.Fatal(err)
	}
	sc, _ := stdx509.ParseCertificate(der)
	base, _ := splitTBS(sc.RawTBSCertificate)
	for i, n := 0, verifkit.N(30, 300); i < n; i++ {
		x.sctListCase(ca, base, rndSCTItems(r), "random")
	}
	x.sctListCase(ca, base, [][]byte{}, "empty-list")
	x.sctListCase(ca, base, [][]byte{{}}, "empty-item")
	x.sctListCase(ca, base, [][]byte{{1}, {}}, "empty-item")
	x.sctListCase(ca, base, [][]byte{r.Bytes(65535)}, "item-65535")
	x.sctListCase(ca, base, [][]byte{r.Bytes(65333)}, "total-65335")
	x.sctListCase(ca, base, [][]byte{r.Bytes(65334)}, "total-65336")
	x.sctListCase(ca, base, [][]byte{r.Bytes(30000), r.Bytes(35331)}, "total-65335")
	x.sctListCase(ca, base, [][]byte{r.Bytes(30000), r.Bytes(35332)}, "total-65336")
	x.sctListCase(ca, base, [][]byte{r.Bytes(65533)}, "total-65535")
	// a list that RFC 6962 3.3 allows (total <= 2^16-1) embedded by hand, not through the repository's marshaller
	for _, total := range []int{65335, 65336, 65400, 65535} {
		item := r.Bytes(total - 2)
		val := mk(0x04, []byte{byte(total >> 8), byte(total)}, []byte{byte((total - 2) >> 8), byte(total - 2)}, item)
		fin := base.insertExt(len(base.exts), mkExt(oidSCT, false, val)).assemble()
		der, err := signTBS(fin, ca.sgn.key)
		if err != nil {
			t.Fatal(err)
		}
		c, err := x509.ParseCertificate(der)
		if c == nil || len(c.SCTList.SCTList) != 1 || !bytes.Equal(c.SCTList.SCTList[0].Val, item) {
			x.out.Fail(fmt.Sprintf("sctlist-rfc-valid total=%d", total), fmt.Sprintf("an SCT list of %d bytes (allowed by RFC 6962 3.3: <1..2^16-1>) embedded in a certificate is not read back into Certificate.SCTList: %v", total, err))
		}
		x.sctDec(ca, base, val, nil)
		x.out.Count("class:sctlist-rfc-valid-by-hand")
	}
	// malformed extension values
	good, _ := sctListValue([][]byte{{1, 2, 3}, {4, 5}})
	bad := [][]byte{
		good[:len(good)-1], append(append([]byte{}, good...), 0),
		mk(0x04, []byte{0, 5, 0, 3, 1, 2, 3}), mk(0x04, []byte{0, 4, 0, 3, 1, 2, 3}), mk(0x04, []byte{0, 6, 0, 3, 1, 2, 3}),
		mk(0x04, []byte{0, 5, 0, 3, 1, 2, 3, 9}), mk(0x04, []byte{0, 5, 0, 4, 1, 2, 3}), mk(0x04, []byte{0, 2, 0, 0}), mk(0x04, []byte{0, 0}),
		mk(0x04, []byte{0}), mk(0x04, nil), mk(0x05, nil), mk(0x24, []byte{0, 3, 0, 1, 7}), mk(0x04, []byte{0, 3, 0, 1, 7}),
		mk(0x04, []byte{0, 6, 0, 1, 7, 0, 1, 8}), mk(0x04, []byte{0, 5, 0, 1, 7, 0, 1}), {0x04, 0x81, 0x05, 0, 3, 0, 1, 7},
	}
	for _, v := range bad {
		x.sctDec(ca, base, v, nil)
		x.out.Count("class:sctlist-malformed")
	}

	// non-canonical and malformed TBSCertificates
	for i, n := 0, verifkit.N(8, 80); i < n; i++ {
		x.variantCases(fams[i%3].root[i%2])
	}
	x.lengthBoundaries(fams[0].root[1])
	for i, n := 0, verifkit.N(3, 20); i < n; i++ {
		x.fuzzCases(fams[i%3].root[i%2], verifkit.N(300, 1000))
	}
	x.leanExamples()
	out.Add("cases:route-pairs", int64(x.n))
}

// leanExamples replays the concrete TBSCertificates of the non-vacuity examples in lean/CTV/Props/C03.lean on the real code.
func (x *runner) leanExamples() {
	unhex := func(s string) []byte { b, _ := hex.DecodeString(s); return b }
	base, ok := splitTBS(unhex("303fa003020102020105300506032b65703000301e170d3330303130313030303030305a170d3439313233313233353935395a3000300a300506032b6570030100"))
	if !ok {
		x.out.Fail("lean-examples", "base does not split")
		return
	}
	ku := mkExt([]byte{0x55, 0x1d, 0x0f}, true, []byte{3, 2, 7, 0x80})
	aki := mkExt(oidAKI, false, []byte{0x30, 3, 0x80, 1, 7})
	poison := mkExt(oidPoison, true, []byte{5, 0})
	sct := mkExt(oidSCT, false, []byte{4, 6, 0, 4, 0, 2, 0xaa, 0xbb})
	for _, e := range [][][]byte{{ku, poison}, {poison, ku, poison}, {poison}, {}, {poison, ku}, {ku, sct}, {ku, aki, poison}, {aki, poison}} {
		tbs := base.withExts(e).assemble()
		c := x.opCanon(tbs)
		x.opBuild(tbs, nil, c)
		x.opRemove("sct", tbs, c)
		x.out.Count("class:lean-example")
	}
	c := x.opCanon(base.assemble())
	x.opBuild(base.assemble(), nil, c)
}

// lengthBoundaries sweeps the size of one filler extension so that each of the three enclosing lengths (extension SEQUENCE,
// [3] wrapper, outer SEQUENCE) crosses 127/128, 255/256 and 65535/65536 between input and output of the removal.
func (x *runner) lengthBoundaries(ca *authority) {
	r := x.r
	tm := &stdx509.Certificate{SerialNumber: big.NewInt(9), Subject: stdpkix.Name{CommonName: "b"}, NotBefore: time.Date(2020, 1, 1, 0, 0, 0, 0, time.UTC), NotAfter: time.Date(2030, 1, 1, 0, 0, 0, 0, time.UTC)}
	der, err := stdx509.CreateCertificate(rand.Reader, tm, ca.tmpl, x.k.leafs[2].Public(), ca.sgn.key) // Ed25519: small key
	if err != nil {
		x.out.Count("gen:create-failed")
		return
	}
	sc, _ := stdx509.ParseCertificate(der)
	base, ok := splitTBS(sc.RawTBSCertificate)
	if !ok {
		return
	}
	base.exts, base.hasExts = nil, false
	sizes := []int{}
	for n := 0; n <= 300; n++ {
		sizes = append(sizes, n)
	}
	for n := 65536 - 400; n <= 65536+40; n += 17 {
		sizes = append(sizes, n)
	}
	if verifkit.Thorough() {
		for n := 65536 - 400; n <= 65536+40; n++ {
			sizes = append(sizes, n)
		}
	}
	sctVal, _ := sctListValue([][]byte{{1, 2, 3}})
	for _, n := range sizes {
		filler := mkExt([]byte{0x2a, 0x03, 0x04}, false, bytes.Repeat([]byte{byte(n)}, n))
		b := base.withExts([][]byte{filler})
		want := b.assemble()
		i := r.Intn(2)
		pre := b.insertExt(i, mkExt(oidPoison, true, []byte{5, 0})).assemble()
		fin := b.insertExt(1-i, mkExt(oidSCT, false, sctVal)).assemble()
		key := fmt.Sprintf("length-boundary filler=%d pre=%s", n, h(pre))
		if n > 1000 {
			key = fmt.Sprintf("length-boundary filler=%d", n)
		}
		cp, cf := x.opCanon(pre), x.opCanon(fin)
		a, errA := x.opBuild(pre, nil, cp)
		c, errC := x.opRemove("sct", fin, cf)
		if !cp || !cf || errA != nil || errC != nil {
			x.out.Fail(key, fmt.Sprintf("canonical %v %v, errors %v %v", cp, cf, errA, errC))
			continue
		}
		if !bytes.Equal(a, want) || !bytes.Equal(c, want) {
			x.out.Fail(key, "result is not the spliced expectation")
		}
		_, wv, _, _, _ := readTLV(want)
		_, pv, _, _, _ := readTLV(pre)
		x.out.Count(fmt.Sprintf("class:length-boundary outer-lenbytes %d->%d", len(derLen(len(pv))), len(derLen(len(wv)))))
	}
}
