//go:build verif

package x509

// C11 harness. Real code in-process:
//   (a) structure-preserving mutations of generated and testdata certificates, CRLs, keys and CSRs through all
//       twelve entry points: totality (a panic is an output class), (object, error-class) coherence via IsFatal,
//       raw fields being true sub-slices of the input; envelope and wrapper outcomes replayed on the Lean model;
//   (b) certificates issued by crypto/x509.CreateCertificate from random templates over every extension the
//       fork interprets, parsed by the fork and by crypto/x509 and compared field by field (correspondence-only);
//   (c) ParseCertificates on concatenations against ParseCertificate on the pieces (concatenation law).

import (
	"bytes"
	"crypto/ecdsa"
	"crypto/ed25519"
	"crypto/elliptic"
	"crypto/rsa"
	stdx509 "crypto/x509"
	stdasn1 "encoding/asn1"
	stdpkix "crypto/x509/pkix"
	"encoding/base64"
	"encoding/pem"
	"fmt"
	"math/big"
	"net"
	"net/url"
	"os"
	"path/filepath"
	"reflect"
	"sort"
	"strings"
	"testing"
	"time"

	"github.com/google/certificate-transparency-go/asn1"
	"github.com/google/certificate-transparency-go/internal/verifkit"
	"github.com/google/certificate-transparency-go/x509/pkix"
)

// ---------------------------------------------------------------- DER tree for structure-preserving mutations

type c11Node struct {
	id      []byte // identifier octets
	kids    []*c11Node
	content []byte // primitive content (kids == nil and !wrap)
	cons    bool   // constructed bit
	wrap    int    // 0 plain; 1 OCTET STRING holding DER; 2 BIT STRING (00 prefix) holding DER
}

func c11ReadHeader(b []byte) (idLen, hdrLen, length int, ok bool) {
	if len(b) < 2 {
		return
	}
	i := 1
	if b[0]&0x1f == 0x1f {
		for i < len(b) && b[i]&0x80 != 0 {
			i++
		}
		i++
		if i >= len(b) {
			return
		}
	}
	idLen = i
	l := int(b[i])
	i++
	if l&0x80 != 0 {
		n := l & 0x7f
		if n == 0 || n > 3 || i+n > len(b) {
			return
		}
		l = 0
		for k := 0; k < n; k++ {
			l = l<<8 | int(b[i+k])
		}
		i += n
	}
	if i+l > len(b) {
		return
	}
	return idLen, i, l, true
}

func c11ParseSeq(b []byte, depth int) ([]*c11Node, bool) {
	var out []*c11Node
	for len(b) > 0 {
		idLen, hl, l, ok := c11ReadHeader(b)
		if !ok {
			return nil, false
		}
		n := &c11Node{id: append([]byte(nil), b[:idLen]...), cons: b[0]&0x20 != 0}
		body := b[hl : hl+l]
		switch {
		case n.cons && depth > 0:
			kids, ok := c11ParseSeq(body, depth-1)
			if ok {
				n.kids = kids
				if kids == nil {
					n.kids = []*c11Node{}
				}
			} else {
				n.content = append([]byte(nil), body...)
			}
		case b[0] == 0x04 && depth > 0 && len(body) > 1:
			if kids, ok := c11ParseSeq(body, depth-1); ok && len(kids) > 0 {
				n.kids, n.wrap = kids, 1
			} else {
				n.content = append([]byte(nil), body...)
			}
		case b[0] == 0x03 && depth > 0 && len(body) > 2 && body[0] == 0 && body[1] == 0x30:
			if kids, ok := c11ParseSeq(body[1:], depth-1); ok && len(kids) > 0 {
				n.kids, n.wrap = kids, 2
			} else {
				n.content = append([]byte(nil), body...)
			}
		default:
			n.content = append([]byte(nil), body...)
		}
		out = append(out, n)
		b = b[hl+l:]
	}
	return out, true
}

func c11EncLen(l int) []byte {
	switch {
	case l < 128:
		return []byte{byte(l)}
	case l < 256:
		return []byte{0x81, byte(l)}
	case l < 65536:
		return []byte{0x82, byte(l >> 8), byte(l)}
	}
	return []byte{0x83, byte(l >> 16), byte(l >> 8), byte(l)}
}

func (n *c11Node) encode() []byte {
	body := n.content
	if n.kids != nil {
		body = nil
		if n.wrap == 2 {
			body = []byte{0}
		}
		for _, k := range n.kids {
			body = append(body, k.encode()...)
		}
	}
	out := append([]byte(nil), n.id...)
	out = append(out, c11EncLen(len(body))...)
	return append(out, body...)
}

func c11Collect(ns []*c11Node, parent *c11Node, out *[]c11Ref) {
	for i, n := range ns {
		*out = append(*out, c11Ref{n, parent, i})
		if n.kids != nil {
			c11Collect(n.kids, n, out)
		}
	}
}

type c11Ref struct {
	n      *c11Node
	parent *c11Node
	idx    int
}

// OID arcs of a content octet string (nil if it is not a well-formed OID content)
func c11OIDArcs(c []byte) []int {
	var vals []int
	v, n := 0, 0
	for _, b := range c {
		if n == 0 && b == 0x80 || n > 3 {
			return nil
		}
		v = v<<7 | int(b&0x7f)
		n++
		if b&0x80 == 0 {
			vals = append(vals, v)
			v, n = 0, 0
		}
	}
	if n != 0 || len(vals) == 0 {
		return nil
	}
	first := vals[0]
	switch {
	case first < 40:
		return append([]int{0, first}, vals[1:]...)
	case first < 80:
		return append([]int{1, first - 40}, vals[1:]...)
	}
	return append([]int{2, first - 80}, vals[1:]...)
}

func c11OIDContent(arcs []int) []byte {
	if len(arcs) < 2 || arcs[0] < 0 || arcs[0] > 2 || arcs[1] < 0 || (arcs[0] < 2 && arcs[1] >= 40) {
		return nil
	}
	enc := func(v int) []byte {
		o := []byte{byte(v & 0x7f)}
		for v >>= 7; v > 0; v >>= 7 {
			o = append([]byte{byte(v&0x7f) | 0x80}, o...)
		}
		return o
	}
	out := enc(arcs[0]*40 + arcs[1])
	for _, a := range arcs[2:] {
		if a < 0 {
			return nil
		}
		out = append(out, enc(a)...)
	}
	return out
}

// identifiers that exactly one of the two parsers interprets on purpose (the fork: SubjectInfoAccess, embedded SCT list, RPKI address
// and AS blocks; crypto/x509 of go1.24: policy mappings, policy constraints, inhibitAnyPolicy): a neighbour that happens to BE one of
// them is outside what the differential can judge and is not generated
var c11OneSided = map[string]bool{fmt.Sprint([]int{1, 3, 6, 1, 5, 5, 7, 1, 11}): true, fmt.Sprint([]int{1, 3, 6, 1, 4, 1, 11129, 2, 4, 2}): true,
	fmt.Sprint([]int{1, 3, 6, 1, 5, 5, 7, 1, 7}): true, fmt.Sprint([]int{1, 3, 6, 1, 5, 5, 7, 1, 8}): true,
	fmt.Sprint([]int{2, 5, 29, 33}): true, fmt.Sprint([]int{2, 5, 29, 36}): true, fmt.Sprint([]int{2, 5, 29, 54}): true}

// c11OIDNearMisses: the certificate with ONE object identifier turned into a neighbour — one arc (the first included) changed
// by one, an arc appended, or the last arc dropped; everything else (values, criticality, order, signature octets) untouched and
// the enclosing lengths recomputed. Returns every such variant of up to `max` randomly chosen OIDs of the certificate.
func c11OIDNearMisses(r *verifkit.Rand, der []byte, max int) (out [][]byte, what []string) {
	roots, ok := c11ParseSeq(der, 12)
	if !ok || len(roots) == 0 {
		return nil, nil
	}
	top := &c11Node{kids: roots}
	var refs, oids []c11Ref
	c11Collect(top.kids, top, &refs)
	for _, x := range refs {
		if len(x.n.id) == 1 && x.n.id[0] == 0x06 && x.n.kids == nil && c11OIDArcs(x.n.content) != nil {
			oids = append(oids, x)
		}
	}
	for k := 0; k < max && len(oids) > 0; k++ {
		i := r.Intn(len(oids))
		pick := oids[i]
		oids = append(oids[:i], oids[i+1:]...)
		orig := pick.n.content
		arcs := c11OIDArcs(orig)
		var variants [][]int
		for pos := range arcs {
			for _, d := range []int{-1, 1} {
				v := append([]int(nil), arcs...)
				v[pos] += d
				variants = append(variants, v)
			}
		}
		variants = append(variants, append(append([]int(nil), arcs...), 1), append(append([]int(nil), arcs...), 0))
		if len(arcs) > 2 {
			variants = append(variants, append([]int(nil), arcs[:len(arcs)-1]...))
		}
		for _, v := range variants {
			c := c11OIDContent(v)
			if c == nil || c11OneSided[fmt.Sprint(v)] {
				continue
			}
			pick.n.content = c
			var b []byte
			for _, n := range top.kids {
				b = append(b, n.encode()...)
			}
			out = append(out, b)
			what = append(what, fmt.Sprint(arcs)+"->"+fmt.Sprint(v))
		}
		pick.n.content = orig
	}
	return out, what
}

// c11Mutate applies one or two structure-preserving mutations (lengths of all enclosing elements are recomputed).
func c11Mutate(r *verifkit.Rand, der []byte) ([]byte, string) {
	roots, ok := c11ParseSeq(der, 12)
	if !ok || len(roots) == 0 {
		b := append([]byte(nil), der...)
		if len(b) > 0 {
			b[r.Intn(len(b))] ^= byte(1 << uint(r.Intn(8)))
		}
		return b, "bitflip"
	}
	top := &c11Node{kids: roots}
	what := ""
	for k, nm := 0, 1+r.Intn(2); k < nm; k++ {
		var refs []c11Ref
		c11Collect(top.kids, top, &refs)
		if len(refs) == 0 {
			break
		}
		// prefer typed mutations that reach the documented lax relaxations
		var pick c11Ref
		mode := r.Intn(16)
		byTag := func(tag byte) []c11Ref {
			var o []c11Ref
			for _, x := range refs {
				if len(x.n.id) == 1 && x.n.id[0] == tag && x.n.kids == nil {
					o = append(o, x)
				}
			}
			return o
		}
		switch mode {
		case 0, 1:
			if c := byTag(0x02); len(c) > 0 {
				pick = c[r.Intn(len(c))]
				b := pick.n.content
				if len(b) > 0 {
					pad := byte(0)
					if b[0]&0x80 != 0 {
						pad = 0xff
					}
					pick.n.content = append([]byte{pad}, b...)
					what += "+int-nonminimal"
					continue
				}
			}
		case 2, 3:
			if c := byTag(0x13); len(c) > 0 {
				pick = c[r.Intn(len(c))]
				pick.n.content = append(append([]byte(nil), pick.n.content...), []byte{0xe9, 0x40, 0x80, 0x00, 0x7f}[r.Intn(5)])
				what += "+printable-bad"
				continue
			}
		case 4:
			if c := byTag(0x06); len(c) > 0 {
				pick = c[r.Intn(len(c))]
				if r.Bool() {
					pick.n.content = nil
					what += "+oid-empty"
				} else if len(pick.n.content) > 1 {
					b := pick.n.content
					pick.n.content = append(append(append([]byte(nil), b[:1]...), 0x80), b[1:]...)
					what += "+oid-nonminimal"
				}
				continue
			}
		case 5:
			if c := append(byTag(0x17), byTag(0x18)...); len(c) > 0 {
				pick = c[r.Intn(len(c))]
				if len(pick.n.content) > 0 {
					i := r.Intn(len(pick.n.content))
					pick.n.content = append([]byte(nil), pick.n.content...)
					pick.n.content[i] = "0123456789Z+-."[r.Intn(14)]
					what += "+time-char"
					continue
				}
			}
		case 6:
			if c := byTag(0x01); len(c) > 0 {
				pick = c[r.Intn(len(c))]
				pick.n.content = [][]byte{{1}, {0}, {0xff}, {}, {0, 0}}[r.Intn(5)]
				what += "+bool"
				continue
			}
		}
		pick = refs[r.Intn(len(refs))]
		n := pick.n
		switch r.Intn(9) {
		case 0:
			if n.kids == nil && len(n.content) > 0 {
				n.content = append([]byte(nil), n.content...)
				n.content[r.Intn(len(n.content))] ^= byte(1 << uint(r.Intn(8)))
				what += "+bitflip"
			}
		case 1:
			if n.kids == nil {
				n.content = r.Bytes(r.Intn(len(n.content) + 3))
				what += "+content-random"
			}
		case 2:
			if n.kids == nil && len(n.content) > 0 {
				n.content = n.content[:r.Intn(len(n.content))]
				what += "+content-truncated"
			}
		case 3:
			n.id = append([]byte(nil), n.id...)
			n.id[0] = n.id[0]&0xe0 | byte(r.Intn(31))
			what += "+tag"
		case 4:
			n.id = append([]byte(nil), n.id...)
			n.id[0] ^= []byte{0x20, 0x40, 0x80, 0xc0}[r.Intn(4)]
			what += "+class-or-constructed"
		case 5:
			pick.parent.kids = append(append([]*c11Node(nil), pick.parent.kids[:pick.idx]...), pick.parent.kids[pick.idx+1:]...)
			what += "+delete"
		case 6:
			ks := append([]*c11Node(nil), pick.parent.kids[:pick.idx+1]...)
			ks = append(ks, n)
			pick.parent.kids = append(ks, pick.parent.kids[pick.idx+1:]...)
			what += "+duplicate"
		case 7:
			if len(pick.parent.kids) > 1 {
				j := r.Intn(len(pick.parent.kids))
				ks := append([]*c11Node(nil), pick.parent.kids...)
				ks[pick.idx], ks[j] = ks[j], ks[pick.idx]
				pick.parent.kids = ks
				what += "+swap"
			}
		case 8:
			if n.kids != nil {
				n.kids = append(append([]*c11Node(nil), n.kids...), &c11Node{id: []byte{[]byte{0x05, 0x02, 0x30, 0xa5, 0x04}[r.Intn(5)]}, content: r.Bytes(r.Intn(3))})
				what += "+append-child"
			}
		}
	}
	var out []byte
	for _, k := range top.kids {
		out = append(out, k.encode()...)
	}
	if r.Intn(25) == 0 && len(out) > 3 { // rarely: break the framing itself
		i := 1 + r.Intn(3)
		out[i]++
		what += "+length-lie"
	}
	if what == "" {
		what = "none"
	}
	return out, strings.TrimPrefix(what, "+")
}

// ---------------------------------------------------------------- corpus

type c11Corpus struct {
	certs, crls, csrs, pkcs1, pkcs8, ec, pubs [][]byte
}

func (c *c11Corpus) addPEM(data []byte) {
	for {
		var blk *pem.Block
		blk, data = pem.Decode(data)
		if blk == nil {
			return
		}
		switch blk.Type {
		case "CERTIFICATE":
			c.certs = append(c.certs, blk.Bytes)
		case "X509 CRL":
			c.crls = append(c.crls, blk.Bytes)
		case "CERTIFICATE REQUEST", "NEW CERTIFICATE REQUEST":
			c.csrs = append(c.csrs, blk.Bytes)
		case "RSA PRIVATE KEY":
			if len(blk.Headers) == 0 {
				c.pkcs1 = append(c.pkcs1, blk.Bytes)
			}
		case "PRIVATE KEY":
			c.pkcs8 = append(c.pkcs8, blk.Bytes)
		case "EC PRIVATE KEY":
			if len(blk.Headers) == 0 {
				c.ec = append(c.ec, blk.Bytes)
			}
		case "PUBLIC KEY":
			c.pubs = append(c.pubs, blk.Bytes)
		}
	}
}

func c11LoadCorpus() *c11Corpus {
	c := &c11Corpus{}
	for _, dir := range []string{"testdata", "testdata/invalid", "../testdata", "../trillian/testdata", "../ctutil/testdata", "../x509util/testdata"} {
		ents, err := os.ReadDir(dir)
		if err != nil {
			continue
		}
		var names []string
		for _, e := range ents {
			if !e.IsDir() {
				names = append(names, e.Name())
			}
		}
		sort.Strings(names)
		for _, n := range names {
			b, err := os.ReadFile(filepath.Join(dir, n))
			if err == nil && len(b) < 1<<20 {
				c.addPEM(b)
			}
		}
	}
	for _, s := range []string{pemCertificate, pemPrecertificate, certWithSCTListPEM, dsaCertPem, rsaPSSSelfSignedPEM, ed25519Certificate, oaepCertPEM,
		ecdsaSHA256p256CertPem, certMissingRSANULL, certISOOID, certMultipleRDN, emptyNameConstraintsPEM, badIPMaskPEM, multipleURLsInCRLDPPEM,
		giag2CRL, giag2Cert, pemPublicKey, pemPublicKeyEd25519, pemEd25519Key, ed25519CRLKey} {
		c.addPEM([]byte(s))
	}
	if b, err := base64.StdEncoding.DecodeString(derCRLBase64); err == nil {
		c.crls = append(c.crls, b)
	}
	if b, err := base64.StdEncoding.DecodeString(pemCRLBase64); err == nil {
		c.addPEM(b)
	}
	for _, s := range csrBase64Array {
		if b, err := base64.StdEncoding.DecodeString(s); err == nil {
			c.csrs = append(c.csrs, b)
		}
	}
	return c
}

// ---------------------------------------------------------------- generated certificates (crypto/x509 as the conforming encoder)

type c11Reader struct{ r *verifkit.Rand }

func (x c11Reader) Read(p []byte) (int, error) {
	copy(p, x.r.Bytes(len(p)))
	return len(p), nil
}

func c11ECKey(curve elliptic.Curve, seed []byte) *ecdsa.PrivateKey {
	d := new(big.Int).SetBytes(seed)
	d.Mod(d, new(big.Int).Sub(curve.Params().N, big.NewInt(1)))
	d.Add(d, big.NewInt(1))
	k := &ecdsa.PrivateKey{D: d}
	k.Curve = curve
	k.X, k.Y = curve.ScalarBaseMult(d.Bytes())
	return k
}

var c11Words = []string{"Example", "Test CA", "Acme, Inc.", "München", "東京", "a@b.example", "R&D", "*.wild", "O'Reilly", "x=y", "", "UPPER lower 019", "Zürich GmbH", "semi;colon", "under_score"}

func c11Pick(r *verifkit.Rand, n int) []string {
	var out []string
	for i := 0; i < n; i++ {
		out = append(out, c11Words[r.Intn(len(c11Words))])
	}
	return out
}

func c11Name(r *verifkit.Rand) stdpkix.Name {
	n := stdpkix.Name{CommonName: c11Words[r.Intn(len(c11Words))]}
	if r.Bool() {
		n.Country = []string{[]string{"GB", "US", "DE", "JP"}[r.Intn(4)]}
	}
	if r.Bool() {
		n.Organization = c11Pick(r, 1+r.Intn(2))
	}
	if r.Intn(3) == 0 {
		n.OrganizationalUnit = c11Pick(r, 1+r.Intn(2))
	}
	if r.Intn(3) == 0 {
		n.Locality = c11Pick(r, 1)
	}
	if r.Intn(3) == 0 {
		n.Province = c11Pick(r, 1)
	}
	if r.Intn(4) == 0 {
		n.StreetAddress = c11Pick(r, 1)
	}
	if r.Intn(4) == 0 {
		n.PostalCode = []string{"SW1A 1AA"}
	}
	if r.Intn(4) == 0 {
		n.SerialNumber = "SN-" + fmt.Sprint(r.Intn(100000))
	}
	if r.Intn(4) == 0 {
		n.ExtraNames = []stdpkix.AttributeTypeAndValue{{Type: []int{1, 2, 840, 113549, 1, 9, 1}, Value: "mail@example.com"}, {Type: []int{2, 5, 4, 12}, Value: "Dr"}}[:1+r.Intn(2)]
	}
	if r.Intn(3) == 0 {
		// attribute types under, beside and above the standard id-at attributes (2.5.4.N): none of them is a standard attribute,
		// crypto/x509 leaves all of them in Names only
		beside := [][]int{{2, 5, 4, 3, 1}, {2, 5, 4, 10, 7}, {2, 5, 4, 5, 2}, {2, 5, 4, 6, 0}, {2, 5, 4, 11, 1, 1}, {2, 5, 4}, {2, 5, 5, 3}, {2, 4, 4, 3}, {1, 5, 4, 3}, {0, 5, 4, 10},
			{2, 5, 4, 17, 1}, {2, 5, 4, 65}, {2, 5, 4, 4}, {2, 5, 3, 3}, {2, 5, 4, 7, 3}, {2, 5, 4, 8, 9}, {2, 5, 4, 9, 1}}
		for i, k := 0, 1+r.Intn(3); i < k; i++ {
			n.ExtraNames = append(n.ExtraNames, stdpkix.AttributeTypeAndValue{Type: beside[r.Intn(len(beside))], Value: "near-" + c11Words[r.Intn(len(c11Words))]})
		}
	}
	return n
}

func c11Template(r *verifkit.Rand) *stdx509.Certificate {
	t := &stdx509.Certificate{Subject: c11Name(r)}
	sn := new(big.Int).SetBytes(r.Bytes(1 + r.Intn(20)))
	if sn.Sign() == 0 {
		sn.SetInt64(1)
	}
	t.SerialNumber = sn
	years := []int{1949, 1950, 1950, 1951, 1999, 2000, 2024, 2049, 2049, 2050, 2051, 2100, 9999}
	y1 := years[r.Intn(len(years))]
	t.NotBefore = time.Date(y1, time.Month(1+r.Intn(12)), 1+r.Intn(28), r.Intn(24), r.Intn(60), r.Intn(60), 0, time.UTC)
	t.NotAfter = t.NotBefore.AddDate(r.Intn(60), r.Intn(12), r.Intn(28))
	// both edges of the UTCTime window (1950-01-01 .. 2049-12-31) and their GeneralizedTime neighbours
	edges := []time.Time{time.Date(1949, 12, 31, 23, 59, 59, 0, time.UTC), time.Date(1950, 1, 1, 0, 0, 0, 0, time.UTC), time.Date(1950, 6, 15, 12, 30, 45, 0, time.UTC),
		time.Date(1950, 12, 31, 23, 59, 59, 0, time.UTC), time.Date(1951, 1, 1, 0, 0, 0, 0, time.UTC), time.Date(1999, 12, 31, 23, 59, 59, 0, time.UTC), time.Date(2000, 1, 1, 0, 0, 0, 0, time.UTC),
		time.Date(2049, 12, 31, 23, 59, 59, 0, time.UTC), time.Date(2050, 1, 1, 0, 0, 0, 0, time.UTC)}
	switch r.Intn(4) {
	case 0:
		t.NotBefore = edges[r.Intn(len(edges))]
		if !t.NotAfter.After(t.NotBefore) {
			t.NotAfter = t.NotBefore.AddDate(1, 0, 0)
		}
	case 1:
		i := r.Intn(len(edges))
		t.NotBefore, t.NotAfter = edges[i], edges[i+r.Intn(len(edges)-i)]
	}
	if t.NotAfter.Year() > 9999 {
		t.NotAfter = time.Date(9999, 12, 31, 23, 59, 59, 0, time.UTC)
	}
	if r.Intn(3) != 0 {
		t.KeyUsage = stdx509.KeyUsage(r.Intn(1 << 9))
	}
	if r.Bool() {
		for i, n := 0, 1+r.Intn(3); i < n; i++ {
			t.ExtKeyUsage = append(t.ExtKeyUsage, stdx509.ExtKeyUsage(r.Intn(14)))
		}
	}
	if r.Intn(4) == 0 {
		t.UnknownExtKeyUsage = []asn1Std{{1, 3, 6, 1, 4, 1, 11129, 2, 4, 4}, {2, 5, 29, 37, 99}}[:1+r.Intn(2)]
	}
	if r.Intn(4) == 0 {
		// neighbours of the known usages: one arc (the first included) off, one arc more, one arc less
		known := [][]int{{1, 3, 6, 1, 5, 5, 7, 3, 1 + r.Intn(9)}, {2, 5, 29, 37, 0}, {1, 3, 6, 1, 4, 1, 311, 10, 3, 3}, {2, 16, 840, 1, 113730, 4, 1}, {1, 3, 6, 1, 4, 1, 311, 2, 1, 22},
			{1, 3, 6, 1, 4, 1, 311, 61, 1, 1}, {1, 3, 6, 1, 4, 1, 11129, 2, 4, 4}}
		for i, k := 0, 1+r.Intn(2); i < k; i++ {
			o := append([]int(nil), known[r.Intn(len(known))]...)
			switch r.Intn(4) {
			case 0:
				o[0] = (o[0] + 1) % 3
				if o[0] < 2 && o[1] >= 40 {
					o[1] = 39
				}
			case 1:
				o[2+r.Intn(len(o)-2)]++
			case 2:
				o = append(o, r.Intn(2))
			case 3:
				o = o[:len(o)-1]
			}
			t.UnknownExtKeyUsage = append(t.UnknownExtKeyUsage, o)
		}
	}
	if r.Bool() {
		t.BasicConstraintsValid = true
		t.IsCA = r.Bool()
		if t.IsCA {
			switch r.Intn(3) {
			case 0:
				t.MaxPathLen, t.MaxPathLenZero = 0, true
			case 1:
				t.MaxPathLen = 1 + r.Intn(5)
			default:
				t.MaxPathLen = -1
			}
		} else {
			t.MaxPathLen = -1
		}
	}
	if r.Bool() {
		t.SubjectKeyId = r.Bytes(1 + r.Intn(20))
	}
	if r.Bool() {
		t.AuthorityKeyId = r.Bytes(1 + r.Intn(20))
	}
	if r.Intn(3) == 0 {
		t.OCSPServer = []string{"http://ocsp.example.com", "http://ocsp2.example.com/x"}[:1+r.Intn(2)]
	}
	if r.Intn(3) == 0 {
		t.IssuingCertificateURL = []string{"http://ca.example.com/ca.crt"}
	}
	if r.Intn(3) == 0 {
		t.CRLDistributionPoints = []string{"http://crl.example.com/a.crl", "ldap://crl.example.com/cn=x"}[:1+r.Intn(2)]
	}
	if r.Bool() {
		for i, n := 0, 1+r.Intn(3); i < n; i++ {
			t.DNSNames = append(t.DNSNames, []string{"example.com", "*.example.org", "a.b.c.test", "xn--mnchen-3ya.de", "localhost"}[r.Intn(5)])
		}
	}
	if r.Intn(3) == 0 {
		t.EmailAddresses = []string{"user@example.com", "a.b@c.example"}[:1+r.Intn(2)]
	}
	if r.Intn(3) == 0 {
		t.IPAddresses = []net.IP{net.IPv4(192, 0, 2, byte(r.Intn(256))).To4(), net.ParseIP("2001:db8::1")}[:1+r.Intn(2)]
	}
	if r.Intn(3) == 0 {
		u, _ := url.Parse([]string{"https://example.com/path?q=1", "spiffe://trust.example/workload", "urn:uuid:12345"}[r.Intn(3)])
		t.URIs = []*url.URL{u}
	}
	if t.IsCA && r.Bool() {
		t.PermittedDNSDomainsCritical = r.Bool()
		if r.Bool() {
			t.PermittedDNSDomains = []string{".example.com", "example.org"}[:1+r.Intn(2)]
		}
		if r.Bool() {
			t.ExcludedDNSDomains = []string{"bad.example.com"}
		}
		if r.Intn(3) == 0 {
			t.PermittedIPRanges = []*net.IPNet{{IP: net.IPv4(10, 0, 0, 0).To4(), Mask: net.CIDRMask(8, 32)}, {IP: net.ParseIP("2001:db8::"), Mask: net.CIDRMask(32, 128)}}[:1+r.Intn(2)]
		}
		if r.Intn(3) == 0 {
			t.ExcludedIPRanges = []*net.IPNet{{IP: net.IPv4(192, 168, 0, 0).To4(), Mask: net.CIDRMask(16, 32)}}
		}
		if r.Intn(3) == 0 {
			t.PermittedEmailAddresses = []string{"example.com", "user@example.org"}[:1+r.Intn(2)]
		}
		if r.Intn(4) == 0 {
			t.ExcludedEmailAddresses = []string{".sub.example.com"}
		}
		if r.Intn(3) == 0 {
			t.PermittedURIDomains = []string{".example.com"}
		}
		if r.Intn(4) == 0 {
			t.ExcludedURIDomains = []string{"host.example.net"}
		}
	}
	if r.Intn(3) == 0 {
		t.PolicyIdentifiers = []asn1Std{{2, 23, 140, 1, 2, 1}, {1, 3, 6, 1, 4, 1, 11129, 2, 5, 1}, {2, 5, 29, 32, 0}}[:1+r.Intn(3)]
	}
	if r.Intn(3) == 0 {
		for i, n := 0, 1+r.Intn(2); i < n; i++ {
			t.ExtraExtensions = append(t.ExtraExtensions, stdpkix.Extension{Id: []int{1, 3, 6, 1, 4, 1, 99999, 1 + i}, Critical: r.Intn(3) == 0, Value: r.Bytes(r.Intn(12))})
		}
	}
	if r.Intn(8) == 0 { // CT poison (critical, NULL)
		t.ExtraExtensions = append(t.ExtraExtensions, stdpkix.Extension{Id: []int{1, 3, 6, 1, 4, 1, 11129, 2, 4, 3}, Critical: true, Value: []byte{5, 0}})
	}
	return t
}

type asn1Std = stdasn1.ObjectIdentifier

// ---------------------------------------------------------------- outcome classes

type c11Out struct {
	obj    bool
	class  string // none | nonfatal:n | fatal
	panick string
}

func (o c11Out) String() string {
	if o.panick != "" {
		return "panic"
	}
	return verifkit.B(o.obj) + " " + o.class
}

func c11Class(err error) string {
	if err == nil {
		return "none"
	}
	if !IsFatal(err) {
		switch e := err.(type) {
		case NonFatalErrors:
			return fmt.Sprintf("nonfatal:%d", len(e.Errors))
		case *Errors:
			return fmt.Sprintf("nonfatal:%d", len(e.Errs))
		}
		return "nonfatal:?"
	}
	return "fatal"
}

func c11IsNil(v interface{}) bool {
	if v == nil {
		return true
	}
	rv := reflect.ValueOf(v)
	switch rv.Kind() {
	case reflect.Ptr, reflect.Slice, reflect.Map, reflect.Interface:
		return rv.IsNil()
	}
	return false
}

func c11Call(f func() (interface{}, error)) (o c11Out) {
	o.panick = verifkit.Guard(func() {
		v, err := f()
		o.obj = !c11IsNil(v)
		o.class = c11Class(err)
	})
	return
}

func c11Coherent(o c11Out) bool {
	if o.panick != "" {
		return false
	}
	if o.obj {
		return o.class != "fatal"
	}
	return o.class == "fatal"
}

// c11Sub reports whether sub is a sub-slice of whole sharing its backing array, and where.
func c11Sub(whole, sub []byte) (int, bool) {
	if len(sub) == 0 {
		return 0, false
	}
	off := cap(whole) - cap(sub)
	if off < 0 || off+len(sub) > len(whole) {
		return 0, false
	}
	if &whole[off] != &sub[0] {
		return 0, false
	}
	return off, true
}

// c11Positions: offsets and lengths (in der) of the TBS, issuer, subject and SPKI elements by position; nil if the framing
// is not plain enough to walk (then only aliasing and wholeness are checked).
func c11Positions(der []byte) [][2]int {
	_, hl0, l0, ok := c11ReadHeader(der)
	if !ok || hl0+l0 != len(der) {
		return nil
	}
	_, hl1, l1, ok := c11ReadHeader(der[hl0:])
	if !ok {
		return nil
	}
	out := [][2]int{{hl0, hl1 + l1}}
	off, end := hl0+hl1, hl0+hl1+l1
	idx := 0
	if off < end && der[off] == 0xa0 {
		_, h, l, ok := c11ReadHeader(der[off:end])
		if !ok {
			return nil
		}
		off += h + l
	}
	for off < end && idx < 6 {
		_, h, l, ok := c11ReadHeader(der[off:end])
		if !ok {
			return nil
		}
		if idx == 2 || idx == 4 || idx == 5 {
			out = append(out, [2]int{off, h + l})
		}
		off += h + l
		idx++
	}
	if len(out) != 4 {
		return nil
	}
	return out
}

func c11Envelope(der []byte) (cert *certificate, laxed bool, rest []byte, ok bool) {
	cert = new(certificate)
	rest, err := asn1.Unmarshal(der, cert)
	if err != nil {
		cert = new(certificate)
		rest, err = asn1.UnmarshalWithParams(der, cert, "lax")
		if err != nil {
			return nil, false, nil, false
		}
		laxed = true
	}
	return cert, laxed, rest, true
}

func c11OID(o asn1.ObjectIdentifier) string {
	if len(o) == 0 {
		return "-"
	}
	return o.String()
}

func c11EnvAnswer(tbs *tbsCertificate, raw []byte, laxed bool, rest []byte) string {
	var sb strings.Builder
	if laxed {
		sb.WriteString("l ")
	} else {
		sb.WriteString("s ")
	}
	fmt.Fprintf(&sb, "%s R %s %s %s %s %s E%d", verifkit.Hex(rest), verifkit.Hex(raw), verifkit.Hex(tbs.Raw), verifkit.Hex(tbs.Issuer.FullBytes),
		verifkit.Hex(tbs.Subject.FullBytes), verifkit.Hex(tbs.PublicKey.Raw), len(tbs.Extensions))
	for _, e := range tbs.Extensions {
		fmt.Fprintf(&sb, " %s %s %s", c11OID(e.Id), verifkit.B(e.Critical), verifkit.Hex(e.Value))
	}
	return sb.String()
}

func c11InnerClass(cert *certificate) (string, c11Out) {
	o := c11Call(func() (interface{}, error) {
		c, err := parseCertificate(cert)
		switch err.(type) {
		case *Errors, *NonFatalErrors:
			panic(fmt.Sprintf("parseCertificate returned an error of type %T (InnerOK: only nil, NonFatalErrors or an ordinary error)", err))
		}
		return c, err
	})
	switch {
	case o.panick != "":
		return "fatal", o
	case o.class == "none":
		return "ok", o
	case strings.HasPrefix(o.class, "nonfatal:"):
		return "nfe" + strings.TrimPrefix(o.class, "nonfatal:"), o
	}
	return "fatal", o
}

func TestVerifC11(t *testing.T) {
	out := verifkit.Open()
	defer out.Close()
	r := verifkit.NewRand(verifkit.Seed())
	corpus := c11LoadCorpus()
	out.Sample(fmt.Sprintf("corpus: %d certificates, %d CRLs, %d CSRs, %d PKCS#1, %d PKCS#8, %d SEC1, %d public keys", len(corpus.certs), len(corpus.crls), len(corpus.csrs), len(corpus.pkcs1), len(corpus.pkcs8), len(corpus.ec), len(corpus.pubs)))

	check := func(entry string, der []byte, o c11Out) {
		out.Count("entry:" + entry)
		key := entry + " " + verifkit.Hex(der)
		if o.panick != "" {
			out.Fail("panic "+key, o.panick)
		} else if !c11Coherent(o) {
			out.Fail("incoherent "+key, "returned (object present="+verifkit.B(o.obj)+", error class "+o.class+")")
		}
		if o.obj {
			out.Count("mode:" + entry + "-object")
		}
	}

	// ---- IsFatal on every kind of error value the package produces (replayed on the model's isFatal)
	for _, k := range []struct {
		n string
		e error
	}{{"nil", nil}, {"plain", fmt.Errorf("x")}, {"asn1", asn1.SyntaxError{Msg: "x"}}, {"nfe:0", NonFatalErrors{}}, {"nfe:2", NonFatalErrors{Errors: []error{fmt.Errorf("a"), fmt.Errorf("b")}}},
		{"nfeptr:1", &NonFatalErrors{Errors: []error{fmt.Errorf("a")}}}, {"errs:-", &Errors{}}, {"errs:0", &Errors{Errs: []Error{{Fatal: false}}}},
		{"errs:1", &Errors{Errs: []Error{{Fatal: true}}}}, {"errs:001", &Errors{Errs: []Error{{}, {}, {Fatal: true}}}}, {"errs:00", &Errors{Errs: []Error{{}, {}}}}} {
		out.T("isfatal "+k.n, verifkit.B(IsFatal(k.e)))
	}

	// ---- one certificate through the certificate entry points
	var pool [][]byte // inputs that parse (strictly or via lax) as exactly one certificate: pieces for the concatenation law
	var poolInner []string
	var poolLax []bool
	nLaxPool := 0
	nFatalPool := 0
	oneTBS := func(tbs []byte, class string) {
		out.Count("class:tbs-" + class)
		to := c11Call(func() (interface{}, error) { return ParseTBSCertificate(tbs) })
		check("ParseTBSCertificate", tbs, to)
		var tc tbsCertificate
		trest, terr := asn1.Unmarshal(tbs, &tc)
		tlax := false
		if terr != nil {
			tc = tbsCertificate{}
			trest, terr = asn1.UnmarshalWithParams(tbs, &tc, "lax")
			tlax = true
		}
		if terr != nil {
			out.T("env tbs "+verifkit.Hex(tbs), "fatal")
			out.T("ptbs "+verifkit.Hex(tbs)+" -", to.String())
			return
		}
		out.T("env tbs "+verifkit.Hex(tbs), c11EnvAnswer(&tc, tc.Raw, tlax, trest))
		ti, _ := c11InnerClass(&certificate{Raw: tc.Raw, TBSCertificate: tc})
		out.T("ptbs "+verifkit.Hex(tbs)+" "+ti, to.String())
	}
	oneCert := func(der []byte, class string) {
		out.Count("class:" + class)
		hx := verifkit.Hex(der)
		cert, laxed, rest, ok := c11Envelope(der)
		inner := "-"
		if !ok {
			out.T("env cert "+hx, "fatal")
		} else {
			out.T("env cert "+hx, c11EnvAnswer(&cert.TBSCertificate, cert.Raw, laxed, rest))
			if laxed {
				out.Count("mode:envelope-lax")
			} else {
				out.Count("mode:envelope-strict")
			}
			var io c11Out
			inner, io = c11InnerClass(cert)
			if io.panick != "" {
				out.Fail("panic parseCertificate "+hx, io.panick)
			} else if !c11Coherent(io) {
				out.Fail("incoherent parseCertificate "+hx, io.String())
			}
		}
		if ok && len(rest) == 0 && ((laxed && nLaxPool < 200) || (inner == "fatal" && nFatalPool < 60) || (!laxed && inner != "fatal" && r.Intn(3) == 0 && len(pool)-nLaxPool-nFatalPool < 400)) {
			if laxed {
				nLaxPool++
			} else if inner == "fatal" {
				nFatalPool++
			}
			pool = append(pool, der)
			poolInner = append(poolInner, inner)
			poolLax = append(poolLax, laxed)
		}
		var parsed *Certificate
		o := c11Call(func() (interface{}, error) {
			c, err := ParseCertificate(der)
			parsed = c
			return c, err
		})
		check("ParseCertificate", der, o)
		out.T("pc "+hx+" "+inner, o.String())
		if parsed != nil {
			for _, f := range []struct {
				n string
				b []byte
			}{{"Raw", parsed.Raw}, {"RawTBSCertificate", parsed.RawTBSCertificate}, {"RawIssuer", parsed.RawIssuer}, {"RawSubject", parsed.RawSubject}, {"RawSubjectPublicKeyInfo", parsed.RawSubjectPublicKeyInfo}} {
				off, ok := c11Sub(der, f.b)
				if !ok {
					out.Fail("raw-slice "+f.n+" "+hx, "not a sub-slice of the input")
					continue
				}
				// the slice must be exactly one element: header + declared length
				if _, hl, l, ok := c11ReadHeader(der[off:]); !ok || hl+l != len(f.b) {
					out.Fail("raw-slice "+f.n+" "+hx, fmt.Sprintf("offset %d length %d is not one whole element", off, len(f.b)))
				}
			}
			if len(parsed.Raw) != len(der) {
				out.Fail("raw-slice Raw "+hx, "Raw is not the whole input")
			}
			// each raw field is the element at *its* position: TBS = first element of the certificate content; inside the TBS,
			// after an optional [0] version: serial, signature, ISSUER, validity, SUBJECT, SPKI
			if pos := c11Positions(der); pos != nil {
				for _, f := range []struct {
					n    string
					b    []byte
					want [2]int
				}{{"RawTBSCertificate", parsed.RawTBSCertificate, pos[0]}, {"RawIssuer", parsed.RawIssuer, pos[1]}, {"RawSubject", parsed.RawSubject, pos[2]}, {"RawSubjectPublicKeyInfo", parsed.RawSubjectPublicKeyInfo, pos[3]}} {
					if off, ok := c11Sub(der, f.b); ok && (off != f.want[0] || len(f.b) != f.want[1]) {
						out.Fail("raw-slice position "+f.n+" "+hx, fmt.Sprintf("is input[%d:%d], the element at its position is input[%d:%d]", off, off+len(f.b), f.want[0], f.want[0]+f.want[1]))
					}
				}
			} else {
				out.Count("mode:raw-position-not-checked")
			}
			oneTBS(parsed.RawTBSCertificate, class)
			if r.Intn(6) == 0 {
				oneTBS(append(append([]byte(nil), parsed.RawTBSCertificate...), r.Bytes(1+r.Intn(3))...), class+"-trailing")
			}
			if r.Intn(4) == 0 {
				m, _ := c11Mutate(r, parsed.RawTBSCertificate)
				oneTBS(m, class+"-tbs-mutated")
			}
		}
		check("ParseCertificates", der, c11Call(func() (interface{}, error) {
			cs, err := ParseCertificates(der)
			if cs == nil {
				return nil, err
			}
			return cs, err // unmodified: an (object, fatal) pair must show up as incoherent
		}))
	}

	// ---- (b) conformance on well-formed certificates: fork vs crypto/x509, field by field
	edSigner := ed25519.NewKeyFromSeed(bytes.Repeat([]byte{7}, 32))
	var rsaSigner *rsa.PrivateKey
	if blk, _ := pem.Decode([]byte(pemPrivateKey)); blk != nil {
		rsaSigner, _ = stdx509.ParsePKCS1PrivateKey(blk.Bytes)
	}
	subjectKeys := []interface{}{edSigner.Public(), &c11ECKey(elliptic.P256(), r.Bytes(32)).PublicKey, &c11ECKey(elliptic.P384(), r.Bytes(48)).PublicKey}
	if rsaSigner != nil {
		subjectKeys = append(subjectKeys, &rsaSigner.PublicKey)
	}
	nGen := verifkit.N(120, 2500)
	var generated [][]byte
	for i := 0; i < nGen; i++ {
		tmpl := c11Template(r)
		issuer := &stdx509.Certificate{Subject: c11Name(r), SubjectKeyId: tmpl.AuthorityKeyId}
		var signer interface{} = edSigner
		if rsaSigner != nil && r.Bool() {
			signer = rsaSigner
			tmpl.SignatureAlgorithm = []stdx509.SignatureAlgorithm{stdx509.SHA256WithRSA, stdx509.SHA384WithRSA, stdx509.SHA512WithRSA}[r.Intn(3)]
		}
		der, err := stdx509.CreateCertificate(c11Reader{r}, tmpl, issuer, subjectKeys[r.Intn(len(subjectKeys))], signer)
		if err != nil {
			out.Count("mode:template-rejected-by-encoder")
			continue
		}
		generated = append(generated, der)
		oneCert(der, "generated")
		std, serr := stdx509.ParseCertificate(der)
		fork, ferr := ParseCertificate(der)
		hx := verifkit.Hex(der)
		if serr != nil {
			out.Count("mode:stdlib-rejects-own-output")
			continue
		}
		if ferr != nil || fork == nil {
			out.Fail("conformance error "+hx, fmt.Sprintf("well-formed certificate (crypto/x509 parses it) gave error %v", ferr))
			continue
		}
		if diff := c11Compare(fork, std); diff != "" {
			out.Fail("conformance field "+diff+" "+hx, "fork and crypto/x509 disagree on "+diff)
		} else {
			out.Count("mode:conformance-equal")
		}
		// the same certificate with one object identifier replaced by a neighbour (extension ids, key usages, attribute types,
		// algorithm and curve identifiers, policy ids, access methods): wherever crypto/x509 still parses it, the fork must
		// parse it too and report the same fields — an identifier is the one it is only if EVERY arc agrees
		if i%3 == 0 || verifkit.Thorough() {
			ms, whats := c11OIDNearMisses(r, der, 2)
			for j, m := range ms {
				ms2, serr2 := stdx509.ParseCertificate(m)
				if serr2 != nil {
					out.Count("mode:oid-near-miss-stdlib-rejects")
					continue
				}
				check("ParseCertificate", m, c11Call(func() (interface{}, error) { return ParseCertificate(m) }))
				mf, ferr2 := ParseCertificate(m)
				if mf == nil || (ferr2 != nil && IsFatal(ferr2)) {
					out.Fail("oid-near-miss error "+whats[j]+" "+verifkit.Hex(m), fmt.Sprintf("crypto/x509 parses the certificate with the identifier %s, the fork gives %v", whats[j], ferr2))
					continue
				}
				if diff := c11Compare(mf, ms2); diff != "" {
					out.Fail("oid-near-miss field "+diff+" "+whats[j]+" "+verifkit.Hex(m), "identifier "+whats[j]+": fork and crypto/x509 disagree on "+diff)
				} else {
					out.Count("mode:oid-near-miss-equal")
				}
			}
		}
	}

	// ---- certificates without any OPTIONAL part (no extensions, no unique ids; Ed25519: no algorithm parameters) and with
	//      unique ids, for the ordered pairs of the concatenation law
	var bare, withUID [][]byte
	for i := 0; i < 6; i++ {
		tmpl := &stdx509.Certificate{SerialNumber: big.NewInt(int64(1000 + i)), Subject: stdpkix.Name{CommonName: fmt.Sprintf("bare-%d", i)},
			NotBefore: time.Date(2020+i, 1, 2, 3, 4, 5, 0, time.UTC), NotAfter: time.Date(2030+i, 1, 2, 3, 4, 5, 0, time.UTC)}
		var signer interface{} = edSigner
		if i%2 == 1 && rsaSigner != nil {
			signer = rsaSigner
			tmpl.SignatureAlgorithm = stdx509.SHA256WithRSA
		}
		der, err := stdx509.CreateCertificate(c11Reader{r}, tmpl, &stdx509.Certificate{Subject: stdpkix.Name{CommonName: "plain issuer"}}, edSigner.Public(), signer)
		if err != nil {
			continue
		}
		bare = append(bare, der)
		oneCert(der, "generated-bare")
		// the same certificate with issuerUniqueID [1] and subjectUniqueID [2] spliced into the TBS (signature no longer valid: irrelevant here)
		if roots, ok := c11ParseSeq(der, 3); ok && len(roots) == 1 && len(roots[0].kids) == 3 && roots[0].kids[0].kids != nil {
			tbs := roots[0].kids[0]
			tbs.kids = append(append([]*c11Node(nil), tbs.kids...), &c11Node{id: []byte{0x81}, content: []byte{0x00, 0xaa, byte(i)}}, &c11Node{id: []byte{0x82}, content: []byte{0x04, 0xf0}})
			u := roots[0].encode()
			withUID = append(withUID, u)
			oneCert(u, "generated-uniqueid")
		}
	}

	// ---- (a) testdata + mutations
	for _, c := range corpus.certs {
		oneCert(c, "testdata")
		if r.Intn(8) == 0 {
			oneCert(append(append([]byte(nil), c...), [][]byte{{0}, {5, 0}, {0x30, 0}, {0xff, 0xff, 0xff}}[r.Intn(4)]...), "trailing")
		}
	}
	base := append(append([][]byte(nil), corpus.certs...), generated...)
	nMut := verifkit.N(700, 30000)
	for i := 0; i < nMut && len(base) > 0; i++ {
		m, what := c11Mutate(r, base[r.Intn(len(base))])
		out.Count("mut:" + strings.SplitN(what, "+", 2)[0])
		oneCert(m, "mutated")
	}

	// ---- (c) concatenations
	nCat := verifkit.N(150, 5000)
	nF7 := 0
	// ordered pairs first: (rich, bare), (unique ids, bare), (RSA-signed = with algorithm parameters, Ed25519-signed = without), both orders, and a few triples
	var ordered [][]int
	addPool := func(der []byte) int {
		for i, p := range pool {
			if bytes.Equal(p, der) {
				return i
			}
		}
		cert, laxed, rest, ok := c11Envelope(der)
		if !ok || len(rest) != 0 {
			return -1
		}
		inner, _ := c11InnerClass(cert)
		pool = append(pool, der)
		poolInner = append(poolInner, inner)
		poolLax = append(poolLax, laxed)
		return len(pool) - 1
	}
	var richIdx, bareIdx, uidIdx []int
	for i, g := range generated {
		if i < 12 {
			if x := addPool(g); x >= 0 {
				richIdx = append(richIdx, x)
			}
		}
	}
	for _, b := range bare {
		if x := addPool(b); x >= 0 {
			bareIdx = append(bareIdx, x)
		}
	}
	for _, u := range withUID {
		if x := addPool(u); x >= 0 {
			uidIdx = append(uidIdx, x)
		}
	}
	for _, a := range append(append([]int(nil), richIdx...), uidIdx...) {
		for j, b := range bareIdx {
			if j < 3 {
				ordered = append(ordered, []int{a, b}, []int{b, a}, []int{a, b, a, b})
			}
		}
	}
	for i := 0; i+1 < len(bareIdx); i++ {
		ordered = append(ordered, []int{bareIdx[i], bareIdx[i+1]}, []int{bareIdx[i+1], bareIdx[i]})
	}
	for i := 0; i < nCat+len(ordered) && len(pool) > 0; i++ {
		k := 1 + r.Intn(4)
		var fixedPick []int
		if i < len(ordered) {
			fixedPick = ordered[i]
			k = len(fixedPick)
		}
		var cat []byte
		var desc []string
		exp := c11Out{obj: true}
		nfe := 0
		fatal := false
		anyLax := ""
		var picks []int
		for j := 0; j < k; j++ {
			x := r.Intn(len(pool))
			if fixedPick != nil {
				x = fixedPick[j]
			}
			picks = append(picks, x)
			if poolLax[x] {
				anyLax = "lax-piece "
			}
			cat = append(cat, pool[x]...)
			desc = append(desc, verifkit.Hex(pool[x])+" "+poolInner[x])
			po := c11Call(func() (interface{}, error) { return ParseCertificate(pool[x]) })
			switch {
			case po.class == "fatal" || po.panick != "":
				fatal = true
			case strings.HasPrefix(po.class, "nonfatal:"):
				var n int
				fmt.Sscanf(po.class, "nonfatal:%d", &n)
				nfe += n
			}
		}
		switch {
		case fatal:
			exp = c11Out{obj: false, class: "fatal"}
		case nfe > 0:
			exp.class = fmt.Sprintf("nonfatal:%d", nfe)
		default:
			exp.class = "none"
		}
		var gotCerts []*Certificate
		got := c11Call(func() (interface{}, error) {
			cs, err := ParseCertificates(cat)
			gotCerts = cs
			if cs == nil {
				return nil, err
			}
			return cs, err
		})
		if got.obj && got.panick == "" {
			// certificate by certificate: as many results as pieces, in order, each built from its own piece and equal to
			// what ParseCertificate returns for that piece alone
			if len(gotCerts) != k {
				out.Fail(fmt.Sprintf("concat-count k=%d %s", k, verifkit.Hex(cat)), fmt.Sprintf("%d certificates returned for %d pieces", len(gotCerts), k))
			} else {
				off := 0
				for j, x := range picks {
					alone, _ := ParseCertificate(pool[x])
					if !bytes.Equal(gotCerts[j].Raw, pool[x]) {
						out.Fail(fmt.Sprintf("concat-piece %d/%d %s", j, k, verifkit.Hex(cat)), "Raw of the result is not the piece at that position")
					} else if o2, ok := c11Sub(cat, gotCerts[j].Raw); !ok || o2 != off {
						out.Fail(fmt.Sprintf("concat-piece %d/%d %s", j, k, verifkit.Hex(cat)), "Raw of the result does not alias the concatenation at the piece's offset")
					} else if alone == nil || !reflect.DeepEqual(gotCerts[j], alone) {
						detail := "certificate differs from ParseCertificate on the piece alone"
						if alone != nil {
							detail += fmt.Sprintf(": in the concatenation %d extensions, KeyUsage=%d, IsCA=%v, DNSNames=%v, unique-id-bearing TBS=%v; alone %d extensions, KeyUsage=%d, IsCA=%v, DNSNames=%v",
								len(gotCerts[j].Extensions), gotCerts[j].KeyUsage, gotCerts[j].IsCA, gotCerts[j].DNSNames, len(gotCerts[j].RawTBSCertificate) != len(alone.RawTBSCertificate),
								len(alone.Extensions), alone.KeyUsage, alone.IsCA, alone.DNSNames)
						}
						out.Fail(fmt.Sprintf("concat-piece %d/%d %s", j, k, verifkit.Hex(cat)), detail)
					}
					off += len(pool[x])
				}
				out.Count("mode:concat-per-certificate-equal")
			}
		}
		out.T(fmt.Sprintf("pcs %d %s", k, strings.Join(desc, " ")), got.String())
		out.Count("class:concatenation")
		if got.String() != exp.String() && anyLax != "" && nF7 >= 8 {
			out.Count("diff:concat-lax-piece")
		} else if got.String() != exp.String() {
			if anyLax != "" {
				nF7++
			}
			out.Fail(fmt.Sprintf("concat %sk=%d expected=[%s] %s", anyLax, k, exp.String(), verifkit.Hex(cat)), "ParseCertificates on the concatenation gave ("+got.String()+") but ParseCertificate on the pieces gives ("+exp.String()+")")
		} else {
			out.Count("mode:concat-agrees")
		}
	}

	// ---- the other entry points: envelope lines + totality + coherence
	other := func(kind, entry string, ty func() interface{}, f func([]byte) (interface{}, error), inputs [][]byte, n int) {
		run := func(der []byte, class string) {
			out.Count("class:" + kind + "-" + class)
			v := ty()
			rest, err := asn1.Unmarshal(der, v)
			if err != nil {
				out.T("env "+kind+" "+verifkit.Hex(der), "fatal")
			} else {
				out.T("env "+kind+" "+verifkit.Hex(der), "s "+verifkit.Hex(rest))
			}
			check(entry, der, c11Call(func() (interface{}, error) { return f(der) }))
		}
		for _, in := range inputs {
			run(in, "testdata")
		}
		for i := 0; i < n && len(inputs) > 0; i++ {
			m, _ := c11Mutate(r, inputs[r.Intn(len(inputs))])
			run(m, "mutated")
		}
	}
	nO := verifkit.N(120, 4000)
	// generated keys / CSRs / CRLs from the standard library
	ecK := c11ECKey(elliptic.P256(), r.Bytes(32))
	if b, err := stdx509.MarshalECPrivateKey(ecK); err == nil {
		corpus.ec = append(corpus.ec, b)
	}
	// SEC1 keys whose privateKey OCTET STRING is shorter than / as long as / longer than the order size: 0–4 leading zero octets in
	// front of the scalar (tolerated on purpose, as crypto/x509 does), a short scalar, and an over-long one that does not start with
	// zero; each also inside PKCS#8. Oracle: whenever crypto/x509 and this package both return a key, it is the same scalar.
	sameScalar := func(entry string, der []byte, mine func([]byte) (interface{}, error), std func([]byte) (interface{}, error)) {
		var a, b interface{}
		if verifkit.Guard(func() { a, _ = mine(der); b, _ = std(der) }) != "" {
			return // reported as a panic by check() below
		}
		ka, okA := a.(*ecdsa.PrivateKey)
		kb, okB := b.(*ecdsa.PrivateKey)
		if okA && okB && ka != nil && kb != nil {
			out.Count("mode:ec-scalar-compared")
			if ka.D.Cmp(kb.D) != 0 || ka.X.Cmp(kb.X) != 0 {
				out.Fail("ec-scalar "+entry+" "+verifkit.Hex(der), "key differs from crypto/x509's: D="+ka.D.Text(16)+" vs "+kb.D.Text(16))
			}
		}
	}
	for ci, curve := range []elliptic.Curve{elliptic.P256(), elliptic.P224(), elliptic.P384(), elliptic.P521()} {
		k := c11ECKey(curve, r.Bytes(70))
		oid, _ := OIDFromNamedCurve(curve)
		size := (curve.Params().N.BitLen() + 7) / 8
		scalar := k.D.FillBytes(make([]byte, size))
		var variants [][]byte
		for pad := 0; pad <= 4; pad++ {
			variants = append(variants, append(make([]byte, pad), scalar...))
		}
		variants = append(variants, k.D.Bytes()[len(k.D.Bytes())/2:], append([]byte{1}, scalar...), append([]byte{0, 1}, scalar...), []byte{}, make([]byte, size+2))
		for vi, priv := range variants {
			if ci > 0 && vi > 5 && !verifkit.Thorough() {
				continue
			}
			sec1, err := asn1.Marshal(ecPrivateKey{Version: 1, PrivateKey: priv, NamedCurveOID: oid})
			if err != nil {
				continue
			}
			corpus.ec = append(corpus.ec, sec1)
			sameScalar("ParseECPrivateKey", sec1, func(b []byte) (interface{}, error) { return ParseECPrivateKey(b) }, func(b []byte) (interface{}, error) { return stdx509.ParseECPrivateKey(b) })
			inner, err := asn1.Marshal(ecPrivateKey{Version: 1, PrivateKey: priv})
			if err != nil {
				continue
			}
			oidDER, _ := asn1.Marshal(oid)
			p8, err := asn1.Marshal(pkcs8{Version: 0, Algo: pkix.AlgorithmIdentifier{Algorithm: OIDPublicKeyECDSA, Parameters: asn1.RawValue{FullBytes: oidDER}}, PrivateKey: inner})
			if err != nil {
				continue
			}
			corpus.pkcs8 = append(corpus.pkcs8, p8)
			sameScalar("ParsePKCS8PrivateKey", p8, func(b []byte) (interface{}, error) { return ParsePKCS8PrivateKey(b) }, func(b []byte) (interface{}, error) { return stdx509.ParsePKCS8PrivateKey(b) })
		}
	}
	for _, k := range []interface{}{ecK, edSigner, rsaSigner} {
		if k == nil || reflect.ValueOf(k).IsNil() {
			continue
		}
		if b, err := stdx509.MarshalPKCS8PrivateKey(k); err == nil {
			corpus.pkcs8 = append(corpus.pkcs8, b)
		}
	}
	if rsaSigner != nil {
		corpus.pkcs1 = append(corpus.pkcs1, stdx509.MarshalPKCS1PrivateKey(rsaSigner))
	}
	for _, k := range subjectKeys {
		if b, err := stdx509.MarshalPKIXPublicKey(k); err == nil {
			corpus.pubs = append(corpus.pubs, b)
		}
	}
	if b, err := stdx509.CreateCertificateRequest(c11Reader{r}, &stdx509.CertificateRequest{Subject: c11Name(r), DNSNames: []string{"csr.example.com"}, EmailAddresses: []string{"a@example.com"}}, edSigner); err == nil {
		corpus.csrs = append(corpus.csrs, b)
	}
	if len(generated) > 0 {
		if ca, err := stdx509.ParseCertificate(generated[0]); err == nil {
			ca.KeyUsage |= stdx509.KeyUsageCRLSign
			ca.SubjectKeyId = []byte{1, 2, 3}
			rl := &stdx509.RevocationList{Number: big.NewInt(7), ThisUpdate: time.Date(2024, 1, 1, 0, 0, 0, 0, time.UTC), NextUpdate: time.Date(2051, 1, 1, 0, 0, 0, 0, time.UTC),
				RevokedCertificateEntries: []stdx509.RevocationListEntry{{SerialNumber: big.NewInt(5), RevocationTime: time.Date(2023, 5, 5, 5, 5, 5, 0, time.UTC), ReasonCode: 1}, {SerialNumber: big.NewInt(1 << 40), RevocationTime: time.Date(2023, 6, 6, 6, 6, 6, 0, time.UTC)}}}
			if b, err := stdx509.CreateRevocationList(c11Reader{r}, rl, ca, edSigner); err == nil {
				corpus.crls = append(corpus.crls, b)
			}
		}
	}
	other("crl", "ParseDERCRL", func() interface{} { return new(pkix.CertificateList) }, func(b []byte) (interface{}, error) { return ParseDERCRL(b) }, corpus.crls, nO)
	other("crl", "ParseCRL", func() interface{} { return new(pkix.CertificateList) }, func(b []byte) (interface{}, error) { return ParseCRL(b) }, corpus.crls, nO/4)
	other("csr", "ParseCertificateRequest", func() interface{} { return new(certificateRequest) }, func(b []byte) (interface{}, error) { return ParseCertificateRequest(b) }, corpus.csrs, nO)
	other("spki", "ParsePKIXPublicKey", func() interface{} { return new(publicKeyInfo) }, func(b []byte) (interface{}, error) { return ParsePKIXPublicKey(b) }, corpus.pubs, nO)
	other("pkcs1", "ParsePKCS1PrivateKey", func() interface{} { return new(pkcs1PrivateKey) }, func(b []byte) (interface{}, error) { return ParsePKCS1PrivateKey(b) }, corpus.pkcs1, nO)
	other("pkcs8", "ParsePKCS8PrivateKey", func() interface{} { return new(pkcs8) }, func(b []byte) (interface{}, error) { return ParsePKCS8PrivateKey(b) }, corpus.pkcs8, nO)
	other("ec", "ParseECPrivateKey", func() interface{} { return new(ecPrivateKey) }, func(b []byte) (interface{}, error) { return ParseECPrivateKey(b) }, corpus.ec, nO)

	// ParseCertificateList / ParseCertificateListDER: accumulation of *Errors
	crlRun := func(der []byte, class string) {
		out.Count("class:crl-" + class)
		var errs error
		o := c11Call(func() (interface{}, error) {
			l, err := ParseCertificateListDER(der)
			errs = err
			return l, err
		})
		check("ParseCertificateListDER", der, o)
		check("ParseCertificateList", der, c11Call(func() (interface{}, error) { return ParseCertificateList(der) }))
		if o.panick != "" {
			return
		}
		flags, hard := "-", "0"
		switch e := errs.(type) {
		case nil:
		case *Errors:
			var sb strings.Builder
			for _, x := range e.Errs {
				sb.WriteString(verifkit.B(x.Fatal))
			}
			if sb.Len() > 0 {
				flags = sb.String()
			}
		default:
			hard = "1"
		}
		out.T("crl "+verifkit.Hex(der)+" "+flags+" "+hard, o.String())
	}
	for _, c := range corpus.crls {
		crlRun(c, "testdata")
	}
	for i := 0; i < nO && len(corpus.crls) > 0; i++ {
		m, _ := c11Mutate(r, corpus.crls[r.Intn(len(corpus.crls))])
		crlRun(m, "mutated")
	}
	// PEM front of ParseCRL / ParseCertificateList: complete blocks (must behave as the DER inside), blocks of another type, and
	// look-alikes for which pem.Decode finds no block — the armour prefix alone, a BEGIN line without END, a block cut anywhere
	// before the end of its END line, a broken base64 body, headers, trailing text. Oracles: no panic, coherence, and for a
	// complete "X509 CRL" block the same outcome as for its DER. (PEM decoding is not modelled: implementation-side only.)
	pemRun := func(in []byte, class string) (c11Out, c11Out) {
		out.Count("class:crl-pem-" + class)
		a := c11Call(func() (interface{}, error) { return ParseCRL(in) })
		b := c11Call(func() (interface{}, error) { return ParseCertificateList(in) })
		check("ParseCRL", in, a)
		check("ParseCertificateList", in, b)
		return a, b
	}
	pemInputs := append([][]byte{}, corpus.crls...)
	pemInputs = append(pemInputs, []byte{0x30, 0x03, 0x02, 0x01, 0x01}, []byte{}, []byte{0x30, 0x00})
	for i, der := range pemInputs {
		if i >= 6 && !verifkit.Thorough() {
			break
		}
		full := pem.EncodeToMemory(&pem.Block{Type: "X509 CRL", Bytes: der})
		a, b := pemRun(full, "complete")
		da := c11Call(func() (interface{}, error) { return ParseDERCRL(der) })
		db := c11Call(func() (interface{}, error) { return ParseCertificateListDER(der) })
		if a.String() != da.String() || b.String() != db.String() {
			out.Fail("pem-crl "+verifkit.Hex(full), "PEM block gives ("+a.String()+" / "+b.String()+"), its DER gives ("+da.String()+" / "+db.String()+")")
		}
		pemRun(pem.EncodeToMemory(&pem.Block{Type: "X509 CRL", Headers: map[string]string{"Proc-Type": "4,ENCRYPTED"}, Bytes: der}), "headers")
		pemRun(pem.EncodeToMemory(&pem.Block{Type: "X509 CRL PARAMETERS", Bytes: der}), "other-type")
		pemRun(append(append([]byte{}, full...), []byte("trailing text\n")...), "trailing")
		pemRun(append([]byte("leading text\n"), full...), "leading")
		for cut := 1; cut <= 32 && cut < len(full); cut++ {
			pemRun(full[:len(full)-cut], "cut")
		}
		for k := 0; k < 12; k++ {
			pemRun(full[:r.Intn(len(full)+1)], "cut")
		}
		bad := append([]byte{}, full...)
		if len(bad) > 30 {
			bad[27] = '*'
		}
		pemRun(bad, "bad-base64")
		pemRun(bytes.Replace(full, []byte("-----END X509 CRL-----"), []byte("-----END CERTIFICATE-----"), 1), "end-mismatch")
	}
	for _, lit := range []string{"-----BEGIN X509 CRL", "-----BEGIN X509 CRL-----", "-----BEGIN X509 CRL-----\n", "-----BEGIN X509 CRL-----\nMAMCAQE=\n-----END X509 CRL-",
		"-----BEGIN X509 CRL-----\nMAMCAQE=\n", "-----BEGIN X509 CRL-----\n-----END X509 CRL-----\n", "-----BEGIN X509 CRLX-----\nMAMCAQE=\n-----END X509 CRLX-----\n",
		"-----BEGIN X509 CRL-----\r\nMAMCAQE=\r\n-----END X509 CRL-----", "-----BEGIN X509 CRL----- \nMAMCAQE=\n-----END X509 CRL-----\n"} {
		pemRun([]byte(lit), "literal")
	}

	// random bytes through everything
	for i := 0; i < verifkit.N(60, 2000); i++ {
		b := r.Bytes(r.Intn(40))
		if r.Bool() && len(b) > 2 {
			b[0], b[1] = 0x30, byte(len(b)-2)
		}
		oneCert(b, "random")
		crlRun(b, "random")
	}
}

func c11Strs(a, b []string) bool {
	if len(a) == 0 && len(b) == 0 {
		return true
	}
	return reflect.DeepEqual(a, b)
}

func c11Name2(a pkix.Name, b stdpkix.Name) bool {
	return c11Strs(a.Country, b.Country) && c11Strs(a.Organization, b.Organization) && c11Strs(a.OrganizationalUnit, b.OrganizationalUnit) &&
		c11Strs(a.Locality, b.Locality) && c11Strs(a.Province, b.Province) && c11Strs(a.StreetAddress, b.StreetAddress) &&
		c11Strs(a.PostalCode, b.PostalCode) && a.SerialNumber == b.SerialNumber && a.CommonName == b.CommonName && c11ATVs(a.Names, b.Names)
}

// every attribute, in order: same type, same decoded value
func c11ATVs(a []pkix.AttributeTypeAndValue, b []stdpkix.AttributeTypeAndValue) bool {
	if len(a) != len(b) {
		return false
	}
	for i := range a {
		if !reflect.DeepEqual([]int(a[i].Type), []int(b[i].Type)) || fmt.Sprint(a[i].Value) != fmt.Sprint(b[i].Value) {
			return false
		}
	}
	return true
}

func c11OIDs(a []asn1.ObjectIdentifier, b []asn1Std) bool {
	if len(a) != len(b) {
		return false
	}
	for i := range a {
		if !reflect.DeepEqual([]int(a[i]), []int(b[i])) {
			return false
		}
	}
	return true
}

func c11Nets(a, b []*net.IPNet) bool {
	if len(a) != len(b) {
		return false
	}
	for i := range a {
		if a[i].String() != b[i].String() {
			return false
		}
	}
	return true
}

// c11Compare returns the name of the first field on which the fork and crypto/x509 disagree ("" if none).
func c11Compare(f *Certificate, s *stdx509.Certificate) string {
	type chk struct {
		n  string
		ok bool
	}
	// extended key usages as a multiset of tokens; the fork additionally knows the CT usage 1.3.6.1.4.1.11129.2.4.4
	// (a deliberate extension of the enumeration), which crypto/x509 reports as unknown
	var ft, st []string
	for _, e := range f.ExtKeyUsage {
		if e == ExtKeyUsageCertificateTransparency {
			ft = append(ft, "o1.3.6.1.4.1.11129.2.4.4")
		} else {
			ft = append(ft, fmt.Sprintf("k%d", int(e)))
		}
	}
	for _, o := range f.UnknownExtKeyUsage {
		ft = append(ft, "o"+o.String())
	}
	for _, e := range s.ExtKeyUsage {
		st = append(st, fmt.Sprintf("k%d", int(e)))
	}
	for _, o := range s.UnknownExtKeyUsage {
		st = append(st, "o"+o.String())
	}
	sort.Strings(ft)
	sort.Strings(st)
	ekus := reflect.DeepEqual(ft, st)
	pol := len(f.PolicyIdentifiers) == len(s.PolicyIdentifiers)
	if pol {
		for i := range f.PolicyIdentifiers {
			pol = pol && reflect.DeepEqual([]int(f.PolicyIdentifiers[i]), []int(s.PolicyIdentifiers[i]))
		}
	}
	ips := len(f.IPAddresses) == len(s.IPAddresses)
	if ips {
		for i := range f.IPAddresses {
			ips = ips && f.IPAddresses[i].Equal(s.IPAddresses[i])
		}
	}
	uris := len(f.URIs) == len(s.URIs)
	if uris {
		for i := range f.URIs {
			uris = uris && f.URIs[i].String() == s.URIs[i].String()
		}
	}
	exts := len(f.Extensions) == len(s.Extensions)
	if exts {
		for i := range f.Extensions {
			exts = exts && reflect.DeepEqual([]int(f.Extensions[i].Id), []int(s.Extensions[i].Id)) && f.Extensions[i].Critical == s.Extensions[i].Critical && bytes.Equal(f.Extensions[i].Value, s.Extensions[i].Value)
		}
	}
	unh := len(f.UnhandledCriticalExtensions) == len(s.UnhandledCriticalExtensions)
	if unh {
		for i := range f.UnhandledCriticalExtensions {
			unh = unh && reflect.DeepEqual([]int(f.UnhandledCriticalExtensions[i]), []int(s.UnhandledCriticalExtensions[i]))
		}
	}
	for _, c := range []chk{
		{"Raw", bytes.Equal(f.Raw, s.Raw)}, {"RawTBSCertificate", bytes.Equal(f.RawTBSCertificate, s.RawTBSCertificate)},
		{"RawSubjectPublicKeyInfo", bytes.Equal(f.RawSubjectPublicKeyInfo, s.RawSubjectPublicKeyInfo)},
		{"RawSubject", bytes.Equal(f.RawSubject, s.RawSubject)}, {"RawIssuer", bytes.Equal(f.RawIssuer, s.RawIssuer)},
		{"Signature", bytes.Equal(f.Signature, s.Signature)}, {"SignatureAlgorithm", f.SignatureAlgorithm.String() == s.SignatureAlgorithm.String()},
		{"PublicKeyAlgorithm", f.PublicKeyAlgorithm.String() == s.PublicKeyAlgorithm.String()}, {"PublicKey", reflect.DeepEqual(f.PublicKey, s.PublicKey)},
		{"Version", f.Version == s.Version}, {"SerialNumber", f.SerialNumber.Cmp(s.SerialNumber) == 0},
		{"Issuer", c11Name2(f.Issuer, s.Issuer)}, {"Subject", c11Name2(f.Subject, s.Subject)},
		{"NotBefore", f.NotBefore.Equal(s.NotBefore)}, {"NotAfter", f.NotAfter.Equal(s.NotAfter)},
		{"KeyUsage", int(f.KeyUsage) == int(s.KeyUsage)}, {"ExtKeyUsage+UnknownExtKeyUsage (multiset of usages)", ekus},
		{"BasicConstraintsValid", f.BasicConstraintsValid == s.BasicConstraintsValid}, {"IsCA", f.IsCA == s.IsCA},
		{"MaxPathLen", f.MaxPathLen == s.MaxPathLen}, {"MaxPathLenZero", f.MaxPathLenZero == s.MaxPathLenZero},
		{"SubjectKeyId", bytes.Equal(f.SubjectKeyId, s.SubjectKeyId)}, {"AuthorityKeyId", bytes.Equal(f.AuthorityKeyId, s.AuthorityKeyId)},
		{"OCSPServer", c11Strs(f.OCSPServer, s.OCSPServer)}, {"IssuingCertificateURL", c11Strs(f.IssuingCertificateURL, s.IssuingCertificateURL)},
		{"DNSNames", c11Strs(f.DNSNames, s.DNSNames)}, {"EmailAddresses", c11Strs(f.EmailAddresses, s.EmailAddresses)}, {"IPAddresses", ips}, {"URIs", uris},
		{"PermittedDNSDomainsCritical", f.PermittedDNSDomainsCritical == s.PermittedDNSDomainsCritical},
		{"PermittedDNSDomains", c11Strs(f.PermittedDNSDomains, s.PermittedDNSDomains)}, {"ExcludedDNSDomains", c11Strs(f.ExcludedDNSDomains, s.ExcludedDNSDomains)},
		{"PermittedIPRanges", c11Nets(f.PermittedIPRanges, s.PermittedIPRanges)}, {"ExcludedIPRanges", c11Nets(f.ExcludedIPRanges, s.ExcludedIPRanges)},
		{"PermittedEmailAddresses", c11Strs(f.PermittedEmailAddresses, s.PermittedEmailAddresses)}, {"ExcludedEmailAddresses", c11Strs(f.ExcludedEmailAddresses, s.ExcludedEmailAddresses)},
		{"PermittedURIDomains", c11Strs(f.PermittedURIDomains, s.PermittedURIDomains)}, {"ExcludedURIDomains", c11Strs(f.ExcludedURIDomains, s.ExcludedURIDomains)},
		{"CRLDistributionPoints", c11Strs(f.CRLDistributionPoints, s.CRLDistributionPoints)}, {"PolicyIdentifiers", pol},
		{"Extensions", exts}, {"UnhandledCriticalExtensions", unh},
		// fields only the fork has: nothing in a generated template feeds them
		{"fork-only fields empty (SIA, RPKI, SCT list)", len(f.SubjectTimestamps) == 0 && len(f.SubjectCARepositories) == 0 && len(f.RPKIAddressRanges) == 0 &&
			f.RPKIASNumbers == nil && f.RPKIRoutingDomainIDs == nil && len(f.RawSCT) == 0 && len(f.SCTList.SCTList) == 0},
	} {
		if !c.ok {
			return c.n
		}
	}
	return ""
}
