//go:build verif

// In-package half of the C03 harness (added by the /verif overlay): gives the external harness
// (package x509_test, which may import the root ct package) access to the unexported tbsCertificate type
// and to removeExtension with an arbitrary OID.
package x509

import "github.com/google/certificate-transparency-go/asn1"

// VerifRemarshalTBS does what removeExtension/BuildPrecertTBS do around their edit: strict unmarshal into
// tbsCertificate (no trailing data), clear Raw, marshal.
func VerifRemarshalTBS(tbsData []byte) ([]byte, error) {
	var tbs tbsCertificate
	rest, err := asn1.Unmarshal(tbsData, &tbs)
	if err != nil {
		return nil, err
	}
	if len(rest) > 0 {
		return nil, asn1.SyntaxError{Msg: "trailing data"}
	}
	tbs.Raw = nil
	return asn1.Marshal(tbs)
}

// VerifRemoveExtension is removeExtension.
func VerifRemoveExtension(tbsData []byte, oid asn1.ObjectIdentifier) ([]byte, error) {
	return removeExtension(tbsData, oid)
}
